(* Proofs/FuseInsertGenProofs.v — the GENERATED `_fuse_blocks_via_insert` (Gen/FuseGen.v, tr/gen_fuse.py:
   slice table from `accum_for_split` over the extents, per-sector selector, placement of every
   transposed + reshaped block into its fused block), applied to the results of the GENERATED
   `calc_fuse_block_info` as `_fuse_core` does, EQUALS the dict of blocks of the hand model
   `fuse_core` (Model/Array.v) — Leibniz equality of the association list, insertion order and every
   tensor included. *)
From SV Require Import Base.Prelude Base.PyList Base.Sym Base.Tensor Model.Sectors Model.Array Model.Wf
  Gen.Helpers Gen.FuseGen Proofs.OrderProofs Proofs.FuseProofs Proofs.FuseGroups Proofs.GroupFacts Proofs.WfProofs
  Proofs.HelpersProofs Proofs.FuseGenProofs.
From Coq Require Import Lia Permutation.
Local Open Scope nat_scope.

(* ================================================================== *)
(* 1. the generated function cut into named pieces (checked by reflexivity) *)
Section IMirror.
  Context (G : Symmetry) (R : Ring).
  Notation sector := (list (C G)).
  Notation keq := (list_eqb (ceqb G)).
  Notation slice := (option (Z * Z)).
  Context (NG : Z) (SING PERM : list Z) (POS : Z) (nix : list (index G)) (bm : list (sector * bm_val G)).

  Definition i_exts (ix : index G) : list (C G * list (sector * nat)) :=
    match isub G ix with Some si => snd si | None => [] end.

  Definition i_ranges : C G * list (sector * nat) -> C G * list (sector * slice) :=
    fun '(c, e) => (c, g_dict_of keq (List.combine (map fst e) (map Some (accum_for_split (map Z.of_nat (map snd e)))))).

  Definition i_slices : list (option (list (C G * list (sector * slice)))) :=
    map (fun k => if negb (mem Z.eqb k SING)
                  then Some (g_dict_of (ceqb G) (map i_ranges (i_exts (py_nth (dflt_index G) nix (Z.add POS k)))))
                  else None) (zrange NG).

  Definition i_sel (SLK : list (option (list (C G * list (sector * slice))))) (ns : sector)
    : list slice -> Z * sector -> list slice :=
    fun sel '(k, ss) =>
      if negb (mem Z.eqb k SING)
      then g_lupd sel (Z.add POS k)
             (fun _ => dget keq None (dget (ceqb G) [] (g_the [] (py_nth None SLK k)) (py_nth (ident G) ns (Z.add POS k))) ss)
      else sel.

  Definition i_step (SLK : list (option (list (C G * list (sector * slice)))))
    : list slice * list (sector * tensor R) -> sector * tensor R -> list slice * list (sector * tensor R) :=
    fun '(sel, nb) '(s, b) =>
      let '((shape, ns), subs) := dget keq ([], [], []) bm s in
      let arr := treshape R (ttranspose R b (map Z.to_nat PERM)) shape in
      let sel' := fold_left (i_sel SLK ns) (py_enumerate subs) sel in
      let nb' :=
        (let tgt := match lookup keq ns nb with
                    | Some t => t
                    | None => tzeros R (map (fun '(ix, c) => size_of G ix c) (List.combine nix ns))
                    end in
         dset keq ns (tassign R tgt (map (fun p => g_slice_range (fst p) (snd p)) (List.combine (tshape tgt) sel')) arr) nb) in
      (sel', nb').

  Definition i_blocks (blocks : list (sector * tensor R)) : list (sector * tensor R) :=
    let '(sel, nb) := fold_left (i_step i_slices) blocks (repeat None (Z.to_nat (Z.of_nat (length nix))), []) in nb.
End IMirror.

Lemma gen_insert_is_mirror (G : Symmetry) (R : Ring) blocks NG SING PERM POS nix bm :
  gen_fuse_blocks_via_insert G R blocks NG SING PERM POS nix bm = i_blocks G R NG SING PERM POS nix bm blocks.
Proof. reflexivity. Qed.

(* ================================================================== *)
(* 2. dict facts *)
Section DictMore.
  Context {K : Type} (e : K -> K -> bool) (He : eqb_spec_on e).

  Lemma g_dict_of_nodup {V} (l : list (K * V)) : NoDup (map fst l) -> g_dict_of e l = l.
  Proof.
    intros Hnd. unfold g_dict_of.
    assert (H : forall acc, NoDup (map fst l) -> (forall p, In p l -> ~ In (fst p) (map fst acc)) ->
                fold_left (fun d p => dset e (fst p) (snd p) d) l acc = acc ++ l).
    { clear Hnd. induction l as [|[k v] l IH]; intros acc Hn Hd; cbn [fold_left]; [now rewrite app_nil_r|].
      cbn [map fst] in Hn. inversion Hn as [|? ? Hk Hn']; subst. cbn [fst snd].
      rewrite (keys_dset_notin e He) by (apply (Hd (k, v)); now left).
      rewrite IH; [now rewrite <- app_assoc|exact Hn'|].
      intros p Hp Hin. rewrite map_app, in_app_iff in Hin. destruct Hin as [Hin|Hin].
      - apply (Hd p); [now right|exact Hin].
      - cbn [map fst In] in Hin. destruct Hin as [E|[]]. apply Hk. rewrite E. now apply in_map. }
    apply (H [] Hnd). intros p _ [].
  Qed.

  Lemma lookup_map_vals {V W} (f : K * V -> K * W) (Hf : forall p, fst (f p) = fst p) k (l : list (K * V)) :
    lookup e k (map f l) = match lookup e k l with Some v => Some (snd (f (k, v))) | None => None end.
  Proof.
    induction l as [|[k0 v0] l IH]; cbn [map lookup]; [reflexivity|].
    pose proof (Hf (k0, v0)) as H0. destruct (f (k0, v0)) as [k1 w1] eqn:E. cbn [fst] in H0. subst k1.
    destruct (e k k0) eqn:Ek; [|exact IH]. apply He in Ek. subst k0. now rewrite E.
  Qed.

  Lemma lookup_combine_map {V W} (f : V -> W) k (ks : list K) (vs : list V) :
    lookup e k (List.combine ks (map f vs)) =
    match lookup e k (List.combine ks vs) with Some v => Some (f v) | None => None end.
  Proof.
    revert vs. induction ks as [|k0 ks IH]; intros [|v vs]; cbn [map List.combine lookup]; try reflexivity.
    destruct (e k k0); [reflexivity|apply IH].
  Qed.

  Lemma lookup_combine_some {V} k (ks : list K) (vs : list V) :
    length vs = length ks -> In k ks -> exists v, lookup e k (List.combine ks vs) = Some v.
  Proof.
    revert vs. induction ks as [|k0 ks IH]; intros [|v vs] Hl Hin; cbn [length] in Hl; try lia; [destruct Hin|].
    cbn [List.combine lookup]. destruct (e k k0) eqn:Ek; [now exists v|].
    destruct Hin as [->|Hin]; [rewrite (proj2 (He k k) eq_refl) in Ek; discriminate|].
    apply IH; [lia|exact Hin].
  Qed.

  Lemma map_fst_combine {V} (ks : list K) (vs : list V) : length vs = length ks -> map fst (List.combine ks vs) = ks.
  Proof.
    revert vs. induction ks as [|k0 ks IH]; intros [|v vs] Hl; cbn [length] in Hl; try lia; [reflexivity|].
    cbn [List.combine map fst]. f_equal. apply IH. lia.
  Qed.

  (* a dict filled by d[k] = f k: what a later read returns *)
  Lemma lookup_fold_dset_fn {V} (f : K -> V) k : forall l acc,
    lookup e k (fold_left (fun d s => dset e s (f s) d) l acc) =
    if mem e k l then Some (f k) else lookup e k acc.
  Proof.
    induction l as [|a l IH]; intros acc; cbn [fold_left mem]; [reflexivity|].
    rewrite IH, (lookup_dset e He). destruct (mem e k l) eqn:Em.
    - now rewrite orb_true_r.
    - rewrite orb_false_r. destruct (e k a) eqn:Ea; [apply He in Ea; now subst|reflexivity].
  Qed.
End DictMore.

Lemma starts_from_length a sizes : length (starts_from a sizes) = length sizes.
Proof. revert a. induction sizes as [|d r IH]; intros a; cbn [starts_from length]; [reflexivity|now rewrite IH]. Qed.

Lemma py_enum_from_seq {A} (d : A) (l : list A) k :
  py_enum_from (Z.of_nat k) l = map (fun i => (Z.of_nat (k + i), nth i l d)) (seq 0 (length l)).
Proof.
  revert k. induction l as [|x l IH]; intros k; [reflexivity|].
  cbn [py_enum_from length seq map nth]. rewrite Nat.add_0_r. f_equal.
  replace (Z.of_nat k + 1)%Z with (Z.of_nat (S k)) by lia. rewrite IH, <- seq_shift, map_map.
  apply map_ext. intros i. cbn [nth]. do 2 f_equal. lia.
Qed.

Lemma py_enumerate_seq {A} (d : A) (l : list A) :
  py_enumerate l = map (fun i => (Z.of_nat i, nth i l d)) (seq 0 (length l)).
Proof. unfold py_enumerate. exact (py_enum_from_seq d l 0). Qed.

(* ================================================================== *)
(* 3. the placement, on the tables of the model *)
Section ISpec.
  Context (G : Symmetry) (R : Ring) (Hceq : eqb_spec_on (ceqb G)).
  Context (ixs : list (index G)) (groups : list (list nat)) (Hok : groups_ok (length ixs) groups).
  Context (secs : list (list (C G))).
  Notation n := (length ixs).
  Notation m := (length groups).
  Notation pos := (fuse_position groups).
  Notation SL := (fused_layout (length ixs) groups).
  Notation L := (length (fused_layout (length ixs) groups)).
  Notation dflt := (dflt_index G).
  Notation idc := (ident G).
  Notation sector := (list (C G)).
  Notation keq := (list_eqb (ceqb G)).
  Notation FI := (fused_index G ixs secs).
  Notation nixs := (fused_indices G ixs secs groups).
  Notation POS := (Z.of_nat (fuse_position groups)).
  Notation NG := (Z.of_nat (length groups)).
  Notation gk k := (nth k groups []).
  Context (SING : list Z)
          (HSING : forall k, k < m -> mem Z.eqb (Z.of_nat k) SING = is_singlet (nth k groups [])).
  (* the sub-index tables are dicts (distinct keys) that record every stored sector *)
  Context (HT : forall k, k < m -> is_singlet (nth k groups []) = false ->
            exists subs ext, isub G (FI (nth k groups [])) = Some (subs, ext) /\ NoDup (map fst ext) /\
              forall s, In s secs ->
                exists e sz, lookup (ceqb G) (group_charge G ixs s (nth k groups [])) ext = Some e /\
                             NoDup (map fst e) /\
                             lookup keq (group_subsector G s (nth k groups [])) e = Some sz).

  Lemma keqE : eqb_spec_on keq. Proof. exact (list_eqb_spec _ Hceq). Qed.

  Lemma nixs_slots : nixs = map FI SL.
  Proof. destruct (fuse_tables_by_slot G ixs secs groups []) as (_ & _ & E & _). exact E. Qed.

  Lemma nixs_length : length nixs = L.
  Proof. now rewrite nixs_slots, map_length. Qed.

  Lemma nixs_nth j : j < L -> nth j nixs dflt = FI (nth j SL []).
  Proof.
    intros Hj. rewrite nixs_slots. rewrite (nth_indep _ dflt (FI [])) by (now rewrite map_length).
    apply (map_nth FI).
  Qed.

  Lemma group_slot k : k < m -> pos + k < L /\ nth (pos + k) SL [] = nth k groups [].
  Proof.
    intros Hk. pose proof (SL_length G ixs groups) as HL. split; [lia|].
    destruct (slot_cases G ixs groups (pos + k) ltac:(lia)) as [[H _]|[[_ E0]|[H _]]]; [lia| |lia].
    rewrite E0. f_equal. lia.
  Qed.

  (* the slice the generated table hands out for the sub-sector of a stored sector *)
  Definition slice_of (s : sector) (k : nat) : option (Z * Z) :=
    let r := sub_range G (FI (gk k)) (group_charge G ixs s (gk k)) (group_subsector G s (gk k)) in
    Some (Z.of_nat (fst r), Z.of_nat (fst r + snd r)).

  Lemma slk_nth k : k < m ->
    py_nth None (i_slices G NG SING POS nixs) (Z.of_nat k) =
    if is_singlet (gk k) then None
    else Some (g_dict_of (ceqb G) (map (i_ranges G) (i_exts G (FI (gk k))))).
  Proof.
    intros Hk. unfold i_slices. rewrite py_nth_nat, zrange_nat. unfold zl. rewrite map_map.
    set (F := fun x : nat => if negb (mem Z.eqb (Z.of_nat x) SING)
                             then Some (g_dict_of (ceqb G) (map (i_ranges G) (i_exts G (py_nth dflt nixs (POS + Z.of_nat x)%Z))))
                             else None).
    rewrite (nth_indep (map F (seq 0 m)) None (F 0)) by (now rewrite map_length, seq_length).
    rewrite (map_nth F), seq_nth by exact Hk. cbn [Nat.add]. unfold F.
    rewrite (HSING k Hk), zadd_nat, py_nth_nat.
    destruct (group_slot k Hk) as [Hj E]. rewrite (nixs_nth _ Hj), E.
    now destruct (is_singlet (gk k)).
  Qed.

  Lemma slice_lookup s k : In s secs -> k < m -> is_singlet (gk k) = false ->
    dget keq None (dget (ceqb G) [] (g_dict_of (ceqb G) (map (i_ranges G) (i_exts G (FI (gk k)))))
                     (group_charge G ixs s (gk k))) (group_subsector G s (gk k)) = slice_of s k.
  Proof.
    intros Hs Hk Hsg. destruct (HT k Hk Hsg) as (subs & ext & Ei & Hnd & Hrec).
    destruct (Hrec s Hs) as (e & sz & Ec & Hnde & Ess).
    unfold slice_of, sub_range, i_exts. rewrite Ei. cbn [snd]. rewrite Ec.
    assert (Hfst : forall p, fst (i_ranges G p) = fst p) by (intros [c0 e0]; reflexivity).
    rewrite (g_dict_of_nodup (ceqb G) Hceq) by (rewrite map_map; rewrite (map_ext _ fst Hfst); exact Hnd).
    unfold dget at 2. rewrite (lookup_map_vals (ceqb G) Hceq (i_ranges G) Hfst), Ec. unfold i_ranges. cbn [snd].
    change (map Z.of_nat (map snd e)) with (zl (map snd e)). rewrite gen_accum_for_split.
    set (st := starts_from 0 (map snd e)).
    assert (Hlen : length (List.combine st (map snd e)) = length (map fst e)).
    { rewrite combine_length. unfold st. rewrite starts_from_length, !map_length. lia. }
    rewrite (g_dict_of_nodup keq keqE)
      by (rewrite (map_fst_combine); [exact Hnde|rewrite 2!map_length; exact Hlen]).
    unfold dget. rewrite map_map, (lookup_combine_map keq).
    destruct (lookup_combine_some keq keqE (group_subsector G s (gk k)) (map fst e) (List.combine st (map snd e)) Hlen)
      as [r Er].
    { apply (lookup_In keq keqE) in Ess. apply in_map_iff. exists (group_subsector G s (gk k), sz). split; [reflexivity|exact Ess]. }
    rewrite Er. reflexivity.
  Qed.

  (* ---- the selector after one stored sector ---- *)
  Ltac bd :=
    repeat match goal with
           | |- context [Nat.ltb ?a ?b] => destruct (Nat.ltb_spec a b)
           | |- context [Nat.eqb ?a ?b] => destruct (Nat.eqb_spec a b)
           | |- context [Nat.leb ?a ?b] => destruct (Nat.leb_spec a b)
           end; cbn [andb negb orb]; try lia; try reflexivity.

  Definition sel_ok (sel : list (option (Z * Z))) : Prop :=
    length sel = L /\ forall j, j < L -> fusedb groups j = false -> nth j sel None = None.

  Definition sel_at (s : sector) (j : nat) : option (Z * Z) :=
    match slot_group groups j with
    | Some k => if is_singlet (gk k) then None else slice_of s k
    | None => None
    end.
  Definition sel_of (s : sector) : list (option (Z * Z)) := map (sel_at s) (seq 0 L).

  Lemma sel_of_nth s j : j < L -> nth j (sel_of s) None = sel_at s j.
  Proof.
    intros Hj. unfold sel_of. rewrite (nth_indep _ None (sel_at s 0)) by (now rewrite map_length, seq_length).
    now rewrite (map_nth (sel_at s)), seq_nth.
  Qed.

  Lemma sel_of_ok s : sel_ok (sel_of s).
  Proof.
    split; [unfold sel_of; now rewrite map_length, seq_length|].
    intros j Hj Hf. rewrite (sel_of_nth s j Hj). unfold sel_at. unfold fusedb in Hf.
    destruct (slot_group groups j) as [k|]; [|reflexivity]. apply negb_false_iff in Hf. now rewrite Hf.
  Qed.

  Lemma fold_left_map' {A B C0} (f : A -> B -> A) (g : C0 -> B) (l : list C0) (a : A) :
    fold_left f (map g l) a = fold_left (fun a x => f a (g x)) l a.
  Proof. revert a. induction l as [|x l IH]; intros a; [reflexivity|]. cbn [map fold_left]. apply IH. Qed.

  Lemma fused_sector_nth s j : j < L -> nth j (fused_sector G ixs groups s) idc = group_charge G ixs s (nth j SL []).
  Proof.
    intros Hj. destruct (fuse_tables_by_slot G ixs secs groups s) as (_ & E & _). rewrite E.
    change (slots (length ixs) groups) with SL.
    rewrite (nth_indep _ idc (group_charge G ixs s [])) by (now rewrite map_length).
    apply (map_nth (group_charge G ixs s)).
  Qed.

  Lemma sel_fold s sel : In s secs -> sel_ok sel ->
    fold_left (i_sel G SING POS (i_slices G NG SING POS nixs) (fused_sector G ixs groups s))
              (py_enumerate (map (group_subsector G s) groups)) sel = sel_of s.
  Proof.
    intros Hs [Hl Hnone]. pose proof (SL_length G ixs groups) as HL.
    rewrite (py_enumerate_seq []), map_length, fold_left_map'.
    assert (Hinv : forall t, t <= m ->
              exists sel', fold_left (fun a x => i_sel G SING POS (i_slices G NG SING POS nixs) (fused_sector G ixs groups s) a
                                                   (Z.of_nat x, nth x (map (group_subsector G s) groups) [])) (seq 0 t) sel = sel' /\
                length sel' = L /\
                forall j, j < L -> nth j sel' None =
                  match slot_group groups j with
                  | Some k => if Nat.ltb k t && negb (is_singlet (gk k)) then slice_of s k else nth j sel None
                  | None => nth j sel None end).
    { induction t as [|t IH]; intros Ht.
      - exists sel. split; [reflexivity|]. split; [exact Hl|]. intros j Hj. destruct (slot_group groups j); reflexivity.
      - destruct (IH ltac:(lia)) as (sel' & E & M & P). rewrite seq_S, fold_left_app, E. cbn [fold_left Nat.add].
        unfold i_sel at 1. rewrite (HSING t) by lia.
        destruct (is_singlet (gk t)) eqn:Es; cbn [negb].
        + exists sel'. split; [reflexivity|]. split; [exact M|]. intros j Hj. rewrite (P j Hj).
          destruct (slot_group groups j) as [k|] eqn:Ek; [|reflexivity].
          destruct (Nat.eqb_spec k t) as [->|Hne]; [rewrite Es; cbn [negb]; now rewrite !andb_false_r|bd].
        + rewrite zadd_nat, g_lupd_nat, (slk_nth t) by lia. rewrite Es. cbn [g_the]. rewrite py_nth_nat.
          destruct (group_slot t ltac:(lia)) as [Hj0 Eg].
          rewrite (fused_sector_nth s _ Hj0), Eg.
          assert (Ess : nth t (map (group_subsector G s) groups) [] = group_subsector G s (gk t))
            by (exact (map_nth (group_subsector G s) groups [] t)).
          rewrite Ess, (slice_lookup s t Hs ltac:(lia) Es).
          eexists. split; [reflexivity|]. rewrite g_upd_nat_length. split; [exact M|].
          intros j Hj. rewrite g_upd_nat_nth by lia. rewrite (P j Hj).
          destruct (slot_group groups j) as [k|] eqn:Ek.
          * destruct (slot_group_lt groups j k Ek) as [Hk ->].
            destruct (Nat.eqb_spec k t) as [->|Hne]; [rewrite Es; bd|bd].
          * pose proof (slot_group_None groups j t Ek ltac:(lia)). bd. }
    destruct (Hinv m (le_n _)) as (sel' & E & M & P). rewrite E.
    apply (nth_ext1 _ _ None); [destruct (sel_of_ok s) as [H _]; now rewrite M, H|].
    intros j Hj. rewrite M in Hj. rewrite (P j Hj), (sel_of_nth s j Hj). unfold sel_at.
    destruct (slot_group groups j) as [k|] eqn:Ek.
    - destruct (slot_group_lt groups j k Ek) as [Hk _].
      assert (E1 : Nat.ltb k m = true) by (apply Nat.ltb_lt; exact Hk). rewrite E1. cbn [andb].
      destruct (is_singlet (gk k)) eqn:Es; cbn [negb]; [|reflexivity].
      apply Hnone; [exact Hj|]. unfold fusedb. now rewrite Ek, Es.
    - apply Hnone; [exact Hj|]. unfold fusedb. now rewrite Ek.
  Qed.

  (* ---- the selector handed to tassign is the model's fuse_selector ---- *)
  Lemma block_shape_length (ns : sector) : length ns = L -> length (block_shape G nixs ns) = L.
  Proof. intros H. unfold block_shape. rewrite map_length, combine_length, nixs_length, H. lia. Qed.

  Lemma fused_sector_length s : length (fused_sector G ixs groups s) = L.
  Proof. destruct (fuse_tables_by_slot G ixs secs groups s) as (_ & E & _). rewrite E. apply map_length. Qed.

  Lemma block_shape_nth (ns : sector) j : length ns = L -> j < L ->
    nth j (block_shape G nixs ns) 0 = size_of G (nth j nixs dflt) (nth j ns idc).
  Proof.
    intros Hl Hj. unfold block_shape.
    rewrite (nth_indep _ 0 ((fun p : index G * C G => size_of G (fst p) (snd p)) (dflt, idc)))
      by (rewrite map_length, combine_length, nixs_length, Hl; lia).
    rewrite (map_nth (fun p : index G * C G => size_of G (fst p) (snd p))), combine_nth by (now rewrite nixs_length, Hl).
    reflexivity.
  Qed.

  Lemma sel_ranges s :
    map (fun p => g_slice_range (fst p) (snd p)) (List.combine (block_shape G nixs (fused_sector G ixs groups s)) (sel_of s)) =
    fuse_selector G ixs nixs groups s.
  Proof.
    destruct (fuse_tables_by_slot G ixs secs groups s) as (_ & _ & _ & _ & E). rewrite E.
    change (slots (length ixs) groups) with SL.
    pose proof (fused_sector_length s) as Hns. pose proof (block_shape_length _ Hns) as Hbs.
    destruct (sel_of_ok s) as [Hsl _].
    apply (nth_ext1 _ _ (0, 0)); [rewrite !map_length, combine_length, Hbs, Hsl; lia|].
    intros j Hj. rewrite map_length, combine_length, Hbs, Hsl in Hj. assert (Hj' : j < L) by lia.
    rewrite (nth_indep _ (0, 0) ((fun p : nat * option (Z * Z) => g_slice_range (fst p) (snd p)) (0, None)))
      by (rewrite map_length, combine_length, Hbs, Hsl; lia).
    rewrite (map_nth (fun p : nat * option (Z * Z) => g_slice_range (fst p) (snd p))), combine_nth by (now rewrite Hbs, Hsl).
    cbn [fst snd]. rewrite (block_shape_nth _ j Hns Hj'), (nixs_nth j Hj'), (fused_sector_nth s j Hj'), (sel_of_nth s j Hj').
    rewrite (nth_indep _ (0, 0) (slot_range G ixs secs s [])) by (now rewrite map_length).
    rewrite (map_nth (slot_range G ixs secs s)). unfold slot_range, sel_at.
    pose proof (fusedb_singlet G ixs groups j Hj') as Hfs. unfold fusedb in Hfs.
    destruct (slot_group groups j) as [k|] eqn:Ek.
    - rewrite (slot_group_nth G ixs groups j k Hj' Ek) in Hfs |- *.
      destruct (is_singlet (gk k)) eqn:Es; [reflexivity|].
      unfold slice_of, g_slice_range.
      destruct (sub_range G (FI (gk k)) (group_charge G ixs s (gk k)) (group_subsector G s (gk k))) as [a b].
      cbn [fst snd]. f_equal; lia.
    - rewrite Hfs. reflexivity.
  Qed.

  (* ---- one stored block ---- *)
  Context (perm : list nat).
  Definition bm_model : list (sector * bm_val G) :=
    fold_left (fun bm s => dset keq s (fused_block_shape G ixs groups s, fused_sector G ixs groups s,
                                        map (group_subsector G s) groups) bm) secs [].

  Definition f_step (acc : list (sector * tensor R)) (sb : sector * tensor R) : list (sector * tensor R) :=
    let s := fst sb in
    let ns := fused_sector G ixs groups s in
    let arr := treshape R (ttranspose R (snd sb) perm) (fused_block_shape G ixs groups s) in
    let tgt := match lookup keq ns acc with Some t => t | None => tzeros R (block_shape G nixs ns) end in
    dset keq ns (tassign R tgt (fuse_selector G ixs nixs groups s) arr) acc.

  Definition nb_ok (nb : list (sector * tensor R)) : Prop :=
    forall k T, lookup keq k nb = Some T -> tshape T = block_shape G nixs k.

  Lemma bs_fun (ns : sector) :
    map (fun '(ix, c) => size_of G ix c) (List.combine nixs ns) = block_shape G nixs ns.
  Proof. unfold block_shape. apply map_ext. intros [ix c]. reflexivity. Qed.

  Lemma i_step_spec sel nb s b : In s secs -> sel_ok sel -> nb_ok nb ->
    i_step G R SING (zl perm) POS nixs bm_model (i_slices G NG SING POS nixs) (sel, nb) (s, b) =
      (sel_of s, f_step nb (s, b)) /\ nb_ok (f_step nb (s, b)).
  Proof.
    intros Hs Hsel Hnb. unfold i_step.
    assert (Ebm : dget keq ([], [], []) bm_model s =
                  (fused_block_shape G ixs groups s, fused_sector G ixs groups s, map (group_subsector G s) groups)).
    { unfold dget, bm_model.
      rewrite (lookup_fold_dset_fn keq keqE (fun s => (fused_block_shape G ixs groups s, fused_sector G ixs groups s,
                                                       map (group_subsector G s) groups)) s secs []).
      assert (Em : mem keq s secs = true) by (apply (mem_In keq keqE); exact Hs). now rewrite Em. }
    rewrite Ebm. rewrite (sel_fold s sel Hs Hsel), bs_fun.
    assert (Ep : map Z.to_nat (zl perm) = perm).
    { unfold zl. rewrite map_map. rewrite (map_ext _ (fun x => x)) by (intros; apply Nat2Z.id). apply map_id. }
    rewrite Ep. unfold f_step. cbn [fst snd].
    set (ns := fused_sector G ixs groups s).
    assert (Etg : tshape (match lookup keq ns nb with Some t => t | None => tzeros R (block_shape G nixs ns) end) =
                  block_shape G nixs ns).
    { destruct (lookup keq ns nb) as [t|] eqn:El; [exact (Hnb ns t El)|reflexivity]. }
    rewrite Etg. unfold ns at 4. rewrite (sel_ranges s). split; [reflexivity|].
    intros k T. rewrite (lookup_dset keq keqE). destruct (keq k ns) eqn:Ek.
    - apply keqE in Ek. subst k. intros H. inversion H. subst T. exact Etg.
    - apply Hnb.
  Qed.

  Lemma i_fold_spec : forall blks sel nb, (forall sb, In sb blks -> In (fst sb) secs) -> sel_ok sel -> nb_ok nb ->
    exists sel', fold_left (i_step G R SING (zl perm) POS nixs bm_model (i_slices G NG SING POS nixs)) blks (sel, nb) =
                 (sel', fold_left f_step blks nb).
  Proof.
    induction blks as [|[s b] blks IH]; intros sel nb Hin Hsel Hnb; [now exists sel|].
    cbn [fold_left]. destruct (i_step_spec sel nb s b (Hin (s, b) (or_introl eq_refl)) Hsel Hnb) as [E Hnb'].
    rewrite E. apply IH; [intros sb Hsb; apply Hin; now right|apply sel_of_ok|exact Hnb'].
  Qed.
End ISpec.

(* ================================================================== *)
(* 4. The theorem: the two GENERATED functions composed as `_fuse_core` composes them *)
Section IMain.
  Context (G : Symmetry) (R : Ring) (HG : GroupLaws G) (HO : OrderLaws G).
  Context (x : aarray G R) (groups : list (list nat)).
  Context (Hwf : wf_array G R x = true) (Hok : groups_ok (ndim G R x) groups).
  Notation ixs := (indices G R x).
  Notation secs := (sectors G R x).
  Notation keq := (list_eqb (ceqb G)).

  Lemma wf_tables_ok : tables_ok G ixs.
  Proof.
    pose proof Hwf as Hw. apply (wf_array_iff G HG) in Hw. destruct Hw as [H1 _ _ _].
    unfold tables_ok. unfold IxsOK in H1. rewrite Forall_forall in H1 |- *. intros ix Hin.
    specialize (H1 ix Hin). destruct ix as [cm d sub]. cbn [wf_index chargemap] in H1 |- *.
    apply andb_true_iff in H1. exact (proj1 H1).
  Qed.

  Lemma wf_secs_in_tables k : k < length groups -> secs_in_tables G ixs secs (nth k groups []).
  Proof.
    intros Hk s Hs ax Hax.
    pose proof Hwf as Hw. apply (wf_array_iff G HG) in Hw. destruct Hw as [_ _ _ H4].
    unfold sectors in Hs. apply in_map_iff in Hs. destruct Hs as ([s0 t0] & <- & Hin). cbn [fst].
    destruct (H4 _ _ Hin) as ((_ & Hm & _) & _). apply (mem_ceqb_In G HG). apply Hm.
    destruct Hok as (_ & Hrng & _). rewrite Forall_forall in Hrng. apply Hrng.
    apply in_concat. exists (nth k groups []). split; [apply nth_In; exact Hk|exact Hax].
  Qed.

  Lemma tables_record : forall k, k < length groups -> is_singlet (nth k groups []) = false ->
    exists subs ext, isub G (fused_index G ixs secs (nth k groups [])) = Some (subs, ext) /\ NoDup (map fst ext) /\
      forall s, In s secs ->
        exists e sz, lookup (ceqb G) (group_charge G ixs s (nth k groups [])) ext = Some e /\
                     NoDup (map fst e) /\
                     lookup keq (group_subsector G s (nth k groups [])) e = Some sz.
  Proof.
    intros k Hk Hsg. set (g := nth k groups []) in *.
    destruct (stmt_A2 G HG HO ixs secs g Hsg) as (ext & Ei & Hnd & _).
    eexists _, ext. split; [exact Ei|]. split; [exact Hnd|]. intros s Hs.
    destruct (stmt_A3_complete G HG HO ixs secs g (wf_secs_in_tables k Hk) Hsg s Hs) as (subs' & ext' & e & Ei' & Hin & El & Ess).
    rewrite Ei in Ei'. inversion Ei'. subst subs' ext'.
    assert (Ec : group_charge G ixs s g = signed_combination G ixs g s) by (unfold group_charge; now rewrite Hsg).
    rewrite Ec. exists e, (subsizes_product G ixs g s). split; [exact El|]. split; [|exact Ess].
    unfold icharges in Hin. apply in_map_iff in Hin. destruct Hin as ([c d] & Hc & Hcd). cbn [fst] in Hc. subst c.
    destruct (stmt_A3 G HG HO ixs secs g wf_tables_ok (wf_secs_in_tables k Hk) Hsg _ _ Hcd)
      as (_ & subs'' & ext'' & e'' & Ei'' & El'' & _ & _ & Hnde & _).
    rewrite Ei in Ei''. inversion Ei''. subst subs'' ext''. rewrite El in El''. inversion El''. now subst e''.
  Qed.

  Theorem gen_insert_eq_model :
    gen_fuse_blocks_via_insert G R (blocks G R x)
      (cfbi_num_groups G R x (zg groups)) (cfbi_group_singlets G R x (zg groups)) (cfbi_perm G R x (zg groups))
      (cfbi_position G R x (zg groups)) (cfbi_new_indices G R x (zg groups)) (cfbi_blockmap G R x (zg groups)) =
    blocks G R (fuse_core G R x groups).
  Proof.
    pose proof (ceqb_spec G HG) as Hceq.
    rewrite gen_insert_is_mirror.
    unfold cfbi_num_groups, cfbi_group_singlets, cfbi_perm, cfbi_position, cfbi_new_indices, cfbi_blockmap.
    rewrite (gen_info_eq_model G R Hceq x groups Hok).
    unfold i_blocks. pose proof Hok as Hok'. unfold ndim in Hok'.
    set (SING := zl (map fst (filter (fun p => is_singlet (snd p)) (enumerate groups)))).
    assert (HSING : forall k, k < length groups -> mem Z.eqb (Z.of_nat k) SING = is_singlet (nth k groups [])).
    { intros k Hk. destruct (is_singlet (nth k groups [])) eqn:Es.
      - apply (mem_In Z.eqb Zeqb_spec). apply In_singlets. split; assumption.
      - destruct (mem Z.eqb (Z.of_nat k) SING) eqn:E; [|reflexivity].
        apply (mem_In Z.eqb Zeqb_spec) in E. apply In_singlets in E. destruct E as [_ E]. congruence. }
    assert (Hsel : sel_ok G ixs groups (repeat None (Z.to_nat (Z.of_nat (length (fused_indices G ixs secs groups)))))).
    { rewrite Nat2Z.id, (nixs_length G ixs groups secs). split; [apply repeat_length|].
      intros j _ _. apply nth_repeat. }
    destruct (i_fold_spec G R Hceq ixs groups secs SING HSING tables_record (fuse_perm (length ixs) groups)
                (blocks G R x) _ [] (fun sb Hsb => in_map fst _ _ Hsb) Hsel (fun k T H => ltac:(discriminate H)))
      as (sel' & E).
    change (fold_left _ secs []) with (bm_model G ixs groups secs).
    rewrite E. reflexivity.
  Qed.

  (* the whole of `_fuse_core` (insert strategy): new index list + fused blocks *)
  Theorem gen_fuse_core_eq_model :
    mkA G R (cfbi_new_indices G R x (zg groups)) (charge G R x)
      (gen_fuse_blocks_via_insert G R (blocks G R x)
         (cfbi_num_groups G R x (zg groups)) (cfbi_group_singlets G R x (zg groups)) (cfbi_perm G R x (zg groups))
         (cfbi_position G R x (zg groups)) (cfbi_new_indices G R x (zg groups)) (cfbi_blockmap G R x (zg groups))) =
    fuse_core G R x groups.
  Proof.
    rewrite gen_insert_eq_model, (gen_cfbi_new_indices G R (ceqb_spec G HG) x groups Hok). reflexivity.
  Qed.
End IMain.

(* the hypotheses hold on the instance of Proofs/FuseGenProofs.v (U1, rank 4, groups (3,1), (2)) *)
From SV Require Import Model.SymInst Proofs.SymLaws.
Example ex_insert_hyps : GroupLaws U1 /\ OrderLaws U1 /\ wf_array U1 ZRing ex_x = true /\
                         groups_ok (ndim U1 ZRing ex_x) ex_groups.
Proof. split; [exact U1_laws|]. split; [exact U1_order|]. split; [vm_compute; reflexivity|exact ex_groups_ok]. Qed.
