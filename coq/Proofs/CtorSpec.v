(* Proofs/CtorSpec.v — property C16: the statements (as Props) of the constructor /
   dense-conversion theorems over Model/Ctor.v.  The proofs live in
   Proofs/CtorProofs.v (fill_sectors, init_infers_charge, from_blocks_eq),
   Proofs/CtorDense.v (to_dense_sem) and Proofs/CtorRound.v (the two round trips). *)
From SV Require Import Base.Prelude Base.Sym Base.Tensor Model.Sectors Model.Array Model.Arith
  Model.Wf Model.Fermi Model.Ctor Model.SymInst Proofs.SymLaws Proofs.OrderProofs.
From Coq Require Import Permutation.
Local Open Scope nat_scope.

Section Stmts.
  Context (G : Symmetry) (R : Ring).
  Notation Ch := (C G).
  Notation sector := (list (C G)).
  Notation keq := (list_eqb (ceqb G)).
  Notation arr := (aarray G R).

  Definition tables_nodup (ixs : list (index G)) : Prop := Forall (fun ix => NoDup (icharges G ix)) ixs.
  Definition tables_valid_ix (ixs : list (index G)) : Prop :=
    Forall (fun ix => Forall (fun c => valid G c = true) (icharges G ix)) ixs.

  (* 1. from_fill_fn stores exactly gen_valid_sectors, in that order, each with the block
        the fill function returns for its shape; by C17 these are exactly the
        charge-conserving sectors over the tables, none repeated. *)
  Definition fill_sectors_stmt : Prop :=
    forall (fill : list nat -> tensor R) (ixs : list (index G)) (q : option Ch),
      tables_nodup ixs ->
      let x := from_fill_fn G R fill ixs q in
      sectors G R x = gen_valid_sectors G (map (icharges G) ixs) (map (idual G) ixs) (charge_or_ident G q)
      /\ indices G R x = ixs
      /\ charge G R x = charge_or_ident G q
      /\ NoDup (sectors G R x)
      /\ (forall s, In s (sectors G R x) ->
            lookup keq s (blocks G R x) = Some (fill (block_shape G ixs s)))
      /\ (GroupLaws G -> tables_valid_ix ixs -> valid G (charge_or_ident G q) = true ->
          forall s, In s (sectors G R x) <->
                    (Forall2 (fun c cs => In c cs) s (map (icharges G) ixs)
                     /\ is_valid_sector G (map (idual G) ixs) (charge_or_ident G q) s = true)).

  (* 0. __init__ with the charge omitted infers it from the FIRST stored sector as the signed
        combination; for EVERY dualness pattern that makes the first sector charge conserving,
        and for a block set that conserves some charge q the inferred charge is q, so every
        stored sector is conserving. *)
  Definition init_infers_charge_stmt : Prop :=
    forall (ixs : list (index G)) (blks : list (sector * tensor R)),
      indices G R (init_array G R ixs None blks) = ixs
      /\ blocks G R (init_array G R ixs None blks) = blks
      /\ (blks = [] -> charge G R (init_array G R ixs None blks) = ident G)
      /\ (forall s b rest, blks = (s, b) :: rest ->
            charge G R (init_array G R ixs None blks)
            = combine G (signed_sector G false s (map (idual G) ixs))
            /\ (GroupLaws G ->
                is_valid_sector G (map (idual G) ixs) (charge G R (init_array G R ixs None blks)) s = true)
            /\ (GroupLaws G -> forall q,
                Forall (fun sb => is_valid_sector G (map (idual G) ixs) q (fst sb) = true) blks ->
                charge G R (init_array G R ixs None blks) = q
                /\ Forall (fun sb => is_valid_sector G (map (idual G) ixs)
                                        (charge G R (init_array G R ixs None blks)) (fst sb) = true) blks))
      /\ (forall c, charge G R (init_array G R ixs (Some c) blks) = c).

  (* 0b. direct construction with the charge omitted recovers a valid array from its indices
        and blocks; from_blocks with the charge omitted takes the IDENTITY instead (documented),
        so the two routes agree exactly when the charge of the blocks is the identity; otherwise
        the from_blocks result has charge identity and NONE of its sectors conserves it.
        from_blocks given the inferred charge always agrees. *)
  Definition direct_vs_from_blocks_stmt : Prop :=
    GroupLaws G -> OrderLaws G ->
    forall (x : arr), wf_array G R x = true -> blocks G R x <> [] ->
      init_array G R (indices G R x) None (blocks G R x) = x
      /\ (exists y1, from_blocks G R (blocks G R x) (duals G R x)
                                 (Some (charge G R (init_array G R (indices G R x) None (blocks G R x)))) = Some y1
                     /\ charge G R y1 = charge G R x /\ blocks G R y1 = blocks G R x
                     /\ duals G R y1 = duals G R x)
      /\ (exists y0, from_blocks G R (blocks G R x) (duals G R x) None = Some y0
                     /\ charge G R y0 = ident G /\ blocks G R y0 = blocks G R x
                     /\ (charge G R y0 = charge G R x <-> charge G R x = ident G)
                     /\ (charge G R x <> ident G ->
                         forall s, In s (sectors G R y0) ->
                                   is_valid_sector G (duals G R y0) (charge G R y0) s = false)).

  (* 2. from_blocks (blocks x) (duals x) q: same charge (or identity), same blocks, same sem;
        tables = the charges that occur in stored sectors (= prune_indices); equal to the
        tables of x when every table charge occurs in a stored sector. *)
  Definition every_charge_stored (x : arr) : Prop :=
    forall i ix c, nth_error (indices G R x) i = Some ix -> In c (icharges G ix) ->
                   exists s, In s (sectors G R x) /\ nth_error s i = Some c.

  Definition from_blocks_eq_stmt : Prop :=
    GroupLaws G -> OrderLaws G ->
    forall (x : arr) (q : option Ch), wf_array G R x = true -> blocks G R x <> [] ->
      exists y, from_blocks G R (blocks G R x) (duals G R x) q = Some y
        /\ charge G R y = charge_or_ident G q
        /\ blocks G R y = blocks G R x
        /\ (forall cs, sem G R y cs = sem G R x cs)
        /\ duals G R y = duals G R x
        /\ Forall (fun ix => isub G ix = None) (indices G R y)
        /\ map (chargemap G) (indices G R y)
           = map (chargemap G) (prune_indices G (indices G R x) (sectors G R x))
        /\ (every_charge_stored x -> map (chargemap G) (indices G R y) = map (chargemap G) (indices G R x)).

  (* 3. the bridge: dense entry at a position = sem at the (charge, offset) coordinates *)
  Definition to_dense_sem_stmt : Prop :=
    GroupLaws G -> OrderLaws G ->
    forall (x : arr), wf_array G R x = true ->
      Forall (fun ix => chargemap G ix <> []) (indices G R x) ->
      exists t, to_dense G R x = Some t
        /\ tshape t = map (size_total G) (indices G R x)
        /\ length (tdata t) = shape_size (tshape t)
        /\ (forall pos, inb (map (size_total G) (indices G R x)) pos = true ->
              coords_ok G (indices G R x) (coords_of G (indices G R x) pos) = true
              /\ pos_of G (indices G R x) (coords_of G (indices G R x) pos) = pos
              /\ get R t pos = sem G R x (coords_of G (indices G R x) pos))
        /\ (forall cs, coords_ok G (indices G R x) cs = true ->
              inb (map (size_total G) (indices G R x)) (pos_of G (indices G R x) cs) = true
              /\ coords_of G (indices G R x) (pos_of G (indices G R x) cs) = cs
              /\ get R t (pos_of G (indices G R x) cs) = sem G R x cs).

  (* 4. dense -> blocks -> dense = projection onto the charge-conserving sectors, positions of
        every axis reordered by a STABLE sort on the charge label *)
  Definition stable_sorted_positions (labels : list Ch) (sp : list nat) : Prop :=
    Permutation sp (seq 0 (length labels)) /\
    forall i j, i < j -> j < length labels ->
      let a := nth i sp 0 in let b := nth j sp 0 in
      cltb G (nth b labels (ident G)) (nth a labels (ident G)) = false
      /\ (nth a labels (ident G) = nth b labels (ident G) -> a < b).

  Definition to_dense_from_dense_stmt : Prop :=
    GroupLaws G -> OrderLaws G ->
    forall (d : tensor R) (maps : list (list Ch)) (dls : list bool) (q : Ch),
      length dls = length (tshape d) ->
      map (@length Ch) maps = tshape d ->
      Forall (fun m => Forall (fun c => valid G c = true) m) maps ->
      valid G q = true ->
      exists y, from_dense G R d maps dls (Some q) = Some y
        /\ wf_array G R y = true
        /\ charge G R y = q
        /\ duals G R y = dls
        /\ (forall s, In s (sectors G R y) <->
              (Forall2 (fun c m => In c m) s maps /\ is_valid_sector G dls q s = true))
        /\ (forall t, to_dense G R y = Some t ->
              tshape t = tshape d
              /\ exists sps, Forall2 stable_sorted_positions maps sps
                   /\ forall pos, inb (tshape d) pos = true ->
                        let src := map (fun p => nth (snd p) (fst p) 0) (List.combine sps pos) in
                        let sec := map (fun p => nth (snd p) (fst p) (ident G)) (List.combine maps src) in
                        inb (tshape d) src = true
                        /\ get R t pos = if is_valid_sector G dls q sec then get R d src else r0 R).

  (* 5. blocks -> dense -> blocks with the matching labels is the identity (absent block = zero
        block: the rebuilt array stores every valid sector, the ones x lacks are all zero) *)
  Definition from_dense_to_dense_stmt : Prop :=
    GroupLaws G -> OrderLaws G ->
    forall (x : arr) (t : tensor R), wf_array G R x = true -> to_dense G R x = Some t ->
      exists y, from_dense G R t (labels_of G (indices G R x)) (duals G R x) (Some (charge G R x)) = Some y
        /\ charge G R y = charge G R x
        /\ map (chargemap G) (indices G R y) = map (chargemap G) (indices G R x)
        /\ duals G R y = duals G R x
        /\ Forall (fun ix => isub G ix = None) (indices G R y)
        /\ (forall s, In s (sectors G R y) <->
              (Forall2 (fun c cs => In c cs) s (map (icharges G) (indices G R x))
               /\ is_valid_sector G (duals G R x) (charge G R x) s = true))
        /\ (forall cs, coords_ok G (indices G R x) cs = true -> sem G R y cs = sem G R x cs).
End Stmts.
