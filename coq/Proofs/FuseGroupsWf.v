(* Proofs/FuseGroupsWf.v -- the array produced by fuse_core for a list of groups
   satisfies the validity predicate of C01: every fused index is wf_index and
   the fused array is wf_array (charge conservation of the fused sectors). *)
From SV Require Import Base.Prelude Base.Sym Base.Tensor Model.Sectors Model.Array Model.Arith
  Model.Fermi Model.Wf Model.Valid Model.SymInst
  Proofs.FuseTensor Proofs.FuseProofs Proofs.SymLaws Proofs.GroupFacts Proofs.SectorsProofs Proofs.OrderProofs Proofs.TensorProofs
  Proofs.StructProofs Proofs.WfProofs Proofs.FuseGroups.
From Coq Require Import Permutation Sorting Lia.
Local Open Scope nat_scope.

Section GWf.
  Context (G : Symmetry) (HG : GroupLaws G) (HO : OrderLaws G) (R : Ring).
  Notation keq := (list_eqb (ceqb G)).
  Notation e := (ident G).
  Notation dix := (dflt_index G).

  Lemma combine_single c : valid G c = true -> combine G [c] = c.
  Proof.
    intros Hc. rewrite (combine_cons G HG c []); [|exact Hc|apply (valid_all_nil G HG)].
    rewrite combine_nil. now apply (gadd_ident_r G HG).
  Qed.

  Lemma combine_concat (f : nat -> C G) (SL : list (list nat)) :
    (forall ax, valid G (f ax) = true) ->
    combine G (map (fun g => combine G (map f g)) SL) = combine G (map f (concat SL)).
  Proof.
    intros Hf.
    assert (Hv : forall l, valid_all G (map f l) = true).
    { intros l. apply (valid_all_In G HG). intros c Hc. apply in_map_iff in Hc. destruct Hc as (ax & <- & _). apply Hf. }
    induction SL as [|g SL IH]; [reflexivity|].
    cbn [map concat]. rewrite map_app.
    rewrite (combine_app_gadd G HG) by apply Hv.
    rewrite (combine_cons G HG).
    - now rewrite IH.
    - apply (combine_valid G HG). apply Hv.
    - apply (valid_all_In G HG). intros c Hc. apply in_map_iff in Hc. destruct Hc as (g' & <- & _).
      apply (combine_valid G HG). apply Hv.
  Qed.

  Theorem fuse_groups_wf (x : aarray G R) (groups : list (list nat)) :
    wf_array G R x = true ->
    Forall (fun g => g <> []) groups -> NoDup (concat groups) ->
    Forall (fun ax => ax < ndim G R x) (concat groups) ->
    Forall (fun ix => wf_index G ix = true) (fused_indices G (indices G R x) (sectors G R x) groups) /\
    wf_array G R (fuse_core G R x groups) = true.
  Proof.
    intros Hwf Hne Hnd Hrng. unfold ndim in Hrng.
    destruct (fuse_layout_groups_thm G R HG HO x groups Hwf Hne Hnd Hrng) as (Lix & Lq & Lnd & Lkeys & Lshape & _ & _).
    pose proof Hwf as Hw. apply (wf_array_iff G HG) in Hw. destruct Hw as [H1 H2 H3 H4].
    set (ixs := indices G R x) in *. set (n := length ixs) in *. set (secs := sectors G R x) in *.
    set (SL := slots n groups).
    assert (Hsecs : forall s, In s secs -> SecOK G ixs (charge G R x) s).
    { intros s Hs. unfold secs, sectors in Hs. apply in_map_iff in Hs. destruct Hs as ([s0 t0] & <- & Hin).
      apply (H4 _ _ Hin). }
    assert (Hslot : forall g, In g SL -> NoDup g /\ Forall (fun ax => ax < n) g /\ g <> []).
    { intros g Hg. exact (slot_facts G R x groups Hne Hnd Hrng g Hg). }
    assert (Hsit : forall g, In g SL -> secs_in_tables G ixs secs g).
    { intros g Hg s Hs ax Hax. destruct (Hsecs s Hs) as (_ & Hm & _). apply (mem_ceqb_In G HG). apply Hm.
      destruct (Hslot g Hg) as (_ & Hlt & _). rewrite Forall_forall in Hlt. now apply Hlt. }
    assert (HIX : IxsOK G (map (fused_index G ixs secs) SL)).
    { unfold IxsOK. apply Forall_forall. intros ix Hin. apply in_map_iff in Hin. destruct Hin as (g & <- & Hg).
      destruct (Hslot g Hg) as (Hgnd & Hlt & Hgne).
      destruct (is_singlet g) eqn:Es.
      - apply singlet_inv in Es. destruct Es as (ax & ->). change (fused_index G ixs secs [ax]) with (nth ax ixs dix).
        unfold IxsOK in H1. rewrite Forall_forall in H1. apply H1. apply nth_In.
        rewrite Forall_forall in Hlt. apply Hlt. now left.
      - apply (stmt_wf2 G HG HO); [exact H1|now apply Hsit|exact (nonsinglet_len G R x g Hgne Es)]. }
    split; [unfold ixs, secs, n; rewrite fused_indices_slots; exact HIX|].
    apply (wf_array_iff G HG). rewrite Lix, Lq. fold ixs secs. rewrite fused_indices_slots. fold n SL.
    constructor.
    - exact HIX.
    - exact H2.
    - exact Lnd.
    - intros k T Hin.
      assert (Hlk : lookup keq k (blocks G R (fuse_core G R x groups)) = Some T).
      { apply (OrderProofs.In_lookup keq (keqE G HG)); [exact Lnd|exact Hin]. }
      assert (Hk : In k (sectors G R (fuse_core G R x groups))).
      { unfold sectors. apply in_map_iff. exists (k, T). split; [reflexivity|exact Hin]. }
      apply Lkeys in Hk. destruct Hk as (s & Hs & Hk).
      destruct (Lshape k T Hlk) as [Hsh Hd]. fold ixs secs in Hsh. rewrite fused_indices_slots in Hsh. fold n SL in Hsh.
      split; [|split; [exact Hsh|exact Hd]].
      fold ixs in Hk. rewrite fused_sector_slots in Hk. fold n SL in Hk. rewrite <- Hk.
      pose proof (Hsecs s Hs) as Hok. pose proof (SecOK_valid G HG _ _ _ H1 Hok) as Hv.
      destruct Hok as (Hl & Hm & Hc).
      apply SecOK_of.
      + apply TabOK_F2. apply Forall2_map_both. intros g Hg. unfold in_table.
        destruct (Hslot g Hg) as (Hgnd & Hlt & Hgne).
        destruct (is_singlet g) eqn:Es.
        * apply singlet_inv in Es. destruct Es as (ax & ->).
          change (fused_index G ixs secs [ax]) with (nth ax ixs dix).
          change (group_charge G ixs s [ax]) with (nth ax s e).
          apply Hm. rewrite Forall_forall in Hlt. apply Hlt. now left.
        * destruct (stmt_A3_complete G HG HO ixs secs g (Hsit g Hg) Es s Hs) as (_ & _ & _ & _ & Hin' & _).
          unfold group_charge. rewrite Es. exact Hin'.
      + set (ds := map (idual G) ixs).
        assert (Hds : map (idual G) (map (fused_index G ixs secs) SL) = map (fun g => nth (hd 0 g) ds false) SL).
        { rewrite map_map. apply map_ext. intros g. rewrite stmt_A4. unfold ds. now rewrite nth_duals. }
        rewrite Hds. unfold signed_sector. rewrite combine_map_map, map_map. cbn [fst snd].
        assert (Hvs : forall ax, valid G (sgn G false s ds ax) = true) by (intros ax; now apply (sgn_valid G HG)).
        assert (Hper : forall g, In g SL ->
                  sign G (group_charge G ixs s g) (xorb false (nth (hd 0 g) ds false)) = combine G (map (sgn G false s ds) g)).
        { intros g Hg. destruct (Hslot g Hg) as (Hgnd & Hlt & Hgne). rewrite Forall_forall in Hlt.
          destruct (is_singlet g) eqn:Es.
          - apply singlet_inv in Es. destruct Es as (ax & ->). cbn [map hd].
            rewrite combine_single by apply Hvs. reflexivity.
          - rewrite xorb_false_l. unfold group_charge. rewrite Es. unfold group_dual.
            rewrite (sign_combine G HG).
            + rewrite map_map. f_equal. apply map_ext_in. intros ax Hax. unfold sgn, ds. rewrite !nth_duals.
              apply (sign_rel G HG). apply (proj1 (valid_all_In G HG s) Hv). apply nth_In. rewrite Hl. now apply Hlt.
            + apply (valid_all_In G HG). intros c0 Hc0. apply in_map_iff in Hc0. destruct Hc0 as (ax & <- & Hax).
              apply (sign_valid G HG). apply (proj1 (valid_all_In G HG s) Hv). apply nth_In. rewrite Hl. now apply Hlt. }
        rewrite (map_ext_in _ (fun g => combine G (map (sgn G false s ds) g)) SL Hper).
        rewrite (combine_concat _ SL Hvs). unfold SL. rewrite (concat_slots n groups).
        rewrite <- Hc. fold ds. symmetry. apply (combine_signed_perm G HG).
        * unfold ds. now rewrite map_length.
        * rewrite Hl. pose proof (gperm_is_perm n groups Hnd Hrng) as Hp. unfold FuseTensor.is_perm in Hp.
          now rewrite (gperm_length n groups Hnd Hrng) in Hp.
  Qed.
End GWf.

(* ------------------------------------------------------------------ *)
(* the two "_full" statements of Props/C05.v *)
Section FullStatements.
  Context (G : Symmetry) (R : Ring) (HG : GroupLaws G) (HO : OrderLaws G).

  (* all groups fused (none a singlet): the iterated unfuse is a plain fold over the fused positions *)
  Lemma unfuse_groups_axes_go (y : aarray G R) pos (gs : list (list nat)) :
    Forall (fun g => is_singlet g = false) gs -> forall lo,
    fold_right (unfuse_step G R pos) (Some y) (List.combine (seq lo (length gs)) gs) =
    fold_right (fun ax acc => match acc with Some z => a_unfuse G R z ax | None => None end)
               (Some y) (seq (pos + lo) (length gs)).
  Proof.
    induction 1 as [|g gs Hg _ IH]; intros lo; [reflexivity|].
    cbn [length seq List.combine fold_right]. rewrite IH.
    replace (S (pos + lo)) with (pos + S lo) by lia.
    unfold unfuse_step at 1. cbn [fst snd]. rewrite Hg. reflexivity.
  Qed.

  Lemma unfuse_groups_axes (y : aarray G R) pos (gs : list (list nat)) :
    Forall (fun g => is_singlet g = false) gs ->
    unfuse_groups G R y pos gs =
    fold_right (fun ax acc => match acc with Some z => a_unfuse G R z ax | None => None end)
               (Some y) (seq pos (length gs)).
  Proof.
    intros Hs. unfold unfuse_groups, enumerate. rewrite (unfuse_groups_axes_go y pos gs Hs 0).
    now rewrite Nat.add_0_r.
  Qed.

  Theorem unfuse_fuse_full_stmt :
    forall (x : aarray G R) (groups : list (list nat)),
    wf_array G R x = true -> groups <> [] ->
    Forall (fun g => 2 <= length g) groups ->
    NoDup (concat groups) -> Forall (fun ax => ax < ndim G R x) (concat groups) ->
    let perm := fuse_perm (ndim G R x) groups in
    exists y,
      fold_right (fun ax acc => match acc with Some y => a_unfuse G R y ax | None => None end)
                 (Some (fuse_core G R x groups)) (seq (fuse_position groups) (length groups)) = Some y /\
      indices G R y = permuted (dflt_index G) (indices G R x) perm /\
      (forall s b, In (s, b) (blocks G R x) ->
         lookup (list_eqb (ceqb G)) (permuted (ident G) s perm) (blocks G R y) = Some (ttranspose R b perm)) /\
      (forall k t, In (k, t) (blocks G R y) ->
         (exists s b, In (s, b) (blocks G R x) /\ k = permuted (ident G) s perm /\ t = ttranspose R b perm) \/
         Forall (fun v => v = r0 R) (tdata t)) /\
      (forall cs, coords_ok G (indices G R x) cs = true ->
         sem G R y (permuted (ident G, 0) cs perm) = sem G R x cs).
  Proof.
    intros x groups Hwf _ Hlen Hnd Hrng. cbn zeta.
    assert (Hne : Forall (fun g : list nat => g <> []) groups).
    { eapply Forall_impl; [|exact Hlen]. intros g Hg ->. cbn in Hg. lia. }
    assert (Hns : Forall (fun g => is_singlet g = false) groups).
    { eapply Forall_impl; [|exact Hlen]. intros g Hg. cbn beta in Hg. unfold is_singlet. apply Nat.eqb_neq. lia. }
    destruct (unfuse_fuse_groups_thm G R HG HO x groups Hwf Hne Hnd Hrng) as (y & Hy & H1 & _ & H3 & H4 & H5).
    exists y. rewrite <- unfuse_groups_axes by exact Hns. unfold ndim. repeat split; assumption.
  Qed.

  Lemma fold_expand_wf (l : list (nat * list nat)) g0 : forall (y : aarray G R),
    wf_array G R y = true ->
    wf_array G R (fold_left (fun acc p => if is_nil (snd p) then a_expand_dims G R acc (g0 + fst p) else acc) l y) = true.
  Proof.
    induction l as [|p l IH]; intros y Hy; [exact Hy|]. cbn [fold_left]. apply IH.
    destruct (is_nil (snd p)); [|exact Hy]. now apply (expand_dims_wf G HG R).
  Qed.

  (* a_fuse with any mixture of empty and non-empty groups returns a valid array *)
  Theorem a_fuse_wf (x : aarray G R) (groups : list (list nat)) :
    wf_array G R x = true ->
    NoDup (concat groups) -> Forall (fun ax => ax < ndim G R x) (concat groups) ->
    wf_array G R (a_fuse G R x groups) = true.
  Proof.
    intros Hwf Hnd Hrng. unfold a_fuse. apply fold_expand_wf.
    destruct (filter (fun g => negb (is_nil g)) groups) as [|g0 gs0] eqn:E; [exact Hwf|]. rewrite <- E.
    apply fuse_groups_wf; try assumption.
    - apply nonnil_ne.
    - now rewrite concat_nonnil.
    - now rewrite concat_nonnil.
  Qed.

  Theorem fused_wf_full_stmt :
    forall (x : aarray G R) (groups : list (list nat)),
    wf_array G R x = true -> Forall (fun g => g <> []) groups ->
    NoDup (concat groups) -> Forall (fun ax => ax < ndim G R x) (concat groups) ->
    wf_array G R (a_fuse G R x groups) = true.
  Proof. intros x groups Hwf _. now apply a_fuse_wf. Qed.
End FullStatements.

(* ------------------------------------------------------------------ *)
(* Examples: the hypotheses hold on concrete non-trivial arrays and the model
   evaluates as the theorems say. *)
Section ExGroups.
  Local Open Scope Z_scope.
  (* Z2 rank 4 (FuseProofs.ex4): two non-adjacent, unordered groups at once *)
  Definition gA : list (list nat) := [[3; 1]; [0; 2]]%nat.

  Example exA_hyps :
    wf_array Z2 ZRing ex4 = true /\ Forall (fun g : list nat => g <> []) gA /\ NoDup (concat gA) /\
    Forall (fun ax => (ax < ndim Z2 ZRing ex4)%nat) (concat gA).
  Proof.
    split; [vm_compute; reflexivity|]. split; [repeat constructor; discriminate|].
    split; [cbn; repeat constructor; cbn; intuition lia|repeat constructor].
  Qed.

  (* every stored block comes back transposed; the index list is the permuted one *)
  Definition roundtrip_ok {G : Symmetry} (x : aarray G ZRing) (gs : list (list nat)) : bool :=
    let perm := fuse_perm (ndim G ZRing x) gs in
    match unfuse_groups G ZRing (fuse_core G ZRing x gs) (fuse_position gs) gs with
    | Some y =>
        list_eqb (index_eqb G) (indices G ZRing y) (permuted (dflt_index G) (indices G ZRing x) perm) &&
        forallb (fun sb => match lookup (list_eqb (ceqb G)) (permuted (ident G) (fst sb) perm) (blocks G ZRing y) with
                           | Some t => tensor_eqb ZRing t (ttranspose ZRing (snd sb) perm)
                           | None => false end) (blocks G ZRing x) &&
        forallb (fun kt : list (C G) * tensor ZRing => mem (list_eqb (ceqb G)) (fst kt) (map (fun sb => permuted (ident G) (fst sb) perm) (blocks G ZRing x))
                           || forallb (fun v => Z.eqb v 0) (tdata (snd kt))) (blocks G ZRing y)
    | None => false
    end.

  Example exA_roundtrip : roundtrip_ok ex4 gA = true /\ fuse_perm 4 gA = [3; 1; 0; 2]%nat /\ fuse_position gA = 0%nat.
  Proof. repeat split; vm_compute; reflexivity. Qed.

  Example exA_extra_zero_blocks :
    match unfuse_groups Z2 ZRing (fuse_core Z2 ZRing ex4 gA) 0 gA with
    | Some y => (length (blocks Z2 ZRing y), length (blocks Z2 ZRing ex4)) | None => (0, 0)%nat end = (5, 4)%nat.
  Proof. vm_compute. reflexivity. Qed.

  Example exA_theorems_apply :
    (exists y, unfuse_groups Z2 ZRing (fuse_core Z2 ZRing ex4 gA) (fuse_position gA) gA = Some y /\
               indices Z2 ZRing y = permuted (dflt_index Z2) (indices Z2 ZRing ex4) (fuse_perm 4 gA)) /\
    wf_array Z2 ZRing (fuse_core Z2 ZRing ex4 gA) = true.
  Proof.
    destruct exA_hyps as (H1 & H2 & H3 & H4). split.
    - destruct (unfuse_fuse_groups_thm Z2 ZRing Z2_laws Z2_order ex4 gA H1 H2 H3 H4) as (y & Hy & Hi & _).
      exists y. split; assumption.
    - apply (fuse_groups_wf Z2 Z2_laws Z2_order ZRing ex4 gA H1 H2 H3 H4).
  Qed.

  (* U1 rank 4, directions (+,-,+,-): an untouched axis before, a singlet group and a two-axis group *)
  Definition ex5 : aarray U1 ZRing :=
    mkA U1 ZRing
      [Index U1 [(0, 1%nat); (1, 2%nat)] false None;
       Index U1 [(0, 2%nat); (1, 1%nat)] true None;
       Index U1 [(0, 1%nat); (1, 1%nat)] false None;
       Index U1 [(0, 1%nat); (1, 2%nat)] true None]
      0
      [([0; 0; 0; 0], zt [1; 2; 1; 1]%nat [1; 2]);
       ([1; 1; 0; 0], zt [2; 1; 1; 1]%nat [3; 4]);
       ([1; 0; 0; 1], zt [2; 2; 1; 2]%nat [5; 6; 7; 8; 9; 10; 11; 12]);
       ([0; 1; 1; 0], zt [1; 1; 1; 1]%nat [13])].
  Definition gB : list (list nat) := [[2]; [3; 1]]%nat.

  Example exB_hyps :
    wf_array U1 ZRing ex5 = true /\ Forall (fun g : list nat => g <> []) gB /\ NoDup (concat gB) /\
    Forall (fun ax => (ax < ndim U1 ZRing ex5)%nat) (concat gB).
  Proof.
    split; [vm_compute; reflexivity|]. split; [repeat constructor; discriminate|].
    split; [cbn; repeat constructor; cbn; intuition lia|repeat constructor].
  Qed.

  Example exB_roundtrip :
    roundtrip_ok ex5 gB = true /\ fuse_perm 4 gB = [0; 2; 3; 1]%nat /\ fuse_position gB = 1%nat /\
    ndim U1 ZRing (fuse_core U1 ZRing ex5 gB) = 3%nat /\
    wf_array U1 ZRing (fuse_core U1 ZRing ex5 gB) = true /\
    a_fuse U1 ZRing ex5 gB = fuse_core U1 ZRing ex5 gB.
  Proof. repeat split; vm_compute; reflexivity. Qed.

  (* the contraction's call: all axes in two groups, [free; contracted] *)
  Example exB_pair :
    let la := rest_axes 4 [1; 3]%nat in
    la = [0; 2]%nat /\ roundtrip_ok ex5 [la; [1; 3]%nat] = true /\
    ndim U1 ZRing (a_fuse_noexpand U1 ZRing ex5 [la; [1; 3]%nat]) = 2%nat /\
    ndim U1 ZRing (a_fuse_noexpand U1 ZRing ex5 [[]; [2; 0; 1; 3]%nat]) = 1%nat.
  Proof. repeat split; vm_compute; reflexivity. Qed.

  (* empty groups through a_fuse: unit axes are inserted, the result is valid *)
  Example exB_empty_groups :
    ndim U1 ZRing (a_fuse U1 ZRing ex5 [[]; [3; 1]%nat; []]) = 5%nat /\
    wf_array U1 ZRing (a_fuse U1 ZRing ex5 [[]; [3; 1]%nat; []]) = true.
  Proof. split; vm_compute; reflexivity. Qed.
End ExGroups.
