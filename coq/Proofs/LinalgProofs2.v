(* Proofs/LinalgProofs2.v — continuation of C11 / C13:
   part 1  eigh: v . diag(w) . v^H = x (abelian), and the sign rule of the fermionic eigh;
   part 2  fermionic svd: (u . diag(s)) @ vh = x at value level;
   part 3  truncation of the svd factors (Model/Truncate.v): explicit form, validity,
           the three absorb modes, the truncated product, the residual and (with the
           orthonormality contracts of the per-block routine) the error identity.
   The per-block LAPACK routines are function parameters with explicit contracts
   (DESIGN 2.2); the coefficient ring is any commutative ring with conjugation
   (`CRingLaws`, instances for ZRing and GRing). *)
From SV Require Import Base.Prelude Base.Sym Base.Tensor Gen.PhasePerm Model.Sectors Model.Array Model.Arith
  Model.Wf Model.Fermi Model.Linalg Model.SymInst Model.Truncate
  Proofs.TensorProofs Proofs.SymLaws Proofs.GroupFacts Proofs.Tdot Proofs.TdotInst Proofs.StructProofs
  Proofs.LazyProofs Proofs.WfProofs Proofs.FermiProofs Proofs.LinalgProofs.
From Coq Require Import Permutation Ring.
Local Open Scope nat_scope.

(* ------------------------------------------------------------------ *)
(* the laws of the coefficient ring: commutative ring with an involutive conjugation *)
Record CRingLaws (R : Ring) : Prop := {
  cr_sum : SumLaws R;
  cr_neg : NegLaws R;
  cr_mul_assoc : forall a b c, rmul R a (rmul R b c) = rmul R (rmul R a b) c;
  cr_mul_comm : forall a b, rmul R a b = rmul R b a;
  cr_mul_1_l : forall a, rmul R (r1 R) a = a;
  cr_distr_l : forall a b c, rmul R a (radd R b c) = radd R (rmul R a b) (rmul R a c);
  cr_add_neg : forall a, radd R a (rneg R a) = r0 R;
  cr_conj_0 : rconj R (r0 R) = r0 R;
  cr_conj_add : forall a b, rconj R (radd R a b) = radd R (rconj R a) (rconj R b);
  cr_conj_mul : forall a b, rconj R (rmul R a b) = rmul R (rconj R a) (rconj R b);
  cr_conj_neg : forall a, rconj R (rneg R a) = rneg R (rconj R a);
  cr_conj_invol : forall a, rconj R (rconj R a) = a
}.

Lemma ZRing_cring : CRingLaws ZRing.
Proof.
  split; [exact ZRing_sum_laws | exact ZRing_neg_laws | ..]; cbn [ZRing RT r0 r1 radd rmul rneg rconj]; intros; try reflexivity; ring.
Qed.

Lemma GRing_cring : CRingLaws GRing.
Proof.
  split; [exact GRing_sum_laws | exact GRing_neg_laws | ..]; cbn [GRing RT r0 r1 radd rmul rneg rconj]; intros;
    repeat match goal with x : (Z * Z)%type |- _ => destruct x end; cbn [fst snd]; try reflexivity; f_equal; ring.
Qed.

(* ------------------------------------------------------------------ *)
(* small facts *)
Lemma flat_map_nil {A B} (l : list A) : flat_map (fun _ : A => @nil B) l = [].
Proof. induction l as [|a l IH]; [reflexivity | exact IH]. Qed.

Section SmallDict.
  Context {K V : Type} (e : K -> K -> bool) (e_spec : forall a b, e a b = true <-> a = b).

  Lemma lookup_map_kv {W} (f : K -> V -> W) k (d : list (K * V)) :
    lookup e k (map (fun p => (fst p, f (fst p) (snd p))) d) = option_map (f k) (lookup e k d).
  Proof.
    induction d as [|[k' v] d IH]; [reflexivity|]. cbn [map lookup fst snd].
    destruct (e k k') eqn:E; [apply e_spec in E; now subst k' | exact IH].
  Qed.
End SmallDict.

(* ================================================================== *)
(* part 1: eigh *)
Section EighRecon.
  Context (G : Symmetry) (HG : GroupLaws G) (R : Ring) (CL : CRingLaws R).
  Context (cltb_irrefl : forall c : C G, cltb G c c = false)
          (cltb_trans : forall a b c : C G, cltb G a b = true -> cltb G b c = true -> cltb G a c = true).
  Context (eigh_blk : tensor R -> tensor R * tensor R).
  Notation sector := (list (C G)).
  Notation keq := (list_eqb (ceqb G)).
  Notation arr := (aarray G R).
  Notation farr := (farray G R).
  Notation ceqb_spec := (ceqb_eq G HG).
  Notation keq_spec := (Tdot.keq_spec G ceqb_spec).
  Notation col := (col_charge G).
  Notation Sum := (rsum R).
  Notation RL := (cr_sum R CL).
  Notation NL := (cr_neg R CL).
  Notation W m := (fst (eigh_blk m)).
  Notation V m := (snd (eigh_blk m)).

  (* PRODUCT CONTRACT of the per-block routine on an n x n block m |-> (w, v):
     v . diag(w) . v^H = m, entry by entry *)
  Definition eigh_product (m : tensor R) : Prop :=
    forall i j, i < nth 0 (tshape m) 0 -> j < nth 0 (tshape m) 0 ->
      Sum (map (fun k => rmul R (rmul R (get R (V m) [i; k]) (get R (W m) [k])) (rconj R (get R (V m) [j; k])))
               (seq 0 (nth 0 (tshape m) 0)))
      = get R m [i; j].

  (* the matrix lives on (i, conj i): same table, opposite directions *)
  Definition herm_structured (x : arr) : Prop :=
    idual G (ix1 G R x) = negb (idual G (ix0 G R x)) /\ chargemap G (ix1 G R x) = chargemap G (ix0 G R x).

  Lemma herm_size x c : herm_structured x -> size_of G (ix1 G R x) c = size_of G (ix0 G R x) c.
  Proof. intros [_ H]. unfold size_of. now rewrite H. Qed.

  (* charge identity on (i, conj i): only diagonal sectors (c, c), square blocks *)
  Lemma herm_diag x : wf_array G R x = true -> ndim G R x = 2 -> charge G R x = ident G -> herm_structured x ->
    forall s m, In (s, m) (blocks G R x) ->
      exists c, s = [c; c] /\ tshape m = [size_of G (ix1 G R x) c; size_of G (ix1 G R x) c] /\
                length (tdata m) = shape_size (tshape m).
  Proof.
    intros Hw Hn Hq Hh s m Hin. pose proof (wf_mat G HG R x Hw Hn) as Hx.
    destruct (mo_blk G R x _ _ Hx s m Hin) as (c0 & c1 & -> & _ & _ & Hv0 & Hv1 & Hsum & Hsh & Hlen & _).
    assert (E : c0 = c1).
    { destruct Hh as [Hd _]. rewrite Hd, Hq, (combine_two G) in Hsum.
      pose proof (sign_negb_inverse G HG c1 (idual G (ix0 G R x)) Hv1) as Hinv.
      rewrite <- Hinv in Hsum.
      apply (gadd_cancel_r G HG) in Hsum; try (apply (sign_valid G HG); assumption).
      now apply (sign_inj G HG) in Hsum. }
    subst c1. exists c0. split; [reflexivity|]. split; [|exact Hlen]. now rewrite Hsh, (herm_size x c0 Hh).
  Qed.

  Lemma herm_square x : wf_array G R x = true -> ndim G R x = 2 -> charge G R x = ident G -> herm_structured x ->
    forall s m, In (s, m) (blocks G R x) -> nth 0 (tshape m) 0 = nth 1 (tshape m) 0.
  Proof.
    intros Hw Hn Hq Hh s m Hin. destruct (herm_diag x Hw Hn Hq Hh s m Hin) as (c & _ & -> & _). reflexivity.
  Qed.

  Section One.
    Context (x : arr) (w : bvec G R) (v : arr).
    Context (Hw : wf_array G R x = true) (Hn : ndim G R x = 2) (Hq : charge G R x = ident G) (Hh : herm_structured x).
    Context (Hsh : eigh_shapes R eigh_blk).
    Context (He : a_eigh G R eigh_blk x = Some (w, v)).
    Let i0 := ix0 G R x.
    Let i1 := ix1 G R x.

    Lemma eigh_out :
      indices G R v = indices G R x /\ charge G R v = charge G R x /\
      blocks G R v = map (fun sb => (fst sb, V (snd sb))) (blocks G R x) /\
      w = map (fun sb => (col (fst sb), W (snd sb))) (blocks G R x) /\ NoDup (map fst w) /\
      wf_array G R v = true.
    Proof.
      destruct (eigh_structure G HG R eigh_blk x Hw Hn Hq (herm_square x Hw Hn Hq Hh) Hsh)
        as (w' & v' & He' & Hi & Hc & _ & Hb & Hw' & Hnd & _ & Hwf).
      rewrite He in He'. injection He' as <- <-. repeat split; assumption.
    Qed.

    Lemma sem_v (a b : coord G) :
      sem G R v [a; b] = match lookup keq [fst a; fst b] (blocks G R x) with
                         | Some m => get R (V m) [snd a; snd b] | None => r0 R end.
    Proof.
      destruct eigh_out as (_ & _ & Hb & _). unfold sem. cbn [map fst snd]. rewrite Hb.
      rewrite (StructProofs.lookup_map_val keq (fun m => V m)).
      now destruct (lookup keq [fst a; fst b] (blocks G R x)).
    Qed.

    Lemma vsem_w c m o : In ([c; c], m) (blocks G R x) -> vsem G R w (c, o) = get R (W m) [o].
    Proof.
      intros Hin. destruct eigh_out as (_ & _ & _ & Hw' & Hnd & _). unfold vsem, dsem. cbn [fst snd].
      rewrite (Tdot.lookup_nodup_In (ceqb G) ceqb_spec c (W m) w Hnd); [reflexivity|].
      rewrite Hw'. apply in_map_iff. exists ([c; c], m). split; [reflexivity | exact Hin].
    Qed.

    (* v . diag(w) . v^H densifies to x *)
    Theorem eigh_reconstruct_one (l rr : coord G) :
      (forall s m, In (s, m) (blocks G R x) -> eigh_product m) ->
      coords_ok G [i0] [l] = true -> coords_ok G [i1] [rr] = true ->
      Sum (map (fun k => rmul R (rmul R (sem G R v [l; k]) (vsem G R w k)) (rconj R (sem G R v [rr; k])))
               (index_coords G i1))
      = sem G R x [l; rr].
    Proof.
      intros Hp Hl Hr. pose proof (wf_mat G HG R x Hw Hn) as Hx. fold i0 i1 in Hx.
      assert (Hnd1 : NoDup (map fst (chargemap G i1))).
      { exact (Tdot.wf_index_nodup G cltb_irrefl cltb_trans i1 (mo_wf1 G R x i0 i1 Hx)). }
      rewrite (Tdot.rsum_index_coords G R RL).
      set (F := fun c o => rmul R (rmul R (sem G R v [l; (c, o)]) (vsem G R w (c, o))) (rconj R (sem G R v [rr; (c, o)]))).
      transitivity (Sum (map (fun p : C G * nat => if ceqb G (fst rr) (fst p)
                                 then Sum (map (fun o => F (fst rr) o) (seq 0 (snd p))) else r0 R) (chargemap G i1))).
      { apply (Tdot.rsum_ext R). intros p Hp'. cbn [fst]. destruct (ceqb G (fst rr) (fst p)) eqn:E.
        - apply ceqb_spec in E. now rewrite E.
        - apply (Tdot.rsum_zero R RL). intros o _. rewrite (sem_v rr (fst p, o)). cbn [fst snd].
          destruct (lookup keq [fst rr; fst p] (blocks G R x)) as [m|] eqn:El.
          + apply (Tdot.lookup_In keq keq_spec) in El.
            destruct (herm_diag x Hw Hn Hq Hh _ m El) as (c & Hc & _).
            assert (Heq : fst rr = fst p) by (inversion Hc; congruence).
            apply ceqb_spec in Heq. congruence.
          + rewrite (cr_conj_0 R CL). apply (rmul_0_r R RL). }
      rewrite (Tdot.rsum_lookup R RL (ceqb G) ceqb_spec (chargemap G i1) (fst rr)
                 (fun d => Sum (map (fun o => F (fst rr) o) (seq 0 d))) Hnd1).
      apply (coords_ok_1 G) in Hl. apply (coords_ok_1 G) in Hr.
      assert (Hlk : lookup (ceqb G) (fst rr) (chargemap G i1) = Some (size_of G i1 (fst rr))).
      { unfold size_of in *. destruct (lookup (ceqb G) (fst rr) (chargemap G i1)); [reflexivity | lia]. }
      rewrite Hlk. unfold sem at 1. cbn [map fst snd].
      destruct (lookup keq [fst l; fst rr] (blocks G R x)) as [m|] eqn:El.
      - pose proof (Tdot.lookup_In keq keq_spec _ _ _ El) as Hin.
        destruct (herm_diag x Hw Hn Hq Hh _ m Hin) as (c & Hc & Hshm & _).
        destruct l as [cl ol]. destruct rr as [cr orr]. cbn [fst snd] in *. inversion Hc as [[Hc0 Hc1]]. subst cl cr.
        rewrite <- (Hp _ m Hin ol orr); rewrite Hshm; cbn [nth].
        + apply (Tdot.rsum_ext R). intros o _. unfold F. rewrite !sem_v. cbn [fst snd]. rewrite El.
          now rewrite (vsem_w c m o Hin).
        + fold i1. unfold i1. rewrite (herm_size x _ Hh). exact Hl.
        + exact Hr.
      - apply (Tdot.rsum_zero R RL). intros o _. unfold F. rewrite (sem_v l). cbn [fst snd]. rewrite El.
        now rewrite !(rmul_0_l R RL).
    Qed.

    (* the same through the model's own operations:  (v . diag(w)) @ v.H  ==  x *)
    Theorem eigh_matmul_one (l rr : coord G) :
      (forall s m, In (s, m) (blocks G R x) -> eigh_product m) ->
      coords_ok G [i0] [l] = true -> coords_ok G [i1] [rr] = true ->
      exists res, a_matmul G R (a_multiply_diagonal G R v w 1) (a_dagger G R v) = Some res /\
                  sem G R res [l; rr] = sem G R x [l; rr].
    Proof.
      intros Hp Hl Hr. destruct eigh_out as (Hi & Hc & _ & _ & _ & Hwv).
      pose proof (wf_mat G HG R x Hw Hn) as Hx. fold i0 i1 in Hx.
      assert (Hiv : indices G R v = [i0; i1]) by (rewrite Hi; exact (mo_ix G R x i0 i1 Hx)).
      set (A := a_multiply_diagonal G R v w 1). set (B := a_dagger G R v).
      assert (HiA : indices G R A = [i0; i1]) by exact Hiv.
      assert (HiB : indices G R B = [iconj G i1; iconj G i0]).
      { destruct (dagger_sem G HG R (cr_conj_0 R CL) v [l; (fst rr, snd rr)] Hwv) as (_ & Hd & _).
        - rewrite Hiv. unfold coords_ok. cbn [length Nat.eqb List.combine forallb fst snd andb].
          apply (coords_ok_1 G) in Hl. apply (coords_ok_1 G) in Hr.
          now rewrite (proj2 (Nat.ltb_lt _ _) Hl), (proj2 (Nat.ltb_lt _ _) Hr).
        - unfold B. rewrite Hd, Hiv. reflexivity. }
      assert (HwA : wf_array G R A = true) by (apply (multiply_diagonal_wf G HG R); exact Hwv).
      assert (HwB : wf_array G R B = true) by (apply (dagger_wf G HG R); exact Hwv).
      assert (Hcn : charges_nodup G [nth 1 (indices G R A) (dflt_index G)] = true).
      { rewrite HiA. cbn [nth]. unfold charges_nodup. cbn [forallb]. rewrite andb_true_r.
        apply (NoDup_nodupb (ceqb G) ceqb_spec).
        exact (Tdot.wf_index_nodup G cltb_irrefl cltb_trans i1 (mo_wf1 G R x i0 i1 Hx)). }
      assert (Hrr0 : coords_ok G [i0] [rr] = true).
      { apply (coords_ok_1 G). apply (coords_ok_1 G) in Hr. fold i1 in Hr. unfold i0, i1 in *.
        now rewrite <- (herm_size x _ Hh). }
      destruct (matmul_sem G R RL ceqb_spec A B l rr) as [res [Hres Hsem]].
      - unfold ndim. now rewrite HiA.
      - unfold ndim. now rewrite HiB.
      - exact HwA.
      - exact HwB.
      - exact Hcn.
      - rewrite HiA. exact Hl.
      - rewrite HiB. cbn [nth]. apply (coords_ok_1 G). rewrite (size_of_iconj G). now apply (coords_ok_1 G).
      - exists res. split; [exact Hres|]. rewrite Hsem, HiA. cbn [nth].
        rewrite <- (eigh_reconstruct_one l rr Hp Hl Hr).
        apply (Tdot.rsum_ext R). intros k Hk.
        assert (Hk2 : snd k < size_of G i1 (fst k)).
        { apply (index_coords_in G HG); [|exact Hk].
          exact (Tdot.wf_index_nodup G cltb_irrefl cltb_trans i1 (mo_wf1 G R x i0 i1 Hx)). }
        assert (Hpair : forall a : coord G, coords_ok G [i0] [a] = true -> coords_ok G (indices G R v) [a; k] = true).
        { intros a Ha. rewrite Hiv. unfold coords_ok. cbn [length Nat.eqb List.combine forallb fst snd andb].
          apply (coords_ok_1 G) in Ha. now rewrite (proj2 (Nat.ltb_lt _ _) Ha), (proj2 (Nat.ltb_lt _ _) Hk2). }
        unfold A. rewrite (multiply_diagonal_sem G HG R (rmul_0_l R RL) (rmul_0_r R RL) v w 1 [l; k] Hwv (Hpair l Hl)).
        cbn [nth]. f_equal.
        destruct (dagger_sem G HG R (cr_conj_0 R CL) v [rr; k] Hwv (Hpair rr Hrr0)) as (Hd & _).
        exact Hd.
    Qed.
  End One.

  Theorem eigh_reconstruct (x : arr) (w : bvec G R) (v : arr) :
    wf_array G R x = true -> ndim G R x = 2 -> charge G R x = ident G -> herm_structured x ->
    eigh_shapes R eigh_blk ->
    (forall s m, In (s, m) (blocks G R x) -> eigh_product m) ->
    a_eigh G R eigh_blk x = Some (w, v) ->
    forall l rr, coords_ok G [ix0 G R x] [l] = true -> coords_ok G [ix1 G R x] [rr] = true ->
      Sum (map (fun k => rmul R (rmul R (sem G R v [l; k]) (vsem G R w k)) (rconj R (sem G R v [rr; k])))
               (index_coords G (ix1 G R x)))
      = sem G R x [l; rr] /\
      exists res, a_matmul G R (a_multiply_diagonal G R v w 1) (a_dagger G R v) = Some res /\
                  sem G R res [l; rr] = sem G R x [l; rr].
  Proof.
    intros Hw Hn Hq Hh Hsh Hp He l rr Hl Hr. split.
    - exact (eigh_reconstruct_one x w v Hw Hn Hq Hh Hsh He l rr Hp Hl Hr).
    - exact (eigh_matmul_one x w v Hw Hn Hq Hh Hsh He l rr Hp Hl Hr).
  Qed.
End EighRecon.

(* ------------------------------------------------------------------ *)
(* fermionic eigh.  FermionicArray.multiply_diagonal is the inherited block operation
   (pending signs and labels untouched): *)
Definition f_mul_diag (G : Symmetry) (R : Ring) (y : farray G R) (w : bvec G R) (axis : nat) : farray G R :=
  with_base G R y (a_multiply_diagonal G R (fbase G R y) w axis).

Lemma resolve_nil (p : bool) : resolve_oddpos p [] (oddpos_dag []) = Some (false, []).
Proof. reflexivity. Qed.

Section FermiEigh.
  Context (G : Symmetry) (HG : GroupLaws G) (R : Ring) (CL : CRingLaws R).
  Context (cltb_irrefl : forall c : C G, cltb G c c = false)
          (cltb_trans : forall a b c : C G, cltb G a b = true -> cltb G b c = true -> cltb G a c = true).
  Context (eigh_blk : tensor R -> tensor R * tensor R).
  Notation sector := (list (C G)).
  Notation keq := (list_eqb (ceqb G)).
  Notation arr := (aarray G R).
  Notation farr := (farray G R).
  Notation ceqb_spec := (ceqb_eq G HG).
  Notation keq_spec := (Tdot.keq_spec G ceqb_spec).
  Notation Sum := (rsum R).
  Notation RL := (cr_sum R CL).
  Notation NL := (cr_neg R CL).

  Lemma f_value_nophase (b : arr) odd : f_value G R (mkF G R b [] odd) = b.
  Proof. rewrite f_value_eq. cbn [fphases fbase]. apply a_signmap_false. reflexivity. Qed.

  (* the adjoint of an even array without pending signs *)
  Lemma f_dagger_plain (b : arr) odd : parity G (charge G R b) = false -> valid G (charge G R b) = true ->
    f_dagger G R (mkF G R b [] odd) false = mkF G R (a_dagger G R b) [] (oddpos_dag odd).
  Proof.
    intros Hp Hv. unfold f_dagger. cbn [fbase fphases foddpos]. unfold ph_has. cbn [mem].
    rewrite flat_map_nil. unfold fparity. cbn [fbase].
    assert (E : parity G (charge G R (a_dagger G R b)) = false).
    { unfold a_dagger, a_transpose, a_conj. cbn [charge]. now rewrite (parity_sign G HG). }
    rewrite E. reflexivity.
  Qed.

  (* the eigenvalue vector after the sign rule *)
  Definition flip_odd (w : bvec G R) : bvec G R :=
    map (fun cw => if parity G (fst cw) then (fst cw, tneg R (snd cw)) else cw) w.

  Lemma vsem_flip_odd w (k : coord G) :
    vsem G R (flip_odd w) k = if parity G (fst k) then rneg R (vsem G R w k) else vsem G R w k.
  Proof.
    unfold vsem, dsem, flip_odd.
    rewrite (map_ext _ (fun cw => (fst cw, (fun c t => if parity G c then tneg R t else t) (fst cw) (snd cw))))
      by (intros [c t]; cbn [fst snd]; now destruct (parity G c)).
    rewrite (lookup_map_kv (ceqb G) ceqb_spec (fun c t => if parity G c then tneg R t else t)).
    destruct (lookup (ceqb G) (fst k) w) as [t|]; cbn [option_map].
    - destruct (parity G (fst k)); [apply (FermiProofs.get_tneg R NL) | reflexivity].
    - destruct (parity G (fst k)); [symmetry; apply (rneg_zero R NL) | reflexivity].
  Qed.

  (* SIGN RULE of eigh_fermionic: with the eigenvalues of odd charges negated when the second
     index is ket-like, `multiply_diagonal(ev, el, 1) @ ev.H == a` holds at value level in BOTH
     direction patterns (ev.H = dagger(phase_dual=False)).  The contract of the per-block routine
     is on the phase-synced blocks, which are what the code decomposes. *)
  Theorem f_eigh_reconstruct (a : farr) (w : bvec G R) (ev : farr) (odd' : list fop) (l rr : coord G) :
    wf_array G R (fbase G R a) = true -> ndim G R (fbase G R a) = 2 ->
    charge G R (fbase G R a) = ident G -> herm_structured G R (fbase G R a) ->
    eigh_shapes R eigh_blk ->
    (forall s m, In (s, m) (blocks G R (f_value G R a)) -> eigh_product R eigh_blk m) ->
    f_eigh G R eigh_blk a = Some (w, ev) ->
    resolve_oddpos false (foddpos G R a) (oddpos_dag (foddpos G R a)) = Some (false, odd') ->
    coords_ok G [ix0 G R (fbase G R a)] [l] = true -> coords_ok G [ix1 G R (fbase G R a)] [rr] = true ->
    (exists w0 v0, a_eigh G R eigh_blk (f_value G R a) = Some (w0, v0) /\ ev = mkF G R v0 [] (foddpos G R a) /\
                   w = if negb (idual G (ix1 G R (fbase G R a))) then flip_odd w0 else w0) /\
    exists y, f_matmul G R (f_mul_diag G R ev w 1) (f_dagger G R ev false) = Some y /\
              foddpos G R y = odd' /\
              sem G R (f_value G R y) [l; rr] = sem G R (f_value G R a) [l; rr].
  Proof.
    intros Hw Hn Hq Hh Hsh Hp He Hodd Hl Hr.
    set (X := f_value G R a).
    assert (HwX : wf_array G R X = true) by (unfold X; rewrite f_value_eq; now apply wf_signmap).
    assert (HnX : ndim G R X = 2) by exact Hn.
    assert (HqX : charge G R X = ident G) by exact Hq.
    assert (HhX : herm_structured G R X) by exact Hh.
    unfold f_eigh in He. change (fbase G R (f_phase_sync G R a)) with X in He.
    destruct (a_eigh G R eigh_blk X) as [[w0 v0]|] eqn:Ea; [|discriminate].
    change (ix1 G R X) with (ix1 G R (fbase G R a)) in He.
    set (i0 := ix0 G R (fbase G R a)) in *. set (i1 := ix1 G R (fbase G R a)) in *.
    set (flip := negb (idual G i1)) in *.
    injection He as Ew Eev. split.
    { exists w0, v0. split; [reflexivity|]. split; [now rewrite <- Eev|]. rewrite <- Ew. unfold flip_odd. reflexivity. }
    change (map (fun cw => if parity G (fst cw) then (fst cw, tneg R (snd cw)) else cw) w0) with (flip_odd w0) in Ew.
    pose proof (eigh_out G HG R eigh_blk X w0 v0 HwX HnX HqX HhX Hsh Ea) as (Hiv & Hcv & _ & _ & _ & Hwv).
    pose proof (wf_mat G HG R X HwX HnX) as Hx. change (ix0 G R X) with i0 in Hx. change (ix1 G R X) with i1 in Hx.
    assert (Hiv2 : indices G R v0 = [i0; i1]) by (rewrite Hiv; exact (mo_ix G R X i0 i1 Hx)).
    assert (Hpar : parity G (charge G R v0) = false) by (rewrite Hcv, HqX; apply (parity_ident G HG)).
    assert (Hval : valid G (charge G R v0) = true) by (rewrite Hcv, HqX; apply (valid_ident G HG)).
    rewrite <- Eev. rewrite (f_dagger_plain v0 _ Hpar Hval).
    set (A := a_multiply_diagonal G R v0 w 1). set (B := a_dagger G R v0).
    set (fB := mkF G R B [] (oddpos_dag (foddpos G R a))).
    assert (EfA : f_mul_diag G R (mkF G R v0 [] (foddpos G R a)) w 1 = mkF G R A [] (foddpos G R a)) by reflexivity.
    rewrite EfA, f_matmul_view.
    rewrite (f_value_nophase A).
    assert (HwA : wf_array G R A = true) by (apply (multiply_diagonal_wf G HG R); exact Hwv).
    assert (HwB : wf_array G R B = true) by (apply (dagger_wf G HG R); exact Hwv).
    assert (HiA : indices G R A = [i0; i1]) by exact Hiv2.
    apply (coords_ok_1 G) in Hl. apply (coords_ok_1 G) in Hr.
    assert (Hrr0 : snd rr < size_of G i0 (fst rr)).
    { unfold i0. rewrite <- (herm_size G R _ (fst rr) Hh). exact Hr. }
    assert (Hpair : forall a0 k : coord G, snd a0 < size_of G i0 (fst a0) -> snd k < size_of G i1 (fst k) ->
                                           coords_ok G (indices G R v0) [a0; k] = true).
    { intros a0 k Ha Hk. rewrite Hiv2. unfold coords_ok. cbn [length Nat.eqb List.combine forallb fst snd andb].
      now rewrite (proj2 (Nat.ltb_lt _ _) Ha), (proj2 (Nat.ltb_lt _ _) Hk). }
    assert (HiB : indices G R B = [iconj G i1; iconj G i0]).
    { destruct (dagger_sem G HG R (cr_conj_0 R CL) v0 [l; rr] Hwv (Hpair l rr Hl Hr)) as (_ & Hd & _).
      unfold B. rewrite Hd, Hiv2. reflexivity. }
    assert (HndB : NoDup (fsectors G R fB)).
    { unfold fsectors, fB. cbn [fbase]. apply (Tdot.nodupb_NoDup keq keq_spec). unfold wf_array in HwB.
      apply andb_true_iff in HwB. destruct HwB as [HwB _]. apply andb_true_iff in HwB. now destruct HwB. }
    (* the right operand as the product sees it *)
    set (Bv := f_value G R (matmul_right_view G R fB)).
    assert (EBv : Bv = a_signmap G R (fun s => flip && parity G (nth 0 s (ident G))) B).
    { unfold Bv, matmul_right_view, fB. cbn [fbase]. rewrite HiB. cbn [nth]. rewrite (iconj_dual G). fold flip.
      destruct flip; cbn [andb].
      - rewrite (value_phase_flip G R HG (rneg_invol R NL)) by exact HndB. rewrite (f_value_nophase B).
        unfold a_signmap. f_equal. apply map_ext. intros [s t]. cbn [fst snd]. f_equal.
        unfold count_odd, odd_at. cbn [filter]. now destruct (parity G (nth 0 s (ident G))).
      - rewrite (f_value_nophase B). symmetry. apply a_signmap_false. reflexivity. }
    assert (HwBv : wf_array G R Bv = true) by (rewrite EBv; now apply wf_signmap).
    assert (Hnd1 : NoDup (icharges G i1)).
    { exact (Tdot.wf_index_nodup G cltb_irrefl cltb_trans i1 (mo_wf1 G R X i0 i1 Hx)). }
    destruct (matmul_sem G R RL ceqb_spec A Bv l rr) as [res [Hres Hsem]].
    - unfold ndim. now rewrite HiA.
    - rewrite EBv. unfold ndim, a_signmap, with_blocks. cbn [indices]. now rewrite HiB.
    - exact HwA.
    - exact HwBv.
    - rewrite HiA. cbn [nth]. unfold charges_nodup. cbn [forallb]. rewrite andb_true_r.
      now apply (NoDup_nodupb (ceqb G) ceqb_spec).
    - rewrite HiA. cbn [nth]. now apply (coords_ok_1 G).
    - rewrite EBv. unfold a_signmap, with_blocks. cbn [indices]. rewrite HiB. cbn [nth].
      apply (coords_ok_1 G). now rewrite (size_of_iconj G).
    - rewrite Hres. unfold finish_contraction.
      assert (Hpa : fparity G R (f_phase_sync G R (mkF G R A [] (foddpos G R a))) = false) by exact Hpar.
      rewrite Hpa.
      change (foddpos G R (f_phase_sync G R (mkF G R A [] (foddpos G R a)))) with (foddpos G R a).
      assert (HoB : foddpos G R (f_phase_sync G R (matmul_right_view G R fB)) = oddpos_dag (foddpos G R a)).
      { unfold matmul_right_view, fB. cbn [fbase].
        destruct (idual G (nth 0 (indices G R B) (dflt_index G))); [|reflexivity].
        cbn [f_phase_sync foddpos]. apply LazyProofs.foddpos_flip. }
      rewrite HoB, Hodd. eexists. split; [reflexivity|]. split; [reflexivity|].
      rewrite (f_value_nophase res), Hsem, HiA. cbn [nth].
      rewrite <- (eigh_reconstruct_one G HG R CL cltb_irrefl cltb_trans eigh_blk X w0 v0 HwX HnX HqX HhX Hsh Ea l rr Hp).
      + apply (Tdot.rsum_ext R). intros k Hk.
        assert (Hk2 : snd k < size_of G i1 (fst k)) by (apply (index_coords_in G HG); assumption).
        unfold A. rewrite (multiply_diagonal_sem G HG R (rmul_0_l R RL) (rmul_0_r R RL) v0 w 1 [l; k] Hwv (Hpair l k Hl Hk2)).
        cbn [nth]. rewrite EBv, (sem_signmap G HG R (rneg_zero R NL)). cbn [map fst nth].
        destruct (dagger_sem G HG R (cr_conj_0 R CL) v0 [rr; k] Hwv (Hpair rr k Hrr0 Hk2)) as (Hd & _).
        cbn [rev app] in Hd. fold B in Hd. rewrite Hd. rewrite <- Ew.
        destruct flip; cbn [andb negb]; [|reflexivity].
        rewrite vsem_flip_odd. destruct (parity G (fst k)); [|reflexivity].
        rewrite !(rmul_neg_r R NL), (rmul_neg_l R NL). now rewrite (rneg_invol R NL).
      + now apply (coords_ok_1 G).
      + now apply (coords_ok_1 G).
  Qed.
End FermiEigh.

(* ================================================================== *)
(* part 2: fermionic svd.  u keeps x's pending signs and labels, vh is fresh and flipped on
   a dual first axis; multiplying the singular values into u and contracting with the
   fermionic matrix product gives back x at value level: (u . diag(s)) @ vh == x *)
Section FermiSvd.
  Context (G : Symmetry) (HG : GroupLaws G) (R : Ring) (CL : CRingLaws R).
  Context (cltb_irrefl : forall c : C G, cltb G c c = false)
          (cltb_trans : forall a b c : C G, cltb G a b = true -> cltb G b c = true -> cltb G a c = true)
          (cltb_total : forall a b : C G, a <> b -> cltb G a b = true \/ cltb G b a = true).
  Context (svd_blk : tensor R -> tensor R * tensor R * tensor R) (Hshapes : svd_shapes R svd_blk).
  Notation RL := (cr_sum R CL).
  Notation NL := (cr_neg R CL).

  Lemma f_svd_as_scaled_split (x u : farray G R) (s : bvec G R) (vh : farray G R) :
    wf_array G R (fbase G R x) = true -> ndim G R (fbase G R x) = 2 ->
    f_svd G R svd_blk x = Some (u, s, vh) ->
    f_split G R (svd_scaled R svd_blk) x = Some (f_mul_diag G R u s 1, vh).
  Proof.
    intros Hw Hn Hs. pose proof (wf_mat G HG R _ Hw Hn) as Hx.
    unfold f_svd, f_split in *. rewrite (a_split_eq G HG R _ _ _ _ Hx) in Hs. injection Hs as Eu Es Ev.
    rewrite (a_split_eq G HG R _ _ _ _ Hx).
    destruct (scaled_left G HG R svd_blk (fbase G R x) Hw Hn) as [E1 E2].
    rewrite <- Eu, <- Es, <- Ev, <- E2. unfold f_mul_diag, with_base. cbn [fbase fphases foddpos]. now rewrite E1.
  Qed.

  Theorem fermionic_svd_reconstruct (x u : farray G R) (s : bvec G R) (vh : farray G R) (l rr : coord G) :
    wf_array G R (fbase G R x) = true -> ndim G R (fbase G R x) = 2 ->
    (forall sec m, In (sec, m) (blocks G R (fbase G R x)) -> svd_product R svd_blk m) ->
    f_svd G R svd_blk x = Some (u, s, vh) ->
    resolve_oddpos (fparity G R x) (foddpos G R x) [] = Some (false, foddpos G R x) ->
    coords_ok G [ix0 G R (fbase G R x)] [l] = true -> coords_ok G [ix1 G R (fbase G R x)] [rr] = true ->
    exists y, f_matmul G R (f_mul_diag G R u s 1) vh = Some y /\ foddpos G R y = foddpos G R x /\
              sem G R (f_value G R y) [l; rr] = sem G R (f_value G R x) [l; rr].
  Proof.
    intros Hw Hn Hp Hs Hodd Hl Hr.
    exact (f_split_matmul G HG R RL cltb_irrefl cltb_trans cltb_total (rneg_invol R NL) (rneg_zero R NL)
             (rneg_add R NL) (rmul_neg_l R NL) (svd_scaled R svd_blk) x (f_mul_diag G R u s 1) vh l rr Hw Hn
             (svd_scaled_shapes R svd_blk Hshapes) Hp (f_svd_as_scaled_split x u s vh Hw Hn Hs) Hodd Hl Hr).
  Qed.
End FermiSvd.

(* ------------------------------------------------------------------ *)
(* Examples for parts 1 and 2: Z2, Gaussian integers, a 2x2 odd and a 1x1 even block on
   (i, conj i); the per-block "eigh" is exact on the blocks that occur (and on their negatives,
   which is what a pending sign makes the routine see): m = v diag(w) v^H with a NON-unitary v,
   which is all the product contract asks for *)
Module EighEx.
  Local Open Scope Z_scope.
  Definition gi (a b : Z) : RT GRing := (a, b).
  Definition V2 : tensor GRing := @mkT GRing [2; 2]%nat [gi 1 0; gi 0 1; gi 2 0; gi 1 1].
  Definition W2 : tensor GRing := @mkT GRing [2]%nat [gi 1 0; gi (-1) 0].
  Definition V1 : tensor GRing := @mkT GRing [1; 1]%nat [gi 0 1].
  Definition W1 : tensor GRing := @mkT GRing [1]%nat [gi 5 0].
  Definition M2 : tensor GRing := @mkT GRing [2; 2]%nat [gi 0 0; gi 1 (-1); gi 1 1; gi 2 0].
  Definition M1 : tensor GRing := @mkT GRing [1; 1]%nat [gi 5 0].
  Definition eye (n : nat) : tensor GRing :=
    build GRing [n; n] (fun idx => if Nat.eqb (nth 0 idx 0%nat) (nth 1 idx 0%nat) then gi 1 0 else gi 0 0).
  Definition eigh_ex (m : tensor GRing) : tensor GRing * tensor GRing :=
    if tensor_eqb GRing m M2 then (W2, V2)
    else if tensor_eqb GRing m (tneg GRing M2) then (tneg GRing W2, V2)
    else if tensor_eqb GRing m M1 then (W1, V1)
    else (tzeros GRing [sh1 GRing m], eye (sh1 GRing m)).

  Example eigh_ex_shapes : eigh_shapes GRing eigh_ex.
  Proof.
    intros m n Hm Hl. unfold eigh_ex.
    destruct (tensor_eqb GRing m M2) eqn:E2; [|destruct (tensor_eqb GRing m (tneg GRing M2)) eqn:E3;
      [|destruct (tensor_eqb GRing m M1) eqn:E1]].
    - unfold tensor_eqb in E2. apply andb_true_iff in E2. destruct E2 as [E2 _].
      apply (Tdot.list_eqb_spec Nat.eqb Nat.eqb_eq) in E2. rewrite Hm in E2. inversion E2; subst. repeat split.
    - unfold tensor_eqb in E3. apply andb_true_iff in E3. destruct E3 as [E3 _].
      apply (Tdot.list_eqb_spec Nat.eqb Nat.eqb_eq) in E3. rewrite Hm in E3. inversion E3; subst. repeat split.
    - unfold tensor_eqb in E1. apply andb_true_iff in E1. destruct E1 as [E1 _].
      apply (Tdot.list_eqb_spec Nat.eqb Nat.eqb_eq) in E1. rewrite Hm in E1. inversion E1; subst. repeat split.
    - unfold sh1. rewrite Hm. cbn [nth fst snd]. unfold eye, build, tzeros. cbn [tshape tdata]. repeat split.
      now rewrite map_length, length_all_idx.
  Qed.

  Definition ix (d : bool) : index Z2 := Index Z2 [(0, 1%nat); (1, 2%nat)] d None.
  Definition xa (d : bool) : aarray Z2 GRing := mkA Z2 GRing [ix d; ix (negb d)] 0 [([0; 0], M1); ([1; 1], M2)].

  Example xa_hyps d : wf_array Z2 GRing (xa d) = true /\ ndim Z2 GRing (xa d) = 2%nat /\
    charge Z2 GRing (xa d) = ident Z2 /\ herm_structured Z2 GRing (xa d).
  Proof. destruct d; vm_compute; repeat split; reflexivity. Qed.

  Example products_ok m : m = M1 \/ m = M2 \/ m = tneg GRing M2 -> eigh_product GRing eigh_ex m.
  Proof.
    intros [->|[->| ->]] i j Hi Hj; cbn [tshape nth M1 M2 tneg tmap] in Hi, Hj;
      repeat (destruct i as [|i]; try lia); repeat (destruct j as [|j]; try lia); vm_compute; reflexivity.
  Qed.

  Example xa_products d : forall s m, In (s, m) (blocks Z2 GRing (xa d)) -> eigh_product GRing eigh_ex m.
  Proof. intros s m [H|[H|[]]]; inversion H; subst; apply products_ok; auto. Qed.

  (* abelian instance *)
  Example eigh_instance d l rr :
    coords_ok Z2 [ix d] [l] = true -> coords_ok Z2 [ix (negb d)] [rr] = true ->
    exists w v res, a_eigh Z2 GRing eigh_ex (xa d) = Some (w, v) /\
      a_matmul Z2 GRing (a_multiply_diagonal Z2 GRing v w 1) (a_dagger Z2 GRing v) = Some res /\
      sem Z2 GRing res [l; rr] = sem Z2 GRing (xa d) [l; rr].
  Proof.
    intros Hl Hr. destruct (xa_hyps d) as (Hw & Hn & Hq & Hh).
    destruct (a_eigh Z2 GRing eigh_ex (xa d)) as [[w v]|] eqn:E; [|destruct d; vm_compute in E; discriminate].
    destruct (eigh_reconstruct Z2 Z2_laws GRing GRing_cring (builtin_cltb_irrefl Z2 bs_Z2) (builtin_cltb_trans Z2 bs_Z2)
                eigh_ex (xa d) w v Hw Hn Hq Hh eigh_ex_shapes (xa_products d) E l rr Hl Hr) as (_ & res & Hres & Hsem).
    now exists w, v, res.
  Qed.

  (* fermionic: both direction patterns, with a pending sign on the odd sector; the eigenvalues
     of the odd charge come out negated exactly when the second index is ket-like *)
  Definition fa (d : bool) : farray Z2 GRing := mkF Z2 GRing (xa d) [[1; 1]] [].

  Example f_eigh_values :
    (match f_eigh Z2 GRing eigh_ex (fa false) with Some (w, _) => lookup Z.eqb 1 w = Some (tneg GRing W2) | None => False end) /\
    (match f_eigh Z2 GRing eigh_ex (fa true) with Some (w, _) => lookup Z.eqb 1 w = Some W2 | None => False end).
  Proof. vm_compute. split; reflexivity. Qed.

  Example fa_products d : forall s m, In (s, m) (blocks Z2 GRing (f_value Z2 GRing (fa d))) -> eigh_product GRing eigh_ex m.
  Proof. intros s m [H|[H|[]]]; inversion H; subst; apply products_ok; auto. Qed.

  Example f_eigh_instance d l rr :
    coords_ok Z2 [ix d] [l] = true -> coords_ok Z2 [ix (negb d)] [rr] = true ->
    exists w ev y, f_eigh Z2 GRing eigh_ex (fa d) = Some (w, ev) /\
      f_matmul Z2 GRing (f_mul_diag Z2 GRing ev w 1) (f_dagger Z2 GRing ev false) = Some y /\
      sem Z2 GRing (f_value Z2 GRing y) [l; rr] = sem Z2 GRing (f_value Z2 GRing (fa d)) [l; rr].
  Proof.
    intros Hl Hr. destruct (xa_hyps d) as (Hw & Hn & Hq & Hh).
    destruct (f_eigh Z2 GRing eigh_ex (fa d)) as [[w ev]|] eqn:E; [|destruct d; vm_compute in E; discriminate].
    destruct (f_eigh_reconstruct Z2 Z2_laws GRing GRing_cring (builtin_cltb_irrefl Z2 bs_Z2) (builtin_cltb_trans Z2 bs_Z2)
                eigh_ex (fa d) w ev [] l rr Hw Hn Hq Hh eigh_ex_shapes (fa_products d) E (resolve_nil false) Hl Hr)
      as (_ & y & Hy & _ & Hsem).
    now exists w, ev, y.
  Qed.

  (* fermionic svd on the instance of LinalgProofs.FermiEx *)
  Import LinalgEx FermiEx.
  Example xf_svd_products : forall s m, In (s, m) (blocks Z2 ZRing (fbase Z2 ZRing xf)) -> svd_product ZRing svd_ex m.
  Proof.
    intros s m [H|[H|[]]]; inversion H; subst; intros i j Hi Hj; cbn [tshape nth] in Hi, Hj;
      repeat (destruct i as [|i]; try lia); repeat (destruct j as [|j]; try lia); vm_compute; reflexivity.
  Qed.

  Example f_svd_instance l rr :
    coords_ok Z2 [ix0 Z2 ZRing xb] [l] = true -> coords_ok Z2 [ix1 Z2 ZRing xb] [rr] = true ->
    exists u s vh y, f_svd Z2 ZRing svd_ex xf = Some (u, s, vh) /\
      f_matmul Z2 ZRing (f_mul_diag Z2 ZRing u s 1) vh = Some y /\ foddpos Z2 ZRing y = [([3], false)] /\
      sem Z2 ZRing (f_value Z2 ZRing y) [l; rr] = sem Z2 ZRing (f_value Z2 ZRing xf) [l; rr].
  Proof.
    intros Hl Hr. destruct xf_hyps as [Hw Hn].
    destruct (f_svd Z2 ZRing svd_ex xf) as [[[u s] vh]|] eqn:E; [|vm_compute in E; discriminate].
    destruct (fermionic_svd_reconstruct Z2 Z2_laws ZRing ZRing_cring (builtin_cltb_irrefl Z2 bs_Z2) (builtin_cltb_trans Z2 bs_Z2)
                (builtin_cltb_total Z2 bs_Z2) svd_ex svd_ex_shapes xf u s vh l rr Hw Hn xf_svd_products E
                (resolve_at_most_one (fparity Z2 ZRing xf) (foddpos Z2 ZRing xf) (le_n 1)) Hl Hr) as (y & Hy & Ho & Hs).
    exists u, s, vh, y. repeat split; assumption.
  Qed.
End EighEx.

(* ================================================================== *)
(* part 3: truncation of the svd factors *)

(* the two dict loops of Model/Truncate.v on a dict that is processed in its own key order *)
Section DictLoops.
  Context (R : Ring) {K : Type} (e : K -> K -> bool) (e_spec : forall a b, e a b = true <-> a = b).
  Notation dict := (list (K * tensor R)).

  Lemma e_neq a b : a <> b -> e a b = false.
  Proof. intros H. destruct (e a b) eqn:E; [|reflexivity]. apply e_spec in E. contradiction. Qed.

  Lemma lookup_skip k (P d : dict) : ~ In k (keys P) -> lookup e k (P ++ d) = lookup e k d.
  Proof.
    induction P as [|[k' v'] P IH]; intros H; [reflexivity|]. cbn [app lookup].
    rewrite e_neq by (intros ->; apply H; now left). apply IH. intros Hin. apply H. now right.
  Qed.

  Lemma dset_skip k v (P d : dict) : ~ In k (keys P) -> dset e k v (P ++ d) = P ++ dset e k v d.
  Proof.
    induction P as [|[k' v'] P IH]; intros H; [reflexivity|]. cbn [app dset].
    rewrite e_neq by (intros ->; apply H; now left). f_equal. apply IH. intros Hin. apply H. now right.
  Qed.

  Lemma dpop_skip k (P d : dict) : ~ In k (keys P) -> dpop e k (P ++ d) = P ++ dpop e k d.
  Proof.
    induction P as [|[k' v'] P IH]; intros H; [reflexivity|]. cbn [app dpop].
    rewrite e_neq by (intros ->; apply H; now left). f_equal. apply IH. intros Hin. apply H. now right.
  Qed.

  Lemma e_refl k : e k k = true.
  Proof. now apply e_spec. Qed.

  Lemma nodup_mid_notin (P d : dict) k t : NoDup (map fst (P ++ (k, t) :: d)) -> ~ In k (keys P) /\ NoDup (map fst (P ++ d)).
  Proof.
    rewrite !map_app. cbn [map fst]. intros H. split.
    - apply NoDup_remove_2 in H. intros Hin. apply H. apply in_or_app. now left.
    - now apply NoDup_remove_1 in H.
  Qed.
End DictLoops.

(* the surviving entries of a list zipped with counts *)
Definition kept {A K V : Type} (kf : A -> K) (vf : A -> nat -> V) (l : list (A * nat)) : list (K * V) :=
  flat_map (fun an => if Nat.eqb (snd an) 0 then [] else [(kf (fst an), vf (fst an) (snd an))]) l.

Section Kept.
  Context {A K V : Type} (kf : A -> K) (vf : A -> nat -> V).

  Lemma in_kept k v l : In (k, v) (kept kf vf l) <-> exists a n, In (a, n) l /\ n <> 0 /\ k = kf a /\ v = vf a n.
  Proof.
    unfold kept. rewrite in_flat_map. split.
    - intros [[a n] [Hin H]]. cbn [fst snd] in H. destruct (Nat.eqb n 0) eqn:E; [destruct H|].
      destruct H as [H|[]]. inversion H. apply Nat.eqb_neq in E. now exists a, n.
    - intros (a & n & Hin & Hn & -> & ->). exists (a, n). split; [exact Hin|]. cbn [fst snd].
      apply Nat.eqb_neq in Hn. rewrite Hn. now left.
  Qed.

  Lemma kept_keys_nodup l : NoDup (map (fun an => kf (fst an)) l) -> NoDup (map fst (kept kf vf l)).
  Proof.
    induction l as [|[a n] l IH]; intros H; [constructor|]. cbn [map fst] in H. inversion H as [|? ? Hni Hnd]; subst.
    unfold kept. cbn [flat_map fst snd]. fold (kept kf vf l). destruct (Nat.eqb n 0); cbn [app map fst]; [now apply IH|].
    constructor; [|now apply IH]. intros Hin. apply Hni. apply in_map_iff in Hin. destruct Hin as [[k v] [Hk Hin]].
    cbn [fst] in Hk. subst k. apply in_kept in Hin. destruct Hin as (a' & n' & Hin & _ & Hk & _).
    apply in_map_iff. exists (a', n'). split; [now rewrite Hk | exact Hin].
  Qed.

  Lemma kept_map {B} (h : B -> A) (l : list (B * nat)) :
    kept kf vf (map (fun bn => (h (fst bn), snd bn)) l) = kept (fun b => kf (h b)) (fun b n => vf (h b) n) l.
  Proof. unfold kept. rewrite flat_map_concat_map, map_map, <- flat_map_concat_map. reflexivity. Qed.

  Lemma kept_map' {B} (g : B * nat -> A * nat) (kf' : B -> K) (vf' : B -> nat -> V) (l : list (B * nat)) :
    (forall bn, snd (g bn) = snd bn /\ kf (fst (g bn)) = kf' (fst bn) /\ vf (fst (g bn)) (snd bn) = vf' (fst bn) (snd bn)) ->
    kept kf vf (map g l) = kept kf' vf' l.
  Proof.
    intros H. unfold kept. rewrite flat_map_concat_map, map_map, <- flat_map_concat_map.
    apply flat_map_ext. intros bn. destruct (H bn) as (E1 & E2 & E3). rewrite E1, E2, E3. reflexivity.
  Qed.
End Kept.

Lemma combine_map_l {A B C'} (h : A -> B) (l : list A) (ns : list C') :
  List.combine (map h l) ns = map (fun an => (h (fst an), snd an)) (List.combine l ns).
Proof. revert ns. induction l as [|a l IH]; intros [|n ns]; cbn [map List.combine fst snd]; [reflexivity..|]. now rewrite IH. Qed.

Lemma flat_map_ext_in' {A B} (f g : A -> list B) l : (forall a, In a l -> f a = g a) -> flat_map f l = flat_map g l.
Proof.
  induction l as [|a l IH]; intros H; [reflexivity|]. cbn [flat_map]. rewrite (H a) by (now left).
  f_equal. apply IH. intros b Hb. apply H. now right.
Qed.

Section Kept2.
  Context {A K V : Type} (kf : A -> K).

  Lemma kept_ext_in (vf vf' : A -> nat -> V) l :
    (forall a n, In (a, n) l -> n <> 0 -> vf a n = vf' a n) -> kept kf vf l = kept kf vf' l.
  Proof.
    intros H. unfold kept. apply flat_map_ext_in'. intros [a n] Hin. cbn [fst snd].
    destruct (Nat.eqb n 0) eqn:E; [reflexivity|]. apply Nat.eqb_neq in E. now rewrite (H a n Hin E).
  Qed.

  Lemma kept_map_val {W} (vf : A -> nat -> V) (h : K -> V -> W) l :
    map (fun p => (fst p, h (fst p) (snd p))) (kept kf vf l) = kept kf (fun a n => h (kf a) (vf a n)) l.
  Proof.
    unfold kept. induction l as [|[a n] l IH]; [reflexivity|]. cbn [flat_map fst snd]. rewrite map_app, IH.
    now destruct (Nat.eqb n 0).
  Qed.

  Lemma kept_keys (vf : A -> nat -> V) l :
    map fst (kept kf vf l) = map (fun an => kf (fst an)) (filter (fun an : A * nat => negb (Nat.eqb (snd an) 0)) l).
  Proof.
    unfold kept. induction l as [|[a n] l IH]; [reflexivity|]. cbn [flat_map filter fst snd]. rewrite map_app, IH.
    now destruct (Nat.eqb n 0).
  Qed.
End Kept2.

Section DictLoopEqs.
  Context (R : Ring) {K : Type} (e : K -> K -> bool) (e_spec : forall a b, e a b = true <-> a = b).
  Notation dict := (list (K * tensor R)).

  Lemma dict_trunc_pre f (d : dict) : forall (P : dict) (ns : list nat),
    NoDup (map fst (P ++ d)) -> length ns = length d ->
    dict_trunc R e f (List.combine (map fst d) ns) (P ++ d)
    = Some (P ++ kept fst (fun p n => f (snd p) n) (List.combine d ns)).
  Proof.
    induction d as [|[k t] d IH]; intros P ns Hnd Hlen.
    - destruct ns; [|discriminate]. reflexivity.
    - destruct ns as [|n ns]; [discriminate|]. cbn [length] in Hlen. injection Hlen as Hlen.
      destruct (nodup_mid_notin R P d k t Hnd) as [Hni Hnd'].
      cbn [map fst List.combine dict_trunc]. rewrite (lookup_skip R e e_spec k P _ Hni). cbn [lookup].
      rewrite (e_refl e e_spec). unfold kept. cbn [flat_map fst snd]. fold (kept (@fst K (tensor R)) (fun p n => f (snd p) n) (List.combine d ns)).
      destruct (Nat.eqb n 0).
      + rewrite (dpop_skip R e e_spec k P _ Hni). cbn [dpop]. rewrite (e_refl e e_spec). cbn [app]. now apply IH.
      + rewrite (dset_skip R e e_spec k _ P _ Hni). cbn [dset]. rewrite (e_refl e e_spec).
        change (P ++ (k, f t n) :: d) with (P ++ [(k, f t n)] ++ d). rewrite app_assoc.
        rewrite IH; [now rewrite <- !app_assoc | | exact Hlen].
        rewrite <- app_assoc. rewrite !map_app in *. cbn [map fst app] in *. exact Hnd.
  Qed.

  Lemma dict_trunc_eq f (d : dict) (ns : list nat) : NoDup (map fst d) -> length ns = length d ->
    dict_trunc R e f (List.combine (map fst d) ns) d = Some (kept fst (fun p n => f (snd p) n) (List.combine d ns)).
  Proof. intros Hnd Hlen. exact (dict_trunc_pre f d [] ns Hnd Hlen). Qed.

  Lemma dict_update_pre g (G' : K -> tensor R -> tensor R) (d : dict) : forall (P : dict),
    NoDup (map fst (P ++ d)) -> (forall p, In p d -> g (fst p) (snd p) = Some (G' (fst p) (snd p))) ->
    dict_update R e g (map fst d) (P ++ d) = Some (P ++ map (fun p => (fst p, G' (fst p) (snd p))) d).
  Proof.
    induction d as [|[k t] d IH]; intros P Hnd Hg; [reflexivity|].
    destruct (nodup_mid_notin R P d k t Hnd) as [Hni Hnd'].
    cbn [map fst snd dict_update]. rewrite (lookup_skip R e e_spec k P _ Hni). cbn [lookup]. rewrite (e_refl e e_spec).
    pose proof (Hg (k, t) (or_introl eq_refl)) as Hkt. cbn [fst snd] in Hkt. rewrite Hkt.
    rewrite (dset_skip R e e_spec k _ P _ Hni). cbn [dset]. rewrite (e_refl e e_spec).
    change (P ++ (k, G' k t) :: d) with (P ++ [(k, G' k t)] ++ d). rewrite app_assoc.
    rewrite IH; [now rewrite <- !app_assoc | | intros p Hp; apply Hg; now right].
    rewrite <- app_assoc. rewrite !map_app in *. cbn [map fst app] in *. exact Hnd.
  Qed.

  Lemma dict_update_eq g (G' : K -> tensor R -> tensor R) (d : dict) :
    NoDup (map fst d) -> (forall p, In p d -> g (fst p) (snd p) = Some (G' (fst p) (snd p))) ->
    dict_update R e g (map fst d) d = Some (map (fun p => (fst p, G' (fst p) (snd p))) d).
  Proof. intros Hnd Hg. exact (dict_update_pre g G' d [] Hnd Hg). Qed.
End DictLoopEqs.

(* slices and diagonal scalings of matrix / vector blocks *)
Section Slices.
  Context (R : Ring).

  Lemma inb2 a b i j : i < a -> j < b -> inb [a; b] [i; j] = true.
  Proof. intros Hi Hj. cbn [inb]. now rewrite (proj2 (Nat.ltb_lt _ _) Hi), (proj2 (Nat.ltb_lt _ _) Hj). Qed.

  Lemma inb1 a i : i < a -> inb [a] [i] = true.
  Proof. intros Hi. cbn [inb]. now rewrite (proj2 (Nat.ltb_lt _ _) Hi). Qed.

  Lemma build_len sh f : length (tdata (build R sh f)) = shape_size sh.
  Proof. unfold build. cbn [tdata]. now rewrite map_length, length_all_idx. Qed.

  Lemma slice_cols_shape (t : tensor R) a k n : tshape t = [a; k] ->
    tshape (slice_cols R t n) = [a; n] /\ length (tdata (slice_cols R t n)) = shape_size [a; n].
  Proof. intros Ht. unfold slice_cols, tslice. rewrite Ht. split; [reflexivity | apply build_len]. Qed.

  Lemma slice_cols_get (t : tensor R) a k n i o : tshape t = [a; k] -> i < a -> o < n ->
    get R (slice_cols R t n) [i; o] = get R t [i; o].
  Proof.
    intros Ht Hi Ho. unfold slice_cols, tslice. rewrite Ht. change (set_nth [a; k] 1 n) with [a; n].
    rewrite (get_build R) by (now apply inb2). cbn [nth set_nth firstn skipn app]. now rewrite Nat.add_0_r.
  Qed.

  Lemma slice_rows_shape (t : tensor R) k b n : tshape t = [k; b] ->
    tshape (slice_rows R t n) = [n; b] /\ length (tdata (slice_rows R t n)) = shape_size [n; b].
  Proof. intros Ht. unfold slice_rows, tslice. rewrite Ht. split; [reflexivity | apply build_len]. Qed.

  Lemma slice_rows_get (t : tensor R) k b n o j : tshape t = [k; b] -> o < n -> j < b ->
    get R (slice_rows R t n) [o; j] = get R t [o; j].
  Proof.
    intros Ht Ho Hj. unfold slice_rows, tslice. rewrite Ht. change (set_nth [k; b] 0 n) with [n; b].
    rewrite (get_build R) by (now apply inb2). cbn [nth set_nth firstn skipn app]. now rewrite Nat.add_0_r.
  Qed.

  Lemma slice_vec_shape (t : tensor R) k n : tshape t = [k] ->
    tshape (slice_rows R t n) = [n] /\ length (tdata (slice_rows R t n)) = shape_size [n].
  Proof. intros Ht. unfold slice_rows, tslice. rewrite Ht. split; [reflexivity | apply build_len]. Qed.

  Lemma slice_vec_get (t : tensor R) k n o : tshape t = [k] -> o < n ->
    get R (slice_rows R t n) [o] = get R t [o].
  Proof.
    intros Ht Ho. unfold slice_rows, tslice. rewrite Ht. change (set_nth [k] 0 n) with [n].
    rewrite (get_build R) by (now apply inb1). cbn [nth set_nth firstn skipn app]. now rewrite Nat.add_0_r.
  Qed.

  Lemma tmul_diag_shape (t v : tensor R) axis sh : tshape t = sh ->
    tshape (tmul_diag R t v axis) = sh /\ length (tdata (tmul_diag R t v axis)) = shape_size sh.
  Proof. intros Ht. unfold tmul_diag. rewrite Ht. split; [reflexivity | apply build_len]. Qed.
End Slices.

(* sums are invariant under reordering *)
Lemma rsum_perm2 (R : Ring) (RL : SumLaws R) (l l' : list (RT R)) : Permutation l l' -> rsum R l = rsum R l'.
Proof.
  induction 1 as [|a l l' _ IH|a b l|l l' l'' _ IH1 _ IH2].
  - reflexivity.
  - rewrite !(Tdot.rsum_cons R). now rewrite IH.
  - rewrite !(Tdot.rsum_cons R). rewrite !(radd_assoc R RL). f_equal. apply (radd_comm R RL).
  - now rewrite IH1.
Qed.

Lemma rsum_kept (R : Ring) (RL : SumLaws R) {A K : Type} (kf : A -> K) (H : K * nat -> RT R) (l : list (A * nat)) :
  (forall c, H (c, 0) = r0 R) ->
  rsum R (map H (kept kf (fun _ n => n) l)) = rsum R (map (fun an => H (kf (fst an), snd an)) l).
Proof.
  intros H0. unfold kept. induction l as [|[a n] l IH]; [reflexivity|]. cbn [flat_map map fst snd].
  rewrite map_app, (Tdot.rsum_app R RL), (Tdot.rsum_cons R), IH. f_equal.
  destruct n as [|n]; cbn [Nat.eqb map].
  - now rewrite H0.
  - apply (Tdot.rsum_single R RL).
Qed.

(* ------------------------------------------------------------------ *)
(* algebra of finite sums in a commutative ring with conjugation (used by the error identity) *)
Section SumAlgebra.
  Context (R : Ring) (CL : CRingLaws R).
  Notation T := (RT R).
  Notation Sum := (rsum R).
  Notation RL := (cr_sum R CL).
  Definition rsub (a b : T) : T := radd R a (rneg R b).

  Lemma cring_theory : ring_theory (r0 R) (r1 R) (radd R) (rmul R) rsub (rneg R) eq.
  Proof.
    constructor.
    - exact (radd_0_l R RL).
    - exact (radd_comm R RL).
    - exact (radd_assoc R RL).
    - exact (cr_mul_1_l R CL).
    - exact (cr_mul_comm R CL).
    - exact (cr_mul_assoc R CL).
    - intros a b c. rewrite (cr_mul_comm R CL (radd R a b) c), (cr_distr_l R CL).
      now rewrite (cr_mul_comm R CL c a), (cr_mul_comm R CL c b).
    - reflexivity.
    - exact (cr_add_neg R CL).
  Qed.
  Add Ring cring : cring_theory.

  Lemma rsum_mul_l {A} (c : T) (f : A -> T) l : rmul R c (Sum (map f l)) = Sum (map (fun a => rmul R c (f a)) l).
  Proof.
    induction l as [|a l IH]; cbn [map]; [cbn [rsum fold_right]; apply (rmul_0_r R RL)|].
    rewrite !(Tdot.rsum_cons R), (cr_distr_l R CL), IH. reflexivity.
  Qed.

  Lemma rsum_mul_r {A} (c : T) (f : A -> T) l : rmul R (Sum (map f l)) c = Sum (map (fun a => rmul R (f a) c) l).
  Proof.
    rewrite (cr_mul_comm R CL), rsum_mul_l. apply (Tdot.rsum_ext R). intros a _. apply (cr_mul_comm R CL).
  Qed.

  Lemma rconj_rsum {A} (f : A -> T) l : rconj R (Sum (map f l)) = Sum (map (fun a => rconj R (f a)) l).
  Proof.
    induction l as [|a l IH]; cbn [map]; [cbn [rsum fold_right]; apply (cr_conj_0 R CL)|].
    rewrite !(Tdot.rsum_cons R), (cr_conj_add R CL), IH. reflexivity.
  Qed.

  Lemma rsum_mul_sum {A B} (f : A -> T) (g : B -> T) la lb :
    rmul R (Sum (map f la)) (Sum (map g lb)) = Sum (map (fun a => Sum (map (fun b => rmul R (f a) (g b)) lb)) la).
  Proof. rewrite rsum_mul_r. apply (Tdot.rsum_ext R). intros a _. apply rsum_mul_l. Qed.

  (* |sum_k a_k(l) b_k(r)|^2 summed over l, r  =  sum_{k,k'} <a_k, a_k'> <b_k, b_k'> *)
  Lemma frob_gram {L Rr K} (a : K -> L -> T) (b : K -> Rr -> T) (ls : list L) (rs : list Rr) (ks : list K) :
    Sum (map (fun l => Sum (map (fun r =>
           rmul R (Sum (map (fun k => rmul R (a k l) (b k r)) ks))
                  (rconj R (Sum (map (fun k => rmul R (a k l) (b k r)) ks)))) rs)) ls)
    = Sum (map (fun k => Sum (map (fun k' =>
           rmul R (Sum (map (fun l => rmul R (a k l) (rconj R (a k' l))) ls))
                  (Sum (map (fun r => rmul R (b k r) (rconj R (b k' r))) rs))) ks)) ks).
  Proof.
    set (X := fun l r k k' => rmul R (rmul R (a k l) (rconj R (a k' l))) (rmul R (b k r) (rconj R (b k' r)))).
    transitivity (Sum (map (fun l => Sum (map (fun r => Sum (map (fun k => Sum (map (fun k' => X l r k k') ks)) ks)) rs)) ls)).
    { apply (Tdot.rsum_ext R). intros l _. apply (Tdot.rsum_ext R). intros r _.
      rewrite rconj_rsum, rsum_mul_sum. apply (Tdot.rsum_ext R). intros k _. apply (Tdot.rsum_ext R). intros k' _.
      unfold X. rewrite (cr_conj_mul R CL). ring. }
    transitivity (Sum (map (fun k => Sum (map (fun k' => Sum (map (fun l => Sum (map (fun r => X l r k k') rs)) ls)) ks)) ks)).
    2:{ apply (Tdot.rsum_ext R). intros k _. apply (Tdot.rsum_ext R). intros k' _. now rewrite rsum_mul_sum. }
    (* reorder  l r k k'  ->  k k' l r *)
    transitivity (Sum (map (fun l => Sum (map (fun k => Sum (map (fun k' => Sum (map (fun r => X l r k k') rs)) ks)) ks)) ls)).
    { apply (Tdot.rsum_ext R). intros l _.
      rewrite (Tdot.rsum_swap R RL (fun r k => Sum (map (fun k' => X l r k k') ks)) rs ks).
      apply (Tdot.rsum_ext R). intros k _.
      apply (Tdot.rsum_swap R RL (fun r k' => X l r k k') rs ks). }
    rewrite (Tdot.rsum_swap R RL (fun l k => Sum (map (fun k' => Sum (map (fun r => X l r k k') rs)) ks)) ls ks).
    apply (Tdot.rsum_ext R). intros k _.
    apply (Tdot.rsum_swap R RL (fun l k' => Sum (map (fun r => X l r k k') rs)) ls ks).
  Qed.
End SumAlgebra.

(* what `truncated_wf` promises: the surviving (block, count) pairs, the new bond `b`, the factors *)
Section TruncSpec.
  Context (G : Symmetry) (R : Ring).
  Notation blk := (list (C G) * tensor R)%type.
  Definition survivors (x : aarray G R) (counts : list nat) : list (blk * nat) :=
    filter (fun an : blk * nat => negb (Nat.eqb (snd an) 0)) (List.combine (blocks G R x) counts).

  Definition trunc_wf_spec (x : aarray G R) (counts : list nat) (b : index G) (U' VH' : aarray G R) : Prop :=
    wf_array G R U' = true /\ wf_array G R VH' = true /\
    (* U keeps x's first index and charge, VH x's second index; the bond is a conjugate pair *)
    indices G R U' = [ix0 G R x; b] /\ indices G R VH' = [iconj G b; ix1 G R x] /\
    charge G R U' = charge G R x /\ charge G R VH' = ident G /\
    idual G b = idual G (ix1 G R x) /\ idual G (iconj G b) = negb (idual G (ix1 G R x)) /\
    chargemap G (iconj G b) = chargemap G b /\ isub G b = None /\
    (* the bond table is rebuilt from the counts: sorted, one entry (column charge, count) per surviving block *)
    sorted_by (cltb G) (icharges G b) = true /\
    Permutation (chargemap G b) (map (fun an : blk * nat => (col_charge G (fst (fst an)), snd an)) (survivors x counts)) /\
    (forall sb n, In (sb, n) (List.combine (blocks G R x) counts) -> size_of G b (col_charge G (fst sb)) = n) /\
    (* sectors with count 0 are gone, the others keep their order *)
    sectors G R U' = map (fun an : blk * nat => fst (fst an)) (survivors x counts) /\
    sectors G R VH' = map (fun s => [col_charge G s; col_charge G s]) (sectors G R U').

  (* the returned singular values: keyed by the kept charges, block sizes = bond sizes *)
  Definition trunc_s_spec (b : index G) (U' : aarray G R) (S' : bvec G R) : Prop :=
    map fst S' = map (col_charge G) (sectors G R U') /\ NoDup (map fst S') /\
    Permutation (map fst S') (icharges G b) /\
    forall c t, In (c, t) S' -> tshape t = [size_of G b c].
End TruncSpec.

(* ------------------------------------------------------------------ *)
(* the truncated factors in explicit form, for ANY per-block content of the surviving
   blocks (`fu`, `fv`): validity and product.  The three absorb modes and the
   un-absorbed factors are instances. *)
Section TruncGen.
  Context (G : Symmetry) (HG : GroupLaws G) (R : Ring) (CL : CRingLaws R).
  Context (cltb_irrefl : forall c : C G, cltb G c c = false)
          (cltb_trans : forall a b c : C G, cltb G a b = true -> cltb G b c = true -> cltb G a c = true)
          (cltb_total : forall a b : C G, a <> b -> cltb G a b = true \/ cltb G b a = true).
  Context (svd_blk : tensor R -> tensor R * tensor R * tensor R) (Hshapes : svd_shapes R svd_blk).
  Notation sector := (list (C G)).
  Notation keq := (list_eqb (ceqb G)).
  Notation arr := (aarray G R).
  Notation ceqb_spec := (ceqb_eq G HG).
  Notation keq_spec := (Tdot.keq_spec G ceqb_spec).
  Notation col := (col_charge G).
  Notation Sum := (rsum R).
  Notation RL := (cr_sum R CL).
  Notation Ub m := (fst (svd_uv R svd_blk m)).
  Notation Sb m := (svd_s R svd_blk m).
  Notation Vb m := (snd (svd_uv R svd_blk m)).
  Notation blk := (sector * tensor R)%type.

  Context (x : arr) (Hw : wf_array G R x = true) (Hn : ndim G R x = 2).
  Context (counts : list nat) (Hlen : length counts = length (blocks G R x)).
  (* a count never exceeds the number of singular values of its block *)
  Context (Hle : forall sb n, In (sb, n) (List.combine (blocks G R x) counts) -> n <= ncols R (Ub (snd sb))).
  Let bl := blocks G R x.
  Let blc := List.combine bl counts.
  Let i0 := ix0 G R x.
  Let i1 := ix1 G R x.

  Lemma Hx : mat_ok G R x i0 i1.
  Proof. exact (wf_mat G HG R x Hw Hn). Qed.

  Lemma blc_fst : map fst blc = bl.
  Proof. unfold blc. apply Tdot.map_fst_combine. symmetry. exact Hlen. Qed.

  Lemma blc_in sb n : In (sb, n) blc -> In sb bl.
  Proof. intros H. exact (in_combine_l _ _ _ _ H). Qed.

  Lemma blk_facts sb n : In (sb, n) blc ->
    exists c0 c1 k, fst sb = [c0; c1] /\ 0 < k /\ n <= k /\
      In c0 (icharges G i0) /\ In c1 (icharges G i1) /\ valid G c0 = true /\ valid G c1 = true /\
      combine G [sign G c0 (idual G i0); sign G c1 (idual G i1)] = charge G R x /\
      tshape (Ub (snd sb)) = [size_of G i0 c0; k] /\ tshape (Sb (snd sb)) = [k] /\
      tshape (Vb (snd sb)) = [k; size_of G i1 c1] /\ 0 < size_of G i0 c0 /\ 0 < size_of G i1 c1.
  Proof.
    intros Hin. pose proof (Hle sb n Hin) as Hb. destruct sb as [s m]. cbn [fst snd] in *.
    destruct (mo_blk G R x i0 i1 Hx s m (blc_in _ _ Hin)) as (c0 & c1 & -> & H0 & H1 & Hv0 & Hv1 & Hq & Hsh & Hl & Hp0 & Hp1).
    rewrite Hsh in Hl. destruct (Hshapes m _ _ Hsh Hp0 Hp1 Hl) as (k & Hk & Hu & Hs & Hv & _).
    exists c0, c1, k. unfold ncols in Hb. rewrite Hu in Hb. cbn [nth] in Hb. repeat split; assumption.
  Qed.

  Lemma row_unique sb sb' : In sb bl -> In sb' bl -> col (fst sb') = col (fst sb) -> fst sb' = fst sb.
  Proof.
    intros H H' Hc. apply (col_determines_row G HG R x i0 i1 Hx); [| | exact Hc]; unfold sectors; now apply in_map.
  Qed.

  Lemma keysU : NoDup (map (fun an : blk * nat => fst (fst an)) blc).
  Proof. rewrite <- (map_map fst fst), blc_fst. exact (mo_nd G R x i0 i1 Hx). Qed.

  Lemma keysC : NoDup (map (fun an : blk * nat => col (fst (fst an))) blc).
  Proof. rewrite <- (map_map fst (fun sb : blk => col (fst sb))), blc_fst. exact (cols_nodup G HG R x i0 i1 Hx). Qed.

  Lemma keysV : NoDup (map (fun an : blk * nat => [col (fst (fst an)); col (fst (fst an))]) blc).
  Proof.
    rewrite <- (map_map (fun an : blk * nat => col (fst (fst an))) (fun c => [c; c])).
    apply LinalgProofs.NoDup_map_inj; [intros a b H; now inversion H | exact keysC].
  Qed.

  (* the new bond table *)
  Definition cmK : list (C G * nat) := kept (fun sb : blk => col (fst sb)) (fun _ n => n) blc.
  Definition bondK : index G := mk_index G cmK (idual G i1) None.

  Lemma cmK_nodup : NoDup (map fst cmK).
  Proof. apply kept_keys_nodup. exact keysC. Qed.

  Lemma cmK_in c n : In (c, n) cmK <-> exists sb, In (sb, n) blc /\ n <> 0 /\ c = col (fst sb).
  Proof.
    unfold cmK. rewrite in_kept. split.
    - intros (sb & n' & Hin & Hn' & -> & ->). now exists sb.
    - intros (sb & Hin & Hn' & ->). now exists sb, n.
  Qed.

  Lemma bondK_wf : wf_index G bondK = true.
  Proof.
    apply (wf_mk_index G cltb_trans cltb_total); [exact cmK_nodup|].
    intros [c n] Hp. apply cmK_in in Hp. destruct Hp as (sb & Hin & Hn' & ->). cbn [fst snd].
    destruct (blk_facts sb n Hin) as (c0 & c1 & k & E & _ & _ & _ & _ & _ & Hv1 & _).
    rewrite E. unfold col_charge. cbn [nth]. split; [exact Hv1 | lia].
  Qed.

  Lemma bondK_nodup : NoDup (icharges G bondK).
  Proof. exact (Tdot.wf_index_nodup G cltb_irrefl cltb_trans bondK bondK_wf). Qed.

  Lemma bondK_size sb n : In (sb, n) blc -> n <> 0 -> size_of G bondK (col (fst sb)) = n.
  Proof.
    intros Hin Hn'. unfold bondK. rewrite (size_of_mk_index G HG) by exact cmK_nodup.
    rewrite (Tdot.lookup_nodup_In (ceqb G) ceqb_spec (col (fst sb)) n cmK cmK_nodup); [reflexivity|].
    apply cmK_in. now exists sb.
  Qed.

  Lemma bondK_charges : Permutation (icharges G bondK) (map fst cmK).
  Proof. unfold icharges, bondK, mk_index. cbn [chargemap]. apply Permutation_map. apply sort_cm_perm. Qed.

  Lemma bondK_has sb n : In (sb, n) blc -> n <> 0 -> In (col (fst sb)) (icharges G bondK).
  Proof.
    intros Hin Hn'. apply (Permutation_in _ (Permutation_sym bondK_charges)).
    apply in_map_iff. exists (col (fst sb), n). split; [reflexivity|]. apply cmK_in. now exists sb.
  Qed.

  Lemma bondK_conj : iconj G bondK = Index G (sort_cm G cmK) (negb (idual G i1)) None.
  Proof. reflexivity. Qed.

  (* a coordinate of the new bond belongs to exactly one surviving block *)
  Lemma bondK_coord (k : coord G) : In k (index_coords G bondK) ->
    exists sb n, In (sb, n) blc /\ n <> 0 /\ fst k = col (fst sb) /\ snd k < n.
  Proof.
    intros Hk. unfold index_coords in Hk. apply in_flat_map in Hk. destruct Hk as [[c n] [Hp Hk]].
    apply in_map_iff in Hk. destruct Hk as [o [<- Ho]]. cbn [fst snd] in *. apply in_seq in Ho.
    unfold bondK, mk_index in Hp. cbn [chargemap] in Hp. apply (Permutation_in _ (sort_cm_perm G cmK)) in Hp.
    apply cmK_in in Hp. destruct Hp as (sb & Hin & Hn' & ->). exists sb, n. repeat split; try assumption. lia.
  Qed.

  (* the factors *)
  Definition GU (fu : blk -> nat -> tensor R) : list (sector * tensor R) := kept (fun sb : blk => fst sb) fu blc.
  Definition GV (fv : blk -> nat -> tensor R) : list (sector * tensor R) :=
    kept (fun sb : blk => [col (fst sb); col (fst sb)]) fv blc.
  Definition GS (fs : blk -> nat -> tensor R) : bvec G R := kept (fun sb : blk => col (fst sb)) fs blc.
  Definition UA fu : arr := mkA G R [i0; bondK] (charge G R x) (GU fu).
  Definition VA fv : arr := mkA G R [iconj G bondK; i1] (ident G) (GV fv).

  Definition fu_ok (fu : blk -> nat -> tensor R) : Prop :=
    forall sb n c0 c1, In (sb, n) blc -> n <> 0 -> fst sb = [c0; c1] ->
      tshape (fu sb n) = [size_of G i0 c0; n] /\ length (tdata (fu sb n)) = shape_size [size_of G i0 c0; n].
  Definition fv_ok (fv : blk -> nat -> tensor R) : Prop :=
    forall sb n c0 c1, In (sb, n) blc -> n <> 0 -> fst sb = [c0; c1] ->
      tshape (fv sb n) = [n; size_of G i1 c1] /\ length (tdata (fv sb n)) = shape_size [n; size_of G i1 c1].

  Lemma GU_lookup fu sb n : In (sb, n) blc -> n <> 0 -> lookup keq (fst sb) (GU fu) = Some (fu sb n).
  Proof.
    intros Hin Hn'. apply (Tdot.lookup_nodup_In keq keq_spec).
    - apply kept_keys_nodup. exact keysU.
    - apply in_kept. now exists sb, n.
  Qed.

  Lemma GV_lookup fv sb n : In (sb, n) blc -> n <> 0 ->
    lookup keq [col (fst sb); col (fst sb)] (GV fv) = Some (fv sb n).
  Proof.
    intros Hin Hn'. apply (Tdot.lookup_nodup_In keq keq_spec).
    - apply kept_keys_nodup. exact keysV.
    - apply in_kept. now exists sb, n.
  Qed.

  Lemma UA_wf fu : fu_ok fu -> wf_array G R (UA fu) = true.
  Proof.
    intros Hfu. unfold wf_array, UA, sectors. cbn [indices charge blocks forallb].
    rewrite (mo_wf0 G R x i0 i1 Hx), bondK_wf, (mo_q G R x i0 i1 Hx). cbn [andb].
    apply andb_true_iff. split.
    - apply (NoDup_nodupb keq keq_spec). apply kept_keys_nodup. exact keysU.
    - apply forallb_forall. intros [s t] Hst. apply in_kept in Hst. destruct Hst as (sb & n & Hin & Hn' & -> & ->). cbn [fst snd].
      destruct (blk_facts sb n Hin) as (c0 & c1 & k & E & Hk & Hnk & H0 & H1 & Hv0 & Hv1 & Hq & _).
      destruct (Hfu sb n c0 c1 Hin Hn' E) as [Hsh Hl]. rewrite E.
      unfold sector_ok. cbn [length Nat.eqb List.combine forallb fst snd andb map].
      rewrite (proj2 (Tdot.mem_In (ceqb G) ceqb_spec c0 _) H0).
      assert (Hc1 : In c1 (icharges G bondK)).
      { pose proof (bondK_has sb n Hin Hn') as H. rewrite E in H. exact H. }
      rewrite (proj2 (Tdot.mem_In (ceqb G) ceqb_spec c1 _) Hc1). cbn [andb].
      unfold is_valid_sector, signed_sector. cbn [map List.combine fst snd]. rewrite !xorb_false_l.
      change (idual G bondK) with (idual G i1). rewrite Hq, (proj2 (ceqb_spec _ _) eq_refl). cbn [andb].
      unfold block_shape. cbn [List.combine map fst snd].
      pose proof (bondK_size sb n Hin Hn') as Hsz. rewrite E in Hsz. unfold col_charge in Hsz. cbn [nth] in Hsz.
      rewrite Hsh, Hsz. rewrite (proj2 (Tdot.list_eqb_spec Nat.eqb Nat.eqb_eq _ _) eq_refl). cbn [andb].
      apply Nat.eqb_eq. exact Hl.
  Qed.

  Lemma VA_wf fv : fv_ok fv -> wf_array G R (VA fv) = true.
  Proof.
    intros Hfv. unfold wf_array, VA, sectors. cbn [indices charge blocks forallb].
    assert (Hwc : wf_index G (iconj G bondK) = true).
    { pose proof bondK_wf as Hb. unfold bondK, mk_index in *. cbn [iconj wf_index] in *. exact Hb. }
    rewrite Hwc, (mo_wf1 G R x i0 i1 Hx), (valid_ident G HG). cbn [andb].
    apply andb_true_iff. split.
    - apply (NoDup_nodupb keq keq_spec). apply kept_keys_nodup. exact keysV.
    - apply forallb_forall. intros [s t] Hst. apply in_kept in Hst. destruct Hst as (sb & n & Hin & Hn' & -> & ->). cbn [fst snd].
      destruct (blk_facts sb n Hin) as (c0 & c1 & k & E & Hk & Hnk & H0 & H1 & Hv0 & Hv1 & Hq & _).
      destruct (Hfv sb n c0 c1 Hin Hn' E) as [Hsh Hl]. rewrite E. unfold col_charge. cbn [nth].
      unfold sector_ok. cbn [length Nat.eqb List.combine forallb fst snd andb map].
      assert (Hc1 : In c1 (icharges G (iconj G bondK))).
      { pose proof (bondK_has sb n Hin Hn') as H. rewrite E in H. exact H. }
      rewrite (proj2 (Tdot.mem_In (ceqb G) ceqb_spec c1 _) Hc1).
      rewrite (proj2 (Tdot.mem_In (ceqb G) ceqb_spec c1 _) H1). cbn [andb].
      unfold is_valid_sector, signed_sector. cbn [map List.combine fst snd]. rewrite !xorb_false_l.
      change (idual G (iconj G bondK)) with (negb (idual G i1)).
      change (combine G [sign G c1 (negb (idual G i1)); sign G c1 (idual G i1)])
        with (gadd G (sign G c1 (negb (idual G i1))) (sign G c1 (idual G i1))).
      rewrite (gadd_comm G HG), (sign_negb_inverse G HG c1 _ Hv1), (proj2 (ceqb_spec _ _) eq_refl). cbn [andb].
      unfold block_shape. cbn [List.combine map fst snd]. rewrite (size_of_iconj G).
      pose proof (bondK_size sb n Hin Hn') as Hsz. rewrite E in Hsz. unfold col_charge in Hsz. cbn [nth] in Hsz.
      rewrite Hsh, Hsz. rewrite (proj2 (Tdot.list_eqb_spec Nat.eqb Nat.eqb_eq _ _) eq_refl). cbn [andb].
      apply Nat.eqb_eq. exact Hl.
  Qed.

  (* the untruncated factors (what a_svd returns) *)
  Definition u0 : arr := left_arr G R (svd_uv R svd_blk) x i0 i1.
  Definition vh0 : arr := right_arr G R (svd_uv R svd_blk) x i1.
  Definition s0 : bvec G R := map (fun sb : blk => (col (fst sb), Sb (snd sb))) bl.

  Lemma a_svd_eq : a_svd G R svd_blk x = Some (u0, s0, vh0).
  Proof.
    unfold a_svd. rewrite (a_split_eq G HG R _ x i0 i1 Hx). f_equal. f_equal. f_equal.
    unfold svd_store. apply (fold_dset_fresh (ceqb G) ceqb_spec). exact (cols_nodup G HG R x i0 i1 Hx).
  Qed.

  Definition ent_ok (fu fv : blk -> nat -> tensor R) : Prop :=
    forall sb n c0 c1 i o j, In (sb, n) blc -> n <> 0 -> fst sb = [c0; c1] ->
      i < size_of G i0 c0 -> o < n -> j < size_of G i1 c1 ->
      rmul R (get R (fu sb n) [i; o]) (get R (fv sb n) [o; j])
      = rmul R (rmul R (get R (Ub (snd sb)) [i; o]) (get R (Sb (snd sb)) [o])) (get R (Vb (snd sb)) [o; j]).

  (* PRODUCT: the truncated product is the full svd sum restricted to the kept bond coordinates *)
  Theorem gen_product fu fv (l rr : coord G) :
    fu_ok fu -> fv_ok fv -> ent_ok fu fv ->
    coords_ok G [i0] [l] = true -> coords_ok G [i1] [rr] = true ->
    exists res, a_matmul G R (UA fu) (VA fv) = Some res /\
      sem G R res [l; rr] =
      Sum (map (fun k => rmul R (rmul R (sem G R u0 [l; k]) (vsem G R s0 k)) (sem G R vh0 [k; rr]))
               (index_coords G bondK)).
  Proof.
    intros Hfu Hfv Hent Hl Hr.
    destruct (matmul_sem G R RL ceqb_spec (UA fu) (VA fv) l rr eq_refl eq_refl (UA_wf fu Hfu) (VA_wf fv Hfv))
      as [res [Hres Hsem]].
    - cbn [UA indices nth]. unfold charges_nodup. cbn [forallb]. rewrite andb_true_r.
      apply (NoDup_nodupb (ceqb G) ceqb_spec). exact bondK_nodup.
    - exact Hl.
    - exact Hr.
    - exists res. split; [exact Hres|]. rewrite Hsem. cbn [UA indices nth].
      apply (Tdot.rsum_ext R). intros k Hk.
      destruct (bondK_coord k Hk) as (sb & n & Hin & Hn' & Hck & Hok).
      destruct (blk_facts sb n Hin) as (c0 & c1 & kk & E & _ & _ & _ & _ & _ & _ & _ & _ & _ & _ & _).
      destruct k as [ck ok]. cbn [fst snd] in Hck, Hok. rewrite E in Hck. unfold col_charge in Hck. cbn [nth] in Hck. subst ck.
      pose proof (blc_in _ _ Hin) as Hinb. destruct sb as [s m]. cbn [fst snd] in *. subst s.
      apply (coords_ok_1 G) in Hl. apply (coords_ok_1 G) in Hr.
      unfold sem. cbn [map fst snd UA VA blocks].
      destruct (ceqb G (fst l) c0) eqn:E0.
      + apply ceqb_spec in E0.
        pose proof (GU_lookup fu _ n Hin Hn') as HlU. cbn [fst] in HlU. rewrite E0, HlU.
        pose proof (left_lookup G HG R (svd_uv R svd_blk) x i0 i1 Hx _ m Hinb) as HlU0. fold u0 in HlU0. rewrite HlU0.
        assert (Hvs : lookup (ceqb G) c1 s0 = Some (Sb m)).
        { apply (Tdot.lookup_nodup_In (ceqb G) ceqb_spec).
          - unfold s0. rewrite map_map. exact (cols_nodup G HG R x i0 i1 Hx).
          - unfold s0. apply in_map_iff. exists ([c0; c1], m). split; [reflexivity | exact Hinb]. }
        unfold vsem, dsem. cbn [fst snd]. rewrite Hvs.
        destruct (ceqb G (fst rr) c1) eqn:E1.
        * apply ceqb_spec in E1.
          pose proof (GV_lookup fv _ n Hin Hn') as HlV. unfold col_charge in HlV. cbn [fst nth] in HlV. rewrite E1, HlV.
          pose proof (right_lookup G HG R (svd_uv R svd_blk) x i0 i1 Hx _ m Hinb) as HlV0.
          unfold col_charge in HlV0. cbn [nth] in HlV0. fold vh0 in HlV0. rewrite HlV0.
          apply (Hent _ n c0 c1 (snd l) ok (snd rr) Hin Hn' eq_refl); [now rewrite <- E0 | exact Hok | now rewrite <- E1].
        * assert (Hne : c1 <> fst rr) by (intros ->; rewrite (proj2 (ceqb_spec _ _) eq_refl) in E1; discriminate).
          assert (HnV : lookup keq [c1; fst rr] (GV fv) = None).
          { apply (StructProofs.lookup_None keq keq_spec). intros Hk'. unfold keys in Hk'. apply in_map_iff in Hk'.
            destruct Hk' as [[s' t'] [Es Hst]]. cbn [fst] in Es. subst s'. apply in_kept in Hst.
            destruct Hst as (sb' & _ & _ & _ & Hs' & _). inversion Hs'. congruence. }
          assert (HnV0 : lookup keq [c1; fst rr] (blocks G R vh0) = None).
          { apply (StructProofs.lookup_None keq keq_spec). intros Hk'. unfold keys in Hk'. apply in_map_iff in Hk'.
            destruct Hk' as [[s' t'] [Es Hst]]. cbn [fst] in Es. subst s'. unfold vh0, right_arr in Hst. cbn [blocks] in Hst.
            apply in_map_iff in Hst. destruct Hst as [sb' [Hs' _]]. inversion Hs'. congruence. }
          rewrite HnV, HnV0. now rewrite !(rmul_0_r R RL).
      + assert (Hne : fst l <> c0) by (intros Heq; rewrite Heq, (proj2 (ceqb_spec _ _) eq_refl) in E0; discriminate).
        assert (HnU : lookup keq [fst l; c1] (GU fu) = None).
        { apply (StructProofs.lookup_None keq keq_spec). intros Hk'. unfold keys in Hk'. apply in_map_iff in Hk'.
          destruct Hk' as [[s' t'] [Es Hst]]. cbn [fst] in Es. subst s'. apply in_kept in Hst.
          destruct Hst as (sb' & n' & Hin' & _ & Hs' & _).
          pose proof (row_unique _ _ Hinb (blc_in _ _ Hin') ) as Hru. rewrite <- Hs' in Hru. cbn [fst] in Hru.
          specialize (Hru eq_refl). inversion Hru. contradiction. }
        assert (HnU0 : lookup keq [fst l; c1] (blocks G R u0) = None).
        { apply (left_lookup_none G HG R (svd_uv R svd_blk) x i0 i1).
          apply (StructProofs.lookup_None keq keq_spec). intros Hk'. unfold keys in Hk'. apply in_map_iff in Hk'.
          destruct Hk' as [[s' t'] [Es Hst]]. cbn [fst] in Es. subst s'.
          pose proof (row_unique _ _ Hinb Hst eq_refl) as Hru. cbn [fst] in Hru. inversion Hru. contradiction. }
        rewrite HnU, HnU0. now rewrite !(rmul_0_l R RL).
  Qed.

  (* ---------------- the model functions compute these explicit forms ---------------- *)
  Context (sqrt_blk : tensor R -> tensor R).

  Definition fuN (sb : blk) (n : nat) : tensor R := slice_cols R (Ub (snd sb)) n.
  Definition fvN (sb : blk) (n : nat) : tensor R := slice_rows R (Vb (snd sb)) n.
  Definition fsN (sb : blk) (n : nat) : tensor R := slice_rows R (Sb (snd sb)) n.
  Definition sfacM (mode : absorb_mode) (sv : tensor R) : tensor R :=
    match mode with AbsBoth => sqrt_blk sv | _ => sv end.
  Definition fuM (mode : absorb_mode) (sb : blk) (n : nat) : tensor R :=
    match mode with AbsRight => fuN sb n | _ => tmul_diag R (fuN sb n) (sfacM mode (fsN sb n)) 1 end.
  Definition fvM (mode : absorb_mode) (sb : blk) (n : nat) : tensor R :=
    match mode with AbsLeft => fvN sb n | _ => tmul_diag R (fvN sb n) (sfacM mode (fsN sb n)) 0 end.

  Lemma sectors_u0 : sectors G R u0 = map fst bl.
  Proof. unfold sectors, u0, left_arr. cbn [blocks]. rewrite map_map. apply map_ext. reflexivity. Qed.

  Lemma kn_eq : List.combine (sectors G R u0) counts = map (fun an : blk * nat => (fst (fst an), snd an)) blc.
  Proof. rewrite sectors_u0. apply combine_map_l. Qed.

  Lemma kept_cm_eq : kept_cm G (sectors G R u0) counts = cmK.
  Proof.
    unfold kept_cm. rewrite kn_eq.
    set (l := map (fun an : blk * nat => (fst (fst an), snd an)) blc).
    rewrite (fold_left_ext_eq _
               (fun acc (a : sector * nat) => match (if Nat.eqb (snd a) 0 then None else Some (snd a)) with
                              | Some v => dset (ceqb G) (col (fst a)) v acc | None => acc end))
      by (intros acc a; now destruct (Nat.eqb (snd a) 0)).
    rewrite (fold_dset_opt (ceqb G) ceqb_spec (fun a : sector * nat => col (fst a))
               (fun a => if Nat.eqb (snd a) 0 then None else Some (snd a)) l []).
    - cbn [app]. unfold cmK. unfold l. rewrite flat_map_concat_map, map_map, <- flat_map_concat_map.
      unfold kept. apply flat_map_ext. intros [sb n]. cbn [fst snd]. now destruct (Nat.eqb n 0).
    - unfold l. rewrite map_map. cbn [fst]. exact keysC.
    - intros a _ H. exact H.
  Qed.

  Theorem truncate_eq :
    truncate_factors G R u0 s0 vh0 counts = Some (UA fuN, GS fsN, VA fvN).
  Proof.
    unfold truncate_factors.
    assert (E1 : dict_trunc R keq (slice_cols R) (List.combine (sectors G R u0) counts) (blocks G R u0) = Some (GU fuN)).
    { unfold sectors. rewrite (dict_trunc_eq R keq keq_spec).
      - unfold u0, left_arr. cbn [blocks]. rewrite combine_map_l. f_equal.
        apply kept_map'. intros [sb n]. repeat split.
      - fold (sectors G R u0). rewrite sectors_u0. exact (mo_nd G R x i0 i1 Hx).
      - unfold u0, left_arr. cbn [blocks]. now rewrite map_length. }
    assert (E2 : dict_trunc R (ceqb G) (slice_rows R)
                   (map (fun sn : sector * nat => (col (fst sn), snd sn)) (List.combine (sectors G R u0) counts)) s0
                 = Some (GS fsN)).
    { rewrite <- combine_map_l.
      assert (Ek : map col (sectors G R u0) = map fst s0).
      { rewrite sectors_u0. unfold s0. rewrite !map_map. apply map_ext. reflexivity. }
      rewrite Ek, (dict_trunc_eq R (ceqb G) ceqb_spec).
      - unfold s0. rewrite combine_map_l. f_equal.
        apply kept_map'. intros [sb n]. repeat split.
      - unfold s0. rewrite map_map. exact (cols_nodup G HG R x i0 i1 Hx).
      - unfold s0. now rewrite map_length. }
    assert (E3 : dict_trunc R keq (slice_rows R)
                   (map (fun sn : sector * nat => ([col (fst sn); col (fst sn)], snd sn)) (List.combine (sectors G R u0) counts))
                   (blocks G R vh0) = Some (GV fvN)).
    { rewrite <- (combine_map_l (fun s : sector => [col s; col s])).
      assert (Ek : map (fun s : sector => [col s; col s]) (sectors G R u0) = map fst (blocks G R vh0)).
      { rewrite sectors_u0. unfold vh0, right_arr. cbn [blocks]. rewrite !map_map. apply map_ext. reflexivity. }
      rewrite Ek, (dict_trunc_eq R keq keq_spec).
      - unfold vh0, right_arr. cbn [blocks]. rewrite combine_map_l. f_equal.
        apply kept_map'. intros [sb n]. repeat split.
      - unfold vh0, right_arr. cbn [blocks]. rewrite map_map. cbn [fst].
        rewrite <- (map_map (fun sb : blk => col (fst sb)) (fun c => [c; c])).
        apply LinalgProofs.NoDup_map_inj; [intros a b H; now inversion H | exact (cols_nodup G HG R x i0 i1 Hx)].
      - unfold vh0, right_arr. cbn [blocks]. now rewrite map_length. }
    rewrite E1, E2, E3, kept_cm_eq. reflexivity.
  Qed.

  Lemma GS_lookup fs sb n : In (sb, n) blc -> n <> 0 -> lookup (ceqb G) (col (fst sb)) (GS fs) = Some (fs sb n).
  Proof.
    intros Hin Hn'. apply (Tdot.lookup_nodup_In (ceqb G) ceqb_spec).
    - apply kept_keys_nodup. exact keysC.
    - apply in_kept. now exists sb, n.
  Qed.

  Lemma upd_U (sf : C G -> option (tensor R)) (sm : tensor R -> tensor R) :
    (forall sb n, In (sb, n) blc -> n <> 0 -> sf (col (fst sb)) = Some (sm (fsN sb n))) ->
    dict_update R keq (fun (k : sector) t => option_map (fun sv => tmul_diag R t sv 1) (sf (col k)))
      (sectors G R (UA fuN)) (blocks G R (UA fuN))
    = Some (GU (fun sb n => tmul_diag R (fuN sb n) (sm (fsN sb n)) 1)).
  Proof.
    intros Hsf. set (pick := fun c : C G => match sf c with Some sv => sv | None => tzeros R [] end).
    unfold sectors, UA. cbn [blocks].
    rewrite (dict_update_eq R keq keq_spec _ (fun (k : sector) t => tmul_diag R t (pick (col k)) 1)).
    - f_equal. unfold GU. rewrite (kept_map_val (fun sb : blk => fst sb) fuN (fun k t => tmul_diag R t (pick (col k)) 1)).
      apply kept_ext_in. intros sb n Hin Hn'. unfold pick. now rewrite (Hsf sb n Hin Hn').
    - apply kept_keys_nodup. exact keysU.
    - intros [k t] Hp. apply in_kept in Hp. destruct Hp as (sb & n & Hin & Hn' & -> & ->). cbn [fst snd].
      unfold pick. now rewrite (Hsf sb n Hin Hn').
  Qed.

  Lemma upd_V (sf : C G -> option (tensor R)) (sm : tensor R -> tensor R) :
    (forall sb n, In (sb, n) blc -> n <> 0 -> sf (col (fst sb)) = Some (sm (fsN sb n))) ->
    dict_update R keq (fun (k : sector) t => option_map (fun sv => tmul_diag R t sv 0) (sf (row_charge G k)))
      (map (fun k : sector => [col k; col k]) (sectors G R (UA fuN))) (blocks G R (VA fvN))
    = Some (GV (fun sb n => tmul_diag R (fvN sb n) (sm (fsN sb n)) 0)).
  Proof.
    intros Hsf. set (pick := fun c : C G => match sf c with Some sv => sv | None => tzeros R [] end).
    unfold sectors, UA, VA. cbn [blocks].
    assert (Ek : map (fun k : sector => [col k; col k]) (map fst (GU fuN)) = map fst (GV fvN)).
    { unfold GU, GV. rewrite !kept_keys, map_map. reflexivity. }
    rewrite Ek.
    rewrite (dict_update_eq R keq keq_spec _ (fun (k : sector) t => tmul_diag R t (pick (row_charge G k)) 0)).
    - f_equal. unfold GV.
      rewrite (kept_map_val (fun sb : blk => [col (fst sb); col (fst sb)]) fvN (fun k t => tmul_diag R t (pick (row_charge G k)) 0)).
      apply kept_ext_in. intros sb n Hin Hn'. unfold pick, row_charge. cbn [nth]. now rewrite (Hsf sb n Hin Hn').
    - apply kept_keys_nodup. exact keysV.
    - intros [k t] Hp. apply in_kept in Hp. destruct Hp as (sb & n & Hin & Hn' & -> & ->). cbn [fst snd].
      unfold pick, row_charge. cbn [nth]. now rewrite (Hsf sb n Hin Hn').
  Qed.

  Theorem absorb_eq mode :
    absorb G R sqrt_blk mode (UA fuN) (GS fsN) (VA fvN) = Some (UA (fuM mode), VA (fvM mode)).
  Proof.
    assert (H1 : forall sb n, In (sb, n) blc -> n <> 0 ->
               (fun c => lookup (ceqb G) c (GS fsN)) (col (fst sb)) = Some ((fun sv => sv) (fsN sb n))).
    { intros sb n Hin Hn'. exact (GS_lookup fsN sb n Hin Hn'). }
    assert (H2 : forall sb n, In (sb, n) blc -> n <> 0 ->
               (fun c => option_map sqrt_blk (lookup (ceqb G) c (GS fsN))) (col (fst sb)) = Some (sqrt_blk (fsN sb n))).
    { intros sb n Hin Hn'. cbv beta. now rewrite (GS_lookup fsN sb n Hin Hn'). }
    pose proof (upd_U _ _ H1) as EU1. pose proof (upd_V _ _ H1) as EV1.
    pose proof (upd_U _ _ H2) as EU2. pose proof (upd_V _ _ H2) as EV2. cbv beta in EU1, EV1, EU2, EV2.
    unfold absorb. destruct mode; cbv zeta.
    - rewrite EU1. reflexivity.
    - rewrite EU2, EV2. reflexivity.
    - rewrite EV1. reflexivity.
  Qed.

  Theorem svd_truncated_eq :
    a_svd_truncated G R svd_blk sqrt_blk x counts None = Some (UA fuN, Some (GS fsN), VA fvN) /\
    forall mode, a_svd_truncated G R svd_blk sqrt_blk x counts (Some mode) = Some (UA (fuM mode), None, VA (fvM mode)).
  Proof.
    unfold a_svd_truncated. rewrite a_svd_eq, truncate_eq. split; [reflexivity|].
    intros mode. now rewrite absorb_eq.
  Qed.

  (* ---------------- shapes and entries of the per-mode contents ---------------- *)
  Lemma fuN_ok : fu_ok fuN.
  Proof.
    intros sb n c0 c1 Hin Hn' E.
    destruct (blk_facts sb n Hin) as (c0' & c1' & k & E' & _ & _ & _ & _ & _ & _ & _ & Hu & _).
    rewrite E in E'. inversion E'; subst c0' c1'. exact (slice_cols_shape R _ _ k n Hu).
  Qed.

  Lemma fvN_ok : fv_ok fvN.
  Proof.
    intros sb n c0 c1 Hin Hn' E.
    destruct (blk_facts sb n Hin) as (c0' & c1' & k & E' & _ & _ & _ & _ & _ & _ & _ & _ & _ & Hv & _).
    rewrite E in E'. inversion E'; subst c0' c1'. exact (slice_rows_shape R _ k _ n Hv).
  Qed.

  Lemma fuM_ok mode : fu_ok (fuM mode).
  Proof.
    intros sb n c0 c1 Hin Hn' E. destruct (fuN_ok sb n c0 c1 Hin Hn' E) as [H1 H2].
    destruct mode; unfold fuM; try (apply tmul_diag_shape; exact H1). now split.
  Qed.

  Lemma fvM_ok mode : fv_ok (fvM mode).
  Proof.
    intros sb n c0 c1 Hin Hn' E. destruct (fvN_ok sb n c0 c1 Hin Hn' E) as [H1 H2].
    destruct mode; unfold fvM; try (apply tmul_diag_shape; exact H1). now split.
  Qed.

  (* CONTRACT of the square root on the kept singular values: sqrt(s) * sqrt(s) = s entrywise *)
  Definition sqrt_ok : Prop :=
    forall sb n, In (sb, n) blc -> n <> 0 -> forall o, o < n ->
      rmul R (get R (sqrt_blk (fsN sb n)) [o]) (get R (sqrt_blk (fsN sb n)) [o]) = get R (fsN sb n) [o].

  Lemma entM_ok mode : (mode = AbsBoth -> sqrt_ok) -> ent_ok (fuM mode) (fvM mode).
  Proof.
    intros Hsq sb n c0 c1 i o j Hin Hn' E Hi Ho Hj.
    destruct (blk_facts sb n Hin) as (c0' & c1' & k & E' & _ & _ & _ & _ & _ & _ & _ & Hu & Hs & Hv & _).
    rewrite E in E'. inversion E'; subst c0' c1'.
    pose proof (slice_cols_get R _ _ k n i o Hu Hi Ho) as GU'. fold (fuN sb n) in GU'.
    pose proof (slice_rows_get R _ k _ n o j Hv Ho Hj) as GV'. fold (fvN sb n) in GV'.
    pose proof (slice_vec_get R _ k n o Hs Ho) as GS'. fold (fsN sb n) in GS'.
    destruct (fuN_ok sb n c0 c1 Hin Hn' E) as [HshU _]. destruct (fvN_ok sb n c0 c1 Hin Hn' E) as [HshV _].
    assert (IU : inb (tshape (fuN sb n)) [i; o] = true) by (rewrite HshU; now apply inb2).
    assert (IV : inb (tshape (fvN sb n)) [o; j] = true) by (rewrite HshV; now apply inb2).
    destruct mode; unfold fuM, fvM, sfacM.
    - rewrite (StructProofs.get_tmul_diag R _ _ 1 _ IU). cbn [nth]. now rewrite GU', GS', GV'.
    - rewrite (StructProofs.get_tmul_diag R _ _ 1 _ IU), (StructProofs.get_tmul_diag R _ _ 0 _ IV). cbn [nth].
      rewrite GU', GV', <- GS', <- (Hsq eq_refl sb n Hin Hn' o Ho).
      set (q := get R (sqrt_blk (fsN sb n)) [o]).
      rewrite (cr_mul_comm R CL (get R (Vb (snd sb)) [o; j]) q), (cr_mul_assoc R CL).
      now rewrite <- (cr_mul_assoc R CL (get R (Ub (snd sb)) [i; o]) q q).
    - rewrite (StructProofs.get_tmul_diag R _ _ 0 _ IV). cbn [nth]. rewrite GU', GS', GV'.
      rewrite (cr_mul_comm R CL (get R (Vb (snd sb)) [o; j])). apply (cr_mul_assoc R CL).
  Qed.

  (* ---------------- truncated_wf ---------------- *)
  Lemma bondK_size0 sb : In (sb, 0) blc -> size_of G bondK (col (fst sb)) = 0.
  Proof.
    intros Hin. unfold bondK. rewrite (size_of_mk_index G HG) by exact cmK_nodup.
    destruct (lookup (ceqb G) (col (fst sb)) cmK) as [n'|] eqn:E; [|reflexivity]. exfalso.
    apply (Tdot.lookup_In (ceqb G) ceqb_spec) in E. apply cmK_in in E. destruct E as (sb' & Hin' & Hn' & Hc).
    pose proof (row_unique sb sb' (blc_in _ _ Hin) (blc_in _ _ Hin') (eq_sym Hc)) as Hs.
    pose proof (FermiProofs.NoDup_map_inj (fun an : blk * nat => fst (fst an)) blc keysU (sb', n') (sb, 0) Hin' Hin Hs) as Heq.
    inversion Heq. contradiction.
  Qed.

  Lemma bondK_size_all sb n : In (sb, n) blc -> size_of G bondK (col (fst sb)) = n.
  Proof.
    intros Hin. destruct n as [|n]; [now apply bondK_size0 | now apply bondK_size].
  Qed.

  Lemma gen_wf_spec fu fv : fu_ok fu -> fv_ok fv -> trunc_wf_spec G R x counts bondK (UA fu) (VA fv).
  Proof.
    intros Hfu Hfv. unfold trunc_wf_spec.
    split; [exact (UA_wf fu Hfu)|]. split; [exact (VA_wf fv Hfv)|].
    split; [reflexivity|]. split; [reflexivity|]. split; [reflexivity|]. split; [reflexivity|].
    split; [reflexivity|]. split; [reflexivity|]. split; [reflexivity|]. split; [reflexivity|].
    split.
    { pose proof bondK_wf as H. unfold bondK, mk_index in H. cbn [wf_index] in H. rewrite andb_true_r in H.
      unfold cm_ok in H. apply andb_true_iff in H. exact (proj1 H). }
    split.
    { unfold bondK, mk_index. cbn [chargemap]. rewrite (sort_cm_perm G cmK). unfold cmK, kept, survivors. fold bl blc.
      clear. induction blc as [|[sb n] l IH]; [constructor|]. cbn [flat_map filter fst snd].
      destruct (Nat.eqb n 0); cbn [negb app map fst snd]; [exact IH | now constructor]. }
    split; [exact bondK_size_all|].
    split.
    { unfold sectors, UA, GU, survivors. cbn [blocks]. apply kept_keys. }
    unfold sectors, UA, VA, GU, GV. cbn [blocks]. rewrite !kept_keys, map_map. reflexivity.
  Qed.

  Lemma GS_spec : trunc_s_spec G R bondK (UA fuN) (GS fsN).
  Proof.
    unfold trunc_s_spec. split; [|split; [|split]].
    - unfold sectors, UA, GU, GS. cbn [blocks]. rewrite !kept_keys, map_map. reflexivity.
    - apply kept_keys_nodup. exact keysC.
    - rewrite bondK_charges. unfold GS, cmK. rewrite !kept_keys. reflexivity.
    - intros c t Hct. apply in_kept in Hct. destruct Hct as (sb & n & Hin & Hn' & -> & ->).
      destruct (blk_facts sb n Hin) as (c0 & c1 & k & _ & _ & _ & _ & _ & _ & _ & _ & _ & Hs & _).
      rewrite (bondK_size sb n Hin Hn'). exact (proj1 (slice_vec_shape R _ k n Hs)).
  Qed.

  Theorem truncated_wf_one :
    a_svd_truncated G R svd_blk sqrt_blk x counts None = Some (UA fuN, Some (GS fsN), VA fvN) /\
    trunc_wf_spec G R x counts bondK (UA fuN) (VA fvN) /\ trunc_s_spec G R bondK (UA fuN) (GS fsN) /\
    forall mode, a_svd_truncated G R svd_blk sqrt_blk x counts (Some mode) = Some (UA (fuM mode), None, VA (fvM mode)) /\
                 trunc_wf_spec G R x counts bondK (UA (fuM mode)) (VA (fvM mode)).
  Proof.
    destruct svd_truncated_eq as [E0 Em]. split; [exact E0|]. split; [exact (gen_wf_spec _ _ fuN_ok fvN_ok)|].
    split; [exact GS_spec|]. intros mode. split; [apply Em | exact (gen_wf_spec _ _ (fuM_ok mode) (fvM_ok mode))].
  Qed.

  (* ---------------- truncated_product / absorb_equal ---------------- *)
  Definition kept_sum (l rr : coord G) : RT R :=
    Sum (map (fun k => rmul R (rmul R (sem G R u0 [l; k]) (vsem G R s0 k)) (sem G R vh0 [k; rr])) (index_coords G bondK)).

  Theorem truncated_product_one mode (l rr : coord G) :
    (mode = AbsBoth -> sqrt_ok) ->
    coords_ok G [i0] [l] = true -> coords_ok G [i1] [rr] = true ->
    exists res, a_matmul G R (UA (fuM mode)) (VA (fvM mode)) = Some res /\ sem G R res [l; rr] = kept_sum l rr.
  Proof.
    intros Hsq Hl Hr. exact (gen_product (fuM mode) (fvM mode) l rr (fuM_ok mode) (fvM_ok mode) (entM_ok mode Hsq) Hl Hr).
  Qed.

  (* ---------------- the residual: what truncation discards ---------------- *)
  (* the bond coordinates (c, o) with  count_c <= o < size_c *)
  Definition disc_coords : list (coord G) :=
    flat_map (fun an : blk * nat =>
                map (fun o => (col (fst (fst an)), o)) (seq (snd an) (ncols R (Ub (snd (fst an))) - snd an))) blc.

  Lemma sum_split (T : coord G -> RT R) :
    Sum (map T (index_coords G (ix1 G R u0)))
    = radd R (Sum (map T (index_coords G bondK))) (Sum (map T disc_coords)).
  Proof.
    set (H := fun p : C G * nat => Sum (map (fun o => T (fst p, o)) (seq 0 (snd p)))).
    assert (H0 : forall c, H (c, 0) = r0 R) by reflexivity.
    rewrite !(Tdot.rsum_index_coords G R RL). fold H.
    set (cm0 := map (fun sb : blk => (col (fst sb), ncols R (Ub (snd sb)))) bl).
    assert (E0 : chargemap G (ix1 G R u0) = sort_cm G cm0) by reflexivity.
    assert (EK : chargemap G bondK = sort_cm G cmK) by reflexivity.
    rewrite E0, EK.
    rewrite (rsum_perm2 R RL _ _ (Permutation_map H (sort_cm_perm G cm0))).
    rewrite (rsum_perm2 R RL _ _ (Permutation_map H (sort_cm_perm G cmK))).
    unfold cm0. rewrite <- blc_fst, !map_map.
    unfold cmK. rewrite (rsum_kept R RL (fun sb : blk => col (fst sb)) H blc H0).
    unfold disc_coords. rewrite (Tdot.rsum_flat_map R RL), <- (Tdot.rsum_add R RL).
    apply (Tdot.rsum_ext R). intros [sb n] Hin. cbn [fst snd]. unfold H. cbn [fst snd].
    pose proof (Hle sb n Hin) as Hb.
    replace (ncols R (Ub (snd sb))) with (n + (ncols R (Ub (snd sb)) - n)) at 1 by lia.
    rewrite seq_app, map_app, (Tdot.rsum_app R RL). cbn [Nat.add]. now rewrite map_map.
  Qed.

  Definition disc_sum (l rr : coord G) : RT R :=
    Sum (map (fun k => rmul R (rmul R (sem G R u0 [l; k]) (vsem G R s0 k)) (sem G R vh0 [k; rr])) disc_coords).

  Theorem truncated_residual_one mode (l rr : coord G) :
    (mode = AbsBoth -> sqrt_ok) ->
    (forall sec m, In (sec, m) (blocks G R x) -> svd_product R svd_blk m) ->
    coords_ok G [i0] [l] = true -> coords_ok G [i1] [rr] = true ->
    exists res, a_matmul G R (UA (fuM mode)) (VA (fvM mode)) = Some res /\
      sem G R res [l; rr] = kept_sum l rr /\
      sem G R x [l; rr] = radd R (sem G R res [l; rr]) (disc_sum l rr).
  Proof.
    intros Hsq Hp Hl Hr. destruct (truncated_product_one mode l rr Hsq Hl Hr) as [res [Hres Hsem]].
    exists res. split; [exact Hres|]. split; [exact Hsem|]. rewrite Hsem.
    destruct (dense_is_svd_partial G HG R RL cltb_irrefl cltb_trans cltb_total svd_blk Hshapes x u0 s0 vh0 Hw Hn Hp a_svd_eq)
      as (Hd & _).
    rewrite <- (Hd l rr Hl Hr). unfold kept_sum, disc_sum. apply sum_split.
  Qed.
  (* ---------------- the error identity ---------------- *)
  (* ORTHONORMALITY CONTRACT of the per-block routine: columns of U, rows of Vh *)
  Context (Horth : forall sec m, In (sec, m) (blocks G R x) -> orth_cols R (Ub m) /\ orth_rows R (Vb m)).

  Definition ceq (k k' : coord G) : bool := ceqb G (fst k) (fst k') && Nat.eqb (snd k) (snd k').

  Lemma ceq_spec k k' : ceq k k' = true <-> k = k'.
  Proof.
    unfold ceq. rewrite andb_true_iff, Nat.eqb_eq. destruct k as [c o], k' as [c' o']. cbn [fst snd]. split.
    - intros [H1 H2]. apply ceqb_spec in H1. now subst.
    - intros H. inversion H. split; [now apply ceqb_spec | reflexivity].
  Qed.

  Lemma disc_in k : In k disc_coords ->
    exists sb n, In (sb, n) blc /\ fst k = col (fst sb) /\ snd k < ncols R (Ub (snd sb)).
  Proof.
    unfold disc_coords. rewrite in_flat_map. intros [[sb n] [Hin H]]. cbn [fst snd] in H.
    apply in_map_iff in H. destruct H as [o [<- Ho]]. apply in_seq in Ho. pose proof (Hle sb n Hin) as Hb.
    exists sb, n. cbn [fst snd]. repeat split; [exact Hin | lia].
  Qed.

  Lemma disc_nodup : NoDup disc_coords.
  Proof.
    unfold disc_coords. pose proof keysC as Hk. revert Hk. generalize blc. intros l. induction l as [|[sb n] l IH]; intros Hk; [constructor|].
    cbn [map fst] in Hk. inversion Hk as [|? ? Hni Hnd]; subst. cbn [flat_map fst snd].
    apply StructProofs.NoDup_app'.
    - apply FinFun.Injective_map_NoDup; [intros a b H; now inversion H | apply seq_NoDup].
    - now apply IH.
    - intros [c o] H1 H2. apply in_map_iff in H1. destruct H1 as [o1 [E1 _]]. inversion E1; subst c o1.
      apply in_flat_map in H2. destruct H2 as [[sb' n'] [Hin' H2]]. cbn [fst snd] in H2.
      apply in_map_iff in H2. destruct H2 as [o2 [E2 _]]. inversion E2 as [[Hc Ho]].
      apply Hni. apply in_map_iff. exists (sb', n'). split; [exact Hc | exact Hin'].
  Qed.

  (* entries of the untruncated factors through the block that owns the bond charge *)
  Lemma sem_u0 (sb : blk) r c (l k : coord G) : In sb bl -> fst sb = [r; c] -> fst k = c ->
    sem G R u0 [l; k] = if ceqb G r (fst l) then get R (Ub (snd sb)) [snd l; snd k] else r0 R.
  Proof.
    destruct l as [c0 i], k as [ck o]. cbn [fst snd]. intros Hin E Hck. subst ck. destruct sb as [s m]. cbn [fst snd] in *. subst s. unfold sem. cbn [map fst snd].
    destruct (ceqb G r c0) eqn:E0.
    - apply ceqb_spec in E0. subst c0.
      pose proof (left_lookup G HG R (svd_uv R svd_blk) x i0 i1 Hx _ m Hin) as H. fold u0 in H. now rewrite H.
    - assert (Hno : lookup keq [c0; c] (blocks G R u0) = None).
      { apply (left_lookup_none G HG R (svd_uv R svd_blk) x i0 i1).
        apply (StructProofs.lookup_None keq keq_spec). intros Hk'. unfold keys in Hk'. apply in_map_iff in Hk'.
        destruct Hk' as [[s' t'] [Es Hst]]. cbn [fst] in Es. subst s'.
        pose proof (row_unique _ _ Hin Hst eq_refl) as Hru. cbn [fst] in Hru. inversion Hru. subst c0.
        rewrite (proj2 (ceqb_spec _ _) eq_refl) in E0. discriminate. }
      now rewrite Hno.
  Qed.

  Lemma sem_vh0 (sb : blk) r c (k rr : coord G) : In sb bl -> fst sb = [r; c] -> fst k = c ->
    sem G R vh0 [k; rr] = if ceqb G c (fst rr) then get R (Vb (snd sb)) [snd k; snd rr] else r0 R.
  Proof.
    destruct k as [ck o], rr as [c1 j]. cbn [fst snd]. intros Hin E Hck. subst ck. destruct sb as [s m]. cbn [fst snd] in *. subst s. unfold sem. cbn [map fst snd].
    destruct (ceqb G c c1) eqn:E1.
    - apply ceqb_spec in E1. subst c1.
      pose proof (right_lookup G HG R (svd_uv R svd_blk) x i0 i1 Hx _ m Hin) as H.
      unfold col_charge in H. cbn [nth] in H. fold vh0 in H. now rewrite H.
    - assert (Hno : lookup keq [c; c1] (blocks G R vh0) = None).
      { apply (StructProofs.lookup_None keq keq_spec). intros Hk'. unfold keys in Hk'. apply in_map_iff in Hk'.
        destruct Hk' as [[s' t'] [Es Hst]]. cbn [fst] in Es. subst s'. unfold vh0, right_arr in Hst. cbn [blocks] in Hst.
        apply in_map_iff in Hst. destruct Hst as [sb' [Hs' _]]. assert (Hcc : c = c1) by (inversion Hs'; congruence).
        subst c1. rewrite (proj2 (ceqb_spec _ _) eq_refl) in E1. discriminate. }
      now rewrite Hno.
  Qed.

  Lemma same_block (sb sb' : blk) : In sb bl -> In sb' bl -> fst sb = fst sb' -> sb = sb'.
  Proof.
    intros H H' E. destruct sb as [s m], sb' as [s' m']. cbn [fst] in E. subst s'.
    pose proof (Tdot.lookup_nodup_In keq keq_spec s m bl (mo_nd G R x i0 i1 Hx) H) as L1.
    pose proof (Tdot.lookup_nodup_In keq keq_spec s m' bl (mo_nd G R x i0 i1 Hx) H') as L2. congruence.
  Qed.

  Lemma lookup_size ix c : 0 < size_of G ix c -> lookup (ceqb G) c (chargemap G ix) = Some (size_of G ix c).
  Proof. unfold size_of. destruct (lookup (ceqb G) c (chargemap G ix)); [reflexivity | lia]. Qed.

  Lemma gram_u k k' : In k disc_coords -> In k' disc_coords ->
    Sum (map (fun l => rmul R (sem G R u0 [l; k]) (rconj R (sem G R u0 [l; k']))) (index_coords G i0))
    = if ceq k k' then r1 R else r0 R.
  Proof.
    intros Hk Hk'. destruct (disc_in k Hk) as (sb & n & Hin & Hc & Ho). destruct (disc_in k' Hk') as (sb' & n' & Hin' & Hc' & Ho').
    destruct (blk_facts sb n Hin) as (r & c & kk & E & _ & _ & Hr & _ & _ & _ & _ & Hu & _ & _ & Hp0 & _).
    destruct (blk_facts sb' n' Hin') as (r' & c' & kk' & E' & _ & _ & Hr' & _ & _ & _ & _ & Hu' & _ & _ & _).
    destruct k as [ck o], k' as [ck' o']. cbn [fst snd] in *. rewrite E in Hc. rewrite E' in Hc'.
    unfold col_charge in Hc, Hc'. cbn [nth] in Hc, Hc'. subst ck ck'.
    pose proof (blc_in _ _ Hin) as Hb. pose proof (blc_in _ _ Hin') as Hb'.
    rewrite (Tdot.rsum_index_coords G R RL). unfold ceq. cbn [fst snd].
    assert (Hnd0 : NoDup (map fst (chargemap G i0))).
    { exact (Tdot.wf_index_nodup G cltb_irrefl cltb_trans i0 (mo_wf0 G R x i0 i1 Hx)). }
    destruct (ceqb G c c') eqn:Ec; cbn [andb].
    - apply ceqb_spec in Ec. subst c'.
      assert (Es : fst sb' = fst sb) by (apply row_unique; try assumption; rewrite E, E'; reflexivity).
      pose proof (same_block sb' sb Hb' Hb Es) as Esb. subst sb'. rewrite E in E'. inversion E'; subst r'. clear E'.
      transitivity (Sum (map (fun p : C G * nat => if ceqb G r (fst p)
            then Sum (map (fun i => rmul R (get R (Ub (snd sb)) [i; o]) (rconj R (get R (Ub (snd sb)) [i; o']))) (seq 0 (snd p)))
            else r0 R) (chargemap G i0))).
      { apply (Tdot.rsum_ext R). intros p _. destruct (ceqb G r (fst p)) eqn:Er.
        - apply (Tdot.rsum_ext R). intros i _. cbv beta. rewrite (sem_u0 sb r c (fst p, i) (c, o) Hb E eq_refl), (sem_u0 sb r c (fst p, i) (c, o') Hb E eq_refl). cbn [fst snd]. now rewrite Er.
        - apply (Tdot.rsum_zero R RL). intros i _. cbv beta. rewrite (sem_u0 sb r c (fst p, i) (c, o) Hb E eq_refl). cbn [fst snd]. rewrite Er. apply (rmul_0_l R RL). }
      rewrite (Tdot.rsum_lookup R RL (ceqb G) ceqb_spec (chargemap G i0) r
                 (fun d => Sum (map (fun i => rmul R (get R (Ub (snd sb)) [i; o]) (rconj R (get R (Ub (snd sb)) [i; o']))) (seq 0 d))) Hnd0).
      rewrite (lookup_size i0 r Hp0).
      destruct sb as [s m]. cbn [fst snd] in *.
      destruct (Horth s m Hb) as [Hoc _]. unfold ncols in Ho, Ho'. rewrite Hu in Ho, Ho'. cbn [nth] in Ho, Ho'.
      specialize (Hoc o' o). rewrite Hu in Hoc. cbn [nth] in Hoc. specialize (Hoc Ho' Ho).
      rewrite Nat.eqb_sym, <- Hoc. apply (Tdot.rsum_ext R). intros i _. apply (cr_mul_comm R CL).
    - apply (Tdot.rsum_zero R RL). intros p _. apply (Tdot.rsum_zero R RL). intros i _.
      rewrite (sem_u0 sb r c (fst p, i) (c, o) Hb E eq_refl), (sem_u0 sb' r' c' (fst p, i) (c', o') Hb' E' eq_refl). cbn [fst snd].
      destruct (ceqb G r (fst p)) eqn:Er; [|apply (rmul_0_l R RL)].
      destruct (ceqb G r' (fst p)) eqn:Er'; [|rewrite (cr_conj_0 R CL); apply (rmul_0_r R RL)].
      exfalso. apply ceqb_spec in Er. apply ceqb_spec in Er'.
      assert (Es : fst sb' = fst sb).
      { apply (row_determines_col G HG R x i0 i1 Hx); [| | ]; unfold sectors; try (now apply in_map).
        rewrite E, E'. unfold row_charge. cbn [nth]. congruence. }
      rewrite E, E' in Es. inversion Es. subst. rewrite (proj2 (ceqb_spec _ _) eq_refl) in Ec. discriminate.
  Qed.

  Lemma gram_v k k' : In k disc_coords -> In k' disc_coords ->
    Sum (map (fun rr => rmul R (sem G R vh0 [k; rr]) (rconj R (sem G R vh0 [k'; rr]))) (index_coords G i1))
    = if ceq k k' then r1 R else r0 R.
  Proof.
    intros Hk Hk'. destruct (disc_in k Hk) as (sb & n & Hin & Hc & Ho). destruct (disc_in k' Hk') as (sb' & n' & Hin' & Hc' & Ho').
    destruct (blk_facts sb n Hin) as (r & c & kk & E & _ & _ & _ & _ & _ & _ & _ & Hu & _ & Hv & _ & Hp1).
    destruct (blk_facts sb' n' Hin') as (r' & c' & kk' & E' & _ & _ & _ & _ & _ & _ & _ & _ & _ & _ & _).
    destruct k as [ck o], k' as [ck' o']. cbn [fst snd] in *. rewrite E in Hc. rewrite E' in Hc'.
    unfold col_charge in Hc, Hc'. cbn [nth] in Hc, Hc'. subst ck ck'.
    pose proof (blc_in _ _ Hin) as Hb. pose proof (blc_in _ _ Hin') as Hb'.
    rewrite (Tdot.rsum_index_coords G R RL). unfold ceq. cbn [fst snd].
    assert (Hnd1 : NoDup (map fst (chargemap G i1))).
    { exact (Tdot.wf_index_nodup G cltb_irrefl cltb_trans i1 (mo_wf1 G R x i0 i1 Hx)). }
    destruct (ceqb G c c') eqn:Ec; cbn [andb].
    - apply ceqb_spec in Ec. subst c'.
      assert (Es : fst sb' = fst sb) by (apply row_unique; try assumption; rewrite E, E'; reflexivity).
      pose proof (same_block sb' sb Hb' Hb Es) as Esb. subst sb'. rewrite E in E'. inversion E'; subst r'. clear E'.
      transitivity (Sum (map (fun p : C G * nat => if ceqb G c (fst p)
            then Sum (map (fun j => rmul R (get R (Vb (snd sb)) [o; j]) (rconj R (get R (Vb (snd sb)) [o'; j]))) (seq 0 (snd p)))
            else r0 R) (chargemap G i1))).
      { apply (Tdot.rsum_ext R). intros p _. destruct (ceqb G c (fst p)) eqn:Er.
        - apply (Tdot.rsum_ext R). intros j _. cbv beta. rewrite (sem_vh0 sb r c (c, o) (fst p, j) Hb E eq_refl), (sem_vh0 sb r c (c, o') (fst p, j) Hb E eq_refl). cbn [fst snd]. now rewrite Er.
        - apply (Tdot.rsum_zero R RL). intros j _. cbv beta. rewrite (sem_vh0 sb r c (c, o) (fst p, j) Hb E eq_refl). cbn [fst snd]. rewrite Er. apply (rmul_0_l R RL). }
      rewrite (Tdot.rsum_lookup R RL (ceqb G) ceqb_spec (chargemap G i1) c
                 (fun d => Sum (map (fun j => rmul R (get R (Vb (snd sb)) [o; j]) (rconj R (get R (Vb (snd sb)) [o'; j]))) (seq 0 d))) Hnd1).
      rewrite (lookup_size i1 c Hp1).
      destruct sb as [s m]. cbn [fst snd] in *.
      destruct (Horth s m Hb) as [_ Hor]. unfold ncols in Ho, Ho'. rewrite Hu in Ho, Ho'. cbn [nth] in Ho, Ho'.
      specialize (Hor o o'). rewrite Hv in Hor. cbn [nth] in Hor. exact (Hor Ho Ho').
    - apply (Tdot.rsum_zero R RL). intros p _. apply (Tdot.rsum_zero R RL). intros j _.
      rewrite (sem_vh0 sb r c (c, o) (fst p, j) Hb E eq_refl), (sem_vh0 sb' r' c' (c', o') (fst p, j) Hb' E' eq_refl). cbn [fst snd].
      destruct (ceqb G c (fst p)) eqn:Er; [|apply (rmul_0_l R RL)].
      destruct (ceqb G c' (fst p)) eqn:Er'; [|rewrite (cr_conj_0 R CL); apply (rmul_0_r R RL)].
      exfalso. apply ceqb_spec in Er. apply ceqb_spec in Er'. subst. rewrite (proj2 (ceqb_spec _ _) eq_refl) in Ec. discriminate.
  Qed.

  Lemma sum_all_coords2 (F : list (coord G) -> RT R) (a b : index G) :
    Sum (map F (all_coords G [a; b]))
    = Sum (map (fun l => Sum (map (fun r => F [l; r]) (index_coords G b))) (index_coords G a)).
  Proof.
    unfold all_coords. cbn [map product]. rewrite (Tdot.rsum_flat_map R RL).
    apply (Tdot.rsum_ext R). intros l _. rewrite map_map, (Tdot.rsum_flat_map R RL).
    apply (Tdot.rsum_ext R). intros r _. cbn [map]. apply (Tdot.rsum_single R RL).
  Qed.

  Add Ring cring_local : (cring_theory R CL).

  Theorem error_identity_one mode res :
    (mode = AbsBoth -> sqrt_ok) ->
    (forall sec m, In (sec, m) (blocks G R x) -> svd_product R svd_blk m) ->
    a_matmul G R (UA (fuM mode)) (VA (fvM mode)) = Some res ->
    Sum (map (fun cs => let d := radd R (sem G R x cs) (rneg R (sem G R res cs)) in rmul R d (rconj R d))
             (all_coords G (indices G R x)))
    = Sum (map (fun k => rmul R (vsem G R s0 k) (rconj R (vsem G R s0 k))) disc_coords).
  Proof.
    intros Hsq Hp Hres. rewrite (mo_ix G R x i0 i1 Hx), sum_all_coords2.
    assert (Hnd0 : NoDup (icharges G i0)) by exact (Tdot.wf_index_nodup G cltb_irrefl cltb_trans i0 (mo_wf0 G R x i0 i1 Hx)).
    assert (Hnd1 : NoDup (icharges G i1)) by exact (Tdot.wf_index_nodup G cltb_irrefl cltb_trans i1 (mo_wf1 G R x i0 i1 Hx)).
    set (a := fun (k : coord G) (l : coord G) => rmul R (sem G R u0 [l; k]) (vsem G R s0 k)).
    set (b := fun (k : coord G) (rr : coord G) => sem G R vh0 [k; rr]).
    transitivity (Sum (map (fun l => Sum (map (fun rr =>
        rmul R (Sum (map (fun k => rmul R (a k l) (b k rr)) disc_coords))
               (rconj R (Sum (map (fun k => rmul R (a k l) (b k rr)) disc_coords)))) (index_coords G i1))) (index_coords G i0))).
    { apply (Tdot.rsum_ext R). intros l Hl. apply (Tdot.rsum_ext R). intros rr Hr. cbv zeta.
      assert (Hl' : coords_ok G [i0] [l] = true) by (apply (coords_ok_1 G); now apply (index_coords_in G HG)).
      assert (Hr' : coords_ok G [i1] [rr] = true) by (apply (coords_ok_1 G); now apply (index_coords_in G HG)).
      destruct (truncated_residual_one mode l rr Hsq Hp Hl' Hr') as [res' [Hres' [_ Hx']]].
      rewrite Hres in Hres'. injection Hres' as <-.
      assert (Ed : radd R (sem G R x [l; rr]) (rneg R (sem G R res [l; rr])) = disc_sum l rr).
      { rewrite Hx'. generalize (sem G R res [l; rr]) (disc_sum l rr). intros p q.
        rewrite (radd_comm R RL p q), <- (radd_assoc R RL), (cr_add_neg R CL). apply (Tdot.radd_0_r R RL). }
      rewrite Ed. reflexivity. }
    rewrite (frob_gram R CL a b (index_coords G i0) (index_coords G i1) disc_coords).
    apply (Tdot.rsum_ext R). intros k Hk.
    transitivity (Sum (map (fun k' => if ceq k' k then rmul R (vsem G R s0 k) (rconj R (vsem G R s0 k)) else r0 R) disc_coords)).
    2:{ apply (Tdot.rsum_pick R RL ceq ceq_spec); [exact disc_nodup | exact Hk]. }
    apply (Tdot.rsum_ext R). intros k' Hk'.
    assert (EA : Sum (map (fun l => rmul R (a k l) (rconj R (a k' l))) (index_coords G i0))
                 = rmul R (rmul R (vsem G R s0 k) (rconj R (vsem G R s0 k'))) (if ceq k k' then r1 R else r0 R)).
    { rewrite <- (gram_u k k' Hk Hk'), (rsum_mul_l R CL). apply (Tdot.rsum_ext R). intros l _. unfold a.
      rewrite (cr_conj_mul R CL).
      generalize (sem G R u0 [l; k]) (vsem G R s0 k) (rconj R (sem G R u0 [l; k'])) (rconj R (vsem G R s0 k')).
      intros p q p' q'. ring. }
    rewrite EA. unfold b. rewrite (gram_v k k' Hk Hk').
    destruct (ceq k k') eqn:Ek.
    - apply ceq_spec in Ek. subst k'. rewrite (proj2 (ceq_spec k k) eq_refl).
      rewrite !(cr_mul_comm R CL _ (r1 R)), !(cr_mul_1_l R CL). reflexivity.
    - assert (Ek' : ceq k' k = false).
      { destruct (ceq k' k) eqn:E2; [|reflexivity]. apply ceq_spec in E2. subst k'. rewrite (proj2 (ceq_spec k k) eq_refl) in Ek. discriminate. }
      rewrite Ek'. apply (rmul_0_r R RL).
  Qed.
End TruncGen.

(* ------------------------------------------------------------------ *)
(* C13b: the statements about `a_svd_truncated`, with the explicit forms hidden *)
Section TruncFinal.
  Context (G : Symmetry) (HG : GroupLaws G) (R : Ring) (CL : CRingLaws R).
  Context (cltb_irrefl : forall c : C G, cltb G c c = false)
          (cltb_trans : forall a b c : C G, cltb G a b = true -> cltb G b c = true -> cltb G a c = true)
          (cltb_total : forall a b : C G, a <> b -> cltb G a b = true \/ cltb G b a = true).
  Context (svd_blk : tensor R -> tensor R * tensor R * tensor R) (Hshapes : svd_shapes R svd_blk)
          (sqrt_blk : tensor R -> tensor R).
  Notation arr := (aarray G R).
  Notation blk := (list (C G) * tensor R)%type.

  (* one count per stored block, none above the number of singular values of its block *)
  Definition counts_ok (x : arr) (counts : list nat) : Prop :=
    length counts = length (blocks G R x) /\
    forall (sb : blk) n, In (sb, n) (List.combine (blocks G R x) counts) -> n <= ncols R (fst (svd_uv R svd_blk (snd sb))).

  (* sum of the svd terms u[l,k] s[k] vh[k,r] over a list of bond coordinates *)
  Definition usv_sum (u : arr) (s : bvec G R) (vh : arr) (ks : list (coord G)) (l rr : coord G) : RT R :=
    rsum R (map (fun k => rmul R (rmul R (sem G R u [l; k]) (vsem G R s k)) (sem G R vh [k; rr])) ks).

  Theorem truncated_wf (x : arr) (counts : list nat) :
    wf_array G R x = true -> ndim G R x = 2 -> counts_ok x counts ->
    exists b U' S' VH',
      a_svd_truncated G R svd_blk sqrt_blk x counts None = Some (U', Some S', VH') /\
      trunc_wf_spec G R x counts b U' VH' /\ trunc_s_spec G R b U' S' /\
      forall mode, exists U'' VH'',
        a_svd_truncated G R svd_blk sqrt_blk x counts (Some mode) = Some (U'', None, VH'') /\
        trunc_wf_spec G R x counts b U'' VH''.
  Proof.
    intros Hw Hn [Hlen Hle].
    destruct (truncated_wf_one G HG R cltb_irrefl cltb_trans cltb_total svd_blk Hshapes x Hw Hn counts Hlen Hle sqrt_blk)
      as (E0 & W0 & S0 & Em).
    eexists _, _, _, _. split; [exact E0|]. split; [exact W0|]. split; [exact S0|].
    intros mode. destruct (Em mode) as [E W]. eexists _, _. split; [exact E | exact W].
  Qed.

  Theorem truncated_product (x u : arr) (s : bvec G R) (vh : arr) (counts : list nat) (mode : absorb_mode) (l rr : coord G) :
    wf_array G R x = true -> ndim G R x = 2 -> counts_ok x counts ->
    a_svd G R svd_blk x = Some (u, s, vh) ->
    (mode = AbsBoth -> sqrt_ok G R svd_blk x counts sqrt_blk) ->
    coords_ok G [ix0 G R x] [l] = true -> coords_ok G [ix1 G R x] [rr] = true ->
    exists U' VH' res,
      a_svd_truncated G R svd_blk sqrt_blk x counts (Some mode) = Some (U', None, VH') /\
      a_matmul G R U' VH' = Some res /\
      sem G R res [l; rr] = usv_sum u s vh (index_coords G (ix1 G R U')) l rr.
  Proof.
    intros Hw Hn [Hlen Hle] Hs Hsq Hl Hr.
    rewrite (a_svd_eq G HG R svd_blk x Hw Hn) in Hs. injection Hs as <- <- <-.
    destruct (truncated_wf_one G HG R cltb_irrefl cltb_trans cltb_total svd_blk Hshapes x Hw Hn counts Hlen Hle sqrt_blk)
      as (_ & _ & _ & Em).
    destruct (truncated_product_one G HG R CL cltb_irrefl cltb_trans cltb_total svd_blk Hshapes x Hw Hn counts Hlen Hle
                sqrt_blk mode l rr Hsq Hl Hr) as [res [Hres Hsem]].
    eexists _, _, res. split; [exact (proj1 (Em mode))|]. split; [exact Hres|]. exact Hsem.
  Qed.

  (* the three absorb modes give the same product *)
  Theorem absorb_equal (x : arr) (counts : list nat) (m1 m2 : absorb_mode) (l rr : coord G) :
    wf_array G R x = true -> ndim G R x = 2 -> counts_ok x counts ->
    sqrt_ok G R svd_blk x counts sqrt_blk ->
    coords_ok G [ix0 G R x] [l] = true -> coords_ok G [ix1 G R x] [rr] = true ->
    exists U1 VH1 U2 VH2 r1 r2,
      a_svd_truncated G R svd_blk sqrt_blk x counts (Some m1) = Some (U1, None, VH1) /\
      a_svd_truncated G R svd_blk sqrt_blk x counts (Some m2) = Some (U2, None, VH2) /\
      a_matmul G R U1 VH1 = Some r1 /\ a_matmul G R U2 VH2 = Some r2 /\
      sem G R r1 [l; rr] = sem G R r2 [l; rr].
  Proof.
    intros Hw Hn Hc Hsq Hl Hr.
    destruct (a_svd G R svd_blk x) as [[[u s] vh]|] eqn:Es; [|rewrite (a_svd_eq G HG R svd_blk x Hw Hn) in Es; discriminate].
    destruct (truncated_product x u s vh counts m1 l rr Hw Hn Hc Es (fun _ => Hsq) Hl Hr) as (U1 & VH1 & r1 & E1 & M1 & S1).
    destruct (truncated_product x u s vh counts m2 l rr Hw Hn Hc Es (fun _ => Hsq) Hl Hr) as (U2 & VH2 & r2 & E2 & M2 & S2).
    exists U1, VH1, U2, VH2, r1, r2. repeat split; try assumption. rewrite S1, S2.
    destruct Hc as [Hlen Hle].
    destruct (truncated_wf_one G HG R cltb_irrefl cltb_trans cltb_total svd_blk Hshapes x Hw Hn counts Hlen Hle sqrt_blk)
      as (_ & _ & _ & Em).
    rewrite (proj1 (Em m1)) in E1. rewrite (proj1 (Em m2)) in E2. injection E1 as <- _. injection E2 as <- _. reflexivity.
  Qed.

  Lemma disc_coords_spec (x : arr) (counts : list nat) (c : C G) (o : nat) :
    In (c, o) (disc_coords G R svd_blk x counts) <->
    exists (sb : blk) n, In (sb, n) (List.combine (blocks G R x) counts) /\ c = col_charge G (fst sb) /\
                         n <= o < n + (ncols R (fst (svd_uv R svd_blk (snd sb))) - n).
  Proof.
    unfold disc_coords. rewrite in_flat_map. split.
    - intros [[sb n] [Hin H]]. cbn [fst snd] in H. apply in_map_iff in H. destruct H as [o' [E Ho]]. inversion E; subst.
      apply in_seq in Ho. now exists sb, n.
    - intros (sb & n & Hin & -> & Ho). exists (sb, n). split; [exact Hin|]. cbn [fst snd]. apply in_map_iff.
      exists o. split; [reflexivity|]. now apply in_seq.
  Qed.

  (* truncated product = full svd sum restricted to the KEPT bond coordinates;  x = product + the DISCARDED terms *)
  Theorem truncated_residual (x u : arr) (s : bvec G R) (vh : arr) (counts : list nat) (mode : absorb_mode) (l rr : coord G) :
    wf_array G R x = true -> ndim G R x = 2 -> counts_ok x counts ->
    (forall sec m, In (sec, m) (blocks G R x) -> svd_product R svd_blk m) ->
    a_svd G R svd_blk x = Some (u, s, vh) ->
    (mode = AbsBoth -> sqrt_ok G R svd_blk x counts sqrt_blk) ->
    coords_ok G [ix0 G R x] [l] = true -> coords_ok G [ix1 G R x] [rr] = true ->
    exists U' VH' res,
      a_svd_truncated G R svd_blk sqrt_blk x counts (Some mode) = Some (U', None, VH') /\
      a_matmul G R U' VH' = Some res /\
      sem G R res [l; rr] = usv_sum u s vh (index_coords G (ix1 G R U')) l rr /\
      sem G R x [l; rr] = radd R (sem G R res [l; rr]) (usv_sum u s vh (disc_coords G R svd_blk x counts) l rr).
  Proof.
    intros Hw Hn [Hlen Hle] Hp Hs Hsq Hl Hr.
    rewrite (a_svd_eq G HG R svd_blk x Hw Hn) in Hs. injection Hs as <- <- <-.
    destruct (truncated_wf_one G HG R cltb_irrefl cltb_trans cltb_total svd_blk Hshapes x Hw Hn counts Hlen Hle sqrt_blk)
      as (_ & _ & _ & Em).
    destruct (truncated_residual_one G HG R CL cltb_irrefl cltb_trans cltb_total svd_blk Hshapes x Hw Hn counts Hlen Hle
                sqrt_blk mode l rr Hsq Hp Hl Hr) as [res [Hres [Hsem Hx']]].
    eexists _, _, res. split; [exact (proj1 (Em mode))|]. split; [exact Hres|]. split; [exact Hsem | exact Hx'].
  Qed.
End TruncFinal.

(* ERROR IDENTITY: with orthonormal columns of every U block and orthonormal rows of every Vh
   block (per-block LAPACK contract; different bond charges have disjoint supports, so the
   factors are orthonormal across blocks), the squared Frobenius norm of x - product is the
   sum of the discarded |s|^2 *)
Definition error_identity_stmt : Prop :=
  forall (G : Symmetry) (R : Ring) (svd_blk : tensor R -> tensor R * tensor R * tensor R) (sqrt_blk : tensor R -> tensor R)
         (x u : aarray G R) (s : bvec G R) (vh : aarray G R) (counts : list nat) (mode : absorb_mode)
         (U' VH' res : aarray G R),
    GroupLaws G -> CRingLaws R ->
    (forall c : C G, cltb G c c = false) ->
    (forall a b c : C G, cltb G a b = true -> cltb G b c = true -> cltb G a c = true) ->
    (forall a b : C G, a <> b -> cltb G a b = true \/ cltb G b a = true) ->
    svd_shapes R svd_blk ->
    wf_array G R x = true -> ndim G R x = 2 -> counts_ok G R svd_blk x counts ->
    (forall sec m, In (sec, m) (blocks G R x) ->
       svd_product R svd_blk m /\ orth_cols R (fst (svd_uv R svd_blk m)) /\ orth_rows R (snd (svd_uv R svd_blk m))) ->
    a_svd G R svd_blk x = Some (u, s, vh) ->
    (mode = AbsBoth -> sqrt_ok G R svd_blk x counts sqrt_blk) ->
    a_svd_truncated G R svd_blk sqrt_blk x counts (Some mode) = Some (U', None, VH') ->
    a_matmul G R U' VH' = Some res ->
    rsum R (map (fun cs => let d := radd R (sem G R x cs) (rneg R (sem G R res cs)) in rmul R d (rconj R d))
                (all_coords G (indices G R x)))
    = rsum R (map (fun k => rmul R (vsem G R s k) (rconj R (vsem G R s k))) (disc_coords G R svd_blk x counts)).

Theorem error_identity : error_identity_stmt.
Proof.
  intros G R svd_blk sqrt_blk x u s vh counts mode U' VH' res HG CL Hirr Htr Htot Hshapes Hw Hn [Hlen Hle] Hall Hs Hsq Ht Hm.
  rewrite (a_svd_eq G HG R svd_blk x Hw Hn) in Hs. injection Hs as _ <- _.
  destruct (truncated_wf_one G HG R Hirr Htr Htot svd_blk Hshapes x Hw Hn counts Hlen Hle sqrt_blk) as (_ & _ & _ & Em).
  rewrite (proj1 (Em mode)) in Ht. injection Ht as <- <-.
  apply (error_identity_one G HG R CL Hirr Htr Htot svd_blk Hshapes x Hw Hn counts Hlen Hle sqrt_blk
           (fun sec m H => proj2 (Hall sec m H)) mode res Hsq (fun sec m H => proj1 (Hall sec m H)) Hm).
Qed.

(* ------------------------------------------------------------------ *)
(* Examples for part 3: Z2, integers, odd charge, a 2x2 and a 1x3 block; the per-block "svd"
   m = u . diag(4, 9, 16) . I is exact on these blocks, the square-root stand-in is exact on
   the perfect squares.  counts (1, 2): one of two and two of three values kept;
   counts (1, 0): the second sector disappears. *)
Module TruncEx.
  Import LinalgEx.
  Local Open Scope Z_scope.
  Definition svals (b : nat) : tensor ZRing :=
    build ZRing [b] (fun idx => let j := Z.of_nat (nth 0 idx 0%nat) + 2 in j * j).
  Definition svd_sq (m : tensor ZRing) : tensor ZRing * tensor ZRing * tensor ZRing :=
    (build ZRing [sh0 ZRing m; sh1 ZRing m]
       (fun idx => let j := Z.of_nat (nth 1 idx 0%nat) + 2 in get ZRing m idx / (j * j)),
     svals (sh1 ZRing m), eye (sh1 ZRing m)).
  Definition x2 : aarray Z2 ZRing :=
    mkA Z2 ZRing [Index Z2 [(0, 2%nat); (1, 1%nat)] false None; Index Z2 [(0, 3%nat); (1, 2%nat)] true None] 1
      [([0; 1], @mkT ZRing [2; 2]%nat [4; 18; 12; 36]); ([1; 0], @mkT ZRing [1; 3]%nat [20; 54; 112])].

  Example svd_sq_shapes : svd_shapes ZRing svd_sq.
  Proof.
    intros m a b Hm Ha Hb Hl. exists b. unfold svd_uv, svd_s, svd_sq, sh0, sh1. cbn [fst snd]. rewrite Hm. cbn [nth].
    destruct (eye_facts b) as [E1 E2]. repeat split; try assumption. apply build_len.
  Qed.

  Example x2_hyps : wf_array Z2 ZRing x2 = true /\ ndim Z2 ZRing x2 = 2%nat.
  Proof. vm_compute. split; reflexivity. Qed.

  Example x2_products : forall s m, In (s, m) (blocks Z2 ZRing x2) -> svd_product ZRing svd_sq m.
  Proof.
    intros s m [H|[H|[]]]; inversion H; subst; intros i j Hi Hj; cbn [tshape nth] in Hi, Hj;
      repeat (destruct i as [|i]; try lia); repeat (destruct j as [|j]; try lia); vm_compute; reflexivity.
  Qed.

  Example counts_ok_12 : counts_ok Z2 ZRing svd_sq x2 [1; 2]%nat.
  Proof. split; [reflexivity|]. intros sb n [H|[H|[]]]; inversion H; subst; vm_compute; lia. Qed.

  Example counts_ok_10 : counts_ok Z2 ZRing svd_sq x2 [1; 0]%nat.
  Proof. split; [reflexivity|]. intros sb n [H|[H|[]]]; inversion H; subst; vm_compute; lia. Qed.

  Example sqrt_ok_12 : sqrt_ok Z2 ZRing svd_sq x2 [1; 2]%nat sqrt_stub.
  Proof.
    intros sb n [H|[H|[]]] Hn' o Ho; inversion H; subst; repeat (destruct o as [|o]; try lia); vm_compute; reflexivity.
  Qed.

  (* the computed result for counts (1, 0), absorb = both: only the sector (0,1) survives, the bond
     table is {1: 1} on both factors with opposite directions, sqrt(4) = 2 on each side *)
  Example trunc_10 :
    match a_svd_truncated Z2 ZRing svd_sq sqrt_stub x2 [1; 0]%nat (Some AbsBoth) with
    | Some (u, None, vh) =>
        indices Z2 ZRing u = [Index Z2 [(0, 2%nat); (1, 1%nat)] false None; Index Z2 [(1, 1%nat)] true None] /\
        indices Z2 ZRing vh = [Index Z2 [(1, 1%nat)] false None; Index Z2 [(0, 3%nat); (1, 2%nat)] true None] /\
        blocks Z2 ZRing u = [([0; 1], @mkT ZRing [2; 1]%nat [2; 6])] /\
        blocks Z2 ZRing vh = [([1; 1], @mkT ZRing [1; 2]%nat [2; 0])] /\
        wf_array Z2 ZRing u = true /\ wf_array Z2 ZRing vh = true
    | _ => False
    end.
  Proof. vm_compute. repeat split; reflexivity. Qed.

  (* absorb = None returns the sliced singular values, keyed by the kept charges *)
  Example trunc_12_values :
    match a_svd_truncated Z2 ZRing svd_sq sqrt_stub x2 [1; 2]%nat None with
    | Some (u, Some s, vh) =>
        s = [(1, @mkT ZRing [1]%nat [4]); (0, @mkT ZRing [2]%nat [4; 9])] /\
        nth 1 (indices Z2 ZRing u) (dflt_index Z2) = Index Z2 [(0, 2%nat); (1, 1%nat)] true None
    | _ => False
    end.
  Proof. vm_compute. repeat split; reflexivity. Qed.

  Example truncated_wf_instance :
    exists b U' S' VH',
      a_svd_truncated Z2 ZRing svd_sq sqrt_stub x2 [1; 0]%nat None = Some (U', Some S', VH') /\
      trunc_wf_spec Z2 ZRing x2 [1; 0]%nat b U' VH' /\ trunc_s_spec Z2 ZRing b U' S'.
  Proof.
    destruct x2_hyps as [Hw Hn].
    destruct (truncated_wf Z2 Z2_laws ZRing (builtin_cltb_irrefl Z2 bs_Z2) (builtin_cltb_trans Z2 bs_Z2) (builtin_cltb_total Z2 bs_Z2)
                svd_sq svd_sq_shapes sqrt_stub x2 [1; 0]%nat Hw Hn counts_ok_10) as (b & U' & S' & VH' & E & W & S & _).
    now exists b, U', S', VH'.
  Qed.

  Example truncated_residual_instance mode l rr :
    coords_ok Z2 [ix0 Z2 ZRing x2] [l] = true -> coords_ok Z2 [ix1 Z2 ZRing x2] [rr] = true ->
    exists u s vh U' VH' res,
      a_svd Z2 ZRing svd_sq x2 = Some (u, s, vh) /\
      a_svd_truncated Z2 ZRing svd_sq sqrt_stub x2 [1; 2]%nat (Some mode) = Some (U', None, VH') /\
      a_matmul Z2 ZRing U' VH' = Some res /\
      sem Z2 ZRing res [l; rr] = usv_sum Z2 ZRing u s vh (index_coords Z2 (ix1 Z2 ZRing U')) l rr /\
      sem Z2 ZRing x2 [l; rr] = sem Z2 ZRing res [l; rr] + usv_sum Z2 ZRing u s vh (disc_coords Z2 ZRing svd_sq x2 [1; 2]%nat) l rr.
  Proof.
    intros Hl Hr. destruct x2_hyps as [Hw Hn].
    destruct (a_svd Z2 ZRing svd_sq x2) as [[[u s] vh]|] eqn:Es; [|vm_compute in Es; discriminate].
    destruct (truncated_residual Z2 Z2_laws ZRing ZRing_cring (builtin_cltb_irrefl Z2 bs_Z2) (builtin_cltb_trans Z2 bs_Z2)
                (builtin_cltb_total Z2 bs_Z2) svd_sq svd_sq_shapes sqrt_stub x2 u s vh [1; 2]%nat mode l rr Hw Hn counts_ok_12
                x2_products Es (fun _ => sqrt_ok_12) Hl Hr) as (U' & VH' & res & E & M & S1 & S2).
    exists u, s, vh, U', VH', res. repeat split; assumption.
  Qed.

  (* the discarded coordinates of the instance: (1,1) of the first block, (0,2) of the second *)
  Example disc_12 : disc_coords Z2 ZRing svd_sq x2 [1; 2]%nat = [(1, 1%nat); (0, 2%nat)].
  Proof. vm_compute. reflexivity. Qed.
End TruncEx.

(* Example for the error identity: blocks with genuinely orthonormal factors over the integers
   (U a permutation, Vh rows of the identity): (0,1) |-> [[0,9],[4,0]] = P . diag(4,9) . I and
   (1,0) |-> [[0,4,0]] = [1] . diag(4) . [0 1 0].  counts (1, 1) discard the value 9: error 81. *)
Module ErrEx.
  Import LinalgEx.
  Local Open Scope Z_scope.
  Definition B1 : tensor ZRing := @mkT ZRing [2; 2]%nat [0; 9; 4; 0].
  Definition B2 : tensor ZRing := @mkT ZRing [1; 3]%nat [0; 4; 0].
  Definition svd_o (m : tensor ZRing) : tensor ZRing * tensor ZRing * tensor ZRing :=
    if tensor_eqb ZRing m B1 then (@mkT ZRing [2; 2]%nat [0; 1; 1; 0], @mkT ZRing [2]%nat [4; 9], eye 2)
    else if tensor_eqb ZRing m B2 then (@mkT ZRing [1; 1]%nat [1], @mkT ZRing [1]%nat [4], @mkT ZRing [1; 3]%nat [0; 1; 0])
    else (tzeros ZRing [sh0 ZRing m; sh1 ZRing m], tzeros ZRing [sh1 ZRing m], eye (sh1 ZRing m)).
  Definition x3 : aarray Z2 ZRing :=
    mkA Z2 ZRing [Index Z2 [(0, 2%nat); (1, 1%nat)] false None; Index Z2 [(0, 3%nat); (1, 2%nat)] true None] 1
      [([0; 1], B1); ([1; 0], B2)].

  Example svd_o_shapes : svd_shapes ZRing svd_o.
  Proof.
    intros m a b Hm Ha Hb Hl. unfold svd_uv, svd_s, svd_o.
    destruct (tensor_eqb ZRing m B1) eqn:E1; [|destruct (tensor_eqb ZRing m B2) eqn:E2].
    - unfold tensor_eqb in E1. apply andb_true_iff in E1. destruct E1 as [E1 _].
      apply (Tdot.list_eqb_spec Nat.eqb Nat.eqb_eq) in E1. rewrite Hm in E1. inversion E1; subst.
      exists 2%nat. cbn [fst snd]. repeat split; lia.
    - unfold tensor_eqb in E2. apply andb_true_iff in E2. destruct E2 as [E2 _].
      apply (Tdot.list_eqb_spec Nat.eqb Nat.eqb_eq) in E2. rewrite Hm in E2. inversion E2; subst.
      exists 1%nat. cbn [fst snd]. repeat split; lia.
    - exists b. unfold sh0, sh1. rewrite Hm. cbn [nth fst snd]. destruct (eye_facts b) as [F1 F2].
      repeat split; try assumption; apply build_len.
  Qed.

  Example x3_hyps : wf_array Z2 ZRing x3 = true /\ ndim Z2 ZRing x3 = 2%nat.
  Proof. vm_compute. split; reflexivity. Qed.

  Example x3_contracts : forall s m, In (s, m) (blocks Z2 ZRing x3) ->
    svd_product ZRing svd_o m /\ orth_cols ZRing (fst (svd_uv ZRing svd_o m)) /\ orth_rows ZRing (snd (svd_uv ZRing svd_o m)).
  Proof.
    intros s m [H|[H|[]]]; inversion H; subst; (split; [|split]); intros i j Hi Hj; vm_compute in Hi, Hj;
      repeat (destruct i as [|i]; try lia); repeat (destruct j as [|j]; try lia); vm_compute; reflexivity.
  Qed.

  Example counts_ok_11 : counts_ok Z2 ZRing svd_o x3 [1; 1]%nat.
  Proof. split; [reflexivity|]. intros sb n [H|[H|[]]]; inversion H; subst; vm_compute; lia. Qed.

  Example sqrt_ok_11 : sqrt_ok Z2 ZRing svd_o x3 [1; 1]%nat sqrt_stub.
  Proof.
    intros sb n [H|[H|[]]] Hn' o Ho; inversion H; subst; repeat (destruct o as [|o]; try lia); vm_compute; reflexivity.
  Qed.

  Example error_instance mode :
    exists u s vh U' VH' res,
      a_svd Z2 ZRing svd_o x3 = Some (u, s, vh) /\
      a_svd_truncated Z2 ZRing svd_o sqrt_stub x3 [1; 1]%nat (Some mode) = Some (U', None, VH') /\
      a_matmul Z2 ZRing U' VH' = Some res /\
      rsum ZRing (map (fun cs => let d := sem Z2 ZRing x3 cs + - sem Z2 ZRing res cs in d * d) (all_coords Z2 (indices Z2 ZRing x3)))
      = rsum ZRing (map (fun k => vsem Z2 ZRing s k * vsem Z2 ZRing s k) (disc_coords Z2 ZRing svd_o x3 [1; 1]%nat)) /\
      rsum ZRing (map (fun k => vsem Z2 ZRing s k * vsem Z2 ZRing s k) (disc_coords Z2 ZRing svd_o x3 [1; 1]%nat)) = 81.
  Proof.
    destruct x3_hyps as [Hw Hn].
    destruct (a_svd Z2 ZRing svd_o x3) as [[[u s] vh]|] eqn:Es; [|vm_compute in Es; discriminate].
    destruct (a_svd_truncated Z2 ZRing svd_o sqrt_stub x3 [1; 1]%nat (Some mode)) as [[[U' [|]] VH']|] eqn:Et;
      try (destruct mode; vm_compute in Et; discriminate).
    destruct (a_matmul Z2 ZRing U' VH') as [res|] eqn:Em.
    2:{ destruct mode; vm_compute in Et; injection Et as <- <-; vm_compute in Em; discriminate. }
    exists u, s, vh, U', VH', res. split; [reflexivity|]. split; [reflexivity|]. split; [exact Em|]. split.
    - exact (error_identity Z2 ZRing svd_o sqrt_stub x3 u s vh [1; 1]%nat mode U' VH' res Z2_laws ZRing_cring
               (builtin_cltb_irrefl Z2 bs_Z2) (builtin_cltb_trans Z2 bs_Z2) (builtin_cltb_total Z2 bs_Z2)
               svd_o_shapes Hw Hn counts_ok_11 x3_contracts Es (fun _ => sqrt_ok_11) Et Em).
    - vm_compute in Es. injection Es as _ <- _. vm_compute. reflexivity.
  Qed.
End ErrEx.
