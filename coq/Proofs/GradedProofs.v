(* Proofs/GradedProofs.v — Koszul-sign algebra; the generated
   `calc_phase_permutation` computes the odd-odd inversion parity. *)
From SV Require Import Base.Prelude Gen.PhasePerm Model.Graded.
From Coq Require Import Permutation ZifyBool Arith Sorted.
Open Scope Z_scope.
Ltac Zify.zify_post_hook ::= Z.to_euclidean_division_equations.

(* ================================================================ part 1 *)
(* ---------- counting ---------- *)
Lemma countb_app {A} (f : A -> bool) l1 l2 : countb f (l1 ++ l2) = (countb f l1 + countb f l2)%nat.
Proof. unfold countb. now rewrite filter_app, app_length. Qed.

Lemma countb_cons {A} (f : A -> bool) x l : countb f (x :: l) = ((if f x then 1 else 0) + countb f l)%nat.
Proof. unfold countb. cbn [filter]. destruct (f x); reflexivity. Qed.

Lemma countb_perm {A} (f : A -> bool) l1 l2 : Permutation l1 l2 -> countb f l1 = countb f l2.
Proof.
  induction 1 as [|x l l' _ IH|x y l|l l' l'' _ IH1 _ IH2]; rewrite ?countb_cons in *; lia.
Qed.

Lemma countb_ext_in {A} (f g : A -> bool) l : (forall x, In x l -> f x = g x) -> countb f l = countb g l.
Proof.
  induction l as [|x l IH]; intros H; [reflexivity|].
  rewrite !countb_cons, (H x (or_introl eq_refl)), IH; [reflexivity|].
  intros y Hy. apply H. now right.
Qed.

Lemma countb_false {A} (f : A -> bool) l : (forall x, In x l -> f x = false) -> countb f l = 0%nat.
Proof.
  induction l as [|x l IH]; intros H; [reflexivity|].
  rewrite countb_cons, (H x (or_introl eq_refl)), IH; [reflexivity|].
  intros y Hy. apply H. now right.
Qed.

Lemma countb_rev {A} (f : A -> bool) l : countb f (rev l) = countb f l.
Proof. apply countb_perm. apply Permutation_sym, Permutation_rev. Qed.

Lemma countb_map {A B} (f : B -> bool) (h : A -> B) l : countb f (map h l) = countb (fun x => f (h x)) l.
Proof. induction l as [|x l IH]; [reflexivity|]. cbn [map]. now rewrite !countb_cons, IH. Qed.

Lemma mem_In x l : mem Z.eqb x l = true <-> In x l.
Proof.
  induction l as [|y l IH]; cbn [mem In]; [split; [discriminate | tauto]|].
  rewrite orb_true_iff, IH, Z.eqb_eq. split; intros [H|H]; auto.
Qed.

Lemma mem_notIn x l : ~ In x l -> mem Z.eqb x l = false.
Proof. intros H. destruct (mem Z.eqb x l) eqn:E; [apply mem_In in E; tauto | reflexivity]. Qed.

(* ---------- zrange ---------- *)
Lemma in_zrange x n : In x (zrange n) <-> 0 <= x < n.
Proof.
  unfold zrange. rewrite in_map_iff. split.
  - intros [k [Hk Hin]]. apply in_seq in Hin. lia.
  - intros H. exists (Z.to_nat x). split; [lia|]. apply in_seq. lia.
Qed.

Lemma zrange_NoDup n : NoDup (zrange n).
Proof.
  unfold zrange. apply FinFun.Injective_map_NoDup; [intros a b; lia | apply seq_NoDup].
Qed.

Lemma zrange_split x n : 0 <= x <= n ->
  zrange n = zrange x ++ map Z.of_nat (seq (Z.to_nat x) (Z.to_nat n - Z.to_nat x)).
Proof.
  intros H. unfold zrange. rewrite <- map_app, <- seq_app. f_equal. f_equal. lia.
Qed.

Lemma zrange_succ (N : nat) : zrange (Z.of_nat (S N)) = zrange (Z.of_nat N) ++ [Z.of_nat N].
Proof.
  unfold zrange. rewrite !Nat2Z.id, seq_S, map_app. reflexivity.
Qed.

(* ---------- the two folds of the routine ---------- *)
Lemma count_fold (P : Z -> bool) l s0 :
  fold_left (fun s o => if P o then s + 1 else s) l s0 = s0 + Z.of_nat (countb P l).
Proof.
  revert s0. induction l as [|o l IH]; intros s0; cbn [fold_left]; [unfold countb; cbn; lia|].
  rewrite IH, countb_cons. destruct (P o); lia.
Qed.

Lemma fold_left_ext {A B} (f g : A -> B -> A) l a : (forall a b, f a b = g a b) -> fold_left f l a = fold_left g l a.
Proof. intros H. revert a. induction l as [|b l IH]; intros a; cbn [fold_left]; [reflexivity|]. now rewrite H, IH. Qed.

(* one outer iteration, written cleanly *)
Definition kstep (par : list Z) (st : Z * list Z) (ax : Z) : Z * list Z :=
  (fst st + (if oddZ par ax
             then Z.of_nat (countb (fun o => negb (mem Z.eqb o (snd st)) && oddZ par o) (zrange ax))
             else 0),
   ax :: snd st).

(* the "moved" set invariant: what the inner loop counts is the number of
   later, smaller, odd axes — the inversions ax takes part in as the left end *)
Lemma moved_count par moved x t n :
  Permutation (moved ++ x :: t) (zrange n) ->
  countb (fun o => negb (mem Z.eqb o moved) && oddZ par o) (zrange x)
  = countb (fun y => Z.ltb y x && oddZ par y) t.
Proof.
  intros HP.
  assert (Hx : 0 <= x < n) by (apply in_zrange, (Permutation_in _ HP), in_or_app; right; now left).
  assert (ND : NoDup (moved ++ x :: t)) by (apply (Permutation_NoDup (Permutation_sym HP)), zrange_NoDup).
  set (F := fun o => Z.ltb o x && (negb (mem Z.eqb o moved) && oddZ par o)).
  assert (E : countb F (zrange n) = countb F (moved ++ x :: t)) by (apply countb_perm, Permutation_sym, HP).
  rewrite (zrange_split x n) in E by lia.
  rewrite !countb_app, countb_cons in E.
  rewrite (countb_ext_in F (fun o => negb (mem Z.eqb o moved) && oddZ par o) (zrange x)) in E.
  2:{ intros o Ho. apply in_zrange in Ho. unfold F. replace (o <? x) with true by lia. reflexivity. }
  rewrite (countb_false F (map _ _)) in E.
  2:{ intros o Ho. apply in_map_iff in Ho. destruct Ho as [k [<- Hk]]. apply in_seq in Hk.
      unfold F. replace (Z.of_nat k <? x) with false by lia. reflexivity. }
  rewrite (countb_false F moved) in E.
  2:{ intros o Ho. unfold F. apply mem_In in Ho. rewrite Ho. cbn. now rewrite andb_false_r. }
  replace (F x) with false in E by (unfold F; rewrite Z.ltb_irrefl; reflexivity).
  rewrite (countb_ext_in F (fun y => Z.ltb y x && oddZ par y) t) in E.
  2:{ intros y Hy. unfold F. rewrite mem_notIn; [reflexivity|].
      intros Hm.
      clear - ND Hm Hy.
      induction moved as [|m moved IH]; [exact Hm|].
      cbn [app] in ND. inversion ND as [|? ? Hn ND']; subst.
      destruct Hm as [->|Hm]; [apply Hn, in_or_app; right; now right | now apply IH]. }
  lia.
Qed.

Lemma kstep_fold par n l : forall moved s,
  Permutation (moved ++ l) (zrange n) ->
  fold_left (kstep par) l (s, moved) = (s + Z.of_nat (inv_count par l), rev l ++ moved).
Proof.
  induction l as [|x t IH]; intros moved s HP; cbn [fold_left inv_count rev app].
  - f_equal. lia.
  - unfold kstep at 2. cbn [fst snd].
    rewrite (moved_count par moved x t n HP).
    rewrite IH.
    + rewrite <- app_assoc. cbn [app]. f_equal. destruct (oddZ par x); lia.
    + eapply Permutation_trans; [|exact HP].
      cbn [app]. apply Permutation_middle.
Qed.

Lemma nat_odd_Z (c : nat) : Z.odd (Z.of_nat c) = Nat.odd c.
Proof.
  induction c as [|c IH]; [reflexivity|].
  rewrite Nat2Z.inj_succ, Z.odd_succ, Nat.odd_succ, <- Z.negb_odd, <- Nat.negb_odd, IH. reflexivity.
Qed.

Lemma odd_of_nat_mod (c : nat) : negb (Z.eqb (Z.of_nat c mod 2) 0) = Nat.odd c.
Proof.
  rewrite <- nat_odd_Z, (Zmod_odd (Z.of_nat c)). destruct (Z.odd (Z.of_nat c)); reflexivity.
Qed.

(* ---------- the theorem about the GENERATED routine ---------- *)
Theorem phase_perm_is_koszul par perm n :
  Permutation perm (zrange n) ->
  calc_phase_permutation par (Some perm) = phase_of (inv_parity par perm).
Proof.
  intros HP. unfold calc_phase_permutation. cbv zeta.
  match goal with |- context [fold_left ?f perm (0, [])] =>
    rewrite (fold_left_ext f (kstep par) perm (0, [])) end.
  - rewrite (kstep_fold par n perm [] 0 HP).
    rewrite Z.add_0_l, odd_of_nat_mod. reflexivity.
  - intros [s moved] ax. unfold kstep, oddZ. cbn [fst snd].
    destruct (negb (nthZ par ax =? 0)); [|f_equal; lia].
    f_equal. rewrite count_fold. apply (f_equal (fun z => s + Z.of_nat z)).
    (* robust to a reordering of the two conjuncts in the source *)
    apply countb_ext_in. intros o _.
    destruct (mem Z.eqb o moved), (nthZ par o =? 0); reflexivity.
Qed.

(* ---------- perm = None : the full reversal ---------- *)
Lemma tri_succ (k : nat) : (S k * (S k - 1) / 2 = k * (k - 1) / 2 + k)%nat.
Proof.
  replace (S k * (S k - 1))%nat with (k * (k - 1) + k * 2)%nat by (destruct k; cbn [Nat.sub]; nia).
  now rewrite Nat.div_add by discriminate.
Qed.

Lemma half_succ (k : nat) : (S k / 2 = k / 2 + (if Nat.odd k then 1 else 0))%nat.
Proof.
  destruct (Nat.odd k) eqn:E.
  - apply Nat.odd_spec in E. destruct E as [m ->].
    replace (S (2*m+1)) with ((m+1)*2)%nat by lia.
    replace (2*m+1)%nat with (1 + m*2)%nat by lia.
    rewrite Nat.div_mul, Nat.div_add by discriminate. cbn. lia.
  - assert (E' : Nat.even k = true) by (rewrite <- Nat.negb_odd, E; reflexivity).
    apply Nat.even_spec in E'. destruct E' as [m ->].
    replace (S (2*m)) with (1 + m*2)%nat by lia.
    replace (2*m)%nat with (m*2)%nat by lia.
    rewrite Nat.div_mul, Nat.div_add by discriminate. cbn. lia.
Qed.

Lemma odd_tri (k : nat) : Nat.odd (k * (k - 1) / 2) = Nat.odd (k / 2).
Proof.
  induction k as [|k IH]; [reflexivity|].
  rewrite tri_succ, half_succ, !Nat.odd_add, IH. destruct (Nat.odd k); reflexivity.
Qed.

Lemma map_nth_seq (l : list Z) : map (fun k => nth k l 0) (seq 0 (length l)) = l.
Proof.
  induction l as [|a l IH]; [reflexivity|].
  cbn [length seq map nth]. rewrite <- seq_shift, map_map. cbn [nth]. now rewrite IH.
Qed.

Lemma map_nthZ_zrange par : map (nthZ par) (zrange (Z.of_nat (length par))) = par.
Proof.
  unfold zrange. rewrite Nat2Z.id, map_map.
  erewrite map_ext; [apply map_nth_seq|].
  intros k. unfold nthZ. now rewrite Nat2Z.id.
Qed.

Lemma n_odd_zrange par : countb (oddZ par) (zrange (Z.of_nat (length par))) = n_odd par.
Proof.
  unfold n_odd.
  transitivity (countb (fun p => negb (p =? 0)) (map (nthZ par) (zrange (Z.of_nat (length par))))).
  - rewrite countb_map. reflexivity.
  - now rewrite map_nthZ_zrange.
Qed.

Lemma zsum_bits par : (forall p, In p par -> p = 0 \/ p = 1) -> zsum par = Z.of_nat (n_odd par).
Proof.
  unfold n_odd. induction par as [|p par IH]; intros H; [reflexivity|].
  rewrite zsum_cons, countb_cons, IH by (intros q Hq; apply H; now right).
  generalize (countb (fun p0 : Z => negb (p0 =? 0)) par). intros c.
  destruct (H p (or_introl eq_refl)) as [-> | ->]; cbn [Z.eqb negb]; lia.
Qed.

Lemma inv_count_reversal par (N : nat) :
  inv_count par (rev (zrange (Z.of_nat N)))
  = (let k := countb (oddZ par) (zrange (Z.of_nat N)) in k * (k - 1) / 2)%nat.
Proof.
  cbv zeta. induction N as [|N IH]; [reflexivity|].
  rewrite zrange_succ, rev_unit, countb_app. cbn [inv_count].
  rewrite IH, countb_rev.
  rewrite (countb_ext_in _ (oddZ par) (zrange (Z.of_nat N))).
  2:{ intros y Hy. apply in_zrange in Hy. replace (y <? Z.of_nat N) with true by lia. reflexivity. }
  rewrite countb_cons. change (countb (oddZ par) []) with 0%nat.
  generalize (countb (oddZ par) (zrange (Z.of_nat N))). intros k.
  destruct (oddZ par (Z.of_nat N)).
  - replace (k + (1 + 0))%nat with (S k) by lia. rewrite tri_succ. lia.
  - now rewrite !Nat.add_0_r.
Qed.

Theorem phase_perm_none_tri par :
  (forall p, In p par -> p = 0 \/ p = 1) ->
  calc_phase_permutation par None = phase_of (Nat.odd (n_odd par * (n_odd par - 1) / 2)).
Proof.
  intros H. unfold calc_phase_permutation. rewrite (zsum_bits par H).
  change 2 with (Z.of_nat 2) at 1. rewrite <- Nat2Z.inj_div, odd_of_nat_mod, odd_tri. reflexivity.
Qed.

(* `perm=None` is the reversal permutation (n-1, ..., 0) *)
Theorem phase_perm_none_is_reversal par :
  (forall p, In p par -> p = 0 \/ p = 1) ->
  calc_phase_permutation par None
  = calc_phase_permutation par (Some (rev (zrange (Z.of_nat (length par))))).
Proof.
  intros H. rewrite (phase_perm_none_tri par H).
  rewrite (phase_perm_is_koszul par _ (Z.of_nat (length par))) by (apply Permutation_sym, Permutation_rev).
  unfold inv_parity. rewrite inv_count_reversal. cbv zeta. now rewrite n_odd_zrange.
Qed.

(* the hypotheses are satisfiable on a non-trivial instance *)
Example K_example :
  NoDup [1; 2; 3] /\ Permutation [1; 2; 3] [3; 1; 2]
  /\ K Z.eqb Z.odd [1; 2; 3] [3; 1; 2] = true
  /\ K Z.eqb (fun _ => true) [1; 2; 3] [3; 1; 2] = false.
Proof.
  split; [repeat constructor; cbn; intuition lia|]. split; [|split; reflexivity].
  apply Permutation_trans with (l' := [1; 3; 2]); [apply perm_skip, perm_swap | apply perm_swap].
Qed.

Example phase_perm_example :
  Permutation [2; 0; 3; 1] (zrange 4)
  /\ calc_phase_permutation [1; 1; 0; 1] (Some [2; 0; 3; 1]) = -1
  /\ inv_parity [1; 1; 0; 1] [2; 0; 3; 1] = true
  /\ calc_phase_permutation [1; 1; 0; 1] None = -1.
Proof.
  split; [|repeat split; reflexivity].
  change (zrange 4) with [0; 1; 2; 3].
  apply Permutation_trans with (l' := [0; 2; 3; 1]); [apply perm_swap|].
  apply perm_skip. apply Permutation_trans with (l' := [2; 1; 3]); [apply perm_skip, perm_swap|].
  apply Permutation_trans with (l' := [1; 2; 3]); [apply perm_swap | apply Permutation_refl].
Qed.

(* ================================================================ part 2 *)
(* ---------- xor folds ---------- *)
Lemma xorb_list_app a b : xorb_list (a ++ b) = xorb (xorb_list a) (xorb_list b).
Proof.
  unfold xorb_list. induction a as [|x a IH]; cbn [app fold_right]; [now rewrite xorb_false_l|].
  now rewrite IH, xorb_assoc.
Qed.

Lemma xorb_list_cons x a : xorb_list (x :: a) = xorb x (xorb_list a).
Proof. reflexivity. Qed.

Lemma xorb_list_perm a b : Permutation a b -> xorb_list a = xorb_list b.
Proof.
  induction 1 as [|x l l' _ IH|x y l|l l' l'' _ IH1 _ IH2]; rewrite ?xorb_list_cons.
  - reflexivity.
  - now rewrite IH.
  - generalize (xorb_list l). intros r. destruct x, y, r; reflexivity.
  - congruence.
Qed.

Lemma xorb_list_map_xor {A} (f g : A -> bool) l :
  xorb_list (map (fun x => xorb (f x) (g x)) l) = xorb (xorb_list (map f l)) (xorb_list (map g l)).
Proof.
  induction l as [|x l IH]; [reflexivity|]. cbn [map]. rewrite !xorb_list_cons, IH.
  generalize (xorb_list (map f l)) (xorb_list (map g l)). intros r1 r2.
  destruct (f x), (g x), r1, r2; reflexivity.
Qed.

Lemma xorb_list_map_ext_in {A} (f g : A -> bool) l :
  (forall x, In x l -> f x = g x) -> xorb_list (map f l) = xorb_list (map g l).
Proof. intros H. f_equal. apply map_ext_in, H. Qed.

Lemma xorb_list_false {A} (f : A -> bool) l : (forall x, In x l -> f x = false) -> xorb_list (map f l) = false.
Proof.
  induction l as [|x l IH]; intros H; [reflexivity|]. cbn [map]. rewrite xorb_list_cons, (H x (or_introl eq_refl)), IH; [reflexivity|].
  intros y Hy. apply H. now right.
Qed.

(* xor of a constant-on-odd indicator: parity of a block *)
Lemma xorb_list_and_const {A} (c : bool) (f : A -> bool) l :
  xorb_list (map (fun y => c && f y) l) = c && xorb_list (map f l).
Proof.
  induction l as [|x l IH]; cbn [map]; [now rewrite andb_false_r|].
  rewrite !xorb_list_cons, IH. destruct c; reflexivity.
Qed.

Section WordsProofs.
  Context {L : Type} (leqb : L -> L -> bool) (leqb_spec : forall x y, leqb x y = true <-> x = y).

  Notation pos := (pos leqb).
  Notation disagree := (disagree leqb).
  Notation K := (K leqb).

  (* ---------- pairxor ---------- *)
  Lemma pairxor_perm (g : L -> L -> bool) w w' :
    (forall x y, g x y = g y x) -> Permutation w w' -> pairxor g w = pairxor g w'.
  Proof.
    intros Hs. induction 1 as [|x l l' HP IH|x y l|l l' l'' _ IH1 _ IH2]; cbn [pairxor].
    - reflexivity.
    - rewrite IH. f_equal. apply xorb_list_perm, Permutation_map, HP.
    - cbn [map]. rewrite !xorb_list_cons, (Hs y x).
      generalize (xorb_list (map (g x) l)) (xorb_list (map (g y) l)) (pairxor g l) (g x y).
      intros a b c d. destruct a, b, c, d; reflexivity.
    - congruence.
  Qed.

  Lemma pairxor_xor (f g : L -> L -> bool) w :
    pairxor (fun x y => xorb (f x y) (g x y)) w = xorb (pairxor f w) (pairxor g w).
  Proof.
    induction w as [|x t IH]; [reflexivity|]. cbn [pairxor].
    rewrite IH, (xorb_list_map_xor (f x) (g x) t).
    generalize (xorb_list (map (f x) t)) (xorb_list (map (g x) t)) (pairxor f t) (pairxor g t).
    intros a b c d. destruct a, b, c, d; reflexivity.
  Qed.

  Lemma pairxor_ext (f g : L -> L -> bool) w : (forall x y, f x y = g x y) -> pairxor f w = pairxor g w.
  Proof.
    intros H. induction w as [|x t IH]; [reflexivity|]. cbn [pairxor]. rewrite IH. f_equal.
    apply xorb_list_map_ext_in. intros y _. apply H.
  Qed.

  Lemma pairxor_ext_in (f g : L -> L -> bool) w :
    NoDup w -> (forall x y, In x w -> In y w -> x <> y -> f x y = g x y) -> pairxor f w = pairxor g w.
  Proof.
    induction 1 as [|x t Hx ND IH]; intros H; [reflexivity|]. cbn [pairxor]. f_equal.
    - apply xorb_list_map_ext_in. intros y Hy. apply H; [now left | now right | intros ->; contradiction].
    - apply IH. intros a b Ha Hb. apply H; now right.
  Qed.

  Lemma pairxor_app (g : L -> L -> bool) a b :
    pairxor g (a ++ b)
    = xorb (xorb (pairxor g a) (pairxor g b)) (xorb_list (map (fun x => xorb_list (map (g x) b)) a)).
  Proof.
    induction a as [|x a IH]; cbn [app pairxor map].
    - now rewrite xorb_false_l, xorb_false_r.
    - rewrite IH, map_app, xorb_list_app, xorb_list_cons.
      generalize (xorb_list (map (g x) a)) (xorb_list (map (g x) b)) (pairxor g a) (pairxor g b)
                 (xorb_list (map (fun x0 => xorb_list (map (g x0) b)) a)).
      intros p q r s t. destruct p, q, r, s, t; reflexivity.
  Qed.

  (* ---------- positions ---------- *)
  Lemma leqb_refl x : leqb x x = true.
  Proof. now apply leqb_spec. Qed.

  Lemma leqb_neq x y : x <> y -> leqb x y = false.
  Proof. intros H. destruct (leqb x y) eqn:E; [apply leqb_spec in E; contradiction | reflexivity]. Qed.

  Lemma pos_inj w x y : In x w -> pos w x = pos w y -> x = y.
  Proof.
    induction w as [|z t IH]; intros Hx E; [destruct Hx|]. cbn [Graded.pos] in E.
    destruct (leqb x z) eqn:Ex.
    - apply leqb_spec in Ex. subst z. destruct (leqb y x) eqn:Ey; [symmetry; now apply leqb_spec | discriminate].
    - destruct (leqb y z) eqn:Ey; [discriminate|]. apply IH; [|now injection E].
      destruct Hx as [->|Hx]; [rewrite leqb_refl in Ex; discriminate | exact Hx].
  Qed.

  Lemma pos_lt_length w x : In x w -> (pos w x < length w)%nat.
  Proof.
    induction w as [|z t IH]; intros Hx; [destruct Hx|]. cbn [Graded.pos length].
    destruct (leqb x z) eqn:Ex; [lia|]. apply -> Nat.succ_lt_mono. apply IH.
    destruct Hx as [->|Hx]; [rewrite leqb_refl in Ex; discriminate | exact Hx].
  Qed.

  Lemma pos_notin w x : ~ In x w -> pos w x = length w.
  Proof.
    induction w as [|z t IH]; intros Hx; [reflexivity|]. cbn [Graded.pos length].
    rewrite leqb_neq by (intros ->; apply Hx; now left). f_equal. apply IH. intros H. apply Hx. now right.
  Qed.

  Lemma pos_app_l a b x : In x a -> pos (a ++ b) x = pos a x.
  Proof.
    induction a as [|z t IH]; intros Hx; [destruct Hx|]. cbn [app Graded.pos].
    destruct (leqb x z) eqn:Ex; [reflexivity|]. f_equal. apply IH.
    destruct Hx as [->|Hx]; [rewrite leqb_refl in Ex; discriminate | exact Hx].
  Qed.

  Lemma pos_app_r a b x : ~ In x a -> pos (a ++ b) x = (length a + pos b x)%nat.
  Proof.
    induction a as [|z t IH]; intros Hx; [reflexivity|]. cbn [app Graded.pos length].
    rewrite leqb_neq by (intros ->; apply Hx; now left). cbn [Nat.add]. f_equal. apply IH. intros H. apply Hx. now right.
  Qed.

  (* ---------- disagreement ---------- *)
  Lemma cmp_eqb_opp c d : cmp_eqb (CompOpp c) (CompOpp d) = cmp_eqb c d.
  Proof. destruct c, d; reflexivity. Qed.

  Lemma disagree_sym w w' x y : disagree w w' x y = disagree w w' y x.
  Proof.
    unfold Graded.disagree. rewrite (Nat.compare_antisym (pos w x) (pos w y)), (Nat.compare_antisym (pos w' x) (pos w' y)).
    now rewrite cmp_eqb_opp.
  Qed.

  Lemma disagree_comm w w' x y : disagree w w' x y = disagree w' w x y.
  Proof.
    unfold Graded.disagree. destruct (pos w x ?= pos w y)%nat, (pos w' x ?= pos w' y)%nat; reflexivity.
  Qed.

  Lemma disagree_refl w x y : disagree w w x y = false.
  Proof. unfold Graded.disagree. destruct (pos w x ?= pos w y)%nat; reflexivity. Qed.

  Lemma disagree_trans w w' w'' x y :
    pos w x <> pos w y -> pos w' x <> pos w' y -> pos w'' x <> pos w'' y ->
    disagree w w'' x y = xorb (disagree w w' x y) (disagree w' w'' x y).
  Proof.
    intros H1 H2 H3. unfold Graded.disagree.
    destruct (pos w x ?= pos w y)%nat eqn:E1; [apply Nat.compare_eq_iff in E1; contradiction| |];
    (destruct (pos w' x ?= pos w' y)%nat eqn:E2; [apply Nat.compare_eq_iff in E2; contradiction| |]);
    (destruct (pos w'' x ?= pos w'' y)%nat eqn:E3; [apply Nat.compare_eq_iff in E3; contradiction| |]);
    reflexivity.
  Qed.

  (* ---------- the Koszul sign ---------- *)
  Theorem K_refl par w : K par w w = false.
  Proof.
    unfold Graded.K. induction w as [|x t IH]; [reflexivity|].
    assert (Z0 : forall v, pairxor (fun a b => par a && par b && disagree v v a b) t = false).
    { intros v. clear. induction t as [|a t IHt]; [reflexivity|]. cbn [pairxor]. rewrite IHt, xorb_false_r.
      apply xorb_list_false. intros b _. now rewrite disagree_refl, andb_false_r. }
    cbn [pairxor]. rewrite Z0, xorb_false_r. apply xorb_list_false. intros b _. now rewrite disagree_refl, andb_false_r.
  Qed.

  Theorem K_sym par w w' : Permutation w w' -> K par w w' = K par w' w.
  Proof.
    intros HP. unfold Graded.K.
    rewrite (pairxor_perm (fun x y => par x && par y && disagree w' w x y) w' w).
    - apply pairxor_ext. intros x y. now rewrite disagree_comm.
    - intros x y. rewrite disagree_sym. destruct (par x), (par y); reflexivity.
    - now apply Permutation_sym.
  Qed.

  (* multiplicativity: pointwise xor telescoping over the unordered pairs *)
  Theorem K_trans par w w' w'' :
    NoDup w -> Permutation w w' -> Permutation w w'' ->
    K par w w'' = xorb (K par w w') (K par w' w'').
  Proof.
    intros ND P1 P2. unfold Graded.K.
    rewrite (pairxor_perm (fun x y => par x && par y && disagree w' w'' x y) w' w).
    2:{ intros x y. rewrite disagree_sym. destruct (par x), (par y); reflexivity. }
    2:{ now apply Permutation_sym. }
    rewrite <- pairxor_xor. apply pairxor_ext_in; [exact ND|].
    intros x y Hx Hy Hxy.
    rewrite (disagree_trans w w' w'' x y).
    - destruct (par x), (par y); cbn [andb]; [reflexivity| | |]; now rewrite ?xorb_false_l.
    - intros E. apply Hxy. now apply (pos_inj w).
    - intros E. apply Hxy. apply (pos_inj w'); [apply (Permutation_in _ P1), Hx | exact E].
    - intros E. apply Hxy. apply (pos_inj w''); [apply (Permutation_in _ P2), Hx | exact E].
  Qed.
End WordsProofs.

(* ================================================================ part 3 *)
Lemma xorb_list_exchange {A B} (f : A -> B -> bool) a b :
  xorb_list (map (fun x => xorb_list (map (f x) b)) a)
  = xorb_list (map (fun y => xorb_list (map (fun x => f x y) a)) b).
Proof.
  induction a as [|x a IH]; cbn [map].
  - symmetry. apply xorb_list_false. reflexivity.
  - rewrite xorb_list_cons, IH.
    rewrite <- (xorb_list_map_xor (f x) (fun y => xorb_list (map (fun x0 => f x0 y) a)) b).
    reflexivity.
Qed.

Section MonoProofs.
  Context {L : Type} (par : L -> bool) (canon : L -> nat).
  Notation cross1 := (cross1 par canon).
  Notation cross := (cross par canon).
  Notation winv := (winv par canon).
  Notation star := (star par canon).

  Lemma cross1_app x a b : cross1 x (a ++ b) = xorb (cross1 x a) (cross1 x b).
  Proof. unfold Graded.cross1. now rewrite map_app, xorb_list_app. Qed.

  Lemma cross_app_l a b m : cross (a ++ b) m = xorb (cross a m) (cross b m).
  Proof. unfold Graded.cross. now rewrite map_app, xorb_list_app. Qed.

  Lemma cross_app_r m a b : cross m (a ++ b) = xorb (cross m a) (cross m b).
  Proof.
    unfold Graded.cross. rewrite <- xorb_list_map_xor. apply xorb_list_map_ext_in. intros x _. apply cross1_app.
  Qed.

  Lemma cross_nil_r m : cross m [] = false.
  Proof. unfold Graded.cross. apply xorb_list_false. reflexivity. Qed.

  (* the twisted product is concatenation of words *)
  Theorem winv_app a b : winv (a ++ b) = xorb (xorb (winv a) (winv b)) (cross a b).
  Proof.
    induction a as [|x a IH]; cbn [app Graded.winv].
    - unfold Graded.cross. cbn [map]. change (xorb_list []) with false. destruct (winv b); reflexivity.
    - rewrite IH, cross1_app. unfold Graded.cross. cbn [map]. rewrite xorb_list_cons.
      fold (cross a b).
      generalize (cross1 x a) (cross1 x b) (winv a) (winv b) (cross a b). intros p q r s t.
      destruct p, q, r, s, t; reflexivity.
  Qed.

  Theorem star_assoc (a b c : mono) : star (star a b) c = star a (star b c).
  Proof.
    destruct a as [sa A], b as [sb B], c as [sc C]. unfold Graded.star. cbn [fst snd].
    rewrite cross_app_l, cross_app_r, app_assoc. f_equal.
    generalize (cross A B) (cross A C) (cross B C). intros p q r.
    destruct sa, sb, sc, p, q, r; reflexivity.
  Qed.

  (* every odd pair (x in m1, y in m2) is counted by exactly one of the two crossings *)
  Theorem cross_comm m1 m2 :
    (forall x y, In x m1 -> In y m2 -> canon x <> canon y) ->
    xorb (cross m1 m2) (cross m2 m1) = bpar par m1 && bpar par m2.
  Proof.
    intros H. unfold Graded.cross at 2. unfold Graded.cross1.
    rewrite (xorb_list_exchange (fun y x => par y && par x && Nat.ltb (canon x) (canon y)) m2 m1).
    unfold Graded.cross, Graded.cross1. rewrite <- xorb_list_map_xor.
    transitivity (xorb_list (map (fun x => par x && bpar par m2) m1)).
    - apply xorb_list_map_ext_in. intros x Hx. rewrite <- xorb_list_map_xor.
      unfold bpar. rewrite <- xorb_list_and_const.
      apply xorb_list_map_ext_in. intros y Hy. specialize (H x y Hx Hy).
      destruct (Nat.ltb (canon y) (canon x)) eqn:E1, (Nat.ltb (canon x) (canon y)) eqn:E2;
        try (apply Nat.ltb_lt in E1); try (apply Nat.ltb_lt in E2);
        try (apply Nat.ltb_ge in E1); try (apply Nat.ltb_ge in E2); try lia;
        destruct (par x), (par y); reflexivity.
    - unfold bpar. generalize (xorb_list (map par m2)). intros c.
      rewrite (andb_comm (xorb_list (map par m1)) c), <- (xorb_list_and_const c par m1).
      apply xorb_list_map_ext_in. intros x _. apply andb_comm.
  Qed.

  (* graded commutativity: m1 * m2 = (-1)^{|m1||m2|} m2 * m1 ; even monomials commute *)
  Theorem star_comm (a b : mono) :
    (forall x y, In x (snd a) -> In y (snd b) -> canon x <> canon y) ->
    fst (star a b) = xorb (fst (star b a)) (bpar par (snd a) && bpar par (snd b))
    /\ Permutation (snd (star a b)) (snd (star b a)).
  Proof.
    intros H. destruct a as [sa A], b as [sb B]. unfold Graded.star. cbn [fst snd] in *.
    split; [|apply Permutation_app_comm].
    rewrite <- (cross_comm A B H).
    generalize (cross A B) (cross B A). intros p q. destruct sa, sb, p, q; reflexivity.
  Qed.

  Corollary star_comm_even (a b : mono) :
    (forall x y, In x (snd a) -> In y (snd b) -> canon x <> canon y) ->
    bpar par (snd a) = false \/ bpar par (snd b) = false ->
    fst (star a b) = fst (star b a) /\ Permutation (snd (star a b)) (snd (star b a)).
  Proof.
    intros H E. destruct (star_comm a b H) as [S P]. split; [|exact P].
    rewrite S. destruct E as [-> | ->]; now rewrite ?andb_false_r, ?andb_false_l, xorb_false_r.
  Qed.

  (* blocks standing in canonical order / in reversed order *)
  Lemma cross_before u v : (forall x y, In x u -> In y v -> (canon x < canon y)%nat) -> cross u v = false.
  Proof.
    intros H. unfold Graded.cross. apply xorb_list_false. intros x Hx. unfold Graded.cross1.
    apply xorb_list_false. intros y Hy. specialize (H x y Hx Hy).
    replace (Nat.ltb (canon y) (canon x)) with false by (symmetry; apply Nat.ltb_ge; lia). apply andb_false_r.
  Qed.

  Lemma cross_after u v : (forall x y, In x u -> In y v -> (canon y < canon x)%nat) -> cross u v = bpar par u && bpar par v.
  Proof.
    intros H. unfold Graded.cross, Graded.cross1.
    transitivity (xorb_list (map (fun x => par x && bpar par v) u)).
    - apply xorb_list_map_ext_in. intros x Hx. unfold bpar. rewrite <- xorb_list_and_const.
      apply xorb_list_map_ext_in. intros y Hy. specialize (H x y Hx Hy).
      replace (Nat.ltb (canon y) (canon x)) with true by (symmetry; apply Nat.ltb_lt; lia). apply andb_true_r.
    - unfold bpar. generalize (xorb_list (map par v)). intros c.
      rewrite (andb_comm (xorb_list (map par u)) c), <- (xorb_list_and_const c par u).
      apply xorb_list_map_ext_in. intros x _. apply andb_comm.
  Qed.

  Lemma winv_sorted v : StronglySorted (fun x y => (canon x < canon y)%nat) v -> winv v = false.
  Proof.
    induction 1 as [|x t H IH F]; [reflexivity|]. cbn [Graded.winv]. rewrite IH, xorb_false_r.
    unfold Graded.cross1. apply xorb_list_false. intros y Hy. rewrite Forall_forall in F. specialize (F y Hy).
    replace (Nat.ltb (canon y) (canon x)) with false by (symmetry; apply Nat.ltb_ge; lia). apply andb_false_r.
  Qed.

  (* reversing a word whose order is canonical: every odd pair is inverted *)
  Lemma winv_reversed v :
    StronglySorted (fun x y => (canon y < canon x)%nat) v ->
    winv v = Nat.odd (nodd par v * (nodd par v - 1) / 2).
  Proof.
    induction 1 as [|x t H IH F]; [reflexivity|]. cbn [Graded.winv]. rewrite IH.
    assert (C : cross1 x t = par x && bpar par t).
    { unfold Graded.cross1, bpar. rewrite <- xorb_list_and_const. apply xorb_list_map_ext_in. intros y Hy.
      rewrite Forall_forall in F. specialize (F y Hy).
      replace (Nat.ltb (canon y) (canon x)) with true by (symmetry; apply Nat.ltb_lt; lia). apply andb_true_r. }
    rewrite C. unfold nodd. rewrite countb_cons.
    assert (B : bpar par t = Nat.odd (countb par t)).
    { clear. unfold bpar. induction t as [|y t IHt]; [reflexivity|]. cbn [map]. rewrite xorb_list_cons, countb_cons, IHt.
      destruct (par y); cbn [Nat.add]; [|now rewrite xorb_false_l].
      rewrite Nat.odd_succ, <- Nat.negb_odd. now destruct (Nat.odd (countb par t)). }
    rewrite B. destruct (par x); cbn [andb Nat.add]; [|now rewrite xorb_false_l].
    rewrite tri_succ, Nat.odd_add. apply xorb_comm.
  Qed.
End MonoProofs.

(* ---------- K is the inversion parity against the positions in the target ---------- *)
Section KWinv.
  Context {L : Type} (leqb : L -> L -> bool) (leqb_spec : forall x y, leqb x y = true <-> x = y).
  Notation pos := (pos leqb).

  Lemma K_winv_gen par w' pre v :
    NoDup (pre ++ v) -> (forall x, In x v -> In x w') ->
    pairxor (fun x y => par x && par y && disagree leqb (pre ++ v) w' x y) v = winv par (pos w') v.
  Proof.
    revert pre. induction v as [|x t IH]; intros pre ND Hin; [reflexivity|].
    cbn [pairxor Graded.winv]. f_equal.
    - unfold cross1. apply xorb_list_map_ext_in. intros y Hy. f_equal.
      assert (Hxy : x <> y).
      { intros ->. apply NoDup_remove_2 in ND. apply ND, in_or_app. now right. }
      assert (Hx : ~ In x pre).
      { intros H. apply NoDup_remove_2 in ND. apply ND, in_or_app. now left. }
      assert (Hy' : ~ In y pre).
      { intros H. apply in_split in Hy. destruct Hy as [t1 [t2 ->]].
        replace (pre ++ x :: t1 ++ y :: t2) with ((pre ++ x :: t1) ++ y :: t2) in ND by (rewrite <- app_assoc; reflexivity).
        apply NoDup_remove_2 in ND. apply ND, in_or_app. left. apply in_or_app. now left. }
      unfold Graded.disagree.
      rewrite (pos_app_r leqb leqb_spec pre (x :: t) x Hx), (pos_app_r leqb leqb_spec pre (x :: t) y Hy').
      cbn [Graded.pos]. rewrite (leqb_refl leqb leqb_spec x), (leqb_neq leqb leqb_spec y x) by congruence.
      replace (length pre + 0 ?= length pre + S (Graded.pos leqb t y))%nat with Lt by (symmetry; apply Nat.compare_lt_iff; lia).
      assert (Hp : pos w' x <> pos w' y).
      { intros E. apply Hxy. apply (pos_inj leqb leqb_spec w'); [apply Hin; now left | exact E]. }
      destruct (pos w' x ?= pos w' y)%nat eqn:E; cbn [cmp_eqb negb].
      + apply Nat.compare_eq_iff in E. contradiction.
      + apply Nat.compare_lt_iff in E. symmetry. apply Nat.ltb_ge. lia.
      + apply Nat.compare_gt_iff in E. symmetry. apply Nat.ltb_lt. lia.
    - replace (pre ++ x :: t) with ((pre ++ [x]) ++ t) by (rewrite <- app_assoc; reflexivity).
      apply IH; [rewrite <- app_assoc; exact ND | intros y Hy; apply Hin; now right].
  Qed.

  Theorem K_winv par w w' : NoDup w -> Permutation w w' -> K leqb par w w' = winv par (pos w') w.
  Proof.
    intros ND HP. unfold Graded.K. apply (K_winv_gen par w' [] w ND). intros x Hx. apply (Permutation_in _ HP Hx).
  Qed.

  (* positions increase along a duplicate-free word *)
  Lemma SS_impl_in (R R' : L -> L -> Prop) (t : list L) :
    (forall x y, In x t -> In y t -> R x y -> R' x y) -> StronglySorted R t -> StronglySorted R' t.
  Proof.
    intros H S. induction S as [|a t' Ha IHt F]; [constructor|]. constructor.
    - apply IHt. intros x y Hx Hy. apply H; now right.
    - rewrite Forall_forall in *. intros b Hb. apply H; [now left | now right | now apply F].
  Qed.

  Lemma pos_sorted w : NoDup w -> StronglySorted (fun x y => (pos w x < pos w y)%nat) w.
  Proof.
    induction 1 as [|z t Hz ND IH]; [constructor|]. constructor.
    - apply (SS_impl_in (fun x y => (pos t x < pos t y)%nat)); [|exact IH].
      intros x y Hx Hy Hlt. cbn [Graded.pos].
      rewrite (leqb_neq leqb leqb_spec x z) by (intros ->; contradiction).
      rewrite (leqb_neq leqb leqb_spec y z) by (intros ->; contradiction). lia.
    - apply Forall_forall. intros y Hy. cbn [Graded.pos]. rewrite (leqb_refl leqb leqb_spec).
      rewrite (leqb_neq leqb leqb_spec y z) by (intros ->; contradiction). lia.
  Qed.
End KWinv.

(* ---------- sorted lists (generic) ---------- *)
Lemma SS_app {A} (R : A -> A -> Prop) l1 l2 :
  StronglySorted R l1 -> StronglySorted R l2 -> (forall x y, In x l1 -> In y l2 -> R x y) ->
  StronglySorted R (l1 ++ l2).
Proof.
  induction 1 as [|x l1 H1 IH F1]; intros H2 H; cbn [app]; [exact H2|].
  constructor.
  - apply IH; [exact H2 | intros u v Hu Hv; apply H; [now right | exact Hv]].
  - apply Forall_app. split; [exact F1|]. apply Forall_forall. intros y Hy. apply H; [now left | exact Hy].
Qed.

Lemma SS_rev {A} (R : A -> A -> Prop) l : StronglySorted R l -> StronglySorted (fun x y => R y x) (rev l).
Proof.
  induction 1 as [|x l H IH F]; cbn [rev]; [constructor|].
  apply SS_app; [exact IH | repeat constructor |].
  intros u v Hu [<-|[]]. apply in_rev in Hu. rewrite Forall_forall in F. now apply F.
Qed.


Lemma SS_app_inv {A} (R : A -> A -> Prop) l1 l2 :
  StronglySorted R (l1 ++ l2) ->
  StronglySorted R l1 /\ StronglySorted R l2 /\ (forall x y, In x l1 -> In y l2 -> R x y).
Proof.
  induction l1 as [|a l1 IH]; cbn [app]; intros H.
  - split; [constructor|]. split; [exact H|]. intros x y [].
  - inversion H as [|? ? H' F]; subst. destruct (IH H') as [I1 [I2 I3]].
    rewrite Forall_forall in F. split; [|split; [exact I2|]].
    + constructor; [exact I1|]. apply Forall_forall. intros y Hy. apply F, in_or_app. now left.
    + intros x y [<-|Hx] Hy; [apply F, in_or_app; now right | now apply I3].
Qed.

(* ---------- block lemmas ---------- *)
Section Blocks.
  Context {L : Type} (leqb : L -> L -> bool) (leqb_spec : forall x y, leqb x y = true <-> x = y).
  Notation pos := (pos leqb).

  (* moving a contiguous block past another costs parity b1 && parity b2 *)
  Theorem K_block_swap par (p b1 b2 s : list L) :
    NoDup (p ++ b1 ++ b2 ++ s) ->
    K leqb par (p ++ b1 ++ b2 ++ s) (p ++ b2 ++ b1 ++ s) = bpar par b1 && bpar par b2.
  Proof.
    intros ND.
    assert (HP : Permutation (p ++ b1 ++ b2 ++ s) (p ++ b2 ++ b1 ++ s)).
    { apply Permutation_app_head. rewrite !app_assoc. apply Permutation_app_tail, Permutation_app_comm. }
    rewrite (K_winv leqb leqb_spec par _ _ ND HP).
    pose proof (pos_sorted leqb leqb_spec _ (Permutation_NoDup HP ND)) as S.
    set (c := pos (p ++ b2 ++ b1 ++ s)) in *.
    apply SS_app_inv in S. destruct S as [Sp [S1 Lp]].
    apply SS_app_inv in S1. destruct S1 as [Sb2 [S2 L2]].
    apply SS_app_inv in S2. destruct S2 as [Sb1 [Ss L1]].
    rewrite (winv_app par c p), (winv_app par c b1), (winv_app par c b2).
    rewrite (winv_sorted par c p Sp), (winv_sorted par c b1 Sb1), (winv_sorted par c b2 Sb2), (winv_sorted par c s Ss).
    rewrite (cross_before par c p (b1 ++ b2 ++ s)).
    2:{ intros x y Hx Hy. apply Lp; [exact Hx|].
        apply in_app_or in Hy. destruct Hy as [Hy|Hy]; [apply in_or_app; right; apply in_or_app; now left|].
        apply in_app_or in Hy. destruct Hy as [Hy|Hy]; [apply in_or_app; now left | apply in_or_app; right; apply in_or_app; now right]. }
    rewrite (cross_app_r par c b1 b2 s).
    rewrite (cross_after par c b1 b2) by (intros x y Hx Hy; apply L2; [exact Hy | apply in_or_app; now left]).
    rewrite (cross_before par c b1 s) by (intros x y Hx Hy; now apply L1).
    rewrite (cross_before par c b2 s) by (intros x y Hx Hy; apply L2; [exact Hx | apply in_or_app; now right]).
    now destruct (bpar par b1 && bpar par b2).
  Qed.

  (* reversing a word costs k(k-1)/2 mod 2, k = number of odd legs *)
  Theorem K_reverse par (w : list L) :
    NoDup w -> K leqb par w (rev w) = Nat.odd (nodd par w * (nodd par w - 1) / 2).
  Proof.
    intros ND. rewrite (K_winv leqb leqb_spec par _ _ ND (Permutation_rev w)).
    apply winv_reversed.
    pose proof (pos_sorted leqb leqb_spec (rev w) (Permutation_NoDup (Permutation_rev w) ND)) as S.
    apply SS_rev in S. rewrite rev_involutive in S. exact S.
  Qed.

  (* an adjacent transposition of two legs costs a sign iff both are odd *)
  Corollary K_adjacent_swap par (p : list L) x y (s : list L) :
    NoDup (p ++ x :: y :: s) -> K leqb par (p ++ x :: y :: s) (p ++ y :: x :: s) = par x && par y.
  Proof.
    intros ND. pose proof (K_block_swap par p [x] [y] s ND) as H. cbn [app] in H. rewrite H.
    unfold bpar. cbn. now rewrite !xorb_false_r.
  Qed.
End Blocks.

(* the inversion parity of part 1 is the Koszul sign between the permuted
   arrangement and the identity arrangement 0..n-1 *)
Lemma cross1_count par (c : Z -> nat) x t :
  oddZ par x = true -> 0 <= x -> c x = Z.to_nat x ->
  (forall y, In y t -> 0 <= y /\ c y = Z.to_nat y) ->
  cross1 (oddZ par) c x t = Nat.odd (countb (fun y => Z.ltb y x && oddZ par y) t).
Proof.
  intros Ex Hx Cx H. unfold cross1. induction t as [|y t IH]; [reflexivity|].
  cbn [map]. rewrite xorb_list_cons, countb_cons, Nat.odd_add, IH by (intros z Hz; apply H; now right).
  f_equal. destruct (H y (or_introl eq_refl)) as [Hy Cy]. rewrite Ex, Cx, Cy. cbn [andb].
  assert (E : Nat.ltb (Z.to_nat y) (Z.to_nat x) = Z.ltb y x).
  { destruct (Z.ltb_spec y x); [apply Nat.ltb_lt | apply Nat.ltb_ge]; lia. }
  rewrite E. destruct (y <? x), (oddZ par y); reflexivity.
Qed.

Theorem inv_parity_is_K par perm n :
  Permutation perm (zrange n) ->
  inv_parity par perm = K Z.eqb (oddZ par) perm (zrange n).
Proof.
  intros HP.
  assert (ND : NoDup perm) by (apply (Permutation_NoDup (Permutation_sym HP)), zrange_NoDup).
  rewrite (K_winv Z.eqb Z.eqb_eq (oddZ par) perm (zrange n) ND HP).
  assert (Hpos : forall x, In x perm -> 0 <= x /\ pos Z.eqb (zrange n) x = Z.to_nat x).
  { intros x Hx. apply (Permutation_in _ HP), in_zrange in Hx. split; [lia|].
    rewrite (zrange_split x n) by lia. rewrite (pos_app_r Z.eqb Z.eqb_eq).
    - unfold zrange at 1. rewrite map_length, seq_length.
      destruct (Z.to_nat n - Z.to_nat x)%nat eqn:E; [lia|]. cbn [seq map Graded.pos].
      rewrite Z2Nat.id by lia. rewrite Z.eqb_refl. lia.
    - rewrite in_zrange. lia. }
  unfold inv_parity. clear ND HP.
  induction perm as [|x t IH]; [reflexivity|]. cbn [inv_count winv].
  rewrite Nat.odd_add, IH by (intros y Hy; apply Hpos; now right). f_equal.
  destruct (Hpos x (or_introl eq_refl)) as [Hx Cx].
  destruct (oddZ par x) eqn:Ex.
  - symmetry. apply cross1_count; try assumption. intros y Hy. apply Hpos. now right.
  - unfold cross1. rewrite Ex. symmetry. apply xorb_list_false. reflexivity.
Qed.
