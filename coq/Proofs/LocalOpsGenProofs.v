(* Proofs/LocalOpsGenProofs.v — property C18, facts about the data REGENERATED
   from the five builders of symmray/fermionic_local_operators.py
   (Gen/LocalOpsData.v): term lists, documented bases, charge maps. *)
From SV Require Import Base.Prelude Model.LocalOps Gen.LocalOpsData Proofs.LocalOpsProofs.
Open Scope Z_scope.

(* strings with the same phased-sort normal form (same sign, same sorted string) are the same operator *)
Lemma canon_equiv (a b : list op) (fuel : nat) (sg : bool) (r : list op) :
  phased_sort fuel a = Some (sg, r) -> phased_sort fuel b = Some (sg, r) -> op_equiv a b.
Proof.
  intros Ha Hb s. rewrite (phased_sort_action fuel a r sg s Ha), (phased_sort_action fuel b r sg s Hb). reflexivity.
Qed.

Ltac check_witness :=
  split; [reflexivity | split; [reflexivity | eapply (canon_equiv _ _ 60%nat); vm_compute; reflexivity]].

(* backtracking choice of a list position; fails when the list is exhausted *)
Ltac in_choice := (left; reflexivity) + (right; in_choice).

Ltac pick_witness := eexists; (split; [in_choice | idtac]); check_witness.

Ltac hermitian_by_cases :=
  let x := fresh "x" in let Hin := fresh "Hin" in
  intros x Hin; cbn [In] in Hin;
  repeat (destruct Hin as [Hin|Hin]; [subst x; pick_witness |]);
  contradiction.

(* Each term's dagger-reverse is in the list with the same (real) coefficient,
   for every value of the parameters. *)
Lemma hubbard_terms_hermitian : forall t V Ua Ub mua mub c0 c1 : Z,
  hermitian_terms (fermi_hubbard_terms t V Ua Ub mua mub c0 c1).
Proof. intros. unfold hermitian_terms, fermi_hubbard_terms. hermitian_by_cases. Qed.

Lemma hubbard_spinless_terms_hermitian : forall t V Ua Ub mua mub c0 c1 : Z,
  hermitian_terms (fermi_hubbard_spinless_terms t V Ua Ub mua mub c0 c1).
Proof. intros. unfold hermitian_terms, fermi_hubbard_spinless_terms. hermitian_by_cases. Qed.

Lemma number_spin_terms_hermitian : forall t V Ua Ub mua mub c0 c1 : Z,
  hermitian_terms (fermi_number_operator_spinless_terms t V Ua Ub mua mub c0 c1) /\
  hermitian_terms (fermi_number_operator_spinful_terms t V Ua Ub mua mub c0 c1) /\
  hermitian_terms (fermi_spin_operator_terms t V Ua Ub mua mub c0 c1).
Proof.
  intros. repeat split.
  - unfold hermitian_terms, fermi_number_operator_spinless_terms. hermitian_by_cases.
  - unfold hermitian_terms, fermi_number_operator_spinful_terms. hermitian_by_cases.
  - unfold hermitian_terms, fermi_spin_operator_terms. hermitian_by_cases.
Qed.

(* the hypothesis of the Hermiticity lemmas is not vacuous: the hopping term and its conjugate *)
Example hubbard_hc_pair :
  In (-(1), 1, [mkop 1 true; mkop 3 false]) (fermi_hubbard_terms 1 0 8 8 0 0 1 1) /\
  dagger_qterm (-(1), 1, [mkop 1 true; mkop 3 false]) = (-(1), 1, [mkop 3 true; mkop 1 false]) /\
  op_equiv (dagger_state [mkop 1 true; mkop 1 false; mkop 0 true; mkop 0 false])
           [mkop 1 true; mkop 1 false; mkop 0 true; mkop 0 false].
Proof.
  split; [left; reflexivity | split; [reflexivity|]].
  eapply (canon_equiv _ _ 60%nat); vm_compute; reflexivity.
Qed.

(* Charge maps are parity-correct: for every builder, every symmetry it supports and
   every site, parity(charge assigned to a basis state) = number of operators in it mod 2.
   (Finite: the property names exactly these maps.) *)
Definition maps_parity_okb (mb : list (Z * list (list Z)) * list site_basis) : bool :=
  forallb (fun sm : Z * list (list Z) => forallb (parity_okb (snd sm)) (snd mb)) (fst mb).

Lemma charge_maps_parity_correct : forallb maps_parity_okb all_builder_maps = true.
Proof. vm_compute. reflexivity. Qed.

Lemma charge_maps_parity_correct_each :
  forall mb, In mb all_builder_maps ->
  forall sm, In sm (fst mb) -> forall basis, In basis (snd mb) -> parity_okb (snd sm) basis = true.
Proof.
  intros mb Hmb sm Hsm basis Hb.
  pose proof charge_maps_parity_correct as H. rewrite forallb_forall in H.
  specialize (H mb Hmb). unfold maps_parity_okb in H. rewrite forallb_forall in H.
  specialize (H sm Hsm). rewrite forallb_forall in H. exact (H basis Hb).
Qed.

(* every builder supports at least one symmetry and has one map per site (so the above is not vacuous) *)
Example maps_nonempty : forallb (fun mb : list (Z * list (list Z)) * list site_basis =>
                                  negb (is_nil (fst mb)) && negb (is_nil (snd mb))) all_builder_maps = true.
Proof. reflexivity. Qed.

(* the documented bases are complete occupation bases containing the terms' modes *)
Lemma documented_bases_complete :
  complete_bases fermi_hubbard_bases = true /\ complete_bases fermi_hubbard_spinless_bases = true /\
  complete_bases fermi_number_operator_spinless_bases = true /\
  complete_bases fermi_number_operator_spinful_bases = true /\ complete_bases fermi_spin_operator_bases = true.
Proof. repeat split; vm_compute; reflexivity. Qed.
