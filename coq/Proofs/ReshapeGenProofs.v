(* Proofs/ReshapeGenProofs.v — the function GENERATED from the source of
   symmray/abelian_core.py::calc_reshape_args (Gen/ReshapeGen.v, tr/gen_reshape.py)
   equals the hand model Model/ReshapeArgs.v, for ALL inputs (property C07,
   translator tie; statements in Props/C07e.v).

   The two differ in representation: the generated function keeps Python's
   positions i, j as integers and indexes `shape[i]` (the model carries the
   suffixes shape[i:], newshape[j:]), its dicts are association lists keyed by
   labels (the model keeps the lists of values), positions are Z (model: nat),
   it has one fuel for all loops.  [lab_of], [plan_Z], [res_conv], [udict],
   [gdict] translate the model's values.

   Structure: one lemma per loop of the source, each by induction on the fuel
     gen_while_2 (inner `while di < dj`)          = fuse_scan        while2_spec
     gen_while_1 (the matching loop)              = match_raw        while1_spec
     the two trailing `for` loops                 = finish_match     g_for_trail_s/_e
     `for label, s in unfuse_sizes.items()`       = unfuse_rewrite   unfuse_for_spec
     gen_while_3 / the marking `for` / gen_while_5 / gen_while_4
                                                  = squeeze_phase    squeeze_gen_spec
     gen_while_6 (fuse groupings)                 = fuse_loop        while6_spec
   composed in [gen_eq_model_fuel]; the invariants needed on the way (every
   "g<n>" label in `term` has its entry in fuse_sizes — otherwise Python raises a
   KeyError the model does not know —, lengths of `term` for the fuel) are proved
   of the model; [model_no_oof] shows that the model's internal fuel always
   suffices, which gives the unconditional [gen_eq_model]. *)
From SV Require Import Base.Prelude Base.PyList Model.ReshapeArgs Gen.ReshapeGen Proofs.ReshapeArgsProofs.
Local Open Scope nat_scope.

(* ------------------------------------------------------------------ translation of results *)
Definition lab_of (l : label) : glabel :=
  match l with
  | Lo => GLo
  | Ls => GLs
  | Lu n => GLu (Z.of_nat n)
  | Lg n => GLg (Z.of_nat n)
  end.

Definition zs (l : list nat) : list Z := map Z.of_nat l.

Definition gplan : Type := (list Z * list (list (list Z)) * list Z)%type.

Definition plan_Z (p : plan) : gplan :=
  let '(u, f, e) := p in (zs u, map (map zs) f, zs e).

Definition res_conv {A B} (f : A -> B) (r : res A) : gres B :=
  match r with
  | Ok a => GOk (f a)
  | ErrValue => GErrValue
  | ErrIndex => GErrIndex
  | ErrUnbound => GErrUnbound
  | OutOfFuel => GOutOfFuel
  end.

(* fuel that covers every loop of the generated routine *)
Definition gen_fuel (shape newshape : list Z) : nat := 2 * (length shape + length newshape) + 3.

(* ------------------------------------------------------------------ run-time library facts *)
Lemma skipn_cons_nth {A} (l : list A) n x r : skipn n l = x :: r -> nth_error l n = Some x.
Proof.
  revert l. induction n as [|n IH]; intros [|y l] H; cbn [skipn] in H; try discriminate.
  - injection H as -> _. reflexivity.
  - cbn [nth_error]. apply IH. exact H.
Qed.

Lemma skipn_cons_S {A} (l : list A) n x r : skipn n l = x :: r -> skipn (S n) l = r.
Proof.
  revert l. induction n as [|n IH]; intros [|y l] H; cbn [skipn] in H; try discriminate.
  - injection H as _ ->. reflexivity.
  - change (skipn (S (S n)) (y :: l)) with (skipn (S n) l). apply IH. exact H.
Qed.

Lemma skipn_cons_lt {A} (l : list A) n x r : skipn n l = x :: r -> n < length l.
Proof.
  intros H. destruct (Nat.lt_ge_cases n (length l)) as [Hlt|Hge]; [exact Hlt|].
  rewrite (skipn_all2 l Hge) in H. discriminate.
Qed.

Lemma skipn_nil_ge {A} (l : list A) n : skipn n l = [] -> length l <= n.
Proof.
  intros H. pose proof (skipn_length n l) as E. rewrite H in E. cbn [length] in E. lia.
Qed.

Lemma skipn_nil_nth {A} (l : list A) n : skipn n l = [] -> nth_error l n = None.
Proof. intros H. apply nth_error_None. apply skipn_nil_ge. exact H. Qed.

Lemma g_pos_nat len n : g_pos (Z.of_nat len) (Z.of_nat n) = if n <? len then Some n else None.
Proof.
  unfold g_pos. cbv zeta.
  assert ((Z.of_nat n <? 0)%Z = false) as E by (apply Z.ltb_ge; lia).
  rewrite E. cbv iota. rewrite E. cbn [orb].
  destruct (Nat.ltb_spec n len) as [Hlt|Hge].
  - assert ((Z.of_nat len <=? Z.of_nat n)%Z = false) as -> by (apply Z.leb_gt; lia).
    rewrite Nat2Z.id. reflexivity.
  - assert ((Z.of_nat len <=? Z.of_nat n)%Z = true) as -> by (apply Z.leb_le; lia).
    reflexivity.
Qed.

Lemma g_get_nat {A} (l : list A) (n : nat) :
  g_get l (Z.of_nat n) = match nth_error l n with Some x => GOk x | None => GErrIndex end.
Proof.
  unfold g_get. rewrite g_pos_nat.
  destruct (Nat.ltb_spec n (length l)) as [Hlt|Hge]; [reflexivity|].
  assert (nth_error l n = None) as -> by (apply nth_error_None; lia). reflexivity.
Qed.

Lemma g_set_nth_eq {A} n (x : A) l : g_set_nth n x l = set_nth n x l.
Proof.
  revert n. induction l as [|y l IH]; intros [|n]; cbn [g_set_nth set_nth]; try reflexivity;
    try (rewrite IH; reflexivity).
Qed.

Lemma g_set_nat {A} (l : list A) (n : nat) x :
  g_set l (Z.of_nat n) x = if n <? length l then GOk (set_nth n x l) else GErrIndex.
Proof.
  unfold g_set. rewrite g_pos_nat.
  destruct (Nat.ltb_spec n (length l)) as [Hlt|Hge]; [|reflexivity].
  rewrite g_set_nth_eq. reflexivity.
Qed.

Lemma py_slice_to {A} (l : list A) n : py_slice l None (Some (Z.of_nat n)) = firstn n l.
Proof.
  unfold py_slice, py_clamp.
  replace (Z.of_nat n <? 0)%Z with false by (symmetry; apply Z.ltb_ge; lia).
  cbn [skipn Z.to_nat]. rewrite Z.sub_0_r.
  destruct (Nat.le_ge_cases n (length l)) as [H|H].
  - rewrite Z.min_l by lia. rewrite Nat2Z.id. reflexivity.
  - rewrite Z.min_r by lia. rewrite Nat2Z.id. rewrite firstn_all. symmetry. apply firstn_all2. exact H.
Qed.

Lemma py_slice_from {A} (l : list A) n : py_slice l (Some (Z.of_nat n)) None = skipn n l.
Proof.
  unfold py_slice, py_clamp.
  replace (Z.of_nat n <? 0)%Z with false by (symmetry; apply Z.ltb_ge; lia).
  destruct (Nat.le_ge_cases n (length l)) as [H|H].
  - rewrite Z.min_l by lia. rewrite Nat2Z.id.
    apply firstn_all2. rewrite skipn_length. lia.
  - rewrite Z.min_r by lia. rewrite Nat2Z.id. rewrite Z.sub_diag. cbn [Z.to_nat firstn].
    symmetry. apply skipn_all2. exact H.
Qed.

Lemma py_slice_mid {A} (l : list A) a b :
  a <= length l ->
  py_slice l (Some (Z.of_nat a)) (Some (Z.of_nat a + Z.of_nat b)%Z) = firstn b (skipn a l).
Proof.
  intros Ha. unfold py_slice, py_clamp.
  replace (Z.of_nat a <? 0)%Z with false by (symmetry; apply Z.ltb_ge; lia).
  replace (Z.of_nat a + Z.of_nat b <? 0)%Z with false by (symmetry; apply Z.ltb_ge; lia).
  rewrite (Z.min_l (Z.of_nat a)) by lia. rewrite Nat2Z.id.
  destruct (Nat.le_ge_cases (a + b) (length l)) as [H|H].
  - rewrite Z.min_l by lia. f_equal. lia.
  - rewrite Z.min_r by lia.
    rewrite firstn_all2 by (rewrite skipn_length; lia).
    symmetry. apply firstn_all2. rewrite skipn_length. lia.
Qed.

Lemma map_repeat' {A B} (f : A -> B) x n : map f (repeat x n) = repeat (f x) n.
Proof. induction n as [|n IH]; cbn [repeat map]; [reflexivity | rewrite IH; reflexivity]. Qed.

Lemma map_set_nth {A B} (f : A -> B) n x l : map f (set_nth n x l) = set_nth n (f x) (map f l).
Proof.
  revert n. induction l as [|y l IH]; intros [|n]; cbn [set_nth map]; try reflexivity.
  rewrite IH. reflexivity.
Qed.

Lemma g_repeat_nat {A} (x : A) n : g_repeat x (Z.of_nat n) = repeat x n.
Proof. unfold g_repeat. rewrite Nat2Z.id. reflexivity. Qed.

Lemma zrange2_nat a b : zrange2 (Z.of_nat a) (Z.of_nat a + Z.of_nat b)%Z = zs (seq a b).
Proof.
  unfold zrange2, zrange, zs.
  replace (Z.of_nat a + Z.of_nat b - Z.of_nat a)%Z with (Z.of_nat b) by lia.
  rewrite Nat2Z.id. rewrite map_map.
  assert (forall c, map (fun x => (Z.of_nat a + Z.of_nat x)%Z) (seq c b) = map Z.of_nat (seq (a + c) b)) as H.
  { induction b as [|b IH]; intros c; cbn [seq map]; [reflexivity|].
    f_equal; [lia|]. rewrite IH. f_equal. f_equal. lia. }
  rewrite H. rewrite Nat.add_0_r. reflexivity.
Qed.

Lemma length_zrange2 a b : length (zrange2 a b) = Z.to_nat (b - a).
Proof. unfold zrange2, zrange. rewrite !map_length, seq_length. reflexivity. Qed.

(* ------------------------------------------------------------------ labels *)
Lemma glabel_eqb_lab_of a b : glabel_eqb (lab_of a) (lab_of b) = label_eqb a b.
Proof.
  destruct a as [| |n|n]; destruct b as [| |m|m]; cbn [lab_of glabel_eqb label_eqb]; try reflexivity.
  - destruct (Nat.eqb_spec n m) as [->|Hne]; [apply Z.eqb_refl | apply Z.eqb_neq; lia].
  - destruct (Nat.eqb_spec n m) as [->|Hne]; [apply Z.eqb_refl | apply Z.eqb_neq; lia].
Qed.

Lemma g_index_lab_of x t :
  g_index glabel_eqb (lab_of x) (map lab_of t) =
  match index_of x t with Some n => GOk (Z.of_nat n) | None => GErrValue end.
Proof.
  unfold g_index.
  assert (g_index_nat glabel_eqb (lab_of x) (map lab_of t) = index_of x t) as ->; [|reflexivity].
  induction t as [|y t IH]; cbn [map g_index_nat index_of]; [reflexivity|].
  rewrite glabel_eqb_lab_of, IH. reflexivity.
Qed.

(* ------------------------------------------------------------------ dicts keyed "u0","u1",.. / "g0","g1",.. *)
Section Dicts.
  Context (mk : Z -> glabel).
  Context (mk_eqb : forall a b, glabel_eqb (mk a) (mk b) = Z.eqb a b).

  Fixpoint ldict_from (n : nat) (l : list nat) : list (glabel * Z) :=
    match l with
    | [] => []
    | s :: l' => (mk (Z.of_nat n), Z.of_nat s) :: ldict_from (S n) l'
    end.

  Lemma ldict_length n l : length (ldict_from n l) = length l.
  Proof. revert n. induction l as [|s l IH]; intros n; cbn [ldict_from length]; [reflexivity | rewrite IH; reflexivity]. Qed.

  Lemma ldict_app n l s :
    ldict_from n (l ++ [s]) = ldict_from n l ++ [(mk (Z.of_nat (n + length l)), Z.of_nat s)].
  Proof.
    revert n. induction l as [|x l IH]; intros n; cbn [ldict_from app length].
    - rewrite Nat.add_0_r. reflexivity.
    - rewrite IH. replace (S n + length l) with (n + S (length l)) by lia. reflexivity.
  Qed.

  Lemma ldict_dset_new n l v :
    dset glabel_eqb (mk (Z.of_nat (n + length l))) v (ldict_from n l)
    = ldict_from n l ++ [(mk (Z.of_nat (n + length l)), v)].
  Proof.
    revert n. induction l as [|x l IH]; intros n; cbn [ldict_from dset app length].
    - reflexivity.
    - rewrite mk_eqb. replace (Z.of_nat (n + S (length l)) =? Z.of_nat n)%Z with false
        by (symmetry; apply Z.eqb_neq; lia).
      replace (n + S (length l)) with (S n + length l) by lia. rewrite IH. reflexivity.
  Qed.

  Lemma ldict_lookup n l m :
    lookup glabel_eqb (mk (Z.of_nat (n + m))) (ldict_from n l) = option_map Z.of_nat (nth_error l m).
  Proof.
    revert n m. induction l as [|x l IH]; intros n m; cbn [ldict_from lookup].
    - destruct m; reflexivity.
    - rewrite mk_eqb. destruct m as [|m].
      + rewrite Nat.add_0_r, Z.eqb_refl. reflexivity.
      + replace (Z.of_nat (n + S m) =? Z.of_nat n)%Z with false by (symmetry; apply Z.eqb_neq; lia).
        replace (n + S m) with (S n + m) by lia. rewrite IH. reflexivity.
  Qed.

  Lemma ldict_lookup_other n l k :
    (forall a, glabel_eqb k (mk a) = false) -> lookup glabel_eqb k (ldict_from n l) = None.
  Proof.
    intros Hk. revert n. induction l as [|x l IH]; intros n; cbn [ldict_from lookup]; [reflexivity|].
    rewrite Hk. apply IH.
  Qed.

  Lemma ldict_dset_add n l m x r :
    nth_error l m = Some x ->
    dset glabel_eqb (mk (Z.of_nat (n + m))) (Z.of_nat x + Z.of_nat r)%Z (ldict_from n l)
    = ldict_from n (add_nth m r l).
  Proof.
    revert n m. induction l as [|y l IH]; intros n m H; [destruct m; discriminate|].
    cbn [ldict_from dset]. rewrite mk_eqb. destruct m as [|m]; cbn [nth_error add_nth] in *.
    - injection H as ->. rewrite Nat.add_0_r, Z.eqb_refl. cbn [ldict_from].
      replace (Z.of_nat (x + r)) with (Z.of_nat x + Z.of_nat r)%Z by lia. reflexivity.
    - replace (Z.of_nat (n + S m) =? Z.of_nat n)%Z with false by (symmetry; apply Z.eqb_neq; lia).
      cbn [ldict_from]. f_equal. replace (n + S m) with (S n + m) by lia. apply IH. exact H.
  Qed.
End Dicts.

Definition udict (l : list nat) : list (glabel * Z) := ldict_from GLu 0 l.
Definition gdict (l : list nat) : list (glabel * Z) := ldict_from GLg 0 l.

Lemma GLu_eqb a b : glabel_eqb (GLu a) (GLu b) = Z.eqb a b. Proof. reflexivity. Qed.
Lemma GLg_eqb a b : glabel_eqb (GLg a) (GLg b) = Z.eqb a b. Proof. reflexivity. Qed.

(* ------------------------------------------------------------------ phase 1: the matching loop *)
(* the model's loop without its final step (the trailing dimensions), which the
   source performs in two separate `for` loops after the `while` *)
Fixpoint match_raw (fuel : nat) (sh : list Z) (subs : list (option (list Z))) (nw : list Z)
         (st : mstate) : res (list Z * list Z * mstate) :=
  match fuel with
  | O => OutOfFuel
  | S fuel' =>
    match sh, nw with
    | di :: sh', dj :: nw' =>
      match subs with
      | [] => ErrIndex
      | sub :: subs' =>
        match (match sub with
               | Some ss => if prefix_eqb ss nw then Some (length ss) else None
               | None => None
               end) with
        | Some s =>
          match_raw fuel' sh' subs' (skipn s nw)
            (MState (m_k st + s) (m_term st ++ [Lu (length (m_unf st))]) (m_unf st ++ [s])
                    (m_fus st) (m_exp st) (m_sing st) (m_fused st))
        | None =>
          if (di =? dj)%Z then
            match_raw fuel' sh' subs' nw'
              (MState (S (m_k st)) (m_term st ++ [Lo]) (m_unf st) (m_fus st) (m_exp st)
                      (m_sing st) (m_fused st))
          else if (di =? 1)%Z then
            match_raw fuel' sh' subs' nw
              (MState (m_k st) (m_term st ++ [Ls]) (m_unf st) (m_fus st) (m_exp st)
                      true (m_fused st))
          else if (dj =? 1)%Z then
            match_raw fuel' sh subs nw'
              (MState (m_k st) (m_term st) (m_unf st) (m_fus st) (m_exp st ++ [m_k st])
                      (m_sing st) (m_fused st))
          else if (di <? dj)%Z then
            match fuse_scan dj di sh' 1 with
            | Ok (sh2, s) =>
              match_raw fuel' sh2 (skipn s subs) nw'
                (MState (S (m_k st)) (m_term st ++ repeat (Lg (length (m_fus st))) s) (m_unf st)
                        (m_fus st ++ [s]) (m_exp st) (m_sing st) true)
            | ErrValue => ErrValue
            | ErrIndex => ErrIndex
            | ErrUnbound => ErrUnbound
            | OutOfFuel => OutOfFuel
            end
          else ErrValue
        end
      end
    | _, _ => Ok (sh, nw, st)
    end
  end.

Definition finish_match (r : list Z * list Z * mstate) : mstate :=
  let '(sh, nw, st) := r in
  MState (m_k st) (m_term st ++ repeat Ls (length sh)) (m_unf st) (m_fus st)
         (m_exp st ++ repeat (m_k st) (length nw))
         (m_sing st || negb (is_nil sh)) (m_fused st).

Lemma match_loop_raw fuel : forall sh subs nw st,
  match_loop fuel sh subs nw st = bind (match_raw fuel sh subs nw st) (fun r => Ok (finish_match r)).
Proof.
  induction fuel as [|fuel IH]; intros sh subs nw st; [reflexivity|].
  cbn [match_loop match_raw].
  destruct sh as [|di sh']; [reflexivity|].
  destruct nw as [|dj nw']; [reflexivity|].
  destruct subs as [|sub subs']; [reflexivity|].
  destruct (match sub with
            | Some ss => if prefix_eqb ss (dj :: nw') then Some (length ss) else None
            | None => None
            end) as [s|].
  - apply IH.
  - destruct (di =? dj)%Z; [apply IH|].
    destruct (di =? 1)%Z; [apply IH|].
    destruct (dj =? 1)%Z; [apply IH|].
    destruct (di <? dj)%Z; [|reflexivity].
    destruct (fuse_scan dj di sh' 1) as [[sh2 s]| | | |]; try reflexivity.
    apply IH.
Qed.

Lemma prefix_eqb_firstn ss nw : list_eqb Z.eqb ss (firstn (length ss) nw) = prefix_eqb ss nw.
Proof.
  revert nw. induction ss as [|s ss IH]; intros [|d nw]; cbn [length firstn list_eqb prefix_eqb]; try reflexivity.
  rewrite IH. reflexivity.
Qed.

Lemma prefix_eqb_length ss nw : prefix_eqb ss nw = true -> length ss <= length nw.
Proof.
  revert nw. induction ss as [|s ss IH]; intros [|d nw] H; cbn [prefix_eqb length] in *; try lia; try discriminate.
  apply andb_true_iff in H. destruct H as [_ H]. apply IH in H. lia.
Qed.

(* the redundant re-check `for ds in subsizes[i]: dj = newshape[j]; if ds != dj: raise ..`
   after the slice comparison succeeded: never raises, advances s, j, k by len(subsizes[i]) *)
Lemma g_for_unfuse_check (newshape : list Z) body :
  (forall ds s j k, body ds (s, j, k) =
     gbind (g_get newshape j) (fun x =>
     gbind (if negb (Z.eqb ds x) then GErrValue else GOk tt) (fun _ =>
     GOk ((s + 1)%Z, (j + 1)%Z, (k + 1)%Z)))) ->
  forall ss s nj k, prefix_eqb ss (skipn nj newshape) = true ->
  g_for ss (Z.of_nat s, Z.of_nat nj, Z.of_nat k) body
  = GOk (Z.of_nat (s + length ss), Z.of_nat (nj + length ss), Z.of_nat (k + length ss)).
Proof.
  intros Hb ss. induction ss as [|a ss IH]; intros s nj k H; cbn [g_for length].
  - rewrite !Nat.add_0_r. reflexivity.
  - cbn [prefix_eqb] in H. destruct (skipn nj newshape) as [|d r] eqn:E; [discriminate|].
    apply andb_true_iff in H. destruct H as [H1 H2].
    rewrite Hb, g_get_nat, (skipn_cons_nth _ _ _ _ E). cbn [gbind].
    rewrite H1. cbn [negb gbind].
    replace (Z.of_nat s + 1)%Z with (Z.of_nat (S s)) by lia.
    replace (Z.of_nat nj + 1)%Z with (Z.of_nat (S nj)) by lia.
    replace (Z.of_nat k + 1)%Z with (Z.of_nat (S k)) by lia.
    rewrite IH by (rewrite (skipn_cons_S _ _ _ _ E); exact H2).
    rewrite !Nat.add_succ_r. reflexivity.
Qed.

(* the inner `while di < dj` of the fuse branch against fuse_scan *)
Lemma while2_spec (shape : list Z) (dj : Z) (lab : glabel) fuel0 :
  forall sh fuel di term ni s,
  length sh < fuel -> skipn ni shape = sh ->
  match fuse_scan dj di sh s with
  | Ok (sh2, s2) => exists m, s2 = s + m /\ sh2 = skipn m sh /\ m <= length sh /\
      gen_while_2 fuel0 fuel shape dj lab di term (Z.of_nat ni) (Z.of_nat s)
      = GOk (dj, term ++ repeat lab m, Z.of_nat (ni + m), Z.of_nat (s + m))
  | ErrValue => exists di' t' i' s',
      gen_while_2 fuel0 fuel shape dj lab di term (Z.of_nat ni) (Z.of_nat s) = GOk (di', t', i', s')
      /\ (di' =? dj)%Z = false
  | ErrIndex => gen_while_2 fuel0 fuel shape dj lab di term (Z.of_nat ni) (Z.of_nat s) = GErrIndex
  | _ => False
  end.
Proof.
  intros sh. induction sh as [|d sh IH]; intros fuel di term ni s Hf Hsk;
    (destruct fuel as [|fuel]; [cbn [length] in Hf; lia|]); cbn [fuse_scan gen_while_2].
  - destruct (di <? dj)%Z.
    + rewrite g_get_nat, (skipn_nil_nth _ _ Hsk). reflexivity.
    + destruct (di =? dj)%Z eqn:E.
      * exists 0. rewrite !Nat.add_0_r, app_nil_r. apply Z.eqb_eq in E. subst di.
        repeat split; reflexivity || lia.
      * exists di, term, (Z.of_nat ni), (Z.of_nat s). split; [reflexivity | exact E].
  - destruct (di <? dj)%Z.
    + rewrite g_get_nat, (skipn_cons_nth _ _ _ _ Hsk). cbn [gbind].
      replace (Z.of_nat ni + 1)%Z with (Z.of_nat (S ni)) by lia.
      replace (Z.of_nat s + 1)%Z with (Z.of_nat (S s)) by lia.
      cbn [length] in Hf.
      specialize (IH fuel (di * d)%Z (term ++ [lab]) (S ni) (S s) ltac:(lia) (skipn_cons_S _ _ _ _ Hsk)).
      destruct (fuse_scan dj (di * d) sh (S s)) as [[sh2 s2]| | | |]; try exact IH.
      destruct IH as [m [E1 [E2 [E3 E4]]]]. exists (S m).
      repeat split; try lia.
      * exact E2.
      * cbn [length]. lia.
      * rewrite E4. rewrite <- app_assoc. cbn [app repeat].
        rewrite !Nat.add_succ_r. reflexivity.
    + destruct (di =? dj)%Z eqn:E.
      * exists 0. rewrite !Nat.add_0_r, app_nil_r. apply Z.eqb_eq in E. subst di.
        repeat split; reflexivity || lia.
      * exists di, term, (Z.of_nat ni), (Z.of_nat s). split; [reflexivity | exact E].
Qed.

Lemma g_for_unfuse_check0 (newshape : list Z) body :
  (forall ds s j k, body ds (s, j, k) =
     gbind (g_get newshape j) (fun x =>
     gbind (if negb (Z.eqb ds x) then GErrValue else GOk tt) (fun _ =>
     GOk ((s + 1)%Z, (j + 1)%Z, (k + 1)%Z)))) ->
  forall ss nj k, prefix_eqb ss (skipn nj newshape) = true ->
  g_for ss (0%Z, Z.of_nat nj, Z.of_nat k) body
  = GOk (Z.of_nat (length ss), Z.of_nat (nj + length ss), Z.of_nat (k + length ss)).
Proof. intros Hb ss nj k H. exact (g_for_unfuse_check newshape body Hb ss 0 nj k H). Qed.

Lemma while2_spec' (shape : list Z) (dj : Z) (lab : glabel) fuel0 :
  forall sh fuel di term ni s i sz,
  length sh < fuel -> skipn ni shape = sh -> i = Z.of_nat ni -> sz = Z.of_nat s ->
  match fuse_scan dj di sh s with
  | Ok (sh2, s2) => exists m, s2 = s + m /\ sh2 = skipn m sh /\ m <= length sh /\
      gen_while_2 fuel0 fuel shape dj lab di term i sz
      = GOk (dj, term ++ repeat lab m, Z.of_nat (ni + m), Z.of_nat (s + m))
  | ErrValue => exists di' t' i' s',
      gen_while_2 fuel0 fuel shape dj lab di term i sz = GOk (di', t', i', s')
      /\ (di' =? dj)%Z = false
  | ErrIndex => gen_while_2 fuel0 fuel shape dj lab di term i sz = GErrIndex
  | _ => False
  end.
Proof. intros sh fuel di term ni s i sz H1 H2 -> ->. apply while2_spec; assumption. Qed.

Lemma length_udict l : length (udict l) = length l.
Proof. apply ldict_length. Qed.
Lemma length_gdict l : length (gdict l) = length l.
Proof. apply ldict_length. Qed.

Lemma udict_snoc l v :
  dset glabel_eqb (GLu (Z.of_nat (length (udict l)))) (Z.of_nat v) (udict l) = udict (l ++ [v]).
Proof.
  unfold udict. rewrite ldict_length, ldict_app.
  exact (ldict_dset_new GLu GLu_eqb 0 l (Z.of_nat v)).
Qed.

Lemma gdict_snoc l v :
  dset glabel_eqb (GLg (Z.of_nat (length (gdict l)))) (Z.of_nat v) (gdict l) = gdict (l ++ [v]).
Proof.
  unfold gdict. rewrite ldict_length, ldict_app.
  exact (ldict_dset_new GLg GLg_eqb 0 l (Z.of_nat v)).
Qed.

Definition g1state : Type :=
  (Z * Z * list (glabel * Z) * list glabel * Z * list Z * bool * list Z * list (glabel * Z) * bool)%type.
Definition g1view : Type :=
  (Z * Z * list (glabel * Z) * list glabel * Z * bool * list Z * list (glabel * Z) * bool)%type.
(* axs_squeeze is written but never read by the source: the model does not carry it *)
Definition drop_sq (x : g1state) : g1view :=
  let '(j, k, u, t, i, sq, sg, e, f, fd) := x in (j, k, u, t, i, sg, e, f, fd).
Definition gmap {A B} (f : A -> B) (r : gres A) : gres B := gbind r (fun a => GOk (f a)).

Definition conv_raw (shape newshape : list Z) (r : list Z * list Z * mstate) : g1view :=
  let '(sh, nw, st) := r in
  (Z.of_nat (length newshape - length nw), Z.of_nat (m_k st), udict (m_unf st), map lab_of (m_term st),
   Z.of_nat (length shape - length sh), m_sing st, zs (m_exp st), gdict (m_fus st), m_fused st).

Lemma g1view_eq (j k : Z) (u : list (glabel * Z)) (t : list glabel) (i : Z) (sg : bool) (e : list Z)
      (f : list (glabel * Z)) (fd : bool) j' k' u' t' i' sg' e' f' fd' :
  j = j' -> k = k' -> u = u' -> t = t' -> i = i' -> sg = sg' -> e = e' -> f = f' -> fd = fd' ->
  @GOk g1view (j, k, u, t, i, sg, e, f, fd) = GOk (j', k', u', t', i', sg', e', f', fd').
Proof. intros; subst; reflexivity. Qed.

Lemma skipn_add {A} n m (l : list A) : skipn n (skipn m l) = skipn (m + n) l.
Proof.
  revert l. induction m as [|m IH]; intros l; [reflexivity|].
  destruct l as [|x l]; cbn [skipn Nat.add]; [destruct n; reflexivity | apply IH].
Qed.

Ltac w1_side :=
  cbn [m_k m_term m_unf m_fus m_exp m_sing m_fused];
  first
    [ assumption
    | reflexivity
    | lia
    | eapply skipn_cons_S; eassumption
    | apply udict_snoc
    | apply gdict_snoc
    | (rewrite map_app; cbn [map lab_of]; rewrite ?length_udict, ?length_gdict; reflexivity)
    | (unfold zs; rewrite map_app; reflexivity)
    | idtac ].

Lemma while1_spec (shape newshape : list Z) (subsizes : list (option (list Z))) fuel0 :
  length shape < fuel0 ->
  forall fuel fuelg sh subs nw st ni nj j k u t i sq sg e f fd,
  fuel <= fuelg ->
  skipn ni shape = sh -> skipn ni subsizes = subs -> skipn nj newshape = nw ->
  ni <= length shape -> nj <= length newshape ->
  j = Z.of_nat nj -> k = Z.of_nat (m_k st) -> u = udict (m_unf st) -> t = map lab_of (m_term st) ->
  i = Z.of_nat ni -> sg = m_sing st -> e = zs (m_exp st) -> f = gdict (m_fus st) -> fd = m_fused st ->
  match_raw fuel sh subs nw st <> OutOfFuel ->
  gmap drop_sq (gen_while_1 fuel0 fuelg shape newshape subsizes (Z.of_nat (length shape))
                            (Z.of_nat (length newshape)) j k u t i sq sg e f fd)
  = res_conv (conv_raw shape newshape) (match_raw fuel sh subs nw st).
Proof.
  intros Hf0 fuel. induction fuel as [|fuel IH];
    intros fuelg sh subs nw st ni nj j k u t i sq sg e f fd Hfg Hsh Hsubs Hnw Hni Hnj -> -> -> -> -> -> -> -> -> Hoof.
  { exfalso. apply Hoof. reflexivity. }
  assert (length sh = length shape - ni) as Hlsh by (rewrite <- Hsh; apply skipn_length).
  assert (length nw = length newshape - nj) as Hlnw by (rewrite <- Hnw; apply skipn_length).
  destruct fuelg as [|fuelg]; [lia|]. apply le_S_n in Hfg.
  cbn [match_raw gen_while_1] in *.
  destruct sh as [|di sh'].
  { (* i = ndim_old *)
    apply skipn_nil_ge in Hsh. assert (ni = length shape) as -> by lia.
    rewrite Z.ltb_irrefl. cbn [andb gmap gbind drop_sq res_conv conv_raw].
    cbn [length] in *. apply g1view_eq; try reflexivity; lia. }
  pose proof (skipn_cons_lt _ _ _ _ Hsh) as Hilt.
  assert ((Z.of_nat ni <? Z.of_nat (length shape))%Z = true) as -> by (apply Z.ltb_lt; lia).
  destruct nw as [|dj nw'].
  { apply skipn_nil_ge in Hnw. assert (nj = length newshape) as -> by lia.
    rewrite Z.ltb_irrefl. cbn [andb gmap gbind drop_sq res_conv conv_raw].
    cbn [length] in *. apply g1view_eq; try reflexivity; lia. }
  pose proof (skipn_cons_lt _ _ _ _ Hnw) as Hjlt.
  assert ((Z.of_nat nj <? Z.of_nat (length newshape))%Z = true) as -> by (apply Z.ltb_lt; lia).
  cbn [andb].
  rewrite !g_get_nat, (skipn_cons_nth _ _ _ _ Hsh), (skipn_cons_nth _ _ _ _ Hnw). cbn [gbind].
  destruct subs as [|sub subs'].
  { rewrite (skipn_nil_nth _ _ Hsubs). reflexivity. }
  rewrite (skipn_cons_nth _ _ _ _ Hsubs). cbn [gbind].
  assert (Hc : (if negb (is_none sub)
        then
         gbind (g_some sub)
           (fun x_36 : list Z =>
            GOk
              (g_opt_eqb (list_eqb Z.eqb) sub
                 (py_slice newshape (Some (Z.of_nat nj))
                    (Some (Z.of_nat nj + Z.of_nat (length x_36))%Z))))
        else GOk false)
     = GOk (match sub with Some ss => prefix_eqb ss (dj :: nw') | None => false end)).
  { destruct sub as [ss|]; cbn [is_none negb g_some gbind g_opt_eqb]; [|reflexivity].
    rewrite py_slice_mid by lia. rewrite Hnw, prefix_eqb_firstn. reflexivity. }
  rewrite Hc. clear Hc. cbn [gbind].
  destruct sub as [ss|]; [destruct (prefix_eqb ss (dj :: nw')) eqn:Hp|].
  1: { (* unfuse *)
      cbn [g_some gbind].
      match goal with |- context [g_for ss ?init ?body] =>
        rewrite (g_for_unfuse_check0 newshape body (fun _ _ _ _ => eq_refl) ss nj (m_k st))
          by (rewrite Hnw; exact Hp) end.
      cbn [gbind].
      pose proof (prefix_eqb_length _ _ Hp) as Hpl.
      apply IH with (ni := S ni) (nj := nj + length ss); w1_side.
      rewrite <- Hnw, skipn_add. reflexivity. }
  all: cbv zeta.
  all: destruct (di =? dj)%Z eqn:E1;
    [ apply IH with (ni := S ni) (nj := S nj); w1_side |].
  all: destruct (di =? 1)%Z eqn:E2;
    [ apply IH with (ni := S ni) (nj := nj); w1_side |].
  all: destruct (dj =? 1)%Z eqn:E3;
    [ apply IH with (ni := ni) (nj := S nj); w1_side |].
  all: destruct (di <? dj)%Z eqn:E4; [|reflexivity].
  all: assert (length sh' < fuel0) as Hl2 by (cbn [length] in Hlsh; lia).
  all: match goal with |- context [gen_while_2 _ _ _ _ ?lab _ ?term ?i ?s] =>
         assert (i = Z.of_nat (S ni)) as Hi2 by lia;
         pose proof (while2_spec' shape dj lab fuel0 sh' fuel0 di term (S ni) 1 i s
                       Hl2 (skipn_cons_S _ _ _ _ Hsh) Hi2 eq_refl) as W end.
  all: destruct (fuse_scan dj di sh' 1) as [[sh2 s2]| | | |]; try contradiction.
  all: try (rewrite W; reflexivity).
  all: try (destruct W as [di' [t' [i' [s' [W1 W2]]]]]; rewrite W1; cbn [gbind]; rewrite W2; reflexivity).
  all: destruct W as [m [-> [-> [Hm W]]]]; rewrite W; cbn [gbind]; rewrite Z.eqb_refl; cbn [negb gbind];
       apply IH with (ni := S ni + m) (nj := S nj); w1_side.
  all: try (rewrite <- (skipn_cons_S _ _ _ _ Hsh), skipn_add; reflexivity).
  all: try (rewrite <- Hsubs, skipn_add; f_equal; lia).
  all: try (cbn [length] in Hlsh; lia).
  all: rewrite map_app, map_repeat'; cbn [Nat.add repeat lab_of]; rewrite length_gdict, <- app_assoc; reflexivity.
Qed.

(* ------------------------------------------------------------------ the two trailing `for` loops *)
Lemma g_for_trail_s {A} (l : list A) body :
  (forall x sg t, body x (sg, t) = GOk (true, t ++ [GLs])) ->
  forall (sg : bool) (t : list glabel),
  g_for l (sg, t) body = GOk (sg || negb (is_nil l), t ++ repeat GLs (length l)).
Proof.
  intros Hb. induction l as [|x l IH]; intros sg t; cbn [g_for length repeat is_nil negb].
  - rewrite orb_false_r, app_nil_r. reflexivity.
  - rewrite Hb. cbn [gbind]. rewrite IH. rewrite orb_true_r. cbn [orb].
    rewrite <- app_assoc. reflexivity.
Qed.

Lemma g_for_trail_e {A} (l : list A) (k : Z) body :
  (forall x e, body x e = GOk (e ++ [k])) ->
  forall e : list Z, g_for l e body = GOk (e ++ repeat k (length l)).
Proof.
  intros Hb. induction l as [|x l IH]; intros e; cbn [g_for length repeat].
  - rewrite app_nil_r. reflexivity.
  - rewrite Hb. cbn [gbind]. rewrite IH. rewrite <- app_assoc. reflexivity.
Qed.

(* ------------------------------------------------------------------ phase 2: unfusings *)
Lemma unfuse_for_spec body :
  (forall lab s au t, body (lab, s) (au, t) =
     gbind (g_index glabel_eqb lab t) (fun ax =>
     GOk (au ++ [ax], (py_slice t None (Some ax) ++ g_repeat GLo s) ++ py_slice t (Some (ax + 1)%Z) None))) ->
  forall unf n term acc,
  g_for (ldict_from GLu n unf) (zs acc, map lab_of term) body
  = res_conv (fun '(a, t) => (zs a, map lab_of t)) (unfuse_rewrite n unf term acc).
Proof.
  intros Hb unf. induction unf as [|s unf IH]; intros n term acc; cbn [ldict_from g_for unfuse_rewrite].
  - reflexivity.
  - rewrite Hb. change (GLu (Z.of_nat n)) with (lab_of (Lu n)). rewrite g_index_lab_of.
    destruct (index_of (Lu n) term) as [ax|]; [|reflexivity]. cbn [gbind].
    rewrite <- IH. f_equal. f_equal.
    + unfold zs. rewrite map_app. reflexivity.
    + replace (Z.of_nat ax + 1)%Z with (Z.of_nat (S ax)) by lia.
      rewrite py_slice_to, py_slice_from, g_repeat_nat.
      rewrite !map_app, firstn_map, skipn_map, map_repeat', <- app_assoc. reflexivity.
Qed.

(* ------------------------------------------------------------------ phase 4: fuse calls *)
Lemma lookup_gdict lab fus :
  lookup glabel_eqb (lab_of lab) (gdict fus)
  = option_map Z.of_nat (match lab with Lg n => nth_error fus n | _ => None end).
Proof.
  unfold gdict. destruct lab as [| |n|n]; cbn [lab_of option_map].
  - apply ldict_lookup_other. reflexivity.
  - apply ldict_lookup_other. reflexivity.
  - apply ldict_lookup_other. reflexivity.
  - exact (ldict_lookup GLg GLg_eqb 0 fus n).
Qed.

Lemma zsum_lengths cur :
  zsum (map (fun y => Z.of_nat (length y)) (map zs cur)) = Z.of_nat (nat_sum (map (@length nat) cur)).
Proof.
  induction cur as [|c cur IH]; [reflexivity|].
  cbn [map]. rewrite zsum_cons, IH. unfold zs at 1. rewrite map_length.
  cbn [nat_sum fold_right]. fold (nat_sum (map (@length nat) cur)). lia.
Qed.

Lemma nat_sum_snoc l x : nat_sum (l ++ [x]) = nat_sum l + x.
Proof.
  unfold nat_sum. induction l as [|y l IH]; cbn [app fold_right]; [lia | rewrite IH; lia].
Qed.

Lemma while6_spec fuel0 fus : forall fuel fuelg i term cur acc fusg termg accg curg ig,
  fuel <= fuelg -> nat_sum (map (@length nat) cur) <= i ->
  fusg = gdict fus -> termg = map lab_of term -> accg = map (map zs) acc -> curg = map zs cur ->
  ig = Z.of_nat i ->
  fuse_loop fuel i term fus cur acc <> OutOfFuel ->
  gbind (gen_while_6 fuel0 fuelg fusg termg accg curg ig)
        (fun '(_, axs, cur', _) => if negb (is_nil cur') then GOk (axs ++ [cur']) else GOk axs)
  = res_conv (map (map zs)) (fuse_loop fuel i term fus cur acc).
Proof.
  intros fuel. induction fuel as [|fuel IH];
    intros fuelg i term cur acc fusg termg accg curg ig Hfg Hsum -> -> -> -> -> Hoof.
  { exfalso. apply Hoof. reflexivity. }
  destruct fuelg as [|fuelg]; [lia|]. apply le_S_n in Hfg.
  cbn [fuse_loop gen_while_6] in *. rewrite map_length.
  destruct (nth_error term i) as [lab|] eqn:E.
  2: { apply nth_error_None in E.
       assert ((Z.of_nat i <? Z.of_nat (length term))%Z = false) as -> by (apply Z.ltb_ge; lia).
       cbn [gbind]. destruct cur as [|c cur]; cbn [map is_nil negb res_conv]; [reflexivity|].
       rewrite map_app. reflexivity. }
  assert (i < length term) as Hi by (apply nth_error_Some; rewrite E; discriminate).
  assert ((Z.of_nat i <? Z.of_nat (length term))%Z = true) as -> by (apply Z.ltb_lt; lia).
  rewrite g_get_nat, nth_error_map, E. cbn [option_map gbind]. cbv zeta.
  unfold dhas, g_dget. rewrite lookup_gdict.
  destruct (match lab with Lg n => nth_error fus n | _ => None end) as [s|]; cbn [option_map negb gbind].
  - (* a group: collect it *)
    apply IH with (i := i + s) (cur := cur ++ [seq i s]); try assumption; try reflexivity.
    + rewrite map_app. cbn [map]. rewrite nat_sum_snoc, seq_length. lia.
    + rewrite map_app. cbn [map]. rewrite zrange2_nat. reflexivity.
    + lia.
  - (* not a group *)
    destruct cur as [|c cur]; [cbn [map is_nil negb gbind]|].
    + apply IH with (i := S i) (cur := []); try assumption; try reflexivity; try lia.
    + assert (Hnil : is_nil (map zs (c :: cur)) = false) by reflexivity.
      remember (map zs (c :: cur)) as ccz eqn:Hccz. rewrite Hnil. cbn [negb gbind]. subst ccz.
      rewrite zsum_lengths.
      set (n := nat_sum (map (@length nat) (c :: cur))) in *.
      replace (Z.of_nat i - Z.of_nat n)%Z with (Z.of_nat (i - n)) by lia.
      rewrite py_slice_to, py_slice_from, map_length, g_repeat_nat.
      replace (Z.of_nat (i - n) + Z.of_nat (length (map zs (c :: cur))))%Z
        with (Z.of_nat (i - n + length (c :: cur))) by (rewrite map_length; lia).
      apply IH with (i := i - n + length (c :: cur)) (cur := []); try assumption; try reflexivity.
      * cbn. lia.
      * rewrite !map_app, firstn_map, skipn_map, map_repeat', <- app_assoc. reflexivity.
      * rewrite map_app. reflexivity.
      * lia.
Qed.

(* ------------------------------------------------------------------ phase 3: squeezes become fuse groups *)
Definition gopt (g : option nat) : option glabel := option_map (fun n => GLg (Z.of_nat n)) g.

Lemma nth_error_skipn_cons {A} (l : list A) i x : nth_error l i = Some x -> skipn i l = x :: skipn (S i) l.
Proof.
  revert l. induction i as [|i IH]; intros [|y l] H; cbn [nth_error] in H; try discriminate.
  - injection H as ->. reflexivity.
  - change (skipn (S i) (y :: l)) with (skipn i l). rewrite (IH l H). reflexivity.
Qed.

Lemma count_lead_s_le t : count_lead_s t <= length t.
Proof.
  induction t as [|x t IH]; cbn [count_lead_s length]; [lia|].
  destruct x; cbn [length]; lia.
Qed.

Lemma label_eqb_Ls lab : glabel_eqb (lab_of lab) GLs = match lab with Ls => true | _ => false end.
Proof. destruct lab; reflexivity. Qed.

(* the scan over the leading "s" labels *)
Lemma while3_spec fuel0 t : forall fuel i lab,
  length t - i < fuel -> nth_error t i = Some lab ->
  gen_while_3 fuel0 fuel (map lab_of t) (Z.of_nat i) (lab_of lab)
  = match nth_error t (i + count_lead_s (skipn i t)) with
    | Some l' => GOk (Z.of_nat (i + count_lead_s (skipn i t)), lab_of l')
    | None => GErrIndex
    end.
Proof.
  intros fuel. induction fuel as [|fuel IH]; intros i lab Hf E; [lia|].
  cbn [gen_while_3]. rewrite label_eqb_Ls, (nth_error_skipn_cons _ _ _ E).
  destruct lab; cbn [count_lead_s]; rewrite ?Nat.add_0_r, ?E; try reflexivity.
  replace (Z.of_nat i + 1)%Z with (Z.of_nat (S i)) by lia.
  rewrite g_get_nat, nth_error_map.
  assert (i < length t) as Hi by (apply nth_error_Some; rewrite E; discriminate).
  replace (i + S (count_lead_s (skipn (S i) t))) with (S i + count_lead_s (skipn (S i) t)) by lia.
  destruct (nth_error t (S i)) as [lab2|] eqn:E2; cbn [option_map gbind].
  - apply IH; [lia | exact E2].
  - apply nth_error_None in E2. rewrite (skipn_all2 t E2). cbn [count_lead_s].
    rewrite Nat.add_0_r. assert (nth_error t (S i) = None) as -> by (apply nth_error_None; exact E2).
    reflexivity.
Qed.

Lemma pick_spec lab pos t f gp :
  pos < length t ->
  (if gchar_eqb (glabel_head (lab_of lab)) Cg then GOk (Some (lab_of lab), map lab_of t, gdict f)
   else if glabel_eqb (lab_of lab) GLo then
     gbind (g_unb (Some (GLg (Z.of_nat (length (gdict f)))))) (fun g1 =>
     gbind (g_set (map lab_of t) (Z.of_nat pos) g1) (fun t' =>
     gbind (g_unb (Some (GLg (Z.of_nat (length (gdict f)))))) (fun g2 =>
     GOk (Some (GLg (Z.of_nat (length (gdict f)))), t', dset glabel_eqb g2 1%Z (gdict f)))))
   else GOk (gopt gp, map lab_of t, gdict f))
  = GOk (let '(g', t', f') := pick_group lab pos t f gp in (gopt g', map lab_of t', gdict f')).
Proof.
  intros Hpos. destruct lab as [| |n|n]; cbn [lab_of glabel_head gchar_eqb glabel_eqb pick_group gopt option_map];
    try reflexivity.
  cbn [g_unb gbind]. rewrite g_set_nat, map_length.
  assert ((pos <? length t) = true) as -> by (apply Nat.ltb_lt; exact Hpos).
  cbn [gbind]. rewrite map_set_nth. cbn [lab_of]. rewrite length_gdict.
  change 1%Z with (Z.of_nat 1). rewrite <- (length_gdict f) at 3. rewrite gdict_snoc.
  reflexivity.
Qed.

Lemma set_nth_length {A} n (x : A) l : length (set_nth n x l) = length l.
Proof.
  revert n. induction l as [|y l IH]; intros [|n]; cbn [set_nth length]; try reflexivity.
  rewrite IH. reflexivity.
Qed.

Lemma add_nth_length n r l : length (add_nth n r l) = length l.
Proof.
  revert n. induction l as [|y l IH]; intros [|n]; cbn [add_nth length]; try reflexivity.
  rewrite IH. reflexivity.
Qed.

Lemma add_nth_add n a b l : add_nth n a (add_nth n b l) = add_nth n (b + a) l.
Proof.
  revert n. induction l as [|y l IH]; intros [|n]; cbn [add_nth]; try reflexivity.
  - f_equal. lia.
  - rewrite IH. reflexivity.
Qed.

Lemma add_nth_0 n l : add_nth n 0 l = l.
Proof.
  revert n. induction l as [|y l IH]; intros [|n]; cbn [add_nth]; try reflexivity.
  - rewrite Nat.add_0_r. reflexivity.
  - rewrite IH. reflexivity.
Qed.

Lemma firstn_set_nth_S {A} a (x : A) l : a < length l -> firstn (S a) (set_nth a x l) = firstn a l ++ [x].
Proof.
  revert a. induction l as [|y l IH]; intros [|a] H; cbn [length] in H; try lia.
  - reflexivity.
  - cbn [set_nth]. change (firstn (S (S a)) (y :: set_nth a x l)) with (y :: firstn (S a) (set_nth a x l)).
    rewrite IH by lia. reflexivity.
Qed.

Lemma set_nth_split {A} a (x : A) l : a < length l -> set_nth a x l = firstn a l ++ x :: skipn (S a) l.
Proof.
  revert a. induction l as [|y l IH]; intros [|a] H; cbn [length] in H; try lia.
  - reflexivity.
  - cbn [set_nth firstn app]. change (skipn (S (S a)) (y :: l)) with (skipn (S a) l).
    rewrite IH by lia. reflexivity.
Qed.

Lemma skipn_set_nth_gt {A} a b (x : A) l : a < b -> skipn b (set_nth a x l) = skipn b l.
Proof.
  revert a b. induction l as [|y l IH]; intros [|a] [|b] H; try lia; cbn [set_nth skipn]; try reflexivity.
  apply IH. lia.
Qed.

Lemma nth_error_set_nth_gt {A} a b (x : A) l : a < b -> nth_error (set_nth a x l) b = nth_error l b.
Proof.
  revert a b. induction l as [|y l IH]; intros [|a] [|b] H; try lia; cbn [set_nth nth_error]; try reflexivity.
  apply IH. lia.
Qed.

Lemma gdict_incr f gn x :
  nth_error f gn = Some x ->
  dset glabel_eqb (GLg (Z.of_nat gn)) (Z.of_nat x + 1)%Z (gdict f) = gdict (add_nth gn 1 f).
Proof. intros H. exact (ldict_dset_add GLg GLg_eqb 0 f gn x 1 H). Qed.

Lemma gdict_get f gn x :
  nth_error f gn = Some x -> g_dget glabel_eqb (gdict f) (GLg (Z.of_nat gn)) = GOk (Z.of_nat x).
Proof.
  intros H. unfold g_dget. change (GLg (Z.of_nat gn)) with (lab_of (Lg gn)).
  rewrite lookup_gdict, H. reflexivity.
Qed.

(* `for j in range(a, a+n): fuse_sizes[g] += 1; term[j] = g` *)
Lemma g_for_mark (g : option glabel) body :
  (forall j f t, body j (f, t) =
     gbind (g_unb g) (fun g1 =>
     gbind (g_dget glabel_eqb f g1) (fun x =>
     gbind (g_unb g) (fun g2 =>
     gbind (g_set t j g2) (fun t' =>
     GOk (dset glabel_eqb g1 (x + 1)%Z f, t')))))) ->
  forall gn, g = Some (GLg (Z.of_nat gn)) ->
  forall n a f t, a + n <= length t -> gn < length f ->
  g_for (zs (seq a n)) (gdict f, map lab_of t) body
  = GOk (gdict (add_nth gn n f), map lab_of (firstn a t ++ repeat (Lg gn) n ++ skipn (a + n) t)).
Proof.
  intros Hb gn -> n. induction n as [|n IH]; intros a f t Ha Hg; cbn [seq zs map g_for].
  - rewrite add_nth_0, Nat.add_0_r. cbn [repeat app]. rewrite firstn_skipn. reflexivity.
  - rewrite Hb. cbn [g_unb gbind].
    destruct (nth_error f gn) as [x|] eqn:E; [|apply nth_error_None in E; lia].
    rewrite (gdict_get _ _ _ E). cbn [gbind].
    rewrite g_set_nat, map_length.
    assert ((a <? length t) = true) as -> by (apply Nat.ltb_lt; lia).
    cbn [gbind]. rewrite (gdict_incr _ _ _ E).
    change (GLg (Z.of_nat gn)) with (lab_of (Lg gn)). rewrite <- map_set_nth.
    fold (zs (seq (S a) n)).
    rewrite IH by (rewrite ?set_nth_length, ?add_nth_length; lia).
    rewrite add_nth_add. rewrite firstn_set_nth_S by lia.
    rewrite skipn_set_nth_gt by lia.
    replace (S a + n) with (a + S n) by lia.
    cbn [repeat]. rewrite <- app_assoc. reflexivity.
Qed.

Lemma g_for_mark_unbound body :
  (forall j f t, body j (f, t) =
     gbind (g_unb (@None glabel)) (fun g1 =>
     gbind (g_dget glabel_eqb f g1) (fun x =>
     gbind (g_unb (@None glabel)) (fun g2 =>
     gbind (g_set t j g2) (fun t' =>
     GOk (dset glabel_eqb g1 (x + 1)%Z f, t')))))) ->
  forall n a (f : list (glabel * Z)) (t : list glabel), 1 <= n -> g_for (zs (seq a n)) (f, t) body = GErrUnbound.
Proof.
  intros Hb n a f t Hn. destruct n as [|n]; [lia|]. cbn [seq zs map g_for]. rewrite Hb. reflexivity.
Qed.

(* the inner `while label == "s"` of the second squeeze loop *)
Lemma while5_spec fuel0 gn : forall fuel t f i lab,
  length t - i < fuel -> nth_error t i = Some lab -> gn < length f ->
  exists lab',
  gen_while_5 fuel0 fuel (Some (GLg (Z.of_nat gn))) (map lab_of t) (gdict f) (Z.of_nat i) (lab_of lab)
  = GOk (map lab_of (firstn i t ++ repeat (Lg gn) (count_lead_s (skipn i t)) ++ skipn (i + count_lead_s (skipn i t)) t),
         gdict (add_nth gn (count_lead_s (skipn i t)) f),
         Z.of_nat (i + count_lead_s (skipn i t)), lab').
Proof.
  intros fuel. induction fuel as [|fuel IH]; intros t f i lab Hf E Hg; [lia|].
  cbn [gen_while_5]. rewrite label_eqb_Ls, (nth_error_skipn_cons _ _ _ E).
  assert (i < length t) as Hi by (apply nth_error_Some; rewrite E; discriminate).
  destruct lab; cbn [count_lead_s];
    try (eexists; rewrite add_nth_0, Nat.add_0_r; cbn [repeat app]; rewrite firstn_skipn; reflexivity).
  cbn [g_unb gbind]. rewrite g_set_nat, map_length.
  assert ((i <? length t) = true) as -> by (apply Nat.ltb_lt; lia).
  cbn [gbind].
  destruct (nth_error f gn) as [x|] eqn:Ex; [|apply nth_error_None in Ex; lia].
  rewrite (gdict_get _ _ _ Ex). cbn [gbind]. rewrite (gdict_incr _ _ _ Ex).
  change (GLg (Z.of_nat gn)) with (lab_of (Lg gn)). rewrite <- map_set_nth.
  replace (Z.of_nat i + 1)%Z with (Z.of_nat (S i)) by lia.
  rewrite map_length, set_nth_length.
  destruct (Z.eqb_spec (Z.of_nat (S i)) (Z.of_nat (length t))) as [Heq|Hne].
  - (* break: the run reaches the end of term *)
    assert (S i = length t) as Hl by lia.
    rewrite (skipn_all2 t (n := S i)) by lia. cbn [count_lead_s].
    eexists. rewrite (set_nth_split i (Lg gn) t Hi).
    replace (i + 1) with (S i) by lia. reflexivity.
  - rewrite g_get_nat, nth_error_map, nth_error_set_nth_gt by lia.
    destruct (nth_error t (S i)) as [lab2|] eqn:E2; [|apply nth_error_None in E2; lia].
    cbn [option_map gbind].
    destruct (IH (set_nth i (Lg gn) t) (add_nth gn 1 f) (S i) lab2) as [lab' IH'].
    + rewrite set_nth_length. lia.
    + rewrite nth_error_set_nth_gt by lia. exact E2.
    + rewrite add_nth_length. exact Hg.
    + exists lab'. change (lab_of (Lg gn)) with (GLg (Z.of_nat gn)). rewrite IH'. rewrite !skipn_set_nth_gt by lia.
      rewrite firstn_set_nth_S by lia. rewrite add_nth_add.
      replace (i + S (count_lead_s (skipn (S i) t))) with (S i + count_lead_s (skipn (S i) t)) by lia.
      cbn [repeat]. rewrite <- app_assoc. reflexivity.
Qed.

(* every group label of term has its entry in fuse_sizes (otherwise `fuse_sizes[g] += 1` raises
   KeyError, which the model does not know) *)
Definition wf_term (f : list nat) (t : list label) : Prop := forall n, In (Lg n) t -> n < length f.

Lemma In_set_nth {A} (y x : A) n l : In y (set_nth n x l) -> y = x \/ In y l.
Proof.
  revert n. induction l as [|z l IH]; intros [|n] H; cbn [set_nth In] in *; try tauto.
  - destruct H as [H|H]; [left; symmetry; exact H | right; right; exact H].
  - destruct H as [H|H]; [right; left; exact H|]. apply IH in H. tauto.
Qed.

Lemma In_firstn' {A} (x : A) n l : In x (firstn n l) -> In x l.
Proof.
  revert l. induction n as [|n IH]; intros [|y l] H; cbn [firstn In] in *; try tauto.
  destruct H as [H|H]; [left; exact H | right; apply IH; exact H].
Qed.

Lemma In_skipn' {A} (x : A) n l : In x (skipn n l) -> In x l.
Proof.
  revert l. induction n as [|n IH]; intros [|y l] H; cbn [skipn In] in *; try tauto.
  right. apply IH. exact H.
Qed.

Lemma pick_group_facts lab pos t f g g' t1 f1 :
  pick_group lab pos t f g = (g', t1, f1) ->
  wf_term f t -> (forall gn, g = Some gn -> gn < length f) -> In lab t ->
  length t1 = length t /\ (forall j, pos < j -> nth_error t1 j = nth_error t j) /\
  wf_term f1 t1 /\ (forall gn, g' = Some gn -> gn < length f1).
Proof.
  intros Hp Hwf Hg Hin. destruct lab as [| |n|n]; cbn [pick_group] in Hp; injection Hp as <- <- <-.
  - rewrite set_nth_length. repeat split.
    + intros j Hj. apply nth_error_set_nth_gt. exact Hj.
    + intros n Hn. rewrite app_length. cbn [length]. apply In_set_nth in Hn.
      destruct Hn as [Hn|Hn]; [injection Hn as ->; lia | apply Hwf in Hn; lia].
    + intros gn [= <-]. rewrite app_length. cbn [length]. lia.
  - repeat split; assumption.
  - repeat split; assumption.
  - repeat split; try assumption. intros gn [= <-]. apply Hwf. exact Hin.
Qed.

Lemma while4_spec fuel0 : forall fuel fuelg i t f g gg tg fg ig,
  fuel <= fuelg -> 1 <= i ->
  wf_term f t -> (forall gn, g = Some gn -> gn < length f) ->
  length t < fuel0 ->
  gg = gopt g -> tg = map lab_of t -> fg = gdict f -> ig = Z.of_nat i ->
  squeeze_rest fuel i t f g <> OutOfFuel ->
  gbind (gen_while_4 fuel0 fuelg gg tg fg ig) (fun '(_, t', f', _) => GOk (t', f'))
  = res_conv (fun '(t', f') => (map lab_of t', gdict f')) (squeeze_rest fuel i t f g).
Proof.
  intros fuel. induction fuel as [|fuel IH];
    intros fuelg i t f g gg tg fg ig Hfg Hi1 Hwf Hg Hlen -> -> -> -> Hoof.
  { exfalso. apply Hoof. reflexivity. }
  destruct fuelg as [|fuelg]; [lia|]. apply le_S_n in Hfg.
  cbn [squeeze_rest gen_while_4] in *. rewrite map_length.
  destruct (nth_error t i) as [lab|] eqn:E.
  2: { apply nth_error_None in E.
       assert ((Z.of_nat i <? Z.of_nat (length t))%Z = false) as -> by (apply Z.ltb_ge; lia).
       reflexivity. }
  assert (i < length t) as Hi by (apply nth_error_Some; rewrite E; discriminate).
  assert ((Z.of_nat i <? Z.of_nat (length t))%Z = true) as -> by (apply Z.ltb_lt; lia).
  rewrite g_get_nat, nth_error_map, E. cbn [option_map gbind]. cbv zeta.
  rewrite label_eqb_Ls.
  assert (Hother : lab <> Ls ->
    gbind (gbind (GOk (gopt g, map lab_of t, gdict f, Z.of_nat i))
                 (fun '(g_192, term_193, fuse_sizes_194, i_195) =>
                    gen_while_4 fuel0 fuelg g_192 term_193 fuse_sizes_194 (i_195 + 1)%Z))
          (fun '(_, t', f', _) => GOk (t', f'))
    = res_conv (fun '(t', f') => (map lab_of t', gdict f')) (squeeze_rest fuel (S i) t f g)).
  { intros Hne. cbn [gbind]. destruct lab; try (exfalso; apply Hne; reflexivity);
      (apply IH; try assumption; try reflexivity; try lia). }
  destruct lab; try (apply Hother; discriminate). clear Hother.
  replace (Z.of_nat i - 1)%Z with (Z.of_nat (i - 1)) by lia.
  rewrite g_get_nat, nth_error_map.
  destruct (nth_error t (i - 1)) as [lft|] eqn:El; [|reflexivity].
  cbn [option_map gbind].
  rewrite (pick_spec lft (i - 1) t f g) by lia. cbn [gbind].
  destruct (pick_group lft (i - 1) t f g) as [[g' t1] f1] eqn:Ep.
  destruct (pick_group_facts _ _ _ _ _ _ _ _ Ep Hwf Hg (nth_error_In _ _ El)) as [Hl1 [Hn1 [Hwf1 Hg1]]].
  destruct g' as [gn|].
  2: { (* g is not bound *) destruct fuel0; [lia | reflexivity]. }
  cbn [gopt option_map].
  assert (nth_error t1 i = Some Ls) as E1 by (rewrite Hn1 by lia; exact E).
  destruct (while5_spec fuel0 gn fuel0 t1 f1 i Ls ltac:(lia) E1 (Hg1 gn eq_refl)) as [lab' W].
  rewrite W. cbn [gbind]. clear W.
  set (r := count_lead_s (skipn i t1)) in *.
  assert (i + r <= length t1) as Hr.
  { pose proof (count_lead_s_le (skipn i t1)) as Hc. rewrite skipn_length in Hc. fold r in Hc. lia. }
  apply IH with (i := i + r + 1); try assumption; try reflexivity; try lia.
  - intros n Hn. rewrite add_nth_length. apply in_app_or in Hn. destruct Hn as [Hn|Hn].
    + apply Hwf1. eapply In_firstn'; exact Hn.
    + apply in_app_or in Hn. destruct Hn as [Hn|Hn].
      * apply repeat_spec in Hn. injection Hn as ->. apply Hg1. reflexivity.
      * apply Hwf1. eapply In_skipn'; exact Hn.
  - intros gn' [= <-]. rewrite add_nth_length. apply Hg1. reflexivity.
  - rewrite !app_length, firstn_length, repeat_length, skipn_length. lia.
Qed.

(* ------------------------------------------------------------------ invariants of the model (lengths, group labels) *)
Lemma fuse_scan_len dj : forall sh di s sh2 s2,
  fuse_scan dj di sh s = Ok (sh2, s2) -> exists m, s2 = s + m /\ length sh2 + m = length sh.
Proof.
  intros sh. induction sh as [|d sh IH]; intros di s sh2 s2 H; cbn [fuse_scan] in H.
  - destruct (di <? dj)%Z; [discriminate|]. destruct (di =? dj)%Z; [|discriminate].
    injection H as <- <-. exists 0. cbn [length]. lia.
  - destruct (di <? dj)%Z.
    + apply IH in H. destruct H as [m [-> Hm]]. exists (S m). cbn [length]. lia.
    + destruct (di =? dj)%Z; [|discriminate]. injection H as <- <-. exists 0. cbn [length]. lia.
Qed.

Definition inv1 (c1 c2 : nat) (sh nw : list Z) (st : mstate) : Prop :=
  length (m_term st) + length sh = c1 /\ nat_sum (m_unf st) + length nw <= c2 /\
  wf_term (m_fus st) (m_term st).

Lemma wf_term_snoc f t lab : wf_term f t -> (forall n, lab = Lg n -> n < length f) -> wf_term f (t ++ [lab]).
Proof.
  intros Hwf Hl n Hn. apply in_app_or in Hn. destruct Hn as [Hn|[Hn|[]]]; [apply Hwf; exact Hn | apply Hl; exact Hn].
Qed.

Lemma match_raw_inv c1 c2 : forall fuel sh subs nw st sh' nw' st',
  match_raw fuel sh subs nw st = Ok (sh', nw', st') -> inv1 c1 c2 sh nw st -> inv1 c1 c2 sh' nw' st'.
Proof.
  intros fuel. induction fuel as [|fuel IH]; intros sh subs nw st sh' nw' st' H [I1 [I2 I3]]; [discriminate|].
  cbn [match_raw] in H.
  destruct sh as [|di sh0]; [injection H as <- <- <-; repeat split; assumption|].
  destruct nw as [|dj nw0]; [injection H as <- <- <-; repeat split; assumption|].
  destruct subs as [|sub subs0]; [discriminate|].
  cbn [length] in I1, I2.
  destruct (match sub with
            | Some ss => if prefix_eqb ss (dj :: nw0) then Some (length ss) else None
            | None => None
            end) as [s|] eqn:Es.
  - destruct sub as [ss|]; [|discriminate]. destruct (prefix_eqb ss (dj :: nw0)) eqn:Hp; [|discriminate].
    injection Es as <-. apply prefix_eqb_length in Hp. cbn [length] in Hp.
    apply IH in H; [exact H|]. unfold inv1. cbn [m_term m_unf m_fus].
    rewrite app_length, nat_sum_snoc, skipn_length. cbn [length]. repeat split; try lia.
    apply wf_term_snoc; [exact I3 | discriminate].
  - destruct (di =? dj)%Z.
    { apply IH in H; [exact H|]. unfold inv1. cbn [m_term m_unf m_fus]. rewrite app_length. cbn [length].
      repeat split; try lia. apply wf_term_snoc; [exact I3 | discriminate]. }
    destruct (di =? 1)%Z.
    { apply IH in H; [exact H|]. unfold inv1. cbn [m_term m_unf m_fus]. rewrite app_length. cbn [length].
      repeat split; try lia. apply wf_term_snoc; [exact I3 | discriminate]. }
    destruct (dj =? 1)%Z.
    { apply IH in H; [exact H|]. unfold inv1. cbn [m_term m_unf m_fus length]. repeat split; try lia. exact I3. }
    destruct (di <? dj)%Z; [|discriminate].
    destruct (fuse_scan dj di sh0 1) as [[sh2 s]| | | |] eqn:Ef; try discriminate.
    apply fuse_scan_len in Ef. destruct Ef as [m [-> Hm]].
    apply IH in H; [exact H|]. unfold inv1. cbn [m_term m_unf m_fus].
    rewrite !app_length, repeat_length. cbn [length]. repeat split; try lia.
    intros n Hn. rewrite app_length. cbn [length]. apply in_app_or in Hn. destruct Hn as [Hn|Hn].
    + apply I3 in Hn. lia.
    + apply repeat_spec in Hn. injection Hn as ->. lia.
Qed.

Lemma match_loop_inv shape newshape subsizes st :
  match_loop (main_fuel shape newshape) shape subsizes newshape mstate0 = Ok st ->
  length (m_term st) = length shape /\ nat_sum (m_unf st) <= length newshape /\
  wf_term (m_fus st) (m_term st).
Proof.
  rewrite match_loop_raw.
  destruct (match_raw (main_fuel shape newshape) shape subsizes newshape mstate0) as [[[sh' nw'] st']| | | |] eqn:E;
    cbn [bind]; try discriminate.
  intros [= <-].
  apply (match_raw_inv (length shape) (length newshape)) in E.
  - destruct E as [I1 [I2 I3]]. cbn [finish_match m_term m_unf m_fus].
    rewrite app_length, repeat_length. repeat split; try lia.
    intros n Hn. apply in_app_or in Hn. destruct Hn as [Hn|Hn]; [apply I3; exact Hn|].
    apply repeat_spec in Hn. discriminate.
  - unfold inv1. cbn. repeat split; try lia. intros n [].
Qed.

Lemma unfuse_rewrite_inv f : forall unf n term acc au t1,
  unfuse_rewrite n unf term acc = Ok (au, t1) -> wf_term f term ->
  length t1 <= length term + nat_sum unf /\ wf_term f t1.
Proof.
  intros unf. induction unf as [|s unf IH]; intros n term acc au t1 H Hwf; cbn [unfuse_rewrite] in H.
  - injection H as <- <-. cbn. split; [lia | exact Hwf].
  - destruct (index_of (Lu n) term) as [ax|]; [|discriminate].
    apply IH in H.
    + destruct H as [H1 H2]. split; [|exact H2].
      rewrite !app_length, firstn_length, repeat_length, skipn_length in H1.
      change (nat_sum (s :: unf)) with (s + nat_sum unf). lia.
    + intros m Hm. apply in_app_or in Hm. destruct Hm as [Hm|Hm]; [apply Hwf; eapply In_firstn'; exact Hm|].
      apply in_app_or in Hm. destruct Hm as [Hm|Hm]; [apply repeat_spec in Hm; discriminate|].
      apply Hwf. eapply In_skipn'; exact Hm.
Qed.

Lemma pick_group_length lab pos t f g : length (snd (fst (pick_group lab pos t f g))) = length t.
Proof. destruct lab; cbn [pick_group fst snd]; try reflexivity. apply set_nth_length. Qed.

Lemma squeeze_rest_length : forall fuel i t f g t2 f2,
  squeeze_rest fuel i t f g = Ok (t2, f2) -> length t2 = length t.
Proof.
  intros fuel. induction fuel as [|fuel IH]; intros i t f g t2 f2 H; [discriminate|].
  cbn [squeeze_rest] in H.
  destruct (nth_error t i) as [lab|] eqn:E; [|injection H as <- <-; reflexivity].
  destruct lab; try (apply IH in H; exact H).
  destruct (nth_error t (i - 1)) as [lft|]; [|discriminate].
  pose proof (pick_group_length lft (i - 1) t f g) as Hl.
  destruct (pick_group lft (i - 1) t f g) as [[g' t1] f1]. cbn [fst snd] in Hl.
  destruct g' as [gn|]; [|discriminate].
  apply IH in H. rewrite H.
  pose proof (count_lead_s_le (skipn i t1)) as Hc. rewrite skipn_length in Hc.
  assert (i < length t) by (apply nth_error_Some; rewrite E; discriminate).
  rewrite !app_length, firstn_length, repeat_length, skipn_length. lia.
Qed.

Lemma squeeze_left_facts term fus i term1 fus1 g :
  squeeze_left term fus = Ok (i, term1, fus1, g) -> wf_term fus term ->
  length term1 = length term /\ wf_term fus1 term1 /\ (forall gn, g = Some gn -> gn < length fus1).
Proof.
  intros H Hwf. unfold squeeze_left in H.
  destruct term as [|l0 term']; [discriminate|].
  destruct l0; try (injection H as <- <- <- <-; repeat split; try assumption; discriminate).
  remember (Ls :: term') as term eqn:Hterm.
  destruct (nth_error term (count_lead_s term)) as [lab|] eqn:E; [|discriminate].
  destruct (pick_group lab (count_lead_s term) term fus None) as [[g' t1] f1] eqn:Ep.
  destruct (pick_group_facts _ _ _ _ _ _ _ _ Ep Hwf ltac:(discriminate) (nth_error_In _ _ E)) as [Hl1 [_ [Hwf1 Hg1]]].
  destruct g' as [gn|]; [|discriminate].
  injection H as <- <- <- <-.
  assert (count_lead_s term < length term) by (apply nth_error_Some; rewrite E; discriminate).
  repeat split.
  - rewrite app_length, repeat_length, skipn_length. lia.
  - intros n Hn. rewrite add_nth_length. apply in_app_or in Hn. destruct Hn as [Hn|Hn].
    + apply repeat_spec in Hn. injection Hn as ->. apply Hg1. reflexivity.
    + apply Hwf1. eapply In_skipn'; exact Hn.
  - intros gn' [= <-]. rewrite add_nth_length. apply Hg1. reflexivity.
Qed.

Lemma squeeze_phase_length term fus t2 f2 :
  squeeze_phase term fus = Ok (t2, f2) -> wf_term fus term -> length t2 = length term.
Proof.
  unfold squeeze_phase. intros H Hwf.
  destruct (squeeze_left term fus) as [[[[i t1] f1] g]| | | |] eqn:E; try discriminate.
  apply squeeze_left_facts in E; [|exact Hwf]. destruct E as [E _].
  apply squeeze_rest_length in H. lia.
Qed.

Lemma is_nil_length {A} (l : list A) : is_nil l = (length l =? 0).
Proof. destruct l; reflexivity. Qed.

Lemma g_get_0 {A} (l : list A) : g_get l 0%Z = match nth_error l 0 with Some x => GOk x | None => GErrIndex end.
Proof. exact (g_get_nat l 0). Qed.

Lemma zrange2_0 n : zrange2 0 (Z.of_nat n) = zs (seq 0 n).
Proof. exact (zrange2_nat 0 n). Qed.

Lemma while3_spec0 fuel0 t fuel lab :
  length t < fuel -> nth_error t 0 = Some lab ->
  gen_while_3 fuel0 fuel (map lab_of t) 0%Z (lab_of lab)
  = match nth_error t (count_lead_s t) with
    | Some l' => GOk (Z.of_nat (count_lead_s t), lab_of l')
    | None => GErrIndex
    end.
Proof. intros H1 H2. exact (while3_spec fuel0 t fuel 0 lab ltac:(lia) H2). Qed.

Lemma pick_spec_none lab pos t f :
  pos < length t ->
  (if gchar_eqb (glabel_head (lab_of lab)) Cg then GOk (Some (lab_of lab), map lab_of t, gdict f)
   else if glabel_eqb (lab_of lab) GLo then
     gbind (g_unb (Some (GLg (Z.of_nat (length (gdict f)))))) (fun g1 =>
     gbind (g_set (map lab_of t) (Z.of_nat pos) g1) (fun t' =>
     gbind (g_unb (Some (GLg (Z.of_nat (length (gdict f)))))) (fun g2 =>
     GOk (Some (GLg (Z.of_nat (length (gdict f)))), t', dset glabel_eqb g2 1%Z (gdict f)))))
   else GOk (@None glabel, map lab_of t, gdict f))
  = GOk (let '(g', t', f') := pick_group lab pos t f None in (gopt g', map lab_of t', gdict f')).
Proof. exact (pick_spec lab pos t f None). Qed.

(* the whole of `if any_singleton: ...` *)
Lemma squeeze_gen_spec fuel0 t f X :
  length t + 1 < fuel0 -> wf_term f t ->
  squeeze_phase t f <> OutOfFuel ->
  X = (gbind (g_get (map lab_of t) 0)
           (fun x_124 : glabel =>
            gbind
              (if glabel_eqb x_124 GLs
               then
                gbind (gen_while_3 fuel0 fuel0 (map lab_of t) 0 x_124)
                  (fun '(i_132, label_133) =>
                   gbind
                     (if gchar_eqb (glabel_head label_133) Cg
                      then GOk (Some label_133, map lab_of t, gdict f)
                      else
                       if glabel_eqb label_133 GLo
                       then
                        gbind
                          (g_unb
                             (Some
                                (GLg (Z.of_nat (length (gdict f))))))
                          (fun g_136 : glabel =>
                           gbind (g_set (map lab_of t) i_132 g_136)
                             (fun term_137 : list glabel =>
                              gbind
                                (g_unb
                                   (Some
                                      (GLg (Z.of_nat (length (gdict f))))))
                                (fun g_138 : glabel =>
                                 GOk
                                   (Some
                                      (GLg (Z.of_nat (length (gdict f)))),
                                    term_137,
                                    dset glabel_eqb g_138 1%Z
                                      (gdict f)))))
                       else GOk (None, map lab_of t, gdict f))
                     (fun '(g_140, term_141, fuse_sizes_142) =>
                      gbind
                        (g_for (zrange2 0 i_132) (
                           fuse_sizes_142, term_141)
                           (fun (j_145 : Z) '(fuse_sizes_143, term_144) =>
                            gbind (g_unb g_140)
                              (fun g_146 : glabel =>
                               gbind (g_dget glabel_eqb fuse_sizes_143 g_146)
                                 (fun x_147 : Z =>
                                  gbind (g_unb g_140)
                                    (fun g_149 : glabel =>
                                     gbind (g_set term_144 j_145 g_149)
                                       (fun term_150 : list glabel =>
                                        GOk (dset glabel_eqb g_146 (x_147 + 1)%Z fuse_sizes_143, term_150)))))))
                        (fun '(fuse_sizes_151, term_152) => GOk (i_132, g_140, term_152, fuse_sizes_151))))
               else GOk (0%Z, None, map lab_of t, gdict f))
              (fun '(i_153, g_154, term_155, fuse_sizes_156) =>
               gbind (gen_while_4 fuel0 fuel0 g_154 term_155 fuse_sizes_156 (i_153 + 1)%Z)
                     (fun '(_, term_198, fuse_sizes_199, _) => GOk (term_198, fuse_sizes_199))))) ->
  X = res_conv (fun '(t', f') => (map lab_of t', gdict f')) (squeeze_phase t f).
Proof.
  intros Hfuel Hwf Hoof ->. unfold squeeze_phase, squeeze_left in *.
  rewrite g_get_0.
  destruct t as [|l0 t']; [reflexivity|].
  destruct l0.
  2: { (* squeezed axes on the left *)
    remember (Ls :: t') as t eqn:Ht.
    assert (nth_error t 0 = Some Ls) as E0 by (subst t; reflexivity).
    rewrite nth_error_map, E0. cbn [option_map gbind]. rewrite label_eqb_Ls.
    rewrite (while3_spec0 fuel0 t fuel0 Ls ltac:(lia) E0).
    cbv zeta in Hoof |- *.
    set (c := count_lead_s t) in *.
    assert (1 <= c) as Hc1 by (subst c t; cbn [count_lead_s]; lia).
    destruct (nth_error t c) as [lab|] eqn:Ec; [|reflexivity].
    assert (c < length t) as Hc by (apply nth_error_Some; rewrite Ec; discriminate).
    cbn [gbind].
    rewrite (pick_spec_none lab c t f Hc). cbn [gbind].
    destruct (pick_group lab c t f None) as [[g' t1] f1] eqn:Ep.
    destruct (pick_group_facts _ _ _ _ _ _ _ _ Ep Hwf ltac:(discriminate) (nth_error_In _ _ Ec)) as [Hl1 [_ [Hwf1 Hg1]]].
    rewrite zrange2_0.
    destruct g' as [gn|].
    2: { match goal with |- context [g_for _ ?init ?body] =>
           rewrite (g_for_mark_unbound body (fun _ _ _ => eq_refl) c 0 _ _ Hc1) end.
         reflexivity. }
    cbn [gopt option_map].
    match goal with |- context [g_for _ ?init ?body] =>
      rewrite (g_for_mark (Some (GLg (Z.of_nat gn))) body (fun _ _ _ => eq_refl) gn eq_refl c 0 f1 t1
                 ltac:(lia) (Hg1 gn eq_refl)) end.
    cbn [gbind firstn app Nat.add].
    apply while4_spec with (i := S c) (g := Some gn); try reflexivity; try lia.
    - rewrite app_length, repeat_length, skipn_length. lia.
    - intros n Hn. rewrite add_nth_length. apply in_app_or in Hn. destruct Hn as [Hn|Hn].
      + apply repeat_spec in Hn. injection Hn as ->. apply Hg1. reflexivity.
      + apply Hwf1. eapply In_skipn'; exact Hn.
    - intros gn' [= <-]. rewrite add_nth_length. apply Hg1. reflexivity.
    - rewrite app_length, repeat_length, skipn_length. lia.
    - exact Hoof. }
  all: cbn [map nth_error option_map gbind lab_of glabel_eqb].
  all: apply while4_spec with (i := 1) (g := None); try reflexivity; try lia; try assumption; try discriminate.
  all: cbn [length] in *; try lia.
Qed.

(* ------------------------------------------------------------------ the whole routine *)
Theorem gen_eq_model_fuel (shape newshape : list Z) (subsizes : list (option (list Z))) (fuel0 : nat) :
  gen_fuel shape newshape <= fuel0 ->
  calc_reshape_args shape newshape subsizes <> OutOfFuel ->
  gen_calc_reshape_args fuel0 shape newshape subsizes
  = res_conv plan_Z (calc_reshape_args shape newshape subsizes).
Proof.
  intros Hfuel Hoof. unfold gen_fuel in Hfuel.
  unfold gen_calc_reshape_args, calc_reshape_args in *. cbv zeta.
  (* phase 1 *)
  assert (match_raw (main_fuel shape newshape) shape subsizes newshape mstate0 <> OutOfFuel) as Hoof1.
  { intros E. apply Hoof. rewrite match_loop_raw, E. reflexivity. }
  pose proof (while1_spec shape newshape subsizes fuel0 ltac:(lia) (main_fuel shape newshape) fuel0
                shape subsizes newshape mstate0 0 0 0%Z 0%Z [] [] 0%Z [] false [] [] false
                ltac:(unfold main_fuel; lia) eq_refl eq_refl eq_refl ltac:(lia) ltac:(lia)
                eq_refl eq_refl eq_refl eq_refl eq_refl eq_refl eq_refl eq_refl eq_refl Hoof1) as W1.
  rewrite match_loop_raw in Hoof |- *.
  destruct (match_raw (main_fuel shape newshape) shape subsizes newshape mstate0) as [[[sh' nw'] st]| | | |] eqn:E1;
    destruct (gen_while_1 fuel0 fuel0 shape newshape subsizes (Z.of_nat (length shape))
                (Z.of_nat (length newshape)) 0 0 [] [] 0 [] false [] [] false)
      as [[[[[[[[[[j k] u] t] i] sq] sg] e] f] fd]| | | | | |];
    cbn [gmap gbind drop_sq res_conv conv_raw bind] in W1 |- *; try discriminate W1; try reflexivity.
  injection W1 as -> -> -> -> -> -> -> -> ->.
  assert (inv1 (length shape) (length newshape) sh' nw' st) as [I1 [I2 I3]].
  { apply (match_raw_inv _ _ _ _ _ _ _ _ _ _ E1). unfold inv1. cbn. repeat split; try lia. intros n []. }
  cbn [bind finish_match m_k m_term m_unf m_fus m_exp m_sing m_fused] in Hoof |- *.
  clear E1 Hoof1.
  (* the trailing loops *)
  match goal with |- context [g_for ?l (m_sing st, ?t) ?body] =>
    rewrite (g_for_trail_s l body (fun _ _ _ => eq_refl) (m_sing st) t) end.
  cbn [gbind].
  match goal with |- context [g_for ?l (zs (m_exp st)) ?body] =>
    rewrite (g_for_trail_e l (Z.of_nat (m_k st)) body (fun _ _ => eq_refl) (zs (m_exp st))) end.
  cbn [gbind].
  rewrite !is_nil_length, !length_zrange2.
  replace (Z.to_nat (Z.of_nat (length shape) - Z.of_nat (length shape - length sh'))) with (length sh') by lia.
  replace (Z.to_nat (Z.of_nat (length newshape) - Z.of_nat (length newshape - length nw'))) with (length nw') by lia.
  rewrite <- (map_repeat' lab_of Ls), <- map_app.
  rewrite <- (map_repeat' Z.of_nat (m_k st)). fold (zs (repeat (m_k st) (length nw'))).
  unfold zs at 1 2. rewrite <- map_app. fold (zs (m_exp st ++ repeat (m_k st) (length nw'))).
  set (term0 := m_term st ++ repeat Ls (length sh')) in *.
  set (exp0 := m_exp st ++ repeat (m_k st) (length nw')) in *.
  set (sing0 := m_sing st || negb (length sh' =? 0)) in *.
  rewrite !is_nil_length in Hoof. fold sing0 in Hoof.
  assert (wf_term (m_fus st) term0) as Hwf0.
  { intros n Hn. apply in_app_or in Hn. destruct Hn as [Hn|Hn]; [apply I3; exact Hn|].
    apply repeat_spec in Hn. discriminate. }
  assert (length term0 = length shape) as Hl0.
  { unfold term0. rewrite app_length, repeat_length. lia. }
  (* phase 2 *)
  match goal with |- context [g_for (udict ?u) (?a, ?t) ?body] =>
    let H := fresh "H" in
    pose proof (unfuse_for_spec body (fun _ _ _ _ => eq_refl) u 0 term0 []) as H;
    change (ldict_from GLu 0 u) with (udict u) in H; change (zs []) with (@nil Z) in H; rewrite H; clear H end.
  destruct (unfuse_rewrite 0 (m_unf st) term0 []) as [[au t1]| | | |] eqn:E2;
    cbn [res_conv gbind bind] in Hoof |- *; try reflexivity.
  destruct (unfuse_rewrite_inv (m_fus st) _ _ _ _ _ _ E2 Hwf0) as [L2 Hwf2].
  (* phase 3 *)
  assert (Hsq : exists r, (if sing0 then squeeze_phase t1 (m_fus st) else Ok (t1, m_fus st)) = r /\
                          r <> OutOfFuel /\ forall t2 f2, r = Ok (t2, f2) -> length t2 = length t1).
  { eexists. split; [reflexivity|]. split.
    - intros Ex. apply Hoof. rewrite Ex. reflexivity.
    - intros t2 f2 Hr. destruct sing0; [apply (squeeze_phase_length _ _ _ _ Hr Hwf2) | injection Hr as <- <-; reflexivity]. }
  destruct Hsq as [r [Er [Hr1 Hr2]]].
  match goal with |- gbind ?X ?K = _ =>
    assert (X = res_conv (fun '(t', f') => (map lab_of t', gdict f')) r) as Hx end.
  { subst r. destruct sing0; [|reflexivity].
    apply (squeeze_gen_spec fuel0 t1 (m_fus st)); try assumption; try reflexivity. lia. }
  rewrite Hx. clear Hx. rewrite Er in Hoof |- *. clear Er.
  destruct r as [[t2 f2]| | | |]; cbn [res_conv gbind bind] in Hoof |- *; try reflexivity; try (exfalso; apply Hr1; reflexivity).
  specialize (Hr2 t2 f2 eq_refl).
  (* phase 4 *)
  destruct (m_fused st || sing0).
  - rewrite (while6_spec fuel0 f2 (2 * length t2 + 2) fuel0 0 t2 [] [] (gdict f2) (map lab_of t2) [] [] 0%Z
               ltac:(lia) ltac:(cbn; lia) eq_refl eq_refl eq_refl eq_refl eq_refl).
    + destruct (fuse_loop (2 * length t2 + 2) 0 t2 f2 [] []) as [axs| | | |]; cbn [res_conv gbind bind plan_Z]; try reflexivity.
      unfold zs. rewrite map_rev. reflexivity.
    + intros Ex. apply Hoof. rewrite Ex. reflexivity.
  - cbn [res_conv gbind bind plan_Z map]. unfold zs. rewrite map_rev. reflexivity.
Qed.

(* ------------------------------------------------------------------ the model never exhausts its fuel *)
Lemma fuse_scan_no_oof dj : forall sh di s,
  fuse_scan dj di sh s <> OutOfFuel /\ fuse_scan dj di sh s <> ErrUnbound.
Proof.
  intros sh. induction sh as [|d sh IH]; intros di s; cbn [fuse_scan].
  - destruct (di <? dj)%Z; [split; discriminate|]. destruct (di =? dj)%Z; split; discriminate.
  - destruct (di <? dj)%Z; [apply IH|]. destruct (di =? dj)%Z; split; discriminate.
Qed.

Lemma match_raw_no_oof : forall fuel sh subs nw st,
  length sh + length nw < fuel -> match_raw fuel sh subs nw st <> OutOfFuel.
Proof.
  intros fuel. induction fuel as [|fuel IH]; intros sh subs nw st Hf; [lia|].
  cbn [match_raw].
  destruct sh as [|di sh0]; [discriminate|].
  destruct nw as [|dj nw0]; [discriminate|].
  destruct subs as [|sub subs0]; [discriminate|].
  cbn [length] in Hf.
  destruct (match sub with
            | Some ss => if prefix_eqb ss (dj :: nw0) then Some (length ss) else None
            | None => None
            end) as [s|].
  - apply IH. rewrite skipn_length. cbn [length]. lia.
  - destruct (di =? dj)%Z; [apply IH; lia|].
    destruct (di =? 1)%Z; [apply IH; cbn [length]; lia|].
    destruct (dj =? 1)%Z; [apply IH; cbn [length]; lia|].
    destruct (di <? dj)%Z; [|discriminate].
    destruct (fuse_scan_no_oof dj sh0 di 1) as [N1 N2].
    destruct (fuse_scan dj di sh0 1) as [[sh2 s]| | | |] eqn:Ef; try discriminate; try contradiction.
    apply fuse_scan_len in Ef. destruct Ef as [m [_ Hm]]. apply IH. lia.
Qed.

Lemma unfuse_rewrite_no_oof : forall unf n term acc, unfuse_rewrite n unf term acc <> OutOfFuel.
Proof.
  intros unf. induction unf as [|s unf IH]; intros n term acc; cbn [unfuse_rewrite]; [discriminate|].
  destruct (index_of (Lu n) term); [apply IH | discriminate].
Qed.

Lemma squeeze_rest_no_oof : forall fuel i t f g,
  length t - i < fuel -> squeeze_rest fuel i t f g <> OutOfFuel.
Proof.
  intros fuel. induction fuel as [|fuel IH]; intros i t f g Hf; [lia|].
  cbn [squeeze_rest].
  destruct (nth_error t i) as [lab|] eqn:E; [|discriminate].
  assert (i < length t) by (apply nth_error_Some; rewrite E; discriminate).
  destruct lab; try (apply IH; lia).
  destruct (nth_error t (i - 1)) as [lft|]; [|discriminate].
  pose proof (pick_group_length lft (i - 1) t f g) as Hl.
  destruct (pick_group lft (i - 1) t f g) as [[g' t1] f1]. cbn [fst snd] in Hl.
  destruct g' as [gn|]; [|discriminate].
  pose proof (count_lead_s_le (skipn i t1)) as Hc. rewrite skipn_length in Hc.
  apply IH. rewrite !app_length, firstn_length, repeat_length, skipn_length. lia.
Qed.

Definition all_pos (f : list nat) : Prop := forall n s, nth_error f n = Some s -> 1 <= s.

Lemma all_pos_snoc f s : all_pos f -> 1 <= s -> all_pos (f ++ [s]).
Proof.
  intros Hf Hs n x Hn. destruct (Nat.lt_ge_cases n (length f)) as [Hlt|Hge].
  - rewrite nth_error_app1 in Hn by exact Hlt. eapply Hf; exact Hn.
  - rewrite nth_error_app2 in Hn by exact Hge. destruct (n - length f) as [|k]; cbn in Hn.
    + injection Hn as <-. exact Hs.
    + destruct k; discriminate.
Qed.

Lemma all_pos_add_nth f m r : all_pos f -> all_pos (add_nth m r f).
Proof.
  revert m. induction f as [|y f IH]; intros m Hf n s Hn; destruct m as [|m]; cbn [add_nth] in Hn.
  - destruct n; discriminate.
  - destruct n; discriminate.
  - destruct n as [|n]; cbn [nth_error] in Hn.
    + injection Hn as <-. pose proof (Hf 0 y eq_refl). lia.
    + exact (Hf (S n) s Hn).
  - destruct n as [|n]; cbn [nth_error] in Hn.
    + injection Hn as <-. exact (Hf 0 y eq_refl).
    + apply (IH m (fun n s H => Hf (S n) s H) n s Hn).
Qed.

Lemma pick_group_pos lab pos t f g : all_pos f -> all_pos (snd (pick_group lab pos t f g)).
Proof.
  intros Hf. destruct lab; cbn [pick_group snd]; try exact Hf. apply all_pos_snoc; [exact Hf | lia].
Qed.

Lemma squeeze_rest_pos : forall fuel i t f g t2 f2,
  squeeze_rest fuel i t f g = Ok (t2, f2) -> all_pos f -> all_pos f2.
Proof.
  intros fuel. induction fuel as [|fuel IH]; intros i t f g t2 f2 H Hf; [discriminate|].
  cbn [squeeze_rest] in H.
  destruct (nth_error t i) as [lab|]; [|injection H as <- <-; exact Hf].
  destruct lab; try (eapply IH; [exact H | exact Hf]).
  destruct (nth_error t (i - 1)) as [lft|]; [|discriminate].
  pose proof (pick_group_pos lft (i - 1) t f g Hf) as Hp.
  destruct (pick_group lft (i - 1) t f g) as [[g' t1] f1]. cbn [snd] in Hp.
  destruct g' as [gn|]; [|discriminate].
  eapply IH; [exact H|]. apply all_pos_add_nth. exact Hp.
Qed.

Lemma squeeze_phase_pos t f t2 f2 : squeeze_phase t f = Ok (t2, f2) -> all_pos f -> all_pos f2.
Proof.
  unfold squeeze_phase, squeeze_left. intros H Hf.
  destruct t as [|l0 t']; [discriminate|].
  destruct l0; try (eapply squeeze_rest_pos; [exact H | exact Hf]).
  cbv zeta in H.
  destruct (nth_error (Ls :: t') (count_lead_s (Ls :: t'))) as [lab|]; [|discriminate].
  pose proof (pick_group_pos lab (count_lead_s (Ls :: t')) (Ls :: t') f None Hf) as Hp.
  destruct (pick_group lab (count_lead_s (Ls :: t')) (Ls :: t') f None) as [[g' t1] f1]. cbn [snd] in Hp.
  destruct g' as [gn|]; [|discriminate].
  eapply squeeze_rest_pos; [exact H|]. apply all_pos_add_nth. exact Hp.
Qed.

Lemma squeeze_phase_no_oof t f : squeeze_phase t f <> OutOfFuel.
Proof.
  unfold squeeze_phase, squeeze_left.
  destruct t as [|l0 t']; [discriminate|].
  destruct l0; try (apply squeeze_rest_no_oof; cbn [length]; lia).
  cbv zeta.
  destruct (nth_error (Ls :: t') (count_lead_s (Ls :: t'))) as [lab|]; [|discriminate].
  destruct (pick_group lab (count_lead_s (Ls :: t')) (Ls :: t') f None) as [[g' t1] f1].
  destruct g' as [gn|]; [|discriminate].
  apply squeeze_rest_no_oof. lia.
Qed.

Lemma fuse_loop_no_oof fus : all_pos fus -> forall fuel i term cur acc,
  2 * (length term - i) + (if is_nil cur then 0 else 1) < fuel ->
  fuse_loop fuel i term fus cur acc <> OutOfFuel.
Proof.
  intros Hpos fuel. induction fuel as [|fuel IH]; intros i term cur acc Hf; [lia|].
  cbn [fuse_loop].
  destruct (nth_error term i) as [lab|] eqn:E; [|discriminate].
  assert (i < length term) by (apply nth_error_Some; rewrite E; discriminate).
  destruct (match lab with Lg n => nth_error fus n | _ => None end) as [s|] eqn:Es.
  - assert (1 <= s) as Hs by (destruct lab; try discriminate; eapply Hpos; exact Es).
    apply IH. destruct cur; cbn [app is_nil] in *; lia.
  - destruct cur as [|c cur]; cbn [is_nil] in Hf.
    + apply IH. cbn [is_nil]. lia.
    + apply IH. cbn [is_nil].
      rewrite !app_length, firstn_length, repeat_length, skipn_length. lia.
Qed.

Lemma match_raw_pos : forall fuel sh subs nw st sh' nw' st',
  match_raw fuel sh subs nw st = Ok (sh', nw', st') -> all_pos (m_fus st) -> all_pos (m_fus st').
Proof.
  intros fuel. induction fuel as [|fuel IH]; intros sh subs nw st sh' nw' st' H Hp; [discriminate|].
  cbn [match_raw] in H.
  destruct sh as [|di sh0]; [injection H as <- <- <-; exact Hp|].
  destruct nw as [|dj nw0]; [injection H as <- <- <-; exact Hp|].
  destruct subs as [|sub subs0]; [discriminate|].
  destruct (match sub with
            | Some ss => if prefix_eqb ss (dj :: nw0) then Some (length ss) else None
            | None => None
            end) as [s|].
  - apply IH in H; [exact H | exact Hp].
  - destruct (di =? dj)%Z; [apply IH in H; [exact H | exact Hp]|].
    destruct (di =? 1)%Z; [apply IH in H; [exact H | exact Hp]|].
    destruct (dj =? 1)%Z; [apply IH in H; [exact H | exact Hp]|].
    destruct (di <? dj)%Z; [|discriminate].
    destruct (fuse_scan dj di sh0 1) as [[sh2 s]| | | |] eqn:Ef; try discriminate.
    apply fuse_scan_len in Ef. destruct Ef as [m [-> _]].
    apply IH in H; [exact H|]. cbn [m_fus]. apply all_pos_snoc; [exact Hp | lia].
Qed.

Theorem model_no_oof shape newshape subsizes : calc_reshape_args shape newshape subsizes <> OutOfFuel.
Proof.
  unfold calc_reshape_args. rewrite match_loop_raw.
  pose proof (match_raw_no_oof (main_fuel shape newshape) shape subsizes newshape mstate0
                ltac:(unfold main_fuel; lia)) as N1.
  destruct (match_raw (main_fuel shape newshape) shape subsizes newshape mstate0) as [[[sh' nw'] st]| | | |] eqn:E1;
    cbn [bind]; try discriminate; try contradiction.
  assert (all_pos (m_fus st)) as Hp.
  { apply (match_raw_pos _ _ _ _ _ _ _ _ E1). intros n s Hn. destruct n; discriminate. }
  cbn [finish_match m_term m_unf m_fus m_sing m_fused m_exp].
  pose proof (unfuse_rewrite_no_oof (m_unf st) 0 (m_term st ++ repeat Ls (length sh')) []) as N2.
  destruct (unfuse_rewrite 0 (m_unf st) (m_term st ++ repeat Ls (length sh')) []) as [[au t1]| | | |];
    cbn [bind]; try discriminate; try contradiction.
  set (sing := m_sing st || negb (is_nil sh')).
  assert (exists r, (if sing then squeeze_phase t1 (m_fus st) else Ok (t1, m_fus st)) = r /\ r <> OutOfFuel /\
                    forall t2 f2, r = Ok (t2, f2) -> all_pos f2) as [r [-> [Hr1 Hr2]]].
  { eexists. split; [reflexivity|]. split.
    - destruct sing; [apply squeeze_phase_no_oof | discriminate].
    - intros t2 f2 Hr. destruct sing; [eapply squeeze_phase_pos; [exact Hr | exact Hp] | injection Hr as <- <-; exact Hp]. }
  destruct r as [[t2 f2]| | | |]; cbn [bind]; try discriminate; try contradiction.
  specialize (Hr2 t2 f2 eq_refl).
  destruct (m_fused st || sing).
  - pose proof (fuse_loop_no_oof f2 Hr2 (2 * length t2 + 2) 0 t2 [] [] ltac:(cbn [is_nil]; lia)) as N4.
    destruct (fuse_loop (2 * length t2 + 2) 0 t2 f2 [] []); cbn [bind]; try discriminate; contradiction.
  - discriminate.
Qed.

(* the unconditional form *)
Theorem gen_eq_model (shape newshape : list Z) (subsizes : list (option (list Z))) (fuel : nat) :
  gen_fuel shape newshape <= fuel ->
  gen_calc_reshape_args fuel shape newshape subsizes
  = res_conv plan_Z (calc_reshape_args shape newshape subsizes).
Proof. intros Hf. apply gen_eq_model_fuel; [exact Hf | apply model_no_oof]. Qed.

Corollary gen_no_oof shape newshape subsizes fuel :
  gen_fuel shape newshape <= fuel -> gen_calc_reshape_args fuel shape newshape subsizes <> GOutOfFuel.
Proof.
  intros Hf. rewrite (gen_eq_model _ _ _ _ Hf).
  pose proof (model_no_oof shape newshape subsizes) as N.
  destruct (calc_reshape_args shape newshape subsizes); cbn [res_conv]; try discriminate. contradiction.
Qed.

(* the hypotheses hold on a non-trivial instance: (2,3,1,4) -> (6,4) fuses three axes *)
Example gen_eq_model_instance :
  gen_fuel [2; 3; 1; 4]%Z [6; 4]%Z <= 15 /\
  gen_calc_reshape_args 15 [2; 3; 1; 4]%Z [6; 4]%Z [None; None; None; None]
  = GOk ([], [[[0; 1; 2]]], [])%Z.
Proof. split; [vm_compute; lia | vm_compute; reflexivity]. Qed.

(* ------------------------------------------------------------------ theorems about the model carried over to the generated routine *)
(* reshaping to the current shape when no fused axis has its sub-sizes spelled out
   at its own position: the routine generated from the source returns the empty
   plan, with any fuel >= gen_fuel *)
Lemma gen_reshape_same_shape sh subs fuel :
  no_match sh subs -> gen_fuel sh sh <= fuel ->
  gen_calc_reshape_args fuel sh sh subs = GOk ([], [], []).
Proof.
  intros Hnm Hf. rewrite (gen_eq_model _ _ _ _ Hf), (reshape_same_shape sh subs Hnm). reflexivity.
Qed.

Example gen_reshape_same_shape_instance :
  no_match [2; 3; 4]%Z [None; Some [3; 1]%Z; None].
Proof. cbn. repeat split; reflexivity. Qed.

(* on the finite domain of the property (C07_reshape_args_roundtrip_partial etc. are stated
   over it): both calls of a round trip — nothing to compute, an instance of gen_eq_model *)
Lemma gen_eq_model_on_domain n ts nw :
  n <= 5 -> in_dom n ts nw ->
  gen_calc_reshape_args (gen_fuel (shape_of ts) nw) (shape_of ts) nw (subsizes_of ts)
    = res_conv plan_Z (calc_reshape_args (shape_of ts) nw (subsizes_of ts)) /\
  forall ts', reshape_trees ts nw = Some ts' ->
    gen_calc_reshape_args (gen_fuel (shape_of ts') (shape_of ts)) (shape_of ts') (shape_of ts) (subsizes_of ts')
    = res_conv plan_Z (calc_reshape_args (shape_of ts') (shape_of ts) (subsizes_of ts')).
Proof. intros _ _. split; [|intros ts' _]; apply gen_eq_model; lia. Qed.

(* the known findings of C07 are properties of the CODE: the generated routine has them too *)
Lemma gen_refuted_scalar fuel :
  gen_fuel [1; 1; 1]%Z [] <= fuel ->
  gen_calc_reshape_args fuel [1; 1; 1]%Z [] [None; None; None] = GErrIndex.
Proof. intros Hf. rewrite (gen_eq_model _ _ _ _ Hf). vm_compute. reflexivity. Qed.

Lemma gen_refuted_identity fuel :
  gen_fuel [6; 1]%Z [6; 1]%Z <= fuel ->
  gen_calc_reshape_args fuel [6; 1]%Z [6; 1]%Z [Some [6; 1]%Z; None] = GOk ([0], [[[1; 2]]], [])%Z.
Proof. intros Hf. rewrite (gen_eq_model _ _ _ _ Hf). vm_compute. reflexivity. Qed.
