(* Proofs/ReshapeArgsProofs.v — lemmas about the model of calc_reshape_args and
   the plan executor (property C07). *)
From SV Require Import Base.Prelude Model.ReshapeArgs.
From Coq Require Import Permutation.
Local Open Scope nat_scope.

(* ------------------------------------------------------------------ boolean equalities *)
Lemma list_eqb_eq {A} (e : A -> A -> bool) :
  (forall x y, e x y = true -> x = y) ->
  forall l m, list_eqb e l m = true -> l = m.
Proof.
  intros He l. induction l as [|x l IH]; intros [|y m] H; cbn [list_eqb] in H;
    try discriminate; try reflexivity.
  apply andb_true_iff in H. destruct H as [H1 H2].
  f_equal; [apply He; exact H1 | apply IH; exact H2].
Qed.

Lemma list_eqbZ_eq l m : list_eqbZ l m = true -> l = m.
Proof. apply list_eqb_eq. intros x y H. apply Z.eqb_eq. exact H. Qed.

Lemma tree_eqb_eq : forall a b, tree_eqb a b = true -> a = b.
Proof.
  fix IH 1. intros a b.
  destruct a as [i d|cs|]; destruct b as [j e|ds|]; cbn [tree_eqb]; try discriminate.
  - intros H. apply andb_true_iff in H. destruct H as [H1 H2].
    apply Nat.eqb_eq in H1. apply Z.eqb_eq in H2. subst. reflexivity.
  - intros H. f_equal. revert ds H.
    induction cs as [|c cs IHcs]; intros [|d ds] H; try discriminate; try reflexivity.
    apply andb_true_iff in H. destruct H as [H1 H2].
    f_equal; [apply IH; exact H1 | apply IHcs; exact H2].
  - reflexivity.
Qed.

Lemma trees_eqb_eq l m : trees_eqb l m = true -> l = m.
Proof. apply list_eqb_eq. exact tree_eqb_eq. Qed.

(* ------------------------------------------------------------------ the finite domain *)
(* (ts, nw) is an (array, target) pair built from n original axes with sizes in
   {1,2,3,4,6}: ts merges adjacent original axes (merged axes carry their
   sub-sizes), nw drops size-one axes of ts and merges adjacent ones *)
Definition in_dom (n : nat) (ts : list tree) (nw : list Z) : Prop :=
  exists ds, In ds (lists_over sizes_C07 n) /\ In ts (arrays_of ds) /\
             In nw (targets_of (shape_of ts)).

Lemma domb_spec P n ts nw : domb P n = true -> in_dom n ts nw -> P ts nw = true.
Proof.
  intros H [ds [Hds [Hts Hnw]]]. unfold domb in H.
  rewrite forallb_forall in H. specialize (H ds Hds).
  rewrite forallb_forall in H. specialize (H ts Hts).
  rewrite forallb_forall in H. exact (H nw Hnw).
Qed.

Lemma dom_ok_0 : domb case_ok 0 = true. Proof. vm_compute. reflexivity. Qed.
Lemma dom_ok_1 : domb case_ok 1 = true. Proof. vm_compute. reflexivity. Qed.
Lemma dom_ok_2 : domb case_ok 2 = true. Proof. vm_compute. reflexivity. Qed.
Lemma dom_ok_3 : domb case_ok 3 = true. Proof. vm_compute. reflexivity. Qed.
Lemma dom_ok_4 : domb case_ok 4 = true. Proof. vm_compute. reflexivity. Qed.
Lemma dom_ok_5 : domb case_ok 5 = true. Proof. vm_compute. reflexivity. Qed.

Lemma dom_ok n : n <= 5 -> domb case_ok n = true.
Proof.
  intros Hn.
  destruct n as [|[|[|[|[|[|n]]]]]];
    [exact dom_ok_0 | exact dom_ok_1 | exact dom_ok_2 | exact dom_ok_3
     | exact dom_ok_4 | exact dom_ok_5 | lia].
Qed.

Lemma case_ok_dom n ts nw : n <= 5 -> in_dom n ts nw -> case_ok ts nw = true.
Proof. intros Hn Hd. exact (domb_spec case_ok n ts nw (dom_ok n Hn) Hd). Qed.

(* Prop readings of the boolean checks *)
Definition forward_spec (ts : list tree) (nw : list Z) : Prop :=
  exists p ts', calc_reshape_args (shape_of ts) nw (subsizes_of ts) = Ok p /\
                exec_plan p ts = Some ts' /\ shape_of ts' = nw.

Definition roundtrip_spec (ts : list tree) (nw : list Z) : Prop :=
  exists p ts' p',
    calc_reshape_args (shape_of ts) nw (subsizes_of ts) = Ok p /\
    exec_plan p ts = Some ts' /\ shape_of ts' = nw /\
    calc_reshape_args (shape_of ts') (shape_of ts) (subsizes_of ts') = Ok p' /\
    exec_plan p' ts' = Some ts.

Lemma reshape_trees_some ts nw ts' :
  reshape_trees ts nw = Some ts' ->
  exists p, calc_reshape_args (shape_of ts) nw (subsizes_of ts) = Ok p /\ exec_plan p ts = Some ts'.
Proof.
  unfold reshape_trees.
  destruct (calc_reshape_args (shape_of ts) nw (subsizes_of ts)) as [p| | | |]; try discriminate.
  intros H. exists p. split; [reflexivity | exact H].
Qed.

Lemma forward_ok_spec ts nw : forward_ok ts nw = true -> forward_spec ts nw.
Proof.
  unfold forward_ok, forward_spec.
  destruct (reshape_trees ts nw) as [ts'|] eqn:E; [|discriminate].
  intros H. apply list_eqbZ_eq in H.
  destruct (reshape_trees_some _ _ _ E) as [p [Hp He]].
  exists p, ts'. repeat split; assumption.
Qed.

Lemma roundtrip_ok_spec ts nw : roundtrip_ok ts nw = true -> roundtrip_spec ts nw.
Proof.
  unfold roundtrip_ok, roundtrip_spec.
  destruct (reshape_trees ts nw) as [ts'|] eqn:E; [|discriminate].
  intros H. apply andb_true_iff in H. destruct H as [H1 H2]. apply list_eqbZ_eq in H1.
  destruct (reshape_trees ts' (shape_of ts)) as [ts''|] eqn:E2; [|discriminate].
  apply trees_eqb_eq in H2. subst ts''.
  destruct (reshape_trees_some _ _ _ E) as [p [Hp He]].
  destruct (reshape_trees_some _ _ _ E2) as [p' [Hp' He']].
  exists p, ts', p'. repeat split; assumption.
Qed.

Lemma roundtrip_forward ts nw : roundtrip_spec ts nw -> forward_spec ts nw.
Proof.
  intros [p [ts' [p' [H1 [H2 [H3 _]]]]]]. exists p, ts'. repeat split; assumption.
Qed.

(* forward: outside family A the routine terminates within its fuel and its plan
   produces exactly the requested shape *)
Lemma reshape_args_forward n ts nw :
  n <= 5 -> in_dom n ts nw -> scalar_of_ones ts nw = false -> forward_spec ts nw.
Proof.
  intros Hn Hd HA. pose proof (case_ok_dom n ts nw Hn Hd) as H.
  unfold case_ok in H. rewrite HA in H.
  destruct (spelled_clash ts nw).
  - apply forward_ok_spec. exact H.
  - apply roundtrip_forward. apply roundtrip_ok_spec. exact H.
Qed.

(* round trip: outside families A and B the plan for the way back restores the
   original list of trees *)
Lemma reshape_args_roundtrip n ts nw :
  n <= 5 -> in_dom n ts nw -> scalar_of_ones ts nw = false -> spelled_clash ts nw = false ->
  roundtrip_spec ts nw.
Proof.
  intros Hn Hd HA HB. pose proof (case_ok_dom n ts nw Hn Hd) as H.
  unfold case_ok in H. rewrite HA, HB in H. apply roundtrip_ok_spec. exact H.
Qed.

(* family A: every case of it raises IndexError (model of the pinned code) *)
Lemma reshape_args_scalar_of_ones_raises n ts nw :
  n <= 5 -> in_dom n ts nw -> scalar_of_ones ts nw = true ->
  calc_reshape_args (shape_of ts) nw (subsizes_of ts) = ErrIndex.
Proof.
  intros Hn Hd HA. pose proof (case_ok_dom n ts nw Hn Hd) as H.
  unfold case_ok in H. rewrite HA in H.
  destruct (calc_reshape_args (shape_of ts) nw (subsizes_of ts)); try discriminate. reflexivity.
Qed.

(* the pinned witnesses *)
Definition ones3 : list tree := [Leaf 0 1%Z; Leaf 1 1%Z; Leaf 2 1%Z].

Lemma ones3_in_dom : in_dom 3 ones3 [].
Proof.
  exists [1; 1; 1]%Z. split; [|split].
  - vm_compute. tauto.
  - vm_compute. tauto.
  - vm_compute. tauto.
Qed.

(* the property's statement restricted to the finite domain, at full strength *)
Definition reshape_args_ok_full : Prop :=
  forall n ts nw, n <= 5 -> in_dom n ts nw -> roundtrip_spec ts nw.

Lemma reshape_args_refuted_scalar :
  in_dom 3 ones3 [] /\
  calc_reshape_args [1; 1; 1]%Z [] [None; None; None] = ErrIndex.
Proof. split; [exact ones3_in_dom | vm_compute; reflexivity]. Qed.

Definition fused61 : list tree := [Fused [Leaf 0 6%Z; Leaf 1 1%Z]; Leaf 2 1%Z].

Lemma fused61_in_dom : in_dom 3 fused61 (shape_of fused61).
Proof.
  exists [6; 1; 1]%Z. split; [|split].
  - vm_compute. tauto.
  - vm_compute. tauto.
  - vm_compute. tauto.
Qed.

(* reshaping to the current shape is not the identity: the fused axis is
   unfused and its trailing size-one component is fused with the next axis *)
Lemma reshape_args_refuted_identity :
  in_dom 3 fused61 (shape_of fused61) /\
  calc_reshape_args [6; 1]%Z [6; 1]%Z [Some [6; 1]%Z; None] = Ok ([0], [[[1; 2]]], []) /\
  reshape_trees fused61 (shape_of fused61)
  = Some [Leaf 0 6%Z; Fused [Leaf 1 1%Z; Leaf 2 1%Z]] /\
  ~ roundtrip_spec fused61 (shape_of fused61).
Proof.
  split; [exact fused61_in_dom|]. split; [vm_compute; reflexivity|].
  split; [vm_compute; reflexivity|].
  intros [p [ts' [p' [H1 [H2 [H3 [H4 H5]]]]]]].
  vm_compute in H1. injection H1 as <-. vm_compute in H2. injection H2 as <-.
  vm_compute in H4. injection H4 as <-. vm_compute in H5. discriminate.
Qed.

Lemma reshape_args_ok_full_refuted : ~ reshape_args_ok_full.
Proof.
  intros H. destruct reshape_args_refuted_identity as [Hd [_ [_ Hn]]].
  apply Hn. apply (H 3); [lia | exact Hd].
Qed.

(* hypotheses are satisfiable on a non-trivial instance: (2,1,3)-array with the
   first two axes already fused, squeezed and merged to (6,) and back *)
Example roundtrip_example :
  let ts := [Fused [Leaf 0 2%Z; Leaf 1 1%Z]; Leaf 2 3%Z] in
  in_dom 3 ts [6%Z] /\ scalar_of_ones ts [6%Z] = false /\ spelled_clash ts [6%Z] = false /\
  reshape_trees ts [6%Z] = Some [Fused [Fused [Leaf 0 2%Z; Leaf 1 1%Z]; Leaf 2 3%Z]].
Proof.
  cbv zeta. split; [|split; [|split]]; try (vm_compute; reflexivity).
  exists [2; 1; 3]%Z. split; [|split]; vm_compute; tauto.
Qed.

(* ------------------------------------------------------------------ unbounded: reshape to the same shape *)
(* no fused axis has its sub-sizes spelled out by the shape itself at its own
   position (in particular: no axis is fused at all) *)
Fixpoint no_match (sh : list Z) (subs : list (option (list Z))) : Prop :=
  match sh, subs with
  | [], _ => True
  | _ :: sh', sub :: subs' =>
    match sub with Some ss => prefix_eqb ss sh = false | None => True end /\ no_match sh' subs'
  | _ :: _, [] => False
  end.

Lemma match_loop_same : forall sh subs fuel st,
  no_match sh subs -> length sh < fuel ->
  match_loop fuel sh subs sh st
  = Ok (MState (m_k st + length sh) (m_term st ++ repeat Lo (length sh)) (m_unf st) (m_fus st)
               (m_exp st) (m_sing st) (m_fused st)).
Proof.
  induction sh as [|d sh IH]; intros subs fuel st Hnm Hf.
  - destruct fuel as [|fuel]; [cbn [length] in Hf; lia|].
    cbn [match_loop length repeat is_nil negb].
    rewrite !app_nil_r, Nat.add_0_r, orb_false_r. reflexivity.
  - destruct fuel as [|fuel]; [cbn [length] in Hf; lia|].
    destruct subs as [|sub subs]; [cbn [no_match] in Hnm; contradiction|].
    cbn [no_match] in Hnm. destruct Hnm as [Hsub Hnm].
    cbn [length] in Hf.
    cbn [match_loop].
    assert (Hm : match sub with
                 | Some ss => if prefix_eqb ss (d :: sh) then Some (length ss) else None
                 | None => None
                 end = None).
    { destruct sub as [ss|]; [rewrite Hsub|]; reflexivity. }
    rewrite Hm. rewrite Z.eqb_refl.
    rewrite (IH subs fuel _ Hnm); [|lia].
    cbn [m_k m_term m_unf m_fus m_exp m_sing m_fused length repeat].
    rewrite <- app_assoc. cbn [app].
    f_equal. f_equal. lia.
Qed.

Lemma reshape_same_shape sh subs :
  no_match sh subs -> calc_reshape_args sh sh subs = Ok ([], [], []).
Proof.
  intros Hnm. unfold calc_reshape_args, main_fuel.
  rewrite (match_loop_same sh subs _ mstate0 Hnm); [|lia].
  cbn [bind mstate0 m_k m_term m_unf m_fus m_exp m_sing m_fused unfuse_rewrite orb rev app].
  reflexivity.
Qed.

Lemma no_match_none sh : no_match sh (map (fun _ => None) sh).
Proof. induction sh as [|d sh IH]; cbn [no_match map]; [exact I | split; [exact I | exact IH]]. Qed.

(* an array without fused axes reshaped to its own shape: empty plan, identity *)
Lemma reshape_same_shape_unfused sh :
  calc_reshape_args sh sh (map (fun _ => None) sh) = Ok ([], [], []).
Proof. apply reshape_same_shape. apply no_match_none. Qed.

Lemma exec_empty_plan ts : exec_plan ([], [], []) ts = Some ts.
Proof. reflexivity. Qed.

Lemma reshape_trees_same_shape ts :
  no_match (shape_of ts) (subsizes_of ts) -> reshape_trees ts (shape_of ts) = Some ts.
Proof.
  intros H. unfold reshape_trees. rewrite (reshape_same_shape _ _ H). reflexivity.
Qed.

Example same_shape_example :
  no_match [2; 3; 1]%Z [Some [2; 1]%Z; None; None] /\
  calc_reshape_args [2; 3; 1]%Z [2; 3; 1]%Z [Some [2; 1]%Z; None; None] = Ok ([], [], []).
Proof. split; [cbn; tauto | vm_compute; reflexivity]. Qed.
