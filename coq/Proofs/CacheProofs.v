(* Proofs/CacheProofs.v — lemmas for property C15. *)
From Coq Require Import String.
From SV Require Import Base.Prelude Model.Cache Gen.CacheKey Gen.ModeCtx.
Open Scope Z_scope.

(* ================================================================== *)
(* 1. The memo machine refines the function it memoises               *)
(* ================================================================== *)
Section MemoProofs.
  Context {A K V : Type} (keqb : K -> K -> bool)
          (keqb_spec : forall x y, keqb x y = true <-> x = y).
  Context (f : A -> V)
          (keyrel : A -> K -> Prop)     (* "k is a key the code may compute for a" *)
          (key_sound : forall a b k, keyrel a k -> keyrel b k -> f a = f b).

  Notation cache := (@cache K V).

  Definition entry_ok (e : K * V) : Prop := exists a, keyrel a (fst e) /\ snd e = f a.
  Definition consistent (d : cache) : Prop := Forall entry_ok d.

  Lemma lookup_In k (d : cache) v : lookup keqb k d = Some v -> In (k, v) d.
  Proof.
    induction d as [|[k' v'] d IH]; cbn [lookup]; [discriminate|].
    destruct (keqb k k') eqn:E.
    - intros [= ->]. apply keqb_spec in E. subst. now left.
    - intros Hl. right. auto.
  Qed.

  Lemma lookup_None_notin k (d : cache) : lookup keqb k d = None -> ~ In k (keys d).
  Proof.
    induction d as [|[k' v'] d IH]; cbn [lookup keys map fst]; [intros _ []|].
    destruct (keqb k k') eqn:E; [discriminate|].
    intros Hl [Hk|Hk].
    - subst k'. assert (keqb k k = true) by now apply keqb_spec. congruence.
    - now apply IH.
  Qed.

  Lemma dpop_incl k (d : cache) e : In e (dpop keqb k d) -> In e d.
  Proof.
    induction d as [|[k' v'] d IH]; cbn [dpop]; [tauto|].
    destruct (keqb k k'); cbn [In]; intuition.
  Qed.

  Lemma consistent_sub (d d' : cache) : (forall e, In e d' -> In e d) -> consistent d -> consistent d'.
  Proof. unfold consistent. rewrite !Forall_forall. auto. Qed.

  Lemma move_to_end_incl k (d : cache) e : In e (move_to_end keqb k d) -> In e d.
  Proof.
    unfold move_to_end. destruct (lookup keqb k d) eqn:E; [|auto].
    rewrite in_app_iff. intros [Hi|[<-|[]]]; [now apply dpop_incl in Hi | now apply lookup_In].
  Qed.

  Lemma tl_incl (d : cache) e : In e (tl d) -> In e d.
  Proof. destruct d; cbn; auto. Qed.

  Lemma removelast_incl (d : cache) e : In e (removelast d) -> In e d.
  Proof.
    induction d as [|x d IH]; [auto|]. cbn [removelast]. destruct d as [|y d]; [intros []|].
    intros [<-|Hi]; [now left | right; auto].
  Qed.

  Lemma popitem_incl p (d : cache) e : In e (popitem p d) -> In e d.
  Proof. unfold popitem. destruct (pop_oldest p); [apply tl_incl | apply removelast_incl]. Qed.

  Lemma evict_incl p m (d : cache) e : In e (evict p m d) -> In e d.
  Proof. unfold evict. destruct (too_long m d); [apply popitem_incl | auto]. Qed.

  Lemma dset_In k v (d : cache) e : In e (dset keqb k v d) -> In e d \/ e = (k, v) \/ (exists k', keqb k k' = true /\ e = (k', v)).
  Proof.
    induction d as [|[k' v'] d IH]; cbn [dset].
    - intros [<-|[]]. auto.
    - destruct (keqb k k') eqn:E.
      + intros [<-|Hi]; [right; right; eauto | left; now right].
      + intros [<-|Hi]; [left; now left|]. destruct (IH Hi) as [H1|H2]; [left; now right | auto].
  Qed.

  Lemma consistent_dset k a (d : cache) : keyrel a k -> consistent d -> consistent (dset keqb k (f a) d).
  Proof.
    intros Hk Hc. unfold consistent in *. rewrite Forall_forall in *. intros e He.
    destruct (dset_In _ _ _ _ He) as [H1|[->|(k' & E & ->)]]; [auto | exists a; split; [exact Hk | reflexivity] |].
    apply keqb_spec in E. subst k'. exists a; split; [exact Hk | reflexivity].
  Qed.

  Lemma lookup_consistent k (d : cache) v a : consistent d -> keyrel a k -> lookup keqb k d = Some v -> v = f a.
  Proof.
    intros Hc Hk Hl. apply lookup_In in Hl. unfold consistent in Hc. rewrite Forall_forall in Hc.
    destruct (Hc _ Hl) as (b & Hb & Hv). cbn [fst snd] in *. subst v. symmetry. eapply key_sound; eauto.
  Qed.

  Section Machine.
    Context (p : policy) (bypass : A -> bool) (maxsize : Z).

    Lemma stepk_correct d k a :
      consistent d -> keyrel a k ->
      snd (stepk keqb p f bypass maxsize d k a) = f a /\ consistent (fst (stepk keqb p f bypass maxsize d k a)).
    Proof.
      intros Hc Hk. unfold stepk.
      destruct ((maxsize =? 0) || bypass a); [now split|].
      destruct (lookup keqb k d) as [v|] eqn:El; cbn [fst snd].
      - split; [eapply lookup_consistent; eauto|].
        destruct (move_on_hit p); [|exact Hc].
        eapply consistent_sub; [|exact Hc]. apply move_to_end_incl.
      - split; [reflexivity|].
        eapply consistent_sub; [apply evict_incl|]. now apply consistent_dset.
    Qed.

    (* outputs of every history equal the un-memoised function, from every consistent cache *)
    Theorem memo_refines_rel : forall h d,
      consistent d -> Forall (fun ka => keyrel (snd ka) (fst ka)) h ->
      snd (runk keqb p f bypass maxsize d h) = map (fun ka => f (snd ka)) h /\
      consistent (fst (runk keqb p f bypass maxsize d h)).
    Proof.
      induction h as [|[k a] h IH]; intros d Hc Hh; cbn [runk map].
      - now split.
      - inversion Hh as [|? ? Hk Hh']; subst. cbn [fst snd] in Hk.
        destruct (stepk_correct d k a Hc Hk) as [Hv Hc1].
        destruct (stepk keqb p f bypass maxsize d k a) as [d1 v] eqn:Es. cbn [fst snd] in *.
        destruct (IH d1 Hc1 Hh') as [Hvs Hc2].
        destruct (runk keqb p f bypass maxsize d1 h) as [d2 vs]. cbn [fst snd] in *.
        split; [now rewrite Hv, Hvs | exact Hc2].
    Qed.

    (* ---- shape of the dict: no duplicate keys, never longer than maxsize ---- *)
    Lemma keys_dpop_notin k (d : cache) : NoDup (keys d) -> ~ In k (keys (dpop keqb k d)) /\ NoDup (keys (dpop keqb k d)).
    Proof.
      induction d as [|[k' v'] d IH]; cbn [dpop keys map fst]; [intros; split; [tauto|constructor]|].
      intros Hn. inversion Hn as [|? ? Hni Hn']; subst.
      destruct (keqb k k') eqn:E.
      - apply keqb_spec in E. subst. now split.
      - destruct (IH Hn') as [H1 H2]. cbn [keys map fst]. split.
        + intros [->|Hi]; [|tauto]. assert (keqb k k = true) by now apply keqb_spec. congruence.
        + constructor; [|exact H2]. intros Hi. apply Hni. unfold keys in *. apply in_map_iff in Hi.
          destruct Hi as (e & He1 & He2). apply dpop_incl in He2. apply in_map_iff. eauto.
    Qed.

    Lemma nodup_snoc (l : list K) k : NoDup l -> ~ In k l -> NoDup (l ++ [k]).
    Proof.
      induction l as [|x l IH]; cbn [app]; intros Hn Hk; [repeat constructor; tauto|].
      inversion Hn; subst. constructor.
      - rewrite in_app_iff. cbn [In]. intros [?|[?|[]]]; [tauto | subst; apply Hk; now left].
      - apply IH; [assumption | intros ?; apply Hk; now right].
    Qed.

    Lemma nodup_move k (d : cache) : NoDup (keys d) -> NoDup (keys (move_to_end keqb k d)).
    Proof.
      intros Hn. unfold move_to_end. destruct (lookup keqb k d); [|exact Hn].
      unfold keys. rewrite map_app. cbn [map fst]. destruct (keys_dpop_notin k d Hn). now apply nodup_snoc.
    Qed.

    Lemma keys_dset_absent k v (d : cache) : lookup keqb k d = None -> dset keqb k v d = d ++ [(k, v)].
    Proof.
      induction d as [|[k' v'] d IH]; cbn [lookup dset app]; [reflexivity|].
      destruct (keqb k k'); [discriminate|]. intros Hl. now rewrite IH.
    Qed.

    Lemma nodup_tl (l : list K) : NoDup l -> NoDup (tl l).
    Proof. destruct l; cbn; [auto|]. now inversion 1. Qed.

    Lemma nodup_removelast (l : list K) : NoDup l -> NoDup (removelast l).
    Proof.
      induction l as [|x l IH]; [auto|]. intros Hn. inversion Hn as [|? ? Hx Hl]; subst.
      cbn [removelast]. destruct l as [|y l]; [constructor|]. constructor; [|auto].
      intros Hi. apply Hx. revert Hi. generalize (y :: l). intros l0.
      induction l0 as [|z l0 IH0]; [intros []|]. cbn [removelast]. destruct l0; [intros []|].
      intros [->|Hi]; [now left | right; auto].
    Qed.

    Lemma keys_tl (d : cache) : keys (tl d) = tl (keys d).
    Proof. now destruct d. Qed.
    Lemma keys_removelast (d : cache) : keys (removelast d) = removelast (keys d).
    Proof. induction d as [|x d IH]; [reflexivity|]. cbn [removelast keys map]. destruct d; [reflexivity|]. unfold keys in IH. cbn [map] in *. now rewrite IH. Qed.

    Lemma nodup_popitem (d : cache) : NoDup (keys d) -> NoDup (keys (popitem p d)).
    Proof.
      unfold popitem. destruct (pop_oldest p); [rewrite keys_tl; apply nodup_tl | rewrite keys_removelast; apply nodup_removelast].
    Qed.

    Lemma length_dpop_present k (d : cache) v : lookup keqb k d = Some v -> S (length (dpop keqb k d)) = length d.
    Proof.
      revert v. induction d as [|[k' v'] d IH]; cbn [lookup dpop length]; [discriminate|].
      intros v. destruct (keqb k k'); [reflexivity|]. intros Hl. cbn [length]. now rewrite (IH _ Hl).
    Qed.

    Lemma length_move k (d : cache) : length (move_to_end keqb k d) = length d.
    Proof.
      unfold move_to_end. destruct (lookup keqb k d) eqn:E; [|reflexivity].
      rewrite app_length. cbn [length]. rewrite <- (length_dpop_present _ _ _ E). lia.
    Qed.

    Lemma length_popitem (d : cache) : length (popitem p d) = pred (length d).
    Proof.
      unfold popitem. destruct (pop_oldest p); [now destruct d|].
      induction d as [|x d IH]; [reflexivity|]. cbn [removelast]. destruct d; [reflexivity|].
      cbn [length] in *. now rewrite IH.
    Qed.

    Definition shape_ok (d : cache) : Prop :=
      NoDup (keys d) /\ (0 < maxsize -> Z.of_nat (length d) <= maxsize).

    Lemma stepk_shape d k a : shape_ok d -> shape_ok (fst (stepk keqb p f bypass maxsize d k a)).
    Proof.
      intros [Hn Hl]. unfold stepk.
      destruct ((maxsize =? 0) || bypass a); [now split|].
      destruct (lookup keqb k d) as [v|] eqn:El; cbn [fst].
      - destruct (move_on_hit p); [|now split]. split; [now apply nodup_move | now rewrite length_move].
      - rewrite (keys_dset_absent _ _ _ El). unfold evict, too_long.
        assert (Hn1 : NoDup (keys (d ++ [(k, f a)]))).
        { unfold keys. rewrite map_app. cbn [map fst]. apply nodup_snoc; [exact Hn | now apply lookup_None_notin]. }
        destruct (Z.of_nat (length (d ++ [(k, f a)])) >? maxsize) eqn:Eg.
        + split; [now apply nodup_popitem|]. intros Hm. specialize (Hl Hm).
          rewrite length_popitem, app_length. cbn [length]. lia.
        + split; [exact Hn1 | intros _; lia].
    Qed.

    Theorem memo_shape : forall h d, shape_ok d -> shape_ok (fst (runk keqb p f bypass maxsize d h)).
    Proof.
      induction h as [|[k a] h IH]; intros d Hs; cbn [runk]; [exact Hs|].
      pose proof (stepk_shape d k a Hs) as H1.
      destruct (stepk keqb p f bypass maxsize d k a) as [d1 v]. cbn [fst] in H1.
      specialize (IH d1 H1). destruct (runk keqb p f bypass maxsize d1 h) as [d2 vs]. exact IH.
    Qed.

    (* ============================================================== *)
    (* 2. Threads                                                      *)
    (* ============================================================== *)
    Section ThreadProofs.
      Context (tolerant : bool).
      Notation thread := (@thread A K V).
      Notation tstep := (thread_step keqb tolerant p f bypass maxsize).

      Definition result_ok (r : K * A * option V) : Prop :=
        forall v, snd r = Some v -> v = f (snd (fst r)).
      Definition pc_ok (a : A) (q : @pc V) : Prop :=
        match q with PMove v | PLen v | PPop v => v = f a | _ => True end.
      Definition thread_ok (t : thread) : Prop :=
        Forall (fun ka => keyrel (snd ka) (fst ka)) (todo t) /\
        Forall result_ok (results t) /\
        match todo t with [] => True | (k, a) :: _ => pc_ok a (at_pc t) end.

      Lemma finish_ok (t : thread) k a rest r :
        todo t = (k, a) :: rest -> thread_ok t -> (forall v, r = Some v -> v = f a) -> thread_ok (finish t r).
      Proof.
        intros Et (Ht & Hr & _) Hv. unfold finish. rewrite Et. unfold thread_ok. cbn [todo results at_pc].
        rewrite Et in Ht. inversion Ht; subst. split; [assumption|]. split.
        - apply Forall_app. split; [assumption|]. constructor; [|constructor]. exact Hv.
        - destruct rest as [|[? ?] ?]; exact I.
      Qed.

      Lemma goto_ok (t : thread) k a rest q :
        todo t = (k, a) :: rest -> thread_ok t -> pc_ok a q -> thread_ok (goto t q).
      Proof.
        intros Et (Ht & Hr & _) Hq. unfold goto, thread_ok. cbn [todo results at_pc]. rewrite Et.
        rewrite Et in Ht. auto.
      Qed.

      Lemma thread_step_ok d t :
        consistent d -> thread_ok t -> consistent (fst (tstep d t)) /\ thread_ok (snd (tstep d t)).
      Proof.
        intros Hc Hok. unfold thread_step.
        destruct (todo t) as [|[k a] rest] eqn:Et; [now split|].
        assert (Hk : keyrel a k).
        { destruct Hok as (Ht & _). rewrite Et in Ht. now inversion Ht. }
        assert (Hpc : pc_ok a (at_pc t)).
        { destruct Hok as (_ & _ & Hp). now rewrite Et in Hp. }
        destruct (at_pc t) as [|v| |v|v] eqn:Epc; cbn [pc_ok] in Hpc.
        - destruct ((maxsize =? 0) || bypass a); cbn [fst snd].
          + split; [exact Hc|]. eapply finish_ok; eauto. now intros v [= <-].
          + destruct (lookup keqb k d) as [v|] eqn:El.
            * assert (v = f a) by (eapply lookup_consistent; eauto).
              destruct (move_on_hit p); cbn [fst snd]; (split; [exact Hc|]).
              -- eapply goto_ok; eauto.
              -- eapply finish_ok; eauto. intros ? [= <-]. assumption.
            * cbn [fst snd]. split; [exact Hc|]. eapply goto_ok; eauto; exact I.
        - destruct (dhas keqb k d); cbn [fst snd].
          + split; [eapply consistent_sub; [apply move_to_end_incl|exact Hc]|].
            eapply finish_ok; eauto. intros ? [= <-]. assumption.
          + split; [exact Hc|]. eapply goto_ok; eauto; exact I.
        - cbn [fst snd]. split; [now apply consistent_dset|]. eapply goto_ok; eauto; reflexivity.
        - destruct (too_long maxsize d); cbn [fst snd]; (split; [exact Hc|]).
          + eapply goto_ok; eauto.
          + eapply finish_ok; eauto. intros ? [= <-]. assumption.
        - destruct d as [|e d]; cbn [fst snd].
          + split; [exact Hc|]. eapply finish_ok; eauto. destruct tolerant; [intros ? [= <-]; assumption | discriminate].
          + split; [eapply consistent_sub; [apply popitem_incl|exact Hc]|].
            eapply finish_ok; eauto. intros ? [= <-]. assumption.
      Qed.

      Lemma step_nth_ok : forall i d ts,
        consistent d -> Forall thread_ok ts ->
        consistent (fst (step_nth keqb tolerant p f bypass maxsize i d ts)) /\
        Forall thread_ok (snd (step_nth keqb tolerant p f bypass maxsize i d ts)).
      Proof.
        intros i d ts. revert i d. induction ts as [|t ts IH]; intros i d Hc Hts; cbn [step_nth]; [cbn [fst snd]; split; [assumption | constructor]|].
        inversion Hts as [|? ? Ht Hts']; subst.
        destruct i as [|j].
        - destruct (thread_step_ok d t Hc Ht) as [H1 H2]. destruct (tstep d t) as [d' t']. cbn [fst snd] in *.
          split; [exact H1 | now constructor].
        - destruct (IH j d Hc Hts') as [H1 H2].
          destruct (step_nth keqb tolerant p f bypass maxsize j d ts) as [d' ts'']. cbn [fst snd] in *.
          split; [exact H1 | now constructor].
      Qed.

      (* in every interleaving, every value that is returned is the right one *)
      Theorem concurrent_value_correct_rel : forall sched d ts,
        consistent d -> Forall thread_ok ts ->
        consistent (fst (run_sched keqb tolerant p f bypass maxsize d ts sched)) /\
        Forall thread_ok (snd (run_sched keqb tolerant p f bypass maxsize d ts sched)).
      Proof.
        induction sched as [|i sched IH]; intros d ts Hc Hts; cbn [run_sched]; [now split|].
        destruct (step_nth_ok i d ts Hc Hts) as [H1 H2].
        destruct (step_nth keqb tolerant p f bypass maxsize i d ts) as [d' ts']. cbn [fst snd] in *.
        now apply IH.
      Qed.

      Lemma spawn_ok calls : Forall (fun ka => keyrel (snd ka) (fst ka)) calls -> thread_ok (spawn calls).
      Proof. intros Hc. unfold thread_ok, spawn. cbn [todo results at_pc]. repeat split; [assumption|constructor|]. destruct calls as [|[? ?] ?]; exact I. Qed.

      (* progress: a thread with calls left gets strictly closer to the end at every step it is given *)
      Lemma thread_step_progress d t :
        todo t <> [] -> (steps_left (snd (tstep d t)) < steps_left t)%nat.
      Proof.
        intros Hne. unfold thread_step, steps_left at 2.
        destruct (todo t) as [|[k a] rest] eqn:Et; [congruence|].
        assert (Hfin : forall r, (steps_left (finish t r) <= 5 * length rest)%nat).
        { intros r. unfold finish, steps_left. rewrite Et. cbn [todo at_pc]. destruct rest as [|? rest']; cbn [length pc_rank]; lia. }
        assert (Hgo : forall q, steps_left (goto t q) = (5 * length rest + pc_rank q)%nat).
        { intros q. unfold goto, steps_left. cbn [todo at_pc]. now rewrite Et. }
        destruct (at_pc t) as [|v| |v|v]; cbn [pc_rank].
        - destruct ((maxsize =? 0) || bypass a); cbn [snd]; [specialize (Hfin (Some (f a))); lia|].
          destruct (lookup keqb k d) as [v|]; [destruct (move_on_hit p)|]; cbn [snd];
            rewrite ?Hgo; cbn [pc_rank]; try lia. specialize (Hfin (Some v)); lia.
        - destruct (dhas keqb k d); cbn [snd]; rewrite ?Hgo; cbn [pc_rank]; [specialize (Hfin (Some v))|]; lia.
        - cbn [snd]. rewrite Hgo. cbn [pc_rank]. lia.
        - destruct (too_long maxsize d); cbn [snd]; rewrite ?Hgo; cbn [pc_rank]; [|specialize (Hfin (Some v))]; lia.
        - destruct d; cbn [snd]; [specialize (Hfin (if tolerant then Some v else None)) | specialize (Hfin (Some v))]; lia.
      Qed.
    End ThreadProofs.

    (* with the tolerant eviction no call ever raises *)
    Section Tolerant.
      Notation thread := (@thread A K V).
      Definition no_raise (t : thread) : Prop := Forall (fun r => snd r <> None) (results t).

      Lemma finish_no_raise (t : thread) v : no_raise t -> no_raise (finish t (Some v)).
      Proof.
        unfold no_raise, finish. destruct (todo t) as [|[k a] rest]; [auto|]. cbn [results]. intros Hn.
        apply Forall_app. split; [assumption|]. constructor; [cbn; discriminate | constructor].
      Qed.

      Lemma thread_step_no_raise d t : no_raise t -> no_raise (snd (thread_step keqb true p f bypass maxsize d t)).
      Proof.
        intros Hn. unfold thread_step. destruct (todo t) as [|[k a] rest] eqn:Et; [exact Hn|].
        destruct (at_pc t) as [|v| |v|v].
        - destruct ((maxsize =? 0) || bypass a); [now apply finish_no_raise|].
          destruct (lookup keqb k d); [destruct (move_on_hit p)|]; cbn [snd]; try exact Hn. now apply finish_no_raise.
        - destruct (dhas keqb k d); cbn [snd]; [now apply finish_no_raise | exact Hn].
        - exact Hn.
        - destruct (too_long maxsize d); cbn [snd]; [exact Hn | now apply finish_no_raise].
        - destruct d; cbn [snd]; now apply finish_no_raise.
      Qed.

      Lemma step_nth_no_raise : forall i d ts, Forall no_raise ts ->
        Forall no_raise (snd (step_nth keqb true p f bypass maxsize i d ts)).
      Proof.
        intros i d ts. revert i d. induction ts as [|t ts IH]; intros i d Hts; cbn [step_nth]; [constructor|].
        inversion Hts as [|? ? Ht Hts']; subst. destruct i as [|j].
        - pose proof (thread_step_no_raise d t Ht) as H1.
          destruct (thread_step keqb true p f bypass maxsize d t) as [d' t']. cbn [snd] in *. now constructor.
        - pose proof (IH j d Hts') as H1.
          destruct (step_nth keqb true p f bypass maxsize j d ts) as [d' ts'']. cbn [snd] in *. now constructor.
      Qed.

      Theorem concurrent_never_raises : forall sched d ts, Forall no_raise ts ->
        Forall no_raise (snd (run_sched keqb true p f bypass maxsize d ts sched)).
      Proof.
        induction sched as [|i sched IH]; intros d ts Hts; cbn [run_sched]; [exact Hts|].
        pose proof (step_nth_no_raise i d ts Hts) as H1.
        destruct (step_nth keqb true p f bypass maxsize i d ts) as [d' ts']. cbn [snd] in *. now apply IH.
      Qed.
    End Tolerant.
  End Machine.
End MemoProofs.

(* the functional-key presentation and the identity key of functools.lru_cache *)
Section MemoFunctional.
  Context {A K V : Type} (keqb : K -> K -> bool)
          (keqb_spec : forall x y, keqb x y = true <-> x = y).

  Theorem memo_refines (key : A -> K) (f : A -> V) :
    (forall a b, key a = key b -> f a = f b) ->
    forall p bypass maxsize (d : @cache K V) h,
      consistent f (fun a k => key a = k) d ->
      snd (run keqb key f p bypass maxsize d h) = map f h /\
      consistent f (fun a k => key a = k) (fst (run keqb key f p bypass maxsize d h)).
  Proof.
    intros Hs p bypass maxsize d h Hc. unfold run.
    destruct (memo_refines_rel keqb keqb_spec f (fun a k => key a = k)
                (fun a b k Ha Hb => Hs a b (eq_trans Ha (eq_sym Hb))) p bypass maxsize
                (map (fun a => (key a, a)) h) d Hc) as [H1 H2].
    - apply Forall_forall. intros ka Hi. apply in_map_iff in Hi. destruct Hi as (a & <- & _). reflexivity.
    - split; [|exact H2]. rewrite H1, map_map. reflexivity.
  Qed.
End MemoFunctional.

(* ================================================================== *)
(* 3. The context manager, on the GENERATED terms                      *)
(* ================================================================== *)
Lemma lookup_dset_same (k : string) v (d : env) : lookup String.eqb k (dset String.eqb k v d) = Some v.
Proof.
  induction d as [|[k' v'] d IH]; cbn [dset lookup].
  - now rewrite String.eqb_refl.
  - destruct (String.eqb k k') eqn:E; cbn [lookup]; rewrite E; auto.
Qed.

Definition mode_of (g : env) : option val := lookup String.eqb mode_global g.

(* `with default_tensordot_mode(m): body` — for EVERY body (it may change the
   mode itself, may raise): the body runs with mode m, the mode afterwards is the
   mode before, and the with-statement raises exactly when the body does. *)
Theorem mode_restored : forall (body : env -> env * bool) (m : val) (g : env) (v : val),
  mode_of g = Some v ->
  mode_of (fst (with_block default_tensordot_mode_def m body g)) = Some v /\
  snd (with_block default_tensordot_mode_def m body g) = snd (body (dset String.eqb mode_global m g)).
Proof.
  intros body m g v Hg. unfold mode_of, mode_global in *.
  unfold with_block, call_with, default_tensordot_mode_def. cbn. rewrite Hg. cbn.
  destruct (body _) as [g' r]. cbn.
  rewrite lookup_dset_same. destruct r; cbn; split; reflexivity.
Qed.

Theorem mode_restored_nested : forall (ms : list val) (body : env -> env * bool) (g : env) (v : val),
  ms <> [] -> mode_of g = Some v ->
  mode_of (fst (nested default_tensordot_mode_def ms body g)) = Some v.
Proof.
  intros [|m ms] body g v Hne Hg; [congruence|]. cbn [nested].
  exact (proj1 (mode_restored (nested default_tensordot_mode_def ms body) m g v Hg)).
Qed.

(* the innermost body of n nested with-blocks sees the innermost mode *)
Theorem mode_inner_sees : forall (body : env -> env * bool) (m : val) (g : env) (v : val),
  mode_of g = Some v -> mode_of (dset String.eqb mode_global m g) = Some m.
Proof. intros. apply lookup_dset_same. Qed.

Theorem set_default_none_noop : forall g, call_with set_default_tensordot_mode_def [VNone] no_body g = (g, Normal).
Proof. intros g. reflexivity. Qed.

Theorem set_default_some : forall g m,
  call_with set_default_tensordot_mode_def [VMode m] no_body g = (dset String.eqb mode_global (VMode m) g, Normal).
Proof. intros g m. unfold call_with, set_default_tensordot_mode_def. cbn. destruct (m =? m); reflexivity. Qed.

Theorem get_default_reads : forall g v, mode_of g = Some v ->
  call_with get_default_tensordot_mode_def [] no_body g = (g, Returned v).
Proof. intros g v Hg. unfold mode_of, mode_global in Hg. unfold call_with, get_default_tensordot_mode_def. cbn. now rewrite Hg. Qed.

(* the hypotheses are satisfiable and the theorem has teeth: the same function
   WITHOUT try/finally does not restore the mode when the body raises *)
Definition ctx_without_finally : fundef :=
  {| params := ["mode"%string];
     fbody := Seq (Global mode_global) (Seq (Assign "old_mode" (EName mode_global))
              (Seq (Assign mode_global (EName "mode")) (Seq Yield (Assign mode_global (EName "old_mode"))))) |}.
Definition raising_body : env -> env * bool := fun g => (g, true).
Example mode_example_state : mode_of [(mode_global, VMode 7)] = Some (VMode 7).
Proof. reflexivity. Qed.
Example mode_not_restored_without_finally :
  mode_of (fst (with_block ctx_without_finally (VMode 1) raising_body [(mode_global, VMode 7)])) = Some (VMode 1).
Proof. reflexivity. Qed.
Example mode_restored_instance :
  mode_of (fst (nested default_tensordot_mode_def [VMode 1; VMode 2; VMode 3] raising_body [(mode_global, VMode 7)]))
  = Some (VMode 7).
Proof. reflexivity. Qed.

(* ================================================================== *)
(* 4. Generated facts about the source text                            *)
(* ================================================================== *)
Lemma attr_eqb_eq a b : attr_eqb a b = true <-> a = b.
Proof. destruct a, b; cbn; split; congruence. Qed.
Lemma rhs_eqb_eq a b : rhs_eqb a b = true <-> a = b.
Proof. destruct a, b; cbn; split; congruence. Qed.

Lemma sites_fresh_sound all : sites_fresh all = true ->
  forall s, In s all ->
    (s_attr s <> A_hashkey ->
       exists s', In s' all /\ s_func s' = s_func s /\ s_obj s' = s_obj s /\ s_attr s' = A_hashkey /\ s_rhs s' = RNone) /\
    (s_attr s = A_hashkey -> s_rhs s <> ROther).
Proof.
  unfold sites_fresh. rewrite forallb_forall. intros Hall s Hs. specialize (Hall s Hs). unfold site_ok in Hall.
  destruct (attr_eqb (s_attr s) A_hashkey) eqn:Ea.
  - apply attr_eqb_eq in Ea. split; [congruence|]. intros _ Hr. rewrite Hr in Hall. discriminate.
  - split.
    + intros _. apply existsb_exists in Hall. destruct Hall as (s' & Hi & Hb).
      unfold same_object, is_reset in Hb. rewrite !andb_true_iff in Hb. destruct Hb as [[Hf Ho] [Ha Hr]].
      apply String.eqb_eq in Hf, Ho. apply attr_eqb_eq in Ha. apply rhs_eqb_eq in Hr.
      exists s'. repeat split; auto.
    + intros Ha. apply attr_eqb_eq in Ha. congruence.
Qed.

(* every function that sets a content attribute of a BlockIndex / SubIndexInfo
   resets that object's memo in the same function; the memo is otherwise only
   written by `hashkey` itself *)
Theorem hashkey_fresh : forall s, In s attr_sites ->
    (s_attr s <> A_hashkey ->
       exists s', In s' attr_sites /\ s_func s' = s_func s /\ s_obj s' = s_obj s /\ s_attr s' = A_hashkey /\ s_rhs s' = RNone) /\
    (s_attr s = A_hashkey -> s_rhs s <> ROther).
Proof. apply sites_fresh_sound. vm_compute. reflexivity. Qed.

Theorem index_tables_never_mutated : table_mutations = [].
Proof. reflexivity. Qed.

Theorem lru_helpers_pure : forall h, In h lru_helpers -> h_global_writes h = [] /\ h_arg_mutations h = [].
Proof.
  assert (Hb : forallb helper_pure lru_helpers = true) by (vm_compute; reflexivity).
  rewrite forallb_forall in Hb. intros h Hi. specialize (Hb h Hi). unfold helper_pure in Hb.
  apply andb_true_iff in Hb. destruct Hb as [H1 H2].
  destruct (h_global_writes h); [|discriminate]. destruct (h_arg_mutations h); [|discriminate]. now split.
Qed.

(* ================================================================== *)
(* 5. Soundness of the generated keys                                  *)
(* ================================================================== *)
Section IndexInd.
  Context {C hash : Type} (P : index C hash -> Prop)
          (HL : forall cm d m, P (Leaf cm d m))
          (HF : forall cm d subs ext sm m, Forall P subs -> P (Fused cm d subs ext sm m)).
  Fixpoint index_ind2 (ix : index C hash) : P ix :=
    match ix with
    | Leaf cm d m => HL cm d m
    | Fused cm d subs ext sm m =>
        HF cm d subs ext sm m
           ((fix go (l : list (index C hash)) : Forall P l :=
               match l with [] => Forall_nil P | x :: l' => Forall_cons x (index_ind2 x) (go l') end) subs)
    end.
End IndexInd.

Lemma map_eq_In {X Y} (f g : X -> Y) l c : map f l = map g l -> In c l -> f c = g c.
Proof.
  induction l as [|x l IH]; cbn [map]; [intros _ []|]. intros [= H1 H2] [<-|Hi]; auto.
Qed.

Lemma map_inj {X Y} (f : X -> Y) : (forall x y, f x = f y -> x = y) -> forall l l', map f l = map f l' -> l = l'.
Proof.
  intros Hf. induction l as [|x l IH]; destruct l' as [|y l']; cbn [map]; try discriminate; [reflexivity|].
  intros [= H1 H2]. f_equal; auto.
Qed.

Lemma map_inj_Forall {X Y} (f : X -> Y) l : Forall (fun x => forall y, f x = f y -> x = y) l ->
  forall l', map f l = map f l' -> l = l'.
Proof.
  induction 1 as [|x l Hx _ IH]; destruct l' as [|y l']; cbn [map]; try discriminate; [reflexivity|].
  intros [= H1 H2]. f_equal; auto.
Qed.

Lemma mem_In {X} (e : X -> X -> bool) (He : forall a b, e a b = true -> a = b) x l : mem e x l = true -> In x l.
Proof.
  induction l as [|y l IH]; cbn [mem]; [discriminate|]. rewrite orb_true_iff. intros [H1|H1]; [left; symmetry; auto | right; auto].
Qed.
Lemma fuse_comp_eqb_eq a b : fuse_comp_eqb a b = true -> a = b.
Proof. destruct a, b; cbn; congruence. Qed.
Lemma index_comp_eqb_eq a b : index_comp_eqb a b = true -> a = b.
Proof. destruct a, b; cbn; congruence. Qed.
Lemma subinfo_comp_eqb_eq a b : subinfo_comp_eqb a b = true -> a = b.
Proof. destruct a, b; cbn; congruence. Qed.

Section KeyProofs.
  Context {C hash : Type} (H : ser C hash -> hash)
          (H_inj : forall x y, H x = H y -> x = y).           (* sha1 o pickle has no collisions *)
  Context (ci : list index_comp) (cs : list subinfo_comp) (cf : list fuse_comp)
          (Hci : index_comps_complete ci = true)
          (Hcs : subinfo_comps_complete cs = true)
          (Hcf : fuse_comps_complete cf = true).

  Notation index := (index C hash).
  Notation ser := (ser C hash).
  Notation legit := (legit H ci cs).
  Notation well_memoed := (well_memoed H ci cs).
  Notation hashkey := (hashkey H ci cs).

  Lemma of_nat_inj2 a b : SInt (C:=C) (hash:=hash) (Z.of_nat a) = SInt (Z.of_nat b) -> a = b.
  Proof. intros [= E]. lia. Qed.

  Lemma ser_cm_inj (a b : list (C * nat)) : ser_cm (hash:=hash) a = ser_cm b -> a = b.
  Proof.
    unfold ser_cm. intros [= E]. revert E. apply map_inj. intros [c n] [c' n']. cbn [fst snd]. intros [= -> E]. f_equal. lia.
  Qed.
  Lemma ser_sector_inj (a b : list C) : ser_sector (hash:=hash) a = ser_sector b -> a = b.
  Proof. unfold ser_sector. intros [= E]. revert E. apply map_inj. now intros x y [= ->]. Qed.
  Lemma ser_extent_inj (a b : list (list C * nat)) : ser_extent (hash:=hash) a = ser_extent b -> a = b.
  Proof.
    unfold ser_extent. intros [= E]. revert E. apply map_inj. intros [s n] [s' n']. cbn [fst snd]. intros [= E1 E2].
    assert (E1' : ser_sector (hash:=hash) s = ser_sector s') by (unfold ser_sector; congruence).
    apply ser_sector_inj in E1'. subst. f_equal. lia.
  Qed.
  Lemma ser_ext_inj (a b : list (C * list (list C * nat))) : ser_ext (hash:=hash) a = ser_ext b -> a = b.
  Proof.
    unfold ser_ext. intros [= E]. revert E. apply map_inj. intros [c e] [c' e']. cbn [fst snd]. intros [= -> E].
    assert (E' : ser_extent (hash:=hash) e = ser_extent e') by (unfold ser_extent; congruence).
    apply ser_extent_inj in E'. now subst.
  Qed.
  Lemma ser_sectors_inj (a b : list (list C)) : ser_sectors (hash:=hash) a = ser_sectors b -> a = b.
  Proof. unfold ser_sectors. intros [= E]. revert E. apply map_inj. apply ser_sector_inj. Qed.
  Lemma ser_groups_inj (a b : list (list Z)) : ser_groups (C:=C) (hash:=hash) a = ser_groups b -> a = b.
  Proof.
    unfold ser_groups. intros [= E]. revert E. apply map_inj. intros g g' [= E]. revert E. apply map_inj. now intros x y [= ->].
  Qed.
  Lemma ser_memo_inj (a b : option hash) : ser_memo (C:=C) a = ser_memo b -> a = b.
  Proof. destruct a, b; cbn; congruence. Qed.

  (* pickling the full object state loses nothing *)
  Lemma list4_inj {X} (a b c d a' b' c' d' : X) : [a; b; c; d] = [a'; b'; c'; d'] -> a = a' /\ b = b' /\ c = c' /\ d = d'.
  Proof. intros E. injection E. auto. Qed.
  Lemma list3_inj {X} (a b c a' b' c' : X) : [a; b; c] = [a'; b'; c'] -> a = a' /\ b = b' /\ c = c'.
  Proof. intros E. injection E. auto. Qed.
  Lemma SObj_inj (l l' : list ser) : SObj l = SObj l' -> l = l'.
  Proof. now intros [= ->]. Qed.
  Lemma STuple_inj (l l' : list ser) : STuple l = STuple l' -> l = l'.
  Proof. now intros [= ->]. Qed.

  Lemma pickle_inj : forall a b : index, pickle a = pickle b -> a = b.
  Proof.
    induction a as [cm d m | cm d subs ext sm m IH] using index_ind2; intros [cm' d' m' | cm' d' subs' ext' sm' m'];
      cbn [pickle]; intros E; apply SObj_inj, list4_inj in E; destruct E as (E1 & E2 & E3 & E4); try discriminate.
    - apply ser_cm_inj in E1. apply ser_memo_inj in E4. injection E2 as E2. now subst.
    - apply SObj_inj, list3_inj in E3. destruct E3 as (E5 & E6 & E7).
      apply ser_cm_inj in E1. apply ser_ext_inj in E6. apply ser_memo_inj in E7. apply ser_memo_inj in E4.
      apply STuple_inj in E5. apply (map_inj_Forall _ _ IH) in E5. injection E2 as E2. now subst.
  Qed.

  Lemma In_ci c : In c [KChargemapItems; KDual; KSubinfoHashkey] -> In c ci.
  Proof.
    unfold index_comps_complete in Hci. rewrite !andb_true_iff in Hci. destruct Hci as [[H1 H2] H3].
    intros [<-|[<-|[<-|[]]]]; apply (mem_In _ index_comp_eqb_eq); assumption.
  Qed.

  Lemma index_hash_inj cm d s cm' d' s' :
    index_hash H ci cm d s = index_hash H ci cm' d' s' -> cm = cm' /\ d = d' /\ s = s'.
  Proof.
    unfold index_hash. intros E. apply H_inj in E. injection E as E.
    pose proof (map_eq_In _ _ _ KChargemapItems E (In_ci _ (or_introl eq_refl))) as E1.
    pose proof (map_eq_In _ _ _ KDual E (In_ci _ (or_intror (or_introl eq_refl)))) as E2.
    pose proof (map_eq_In _ _ _ KSubinfoHashkey E (In_ci _ (or_intror (or_intror (or_introl eq_refl))))) as E3.
    cbn [icomp] in *. apply ser_cm_inj in E1. injection E2 as E2. auto.
  Qed.

  Lemma subinfo_hash_inj m k e m' k' e' :
    subinfo_hash H cs m k e = subinfo_hash H cs m' k' e' -> e = e' /\ (m = m' \/ k = k').
  Proof.
    unfold subinfo_hash. intros E. apply H_inj in E. injection E as E.
    unfold subinfo_comps_complete in Hcs. rewrite andb_true_iff, orb_true_iff in Hcs. destruct Hcs as [Hm He].
    apply (mem_In _ subinfo_comp_eqb_eq) in He. pose proof (map_eq_In _ _ _ _ E He) as E1. cbn [scomp] in E1.
    split; [exact E1|]. destruct Hm as [Hm|Hm]; apply (mem_In _ subinfo_comp_eqb_eq) in Hm;
      pose proof (map_eq_In _ _ _ _ E Hm) as E2; cbn [scomp] in E2; auto.
  Qed.

  Lemma legit_Fused cm d subs ext sm m h :
    legit (Fused cm d subs ext sm m) h <->
    exists hs, h = index_hash H ci cm d (SHash hs) /\ legit_sub H ci cs subs ext hs.
  Proof.
    cbn [Cache.legit]. unfold legit_sub.
    assert (Hall : forall (l : list index) hks,
      (fix all2 (l : list index) (hl : list hash) {struct l} : Prop :=
         match l, hl with
         | [], [] => True
         | x :: l', k :: hl' => legit x k /\ all2 l' hl'
         | _, _ => False
         end) l hks <-> Forall2 legit l hks).
    { induction l as [|x l IHl]; destruct hks as [|k hks].
      - split; intros _; [constructor | exact I].
      - split; [intros [] | intros Hx; inversion Hx].
      - split; [intros [] | intros Hx; inversion Hx].
      - split.
        + intros [H1 H2]. constructor; [exact H1 | now apply IHl].
        + intros Hx. inversion Hx; subst. split; [assumption | now apply IHl]. }
    split; intros (hs & Hh & subs' & hks & He & Ha & Hs); exists hs; (split; [exact Hh|]); exists subs', hks;
      (split; [exact He|]); (split; [now apply Hall | exact Hs]).
  Qed.

  Lemma Forall2_legit_erase (l : list index) :
    Forall (fun a => forall b h, legit a h -> legit b h -> erase a = erase b) l ->
    forall l' hks, Forall2 legit l hks -> Forall2 legit l' hks -> map erase l = map erase l'.
  Proof.
    induction 1 as [|a l Ha _ IH]; intros l' hks H1 H2; inversion H1; subst; inversion H2; subst; cbn [map]; [reflexivity|].
    f_equal; eauto.
  Qed.

  (* two objects that may carry the same key have the same content *)
  Theorem legit_sound : forall (a b : index) h, legit a h -> legit b h -> erase a = erase b.
  Proof.
    induction a as [cm d m | cm d subs ext sm m IH] using index_ind2; intros [cm' d' m' | cm' d' subs' ext' sm' m'] h Ha Hb.
    - cbn [Cache.legit] in Ha, Hb. rewrite Ha in Hb. apply index_hash_inj in Hb. destruct Hb as (-> & -> & _). reflexivity.
    - apply legit_Fused in Hb. destruct Hb as (hs & Hb & _). cbn [Cache.legit] in Ha. rewrite Ha in Hb.
      apply index_hash_inj in Hb. destruct Hb as (_ & _ & Hb). discriminate.
    - apply legit_Fused in Ha. destruct Ha as (hs & Ha & _). cbn [Cache.legit] in Hb. rewrite Hb in Ha.
      apply index_hash_inj in Ha. destruct Ha as (_ & _ & Ha). discriminate.
    - apply legit_Fused in Ha. apply legit_Fused in Hb.
      destruct Ha as (hs & Ha & s1 & k1 & He1 & Hl1 & Hs1). destruct Hb as (hs' & Hb & s2 & k2 & He2 & Hl2 & Hs2).
      rewrite Ha in Hb. apply index_hash_inj in Hb. destruct Hb as (-> & -> & Hb). injection Hb as <-.
      rewrite Hs1 in Hs2. apply subinfo_hash_inj in Hs2. destruct Hs2 as (Hext & Hsub).
      apply ser_ext_inj in Hext. subst ext'. cbn [erase]. f_equal.
      destruct Hsub as [Hp|Hk].
      + injection Hp as Hp. apply (map_inj _ pickle_inj) in Hp. subst s2. now rewrite <- He1, <- He2.
      + injection Hk as Hk. apply (map_inj (@SHash C hash)) in Hk; [|now intros x y [= ->]]. subst k2.
        eapply Forall2_legit_erase; eauto.
  Qed.

  Lemma well_memoed_Fused cm d subs ext sm m :
    well_memoed (Fused cm d subs ext sm m) <->
    Forall well_memoed subs /\ match sm with None => True | Some hs => legit_sub H ci cs subs ext hs end /\
    match m with None => True | Some h => legit (Fused cm d subs ext sm m) h end.
  Proof.
    cbn [Cache.well_memoed].
    assert (Hall : forall l : list index,
      (fix all (l : list index) : Prop := match l with [] => True | x :: l' => well_memoed x /\ all l' end) l
      <-> Forall well_memoed l).
    { induction l as [|x l IHl].
      - split; intros _; [constructor | exact I].
      - split.
        + intros [H1 H2]. constructor; [exact H1 | now apply IHl].
        + intros Hx. inversion Hx; subst. split; [assumption | now apply IHl]. }
    split; intros (H1 & H2); (split; [now apply Hall | exact H2]).
  Qed.

  (* what `hashkey()` returns is legitimate whenever the memo slots are *)
  Theorem hashkey_legit : forall ix : index, well_memoed ix -> legit ix (hashkey ix).
  Proof.
    induction ix as [cm d m | cm d subs ext sm m IH] using index_ind2; intros Hw.
    - destruct m as [h|]; cbn [Cache.hashkey]; [exact Hw | reflexivity].
    - apply well_memoed_Fused in Hw. destruct Hw as (Hsubs & Hsm & Hm).
      destruct m as [h|]; [destruct sm; exact Hm|].
      apply legit_Fused. destruct sm as [hs|]; cbn [Cache.hashkey].
      + exists hs. split; [reflexivity | exact Hsm].
      + eexists. split; [reflexivity|]. exists subs, (map hashkey subs). split; [reflexivity|]. split.
        * clear Hsm Hm. induction subs as [|x subs IHs]; cbn [map]; constructor;
            inversion IH; subst; inversion Hsubs; subst; auto.
        * rewrite map_map. reflexivity.
  Qed.

  Notation fuse_arg := (fuse_arg C hash).
  Notation fuse_keyrel := (fuse_keyrel H ci cs cf).

  Lemma In_cf c : In c cf.
  Proof.
    unfold fuse_comps_complete in Hcf. rewrite !andb_true_iff in Hcf. destruct Hcf as [[[H1 H2] H3] H4].
    destruct c; apply (mem_In _ fuse_comp_eqb_eq); assumption.
  Qed.

  (* the cache key determines everything calc_fuse_block_info reads *)
  Theorem fuse_key_sound : forall (x y : fuse_arg) k, fuse_keyrel x k -> fuse_keyrel y k -> erase_arg x = erase_arg y.
  Proof.
    intros [ix ss sy gs] [ix' ss' sy' gs'] k (hks & Hl & Hk) (hks' & Hl' & Hk').
    rewrite Hk in Hk'. unfold fuse_hash in Hk'. apply H_inj in Hk'. injection Hk' as E.
    pose proof (map_eq_In _ _ _ KIndexHashkeys E (In_cf _)) as E1.
    pose proof (map_eq_In _ _ _ KSectors E (In_cf _)) as E2.
    pose proof (map_eq_In _ _ _ KSymmetry E (In_cf _)) as E3.
    pose proof (map_eq_In _ _ _ KAxesGroups E (In_cf _)) as E4.
    cbn [fcomp fa_indices fa_sectors fa_symmetry fa_groups] in *.
    apply ser_sectors_inj in E2. apply ser_groups_inj in E4. injection E3 as E3.
    injection E1 as E1. apply (map_inj (@SHash C hash)) in E1; [|now intros a b [= ->]]. subst.
    unfold erase_arg. cbn [fa_indices fa_sectors fa_symmetry fa_groups]. f_equal.
    eapply Forall2_legit_erase; eauto. apply Forall_forall. intros a _ b h. apply legit_sound.
  Qed.

  Theorem fuse_key_is_legit : forall x : fuse_arg, Forall well_memoed (fa_indices x) -> fuse_keyrel x (fuse_key H ci cs cf x).
  Proof.
    intros x Hw. exists (map hashkey (fa_indices x)). split; [|reflexivity].
    induction Hw as [|a l Ha _ IH]; cbn [map]; constructor; [now apply hashkey_legit | exact IH].
  Qed.

  (* the whole cached function is the un-cached one, for every history, cache
     size, eviction policy and starting cache — for any `calc` that reads only the
     content of its argument (not the memo slots) *)
  Section Transparent.
    Context {R : Type} (calc : fuse_arg -> R)
            (calc_content : forall x y, erase_arg x = erase_arg y -> calc x = calc y)
            (heqb : hash -> hash -> bool) (heqb_spec : forall x y, heqb x y = true <-> x = y).

    Theorem fuse_cache_transparent : forall p bypass maxsize (h : list (hash * fuse_arg)) (d : @cache hash R),
      consistent calc fuse_keyrel d ->
      Forall (fun ka => fuse_keyrel (snd ka) (fst ka)) h ->
      snd (runk heqb p calc bypass maxsize d h) = map (fun ka => calc (snd ka)) h /\
      consistent calc fuse_keyrel (fst (runk heqb p calc bypass maxsize d h)).
    Proof.
      intros p bypass maxsize h d. apply (memo_refines_rel heqb heqb_spec calc fuse_keyrel).
      intros a b k Ha Hb. apply calc_content. eapply fuse_key_sound; eauto.
    Qed.
  End Transparent.
End KeyProofs.

(* ---- instantiated with the lists GENERATED from the source ---- *)
Theorem fuse_reads_hashed : forall c, In c fuse_reads -> In c fuse_key_components.
Proof.
  assert (Hb : forallb (fun c => mem fuse_comp_eqb c fuse_key_components) fuse_reads = true) by (vm_compute; reflexivity).
  rewrite forallb_forall in Hb. intros c Hc. apply (mem_In _ fuse_comp_eqb_eq). auto.
Qed.

Theorem generated_keys_complete :
  index_comps_complete index_key_components = true /\
  subinfo_comps_complete subinfo_key_components = true /\
  fuse_comps_complete fuse_key_components = true.
Proof. vm_compute. repeat split. Qed.

Section GeneratedKey.
  Context {C hash : Type} (H : ser C hash -> hash) (H_inj : forall x y, H x = H y -> x = y).

  Definition gen_fuse_keyrel := fuse_keyrel H index_key_components subinfo_key_components fuse_key_components.
  Definition gen_fuse_key := fuse_key H index_key_components subinfo_key_components fuse_key_components.

  Theorem fuse_key_sound_generated : forall (x y : fuse_arg C hash) k,
    gen_fuse_keyrel x k -> gen_fuse_keyrel y k -> erase_arg x = erase_arg y.
  Proof.
    destruct generated_keys_complete as (H1 & H2 & H3). exact (fuse_key_sound H H_inj _ _ _ H1 H2 H3).
  Qed.

  Theorem fuse_cache_transparent_generated {R} (calc : fuse_arg C hash -> R)
      (calc_content : forall x y, erase_arg x = erase_arg y -> calc x = calc y)
      (heqb : hash -> hash -> bool) (heqb_spec : forall x y, heqb x y = true <-> x = y) :
    forall bypass maxsize (h : list (hash * fuse_arg C hash)) (d : @cache hash R),
      consistent calc gen_fuse_keyrel d ->
      Forall (fun ka => gen_fuse_keyrel (snd ka) (fst ka)) h ->
      snd (runk heqb fuse_cache_policy calc bypass maxsize d h) = map (fun ka => calc (snd ka)) h /\
      consistent calc gen_fuse_keyrel (fst (runk heqb fuse_cache_policy calc bypass maxsize d h)).
  Proof.
    destruct generated_keys_complete as (H1 & H2 & H3).
    exact (fuse_cache_transparent H H_inj _ _ _ H1 H2 H3 calc calc_content heqb heqb_spec fuse_cache_policy).
  Qed.
End GeneratedKey.

(* ================================================================== *)
(* 6. Closed statements about threads; the F9 witness                  *)
(* ================================================================== *)
(* every returned value is right, whatever the schedule, policy, cache size,
   and whether or not the eviction tolerates an empty cache *)
Definition concurrent_value_correct_stmt : Prop :=
  forall (A K V : Type) (keqb : K -> K -> bool), (forall x y, keqb x y = true <-> x = y) ->
  forall (f : A -> V) (keyrel : A -> K -> Prop), (forall a b k, keyrel a k -> keyrel b k -> f a = f b) ->
  forall tolerant p bypass maxsize (sched : list nat) (d : @cache K V) (calls : list (list (K * A))),
    consistent f keyrel d ->
    Forall (Forall (fun ka => keyrel (snd ka) (fst ka))) calls ->
    Forall (fun t => Forall (fun r => forall v, snd r = Some v -> v = f (snd (fst r))) (results t))
           (snd (run_sched keqb tolerant p f bypass maxsize d (map spawn calls) sched)).

Theorem concurrent_value_correct : concurrent_value_correct_stmt.
Proof.
  intros A K V keqb Hk f keyrel Hs tolerant p bypass maxsize sched d calls Hc Hcalls.
  assert (Hts : Forall (thread_ok f keyrel) (map spawn calls)).
  { apply Forall_forall. intros t Ht. apply in_map_iff in Ht. destruct Ht as (c & <- & Hi).
    apply spawn_ok. rewrite Forall_forall in Hcalls. auto. }
  destruct (concurrent_value_correct_rel keqb Hk f keyrel Hs p bypass maxsize tolerant sched d _ Hc Hts) as [_ H2].
  eapply Forall_impl; [|exact H2]. intros t (_ & Hr & _). exact Hr.
Qed.

(* the obligation that fails on the pinned tree: no call raises *)
Definition concurrent_no_exception_stmt (tolerant : bool) : Prop :=
  forall (A K V : Type) (keqb : K -> K -> bool), (forall x y, keqb x y = true <-> x = y) ->
  forall (f : A -> V) p bypass maxsize (sched : list nat) (d : @cache K V) (calls : list (list (K * A))),
    Forall (fun t => Forall (fun r => snd r <> None) (results t))
           (snd (run_sched keqb tolerant p f bypass maxsize d (map spawn calls) sched)).

(* with the repaired (tolerant) eviction: every call returns, and returns f args *)
Definition concurrent_total_correct_stmt : Prop :=
  forall (A K V : Type) (keqb : K -> K -> bool), (forall x y, keqb x y = true <-> x = y) ->
  forall (f : A -> V) (keyrel : A -> K -> Prop), (forall a b k, keyrel a k -> keyrel b k -> f a = f b) ->
  forall p bypass maxsize (sched : list nat) (d : @cache K V) (calls : list (list (K * A))),
    consistent f keyrel d ->
    Forall (Forall (fun ka => keyrel (snd ka) (fst ka))) calls ->
    (* every finished call returned the right value ... *)
    Forall (fun t => Forall (fun r => snd r = Some (f (snd (fst r)))) (results t))
           (snd (run_sched keqb true p f bypass maxsize d (map spawn calls) sched)) /\
    (* ... and no schedule can starve a call for ever: each step given to an
       unfinished thread strictly decreases its bounded number of steps left *)
    (forall d' (t : @thread A K V), todo t <> [] ->
       (steps_left (snd (thread_step keqb true p f bypass maxsize d' t)) < steps_left t)%nat).

Theorem concurrent_no_exception_tolerant : concurrent_no_exception_stmt true.
Proof.
  intros A K V keqb Hk f p bypass maxsize sched d calls.
  apply concurrent_never_raises. apply Forall_forall. intros t Ht. apply in_map_iff in Ht.
  destruct Ht as (c & <- & _). constructor.
Qed.

Theorem concurrent_total_correct : concurrent_total_correct_stmt.
Proof.
  intros A K V keqb Hk f keyrel Hs p bypass maxsize sched d calls Hc Hcalls. split.
  - pose proof (concurrent_value_correct A K V keqb Hk f keyrel Hs true p bypass maxsize sched d calls Hc Hcalls) as Hv.
    pose proof (concurrent_no_exception_tolerant A K V keqb Hk f p bypass maxsize sched d calls) as Hn.
    rewrite Forall_forall in *. intros t Ht. specialize (Hv t Ht). specialize (Hn t Ht).
    rewrite Forall_forall in *. intros r Hr. specialize (Hv r Hr). specialize (Hn r Hr).
    destruct (snd r) as [v|]; [|congruence]. now rewrite (Hv v eq_refl).
  - intros d' t Hne. now apply thread_step_progress.
Qed.

(* The faithful model of the pinned source (tolerant = false): cache size 1 holding
   one other entry, three threads fusing the same array.  All three miss, all three
   insert the same key, all three see len = 2 > 1, the third popitem finds the dict
   empty: KeyError out of x.fuse(...).  In general threads >= maxsize + 2. *)
Definition f9_f (a : Z) : Z := a * a + 1.
Definition f9_cache : @cache Z Z := [(0, f9_f 0)].
Definition f9_calls : list (list (Z * Z)) := [[(1, 1)]; [(1, 1)]; [(1, 1)]].
Definition f9_schedule : list nat := [0; 1; 2;  0; 1; 2;  0; 1; 2;  0; 1; 2]%nat.
Definition f9_final (tolerant : bool) :=
  run_sched Z.eqb tolerant LRU f9_f (fun _ => false) 1 f9_cache (map spawn f9_calls) f9_schedule.

Theorem concurrent_no_exception_refuted : ~ concurrent_no_exception_stmt false.
Proof.
  intros Hn.
  specialize (Hn Z Z Z Z.eqb Z.eqb_eq f9_f LRU (fun _ => false) 1 f9_schedule f9_cache f9_calls).
  assert (Hb : existsb (@raised Z Z Z) (snd (f9_final false)) = true) by (vm_compute; reflexivity).
  apply existsb_exists in Hb. destruct Hb as (t & Ht & Hr). unfold f9_final in Ht.
  rewrite Forall_forall in Hn. specialize (Hn t Ht). unfold raised in Hr.
  apply existsb_exists in Hr. destruct Hr as (r & Hi & Hr). rewrite Forall_forall in Hn. specialize (Hn r Hi).
  destruct (snd r); [discriminate | congruence].
Qed.

(* exactly what the witness does: threads 0 and 1 return f 1, thread 2 raises; the
   cache ends empty.  With the tolerant eviction the same schedule is harmless. *)
Example f9_outcome :
  f9_final false = ([], [ {| todo := []; at_pc := PLookup; results := [(1, 1, Some 2)] |};
                           {| todo := []; at_pc := PLookup; results := [(1, 1, Some 2)] |};
                           {| todo := []; at_pc := PLookup; results := [(1, 1, None)] |} ]).
Proof. vm_compute. reflexivity. Qed.
Example f9_outcome_tolerant :
  map (@results Z Z Z) (snd (f9_final true)) = [[(1, 1, Some 2)]; [(1, 1, Some 2)]; [(1, 1, Some 2)]].
Proof. vm_compute. reflexivity. Qed.

(* what holds of the CURRENT source: the generator reads off whether the eviction
   is wrapped in `try/except KeyError`; before the repair the faithful model
   refutes "no call raises", after it the total-correctness theorem applies *)
Definition concurrency_statement (tolerant : bool) : Prop :=
  if tolerant then concurrent_total_correct_stmt else ~ concurrent_no_exception_stmt false.
Theorem concurrent_current : concurrency_statement eviction_tolerant.
Proof.
  unfold concurrency_statement, eviction_tolerant.
  first [exact concurrent_total_correct | exact concurrent_no_exception_refuted].
Qed.

(* ================================================================== *)
(* 7. The hypotheses are satisfiable: non-trivial instances            *)
(* ================================================================== *)
(* a collision-free "hash": the pickled value itself *)
Inductive htree := HT (s : ser Z htree).
Definition HTf (s : ser Z htree) : htree := HT s.
Lemma HTf_inj x y : HTf x = HTf y -> x = y.
Proof. now intros [= ->]. Qed.

Definition ex_leaf (d : bool) (m : option htree) : index Z htree := Leaf [(0, 2%nat); (1, 1%nat)] d m.
(* the component lists as they stand on the pinned tree, written out so that the
   examples do not move when the source is repaired to call `ix.hashkey()` *)
Definition ex_ci : list index_comp := [KChargemapItems; KDual; KSubinfoHashkey].
Definition ex_cs : list subinfo_comp := [KSubIndexBoundMethods; KExtentsItems].
Definition ex_hk (ix : index Z htree) : htree := hashkey HTf ex_ci ex_cs ix.
(* a fused index whose sub-indices have / have not had hashkey() called on them *)
Definition ex_fused (memo : bool) : index Z htree :=
  let a := ex_leaf false None in
  Fused [(0, 5%nat); (1, 4%nat)] false
        [if memo then ex_leaf false (Some (ex_hk a)) else a; ex_leaf true None]
        [(0, [([0; 0], 4%nat); ([1; 1], 1%nat)]); (1, [([0; 1], 2%nat); ([1; 0], 2%nat)])] None None.

(* the oddity of SubIndexInfo.hashkey (bound methods are pickled): equal content,
   different memo state => different keys (a spurious miss, never a wrong hit) *)
Example bound_method_key_depends_on_memo_state :
  erase (ex_fused true) = erase (ex_fused false) /\ ex_hk (ex_fused true) <> ex_hk (ex_fused false).
Proof. split; [reflexivity | vm_compute; discriminate]. Qed.

Example ex_well_memoed : well_memoed HTf ex_ci ex_cs (ex_fused true).
Proof. cbn. repeat split. Qed.

Example ex_memo_run :   (* hit, miss, eviction and bypass in one history; outputs = map f *)
  run Z.eqb (fun a => a mod 3) (fun a => (a mod 3) * 7) LRU (fun a => a >? 100) 2 [] [1; 4; 2; 3; 7; 200; 2]
  = ([(1, 7); (2, 14)], [7; 7; 14; 0; 7; 14; 14]).
Proof. vm_compute. reflexivity. Qed.
