(* Proofs/LinalgGenProofs.v — the functions GENERATED from the current source of symmray/linalg.py
   (Gen/LinalgGen.v, tr/gen_linalg.py: qr, svd, eigh, solve over AbelianArray and over FermionicArray,
   and the four *_fermionic wrappers) EQUAL the hand model Model/Linalg.v the C11 theorems are about.

   Abelian functions: Leibniz equality of the returned option for EVERY input (no hypothesis: arrays that
   are not matrices are refused by both).  Fermionic wrappers: Leibniz equality for every array whose
   pending-sign table and block dict have no key twice (the dict invariant) and whose charges have
   parity 0 / 1 (true for valid charges), under the decidable-equality reading of `ceqb` and an even
   identity (both follow from GroupLaws): these are the hypotheses under which the generated sign-table
   methods phase_flip / phase_sync equal the model's (Proofs/PhasesGenProofs.v, C09d). *)
From SV Require Import Base.Prelude Base.PyList Base.Sym Base.Tensor Gen.PhasePerm Gen.OpOrder Gen.PhasesGen Gen.LinalgGen
  Model.SymInst Model.Sectors Model.Array Model.Arith Model.Wf Model.Fermi Model.Linalg Proofs.WfProofs Proofs.PhasesGenProofs Proofs.Tdot Proofs.LinalgProofs.
From Coq Require Import Permutation.
Local Open Scope nat_scope.

(* ---- loops over a tuple of independent accumulators ---- *)
Lemma fold_pair2 {A B E} (F : A * B -> E -> A * B) (fa : A -> E -> A) (fb : B -> E -> B) :
  (forall a b e, F (a, b) e = (fa a e, fb b e)) ->
  forall l a b, fold_left F l (a, b) = (fold_left fa l a, fold_left fb l b).
Proof. intros H l. induction l as [|e l IH]; intros a b; cbn [fold_left]; [reflexivity|]. now rewrite H, IH. Qed.

Lemma fold_pair3 {A B C E} (F : A * B * C -> E -> A * B * C) (fa : A -> E -> A) (fb : B -> E -> B) (fc : C -> E -> C) :
  (forall a b c e, F (a, b, c) e = (fa a e, fb b e, fc c e)) ->
  forall l a b c, fold_left F l (a, b, c) = (fold_left fa l a, fold_left fb l b, fold_left fc l c).
Proof. intros H l. induction l as [|e l IH]; intros a b c; cbn [fold_left]; [reflexivity|]. now rewrite H, IH. Qed.

Lemma fold_pair4 {A B C D E} (F : A * B * C * D -> E -> A * B * C * D)
      (fa : A -> E -> A) (fb : B -> E -> B) (fc : C -> E -> C) (fd : D -> E -> D) :
  (forall a b c d e, F (a, b, c, d) e = (fa a e, fb b e, fc c e, fd d e)) ->
  forall l a b c d, fold_left F l (a, b, c, d) = (fold_left fa l a, fold_left fb l b, fold_left fc l c, fold_left fd l d).
Proof. intros H l. induction l as [|e l IH]; intros a b c d; cbn [fold_left]; [reflexivity|]. now rewrite H, IH. Qed.

Lemma fold_left_ext2 {A E} (f g : A -> E -> A) : (forall a e, f a e = g a e) -> forall l a, fold_left f l a = fold_left g l a.
Proof. intros H l. induction l as [|e l IH]; intro a; cbn [fold_left]; [reflexivity|]. now rewrite H, IH. Qed.

Section AbelianEq.
  Context (G : Symmetry) (R : Ring).
  Context (qr_blk : tensor R -> tensor R * tensor R)
          (svd_blk : tensor R -> tensor R * tensor R * tensor R)
          (eigh_blk : tensor R -> tensor R * tensor R)
          (solve_blk : tensor R -> tensor R -> tensor R).
  Notation sector := (list (C G)).
  Notation keq := (list_eqb (ceqb G)).
  Notation arr := (aarray G R).
  Notation farr := (farray G R).

  (* ---- qr ---- *)
  Definition split_triple (f : tensor R -> tensor R * tensor R) (bl : list (sector * tensor R)) :=
    (split_left G R f bl, split_cm G R f bl, split_right G R f bl).

  Lemma qr_gen_eq (x : arr) : qr_gen G R qr_blk x = a_qr G R qr_blk x.
  Proof.
    unfold qr_gen, a_qr, a_split. destruct (Nat.eqb (ndim G R x) 2); cbn [negb]; [|reflexivity].
    cbv zeta.
    match goal with |- context [fold_left ?F ?l ?i] =>
      rewrite (fold_pair3 F
                 (fun acc sb => dset keq (fst sb) (fst (qr_blk (snd sb))) acc)
                 (fun cm sb => dset (ceqb G) (col_charge G (fst sb)) (ncols R (fst (qr_blk (snd sb)))) cm)
                 (fun acc sb => dset keq [col_charge G (fst sb); col_charge G (fst sb)] (snd (qr_blk (snd sb))) acc))
        by (intros; reflexivity)
    end.
    cbn [fst snd]. reflexivity.
  Qed.

  Definition lift_split (x : farr) (o : option (arr * arr)) : option (farr * farr) :=
    match o with
    | Some (q, r) => Some (mkF G R q (fphases G R x) (foddpos G R x), mkF G R r [] [])
    | None => None
    end.

  Lemma qr_fgen_eq (x : farr) : qr_fgen G R qr_blk x = lift_split x (a_qr G R qr_blk (fbase G R x)).
  Proof.
    unfold qr_fgen, lift_split, a_qr, a_split. destruct (Nat.eqb (ndim G R (fbase G R x)) 2); cbn [negb]; [|reflexivity].
    cbv zeta.
    match goal with |- context [fold_left ?F ?l ?i] =>
      rewrite (fold_pair3 F
                 (fun acc sb => dset keq (fst sb) (fst (qr_blk (snd sb))) acc)
                 (fun cm sb => dset (ceqb G) (col_charge G (fst sb)) (ncols R (fst (qr_blk (snd sb)))) cm)
                 (fun acc sb => dset keq [col_charge G (fst sb); col_charge G (fst sb)] (snd (qr_blk (snd sb))) acc))
        by (intros; reflexivity)
    end.
    cbn [fst snd]. reflexivity.
  Qed.

  (* ---- svd ---- *)
  Lemma svd_uv_fst m : fst (svd_uv R svd_blk m) = fst (fst (svd_blk m)).
  Proof. unfold svd_uv. now destruct (svd_blk m) as [[u s] vh]. Qed.
  Lemma svd_uv_snd m : snd (svd_uv R svd_blk m) = snd (svd_blk m).
  Proof. unfold svd_uv. now destruct (svd_blk m) as [[u s] vh]. Qed.
  Lemma svd_s_eq m : svd_s R svd_blk m = snd (fst (svd_blk m)).
  Proof. unfold svd_s. now destruct (svd_blk m) as [[u s] vh]. Qed.

  Lemma svd_gen_eq (x : arr) : svd_gen G R svd_blk x = a_svd G R svd_blk x.
  Proof.
    unfold svd_gen, a_svd, a_split. destruct (Nat.eqb (ndim G R x) 2); cbn [negb]; [|reflexivity].
    cbv zeta.
    match goal with |- context [fold_left ?F ?l ?i] =>
      rewrite (fold_pair4 F
                 (fun acc sb => dset keq (fst sb) (fst (svd_uv R svd_blk (snd sb))) acc)
                 (fun acc sb => dset (ceqb G) (col_charge G (fst sb)) (svd_s R svd_blk (snd sb)) acc)
                 (fun acc sb => dset keq [col_charge G (fst sb); col_charge G (fst sb)] (snd (svd_uv R svd_blk (snd sb))) acc)
                 (fun cm sb => dset (ceqb G) (col_charge G (fst sb)) (ncols R (fst (svd_uv R svd_blk (snd sb)))) cm))
        by (intros; rewrite svd_uv_fst, svd_uv_snd, svd_s_eq; reflexivity)
    end.
    cbn [fst snd]. reflexivity.
  Qed.

  Definition lift_svd (x : farr) (o : option (arr * bvec G R * arr)) : option (farr * bvec G R * farr) :=
    match o with
    | Some (u, s, vh) => Some (mkF G R u (fphases G R x) (foddpos G R x), s, mkF G R vh [] [])
    | None => None
    end.

  Lemma svd_fgen_eq (x : farr) : svd_fgen G R svd_blk x = lift_svd x (a_svd G R svd_blk (fbase G R x)).
  Proof.
    unfold svd_fgen, lift_svd, a_svd, a_split. destruct (Nat.eqb (ndim G R (fbase G R x)) 2); cbn [negb]; [|reflexivity].
    cbv zeta.
    match goal with |- context [fold_left ?F ?l ?i] =>
      rewrite (fold_pair4 F
                 (fun acc sb => dset keq (fst sb) (fst (svd_uv R svd_blk (snd sb))) acc)
                 (fun acc sb => dset (ceqb G) (col_charge G (fst sb)) (svd_s R svd_blk (snd sb)) acc)
                 (fun acc sb => dset keq [col_charge G (fst sb); col_charge G (fst sb)] (snd (svd_uv R svd_blk (snd sb))) acc)
                 (fun cm sb => dset (ceqb G) (col_charge G (fst sb)) (ncols R (fst (svd_uv R svd_blk (snd sb)))) cm))
        by (intros; rewrite svd_uv_fst, svd_uv_snd, svd_s_eq; reflexivity)
    end.
    cbn [fst snd]. reflexivity.
  Qed.

  (* ---- eigh ---- *)
  Lemma eigh_gen_eq (a : arr) : eigh_gen G R eigh_blk a = a_eigh G R eigh_blk a.
  Proof.
    unfold eigh_gen, a_eigh. destruct (Nat.eqb (ndim G R a) 2); cbn [negb andb]; [|reflexivity].
    change (combine G []) with (ident G).
    destruct (ceqb G (charge G R a) (ident G)); cbn [negb]; [|reflexivity].
    cbv zeta.
    match goal with |- context [fold_left ?F ?l ?i] =>
      rewrite (fold_pair2 F
                 (fun acc sb => dset (ceqb G) (col_charge G (fst sb)) (fst (eigh_blk (snd sb))) acc)
                 (fun acc sb => dset keq (fst sb) (snd (eigh_blk (snd sb))) acc))
        by (intros; reflexivity)
    end.
    cbn [fst snd]. reflexivity.
  Qed.

  Definition lift_eigh (x : farr) (o : option (bvec G R * arr)) : option (bvec G R * farr) :=
    match o with
    | Some (w, v) => Some (w, mkF G R v (fphases G R x) (foddpos G R x))
    | None => None
    end.

  Lemma eigh_fgen_eq (a : farr) : eigh_fgen G R eigh_blk a = lift_eigh a (a_eigh G R eigh_blk (fbase G R a)).
  Proof.
    unfold eigh_fgen, lift_eigh, a_eigh. destruct (Nat.eqb (ndim G R (fbase G R a)) 2); cbn [negb andb]; [|reflexivity].
    change (combine G []) with (ident G).
    destruct (ceqb G (charge G R (fbase G R a)) (ident G)); cbn [negb]; [|reflexivity].
    cbv zeta.
    match goal with |- context [fold_left ?F ?l ?i] =>
      rewrite (fold_pair2 F
                 (fun acc sb => dset (ceqb G) (col_charge G (fst sb)) (fst (eigh_blk (snd sb))) acc)
                 (fun acc sb => dset keq (fst sb) (snd (eigh_blk (snd sb))) acc))
        by (intros; reflexivity)
    end.
    cbn [fst snd]. reflexivity.
  Qed.

  (* ---- solve ---- *)
  Lemma solve_step_eq (blb : list (sector * tensor R)) acc (sb : sector * tensor R) :
    (if dhas keq [nth 0 (fst sb) (ident G)] blb
     then dset keq [nth 1 (fst sb) (ident G)] (solve_blk (snd sb) (lg_dget keq (tzeros R []) blb [nth 0 (fst sb) (ident G)])) acc
     else acc)
    = match lookup keq [row_charge G (fst sb)] blb with
      | Some bb => dset keq [col_charge G (fst sb)] (solve_blk (snd sb) bb) acc
      | None => acc
      end.
  Proof. unfold dhas, lg_dget, row_charge, col_charge. now destruct (lookup keq [nth 0 (fst sb) (ident G)] blb). Qed.

  Lemma solve_gen_eq (a b : arr) : solve_gen G R solve_blk a b = a_solve G R solve_blk a b.
  Proof.
    unfold solve_gen, a_solve, solve_blocks. destruct (Nat.eqb (ndim G R a) 2 && Nat.eqb (ndim G R b) 1); cbn [negb]; [|reflexivity].
    cbv zeta. do 2 f_equal. apply fold_left_ext2. intros acc sb. apply solve_step_eq.
  Qed.

  Definition lift_solve (b : farr) (o : option arr) : option farr :=
    match o with Some x => Some (mkF G R x (fphases G R b) (foddpos G R b)) | None => None end.

  Lemma solve_fgen_eq (a b : farr) : solve_fgen G R solve_blk a b = lift_solve b (a_solve G R solve_blk (fbase G R a) (fbase G R b)).
  Proof.
    unfold solve_fgen, lift_solve, a_solve, solve_blocks.
    destruct (Nat.eqb (ndim G R (fbase G R a)) 2 && Nat.eqb (ndim G R (fbase G R b)) 1); cbn [negb]; [|reflexivity].
    cbv zeta. do 3 f_equal. apply fold_left_ext2. intros acc sb. apply solve_step_eq.
  Qed.
End AbelianEq.

(* ---- dict facts ---- *)
Section DictFacts.
  Context {K V : Type} (e : K -> K -> bool) (e_spec : forall a b, e a b = true <-> a = b).

  Lemma e_refl' a : e a a = true.
  Proof. now apply e_spec. Qed.
  Lemma e_neq a b : a <> b -> e a b = false.
  Proof. intro H. destruct (e a b) eqn:E; [|reflexivity]. apply e_spec in E. contradiction. Qed.

  Lemma in_keys_dset k (v : V) d k' : In k' (keys (dset e k v d)) -> k' = k \/ In k' (keys d).
  Proof.
    induction d as [|[k0 v0] d IH]; cbn [dset keys map fst In].
    - intros [H|[]]; auto.
    - destruct (e k k0); cbn [keys map fst In]; [tauto|]. intros [H|H]; [tauto|]. apply IH in H. tauto.
  Qed.

  Lemma nodup_keys_dset k (v : V) d : NoDup (keys d) -> NoDup (keys (dset e k v d)).
  Proof.
    induction d as [|[k0 v0] d IH]; cbn [dset keys map fst]; intro H.
    - constructor; [intros []|constructor].
    - inversion H as [|? ? Hn Hd]; subst. destruct (e k k0) eqn:E; cbn [keys map fst].
      + constructor; assumption.
      + constructor; [|now apply IH]. intro Hin. apply in_keys_dset in Hin. destruct Hin as [-> | Hin]; [|contradiction].
        rewrite e_refl' in E. discriminate.
  Qed.

  Lemma lookup_skip pre k (v : V) suf : ~ In k (keys pre) -> lookup e k (pre ++ (k, v) :: suf) = Some v.
  Proof.
    induction pre as [|[k0 v0] pre IH]; cbn [app lookup keys map fst In]; intro H.
    - now rewrite e_refl'.
    - rewrite e_neq by (intro; subst; tauto). apply IH. tauto.
  Qed.

  Lemma dset_skip pre k (v v' : V) suf : ~ In k (keys pre) -> dset e k v' (pre ++ (k, v) :: suf) = pre ++ (k, v') :: suf.
  Proof.
    induction pre as [|[k0 v0] pre IH]; cbn [app dset keys map fst In]; intro H.
    - now rewrite e_refl'.
    - rewrite e_neq by (intro; subst; tauto). f_equal. apply IH. tauto.
  Qed.

  (* for c in v.sectors: if p(c): v.blocks[c] = f(v.blocks[c])   is a map over the entries *)
  Lemma update_loop_map (p : K -> bool) (f : V -> V) (dflt : V) (w : list (K * V)) : NoDup (keys w) ->
    fold_left (fun d c => if p c then dset e c (f (lg_dget e dflt d c)) d else d) (map fst w) w
    = map (fun cw => if p (fst cw) then (fst cw, f (snd cw)) else cw) w.
  Proof.
    set (g := fun cw : K * V => if p (fst cw) then (fst cw, f (snd cw)) else cw).
    assert (Hg : forall cw, fst (g cw) = fst cw) by (intros [k v]; unfold g; cbn [fst snd]; now destruct (p k)).
    assert (H : forall suf pre, NoDup (keys (pre ++ suf)) ->
              fold_left (fun d c => if p c then dset e c (f (lg_dget e dflt d c)) d else d) (map fst suf) (pre ++ suf)
              = pre ++ map g suf).
    { induction suf as [|[k v] suf IH]; intros pre Hnd; cbn [map fold_left fst]; [reflexivity|].
      assert (Hk : ~ In k (keys pre)).
      { unfold keys in *. rewrite map_app in Hnd. cbn [map fst] in Hnd. apply NoDup_remove_2 in Hnd.
        intro Hin. apply Hnd. apply in_or_app. now left. }
      assert (E : (if p k then dset e k (f (lg_dget e dflt (pre ++ (k, v) :: suf) k)) (pre ++ (k, v) :: suf) else pre ++ (k, v) :: suf)
                  = (pre ++ [g (k, v)]) ++ suf).
      { unfold g. cbn [fst snd]. rewrite <- app_assoc. cbn [app]. destruct (p k); [|reflexivity].
        unfold lg_dget. rewrite lookup_skip by exact Hk. now apply dset_skip. }
      rewrite E, IH.
      - rewrite <- app_assoc. reflexivity.
      - unfold keys in *. rewrite <- app_assoc. cbn [app]. rewrite map_app in *. cbn [map] in *. now rewrite Hg. }
    intro Hnd. exact (H w [] Hnd).
  Qed.

  Lemma keys_fold_dset {E} (kf : E -> K) (vf : E -> V) l : forall acc k,
    In k (keys (fold_left (fun acc sb => dset e (kf sb) (vf sb) acc) l acc)) -> In k (keys acc) \/ exists sb, In sb l /\ k = kf sb.
  Proof.
    induction l as [|sb l IH]; intros acc k; cbn [fold_left]; [tauto|]. intro H. apply IH in H. destruct H as [H|[sb' [Hin ->]]].
    - apply in_keys_dset in H. destruct H as [-> | H]; [right; exists sb; cbn [In]; auto | now left].
    - right. exists sb'. cbn [In]. auto.
  Qed.

  Lemma nodup_keys_fold_dset {E} (kf : E -> K) (vf : E -> V) l : forall acc,
    NoDup (keys acc) -> NoDup (keys (fold_left (fun acc sb => dset e (kf sb) (vf sb) acc) l acc)).
  Proof. induction l as [|sb l IH]; intros acc H; cbn [fold_left]; [exact H|]. apply IH. now apply nodup_keys_dset. Qed.
End DictFacts.

Section FermiEq.
  Context (G : Symmetry) (R : Ring).
  Context (ceqb_spec : forall a b : C G, ceqb G a b = true <-> a = b).
  Context (PO : parity_ok G).
  Context (qr_blk : tensor R -> tensor R * tensor R)
          (svd_blk : tensor R -> tensor R * tensor R * tensor R)
          (eigh_blk : tensor R -> tensor R * tensor R)
          (solve_blk : tensor R -> tensor R -> tensor R).
  Notation sector := (list (C G)).
  Notation keq := (list_eqb (ceqb G)).
  Notation arr := (aarray G R).
  Notation farr := (farray G R).

  (* the glue of Gen/LinalgGen.v is the `*_via_gen` form of C09d: the generated sign-table methods are the model's *)
  Lemma lg_flip_eq (x : farr) axs : NoDup (fphases G R x) -> bits_ok G (fsectors G R x) ->
    lg_phase_flip G R x axs = f_phase_flip G R x axs.
  Proof. exact (flip_via_gen_eq G R ceqb_spec PO x axs). Qed.

  Lemma lg_sync_eq (x : farr) : NoDup (fphases G R x) -> NoDup (fsectors G R x) -> lg_phase_sync G R x = f_phase_sync G R x.
  Proof. exact (sync_via_gen_eq G R ceqb_spec x). Qed.

  Lemma bit_nth (s : sector) n : (forall c, In c s -> parityZ G c = 0%Z \/ parityZ G c = 1%Z) ->
    parityZ G (nth n s (ident G)) = 0%Z \/ parityZ G (nth n s (ident G)) = 1%Z.
  Proof. intro H. destruct (nth_in_or_default n s (ident G)) as [Hin | ->]; [now apply H | left; exact PO]. Qed.

  Lemma sectors_sync (x : farr) : fsectors G R (f_phase_sync G R x) = fsectors G R x.
  Proof.
    unfold fsectors, f_phase_sync, with_blocks, sectors. cbn [fbase blocks]. rewrite map_map. apply map_ext.
    intros [s t]. cbn [fst snd]. now destruct (ph_has G s (fphases G R x)).
  Qed.

  (* sectors of the right factor of a split: (c, c) for column charges c of stored sectors *)
  Lemma bits_split_right f (x : farr) : bits_ok G (fsectors G R x) ->
    bits_ok G (keys (split_right G R f (blocks G R (fbase G R x)))).
  Proof.
    intros Hb s c Hs Hc. unfold split_right in Hs. apply keys_fold_dset in Hs. destruct Hs as [Hs|Hs]; [destruct Hs|]. destruct Hs as [sb [Hin ->]].
    assert (Hbit : parityZ G (col_charge G (fst sb)) = 0%Z \/ parityZ G (col_charge G (fst sb)) = 1%Z).
    { apply bit_nth. intros c' Hc'. apply (Hb (fst sb)); [|exact Hc']. unfold fsectors, sectors. now apply in_map. }
    cbn [In] in Hc. destruct Hc as [<-|[<-|[]]]; exact Hbit.
  Qed.

  Lemma split_flip f (x : farr) q r : bits_ok G (fsectors G R x) -> a_split G R f (fbase G R x) = Some (q, r) ->
    (if idual G (nth 0 (indices G R r) (dflt_index G)) then lg_phase_flip G R (mkF G R r [] []) [0] else mkF G R r [] [])
    = flip0_if_dual G R (mkF G R r [] []).
  Proof.
    intros Hb E. unfold flip0_if_dual. cbn [fbase]. destruct (idual G (nth 0 (indices G R r) (dflt_index G))); [|reflexivity].
    apply lg_flip_eq; cbn [fphases]; [constructor|].
    unfold a_split in E. destruct (Nat.eqb (ndim G R (fbase G R x)) 2); [|discriminate]. inversion E; subst.
    unfold fsectors, sectors. cbn [fbase blocks]. now apply bits_split_right.
  Qed.

  (* ---- qr_fermionic ---- *)
  Lemma qr_fermionic_gen_eq (x : farr) : bits_ok G (fsectors G R x) ->
    qr_fermionic_gen G R qr_blk x = f_qr G R qr_blk x.
  Proof.
    intro Hb. unfold qr_fermionic_gen, f_qr, f_split. rewrite qr_fgen_eq. unfold lift_split, a_qr.
    destruct (a_split G R qr_blk (fbase G R x)) as [[q r]|] eqn:E; [|reflexivity].
    cbv zeta. cbn [fst snd fbase]. do 2 f_equal. exact (split_flip qr_blk x q r Hb E).
  Qed.

  (* ---- svd_fermionic ---- *)
  Lemma svd_fermionic_gen_eq (x : farr) : bits_ok G (fsectors G R x) ->
    svd_fermionic_gen G R svd_blk x = f_svd G R svd_blk x.
  Proof.
    intro Hb. unfold svd_fermionic_gen, f_svd, f_split. rewrite svd_fgen_eq. unfold lift_svd, a_svd.
    destruct (a_split G R (svd_uv R svd_blk) (fbase G R x)) as [[u vh]|] eqn:E; [|reflexivity].
    cbv zeta. cbn [fst snd fbase]. do 2 f_equal. exact (split_flip (svd_uv R svd_blk) x u vh Hb E).
  Qed.

  (* ---- solve_fermionic ---- *)
  Lemma bits_solve_blocks (a : farr) blb : bits_ok G (fsectors G R a) ->
    bits_ok G (keys (solve_blocks G R solve_blk (blocks G R (fbase G R a)) blb)).
  Proof.
    intros Hb. unfold solve_blocks.
    assert (H : forall bl acc, (forall sb, In sb bl -> In (fst sb) (fsectors G R a)) -> bits_ok G (keys acc) ->
              bits_ok G (keys (fold_left (fun acc sb => match lookup keq [row_charge G (fst sb)] blb with
                                                       | Some bb => dset keq [col_charge G (fst sb)] (solve_blk (snd sb) bb) acc
                                                       | None => acc end) bl acc))).
    { induction bl as [|sb bl IH]; intros acc Hin Hacc; cbn [fold_left]; [exact Hacc|]. apply IH; [intros; apply Hin; now right|].
      destruct (lookup keq [row_charge G (fst sb)] blb); [|exact Hacc].
      intros s c Hs Hc. apply in_keys_dset in Hs. destruct Hs as [-> | Hs]; [|exact (Hacc s c Hs Hc)].
      cbn [In] in Hc. destruct Hc as [<-|[]]. apply bit_nth. intros c' Hc'. exact (Hb (fst sb) c' (Hin sb (or_introl eq_refl)) Hc'). }
    apply H; [|intros s c []]. intros sb Hin. unfold fsectors, sectors. now apply in_map.
  Qed.

  Lemma solve_fermionic_gen_eq (a b : farr) :
    NoDup (fphases G R a) -> NoDup (fsectors G R a) -> NoDup (fphases G R b) -> NoDup (fsectors G R b) ->
    bits_ok G (fsectors G R a) ->
    solve_fermionic_gen G R solve_blk a b = f_solve G R solve_blk a b.
  Proof.
    intros Ha1 Ha2 Hb1 Hb2 Hbits. unfold solve_fermionic_gen, f_solve. cbv zeta.
    rewrite (lg_sync_eq a Ha1 Ha2), (lg_sync_eq b Hb1 Hb2), solve_fgen_eq. unfold lift_solve.
    destruct (a_solve G R solve_blk (fbase G R (f_phase_sync G R a)) (fbase G R (f_phase_sync G R b))) as [x|] eqn:E; [|reflexivity].
    f_equal. change (fphases G R (f_phase_sync G R b)) with (@nil sector). change (foddpos G R (f_phase_sync G R b)) with (foddpos G R b).
    unfold flip0_if_dual. cbn [fbase]. destruct (idual G (nth 0 (indices G R x) (dflt_index G))); [|reflexivity].
    apply lg_flip_eq; cbn [fphases]; [constructor|].
    unfold a_solve in E. destruct (Nat.eqb (ndim G R (fbase G R (f_phase_sync G R a))) 2 && Nat.eqb (ndim G R (fbase G R (f_phase_sync G R b))) 1); [|discriminate].
    inversion E; subst. unfold fsectors at 1, sectors. cbn [fbase blocks].
    apply (bits_solve_blocks (f_phase_sync G R a)). now rewrite sectors_sync.
  Qed.

  (* ---- eigh_fermionic ---- *)
  Lemma eigh_fermionic_gen_eq (a : farr) : NoDup (fphases G R a) -> NoDup (fsectors G R a) ->
    eigh_fermionic_gen G R eigh_blk a = f_eigh G R eigh_blk a.
  Proof.
    intros H1 H2. unfold eigh_fermionic_gen, f_eigh. cbv zeta. rewrite (lg_sync_eq a H1 H2), eigh_fgen_eq. unfold lift_eigh.
    destruct (a_eigh G R eigh_blk (fbase G R (f_phase_sync G R a))) as [[w v]|] eqn:E; [|reflexivity].
    cbn [fst snd]. change (fphases G R (f_phase_sync G R a)) with (@nil sector). change (foddpos G R (f_phase_sync G R a)) with (foddpos G R a).
    f_equal. f_equal. unfold ix1.
    destruct (idual G (nth 1 (indices G R (fbase G R (f_phase_sync G R a))) (dflt_index G))); cbn [negb]; [reflexivity|].
    apply (update_loop_map (ceqb G) ceqb_spec (parity G) (tneg R)).
    unfold a_eigh in E. destruct (Nat.eqb (ndim G R (fbase G R (f_phase_sync G R a))) 2 && ceqb G (charge G R (fbase G R (f_phase_sync G R a))) (ident G)); [|discriminate].
    inversion E; subst. unfold eigh_store. apply (nodup_keys_fold_dset (ceqb G) ceqb_spec). constructor.
  Qed.
End FermiEq.

(* ---- what a well-formed array gives for the hypotheses above ---- *)
Section WfGives.
  Context (G : Symmetry) (HG : GroupLaws G) (R : Ring).

  Lemma wf_sectors_nodup (x : aarray G R) : wf_array G R x = true -> NoDup (sectors G R x).
  Proof. intro H. apply (wf_array_iff G HG R) in H. exact (wf_nd G R _ _ _ H). Qed.

  Lemma wf_sectors_bits (x : aarray G R) : wf_array G R x = true -> bits_ok G (sectors G R x).
  Proof.
    intro H. apply (wf_array_iff G HG R) in H. intros s c Hs Hc. apply (parity_01 G HG).
    unfold sectors in Hs. apply in_map_iff in Hs. destruct Hs as [[s' t] [E Hin]]. cbn [fst] in E. subst s'.
    destruct (wf_bl G R _ _ _ H s t Hin) as [(Hlen & Hch & _) _].
    destruct (In_nth s c (ident G) Hc) as [i [Hi <-]].
    apply (wf_index_charges_valid G (nth i (indices G R x) (dflt_index G))).
    - pose proof (wf_ix G R _ _ _ H) as Hix. unfold IxsOK in Hix. rewrite Forall_forall in Hix. apply Hix. apply nth_In. now rewrite <- Hlen.
    - apply Hch. now rewrite <- Hlen.
  Qed.
End WfGives.

(* ---- the C11 theorems, restated through the generated functions ---- *)
Section Restated.
  Context (G : Symmetry) (HG : GroupLaws G) (R : Ring).

  Lemma qr_gen_structure
    (cltb_trans : forall a b c : C G, cltb G a b = true -> cltb G b c = true -> cltb G a c = true)
    (cltb_total : forall a b : C G, a <> b -> cltb G a b = true \/ cltb G b a = true)
    (qr_blk : tensor R -> tensor R * tensor R) (qr_shapes : split_shapes R qr_blk) (x : aarray G R) :
    wf_array G R x = true -> ndim G R x = 2 ->
    exists q r, qr_gen G R qr_blk x = Some (q, r) /\ split_spec G R qr_blk x q r.
  Proof. rewrite qr_gen_eq. now apply qr_structure. Qed.

  Lemma qr_gen_reconstruct (RL : SumLaws R)
    (cltb_irrefl : forall c : C G, cltb G c c = false)
    (cltb_trans : forall a b c : C G, cltb G a b = true -> cltb G b c = true -> cltb G a c = true)
    (cltb_total : forall a b : C G, a <> b -> cltb G a b = true \/ cltb G b a = true)
    (qr_blk : tensor R -> tensor R * tensor R) (qr_shapes : split_shapes R qr_blk) (x q r : aarray G R) :
    wf_array G R x = true -> ndim G R x = 2 ->
    (forall s m, In (s, m) (blocks G R x) -> split_product R qr_blk m) ->
    qr_gen G R qr_blk x = Some (q, r) ->
    forall l rr, coords_ok G [ix0 G R x] [l] = true -> coords_ok G [ix1 G R x] [rr] = true ->
    exists res, a_matmul G R q r = Some res /\ sem G R res [l; rr] = sem G R x [l; rr].
  Proof. rewrite qr_gen_eq. now apply qr_reconstruct. Qed.

  Lemma svd_gen_structure
    (cltb_trans : forall a b c : C G, cltb G a b = true -> cltb G b c = true -> cltb G a c = true)
    (cltb_total : forall a b : C G, a <> b -> cltb G a b = true \/ cltb G b a = true)
    (svd_blk : tensor R -> tensor R * tensor R * tensor R) (Hshapes : svd_shapes R svd_blk) (x : aarray G R) :
    wf_array G R x = true -> ndim G R x = 2 ->
    exists u s vh, svd_gen G R svd_blk x = Some (u, s, vh) /\ split_spec G R (svd_uv R svd_blk) x u vh /\
      s = map (fun sb => (col_charge G (fst sb), svd_s R svd_blk (snd sb))) (blocks G R x) /\
      NoDup (map fst s).
  Proof. rewrite svd_gen_eq. now apply svd_structure. Qed.

  (* fermionic qr: the generated wrapper reconstructs the input (value level), for every well-formed matrix *)
  Lemma qr_fermionic_gen_reconstruct (RL : SumLaws R)
    (cltb_irrefl : forall c : C G, cltb G c c = false)
    (cltb_trans : forall a b c : C G, cltb G a b = true -> cltb G b c = true -> cltb G a c = true)
    (cltb_total : forall a b : C G, a <> b -> cltb G a b = true \/ cltb G b a = true)
    (rneg_invol : forall a : RT R, rneg R (rneg R a) = a)
    (rneg_zero : rneg R (r0 R) = r0 R)
    (rneg_add : forall a b : RT R, rneg R (radd R a b) = radd R (rneg R a) (rneg R b))
    (rmul_neg_l : forall a b : RT R, rmul R (rneg R a) b = rneg R (rmul R a b))
    (f : tensor R -> tensor R * tensor R) (x q r : farray G R) (l rr : coord G) :
    wf_array G R (fbase G R x) = true -> ndim G R (fbase G R x) = 2 -> split_shapes R f ->
    (forall s m, In (s, m) (blocks G R (fbase G R x)) -> split_product R f m) ->
    qr_fermionic_gen G R f x = Some (q, r) ->
    resolve_oddpos (fparity G R x) (foddpos G R x) [] = Some (false, foddpos G R x) ->
    coords_ok G [ix0 G R (fbase G R x)] [l] = true -> coords_ok G [ix1 G R (fbase G R x)] [rr] = true ->
    exists y, f_matmul G R q r = Some y /\ foddpos G R y = foddpos G R x /\
              sem G R (f_value G R y) [l; rr] = sem G R (f_value G R x) [l; rr].
  Proof.
    intros Hwf Hnd Hsh Hprod E. rewrite (qr_fermionic_gen_eq G R (ceqb_eq G HG) (parity_ok_of_laws G HG)) in E
      by (apply (wf_sectors_bits G HG R); exact Hwf).
    now apply (f_split_matmul G HG R RL cltb_irrefl cltb_trans cltb_total rneg_invol rneg_zero rneg_add rmul_neg_l f x q r l rr).
  Qed.
End Restated.

(* ---- the hypotheses are satisfiable / the generated functions compute: a fermionic Z2 matrix with two
        blocks, one pending sign and one label, both index directions of the second index ---- *)
Module Ex.
  Import SymInst.
  Definition ixa (d : bool) : index Z2 := Index Z2 [(0%Z, 2); (1%Z, 1)] d None.
  Definition t (sh : list nat) (l : list Z) : tensor ZRing := @mkT ZRing sh l.
  Definition base (d1 : bool) : aarray Z2 ZRing :=
    mkA Z2 ZRing [ixa false; ixa d1] 0%Z [([0%Z; 0%Z], t [2; 2] [1; 2; 3; 4]%Z); ([1%Z; 1%Z], t [1; 1] [5%Z])].
  Definition x (d1 : bool) : farray Z2 ZRing := mkF Z2 ZRing (base d1) [[1%Z; 1%Z]] [([7%Z], false)].
  Definition vec : farray Z2 ZRing :=
    mkF Z2 ZRing (mkA Z2 ZRing [ixa false] 0%Z [([0%Z], t [2] [1; 1]%Z)]) [[0%Z]] [].
End Ex.

Example linalg_gen_instance :
  (forall d, qr_gen SymInst.Z2 ZRing (qr_stub ZRing) (Ex.base d) = a_qr SymInst.Z2 ZRing (qr_stub ZRing) (Ex.base d)) /\
  (forall d, exists q r, qr_fermionic_gen SymInst.Z2 ZRing (qr_stub ZRing) (Ex.x d) = Some (q, r) /\
             f_qr SymInst.Z2 ZRing (qr_stub ZRing) (Ex.x d) = Some (q, r) /\
             length (fphases SymInst.Z2 ZRing r) = (if d then 0 else 1)) /\
  (forall d, svd_fermionic_gen SymInst.Z2 ZRing (svd_stub ZRing) (Ex.x d) = f_svd SymInst.Z2 ZRing (svd_stub ZRing) (Ex.x d)) /\
  (forall d, exists w v, eigh_fermionic_gen SymInst.Z2 ZRing (eigh_stub ZRing) (Ex.x d) = Some (w, v) /\
             f_eigh SymInst.Z2 ZRing (eigh_stub ZRing) (Ex.x d) = Some (w, v) /\ length w = 2) /\
  (forall d, exists s, solve_fermionic_gen SymInst.Z2 ZRing (solve_stub ZRing) (Ex.x d) Ex.vec = Some s /\
             f_solve SymInst.Z2 ZRing (solve_stub ZRing) (Ex.x d) Ex.vec = Some s /\
             length (blocks SymInst.Z2 ZRing (fbase SymInst.Z2 ZRing s)) = 1) /\
  (forall d, wf_array SymInst.Z2 ZRing (Ex.base d) = true /\ NoDup (fphases SymInst.Z2 ZRing (Ex.x d)) /\
             bits_ok SymInst.Z2 (fsectors SymInst.Z2 ZRing (Ex.x d))).
Proof.
  repeat split; try (destruct d; vm_compute; reflexivity).
  - destruct d; vm_compute; eexists; eexists; repeat split; reflexivity.
  - destruct d; vm_compute; eexists; eexists; repeat split; reflexivity.
  - destruct d; vm_compute; eexists; repeat split; reflexivity.
  - destruct d; cbn; repeat constructor; cbn; intuition discriminate.
  - destruct d; intros s c Hs Hc; cbn in Hs; destruct Hs as [<-|[<-|[]]]; cbn in Hc; intuition (subst; vm_compute; auto).
Qed.
