(* Proofs/TraceEinsumProofs.v — property C02, remaining clauses: trace,
   scalar results / no aligned blocks, single-array einsum.  Everything is stated
   in (charge, offset) coordinates through `sem`, like Proofs/Tdot.v. *)
From SV Require Import Base.Prelude Base.Sym Base.Tensor Model.Sectors Model.Array Model.Wf
  Model.SymInst Proofs.TensorProofs Proofs.SymLaws Proofs.Tdot Proofs.TdotInst.
Local Open Scope nat_scope.

(* ------------------------------------------------------------------ *)
(* more facts about finite sums *)
Section MoreSums.
  Context (R : Ring) (RL : SumLaws R).
  Notation T := (RT R).
  Notation Sum := (rsum R).

  Lemma rsum_if {A} (c : bool) (f : A -> T) l :
    Sum (map (fun x => if c then f x else r0 R) l) = if c then Sum (map f l) else r0 R.
  Proof. destruct c; [reflexivity | now apply rsum_zero]. Qed.

  Lemma fold_left_cond {A} (P : A -> bool) (f : A -> T) l : forall a,
    fold_left (fun acc x => if P x then radd R acc (f x) else acc) l a =
    radd R a (Sum (map (fun x => if P x then f x else r0 R) l)).
  Proof.
    induction l as [|x l IH]; intros a; cbn [fold_left map].
    - symmetry. apply (radd_0_r R RL).
    - rewrite IH, rsum_cons. destruct (P x).
      + symmetry. apply (radd_assoc R RL).
      + now rewrite (radd_0_l R RL).
  Qed.
End MoreSums.

(* ------------------------------------------------------------------ *)
(* 1. trace *)
Section Trace.
  Context (G : Symmetry) (R : Ring) (RL : SumLaws R).
  Context (ceqb_spec : forall a b : C G, ceqb G a b = true <-> a = b).
  Notation T := (RT R).
  Notation Sum := (rsum R).
  Notation keq := (list_eqb (ceqb G)).
  Notation idx_d := (dflt_index G).
  Notation ch_d := (ident G).

  Theorem trace_none (x : aarray G R) : a_trace G R x = None <-> ndim G R x <> 2.
  Proof.
    unfold a_trace. destruct (Nat.eqb (ndim G R x) 2) eqn:E.
    - apply Nat.eqb_eq in E. split; [discriminate | intros H; contradiction].
    - apply Nat.eqb_neq in E. split; auto.
  Qed.

  (* the diagonal sum of one stored block, as a sum over the first table *)
  Lemma trace_block (x : aarray G R) i0 i1 sb :
    indices G R x = [i0; i1] -> blocks_ok G R x -> In sb (blocks G R x) ->
    chargemap G i0 = chargemap G i1 -> NoDup (icharges G i0) ->
    (if ceqb G (nth 0 (fst sb) ch_d) (nth 1 (fst sb) ch_d) then ttrace R (snd sb) else r0 R) =
    Sum (map (fun p : C G * nat => Sum (map (fun o =>
           if keq [fst p; fst p] (fst sb) then get R (snd sb) [o; o] else r0 R) (seq 0 (snd p))))
         (chargemap G i0)).
  Proof.
    intros Hix Hx Hin Hcm Hnd.
    pose proof (bo_len G R x Hx sb Hin) as Hlen. pose proof (bo_shape G R x Hx sb Hin) as Hsh.
    unfold ndim in Hlen. rewrite Hix in Hlen, Hsh. cbn [length] in Hlen.
    destruct sb as [s t]. cbn [fst snd] in *.
    destruct s as [|s0 [|s1 [|? ?]]]; try discriminate. cbn [nth].
    rewrite (rsum_ext R _ (fun p => if keq [fst p; fst p] [s0; s1]
               then (fun d => Sum (map (fun o => get R t [o; o]) (seq 0 d))) (snd p) else r0 R))
      by (intros p _; apply (rsum_if R RL)).
    destruct (ceqb G s0 s1) eqn:E.
    - apply ceqb_spec in E. subst s1.
      rewrite (rsum_ext R _ (fun p => if ceqb G s0 (fst p)
                 then (fun d => Sum (map (fun o => get R t [o; o]) (seq 0 d))) (snd p) else r0 R)).
      2:{ intros p _. cbn [list_eqb]. rewrite (eqb_sym (ceqb G) ceqb_spec s0 (fst p)).
          now destruct (ceqb G (fst p) s0). }
      rewrite (rsum_lookup R RL (ceqb G) ceqb_spec (chargemap G i0) s0
                 (fun d => Sum (map (fun o => get R t [o; o]) (seq 0 d)))) by exact Hnd.
      unfold ttrace. rewrite Hsh. unfold block_shape. cbn [List.combine map fst snd nth].
      unfold size_of. rewrite <- Hcm. rewrite Nat.min_id.
      destruct (lookup (ceqb G) s0 (chargemap G i0)); reflexivity.
    - symmetry. apply (rsum_zero R RL). intros p _. cbn [list_eqb].
      destruct (ceqb G (fst p) s0) eqn:E0; [|reflexivity]. apply ceqb_spec in E0. subst s0.
      rewrite E. reflexivity.
  Qed.

  Theorem trace_sem (x : aarray G R) :
    wf_array G R x = true -> ndim G R x = 2 ->
    chargemap G (nth 0 (indices G R x) idx_d) = chargemap G (nth 1 (indices G R x) idx_d) ->
    charges_nodup G [nth 0 (indices G R x) idx_d] = true ->
    a_trace G R x =
    Some (Sum (map (fun c => sem G R x [c; c]) (index_coords G (nth 0 (indices G R x) idx_d)))).
  Proof.
    intros Hw Hn Hcm Hcn. pose proof (wf_blocks_ok G R ceqb_spec x Hw) as Hx.
    unfold a_trace. rewrite Hn. cbn [Nat.eqb]. f_equal.
    unfold ndim in Hn. destruct (indices G R x) as [|i0 [|i1 [|? ?]]] eqn:Hix; try discriminate.
    cbn [nth] in *.
    assert (Hnd : NoDup (icharges G i0)).
    { unfold charges_nodup in Hcn. cbn [forallb] in Hcn. apply andb_true_iff in Hcn.
      apply (nodupb_NoDup (ceqb G) ceqb_spec). tauto. }
    rewrite (fold_left_cond R RL (fun sb => ceqb G (nth 0 (fst sb) ch_d) (nth 1 (fst sb) ch_d))
               (fun sb => ttrace R (snd sb))).
    rewrite (radd_0_l R RL).
    rewrite (rsum_ext R _ _ _ (fun sb Hin => trace_block x i0 i1 sb Hix Hx Hin Hcm Hnd)).
    rewrite (rsum_index_coords G R RL).
    rewrite (rsum_swap R RL). apply rsum_ext. intros p _.
    rewrite (rsum_swap R RL). apply rsum_ext. intros o _.
    unfold sem. cbn [map fst snd].
    apply (rsum_lookup R RL keq (keq_spec G ceqb_spec) (blocks G R x) [fst p; fst p]
                       (fun t => get R t [o; o])).
    exact (bo_nodup G R x Hx).
  Qed.
End Trace.

(* ------------------------------------------------------------------ *)
(* 2. scalar results, no aligned blocks *)
Lemma filter_none {A} (P : A -> bool) l : (forall x, In x l -> P x = false) -> filter P l = [].
Proof.
  induction l as [|x l IH]; intros H; [reflexivity|]. cbn [filter].
  rewrite H by (now left). apply IH. intros y Hy. apply H. now right.
Qed.

Lemma flat_map_none {A B} (f : A -> list B) l : (forall x, In x l -> f x = []) -> flat_map f l = [].
Proof.
  induction l as [|x l IH]; intros H; [reflexivity|]. cbn [flat_map].
  rewrite H by (now left). apply IH. intros y Hy. apply H. now right.
Qed.

Lemma existsb_false {A} (f : A -> bool) l : existsb f l = false -> forall x, In x l -> f x = false.
Proof.
  intros H x Hx. destruct (f x) eqn:E; [|reflexivity].
  assert (existsb f l = true) by (apply existsb_exists; eauto). congruence.
Qed.

(* axes that list every position leave no free position *)
Lemma full_axes_rest n axes : axes_ok n axes = true -> length axes = n -> rest_axes n axes = [].
Proof.
  intros Hok Hlen. apply axes_ok_spec in Hok. destruct Hok as [Hnd Hlt].
  unfold rest_axes. apply filter_none. intros i Hi. apply negb_false_iff. apply (memN_In i axes).
  apply (@NoDup_length_incl nat axes (seq 0 n) Hnd); [rewrite seq_length; lia | | exact Hi].
  intros j Hj. apply in_seq. specialize (Hlt j Hj). lia.
Qed.

Section Scalar.
  Context (G : Symmetry) (R : Ring).
  Context (ceqb_spec : forall a b : C G, ceqb G a b = true <-> a = b).
  Notation T := (RT R).
  Notation Sum := (rsum R).
  Notation keq := (list_eqb (ceqb G)).
  Notation idx_d := (dflt_index G).
  Notation ch_d := (ident G).

  (* the scalar returned for a rank-0 result is its value at the empty coordinate *)
  Lemma a_scalar_sem (y : aarray G R) : a_scalar G R y = sem G R y [].
  Proof. reflexivity. Qed.

  (* some stored block of a and some stored block of b carry the same charges on
     the contracted axes *)
  Definition any_aligned (a b : aarray G R) (aa ab : list nat) : bool :=
    existsb (fun sa => existsb (fun sb =>
      keq (take_axes ch_d (fst sa) aa) (take_axes ch_d (fst sb) ab)) (blocks G R b)) (blocks G R a).

  Lemma no_aligned_pairs a b la aa ab rb :
    any_aligned a b aa ab = false -> tdot_pairs G R a b la aa ab rb = [].
  Proof.
    intros H. unfold tdot_pairs. apply flat_map_none. intros sa Hsa. apply flat_map_none. intros sb Hsb.
    unfold any_aligned in H. pose proof (existsb_false _ _ H sa Hsa) as H1. cbv beta in H1.
    now rewrite (existsb_false _ _ H1 sb Hsb).
  Qed.

  (* no aligned pair: the result stores no block, reads 0 everywhere (also as a
     scalar), and every table of the result is pruned to nothing *)
  Theorem no_aligned_blocks (a b : aarray G R) (la aa ab rb : list nat) :
    any_aligned a b aa ab = false ->
    let res := tdot_blockwise G R a b la aa ab rb in
    blocks G R res = [] /\
    (forall cs, sem G R res cs = r0 R) /\
    a_scalar G R res = r0 R /\
    charge G R res = combine G [charge G R a; charge G R b] /\
    length (indices G R res) = length (without_axes (indices G R a) aa ++ without_axes (indices G R b) ab) /\
    forall ix, In ix (indices G R res) -> chargemap G ix = [].
  Proof.
    intros H res.
    assert (Hb : blocks G R res = []).
    { unfold res, tdot_blockwise. cbn [blocks]. now rewrite (no_aligned_pairs a b la aa ab rb H). }
    split; [exact Hb|]. split; [|split; [|split; [reflexivity|split]]].
    - intros cs. unfold sem. now rewrite Hb.
    - unfold a_scalar. now rewrite Hb.
    - unfold res, tdot_blockwise. cbn [indices]. apply length_prune_indices.
    - unfold res, tdot_blockwise. cbn [indices]. rewrite (no_aligned_pairs a b la aa ab rb H).
      cbn [fold_left map]. unfold prune_indices. intros ix Hix. apply in_map_iff in Hix.
      destruct Hix as [[i ix0] [<- _]]. cbn [fst snd map]. rewrite chargemap_drop.
      apply filter_none. intros p Hp. apply negb_false_iff. cbn [mem negb].
      apply (mem_In (ceqb G) ceqb_spec). apply filter_In. split; [|reflexivity].
      unfold icharges. now apply in_map.
  Qed.

  (* full contraction: the scalar is the dense sum over all contracted coordinates *)
  Theorem scalar_result (RL : SumLaws R) (a b : aarray G R) (aa ab : list nat) :
    wf_array G R a = true -> wf_array G R b = true ->
    axes_ok (ndim G R a) aa = true -> axes_ok (ndim G R b) ab = true ->
    length aa = ndim G R a -> length ab = ndim G R b -> length aa = length ab ->
    charges_nodup G (take_axes idx_d (indices G R a) aa) = true ->
    a_scalar G R (tdot_blockwise G R a b [] aa ab []) =
    Sum (map (fun kc => rmul R (sem G R a (merge G (ndim G R a) aa [] kc))
                               (sem G R b (merge G (ndim G R b) ab [] kc)))
             (all_coords G (take_axes idx_d (indices G R a) aa))).
  Proof.
    intros Hwa Hwb Haa Hab Hla Hlb Hlen Hcn.
    pose proof (full_axes_rest _ _ Haa Hla) as Ea. pose proof (full_axes_rest _ _ Hab Hlb) as Eb.
    rewrite a_scalar_sem. change (@nil (coord G)) with (@nil (coord G) ++ []) at 1.
    apply (blockwise_sem G R RL ceqb_spec); auto.
    - rewrite (without_axes_take idx_d). unfold ndim in Ea. now rewrite Ea.
    - rewrite (without_axes_take idx_d). unfold ndim in Eb. now rewrite Eb.
  Qed.

  (* ... and it is 0 when no stored blocks align: both sides are 0 *)
  Theorem scalar_no_aligned (RL : SumLaws R) (a b : aarray G R) (aa ab : list nat) :
    wf_array G R a = true -> wf_array G R b = true ->
    axes_ok (ndim G R a) aa = true -> axes_ok (ndim G R b) ab = true ->
    length aa = ndim G R a -> length ab = ndim G R b -> length aa = length ab ->
    charges_nodup G (take_axes idx_d (indices G R a) aa) = true ->
    any_aligned a b aa ab = false ->
    a_scalar G R (tdot_blockwise G R a b [] aa ab []) = r0 R /\
    Sum (map (fun kc => rmul R (sem G R a (merge G (ndim G R a) aa [] kc))
                               (sem G R b (merge G (ndim G R b) ab [] kc)))
             (all_coords G (take_axes idx_d (indices G R a) aa))) = r0 R.
  Proof.
    intros Hwa Hwb Haa Hab Hla Hlb Hlen Hcn Hal.
    pose proof (scalar_result RL a b aa ab Hwa Hwb Haa Hab Hla Hlb Hlen Hcn) as E.
    destruct (no_aligned_blocks a b [] aa ab [] Hal) as [_ [_ [Hs _]]].
    split; [exact Hs|]. now rewrite <- E.
  Qed.

  (* in general (any number of free axes): with no aligned pair the dense
     contraction is 0 at every coordinate of the free tables, as is the result *)
  Theorem no_aligned_dense_zero (RL : SumLaws R) (a b : aarray G R) (la aa ab rb : list nat)
          (cl cr : list (coord G)) :
    wf_array G R a = true -> wf_array G R b = true ->
    axes_ok (ndim G R a) aa = true -> axes_ok (ndim G R b) ab = true -> length aa = length ab ->
    la = rest_axes (ndim G R a) aa -> rb = rest_axes (ndim G R b) ab ->
    charges_nodup G (take_axes idx_d (indices G R a) aa) = true ->
    coords_ok G (without_axes (indices G R a) aa) cl = true ->
    coords_ok G (without_axes (indices G R b) ab) cr = true ->
    any_aligned a b aa ab = false ->
    sem G R (tdot_blockwise G R a b la aa ab rb) (cl ++ cr) = r0 R /\
    Sum (map (fun kc => rmul R (sem G R a (merge G (ndim G R a) aa cl kc))
                               (sem G R b (merge G (ndim G R b) ab cr kc)))
             (all_coords G (take_axes idx_d (indices G R a) aa))) = r0 R.
  Proof.
    intros Hwa Hwb Haa Hab Hlen Hla Hrb Hcn Hcl Hcr Hal.
    pose proof (blockwise_sem G R RL ceqb_spec a b la aa ab rb cl cr Hwa Hwb Haa Hab Hlen Hla Hrb Hcn Hcl Hcr) as E.
    destruct (no_aligned_blocks a b la aa ab rb Hal) as [_ [Hs _]].
    split; [apply Hs|]. rewrite <- E. apply Hs.
  Qed.
End Scalar.

(* ------------------------------------------------------------------ *)
(* 3. single-array einsum: label bookkeeping *)
From Coq Require Import Permutation.

Definition traced_of (lhs rhs : list nat) : list nat :=
  nodup_nat (filter (fun q => negb (mem Nat.eqb q rhs)) lhs).

Lemma nodup_nat_go l : forall acc, NoDup acc ->
  NoDup (fold_left (fun acc x => if mem Nat.eqb x acc then acc else acc ++ [x]) l acc) /\
  forall x, In x (fold_left (fun acc x => if mem Nat.eqb x acc then acc else acc ++ [x]) l acc)
            <-> In x acc \/ In x l.
Proof.
  induction l as [|a l IH]; intros acc Hnd; cbn [fold_left].
  - split; [exact Hnd|]. intros x. cbn [In]. tauto.
  - destruct (mem Nat.eqb a acc) eqn:E.
    + destruct (IH acc Hnd) as [H1 H2]. split; [exact H1|]. intros x. rewrite H2. cbn [In].
      apply memN_In in E. split; [tauto|]. intros [H|[<-|H]]; auto.
    + assert (Hna : ~ In a acc) by (intros Hin; apply memN_In in Hin; congruence).
      assert (Hnd' : NoDup (acc ++ [a])).
      { apply (Permutation_NoDup (Permutation_cons_append acc a)). now constructor. }
      destruct (IH _ Hnd') as [H1 H2]. split; [exact H1|]. intros x. rewrite H2, in_app_iff. cbn [In].
      split; [intros [[H|[<-|[]]]|H]; auto | intros [H|[<-|H]]; auto].
Qed.

Lemma nodup_nat_NoDup l : NoDup (nodup_nat l).
Proof. unfold nodup_nat. apply nodup_nat_go. constructor. Qed.

Lemma nodup_nat_In l x : In x (nodup_nat l) <-> In x l.
Proof.
  unfold nodup_nat. destruct (nodup_nat_go l [] (NoDup_nil _)) as [_ H]. rewrite H. cbn [In]. tauto.
Qed.

Lemma traced_of_NoDup lhs rhs : NoDup (traced_of lhs rhs).
Proof. apply nodup_nat_NoDup. Qed.

Lemma traced_of_In lhs rhs q : In q (traced_of lhs rhs) <-> In q lhs /\ ~ In q rhs.
Proof.
  unfold traced_of. rewrite nodup_nat_In, filter_In. rewrite negb_true_iff.
  split; intros [H1 H2]; split; auto.
  - intros Hin. apply memN_In in Hin. congruence.
  - destruct (mem Nat.eqb q rhs) eqn:E; [|reflexivity]. apply memN_In in E. contradiction.
Qed.

Lemma index_of_In q l : In q l -> index_of q l < length l /\ nth (index_of q l) l 0 = q.
Proof.
  induction l as [|p l IH]; intros Hin; [destruct Hin|]. cbn [index_of].
  destruct (Nat.eqb p q) eqn:E.
  - apply Nat.eqb_eq in E. cbn [length nth]. split; [lia | exact E].
  - apply Nat.eqb_neq in E. destruct Hin as [Hin|Hin]; [contradiction|].
    destruct (IH Hin) as [H1 H2]. cbn [length nth]. split; [lia | exact H2].
Qed.

Lemma positions_go q l : forall s i,
  In i (map fst (filter (fun p => Nat.eqb (snd p) q) (List.combine (seq s (length l)) l)))
  <-> (s <= i /\ i < s + length l) /\ nth (i - s) l 0 = q.
Proof.
  induction l as [|x l IH]; intros s i; cbn [length seq List.combine filter map].
  - cbn [In]. split; [tauto | intros [H _]; lia].
  - cbn [snd]. destruct (Nat.eq_dec i s) as [->|Hne].
    + rewrite Nat.sub_diag. cbn [nth]. destruct (Nat.eqb x q) eqn:E.
      * apply Nat.eqb_eq in E. cbn [map fst In]. split; [intros _; split; [lia | exact E] | auto].
      * apply Nat.eqb_neq in E. rewrite IH. split; [intros [H _]; lia | intros [_ H]; contradiction].
    + assert (E1 : In i (map fst (filter (fun p : nat * nat => Nat.eqb (snd p) q) (List.combine (seq (S s) (length l)) l)))
                   <-> (s <= i /\ i < s + S (length l)) /\ nth (i - s) (x :: l) 0 = q).
      { rewrite IH. destruct (le_lt_dec i s) as [Hle|Hgt]; [split; intros [H _]; lia|].
        replace (i - s) with (S (i - S s)) by lia. cbn [nth]. split; intros [H1 H2]; (split; [lia | exact H2]). }
      destruct (Nat.eqb x q); [|exact E1]. cbn [map fst In]. rewrite E1. split; [intros [H|H]; [congruence | exact H] | auto].
Qed.

Lemma positions_spec q l i : In i (positions q l) <-> i < length l /\ nth i l 0 = q.
Proof.
  unfold positions, enumerate. rewrite positions_go, Nat.sub_0_r. cbn [Nat.add]. split; [intros [[_ H] H']; auto | intros [H H']; repeat split; [lia | exact H | exact H']].
Qed.

Lemma length_positions_go q l : forall s,
  length (filter (fun p : nat * nat => Nat.eqb (snd p) q) (List.combine (seq s (length l)) l)) = count_nat q l.
Proof.
  unfold count_nat. induction l as [|x l IH]; intros s; [reflexivity|].
  cbn [length seq List.combine filter snd]. rewrite (Nat.eqb_sym q x).
  destruct (Nat.eqb x q); cbn [length]; now rewrite IH.
Qed.

Lemma length_positions q l : length (positions q l) = count_nat q l.
Proof. unfold positions, enumerate. rewrite map_length. apply length_positions_go. Qed.

Lemma positions_one q l i j : count_nat q l = 1 -> In i (positions q l) -> In j (positions q l) -> i = j.
Proof.
  rewrite <- length_positions. destruct (positions q l) as [|a [|b r]]; cbn [length]; try discriminate.
  intros _ [<-|[]] [<-|[]]. reflexivity.
Qed.

Lemma positions_two q l : count_nat q l = 2 -> exists ja jb, positions q l = [ja; jb].
Proof.
  rewrite <- length_positions. destruct (positions q l) as [|a [|b [|c r]]]; cbn [length]; try discriminate.
  intros _. now exists a, b.
Qed.

Lemma count_In q l : 0 < count_nat q l -> In q l.
Proof.
  rewrite <- length_positions. destruct (positions q l) as [|a r] eqn:E; cbn [length]; [lia|]. intros _.
  assert (H : In a (positions q l)) by (rewrite E; now left).
  apply positions_spec in H. destruct H as [H1 H2]. rewrite <- H2. now apply nth_In.
Qed.

Lemma index_of_positions q l : In q l -> In (index_of q l) (positions q l).
Proof. intros H. apply positions_spec. now apply index_of_In. Qed.

(* ------------------------------------------------------------------ *)
(* placing one value per kept label and one per traced label along `lhs` *)
Section Place.
  Context {A : Type} (d : A).
  Context (lhs rhs : list nat).
  Let traced := traced_of lhs rhs.
  Let perm := map (fun q => index_of q lhs) rhs.
  Let tperm := map (fun q => index_of q lhs) traced.

  Definition place (kv tv : list A) : list A :=
    map (fun q => if mem Nat.eqb q rhs then nth (index_of q rhs) kv d
                  else nth (index_of q (traced_of lhs rhs)) tv d) lhs.

  (* a list indexed like lhs is constant on the positions of every traced label *)
  Definition diagP (s : list A) : Prop :=
    forall q, In q traced -> forall i j, In i (positions q lhs) -> In j (positions q lhs) -> nth i s d = nth j s d.

  Context (Hrhs_nd : NoDup rhs).
  Context (Hkept : forall q, In q rhs -> count_nat q lhs = 1).

  Lemma kept_in_lhs q : In q rhs -> In q lhs.
  Proof. intros H. apply count_In. rewrite (Hkept q H). lia. Qed.

  Lemma nth_place kv tv i : i < length lhs ->
    nth i (place kv tv) d =
    let q := nth i lhs 0 in
    if mem Nat.eqb q rhs then nth (index_of q rhs) kv d else nth (index_of q traced) tv d.
  Proof.
    intros Hi. unfold place.
    set (F := fun q => if mem Nat.eqb q rhs then nth (index_of q rhs) kv d
                       else nth (index_of q (traced_of lhs rhs)) tv d).
    rewrite (nth_indep _ d (F 0)) by (now rewrite map_length).
    now rewrite (map_nth F).
  Qed.

  Lemma length_place kv tv : length (place kv tv) = length lhs.
  Proof. apply map_length. Qed.

  Lemma place_eq_iff kv tv s :
    length kv = length rhs -> length tv = length traced -> length s = length lhs ->
    place kv tv = s <-> (kv = take_axes d s perm /\ tv = take_axes d s tperm) /\ diagP s.
  Proof.
    intros Hk Ht Hs. split.
    - intros <-. split; [split|].
      + unfold take_axes, perm. rewrite map_map. symmetry.
        etransitivity; [|apply (map_index_of d rhs kv Hrhs_nd Hk)].
        apply map_ext_in. intros q Hq. pose proof (kept_in_lhs q Hq) as Hl.
        destruct (index_of_In q lhs Hl) as [H1 H2]. rewrite (nth_place kv tv _ H1). cbv zeta. rewrite H2.
        apply memN_In in Hq. now rewrite Hq.
      + unfold take_axes, tperm. rewrite map_map. symmetry.
        etransitivity; [|apply (map_index_of d traced tv (traced_of_NoDup lhs rhs) Ht)].
        apply map_ext_in. intros q Hq. apply traced_of_In in Hq. destruct Hq as [Hl Hnr].
        destruct (index_of_In q lhs Hl) as [H1 H2]. rewrite (nth_place kv tv _ H1). cbv zeta. rewrite H2.
        destruct (mem Nat.eqb q rhs) eqn:E; [apply memN_In in E; contradiction | reflexivity].
      + intros q Hq i j Hi Hj. apply positions_spec in Hi. apply positions_spec in Hj.
        destruct Hi as [Hi1 Hi2]. destruct Hj as [Hj1 Hj2].
        rewrite (nth_place kv tv i Hi1), (nth_place kv tv j Hj1). cbv zeta. now rewrite Hi2, Hj2.
    - intros [[Hkv Htv] Hd]. apply (nth_ext _ _ d d); [now rewrite length_place|].
      intros i Hi. rewrite length_place in Hi. rewrite (nth_place kv tv i Hi). cbv zeta.
      set (q := nth i lhs 0).
      assert (Hql : In q lhs) by (apply nth_In; exact Hi).
      assert (Hip : In i (positions q lhs)) by (apply positions_spec; auto).
      pose proof (index_of_positions q lhs Hql) as Hfp.
      destruct (mem Nat.eqb q rhs) eqn:E.
      + apply memN_In in E. rewrite Hkv. unfold take_axes, perm. rewrite map_map.
        rewrite (nth_index_of_map d (fun q => nth (index_of q lhs) s d) rhs q E).
        now rewrite (positions_one q lhs i (index_of q lhs) (Hkept q E) Hip Hfp).
      + assert (Hqt : In q traced).
        { apply traced_of_In. split; [exact Hql|]. intros Hin. apply memN_In in Hin. congruence. }
        rewrite Htv. unfold take_axes, tperm. rewrite map_map.
        rewrite (nth_index_of_map d (fun q => nth (index_of q lhs) s d) traced q Hqt).
        symmetry. now apply (Hd q Hqt).
  Qed.
End Place.

Lemma map_place {A B} (f : A -> B) (d : A) lhs rhs kv tv :
  map f (place d lhs rhs kv tv) = place (f d) lhs rhs (map f kv) (map f tv).
Proof.
  unfold place. rewrite map_map. apply map_ext. intros q.
  destruct (mem Nat.eqb q rhs); now rewrite map_nth.
Qed.

Lemma forallb_false_ex {A} (f : A -> bool) l : forallb f l = false -> exists x, In x l /\ f x = false.
Proof.
  induction l as [|x l IH]; cbn [forallb]; [discriminate|]. destruct (f x) eqn:E; cbn [andb].
  - intros H. destruct (IH H) as [y [H1 H2]]. exists y. split; [now right | exact H2].
  - intros _. exists x. split; [now left | exact E].
Qed.

(* ------------------------------------------------------------------ *)
(* 3. single-array einsum *)
Section Einsum.
  Context (G : Symmetry) (R : Ring).
  Notation T := (RT R).
  Notation Sum := (rsum R).
  Notation sector := (list (C G)).
  Notation keq := (list_eqb (ceqb G)).
  Notation idx_d := (dflt_index G).
  Notation ch_d := (ident G).
  Notation dcoord := (ident G, 0).

  Definition eperm (lhs rhs : list nat) : list nat := map (fun q => index_of q lhs) rhs.
  Definition etperm (lhs rhs : list nat) : list nat := map (fun q => index_of q lhs) (traced_of lhs rhs).

  (* the model's test "the sector is diagonal on every traced pair" *)
  Definition diag_b (lhs rhs : list nat) (s : sector) : bool :=
    forallb (fun q => match positions q lhs with
                      | [ja; jb] => ceqb G (nth ja s ch_d) (nth jb s ch_d)
                      | _ => false end) (traced_of lhs rhs).

  Definition einsum_blocks (x : aarray G R) (lhs rhs : list nat) : list (sector * tensor R) :=
    fold_left (fun acc sb =>
      if diag_b lhs rhs (fst sb)
      then acc_add G R acc (take_axes ch_d (fst sb) (eperm lhs rhs), teinsum R (snd sb) lhs rhs)
      else acc) (blocks G R x) [].

  Lemma einsum_some x lhs rhs y : a_einsum G R x lhs rhs = Some y ->
    length lhs = ndim G R x /\
    (forall q, In q (traced_of lhs rhs) -> count_nat q lhs = 2) /\
    y = mkA G R (map (fun q => nth (index_of q lhs) (indices G R x) idx_d) rhs) (charge G R x)
                (einsum_blocks x lhs rhs).
  Proof.
    unfold a_einsum. cbv zeta.
    change (nodup_nat (filter (fun q => negb (mem Nat.eqb q rhs)) lhs)) with (traced_of lhs rhs).
    destruct (Nat.eqb (length lhs) (ndim G R x)) eqn:E1; cbn [negb]; [|discriminate].
    destruct (forallb (fun q => Nat.eqb (count_nat q lhs) 2) (traced_of lhs rhs)) eqn:E2; cbn [negb]; [|discriminate].
    intros H. inversion H. apply Nat.eqb_eq in E1. split; [exact E1|]. split; [|reflexivity].
    intros q Hq. rewrite forallb_forall in E2. apply Nat.eqb_eq. now apply E2.
  Qed.

  (* `None` exactly for a wrong number of labels or a summed label that does not
     occur exactly twice *)
  Theorem einsum_none x lhs rhs :
    a_einsum G R x lhs rhs = None <->
    length lhs <> ndim G R x \/ exists q, In q lhs /\ ~ In q rhs /\ count_nat q lhs <> 2.
  Proof.
    unfold a_einsum. cbv zeta.
    change (nodup_nat (filter (fun q => negb (mem Nat.eqb q rhs)) lhs)) with (traced_of lhs rhs).
    destruct (Nat.eqb (length lhs) (ndim G R x)) eqn:E1; cbn [negb].
    - apply Nat.eqb_eq in E1.
      destruct (forallb (fun q => Nat.eqb (count_nat q lhs) 2) (traced_of lhs rhs)) eqn:E2; cbn [negb].
      + split; [discriminate|]. intros [H|[q [H1 [H2 H3]]]]; [contradiction|].
        rewrite forallb_forall in E2. exfalso. apply H3. apply Nat.eqb_eq. apply E2. now apply traced_of_In.
      + split; [|reflexivity]. intros _. right. apply forallb_false_ex in E2. destruct E2 as [q [Hq E]].
        apply traced_of_In in Hq. apply Nat.eqb_neq in E. exists q. tauto.
    - apply Nat.eqb_neq in E1. split; [now left | reflexivity].
  Qed.

  Lemma fold_cond_acc {B} (D : B -> bool) (f : B -> sector * tensor R) l : forall acc,
    fold_left (fun acc sb => if D sb then acc_add G R acc (f sb) else acc) l acc =
    fold_left (acc_add G R) (map f (filter D l)) acc.
  Proof.
    induction l as [|b l IH]; intros acc; [reflexivity|]. cbn [fold_left filter].
    destruct (D b); [cbn [map fold_left]|]; apply IH.
  Qed.

  Lemma get_teinsum (t : tensor R) lhs rhs o :
    inb (tshape (teinsum R t lhs rhs)) o = true ->
    get R (teinsum R t lhs rhs) o =
    Sum (map (fun k => get R t (place 0 lhs rhs o k))
             (all_idx (take_axes 0 (tshape t) (etperm lhs rhs)))).
  Proof.
    intros H. unfold teinsum in *. cbv zeta in *. rewrite tshape_build in H. rewrite get_build by exact H.
    unfold take_axes, etperm. rewrite map_map. reflexivity.
  Qed.

  Lemma tshape_teinsum (t : tensor R) lhs rhs :
    tshape (teinsum R t lhs rhs) = take_axes 0 (tshape t) (eperm lhs rhs).
  Proof. unfold teinsum, take_axes, eperm. cbv zeta. rewrite tshape_build, map_map. reflexivity. Qed.

  Section Core.
    Context (RL : SumLaws R).
    Context (ceqb_spec : forall a b : C G, ceqb G a b = true <-> a = b).
    Context (x : aarray G R) (lhs rhs : list nat) (co : list (coord G)).
    Let ixs := indices G R x.
    Let traced := traced_of lhs rhs.
    Let perm := eperm lhs rhs.
    Let tperm := etperm lhs rhs.
    Let tixs := take_axes idx_d ixs tperm.
    Let K := map fst co.
    Let I := map snd co.
    Let P := product (map (icharges G) tixs).
    Context (Hx : blocks_ok G R x).
    Context (Hlen : length lhs = ndim G R x).
    Context (Hrhs_nd : NoDup rhs).
    Context (Hkept : forall q, In q rhs -> count_nat q lhs = 1).
    Context (Htr : forall q, In q traced -> count_nat q lhs = 2).
    Context (Hcn : Forall (fun ix => NoDup (icharges G ix)) tixs).
    Context (Hco : coords_ok G (take_axes idx_d ixs perm) co = true).

    Let W (kq : sector) (t : tensor R) : T :=
      Sum (map (fun ko => get R t (place 0 lhs rhs I ko)) (all_idx (block_shape G tixs kq))).

    Lemma diag_b_spec (s : sector) : diag_b lhs rhs s = true <-> diagP ch_d lhs rhs s.
    Proof.
      unfold diag_b, diagP. rewrite forallb_forall. split.
      - intros H q Hq i j Hi Hj. specialize (H q Hq).
        destruct (positions_two q lhs (Htr q Hq)) as [ja [jb E]]. rewrite E in *.
        apply ceqb_spec in H. destruct Hi as [<-|[<-|[]]]; destruct Hj as [<-|[<-|[]]]; congruence.
      - intros H q Hq. destruct (positions_two q lhs (Htr q Hq)) as [ja [jb E]].
        specialize (H q Hq ja jb). rewrite E in *. apply ceqb_spec. apply H; cbn [In]; auto.
    Qed.

    Lemma perm_lt a : In a perm -> a < length ixs.
    Proof.
      intros H. unfold perm, eperm in H. apply in_map_iff in H. destruct H as [q [<- Hq]].
      pose proof (kept_in_lhs lhs rhs Hkept q Hq) as Hl. apply index_of_In in Hl. unfold ixs. fold (ndim G R x). lia.
    Qed.

    Lemma tperm_lt a : In a tperm -> a < length ixs.
    Proof.
      intros H. unfold tperm, etperm in H. apply in_map_iff in H. destruct H as [q [<- Hq]].
      apply traced_of_In in Hq. destruct Hq as [Hl _]. apply index_of_In in Hl. unfold ixs. fold (ndim G R x). lia.
    Qed.

    Lemma len_K : length K = length rhs.
    Proof.
      pose proof (coords_ok_length G _ _ Hco) as E. unfold coord in E.
      unfold K. rewrite map_length, E, length_take_axes. unfold perm, eperm. apply map_length.
    Qed.

    Lemma len_P kq : In kq P -> length kq = length traced.
    Proof.
      intros H. apply product_length in H. rewrite H. unfold tixs. rewrite map_length, length_take_axes.
      unfold tperm, etperm. apply map_length.
    Qed.

    Lemma key_iff kq sb : In kq P -> In sb (blocks G R x) ->
      keq (place ch_d lhs rhs K kq) (fst sb) =
      (diag_b lhs rhs (fst sb) && keq K (take_axes ch_d (fst sb) perm)) && keq kq (take_axes ch_d (fst sb) tperm).
    Proof.
      intros Hkq Hsb. apply Bool.eq_iff_eq_true.
      rewrite !andb_true_iff, !(keq_spec G ceqb_spec), diag_b_spec.
      rewrite (place_eq_iff ch_d lhs rhs Hrhs_nd Hkept K kq (fst sb) len_K (len_P kq Hkq)).
      - fold perm tperm. unfold perm, tperm, eperm, etperm. tauto.
      - rewrite (bo_len G R x Hx sb Hsb). now symmetry.
    Qed.

    Lemma einsum_block_shape sb : In sb (blocks G R x) ->
      tshape (teinsum R (snd sb) lhs rhs) =
      block_shape G (take_axes idx_d ixs perm) (take_axes ch_d (fst sb) perm).
    Proof.
      intros Hsb. rewrite tshape_teinsum, (bo_shape G R x Hx sb Hsb). fold ixs perm.
      apply take_block_shape; [exact perm_lt | exact (bo_len G R x Hx sb Hsb)].
    Qed.

    Lemma block_inb sb : In sb (blocks G R x) -> K = take_axes ch_d (fst sb) perm ->
      inb (tshape (teinsum R (snd sb) lhs rhs)) I = true.
    Proof.
      intros Hsb HK. rewrite (einsum_block_shape sb Hsb), <- HK. now apply inb_block_shape.
    Qed.

    (* left-hand side: the value of the result at `co` *)
    Lemma lhs_sum :
      match lookup keq K (einsum_blocks x lhs rhs) with Some t => get R t I | None => r0 R end =
      Sum (map (fun sb => if diag_b lhs rhs (fst sb) && keq K (take_axes ch_d (fst sb) perm)
                          then get R (teinsum R (snd sb) lhs rhs) I else r0 R) (blocks G R x)).
    Proof.
      unfold einsum_blocks.
      rewrite (fold_cond_acc (fun sb => diag_b lhs rhs (fst sb))
                 (fun sb => (take_axes ch_d (fst sb) (eperm lhs rhs), teinsum R (snd sb) lhs rhs))).
      rewrite (lookup_acc_get G R RL ceqb_spec).
      - unfold sel. rewrite map_map, (rsum_filter R RL), map_map, (rsum_filter R RL).
        apply rsum_ext. intros sb _. cbn [fst snd]. fold perm. now destruct (diag_b lhs rhs (fst sb)).
      - intros t Ht. unfold sel in Ht. apply in_map_iff in Ht. destruct Ht as [p [<- Hp]].
        apply filter_In in Hp. destruct Hp as [Hp HK]. apply (keq_spec G ceqb_spec) in HK.
        apply in_map_iff in Hp. destruct Hp as [sb [<- Hsb]]. apply filter_In in Hsb. destruct Hsb as [Hsb _].
        cbn [fst snd] in *. now apply block_inb.
    Qed.

    (* right-hand side, one tuple of traced charges *)
    Lemma R1 kq : In kq P ->
      Sum (map (fun ko => sem G R x (place dcoord lhs rhs co (List.combine kq ko)))
               (all_idx (block_shape G tixs kq)))
      = Sum (map (fun sb => if keq (place ch_d lhs rhs K kq) (fst sb) then W kq (snd sb) else r0 R)
                 (blocks G R x)).
    Proof.
      intros Hkq.
      rewrite (rsum_lookup R RL keq (keq_spec G ceqb_spec) (blocks G R x) (place ch_d lhs rhs K kq) (W kq))
        by exact (bo_nodup G R x Hx).
      rewrite (rsum_ext R _ (fun ko => match lookup keq (place ch_d lhs rhs K kq) (blocks G R x) with
                                       | Some t => get R t (place 0 lhs rhs I ko) | None => r0 R end)).
      - destruct (lookup keq (place ch_d lhs rhs K kq) (blocks G R x)); [reflexivity|]. now apply rsum_zero.
      - intros ko Hko.
        assert (Hl : length kq = length ko).
        { apply all_idx_length in Hko. rewrite Hko, length_block_shape;
            apply product_length in Hkq; rewrite Hkq, map_length; reflexivity. }
        unfold sem. rewrite !map_place. cbn [fst snd].
        now rewrite (map_fst_combine kq ko Hl), (map_snd_combine kq ko Hl).
    Qed.

    Lemma L1 sb : In sb (blocks G R x) ->
      (if diag_b lhs rhs (fst sb) && keq K (take_axes ch_d (fst sb) perm)
       then get R (teinsum R (snd sb) lhs rhs) I else r0 R) =
      Sum (map (fun kq => if keq (place ch_d lhs rhs K kq) (fst sb) then W kq (snd sb) else r0 R) P).
    Proof.
      intros Hsb.
      rewrite (rsum_ext R _ (fun kq =>
                 if (diag_b lhs rhs (fst sb) && keq K (take_axes ch_d (fst sb) perm))
                    && keq kq (take_axes ch_d (fst sb) tperm)
                 then W kq (snd sb) else r0 R) P)
        by (intros kq Hkq; now rewrite (key_iff kq sb Hkq Hsb)).
      destruct (diag_b lhs rhs (fst sb) && keq K (take_axes ch_d (fst sb) perm)) eqn:E; cbn [andb].
      2:{ symmetry. now apply rsum_zero. }
      apply andb_true_iff in E. destruct E as [_ E]. apply (keq_spec G ceqb_spec) in E.
      unfold P.
      rewrite (rsum_product_pick R RL (ceqb G) ceqb_spec (map (icharges G) tixs)
                 (take_axes ch_d (fst sb) tperm) (fun kq => W kq (snd sb))).
      - rewrite (get_teinsum (snd sb) lhs rhs I (block_inb sb Hsb E)).
        unfold W. rewrite (bo_shape G R x Hx sb Hsb). fold ixs tperm.
        rewrite (take_block_shape G ixs (fst sb) tperm tperm_lt (bo_len G R x Hx sb Hsb)).
        reflexivity.
      - apply Forall_map. exact Hcn.
      - unfold tixs, take_axes. rewrite map_map. apply Forall2_map_same. intros i Hi.
        apply (bo_tab G R x Hx sb i Hsb). apply tperm_lt in Hi. exact Hi.
    Qed.

    Theorem einsum_sem_core :
      match lookup keq K (einsum_blocks x lhs rhs) with Some t => get R t I | None => r0 R end =
      Sum (map (fun tc => sem G R x (place dcoord lhs rhs co tc)) (all_coords G tixs)).
    Proof.
      rewrite (coords_split G R RL ceqb_spec tixs _ Hcn). fold P.
      rewrite (rsum_ext R _ _ _ R1).
      rewrite (rsum_swap R RL).
      rewrite lhs_sum. apply rsum_ext. exact L1.
    Qed.
  End Core.
End Einsum.

(* ------------------------------------------------------------------ *)
(* coordinates inside tables, position by position *)
Section CoordsOk.
  Context (G : Symmetry).
  Context (ceqb_spec : forall a b : C G, ceqb G a b = true <-> a = b).
  Notation idx_d := (dflt_index G).
  Notation dcoord := (ident G, 0).

  Lemma coords_ok_cons' ix ixs (c : coord G) cs :
    coords_ok G (ix :: ixs) (c :: cs) = Nat.ltb (snd c) (size_of G ix (fst c)) && coords_ok G ixs cs.
  Proof.
    unfold coords_ok. cbn [length Nat.eqb List.combine forallb fst snd].
    destruct (Nat.eqb (length cs) (length ixs)), (Nat.ltb (snd c) (size_of G ix (fst c))); reflexivity.
  Qed.

  Lemma coords_ok_iff ixs : forall cs : list (coord G),
    coords_ok G ixs cs = true <->
    (length cs = length ixs /\
     forall i, i < length ixs -> snd (nth i cs dcoord) < size_of G (nth i ixs idx_d) (fst (nth i cs dcoord))).
  Proof.
    induction ixs as [|ix ixs IH]; intros [|c cs].
    - split; [intros _; split; [reflexivity | cbn [length]; intros; lia] | reflexivity].
    - split; [discriminate | intros [H _]; discriminate].
    - split; [discriminate | intros [H _]; discriminate].
    - rewrite coords_ok_cons', andb_true_iff, IH, Nat.ltb_lt. cbn [length]. split.
      + intros [H0 [H1 H2]]. split; [lia|]. intros [|i] Hi; cbn [nth]; [exact H0 | apply H2; lia].
      + intros [H1 H2]. split; [exact (H2 0 ltac:(lia)) | split; [lia | intros i Hi; exact (H2 (S i) ltac:(lia))]].
  Qed.

  Lemma all_coords_ok ixs : Forall (fun ix => NoDup (icharges G ix)) ixs ->
    forall tc, In tc (all_coords G ixs) -> coords_ok G ixs tc = true.
  Proof.
    induction ixs as [|ix ixs IH]; intros Hnd tc Hin.
    - unfold all_coords in Hin. cbn [map product] in Hin. destruct Hin as [<-|[]]. reflexivity.
    - inversion Hnd as [|? ? Hix Hixs]; subst. unfold all_coords in Hin. cbn [map product] in Hin.
      fold (all_coords G ixs) in Hin.
      apply in_flat_map in Hin. destruct Hin as [c [Hc Hin]]. apply in_map_iff in Hin.
      destruct Hin as [tc' [<- Htc']].
      rewrite coords_ok_cons'. apply andb_true_iff. split; [|now apply IH].
      unfold index_coords in Hc. apply in_flat_map in Hc. destruct Hc as [p [Hp Hc]].
      apply in_map_iff in Hc. destruct Hc as [o [<- Ho]]. apply in_seq in Ho. cbn [fst snd].
      apply Nat.ltb_lt. rewrite (size_of_in G ceqb_spec ix (fst p) (snd p)); [lia | assumption | now destruct p].
  Qed.

  Lemma pair_eqb_spec (x y : C G * nat) : pair_eqb (ceqb G) Nat.eqb x y = true <-> x = y.
  Proof.
    unfold pair_eqb. rewrite andb_true_iff, ceqb_spec, Nat.eqb_eq. destruct x, y; cbn [fst snd].
    split; [intros [-> ->]; reflexivity | intros H; inversion H; auto].
  Qed.
End CoordsOk.

(* ------------------------------------------------------------------ *)
(* the einsum theorems in executable hypotheses *)
Section EinsumFinal.
  Context (G : Symmetry) (R : Ring).
  Context (RL : SumLaws R).
  Context (ceqb_spec : forall a b : C G, ceqb G a b = true <-> a = b).
  Notation Sum := (rsum R).
  Notation idx_d := (dflt_index G).
  Notation dcoord := (ident G, 0).

  (* the output labels are distinct and each occurs exactly once on the left *)
  Definition labels_ok (lhs rhs : list nat) : bool :=
    nodupb Nat.eqb rhs && forallb (fun q => Nat.eqb (count_nat q lhs) 1) rhs.

  (* the positions that carry the same summed label have the same charge table *)
  Definition traced_tables_ok (ixs : list (index G)) (lhs rhs : list nat) : bool :=
    forallb (fun q => forallb (fun i => forallb (fun j =>
        list_eqb (pair_eqb (ceqb G) Nat.eqb) (chargemap G (nth i ixs idx_d)) (chargemap G (nth j ixs idx_d)))
      (positions q lhs)) (positions q lhs)) (traced_of lhs rhs).

  Lemma labels_ok_spec lhs rhs : labels_ok lhs rhs = true ->
    NoDup rhs /\ forall q, In q rhs -> count_nat q lhs = 1.
  Proof.
    unfold labels_ok. intros H. apply andb_true_iff in H. destruct H as [H1 H2]. split.
    - now apply (nodupb_NoDup Nat.eqb Nat.eqb_eq).
    - rewrite forallb_forall in H2. intros q Hq. apply Nat.eqb_eq. now apply H2.
  Qed.

  Theorem einsum_indices (x : aarray G R) lhs rhs y : a_einsum G R x lhs rhs = Some y ->
    indices G R y = take_axes idx_d (indices G R x) (eperm lhs rhs) /\ charge G R y = charge G R x.
  Proof.
    intros H. destruct (einsum_some G R x lhs rhs y H) as [_ [_ ->]]. cbn [indices charge].
    split; [|reflexivity]. unfold take_axes, eperm. now rewrite map_map.
  Qed.

  (* general statement: kept labels once, summed labels twice *)
  Theorem einsum_sem (x : aarray G R) lhs rhs y (co : list (coord G)) :
    a_einsum G R x lhs rhs = Some y ->
    wf_array G R x = true -> labels_ok lhs rhs = true ->
    charges_nodup G (take_axes idx_d (indices G R x) (etperm lhs rhs)) = true ->
    coords_ok G (indices G R y) co = true ->
    sem G R y co =
    Sum (map (fun tc => sem G R x (place dcoord lhs rhs co tc))
             (all_coords G (take_axes idx_d (indices G R x) (etperm lhs rhs)))).
  Proof.
    intros Hy Hw Hl Hcn Hco. destruct (einsum_indices x lhs rhs y Hy) as [Hix _].
    rewrite Hix in Hco.
    destruct (einsum_some G R x lhs rhs y Hy) as [Hlen [Htr ->]].
    destruct (labels_ok_spec lhs rhs Hl) as [Hnd Hkept].
    unfold sem at 1. cbn [blocks].
    apply (einsum_sem_core G R RL ceqb_spec x lhs rhs co); auto using wf_blocks_ok.
    unfold charges_nodup in Hcn. rewrite forallb_forall in Hcn. apply Forall_forall. intros ix Hin.
    apply (nodupb_NoDup (ceqb G) ceqb_spec). now apply Hcn.
  Qed.

  (* when the tables of the two positions of each summed label agree, every
     coordinate list read on the right-hand side lies inside the tables of x *)
  Theorem einsum_coords_ok (x : aarray G R) lhs rhs y (co : list (coord G)) :
    a_einsum G R x lhs rhs = Some y ->
    labels_ok lhs rhs = true ->
    charges_nodup G (take_axes idx_d (indices G R x) (etperm lhs rhs)) = true ->
    traced_tables_ok (indices G R x) lhs rhs = true ->
    coords_ok G (indices G R y) co = true ->
    forall tc, In tc (all_coords G (take_axes idx_d (indices G R x) (etperm lhs rhs))) ->
    coords_ok G (indices G R x) (place dcoord lhs rhs co tc) = true.
  Proof.
    intros Hy Hl Hcn Htab Hco tc Htc. destruct (einsum_indices x lhs rhs y Hy) as [Hix _].
    rewrite Hix in Hco.
    destruct (einsum_some G R x lhs rhs y Hy) as [Hlen [Htr _]].
    destruct (labels_ok_spec lhs rhs Hl) as [Hnd Hkept].
    assert (Hcn' : Forall (fun ix => NoDup (icharges G ix)) (take_axes idx_d (indices G R x) (etperm lhs rhs))).
    { unfold charges_nodup in Hcn. rewrite forallb_forall in Hcn. apply Forall_forall. intros ix Hin.
      apply (nodupb_NoDup (ceqb G) ceqb_spec). now apply Hcn. }
    pose proof (all_coords_ok G ceqb_spec _ Hcn' tc Htc) as Hok.
    apply (coords_ok_iff G) in Hok. destruct Hok as [Hl1 Hn1].
    apply (coords_ok_iff G) in Hco. destruct Hco as [Hl2 Hn2].
    rewrite length_take_axes in Hl1, Hl2, Hn1, Hn2. unfold etperm in Hl1, Hn1. unfold eperm in Hl2, Hn2.
    rewrite map_length in Hl1, Hl2, Hn1, Hn2.
    apply (coords_ok_iff G). unfold ndim in Hlen. split; [now rewrite length_place|].
    intros i Hi. rewrite <- Hlen in Hi. unfold coord in *. rewrite (nth_place dcoord lhs rhs co tc i Hi). cbv zeta.
    set (q := nth i lhs 0).
    assert (Hql : In q lhs) by (apply nth_In; exact Hi).
    assert (Hip : In i (positions q lhs)) by (apply positions_spec; auto).
    pose proof (index_of_positions q lhs Hql) as Hfp.
    destruct (mem Nat.eqb q rhs) eqn:E.
    - apply memN_In in E. destruct (index_of_In q rhs E) as [Hj _].
      specialize (Hn2 _ Hj). unfold take_axes in Hn2. rewrite map_map in Hn2.
      rewrite (nth_index_of_map idx_d (fun q => nth (index_of q lhs) (indices G R x) idx_d) rhs q E) in Hn2.
      now rewrite (positions_one q lhs i (index_of q lhs) (Hkept q E) Hip Hfp).
    - assert (Hqt : In q (traced_of lhs rhs)).
      { apply traced_of_In. split; [exact Hql|]. intros Hin. apply memN_In in Hin. congruence. }
      destruct (index_of_In q _ Hqt) as [Hj _].
      specialize (Hn1 _ Hj). unfold take_axes in Hn1. rewrite map_map in Hn1.
      rewrite (nth_index_of_map idx_d (fun q => nth (index_of q lhs) (indices G R x) idx_d) _ q Hqt) in Hn1.
      unfold traced_tables_ok in Htab. rewrite forallb_forall in Htab. specialize (Htab q Hqt).
      rewrite forallb_forall in Htab. specialize (Htab i Hip).
      rewrite forallb_forall in Htab. specialize (Htab _ Hfp).
      apply (list_eqb_spec _ (pair_eqb_spec G ceqb_spec)) in Htab.
      unfold size_of in *. now rewrite Htab.
  Qed.

  (* special case (b): one summed pair *)
  Theorem einsum_one_pair_sem (x : aarray G R) lhs rhs q y (co : list (coord G)) :
    a_einsum G R x lhs rhs = Some y ->
    wf_array G R x = true -> labels_ok lhs rhs = true ->
    traced_of lhs rhs = [q] ->
    charges_nodup G [nth (index_of q lhs) (indices G R x) idx_d] = true ->
    coords_ok G (indices G R y) co = true ->
    sem G R y co =
    Sum (map (fun c => sem G R x (place dcoord lhs rhs co [c]))
             (index_coords G (nth (index_of q lhs) (indices G R x) idx_d))).
  Proof.
    intros Hy Hw Hl Ht Hcn Hco.
    assert (E : take_axes idx_d (indices G R x) (etperm lhs rhs) = [nth (index_of q lhs) (indices G R x) idx_d]).
    { unfold etperm. rewrite Ht. reflexivity. }
    rewrite (einsum_sem x lhs rhs y co Hy Hw Hl) by (rewrite ?E; assumption).
    rewrite E. unfold all_coords. cbn [map product].
    rewrite (rsum_flat_map R RL). apply rsum_ext. intros c _. cbn [map]. now rewrite (rsum_single R RL).
  Qed.

  (* special case (a): no summed label, a pure permutation of the axes; the
     statement has the form of C08's `transpose_sem` *)
  Theorem einsum_perm_sem (x : aarray G R) lhs rhs y (cs : list (coord G)) :
    a_einsum G R x lhs rhs = Some y ->
    wf_array G R x = true -> labels_ok lhs rhs = true ->
    traced_of lhs rhs = [] ->
    coords_ok G (indices G R x) cs = true ->
    sem G R y (permuted dcoord cs (eperm lhs rhs)) = sem G R x cs /\
    indices G R y = permuted idx_d (indices G R x) (eperm lhs rhs) /\
    charge G R y = charge G R x /\
    coords_ok G (indices G R y) (permuted dcoord cs (eperm lhs rhs)) = true.
  Proof.
    intros Hy Hw Hl Ht Hcs. destruct (einsum_indices x lhs rhs y Hy) as [Hix Hch].
    destruct (einsum_some G R x lhs rhs y Hy) as [Hlen _].
    destruct (labels_ok_spec lhs rhs Hl) as [Hnd Hkept].
    assert (Hco : coords_ok G (indices G R y) (permuted dcoord cs (eperm lhs rhs)) = true).
    { rewrite Hix. apply (coords_ok_iff G) in Hcs. destruct Hcs as [Hl1 Hn1].
      apply (coords_ok_iff G). unfold permuted, take_axes. rewrite !map_length. split; [reflexivity|].
      intros i Hi.
      unfold coord in *.
      set (F1 := fun p => nth p cs dcoord). set (F2 := fun p => nth p (indices G R x) idx_d).
      rewrite (nth_indep _ dcoord (F1 0)) by (now rewrite map_length).
      rewrite (nth_indep _ idx_d (F2 0)) by (now rewrite map_length).
      rewrite (map_nth F1), (map_nth F2). unfold F1, F2. apply Hn1.
      assert (Hin : In (nth i (eperm lhs rhs) 0) (eperm lhs rhs)) by (now apply nth_In).
      unfold eperm in Hin at 2. apply in_map_iff in Hin. destruct Hin as [q [<- Hq]].
      pose proof (kept_in_lhs lhs rhs Hkept q Hq) as Hq'. apply index_of_In in Hq'. unfold ndim in Hlen. lia. }
    split; [|split; [exact Hix | split; [exact Hch | exact Hco]]].
    assert (E : take_axes idx_d (indices G R x) (etperm lhs rhs) = []) by (unfold etperm; now rewrite Ht).
    rewrite (einsum_sem x lhs rhs y _ Hy Hw Hl) by (rewrite ?E; first [reflexivity | assumption]).
    rewrite E. unfold all_coords. cbn [map product]. rewrite (rsum_single R RL). f_equal.
    apply (place_eq_iff dcoord lhs rhs Hnd Hkept).
    - unfold permuted, eperm. now rewrite !map_length.
    - now rewrite Ht.
    - apply coords_ok_length in Hcs. unfold coord in *. rewrite Hcs. unfold ndim in Hlen. now symmetry.
    - split; [split; [reflexivity | now rewrite Ht]|].
      intros q Hq. rewrite Ht in Hq. destruct Hq.
  Qed.
End EinsumFinal.

(* ------------------------------------------------------------------ *)
(* instantiation to the built-in symmetries and exact rings *)
Theorem trace_sem_builtin G R (x : aarray G R) :
  builtin_sym G -> exact_ring R ->
  wf_array G R x = true -> ndim G R x = 2 ->
  chargemap G (nth 0 (indices G R x) (dflt_index G)) = chargemap G (nth 1 (indices G R x) (dflt_index G)) ->
  a_trace G R x =
  Some (rsum R (map (fun c => sem G R x [c; c]) (index_coords G (nth 0 (indices G R x) (dflt_index G))))).
Proof.
  intros HG HR Hw Hn Hcm. apply (trace_sem G R (exact_ring_laws R HR) (builtin_ceqb G HG)); auto.
  unfold charges_nodup. cbn [forallb]. rewrite andb_true_r.
  assert (Hnd : NoDup (icharges G (nth 0 (indices G R x) (dflt_index G)))).
  { apply (wf_index_nodup G (builtin_cltb_irrefl G HG) (builtin_cltb_trans G HG)).
    unfold wf_array in Hw. repeat (apply andb_true_iff in Hw; destruct Hw as [Hw ?]).
    rewrite forallb_forall in Hw. apply Hw. apply nth_In. unfold ndim in Hn. lia. }
  clear -Hnd HG. induction Hnd as [|c l Hc Hnd IH]; [reflexivity|]. cbn [nodupb]. rewrite IH, andb_true_r.
  apply negb_true_iff. apply (mem_false (ceqb G) (builtin_ceqb G HG)). exact Hc.
Qed.

(* ------------------------------------------------------------------ *)
(* concrete instances *)
Module ExTrace.
  Local Open Scope Z_scope.
  Import Ex.
  (* U(1) matrix, both indices with the table {0:2, 1:1, 2:2}, the diagonal block
     of charge 1 is missing *)
  Definition tab := [(0, 2%nat); (1, 1%nat); (2, 2%nat)].
  Definition x : aarray U1 ZRing :=
    mkA U1 ZRing [Index U1 tab false None; Index U1 tab true None] 0
      [([2; 2], iota [2; 2]%nat); ([0; 0], iota [2; 2]%nat)].
  (* total charge 1: only off-diagonal blocks, the trace is 0 *)
  Definition xoff : aarray U1 ZRing :=
    mkA U1 ZRing [Index U1 tab false None; Index U1 tab true None] 1
      [([1; 0], iota [1; 2]%nat); ([2; 1], iota [2; 1]%nat)].

  Example hyps_hold :
    wf_array U1 ZRing x = true /\ ndim U1 ZRing x = 2%nat /\
    chargemap U1 (nth 0 (indices U1 ZRing x) (dflt_index U1)) = chargemap U1 (nth 1 (indices U1 ZRing x) (dflt_index U1)) /\
    charges_nodup U1 [nth 0 (indices U1 ZRing x) (dflt_index U1)] = true /\
    wf_array U1 ZRing xoff = true.
  Proof. vm_compute. repeat split; reflexivity. Qed.

  Example values : a_trace U1 ZRing x = Some 10 /\ a_trace U1 ZRing xoff = Some 0.
  Proof. vm_compute. split; reflexivity. Qed.

  Example instance_of_trace :
    a_trace U1 ZRing x =
    Some (rsum ZRing (map (fun c => sem U1 ZRing x [c; c]) (index_coords U1 (nth 0 (indices U1 ZRing x) (dflt_index U1))))).
  Proof.
    destruct hyps_hold as [H1 [H2 [H3 [H4 _]]]].
    exact (trace_sem U1 ZRing ZRing_sum_laws (builtin_ceqb U1 bs_U1) x H1 H2 H3 H4).
  Qed.
End ExTrace.

Module ExScalar.
  Local Open Scope Z_scope.
  Import Ex.
  Definition i0 := [(0, 1%nat); (1, 2%nat)].
  Definition i1 := [(0, 2%nat); (1, 1%nat)].
  Definition a : aarray U1 ZRing :=
    mkA U1 ZRing [Index U1 i0 false None; Index U1 i1 true None] 0
      [([0; 0], iota [1; 2]%nat); ([1; 1], iota [2; 1]%nat)].
  Definition b : aarray U1 ZRing :=
    mkA U1 ZRing [Index U1 i1 false None; Index U1 i0 true None] 0
      [([1; 1], iota [1; 2]%nat)].
  (* b0 shares no sector of contracted charges with a0 *)
  Definition a0 : aarray U1 ZRing :=
    mkA U1 ZRing [Index U1 i0 false None; Index U1 i1 true None] 0 [([0; 0], iota [1; 2]%nat)].
  Definition aa := [0; 1]%nat.
  Definition ab := [1; 0]%nat.

  Example hyps_hold :
    wf_array U1 ZRing a = true /\ wf_array U1 ZRing b = true /\ wf_array U1 ZRing a0 = true /\
    axes_ok (ndim U1 ZRing a) aa = true /\ axes_ok (ndim U1 ZRing b) ab = true /\
    length aa = ndim U1 ZRing a /\ length ab = ndim U1 ZRing b /\
    charges_nodup U1 (take_axes (dflt_index U1) (indices U1 ZRing a) aa) = true /\
    any_aligned U1 ZRing a b aa ab = true /\ any_aligned U1 ZRing a0 b aa ab = false.
  Proof. vm_compute. repeat split; reflexivity. Qed.

  (* 1*1 + 2*2 from the pair (1,1) x (1,1); the block (0,0) of a has no partner *)
  Example values :
    a_scalar U1 ZRing (tdot_blockwise U1 ZRing a b [] aa ab []) = 5 /\
    a_scalar U1 ZRing (tdot_blockwise U1 ZRing a0 b [] aa ab []) = 0 /\
    blocks U1 ZRing (tdot_blockwise U1 ZRing a0 b [] aa ab []) = [].
  Proof. vm_compute. repeat split; reflexivity. Qed.

  Example instance_of_scalar :
    a_scalar U1 ZRing (tdot_blockwise U1 ZRing a b [] aa ab []) =
    rsum ZRing (map (fun kc => rmul ZRing (sem U1 ZRing a (merge U1 (ndim U1 ZRing a) aa [] kc))
                                          (sem U1 ZRing b (merge U1 (ndim U1 ZRing b) ab [] kc)))
                    (all_coords U1 (take_axes (dflt_index U1) (indices U1 ZRing a) aa))).
  Proof.
    destruct hyps_hold as [H1 [H2 [_ [H4 [H5 [H6 [H7 [H8 _]]]]]]]].
    exact (scalar_result U1 ZRing (builtin_ceqb U1 bs_U1) ZRing_sum_laws a b aa ab H1 H2 H4 H5 H6 H7 eq_refl H8).
  Qed.
End ExScalar.

(* einsum "abcb->ca" on a rank-4 U(1) array: two diagonal sectors accumulate
   into the result sector (0, 0), one stored sector is off-diagonal in b, and the
   diagonal sector (1, 0, 1, 0) is missing *)
Module ExEinsum.
  Local Open Scope Z_scope.
  Import Ex.
  Definition tA := [(0, 1%nat); (1, 2%nat)].
  Definition tB := [(0, 2%nat); (1, 1%nat)].
  Definition tC := [(0, 2%nat); (1, 1%nat)].
  Definition x : aarray U1 ZRing :=
    mkA U1 ZRing [Index U1 tA false None; Index U1 tB false None; Index U1 tC true None; Index U1 tB true None] 0
      [([0; 0; 0; 0], iota [1; 2; 2; 2]%nat); ([0; 1; 1; 0], iota [1; 1; 1; 2]%nat);
       ([0; 1; 0; 1], iota [1; 1; 2; 1]%nat); ([1; 1; 1; 1], iota [2; 1; 1; 1]%nat)].
  Definition lhs := [0; 1; 2; 1]%nat.
  Definition rhs := [2; 0]%nat.
  Definition y : aarray U1 ZRing :=
    match a_einsum U1 ZRing x lhs rhs with Some y => y | None => x end.

  Example hyps_hold :
    a_einsum U1 ZRing x lhs rhs = Some y /\
    wf_array U1 ZRing x = true /\ labels_ok lhs rhs = true /\
    charges_nodup U1 (take_axes (dflt_index U1) (indices U1 ZRing x) (etperm lhs rhs)) = true /\
    traced_tables_ok U1 (indices U1 ZRing x) lhs rhs = true /\
    traced_of lhs rhs = [1%nat].
  Proof. vm_compute. repeat split; reflexivity. Qed.

  Example res_sectors : sectors U1 ZRing y = [[0; 0]; [1; 1]].
  Proof. vm_compute. reflexivity. Qed.

  Definition rhs_sum (co : list (coord U1)) : Z :=
    rsum ZRing (map (fun tc => sem U1 ZRing x (place (ident U1, 0%nat) lhs rhs co tc))
                    (all_coords U1 (take_axes (dflt_index U1) (indices U1 ZRing x) (etperm lhs rhs)))).

  Example both_sides_agree :
    forallb (fun co => coords_ok U1 (indices U1 ZRing y) co && Z.eqb (sem U1 ZRing y co) (rhs_sum co))
            (all_coords U1 (indices U1 ZRing y)) = true.
  Proof. vm_compute. reflexivity. Qed.

  (* by hand: x[0,b,c=(0,1),b] summed over b: block (0,0,0,0) at [0,0,1,0] and [0,1,1,1]
     gives 3 + 8, block (0,1,0,1) at [0,0,1,0] gives 2 *)
  Example a_value : sem U1 ZRing y [(0, 1%nat); (0, 0%nat)] = 13.
  Proof. vm_compute. reflexivity. Qed.

  Example instance_of_einsum co :
    coords_ok U1 (indices U1 ZRing y) co = true -> sem U1 ZRing y co = rhs_sum co.
  Proof.
    intros Hco. destruct hyps_hold as [H1 [H2 [H3 [H4 _]]]].
    exact (einsum_sem U1 ZRing ZRing_sum_laws (builtin_ceqb U1 bs_U1) x lhs rhs y co H1 H2 H3 H4 Hco).
  Qed.

  (* a pure permutation "abcd->dbca" and the `None` cases *)
  Example perm_hyps :
    labels_ok [0; 1; 2; 3]%nat [3; 1; 2; 0]%nat = true /\ traced_of [0; 1; 2; 3]%nat [3; 1; 2; 0]%nat = [] /\
    (match a_einsum U1 ZRing x [0; 1; 2; 3]%nat [3; 1; 2; 0]%nat with
     | Some z => aarray_eqb U1 ZRing z (a_transpose U1 ZRing x [3; 1; 2; 0]%nat) | None => false end) = true.
  Proof. vm_compute. repeat split; reflexivity. Qed.

  Example none_cases :
    a_einsum U1 ZRing x [0; 1; 2]%nat [0]%nat = None /\          (* wrong number of labels *)
    a_einsum U1 ZRing x [0; 1; 1; 1]%nat [0]%nat = None /\       (* a summed label three times *)
    a_einsum U1 ZRing x [0; 1; 2; 1]%nat [0]%nat = None.         (* a summed label once *)
  Proof. vm_compute. repeat split; reflexivity. Qed.
End ExEinsum.

(* ------------------------------------------------------------------ *)
(* special case (a) continued: without summed labels the axis list of the
   einsum is a permutation and the result reads like C08's transpose *)
From SV Require Proofs.StructProofs.

Lemma NoDup_map_inj_on {A B} (f : A -> B) l :
  (forall a b, In a l -> In b l -> f a = f b -> a = b) -> NoDup l -> NoDup (map f l).
Proof.
  intros Hinj Hnd. induction Hnd as [|a l Ha Hnd IH]; cbn [map]; constructor.
  - intros Hin. apply in_map_iff in Hin. destruct Hin as [b [Hb Hbl]].
    assert (b = a) by (apply Hinj; [now right | now left | exact Hb]). subst b. contradiction.
  - apply IH. intros x y Hx Hy. apply Hinj; now right.
Qed.

Lemma eperm_permutation lhs rhs :
  labels_ok lhs rhs = true -> traced_of lhs rhs = [] -> Permutation (eperm lhs rhs) (seq 0 (length lhs)).
Proof.
  intros Hl Ht. destruct (labels_ok_spec lhs rhs Hl) as [Hnd Hkept].
  apply NoDup_Permutation.
  - unfold eperm. apply NoDup_map_inj_on; [|exact Hnd]. intros a b Ha Hb E.
    destruct (index_of_In a lhs (kept_in_lhs lhs rhs Hkept a Ha)) as [_ E1].
    destruct (index_of_In b lhs (kept_in_lhs lhs rhs Hkept b Hb)) as [_ E2]. congruence.
  - apply seq_NoDup.
  - intros i. rewrite in_seq. unfold eperm. rewrite in_map_iff. split.
    + intros [q [<- Hq]]. destruct (index_of_In q lhs (kept_in_lhs lhs rhs Hkept q Hq)) as [H _]. lia.
    + intros [_ Hi]. cbn [Nat.add] in Hi. set (q := nth i lhs 0).
      assert (Hql : In q lhs) by (apply nth_In; exact Hi).
      assert (Hqr : In q rhs).
      { destruct (mem Nat.eqb q rhs) eqn:E; [now apply memN_In in E|]. exfalso.
        assert (Hin : In q (traced_of lhs rhs)).
        { apply traced_of_In. split; [exact Hql|]. intros H. apply memN_In in H. congruence. }
        rewrite Ht in Hin. destruct Hin. }
      exists q. split; [|exact Hqr]. symmetry.
      apply (positions_one q lhs i (index_of q lhs) (Hkept q Hqr)).
      * apply positions_spec. auto.
      * now apply index_of_positions.
Qed.

Theorem einsum_perm_is_transpose G (HG : GroupLaws G) R (RL : SumLaws R)
        (x : aarray G R) lhs rhs y (cs : list (coord G)) :
  a_einsum G R x lhs rhs = Some y ->
  wf_array G R x = true -> labels_ok lhs rhs = true -> traced_of lhs rhs = [] ->
  coords_ok G (indices G R x) cs = true ->
  Permutation (eperm lhs rhs) (seq 0 (ndim G R x)) /\
  sem G R y (permuted (ident G, 0) cs (eperm lhs rhs)) =
  sem G R (a_transpose G R x (eperm lhs rhs)) (permuted (ident G, 0) cs (eperm lhs rhs)) /\
  indices G R y = indices G R (a_transpose G R x (eperm lhs rhs)) /\
  charge G R y = charge G R (a_transpose G R x (eperm lhs rhs)).
Proof.
  intros Hy Hw Hl Ht Hcs.
  destruct (einsum_some G R x lhs rhs y Hy) as [Hlen _].
  assert (Hp : Permutation (eperm lhs rhs) (seq 0 (ndim G R x))).
  { rewrite <- Hlen. now apply eperm_permutation. }
  destruct (einsum_perm_sem G R RL (ceqb_eq G HG) x lhs rhs y cs Hy Hw Hl Ht Hcs) as [E1 [E2 [E3 _]]].
  destruct (StructProofs.transpose_sem G HG R x (eperm lhs rhs) cs Hw Hp Hcs) as [F1 [F2 [F3 _]]].
  split; [exact Hp|]. split; [now rewrite E1, F1|]. split; [now rewrite E2, F2 | now rewrite E3, F3].
Qed.

(* full trace "abab->" etc.: the scalar returned is the sum over one coordinate
   per label *)
Theorem einsum_scalar G R (RL : SumLaws R) (ceqb_spec : forall a b : C G, ceqb G a b = true <-> a = b)
        (x : aarray G R) lhs y :
  a_einsum G R x lhs [] = Some y -> wf_array G R x = true ->
  charges_nodup G (take_axes (dflt_index G) (indices G R x) (etperm lhs [])) = true ->
  a_scalar G R y =
  rsum R (map (fun tc => sem G R x (place (ident G, 0) lhs [] [] tc))
              (all_coords G (take_axes (dflt_index G) (indices G R x) (etperm lhs [])))).
Proof.
  intros Hy Hw Hcn. rewrite a_scalar_sem.
  apply (einsum_sem G R RL ceqb_spec x lhs [] y [] Hy Hw eq_refl Hcn).
  destruct (einsum_indices G R x lhs [] y Hy) as [-> _]. reflexivity.
Qed.

Module ExEinsumScalar.
  Local Open Scope Z_scope.
  Import ExTrace.
  (* "aa->" on the matrix of ExTrace is its trace *)
  Example hyps_hold :
    (exists y, a_einsum U1 ZRing x [0; 0]%nat [] = Some y /\ a_scalar U1 ZRing y = 10) /\
    charges_nodup U1 (take_axes (dflt_index U1) (indices U1 ZRing x) (etperm [0; 0]%nat [])) = true.
  Proof. split; [eexists; split; vm_compute; reflexivity | vm_compute; reflexivity]. Qed.
End ExEinsumScalar.
