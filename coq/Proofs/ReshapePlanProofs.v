(* Proofs/ReshapePlanProofs.v — property C07: executing any plan (unfuse, fuse
   groupings, expand) on a list of index trees only regroups the original axes. *)
From SV Require Import Base.Prelude Model.ReshapeArgs.
From Coq Require Import Permutation.
Local Open Scope nat_scope.

(* ------------------------------------------------------------------ unbounded: executing ANY plan only regroups axes *)
(* the original axes below a list of trees, and the product of the sizes *)
Definition all_leaves (ts : list tree) : list (nat * Z) := flat_map leaves ts.
Definition size_prod (ts : list tree) : Z := zprod (shape_of ts).

Lemma leaves_fused cs : leaves (Fused cs) = all_leaves cs.
Proof.
  cbn [leaves]. induction cs as [|c cs IH]; [reflexivity|].
  cbn [all_leaves flat_map]. rewrite IH. reflexivity.
Qed.

Lemma tsize_fused cs : tsize (Fused cs) = size_prod cs.
Proof.
  cbn [tsize]. induction cs as [|c cs IH]; [reflexivity|].
  unfold size_prod, shape_of. cbn [map zprod fold_right]. rewrite IH. reflexivity.
Qed.

Lemma zprod_app l1 l2 : zprod (l1 ++ l2) = (zprod l1 * zprod l2)%Z.
Proof.
  induction l1 as [|x l1 IH]; cbn [app zprod fold_right].
  - rewrite Z.mul_1_l. reflexivity.
  - fold (zprod (l1 ++ l2)). fold (zprod l1). rewrite IH. apply Z.mul_assoc.
Qed.

Lemma size_prod_app a b : size_prod (a ++ b) = (size_prod a * size_prod b)%Z.
Proof. unfold size_prod, shape_of. rewrite map_app. apply zprod_app. Qed.

Lemma all_leaves_app a b : all_leaves (a ++ b) = all_leaves a ++ all_leaves b.
Proof. apply flat_map_app. Qed.

Lemma size_prod_perm a b : Permutation a b -> size_prod a = size_prod b.
Proof.
  intros H. induction H as [|x l l' H IH|x y l|l l' l'' H1 IH1 H2 IH2].
  - reflexivity.
  - change (size_prod ([x] ++ l) = size_prod ([x] ++ l')). rewrite !size_prod_app, IH. reflexivity.
  - change (size_prod ([y] ++ [x] ++ l) = size_prod ([x] ++ [y] ++ l)).
    rewrite !size_prod_app. generalize (size_prod [x]) (size_prod [y]) (size_prod l). intros; lia.
  - rewrite IH1. exact IH2.
Qed.

Lemma all_leaves_perm a b : Permutation a b -> Permutation (all_leaves a) (all_leaves b).
Proof. intros H. unfold all_leaves. apply Permutation_flat_map. exact H. Qed.

Lemma all_leaves_map_fused gs : all_leaves (map Fused gs) = all_leaves (concat gs).
Proof.
  induction gs as [|g gs IH]; [reflexivity|].
  cbn [map concat]. change (Fused g :: map Fused gs) with ([Fused g] ++ map Fused gs).
  rewrite !all_leaves_app, IH. unfold all_leaves at 1. cbn [flat_map]. rewrite app_nil_r, leaves_fused.
  reflexivity.
Qed.

Lemma size_prod_map_fused gs : size_prod (map Fused gs) = size_prod (concat gs).
Proof.
  induction gs as [|g gs IH]; [reflexivity|].
  cbn [map concat]. change (Fused g :: map Fused gs) with ([Fused g] ++ map Fused gs).
  rewrite !size_prod_app, IH. unfold size_prod at 1, shape_of. cbn [map zprod fold_right].
  rewrite tsize_fused. generalize (size_prod g) (size_prod (concat gs)). intros; lia.
Qed.

(* selection by distinct positions and its complement *)
Lemma drop_axes_nil {A} (l : list A) : forall from, drop_axes from l [] = l.
Proof. induction l as [|x l IH]; intros from; cbn [drop_axes mem]; [reflexivity | rewrite IH; reflexivity]. Qed.

Lemma drop_axes_cons_lt {A} (l : list A) : forall from a axes,
  a < from -> drop_axes from l (a :: axes) = drop_axes from l axes.
Proof.
  induction l as [|x l IH]; intros from a axes Hlt; cbn [drop_axes mem]; [reflexivity|].
  assert (E : Nat.eqb from a = false) by (apply Nat.eqb_neq; lia).
  rewrite E. cbn [orb]. rewrite IH by lia. reflexivity.
Qed.

Lemma drop_axes_pick {A} (l : list A) : forall from a axes x,
  mem Nat.eqb a axes = false -> from <= a -> nth_error l (a - from) = Some x ->
  Permutation (drop_axes from l axes) (x :: drop_axes from l (a :: axes)).
Proof.
  induction l as [|y l IH]; intros from a axes x Hm Hle Hn.
  - destruct (a - from); discriminate.
  - cbn [drop_axes mem].
    destruct (Nat.eq_dec from a) as [Heq|Hne].
    + subst a. rewrite Nat.sub_diag in Hn. cbn [nth_error] in Hn. injection Hn as Hn. subst y.
      rewrite Hm, Nat.eqb_refl. cbn [orb]. rewrite drop_axes_cons_lt by lia. apply Permutation_refl.
    + assert (E : Nat.eqb from a = false) by (apply Nat.eqb_neq; exact Hne).
      rewrite E. cbn [orb].
      assert (Hn' : nth_error l (a - S from) = Some x).
      { replace (a - from) with (S (a - S from)) in Hn by lia. exact Hn. }
      assert (Hle' : S from <= a) by lia.
      pose proof (IH (S from) a axes x Hm Hle' Hn') as IH'.
      destruct (mem Nat.eqb from axes).
      * exact IH'.
      * eapply perm_trans; [apply perm_skip; exact IH' | apply perm_swap].
Qed.

Lemma select_perm {A} (l : list A) : forall axes xs,
  nodupb axes = true -> nth_all l axes = Some xs -> Permutation l (xs ++ drop_axes 0 l axes).
Proof.
  induction axes as [|a axes IH]; intros xs Hnd Hsel.
  - cbn [nth_all] in Hsel. injection Hsel as Hsel. subst xs. cbn [app]. rewrite drop_axes_nil.
    apply Permutation_refl.
  - cbn [nth_all] in Hsel.
    destruct (nth_error l a) as [x|] eqn:Ea; [|discriminate].
    destruct (nth_all l axes) as [ys|] eqn:Es; [|discriminate].
    injection Hsel as Hsel. subst xs.
    cbn [nodupb] in Hnd. apply andb_true_iff in Hnd. destruct Hnd as [Hm Hnd].
    apply negb_true_iff in Hm.
    eapply perm_trans; [exact (IH ys Hnd eq_refl)|].
    assert (P : Permutation (drop_axes 0 l axes) (x :: drop_axes 0 l (a :: axes))).
    { apply drop_axes_pick; [exact Hm | lia | rewrite Nat.sub_0_r; exact Ea]. }
    eapply perm_trans; [apply Permutation_app_head; exact P|].
    cbn [app]. apply Permutation_sym. apply Permutation_middle.
Qed.

Lemma nth_all_app {A} (l : list A) : forall a1 a2 x1 x2,
  nth_all l a1 = Some x1 -> nth_all l a2 = Some x2 -> nth_all l (a1 ++ a2) = Some (x1 ++ x2).
Proof.
  induction a1 as [|a a1 IH]; intros a2 x1 x2 H1 H2.
  - cbn [nth_all] in H1. injection H1 as H1. subst x1. exact H2.
  - cbn [nth_all app] in *.
    destruct (nth_error l a) as [x|]; [|discriminate].
    destruct (nth_all l a1) as [ys|] eqn:E1; [|discriminate].
    injection H1 as H1. subst x1. rewrite (IH a2 ys x2 eq_refl H2). reflexivity.
Qed.

Lemma nth_all_concat {A} (l : list A) : forall groups gs,
  all_some (map (nth_all l) groups) = Some gs -> nth_all l (concat groups) = Some (concat gs).
Proof.
  induction groups as [|g groups IH]; intros gs H.
  - cbn in H. injection H as H. subst gs. reflexivity.
  - cbn [map all_some] in H.
    destruct (nth_all l g) as [x|] eqn:Eg; [|discriminate].
    destruct (all_some (map (nth_all l) groups)) as [xs|] eqn:Er; [|discriminate].
    injection H as H. subst gs. cbn [concat]. apply nth_all_app; [exact Eg | apply IH; reflexivity].
Qed.

(* each of the three operations *)
Lemma exec_unfuse_keeps ax ts ts' : exec_unfuse ax ts = Some ts' ->
  all_leaves ts' = all_leaves ts /\ size_prod ts' = size_prod ts.
Proof.
  unfold exec_unfuse. destruct (nth_error ts ax) as [t|] eqn:E; [|discriminate].
  destruct t as [i d|cs|]; try discriminate. intros H.
  assert (H' : firstn ax ts ++ cs ++ skipn (S ax) ts = ts') by congruence. clear H. subst ts'.
  destruct (nth_error_split ts ax E) as [l1 [l2 [Hts Hlen]]]. subst ts ax. clear E.
  assert (F : firstn (length l1) (l1 ++ Fused cs :: l2) = l1).
  { rewrite firstn_app, Nat.sub_diag, firstn_all. cbn [firstn]. apply app_nil_r. }
  assert (S' : skipn (S (length l1)) (l1 ++ Fused cs :: l2) = l2).
  { change (l1 ++ Fused cs :: l2) with (l1 ++ [Fused cs] ++ l2).
    rewrite app_assoc.
    replace (S (length l1)) with (length (l1 ++ [Fused cs]) + 0) by (rewrite app_length; cbn [length]; lia).
    rewrite skipn_app, skipn_all2 by lia.
    replace (length (l1 ++ [Fused cs]) + 0 - length (l1 ++ [Fused cs])) with 0 by lia.
    reflexivity. }
  rewrite F, S'.
  change (l1 ++ Fused cs :: l2) with (l1 ++ [Fused cs] ++ l2).
  rewrite !all_leaves_app, !size_prod_app. split.
  - f_equal. f_equal. unfold all_leaves at 2. cbn [flat_map]. rewrite app_nil_r, leaves_fused. reflexivity.
  - f_equal. f_equal. unfold size_prod at 2, shape_of. cbn [map zprod fold_right]. rewrite tsize_fused.
    unfold size_prod, shape_of. lia.
Qed.

Lemma exec_expand_keeps ax ts ts' : exec_expand ax ts = Some ts' ->
  all_leaves ts' = all_leaves ts /\ size_prod ts' = size_prod ts.
Proof.
  unfold exec_expand. destruct (Nat.leb ax (length ts)); [|discriminate].
  intros H. assert (H' : firstn ax ts ++ New :: skipn ax ts = ts') by congruence. clear H. subst ts'.
  assert (Hs : ts = firstn ax ts ++ skipn ax ts) by (symmetry; apply firstn_skipn).
  set (a := firstn ax ts) in *. set (b := skipn ax ts) in *.
  rewrite Hs. change (New :: b) with ([New] ++ b).
  rewrite !all_leaves_app, !size_prod_app. split; [reflexivity|].
  change (size_prod [New]) with 1%Z.
  generalize (size_prod a) (size_prod b). intros; lia.
Qed.

Lemma exec_fuse_keeps groups ts ts' : exec_fuse groups ts = Some ts' ->
  Permutation (all_leaves ts') (all_leaves ts) /\ size_prod ts' = size_prod ts.
Proof.
  unfold exec_fuse.
  destruct (is_nil (concat groups)).
  { intros H. injection H as H. subst ts'. split; [apply Permutation_refl | reflexivity]. }
  destruct (nodupb (concat groups)) eqn:Hnd; cbn [negb]; [|discriminate].
  destruct (all_some (map (nth_all ts) groups)) as [gs|] eqn:Egs; [|discriminate].
  intros H. injection H as H. subst ts'.
  set (rest := drop_axes 0 ts (concat groups)).
  set (p := list_min (concat groups)).
  assert (P1 : Permutation (firstn p rest ++ map Fused gs ++ skipn p rest) (map Fused gs ++ rest)).
  { eapply perm_trans; [apply Permutation_app_swap_app|]. rewrite firstn_skipn. apply Permutation_refl. }
  assert (P2 : Permutation ts (concat gs ++ rest)).
  { apply select_perm; [exact Hnd | apply nth_all_concat; exact Egs]. }
  split.
  - eapply perm_trans; [apply all_leaves_perm; exact P1|].
    rewrite all_leaves_app, all_leaves_map_fused, <- all_leaves_app.
    apply Permutation_sym. apply all_leaves_perm. exact P2.
  - rewrite (size_prod_perm _ _ P1), size_prod_app, size_prod_map_fused, <- size_prod_app.
    symmetry. apply size_prod_perm. exact P2.
Qed.

Lemma exec_seq_keeps {A} (f : A -> list tree -> option (list tree)) :
  (forall a ts ts', f a ts = Some ts' ->
     Permutation (all_leaves ts') (all_leaves ts) /\ size_prod ts' = size_prod ts) ->
  forall l ts ts', exec_seq f l ts = Some ts' ->
     Permutation (all_leaves ts') (all_leaves ts) /\ size_prod ts' = size_prod ts.
Proof.
  intros Hf l. induction l as [|a l IH]; intros ts ts' H.
  - cbn [exec_seq] in H. injection H as H. subst ts'. split; [apply Permutation_refl | reflexivity].
  - cbn [exec_seq] in H. destruct (f a ts) as [t1|] eqn:E; [|discriminate].
    destruct (Hf a ts t1 E) as [Hp Hs]. destruct (IH t1 ts' H) as [Hp' Hs'].
    split; [eapply perm_trans; eassumption | rewrite Hs'; exact Hs].
Qed.

(* reshape_content on trees: whatever plan is executed — well-formed means only
   that it executes — the multiset of original axes and the product of the axis
   sizes are unchanged (fresh size-one axes contribute nothing) *)
Lemma exec_plan_keeps p ts ts' : exec_plan p ts = Some ts' ->
  Permutation (all_leaves ts') (all_leaves ts) /\ size_prod ts' = size_prod ts.
Proof.
  destruct p as [[us fs] es]. unfold exec_plan.
  destruct (exec_seq exec_unfuse us ts) as [t1|] eqn:E1; [|discriminate].
  destruct (exec_seq exec_fuse fs t1) as [t2|] eqn:E2; [|discriminate].
  intros E3.
  assert (H1 : Permutation (all_leaves t1) (all_leaves ts) /\ size_prod t1 = size_prod ts).
  { apply (exec_seq_keeps exec_unfuse) with (l := us); [|exact E1].
    intros a x y H. destruct (exec_unfuse_keeps a x y H) as [Ha Hb]. rewrite Ha. split; [apply Permutation_refl | exact Hb]. }
  assert (H2 : Permutation (all_leaves t2) (all_leaves t1) /\ size_prod t2 = size_prod t1).
  { apply (exec_seq_keeps exec_fuse) with (l := fs); [exact exec_fuse_keeps | exact E2]. }
  assert (H3 : Permutation (all_leaves ts') (all_leaves t2) /\ size_prod ts' = size_prod t2).
  { apply (exec_seq_keeps exec_expand) with (l := es); [|exact E3].
    intros a x y H. destruct (exec_expand_keeps a x y H) as [Ha Hb]. rewrite Ha. split; [apply Permutation_refl | exact Hb]. }
  destruct H1 as [P1 S1]. destruct H2 as [P2 S2]. destruct H3 as [P3 S3].
  split.
  - eapply perm_trans; [exact P3|]. eapply perm_trans; [exact P2 | exact P1].
  - rewrite S3, S2. exact S1.
Qed.

Example exec_plan_keeps_example :
  exec_plan ([0], [[[1; 2]; [3; 0]]], [1])
            [Fused [Leaf 0 2%Z; Leaf 1 3%Z]; Leaf 2 1%Z; Leaf 3 4%Z]
  = Some [Fused [Leaf 1 3%Z; Leaf 2 1%Z]; New; Fused [Leaf 3 4%Z; Leaf 0 2%Z]].
Proof. vm_compute. reflexivity. Qed.
