(* Proofs/HamProofs.v — lemmas and proofs of property C19. *)
From Coq Require Import QArith Qfield Lia.
From SV Require Import Base.Prelude Model.HamBase Gen.Ham Model.Ham.
Open Scope Z_scope.

(* ================================================================== *)
(* generic list / option facts *)

Lemma fold_left_ext {A B} (f g : A -> B -> A) (l : list B) (a : A) :
  (forall x y, f x y = g x y) -> fold_left f l a = fold_left g l a.
Proof.
  intros Hfg. revert a. induction l as [|y l IH]; intros a; cbn [fold_left]; [reflexivity|].
  rewrite Hfg. apply IH.
Qed.

Lemma fold_left_flat_map {A B C} (f : A -> C -> A) (g : B -> list C) (l : list B) (a : A) :
  fold_left f (flat_map g l) a = fold_left (fun acc x => fold_left f (g x) acc) l a.
Proof.
  revert a. induction l as [|x l IH]; intros a; cbn [flat_map fold_left]; [reflexivity|].
  rewrite fold_left_app. apply IH.
Qed.

(* ================================================================== *)
Section WithSites.
  Context {S : Type} (seqb : S -> S -> bool) (seqb_spec : forall a b, seqb a b = true <-> a = b).

  Lemma seqb_refl a : seqb a a = true.
  Proof. apply seqb_spec. reflexivity. Qed.

  Lemma seqb_false a b : seqb a b = false <-> a <> b.
  Proof.
    split.
    - intros Hf Heq. apply seqb_spec in Heq. congruence.
    - intros Hne. destruct (seqb a b) eqn:E; [|reflexivity]. apply seqb_spec in E. contradiction.
  Qed.

  Lemma seqb_sym a b : seqb a b = seqb b a.
  Proof.
    destruct (seqb a b) eqn:E1, (seqb b a) eqn:E2; try reflexivity.
    - apply seqb_spec in E1. subst. rewrite seqb_refl in E2. discriminate.
    - apply seqb_spec in E2. subst. rewrite seqb_refl in E1. discriminate.
  Qed.

  Definition peqb : S * S -> S * S -> bool := pair_eqb seqb seqb.

  Lemma peqb_spec (x y : S * S) : peqb x y = true <-> x = y.
  Proof.
    unfold peqb, pair_eqb. destruct x as [a b], y as [c d]. cbn [fst snd].
    rewrite andb_true_iff, !seqb_spec. split.
    - intros [-> ->]. reflexivity.
    - intros Heq. inversion Heq. split; reflexivity.
  Qed.

  (* ---------------- dict facts, for any key type with a correct eqb ---------------- *)
  Section DictFacts.
    Context {K V : Type} (keqb : K -> K -> bool) (keqb_spec : forall a b, keqb a b = true <-> a = b).

    Lemma lookup_dset (k v' : K) (x : V) (d : list (K * V)) :
      lookup keqb v' (dset keqb k x d) = if keqb v' k then Some x else lookup keqb v' d.
    Proof.
      induction d as [|[k' x'] d IH]; cbn [dset lookup].
      - destruct (keqb v' k); reflexivity.
      - destruct (keqb k k') eqn:Ekk'.
        + apply keqb_spec in Ekk'. subst k'. cbn [lookup]. destruct (keqb v' k); reflexivity.
        + cbn [lookup]. destruct (keqb v' k') eqn:Evk'.
          * apply keqb_spec in Evk'. subst k'.
            destruct (keqb v' k) eqn:Evk; [|reflexivity].
            apply keqb_spec in Evk. subst v'.
            assert (Hr : keqb k k = true) by (apply keqb_spec; reflexivity). congruence.
          * exact IH.
    Qed.

    Lemma dset_fresh (k : K) (x : V) (d : list (K * V)) :
      lookup keqb k d = None -> dset keqb k x d = d ++ [(k, x)].
    Proof.
      induction d as [|[k' x'] d IH]; cbn [dset lookup app]; [reflexivity|].
      destruct (keqb k k'); [discriminate|]. intros Hn. rewrite (IH Hn). reflexivity.
    Qed.

    Lemma lookup_app (k : K) (d1 d2 : list (K * V)) :
      lookup keqb k (d1 ++ d2) = match lookup keqb k d1 with Some x => Some x | None => lookup keqb k d2 end.
    Proof.
      induction d1 as [|[k' x'] d1 IH]; cbn [lookup app]; [reflexivity|].
      destruct (keqb k k'); [reflexivity | exact IH].
    Qed.
  End DictFacts.

  (* ---------------- coordination counting ---------------- *)
  Definition getZ (v : S) (d : list (S * Z)) : Z := match lookup seqb v d with Some n => n | None => 0 end.

  Lemma lookup_incr (v k : S) (d : list (S * Z)) :
    lookup seqb v (incr seqb k d) = if seqb v k then Some (getZ k d + 1) else lookup seqb v d.
  Proof.
    unfold incr, setdefault, getZ.
    destruct (lookup seqb k d) as [n|] eqn:El.
    - rewrite (lookup_dset seqb seqb_spec). reflexivity.
    - rewrite !(lookup_dset seqb seqb_spec). destruct (seqb v k); reflexivity.
  Qed.

  Lemma countZ_nonneg v l : 0 <= countZ seqb v l.
  Proof.
    unfold countZ. induction l as [|x l IH]; cbn [map zsum fold_right]; [lia|].
    fold (zsum (map (fun x0 => b2z (seqb x0 v)) l)).
    unfold b2z at 1. destruct (seqb x v); lia.
  Qed.

  Lemma countZ_cons v x l : countZ seqb v (x :: l) = b2z (seqb x v) + countZ seqb v l.
  Proof. reflexivity. Qed.

  Lemma countZ_app v l1 l2 : countZ seqb v (l1 ++ l2) = countZ seqb v l1 + countZ seqb v l2.
  Proof. unfold countZ. rewrite map_app, zsum_app. reflexivity. Qed.

  Lemma lookup_fold_incr (v : S) (l : list S) (d0 : list (S * Z)) :
    lookup seqb v (fold_left (fun d x => incr seqb x d) l d0) =
    if countZ seqb v l =? 0 then lookup seqb v d0 else Some (getZ v d0 + countZ seqb v l).
  Proof.
    revert d0. induction l as [|x l IH]; intros d0; cbn [fold_left].
    - reflexivity.
    - rewrite IH. rewrite countZ_cons.
      pose proof (countZ_nonneg v l) as Hnn.
      unfold getZ at 1. rewrite lookup_incr. rewrite (seqb_sym v x).
      destruct (seqb x v) eqn:Exv; unfold b2z.
      + apply seqb_spec in Exv. subst x.
        generalize dependent (countZ seqb v l). intros c _ Hnn.
        destruct (c =? 0) eqn:Ec.
        * apply Z.eqb_eq in Ec. subst c.
          replace (1 + 0 =? 0) with false by reflexivity. f_equal; lia.
        * assert (Hc : (1 + c =? 0) = false) by (apply Z.eqb_neq; lia). rewrite Hc. f_equal; lia.
      + fold (getZ v d0). replace (0 + countZ seqb v l) with (countZ seqb v l) by lia. reflexivity.
  Qed.

  (* The reference loop returns, for every site, the number of edge ends at it
     (nothing stored for sites that occur in no edge) — for EVERY edge list. *)
  Lemma coord_loop_is_degree (edges : list (S * S)) (v : S) :
    lookup seqb v (coord_loop seqb edges) = if deg seqb v edges =? 0 then None else Some (deg seqb v edges).
  Proof.
    unfold coord_loop, deg. rewrite lookup_fold_incr. cbn [lookup getZ].
    unfold getZ. cbn [lookup]. destruct (countZ seqb v (endpoints edges) =? 0); reflexivity.
  Qed.

  (* the three GENERATED counting loops are the reference loop *)
  Lemma gen_loop_eq (edges : list (S * S)) :
    fold_left (fun coordinations '(cooa, coob) =>
       let coordinations := (let '(sd_v, sd_d) := setdefault seqb cooa 0 coordinations in dset seqb cooa (Z.add sd_v 1) sd_d) in
       let coordinations := (let '(sd_v, sd_d) := setdefault seqb coob 0 coordinations in dset seqb coob (Z.add sd_v 1) sd_d) in
       coordinations) edges [] = coord_loop seqb edges.
  Proof.
    unfold coord_loop, endpoints. rewrite fold_left_flat_map.
    apply fold_left_ext. intros d [a b]. reflexivity.
  Qed.

  (* the same counting written `d[k] = d.get(k, 0) + 1` (the default is not inserted before the store):
     the store overwrites what setdefault would have inserted *)
  Lemma dset_dset (k : S) (x y : Z) (d : list (S * Z)) : dset seqb k x (dset seqb k y d) = dset seqb k x d.
  Proof.
    induction d as [|[k' x'] d IH]; cbn [dset]; [rewrite seqb_refl; reflexivity|].
    destruct (seqb k k') eqn:E; cbn [dset]; rewrite E; [reflexivity | now rewrite IH].
  Qed.

  Lemma get_incr (k : S) (d : list (S * Z)) :
    dset seqb k (Z.add (match lookup seqb k d with Some v => v | None => 0 end) 1) d = incr seqb k d.
  Proof. unfold incr, setdefault. destruct (lookup seqb k d); [reflexivity|]. now rewrite dset_dset. Qed.

  Lemma gen_loop_get_eq (edges : list (S * S)) :
    fold_left (fun coordinations '(cooa, coob) =>
       let coordinations := (dset seqb cooa (Z.add (match lookup seqb cooa coordinations with Some gt_v => gt_v | None => 0 end) 1) coordinations) in
       let coordinations := (dset seqb coob (Z.add (match lookup seqb coob coordinations with Some gt_v => gt_v | None => 0 end) 1) coordinations) in
       coordinations) edges [] = coord_loop seqb edges.
  Proof.
    unfold coord_loop, endpoints. rewrite fold_left_flat_map.
    apply fold_left_ext. intros d [a b]. cbn [fold_left]. cbv zeta. now rewrite !get_incr.
  Qed.

  (* whichever of the two spellings each statement of the CURRENT source uses *)
  Ltac coord_loop_tac :=
    unfold coord_loop, endpoints; rewrite fold_left_flat_map;
    apply fold_left_ext; intros d [a b]; cbn [fold_left]; cbv zeta; rewrite ?get_incr; reflexivity.

  Lemma hubbard_coordinations_eq edges : ham_fermi_hubbard_from_edges_coordinations seqb edges = coord_loop seqb edges.
  Proof. unfold ham_fermi_hubbard_from_edges_coordinations. coord_loop_tac. Qed.
  Lemma spinless_coordinations_eq edges : ham_fermi_hubbard_spinless_from_edges_coordinations seqb edges = coord_loop seqb edges.
  Proof. unfold ham_fermi_hubbard_spinless_from_edges_coordinations. coord_loop_tac. Qed.
  Lemma tfim_coordinations_eq edges : ham_tfim_from_edges_coordinations seqb edges = coord_loop seqb edges.
  Proof. unfold ham_tfim_from_edges_coordinations. coord_loop_tac. Qed.


  (* ---------------- sums in Q ---------------- *)
  Lemma qsum_cons x l : qsum (x :: l) = (x + qsum l)%Q.
  Proof. reflexivity. Qed.

  Lemma qsum_app l1 l2 : (qsum (l1 ++ l2) == qsum l1 + qsum l2)%Q.
  Proof.
    induction l1 as [|x l1 IH]; cbn [app].
    - unfold qsum at 2. cbn [fold_right]. ring.
    - rewrite !qsum_cons, IH. ring.
  Qed.

  Lemma qsum_map_ext {A} (f g : A -> Q) (l : list A) :
    (forall x, In x l -> (f x == g x)%Q) -> (qsum (map f l) == qsum (map g l))%Q.
  Proof.
    induction l as [|x l IH]; intros Hfg; cbn [map]; [reflexivity|].
    rewrite !qsum_cons. rewrite (Hfg x (or_introl eq_refl)). rewrite IH; [reflexivity|].
    intros y Hy. apply Hfg. right. exact Hy.
  Qed.

  Lemma qsum_map_plus {A} (f g : A -> Q) (l : list A) :
    (qsum (map (fun x => f x + g x) l) == qsum (map f l) + qsum (map g l))%Q.
  Proof.
    induction l as [|x l IH]; cbn [map].
    - unfold qsum. cbn [fold_right]. ring.
    - rewrite !qsum_cons, IH. ring.
  Qed.

  Lemma qsum_map_zero {A} (f : A -> Q) (l : list A) :
    (forall x, In x l -> (f x == 0)%Q) -> (qsum (map f l) == 0)%Q.
  Proof.
    induction l as [|x l IH]; intros Hf; cbn [map]; [reflexivity|].
    rewrite qsum_cons, (Hf x (or_introl eq_refl)), IH; [ring|].
    intros y Hy. apply Hf. right. exact Hy.
  Qed.

  Lemma qsum_map_scale {A} (c : Q) (f : A -> Q) (l : list A) :
    (qsum (map (fun x => c * f x) l) == c * qsum (map f l))%Q.
  Proof.
    induction l as [|x l IH]; cbn [map].
    - unfold qsum. cbn [fold_right]. ring.
    - rewrite !qsum_cons, IH. ring.
  Qed.

  Lemma pairing_nil {W} (f : W -> Q) : pairing f [] = 0%Q.
  Proof. reflexivity. Qed.

  Lemma pairing_cons {W} (f : W -> Q) c w (p : poly W) : pairing f ((c, w) :: p) = (c * f w + pairing f p)%Q.
  Proof. reflexivity. Qed.

  Lemma pairing_app {W} (f : W -> Q) (p q : poly W) : (pairing f (p ++ q) == pairing f p + pairing f q)%Q.
  Proof. unfold pairing. rewrite map_app. apply qsum_app. Qed.

  Lemma pairing_flat_map {W A} (f : W -> Q) (g : A -> poly W) (l : list A) :
    (pairing f (flat_map g l) == qsum (map (fun x => pairing f (g x)) l))%Q.
  Proof.
    induction l as [|x l IH]; cbn [flat_map map]; [reflexivity|].
    rewrite pairing_app, qsum_cons, IH. reflexivity.
  Qed.

  (* ---------------- the handshake lemma ---------------- *)
  Lemma mem_In x l : mem seqb x l = true <-> In x l.
  Proof.
    induction l as [|y l IH]; cbn [mem In]; [split; [discriminate | tauto]|].
    rewrite orb_true_iff, IH, seqb_spec. split; intros [H|H]; auto.
  Qed.

  Lemma mem_false x l : mem seqb x l = false <-> ~ In x l.
  Proof.
    rewrite <- mem_In. destruct (mem seqb x l); split; intros H; try congruence; try discriminate.
  Qed.

  Lemma dedup_In x l : In x (dedup seqb l) <-> In x l.
  Proof.
    induction l as [|y l IH]; cbn [dedup In]; [tauto|].
    destruct (mem seqb y l) eqn:Em.
    - rewrite IH. apply mem_In in Em. split; [auto|]. intros [H|H]; [subst; exact Em | exact H].
    - cbn [In]. rewrite IH. tauto.
  Qed.

  Lemma dedup_NoDup l : NoDup (dedup seqb l).
  Proof.
    induction l as [|y l IH]; cbn [dedup]; [constructor|].
    destruct (mem seqb y l) eqn:Em; [exact IH|].
    constructor; [|exact IH]. rewrite dedup_In. apply mem_false. exact Em.
  Qed.

  Lemma countZ_notin v l : ~ In v l -> countZ seqb v l = 0.
  Proof.
    induction l as [|x l IH]; intros Hn; [reflexivity|].
    rewrite countZ_cons, IH by (intros H; apply Hn; right; exact H).
    assert (Hx : seqb x v = false) by (apply seqb_false; intros ->; apply Hn; left; reflexivity).
    rewrite Hx. reflexivity.
  Qed.

  Lemma countZ_pos_in v l : In v l -> 0 < countZ seqb v l.
  Proof.
    induction l as [|x l IH]; intros Hin; [destruct Hin|].
    rewrite countZ_cons. pose proof (countZ_nonneg v l) as Hnn.
    destruct Hin as [->|Hin].
    - rewrite seqb_refl. unfold b2z. lia.
    - specialize (IH Hin). unfold b2z. destruct (seqb x v); lia.
  Qed.

  Lemma indicator_sum (h : S -> Q) (x : S) (L : list S) :
    NoDup L ->
    (qsum (map (fun v => inject_Z (b2z (seqb x v)) * h v) L) == if mem seqb x L then h x else 0)%Q.
  Proof.
    induction L as [|y L IH]; intros Hnd; cbn [map mem]; [reflexivity|].
    inversion Hnd as [|y' L' Hny HndL]; subst.
    rewrite qsum_cons, (IH HndL).
    destruct (seqb x y) eqn:Exy; cbn [orb].
    - apply seqb_spec in Exy. subst y.
      assert (Hm : mem seqb x L = false) by (apply mem_false; exact Hny).
      rewrite Hm. unfold b2z. ring.
    - unfold b2z. destruct (mem seqb x L); ring.
  Qed.

  Lemma handshake (h : S -> Q) (l : list S) :
    (qsum (map h l) == qsum (map (fun v => inject_Z (countZ seqb v l) * h v) (dedup seqb l)))%Q.
  Proof.
    induction l as [|x l IH]; [reflexivity|].
    cbn [map]. rewrite qsum_cons.
    assert (Hsplit : forall L,
      (qsum (map (fun v => inject_Z (countZ seqb v (x :: l)) * h v) L) ==
       qsum (map (fun v => inject_Z (b2z (seqb x v)) * h v) L) +
       qsum (map (fun v => inject_Z (countZ seqb v l) * h v) L))%Q).
    { intros L. rewrite <- qsum_map_plus. apply qsum_map_ext. intros v _.
      rewrite countZ_cons, inject_Z_plus. ring. }
    cbn [dedup]. destruct (mem seqb x l) eqn:Em.
    - rewrite Hsplit, <- IH, (indicator_sum h x _ (dedup_NoDup l)).
      assert (Hm : mem seqb x (dedup seqb l) = true) by (apply mem_In, dedup_In, mem_In; exact Em).
      rewrite Hm. reflexivity.
    - cbn [map]. rewrite qsum_cons, Hsplit, <- IH, (indicator_sum h x _ (dedup_NoDup l)).
      assert (Hm : mem seqb x (dedup seqb l) = false).
      { apply mem_false. rewrite dedup_In. apply mem_false. exact Em. }
      rewrite Hm, countZ_cons, seqb_refl, (countZ_notin x l) by (apply mem_false; exact Em).
      unfold b2z. cbn [Z.add]. ring.
  Qed.

  Lemma qsum_endpoints (h : S -> Q) (edges : list (S * S)) :
    (qsum (map h (endpoints edges)) == qsum (map (fun e => h (fst e) + h (snd e)) edges))%Q.
  Proof.
    induction edges as [|e edges IH]; [reflexivity|].
    unfold endpoints in *. cbn [flat_map map app]. rewrite !qsum_cons, IH. ring.
  Qed.

  Lemma inject_Z_nonzero z : z <> 0 -> ~ (inject_Z z == 0)%Q.
  Proof. intros Hz Hq. unfold Qeq, inject_Z in Hq. cbn [Qnum Qden] in Hq. lia. Qed.

  (* sum over the edge ends of  w(x)/deg(x)  =  sum over the sites of  w(v) *)
  Lemma handshake_sites (w : S -> Q) (edges : list (S * S)) :
    (qsum (map (fun e => w (fst e) / inject_Z (deg seqb (fst e) edges) + w (snd e) / inject_Z (deg seqb (snd e) edges)) edges)
     == qsum (map w (sites_of seqb edges)))%Q.
  Proof.
    rewrite <- (qsum_endpoints (fun x => w x / inject_Z (deg seqb x edges))%Q).
    rewrite handshake. unfold sites_of. apply qsum_map_ext. intros v Hv.
    apply (proj1 (dedup_In _ _)) in Hv. apply countZ_pos_in in Hv. unfold deg.
    field. apply inject_Z_nonzero. lia.
  Qed.

  (* ---------------- the coefficient factories ---------------- *)
  Definition edge_dict_get (d : list ((S * S) * Q)) (a b : S) : option Q :=
    match lookup peqb (a, b) d with Some q => Some q | None => lookup peqb (b, a) d end.

  (* dict: the key (a,b) first, (b,a) as fallback, raise (None) when neither is
     present; callable: called as given; anything else: the constant. *)
  Lemma edge_factory_spec (t : edge_coef S) (a b : S) :
    make_edge_factory seqb t a b =
    match t with EDict d => edge_dict_get d a b | EFun f => Some (f a b) | EScalar c => Some c end.
  Proof. destruct t; reflexivity. Qed.

  Lemma node_factory_spec (u : node_coef S) (v : S) :
    make_node_factory seqb u v =
    match u with NDict d => lookup seqb v d | NFun f => Some (f v) | NScalar c => Some c end.
  Proof. destruct u; reflexivity. Qed.

  (* a bond specified in ONE orientation is found from both orientations *)
  Lemma edge_dict_either_orientation (d : list ((S * S) * Q)) (a b : S) (q : Q) :
    lookup peqb (a, b) d = Some q -> lookup peqb (b, a) d = None ->
    make_edge_factory seqb (EDict d) a b = Some q /\ make_edge_factory seqb (EDict d) b a = Some q.
  Proof.
    intros Hab Hba. rewrite !edge_factory_spec. unfold edge_dict_get. rewrite Hab, Hba. split; reflexivity.
  Qed.

  (* ---------------- the dict comprehension ---------------- *)
  Section Build.
    Context {C : Type} (callf : S * S -> option C).

    Definition build_step (acc : option (list ((S * S) * C))) (e : S * S) : option (list ((S * S) * C)) :=
      obind acc (fun d => obind (callf e) (fun c => Some (dset peqb e c d))).
    Definition entry (e : S * S) : option ((S * S) * C) :=
      match callf e with Some c => Some (e, c) | None => None end.

    Lemma build_none edges : fold_left build_step edges None = None.
    Proof. induction edges as [|e edges IH]; cbn [fold_left]; [reflexivity | exact IH]. Qed.

    Lemma build_gen (edges : list (S * S)) (acc : list ((S * S) * C)) :
      NoDup edges -> (forall e, In e edges -> lookup peqb e acc = None) ->
      fold_left build_step edges (Some acc) = obind (omap entry edges) (fun ys => Some (acc ++ ys)).
    Proof.
      revert acc. induction edges as [|e edges IH]; intros acc Hnd Hfresh; cbn [fold_left omap obind].
      - rewrite app_nil_r. reflexivity.
      - inversion Hnd as [|e' edges' Hne Hnd']; subst.
        unfold build_step at 2. cbn [obind]. unfold entry at 1.
        destruct (callf e) as [c|] eqn:Ec; cbn [obind].
        + rewrite (dset_fresh peqb) by (apply Hfresh; left; reflexivity).
          rewrite IH; [| exact Hnd' |].
          * destruct (omap entry edges) as [ys|]; cbn [obind]; [|reflexivity].
            rewrite <- app_assoc. reflexivity.
          * intros e2 He2. rewrite lookup_app, (Hfresh e2 (or_intror He2)). cbn [lookup].
            destruct (peqb e2 e) eqn:E2; [|reflexivity].
            apply peqb_spec in E2. subst e2. contradiction.
        + apply build_none.
    Qed.

    Lemma omap_entry_Forall2 (edges : list (S * S)) ys :
      omap entry edges = Some ys ->
      Forall2 (fun e y => fst y = e /\ callf e = Some (snd y)) edges ys.
    Proof.
      revert ys. induction edges as [|e edges IH]; intros ys; cbn [omap].
      - intros H. inversion H. constructor.
      - unfold entry at 1. destruct (callf e) as [c|] eqn:Ec; cbn [obind]; [|discriminate].
        destruct (omap entry edges) as [ys'|]; cbn [obind]; [|discriminate].
        intros H. inversion H. subst ys. constructor; [split; [reflexivity | exact Ec] | apply IH; reflexivity].
    Qed.

    Lemma build_Forall2 (edges : list (S * S)) d :
      NoDup edges -> fold_left build_step edges (Some []) = Some d ->
      Forall2 (fun e y => fst y = e /\ callf e = Some (snd y)) edges d.
    Proof.
      intros Hnd Hb. rewrite build_gen in Hb; [| exact Hnd | intros; reflexivity].
      destruct (omap entry edges) as [ys|] eqn:Eo; cbn [obind app] in Hb; [|discriminate].
      inversion Hb. subst d. apply omap_entry_Forall2. exact Eo.
    Qed.

    Lemma pairing_lattice {W} (f : W -> Q) (P : (S * S) * C -> poly W) (F : S * S -> Q) (edges : list (S * S)) ys :
      Forall2 (fun e y => fst y = e /\ callf e = Some (snd y)) edges ys ->
      (forall e c, In e edges -> callf e = Some c -> (pairing f (P (e, c)) == F e)%Q) ->
      (pairing f (flat_map P ys) == qsum (map F edges))%Q.
    Proof.
      intros HF. induction HF as [|e y edges ys [Hy Hc] HF IH]; intros HP; [reflexivity|].
      cbn [flat_map map]. rewrite pairing_app, qsum_cons.
      destruct y as [e' c]. cbn [fst snd] in Hy, Hc. subst e'.
      rewrite (HP e c (or_introl eq_refl) Hc). rewrite IH; [reflexivity|].
      intros e2 c2 Hin. apply HP. right. exact Hin.
    Qed.
  End Build.

  Lemma coord_lookup_some (edges : list (S * S)) (v : S) (n : Z) :
    lookup seqb v (coord_loop seqb edges) = Some n -> n = deg seqb v edges /\ deg seqb v edges <> 0.
  Proof.
    rewrite coord_loop_is_degree. destruct (deg seqb v edges =? 0) eqn:E; [discriminate|].
    intros H. inversion H. apply Z.eqb_neq in E. split; [reflexivity | exact E].
  Qed.

  (* ---------------- spinful Hubbard ---------------- *)
  Lemma hubbard_call_inv t U mu coords a b c :
    ham_fermi_hubbard_from_edges_call seqb t U mu coords a b = Some c ->
    make_edge_factory seqb t a b = Some (hc_t c) /\
    make_node_factory seqb U a = Some (fst (hc_U c)) /\ make_node_factory seqb U b = Some (snd (hc_U c)) /\
    make_node_factory seqb mu a = Some (fst (hc_mu c)) /\ make_node_factory seqb mu b = Some (snd (hc_mu c)) /\
    lookup seqb a coords = Some (fst (hc_coord c)) /\ lookup seqb b coords = Some (snd (hc_coord c)).
  Proof.
    unfold ham_fermi_hubbard_from_edges_call.
    destruct (make_edge_factory seqb t a b); cbn [obind]; [|discriminate].
    destruct (make_node_factory seqb U a); cbn [obind]; [|discriminate].
    destruct (make_node_factory seqb U b); cbn [obind]; [|discriminate].
    destruct (make_node_factory seqb mu a); cbn [obind]; [|discriminate].
    destruct (make_node_factory seqb mu b); cbn [obind]; [|discriminate].
    destruct (lookup seqb a coords); cbn [obind]; [|discriminate].
    destruct (lookup seqb b coords); cbn [obind]; [|discriminate].
    intros H. inversion H. cbn. repeat split; reflexivity.
  Qed.

  Definition w_hubbard (f : list (@sop S) -> Q) (U mu : node_coef S) (v : S) : Q :=
    pairing f (onsite_hubbard (node_val seqb U) (node_val seqb mu) v).

  Lemma hubbard_edge_pairing (f : list (@sop S) -> Q) edges t U mu (e : S * S) c :
    ham_fermi_hubbard_from_edges_call seqb t U mu (coord_loop seqb edges) (fst e) (snd e) = Some c ->
    (pairing f (edge_poly fermi_hubbard_terms (env_hubbard c) (fst e) (snd e)) ==
     pairing f (hop_hubbard (edge_val seqb t) e)
     + (w_hubbard f U mu (fst e) / inject_Z (deg seqb (fst e) edges)
        + w_hubbard f U mu (snd e) / inject_Z (deg seqb (snd e) edges)))%Q.
  Proof.
    destruct e as [a b]. cbn [fst snd]. intros Hc.
    apply hubbard_call_inv in Hc.
    destruct Hc as (Ht & HUa & HUb & Hma & Hmb & Hca & Hcb).
    apply coord_lookup_some in Hca. apply coord_lookup_some in Hcb.
    destruct Hca as [Hca Hda]. destruct Hcb as [Hcb Hdb].
    destruct c as [ct [cUa cUb] [cma cmb] [cca ccb]]. cbn [hc_t hc_U hc_mu hc_coord fst snd] in *. subst cca ccb.
    unfold w_hubbard, edge_poly, fermi_hubbard_terms, hop_hubbard, onsite_hubbard, hop, num, cre, ann, env_hubbard, subst_op.
    cbn [map fst snd ceval sym_val ev_t ev_U ev_mu ev_c subst_site app hc_t hc_U hc_mu hc_coord].
    unfold edge_val, node_val. rewrite Ht, HUa, HUb, Hma, Hmb. cbn [oget].
    rewrite !pairing_cons, !pairing_nil.
    field. split; apply inject_Z_nonzero; assumption.
  Qed.

  Theorem hubbard_edge_sum (edges : list (S * S)) (t : edge_coef S) (U mu : node_coef S) d :
    NoDup edges ->
    ham_fermi_hubbard_from_edges seqb edges t U mu = Some d ->
    poly_equiv (hubbard_lattice_poly d)
               (H_hubbard edges (sites_of seqb edges) (edge_val seqb t) (node_val seqb U) (node_val seqb mu)).
  Proof.
    intros Hnd Hd f.
    unfold ham_fermi_hubbard_from_edges in Hd. rewrite hubbard_coordinations_eq in Hd.
    set (callf := fun e : S * S => ham_fermi_hubbard_from_edges_call seqb t U mu (coord_loop seqb edges) (fst e) (snd e)).
    assert (Hb : fold_left (build_step callf) edges (Some []) = Some d).
    { rewrite <- Hd. apply fold_left_ext. intros acc [a b]. reflexivity. }
    apply (build_Forall2 callf edges d Hnd) in Hb.
    unfold hubbard_lattice_poly, H_hubbard.
    rewrite (pairing_lattice callf f _
               (fun e => pairing f (hop_hubbard (edge_val seqb t) e)
                         + (w_hubbard f U mu (fst e) / inject_Z (deg seqb (fst e) edges)
                            + w_hubbard f U mu (snd e) / inject_Z (deg seqb (snd e) edges)))%Q edges d Hb).
    - rewrite qsum_map_plus, (handshake_sites (w_hubbard f U mu) edges).
      rewrite pairing_app, !pairing_flat_map. reflexivity.
    - intros e c _ Hc. cbn [fst snd]. apply hubbard_edge_pairing. exact Hc.
  Qed.

  (* ---------------- spinless (t-V) ---------------- *)
  Lemma spinless_call_inv t V mu coords a b c :
    ham_fermi_hubbard_spinless_from_edges_call seqb t V mu coords a b = Some c ->
    make_edge_factory seqb t a b = Some (sc_t c) /\ make_edge_factory seqb V a b = Some (sc_V c) /\
    make_node_factory seqb mu a = Some (fst (sc_mu c)) /\ make_node_factory seqb mu b = Some (snd (sc_mu c)) /\
    lookup seqb a coords = Some (fst (sc_coord c)) /\ lookup seqb b coords = Some (snd (sc_coord c)).
  Proof.
    unfold ham_fermi_hubbard_spinless_from_edges_call.
    destruct (make_edge_factory seqb t a b); cbn [obind]; [|discriminate].
    destruct (make_edge_factory seqb V a b); cbn [obind]; [|discriminate].
    destruct (make_node_factory seqb mu a); cbn [obind]; [|discriminate].
    destruct (make_node_factory seqb mu b); cbn [obind]; [|discriminate].
    destruct (lookup seqb a coords); cbn [obind]; [|discriminate].
    destruct (lookup seqb b coords); cbn [obind]; [|discriminate].
    intros H. inversion H. cbn. repeat split; reflexivity.
  Qed.

  Definition w_spinless (f : list (@sop S) -> Q) (mu : node_coef S) (v : S) : Q :=
    pairing f (onsite_spinless (node_val seqb mu) v).

  Lemma spinless_edge_pairing (f : list (@sop S) -> Q) edges t V mu (e : S * S) c :
    ham_fermi_hubbard_spinless_from_edges_call seqb t V mu (coord_loop seqb edges) (fst e) (snd e) = Some c ->
    (pairing f (edge_poly fermi_hubbard_spinless_terms (env_spinless c) (fst e) (snd e)) ==
     pairing f (bond_spinless (edge_val seqb t) (edge_val seqb V) e)
     + (w_spinless f mu (fst e) / inject_Z (deg seqb (fst e) edges)
        + w_spinless f mu (snd e) / inject_Z (deg seqb (snd e) edges)))%Q.
  Proof.
    destruct e as [a b]. cbn [fst snd]. intros Hc.
    apply spinless_call_inv in Hc.
    destruct Hc as (Ht & HV & Hma & Hmb & Hca & Hcb).
    apply coord_lookup_some in Hca. apply coord_lookup_some in Hcb.
    destruct Hca as [Hca Hda]. destruct Hcb as [Hcb Hdb].
    destruct c as [ct cV [cma cmb] [cca ccb]]. cbn [sc_t sc_V sc_mu sc_coord fst snd] in *. subst cca ccb.
    unfold w_spinless, edge_poly, fermi_hubbard_spinless_terms, bond_spinless, onsite_spinless, hop, num, cre, ann, env_spinless, subst_op.
    cbn [map fst snd ceval sym_val ev_t ev_V ev_mu ev_c subst_site app sc_t sc_V sc_mu sc_coord].
    unfold edge_val, node_val. rewrite Ht, HV, Hma, Hmb. cbn [oget].
    rewrite !pairing_cons, !pairing_nil.
    field. split; apply inject_Z_nonzero; assumption.
  Qed.

  Theorem spinless_edge_sum (edges : list (S * S)) (t V : edge_coef S) (mu : node_coef S) d :
    NoDup edges ->
    ham_fermi_hubbard_spinless_from_edges seqb edges t V mu = Some d ->
    poly_equiv (spinless_lattice_poly d)
               (H_spinless edges (sites_of seqb edges) (edge_val seqb t) (edge_val seqb V) (node_val seqb mu)).
  Proof.
    intros Hnd Hd f.
    unfold ham_fermi_hubbard_spinless_from_edges in Hd. rewrite spinless_coordinations_eq in Hd.
    set (callf := fun e : S * S => ham_fermi_hubbard_spinless_from_edges_call seqb t V mu (coord_loop seqb edges) (fst e) (snd e)).
    assert (Hb : fold_left (build_step callf) edges (Some []) = Some d).
    { rewrite <- Hd. apply fold_left_ext. intros acc [a b]. reflexivity. }
    apply (build_Forall2 callf edges d Hnd) in Hb.
    unfold spinless_lattice_poly, H_spinless.
    rewrite (pairing_lattice callf f _
               (fun e => pairing f (bond_spinless (edge_val seqb t) (edge_val seqb V) e)
                         + (w_spinless f mu (fst e) / inject_Z (deg seqb (fst e) edges)
                            + w_spinless f mu (snd e) / inject_Z (deg seqb (snd e) edges)))%Q edges d Hb).
    - rewrite qsum_map_plus, (handshake_sites (w_spinless f mu) edges).
      rewrite pairing_app, !pairing_flat_map. reflexivity.
    - intros e c _ Hc. cbn [fst snd]. apply spinless_edge_pairing. exact Hc.
  Qed.

  (* ---------------- transverse-field Ising (translated only; quimb is needed to run it) ---------------- *)
  Lemma tfim_call_inv jx hz coords a b c :
    ham_tfim_from_edges_call seqb jx hz coords a b = Some c ->
    make_edge_factory seqb jx a b = Some (tc_jx c) /\
    make_node_factory seqb hz a = Some (fst (tc_hz c)) /\ make_node_factory seqb hz b = Some (snd (tc_hz c)) /\
    lookup seqb a coords = Some (fst (tc_coord c)) /\ lookup seqb b coords = Some (snd (tc_coord c)).
  Proof.
    unfold ham_tfim_from_edges_call.
    destruct (make_edge_factory seqb jx a b); cbn [obind]; [|discriminate].
    destruct (make_node_factory seqb hz a); cbn [obind]; [|discriminate].
    destruct (make_node_factory seqb hz b); cbn [obind]; [|discriminate].
    destruct (lookup seqb a coords); cbn [obind]; [|discriminate].
    destruct (lookup seqb b coords); cbn [obind]; [|discriminate].
    intros H. inversion H. cbn. repeat split; reflexivity.
  Qed.

  Definition w_tfim (f : list (@spauli S) -> Q) (hz : node_coef S) (v : S) : Q :=
    pairing f (onsite_tfim (node_val seqb hz) v).

  Lemma tfim_edge_pairing (f : list (@spauli S) -> Q) edges jx hz (e : S * S) c :
    ham_tfim_from_edges_call seqb jx hz (coord_loop seqb edges) (fst e) (snd e) = Some c ->
    (pairing f (edge_poly_pauli tfim_terms (env_tfim c) (fst e) (snd e)) ==
     pairing f (bond_tfim (edge_val seqb jx) e)
     + (w_tfim f hz (fst e) / inject_Z (deg seqb (fst e) edges)
        + w_tfim f hz (snd e) / inject_Z (deg seqb (snd e) edges)))%Q.
  Proof.
    destruct e as [a b]. cbn [fst snd]. intros Hc.
    apply tfim_call_inv in Hc.
    destruct Hc as (Hj & Hha & Hhb & Hca & Hcb).
    apply coord_lookup_some in Hca. apply coord_lookup_some in Hcb.
    destruct Hca as [Hca Hda]. destruct Hcb as [Hcb Hdb].
    destruct c as [cj [cha chb] [cca ccb]]. cbn [tc_jx tc_hz tc_coord fst snd] in *. subst cca ccb.
    unfold w_tfim, edge_poly_pauli, tfim_terms, bond_tfim, onsite_tfim, env_tfim, subst_pauli.
    cbn [map flat_map fst snd ceval sym_val ev_jx ev_hz ev_c subst_site app tc_jx tc_hz tc_coord].
    unfold edge_val, node_val. rewrite Hj, Hha, Hhb. cbn [oget].
    rewrite !pairing_cons, !pairing_nil.
    field. split; apply inject_Z_nonzero; assumption.
  Qed.

  Theorem tfim_edge_sum (edges : list (S * S)) (jx : edge_coef S) (hz : node_coef S) d :
    NoDup edges ->
    ham_tfim_from_edges seqb edges jx hz = Some d ->
    poly_equiv (tfim_lattice_poly d)
               (H_tfim edges (sites_of seqb edges) (edge_val seqb jx) (node_val seqb hz)).
  Proof.
    intros Hnd Hd f.
    unfold ham_tfim_from_edges in Hd. rewrite tfim_coordinations_eq in Hd.
    set (callf := fun e : S * S => ham_tfim_from_edges_call seqb jx hz (coord_loop seqb edges) (fst e) (snd e)).
    assert (Hb : fold_left (build_step callf) edges (Some []) = Some d).
    { rewrite <- Hd. apply fold_left_ext. intros acc [a b]. reflexivity. }
    apply (build_Forall2 callf edges d Hnd) in Hb.
    unfold tfim_lattice_poly, H_tfim.
    rewrite (pairing_lattice callf f _
               (fun e => pairing f (bond_tfim (edge_val seqb jx) e)
                         + (w_tfim f hz (fst e) / inject_Z (deg seqb (fst e) edges)
                            + w_tfim f hz (snd e) / inject_Z (deg seqb (snd e) edges)))%Q edges d Hb).
    - rewrite qsum_map_plus, (handshake_sites (w_tfim f hz) edges).
      rewrite pairing_app, !pairing_flat_map. reflexivity.
    - intros e c _ Hc. cbn [fst snd]. apply tfim_edge_pairing. exact Hc.
  Qed.

  (* ---------------- coordination = degree, on the GENERATED loops ---------------- *)
  Definition degree_table (coords : list (S * Z)) (edges : list (S * S)) : Prop :=
    forall v, lookup seqb v coords = if deg seqb v edges =? 0 then None else Some (deg seqb v edges).

  Theorem coordination_is_degree (edges : list (S * S)) :
    degree_table (ham_fermi_hubbard_from_edges_coordinations seqb edges) edges /\
    degree_table (ham_fermi_hubbard_spinless_from_edges_coordinations seqb edges) edges /\
    degree_table (ham_tfim_from_edges_coordinations seqb edges) edges.
  Proof.
    rewrite hubbard_coordinations_eq, spinless_coordinations_eq, tfim_coordinations_eq.
    repeat split; intros v; apply coord_loop_is_degree.
  Qed.

  (* for a graph without self loops the count of edge ends is the number of incident edges *)
  Lemma deg_no_loops (edges : list (S * S)) (v : S) :
    (forall a b, In (a, b) edges -> a <> b) ->
    deg seqb v edges = Z.of_nat (length (filter (incident seqb v) edges)).
  Proof.
    unfold deg, endpoints. induction edges as [|[a b] edges IH]; intros Hnl; [reflexivity|].
    cbn [flat_map fst snd app filter]. rewrite !countZ_cons.
    unfold endpoints in IH. rewrite IH by (intros x y Hin; apply (Hnl x y); right; exact Hin).
    unfold incident. cbn [fst snd].
    assert (Hab : a <> b) by (apply Hnl; left; reflexivity).
    destruct (seqb a v) eqn:Ea, (seqb b v) eqn:Eb; cbn [orb length b2z].
    - apply seqb_spec in Ea. apply seqb_spec in Eb. congruence.
    - lia.
    - lia.
    - lia.
  Qed.

  (* ---------------- on-site totals ---------------- *)
  Lemma qsum_indicator_count (x : Q) (v : S) (l : list S) :
    (qsum (map (fun y => if seqb y v then x else 0) l) == inject_Z (countZ seqb v l) * x)%Q.
  Proof.
    induction l as [|y l IH]; cbn [map].
    - unfold countZ. cbn. unfold qsum. cbn. ring.
    - rewrite qsum_cons, IH, countZ_cons, inject_Z_plus. unfold b2z. destruct (seqb y v); ring.
  Qed.

  (* Whatever the degree of v: the shares  c/coordination(v)  that the edges
     touching v pass on add up to exactly c. *)
  Theorem onsite_total (edges : list (S * S)) (c : Q) (v : S) :
    0 < deg seqb v edges ->
    let coord := getZ v (ham_fermi_hubbard_from_edges_coordinations seqb edges) in
    (qsum (map (fun e => (if seqb (fst e) v then c / inject_Z coord else 0)
                         + (if seqb (snd e) v then c / inject_Z coord else 0)) edges) == c)%Q.
  Proof.
    intros Hpos coord.
    assert (Hc : coord = deg seqb v edges).
    { unfold coord, getZ. rewrite hubbard_coordinations_eq, coord_loop_is_degree.
      destruct (deg seqb v edges =? 0) eqn:E; [apply Z.eqb_eq in E; lia | reflexivity]. }
    rewrite Hc.
    rewrite <- (qsum_endpoints (fun y => if seqb y v then c / inject_Z (deg seqb v edges) else 0)%Q).
    rewrite qsum_indicator_count. unfold deg. field. apply inject_Z_nonzero. unfold deg in Hpos. lia.
  Qed.

  (* ---------------- coefficient form ---------------- *)
  Lemma poly_equiv_coeff {W} (weqb : W -> W -> bool) (p q : poly W) :
    poly_equiv p q -> forall w, (coeff weqb p w == coeff weqb q w)%Q.
  Proof. intros H w. apply H. Qed.

  Corollary hubbard_edge_sum_coeff edges t U mu d :
    NoDup edges -> ham_fermi_hubbard_from_edges seqb edges t U mu = Some d ->
    forall w, (coeff (word_eqb seqb) (hubbard_lattice_poly d) w ==
               coeff (word_eqb seqb) (H_hubbard edges (sites_of seqb edges) (edge_val seqb t) (node_val seqb U) (node_val seqb mu)) w)%Q.
  Proof. intros Hnd Hd. apply poly_equiv_coeff. apply hubbard_edge_sum; assumption. Qed.

  Corollary spinless_edge_sum_coeff edges t V mu d :
    NoDup edges -> ham_fermi_hubbard_spinless_from_edges seqb edges t V mu = Some d ->
    forall w, (coeff (word_eqb seqb) (spinless_lattice_poly d) w ==
               coeff (word_eqb seqb) (H_spinless edges (sites_of seqb edges) (edge_val seqb t) (edge_val seqb V) (node_val seqb mu)) w)%Q.
  Proof. intros Hnd Hd. apply poly_equiv_coeff. apply spinless_edge_sum; assumption. Qed.

  (* the Heisenberg builder gives every listed edge the same term, once *)
  Lemma heisenberg_keys {HT} (h2 : HT) (edges : list (S * S)) :
    NoDup edges -> ham_heisenberg_from_edges seqb h2 edges = map (fun e => (e, h2)) edges.
  Proof.
    intros Hnd. unfold ham_heisenberg_from_edges.
    assert (Hg : forall acc, (forall e, In e edges -> lookup peqb e acc = None) ->
                 fold_left (fun acc '(a, b) => dset (pair_eqb seqb seqb) (a, b) h2 acc) edges acc
                 = acc ++ map (fun e => (e, h2)) edges).
    { induction edges as [|e edges IH]; intros acc Hf; cbn [fold_left map].
      - rewrite app_nil_r. reflexivity.
      - inversion Hnd as [|e' es Hne Hnd']; subst. destruct e as [a b].
        fold peqb. rewrite (dset_fresh peqb) by (apply Hf; left; reflexivity).
        rewrite (IH Hnd'); [rewrite <- app_assoc; reflexivity|].
        intros e2 He2. rewrite lookup_app, (Hf e2 (or_intror He2)). cbn [lookup].
        destruct (peqb e2 (a, b)) eqn:E2; [|reflexivity].
        apply peqb_spec in E2. subst e2. contradiction. }
    apply (Hg []). intros; reflexivity.
  Qed.

End WithSites.

(* ================================================================== *)
(* Examples: the hypotheses are satisfiable on a non-trivial instance (triangle
   with a pendant site: degrees 2,2,3,1), and NoDup cannot be dropped. *)
Definition ex_edges : list (Z * Z) := [(0, 1); (1, 2); (2, 0); (2, 3)].
Definition ex_t : edge_coef Z := EDict [((1, 0), (1 # 1)%Q); ((1, 2), (2 # 1)%Q); ((0, 2), (3 # 1)%Q); ((2, 3), (5 # 1)%Q)].
Definition ex_U : node_coef Z := NFun (fun v => inject_Z (v + 7)).
Definition ex_mu : node_coef Z := NScalar (1 # 2)%Q.

Example ex_nodup : NoDup ex_edges.
Proof. unfold ex_edges. repeat constructor; cbn [In]; intros H; repeat destruct H as [H|H]; try discriminate; exact H. Qed.

Example ex_simple : simple_graph ex_edges.
Proof.
  split; [exact ex_nodup|]. unfold ex_edges. intros a b Hin. cbn [In] in Hin.
  repeat destruct Hin as [Hin|Hin]; try (inversion Hin; subst; split; [discriminate|];
    cbn [In]; intros H; repeat destruct H as [H|H]; try discriminate; exact H).
  destruct Hin.
Qed.

Example ex_coordinations :
  ham_fermi_hubbard_from_edges_coordinations Z.eqb ex_edges = [(0, 2); (1, 2); (2, 3); (3, 1)].
Proof. reflexivity. Qed.

Example ex_builds : exists d, ham_fermi_hubbard_from_edges Z.eqb ex_edges ex_t ex_U ex_mu = Some d /\ length d = 4%nat.
Proof. eexists. split; [vm_compute; reflexivity | reflexivity]. Qed.

(* the U-term of the degree-3 site 2 totals U(2) = 9, the mu-term -1/2; the hopping on the
   bond listed as (2,0) but specified as (0,2) appears once with -3 *)
Example ex_site2_total :
  match ham_fermi_hubbard_from_edges Z.eqb ex_edges ex_t ex_U ex_mu with
  | Some d =>
      Qeq_bool (coeff (word_eqb Z.eqb) (hubbard_lattice_poly d) (num 2 SpinUp ++ num 2 SpinDn)) (9 # 1)%Q
      && Qeq_bool (coeff (word_eqb Z.eqb) (hubbard_lattice_poly d) (num 2 SpinDn)) (- (1 # 2))%Q
      && Qeq_bool (coeff (word_eqb Z.eqb) (hubbard_lattice_poly d) (hop 0 2 SpinUp)) (- (3 # 1))%Q
      && Qeq_bool (coeff (word_eqb Z.eqb) (hubbard_lattice_poly d) (hop 2 0 SpinUp)) (- (3 # 1))%Q
  | None => false
  end = true.
Proof. vm_compute. reflexivity. Qed.

(* NoDup is necessary: a repeated edge raises both coordinations to 2 but the
   dict keeps one entry, so the on-site total is U/2 (this is outside the
   property's quantifier: simple graphs). *)
Example dup_edge_undercounts :
  match ham_fermi_hubbard_from_edges Z.eqb [(0, 1); (0, 1)] (EScalar (1 # 1)%Q) (NScalar (8 # 1)%Q) (NScalar 0%Q) with
  | Some d => Qeq_bool (coeff (word_eqb Z.eqb) (hubbard_lattice_poly d) (num 0 SpinUp ++ num 0 SpinDn)) (4 # 1)%Q
  | None => false
  end = true.
Proof. vm_compute. reflexivity. Qed.

(* ================================================================== *)
(* parse_edges_to_site_info: the translated loop skeleton is the expected one
   (edges sorted; ends swapped so that sitea < siteb; the name is formatted from
   (sitea, siteb) and appended to BOTH ends; direction 0 at sitea, 1 at siteb;
   coordination taken before the physical index (direction 0) is appended).
   Re-checked against the source on every run: any change of these facts
   breaks this lemma. *)
Lemma site_info_skeleton :
  site_info_sorted = true /\ site_info_swap = SwapIfGt /\ site_info_name_ab = true /\
  site_info_create = [EndA; EndB] /\
  site_info_body = [(EndA, FInds, VInd); (EndB, FInds, VInd);
                    (EndA, FDuals, VConst 0); (EndB, FDuals, VConst 1);
                    (EndA, FShape, VBondDim); (EndB, FShape, VBondDim)] /\
  site_info_coordination_before_phys = true /\
  site_info_phys = [(FInds, VPhysInd); (FDuals, VConst 0); (FShape, VPhysDim)].
Proof. repeat split; reflexivity. Qed.

(* one bond on an empty table: both ends carry the same name, directions 0 / 1 *)
Example site_info_one_bond :
  site_info_lbl [([2], [1])] 5 (Some 3) =
  [([1], {| si_inds := [[[1]; [2]]; [[1]]]; si_duals := [0; 0]; si_shape := [5; 3]; si_coord := Some 1 |});
   ([2], {| si_inds := [[[1]; [2]]; [[2]]]; si_duals := [1; 0]; si_shape := [5; 3]; si_coord := Some 1 |})].
Proof. reflexivity. Qed.
