(* Proofs/WfProofs3.v — property C01, continuation of Proofs/WfProofs2.v: the
   DECOMPOSITIONS become instructions.

   WfProofs2.v proves `programs_wf2` / `programs_valid2` for arbitrary programs
   over `instr2`; qr / svd / eigh / solve / svd_truncated were not instructions
   there (their structure theorems live in LinalgProofs.v / LinalgProofs2.v and
   are restated in Props/C11.v, C13b.v).  Here:

     §1  the state: the register file of WfProofs.v (abelian and fermionic
         arrays) plus a register file of BLOCK VECTORS (`Arith.bvec`, what svd
         and eigh return besides arrays); the vector predicate `wf_bvec`
     §2  `instr3` = `instr2` + IQr / ISvd / IEigh / ISolve / ITruncSvd /
         IMulDiagV (multiply_diagonal by a vector REGISTER, so that u.diag(s)
         can be formed from the program's own svd) + the fermionic FQr / FSvd /
         FEigh / FSolve; `results3`, `step3`, `run3` in the convention of
         `run2`: an instruction APPENDS its results to the register files
         (qr appends q then r; svd appends u then vh and the vector s; eigh
         appends v and the vector w; svd_truncated appends U', VH' and, for
         absorb=None, the kept values), and an instruction whose model returns
         None, or whose executable side condition fails, makes `run3` return None.
     §3  one lemma per new instruction, `results3_wf`, `step3_wf`,
         `programs_wf3`, `programs_valid3` (induction over arbitrary programs)
     §4  the shape contracts are satisfiable: the stand-ins of Model/Linalg.v
     §5  examples (vm_compute), refutations of the unguarded fermionic forms

   The dense per-block routines (LAPACK) are Section `Context` functions; what is
   assumed of them is the record `lapack_shapes` — exactly the shape contracts
   `split_shapes`, `svd_shapes`, `eigh_shapes`, `solve_shapes` of
   LinalgProofs.v that the C11 / C13b structure theorems assume.  Their
   numerical content is irrelevant to validity.  Nothing is bounded. *)
From SV Require Import Base.Prelude Base.Sym Base.Tensor Gen.PhasePerm Model.Sectors Model.Array Model.Arith
  Model.Fermi Model.Wf Model.Valid Model.SymInst Model.Linalg Model.Truncate
  Proofs.SymLaws Proofs.GroupFacts Proofs.OrderProofs Proofs.TensorProofs Proofs.StructProofs Proofs.Tdot Proofs.TdotInst
  Proofs.WfProofs Proofs.WfProofs2 Proofs.LinalgProofs Proofs.LinalgProofs2.
From Coq Require Import Permutation Sorting Lia.
Local Open Scope nat_scope.

Lemma pair_cn_eqb_spec (G : Symmetry) (HG : GroupLaws G) (a b : C G * nat) :
  pair_eqb (ceqb G) Nat.eqb a b = true <-> a = b.
Proof.
  destruct a as [a1 a2], b as [b1 b2]. unfold pair_eqb. cbn [fst snd].
  rewrite andb_true_iff, (ceqb_eq G HG), Nat.eqb_eq. split; [intros [-> ->]; reflexivity|intros H; inversion H; now split].
Qed.

Section Wf3.
  Context (G : Symmetry) (HG : GroupLaws G) (R : Ring).
  (* the dense per-block routines *)
  Context (qr_blk : tensor R -> tensor R * tensor R)
          (svd_blk : tensor R -> tensor R * tensor R * tensor R)
          (eigh_blk : tensor R -> tensor R * tensor R)
          (solve_blk : tensor R -> tensor R -> tensor R)
          (sqrt_blk : tensor R -> tensor R).
  Notation keq := (list_eqb (ceqb G)).
  Notation arr := (aarray G R).
  Notation farr := (farray G R).
  Notation vec := (bvec G R).
  Notation sector := (list (C G)).
  Notation dix := (dflt_index G).
  Notation ceqb_spec := (ceqb_eq G HG).
  Notation keq_spec := (Tdot.keq_spec G ceqb_spec).

  (* what is assumed of the dense routines: output shapes only *)
  Record lapack_shapes : Prop := {
    ls_qr : split_shapes R qr_blk;          (* a x b |-> a x k, k x b   (k > 0) *)
    ls_svd : svd_shapes R svd_blk;          (* a x b |-> a x k, k, k x b (k > 0) *)
    ls_eigh : eigh_shapes R eigh_blk;       (* n x n |-> n, n x n *)
    ls_solve : solve_shapes R solve_blk     (* n x n, n |-> n *)
  }.

  (* ---------------------------------------------------------------- *)
  (* §1 the state *)

  Definition state3 := (regfile G R * list vec)%type.

  (* a block vector: no key twice, every key a valid charge, every block one-dimensional
     of positive length *)
  Definition wf_bvec (v : vec) : bool :=
    nodupb (ceqb G) (map fst v) &&
    forallb (fun ct => valid G (fst ct) &&
                       match tshape (snd ct) with [n] => Nat.ltb 0 n | _ => false end) v.

  (* ... and relative to the index it belongs to (the bond of a factor): keys = the charges
     of the table, block lengths = the sizes *)
  Definition bvec_on (ix : index G) (v : vec) : Prop :=
    Permutation (map fst v) (icharges G ix) /\
    forall c t, In (c, t) v -> tshape t = [size_of G ix c].

  Definition wf_state3 (st : state3) : Prop :=
    wf_regs G R (fst st) /\ Forall (fun v => wf_bvec v = true) (snd st).

  Definition valid_state3 (st : state3) : Prop :=
    valid_regs G R (fst st) /\ Forall (fun v => wf_bvec v = true) (snd st).

  (* ---------------------------------------------------------------- *)
  (* §2 instructions *)

  Inductive instr3 : Type :=
  | I2 (i : instr2 G R)                               (* every instruction of WfProofs2.v *)
  | IQr (r : nat)                                     (* q, r = qr(x) *)
  | ISvd (r : nat)                                    (* u, s, vh = svd(x) *)
  | IEigh (r : nat)                                   (* w, v = eigh(x) *)
  | ISolve (ra rb : nat)                              (* x = solve(a, b) *)
  | ITruncSvd (r : nat) (counts : list nat) (mode : option absorb_mode)
      (* svd_truncated with the kept counts per stored block (any outcome of the selection
         logic of Model/Trunc.v) and absorb = None | left | both | right *)
  | IMulDiagV (r v : nat) (axis : nat)                (* multiply_diagonal by a vector register *)
  (* fermionic register file *)
  | FQr (r : nat)
  | FSvd (r : nat)
  | FEigh (r : nat)
  | FSolve (ra rb : nat).

  Definition square_blocks (x : arr) : bool :=
    forallb (fun sb : sector * tensor R => Nat.eqb (nth 0 (tshape (snd sb)) 0) (nth 1 (tshape (snd sb)) 0)) (blocks G R x).

  (* solve(a, b): b lives on a's first index *)
  Definition solve_ok (a b : arr) : bool :=
    let i0 := ix0 G R a in
    let ib := nth 0 (indices G R b) dix in
    list_eqb (pair_eqb (ceqb G) Nat.eqb) (chargemap G ib) (chargemap G i0) &&
    Bool.eqb (idual G ib) (idual G i0) && square_blocks a.

  (* one count per stored block, none above the block's number of singular values *)
  Definition counts_okb (x : arr) (counts : list nat) : bool :=
    Nat.eqb (length counts) (length (blocks G R x)) &&
    forallb (fun sn : (sector * tensor R) * nat => Nat.leb (snd sn) (ncols R (fst (svd_uv R svd_blk (snd (fst sn))))))
            (List.combine (blocks G R x) counts).

  (* every pending sign of a fermionic array sits on a stored sector *)
  Definition phases_stored (x : farr) : bool :=
    forallb (fun s => mem keq s (fsectors G R x)) (fphases G R x).

  Definition out3 (ya : list arr) (yf : list farr) (yv : list vec) : option state3 := Some ((ya, yf), yv).

  Definition results3 (st : state3) (i : instr3) : option state3 :=
    let '((ra, rf), rv) := st in
    match i with
    | I2 i0 => match results2 G R (ra, rf) i0 with Some ys => Some (ys, []) | None => None end
    | IQr r => match nth_error ra r with
               | Some x => match a_qr G R qr_blk x with Some (q, rr) => out3 [q; rr] [] [] | None => None end
               | None => None end
    | ISvd r => match nth_error ra r with
                | Some x => match a_svd G R svd_blk x with Some (u, s, vh) => out3 [u; vh] [] [s] | None => None end
                | None => None end
    | IEigh r => match nth_error ra r with
                 | Some x => if square_blocks x
                             then match a_eigh G R eigh_blk x with Some (w, v) => out3 [v] [] [w] | None => None end
                             else None
                 | None => None end
    | ISolve r1 r2 => match nth_error ra r1, nth_error ra r2 with
                      | Some a, Some b => if solve_ok a b
                                          then match a_solve G R solve_blk a b with Some x => out3 [x] [] [] | None => None end
                                          else None
                      | _, _ => None end
    | ITruncSvd r counts mode =>
        match nth_error ra r with
        | Some x => if counts_okb x counts
                    then match a_svd_truncated G R svd_blk sqrt_blk x counts mode with
                         | Some (u, Some s, vh) => out3 [u; vh] [] [s]
                         | Some (u, None, vh) => out3 [u; vh] [] []
                         | None => None
                         end
                    else None
        | None => None end
    | IMulDiagV r v axis => match nth_error ra r, nth_error rv v with
                            | Some x, Some w => out3 [a_multiply_diagonal G R x w axis] [] []
                            | _, _ => None end
    | FQr r => match nth_error rf r with
               | Some x => if phases_stored x
                           then match f_qr G R qr_blk x with Some (q, rr) => out3 [] [q; rr] [] | None => None end
                           else None
               | None => None end
    | FSvd r => match nth_error rf r with
                | Some x => if phases_stored x
                            then match f_svd G R svd_blk x with Some (u, s, vh) => out3 [] [u; vh] [s] | None => None end
                            else None
                | None => None end
    | FEigh r => match nth_error rf r with
                 | Some x => if square_blocks (fbase G R (f_phase_sync G R x))
                             then match f_eigh G R eigh_blk x with Some (w, v) => out3 [] [v] [w] | None => None end
                             else None
                 | None => None end
    | FSolve r1 r2 => match nth_error rf r1, nth_error rf r2 with
                      | Some a, Some b =>
                          if solve_ok (fbase G R (f_phase_sync G R a)) (fbase G R (f_phase_sync G R b)) && negb (fparity G R a)
                          then match f_solve G R solve_blk a b with Some x => out3 [] [x] [] | None => None end
                          else None
                      | _, _ => None end
    end.

  Definition step3 (st : state3) (i : instr3) : option state3 :=
    match results3 st i with
    | Some ((ya, yf), yv) => Some ((fst (fst st) ++ ya, snd (fst st) ++ yf), snd st ++ yv)
    | None => None
    end.

  Fixpoint run3 (prog : list instr3) (st : state3) : option state3 :=
    match prog with
    | [] => Some st
    | i :: prog' => match step3 st i with Some st' => run3 prog' st' | None => None end
    end.

  (* the programs of WfProofs2.v are the programs over `I2` *)
  Lemma run3_old (prog : list (instr2 G R)) : forall rg rv,
    run3 (map I2 prog) (rg, rv) = match run2 G R prog rg with Some rg' => Some (rg', rv) | None => None end.
  Proof.
    induction prog as [|i prog IH]; intros rg rv; cbn [map run3 run2]; [reflexivity|].
    unfold step3, step2. destruct rg as [ra rf]. cbn [results3 fst snd].
    destruct (results2 G R (ra, rf) i) as [[ya yf]|]; [|reflexivity].
    rewrite app_nil_r. apply IH.
  Qed.

  (* ---------------------------------------------------------------- *)
  (* §3 every new instruction preserves validity *)

  Lemma order_total3 (HO : OrderLaws G) : forall a b : C G, a <> b -> cltb G a b = true \/ cltb G b a = true.
  Proof.
    intros a b Hne. destruct (cltb G a b) eqn:E1; [left; reflexivity|].
    destruct (cltb G b a) eqn:E2; [right; reflexivity|]. exfalso. apply Hne. apply (st_total _ HO); assumption.
  Qed.

  Lemma a_split_ndim f (x q r : arr) : a_split G R f x = Some (q, r) -> ndim G R x = 2.
  Proof. unfold a_split. destruct (Nat.eqb (ndim G R x) 2) eqn:E; [intros _; now apply Nat.eqb_eq|discriminate]. Qed.

  Lemma split_wf (HO : OrderLaws G) f (x q r : arr) :
    split_shapes R f -> wf_array G R x = true -> a_split G R f x = Some (q, r) -> split_spec G R f x q r.
  Proof.
    intros Hf Hw Hs. pose proof (a_split_ndim f x q r Hs) as Hn.
    destruct (split_structure G HG R (st_trans _ HO) (order_total3 HO) f x Hw Hn Hf) as (q' & r' & E & Hspec).
    rewrite Hs in E. inversion E; subst q' r'. exact Hspec.
  Qed.

  Theorem qr_wf (HO : OrderLaws G) (x q r : arr) :
    split_shapes R qr_blk -> wf_array G R x = true -> a_qr G R qr_blk x = Some (q, r) ->
    wf_array G R q = true /\ wf_array G R r = true.
  Proof.
    intros Hf Hw Hs. pose proof (split_wf HO qr_blk x q r Hf Hw Hs) as Hspec.
    split; [exact (ss_wf_q G R _ _ _ _ Hspec)|exact (ss_wf_r G R _ _ _ _ Hspec)].
  Qed.

  Lemma a_svd_inv (x u : arr) (s : vec) (vh : arr) : a_svd G R svd_blk x = Some (u, s, vh) ->
    a_split G R (svd_uv R svd_blk) x = Some (u, vh) /\ s = svd_store G R svd_blk (blocks G R x).
  Proof.
    unfold a_svd. destruct (a_split G R (svd_uv R svd_blk) x) as [[u' vh']|]; [|discriminate].
    intros H. inversion H; subst. split; reflexivity.
  Qed.

  Lemma nodupb_ceqb_intro (l : list (C G)) : NoDup l -> nodupb (ceqb G) l = true.
  Proof. intros H. apply (OrderProofs.nodupb_NoDup (ceqb G) ceqb_spec). exact H. Qed.

  (* svd: both factors valid; the vector of singular values is a valid block vector ON the bond:
     one block per bond charge, block length = bond size *)
  Theorem svd_wf (HO : OrderLaws G) (x u : arr) (s : vec) (vh : arr) :
    svd_shapes R svd_blk -> wf_array G R x = true -> a_svd G R svd_blk x = Some (u, s, vh) ->
    wf_array G R u = true /\ wf_array G R vh = true /\ wf_bvec s = true /\ bvec_on (ix1 G R u) s.
  Proof.
    intros Hf Hw Hs. destruct (a_svd_inv x u s vh Hs) as [Hsp _].
    pose proof (a_split_ndim _ x u vh Hsp) as Hn.
    destruct (svd_structure G HG R (st_trans _ HO) (order_total3 HO) svd_blk Hf x Hw Hn) as (u' & s' & vh' & E & Hspec & Es & Hnd).
    rewrite Hs in E. injection E as Eu Esv Ev. rewrite <- Eu, <- Ev in Hspec. rewrite <- Esv in Es, Hnd.
    pose proof (wf_mat G HG R x Hw Hn) as Hx.
    assert (Hblk : forall sec m, In (sec, m) (blocks G R x) ->
              valid G (col_charge G sec) = true /\
              exists k, 0 < k /\ tshape (svd_s R svd_blk m) = [k] /\ ncols R (fst (svd_uv R svd_blk m)) = k).
    { intros sec m Hin. destruct (mo_blk G R x _ _ Hx sec m Hin) as (c0 & c1 & -> & _ & _ & _ & Hv1 & _ & Hsh & Hlen & Hp0 & Hp1).
      split; [exact Hv1|]. rewrite Hsh in Hlen.
      destruct (Hf m _ _ Hsh Hp0 Hp1 Hlen) as (k & Hk & Hu & Hsv & _).
      exists k. split; [exact Hk|]. split; [exact Hsv|]. unfold ncols. rewrite Hu. reflexivity. }
    split; [exact (ss_wf_q G R _ _ _ _ Hspec)|]. split; [exact (ss_wf_r G R _ _ _ _ Hspec)|]. split.
    - unfold wf_bvec. apply andb_true_iff. split; [apply nodupb_ceqb_intro; exact Hnd|].
      apply forallb_forall. intros [c t] Hin. rewrite Es in Hin. apply in_map_iff in Hin.
      destruct Hin as ([sec m] & Heq & Hin). cbn [fst snd] in Heq. inversion Heq; subst c t. cbn [fst snd].
      destruct (Hblk sec m Hin) as (Hv & k & Hk & Hsv & _). rewrite Hv, Hsv. cbn [andb]. apply Nat.ltb_lt. exact Hk.
    - split.
      + destruct (ss_one_per_block G R _ _ _ _ Hspec) as [Hp _]. rewrite Es, map_map. cbn [fst].
        apply Permutation_sym. unfold sectors in Hp. rewrite map_map in Hp. exact Hp.
      + intros c t Hin. rewrite Es in Hin. apply in_map_iff in Hin.
        destruct Hin as ([sec m] & Heq & Hin). cbn [fst snd] in Heq. inversion Heq; subst c t.
        destruct (Hblk sec m Hin) as (_ & k & _ & Hsv & Hnc).
        rewrite (ss_size G R _ _ _ _ Hspec sec m Hin), Hnc. exact Hsv.
  Qed.

  Lemma square_blocks_spec (x : arr) : square_blocks x = true ->
    forall s m, In (s, m) (blocks G R x) -> nth 0 (tshape m) 0 = nth 1 (tshape m) 0.
  Proof.
    unfold square_blocks. rewrite forallb_forall. intros H s m Hin. specialize (H _ Hin). cbn [snd] in H. now apply Nat.eqb_eq.
  Qed.

  Lemma a_eigh_guard (x : arr) (w : vec) (v : arr) : a_eigh G R eigh_blk x = Some (w, v) ->
    ndim G R x = 2 /\ charge G R x = ident G.
  Proof.
    unfold a_eigh. destruct (Nat.eqb (ndim G R x) 2 && ceqb G (charge G R x) (ident G)) eqn:E; [|discriminate].
    intros _. apply andb_true_iff in E. destruct E as [E1 E2]. split; [now apply Nat.eqb_eq|now apply ceqb_spec].
  Qed.

  Theorem eigh_wf (x : arr) (w : vec) (v : arr) :
    eigh_shapes R eigh_blk -> wf_array G R x = true -> square_blocks x = true ->
    a_eigh G R eigh_blk x = Some (w, v) ->
    wf_array G R v = true /\ wf_bvec w = true /\
    forall c t, In (c, t) w -> In c (icharges G (ix1 G R x)) /\ tshape t = [size_of G (ix1 G R x) c].
  Proof.
    intros Hf Hw Hsq He. destruct (a_eigh_guard x w v He) as [Hn Hq].
    destruct (eigh_structure G HG R eigh_blk x Hw Hn Hq (square_blocks_spec x Hsq) Hf)
      as (w' & v' & E & _ & _ & _ & _ & Ew & Hnd & Hsh & Hwf).
    rewrite He in E. injection E as Ew' Ev'. rewrite <- Ew' in Ew, Hnd. rewrite <- Ev' in Hwf.
    pose proof (wf_mat G HG R x Hw Hn) as Hx.
    assert (Hent : forall c t, In (c, t) w -> valid G c = true /\ In c (icharges G (ix1 G R x)) /\
                                   0 < size_of G (ix1 G R x) c /\ tshape t = [size_of G (ix1 G R x) c]).
    { intros c t Hin. rewrite Ew in Hin. apply in_map_iff in Hin. destruct Hin as ([sec m] & Heq & Hin).
      cbn [fst snd] in Heq. inversion Heq; subst c t.
      destruct (mo_blk G R x _ _ Hx sec m Hin) as (c0 & c1 & Hsec & _ & Hin1 & _ & Hv1 & _ & _ & _ & _ & Hp1).
      rewrite (Hsh sec m Hin). subst sec. unfold col_charge. cbn [nth]. now repeat split. }
    split; [exact Hwf|]. split.
    - unfold wf_bvec. apply andb_true_iff. split; [apply nodupb_ceqb_intro; exact Hnd|].
      apply forallb_forall. intros [c t] Hin. cbn [fst snd]. destruct (Hent c t Hin) as (Hv & _ & Hp & Hs).
      rewrite Hv, Hs. cbn [andb]. apply Nat.ltb_lt. exact Hp.
    - intros c t Hin. destruct (Hent c t Hin) as (_ & H1 & _ & H2). now split.
  Qed.

  Lemma a_solve_guard (a b x : arr) : a_solve G R solve_blk a b = Some x -> ndim G R a = 2 /\ ndim G R b = 1.
  Proof.
    unfold a_solve. destruct (Nat.eqb (ndim G R a) 2 && Nat.eqb (ndim G R b) 1) eqn:E; [|discriminate].
    intros _. apply andb_true_iff in E. destruct E as [E1 E2]. split; now apply Nat.eqb_eq.
  Qed.

  Theorem solve_wf3 (a b x : arr) :
    solve_shapes R solve_blk -> wf_array G R a = true -> wf_array G R b = true -> solve_ok a b = true ->
    a_solve G R solve_blk a b = Some x ->
    wf_array G R x = true /\ charge G R x = combine G [charge G R b; sign G (charge G R a) true].
  Proof.
    intros Hf Hwa Hwb Hok Hs. destruct (a_solve_guard a b x Hs) as [Hna Hnb].
    pose proof (wf_mat G HG R a Hwa Hna) as Ha. pose proof (wf_vec G HG R b Hwb Hnb) as Hb.
    unfold solve_ok in Hok. cbv zeta in Hok. apply andb_true_iff in Hok. destruct Hok as [Hok Hsq].
    apply andb_true_iff in Hok. destruct Hok as [Hcm Hd].
    apply (Tdot.list_eqb_spec _ (pair_cn_eqb_spec G HG)) in Hcm. apply eqb_prop in Hd.
    rewrite (a_solve_eq G HG R solve_blk a b _ _ _ Ha Hb) in Hs. inversion Hs; subst x. split.
    - apply (LinalgProofs.solve_wf G HG R solve_blk a b _ _ _ Ha Hb Hcm Hd (square_blocks_spec a Hsq) Hf).
      apply wf_index_iconj. exact (mo_wf1 G R a _ _ Ha).
    - reflexivity.
  Qed.

  Lemma counts_okb_spec (x : arr) counts : counts_okb x counts = true -> counts_ok G R svd_blk x counts.
  Proof.
    unfold counts_okb, counts_ok. rewrite andb_true_iff, Nat.eqb_eq, forallb_forall. intros [H1 H2]. split; [exact H1|].
    intros sb n Hin. specialize (H2 _ Hin). cbn [fst snd] in H2. now apply Nat.leb_le.
  Qed.

  Lemma a_svd_truncated_ndim (x : arr) counts mode y : a_svd_truncated G R svd_blk sqrt_blk x counts mode = Some y -> ndim G R x = 2.
  Proof.
    unfold a_svd_truncated, a_svd. destruct (a_split G R (svd_uv R svd_blk) x) as [[u vh]|] eqn:E; [|discriminate].
    intros _. exact (a_split_ndim _ x u vh E).
  Qed.

  Lemma trunc_s_wf (b : index G) (U' : arr) (S' : vec) :
    wf_index G b = true -> trunc_s_spec G R b U' S' -> wf_bvec S' = true /\ bvec_on b S'.
  Proof.
    intros Hb (Hk & Hnd & Hperm & Hsh). split; [|split; assumption].
    unfold wf_bvec. apply andb_true_iff. split; [apply nodupb_ceqb_intro; exact Hnd|].
    apply forallb_forall. intros [c t] Hin. cbn [fst snd].
    assert (Hc : In c (icharges G b)).
    { apply (Permutation_in _ Hperm). apply in_map_iff. exists (c, t). now split. }
    destruct (wf_index_entry G HG b c Hb Hc) as [Hv Hp]. rewrite Hv, (Hsh c t Hin). cbn [andb]. now apply Nat.ltb_lt.
  Qed.

  (* svd_truncated: in every absorb mode both factors are valid; with absorb=None the kept
     values form a valid block vector on the rebuilt bond *)
  Theorem trunc_wf (HO : OrderLaws G) (x : arr) counts mode (u : arr) (os : option vec) (vh : arr) :
    svd_shapes R svd_blk -> wf_array G R x = true -> counts_okb x counts = true ->
    a_svd_truncated G R svd_blk sqrt_blk x counts mode = Some (u, os, vh) ->
    wf_array G R u = true /\ wf_array G R vh = true /\
    match os with Some s => mode = None /\ wf_bvec s = true /\ bvec_on (ix1 G R u) s | None => mode <> None end.
  Proof.
    intros Hf Hw Hc Hs. pose proof (a_svd_truncated_ndim x counts mode _ Hs) as Hn.
    destruct (truncated_wf G HG R (st_irrefl _ HO) (st_trans _ HO) (order_total3 HO) svd_blk Hf sqrt_blk x counts Hw Hn
                (counts_okb_spec x counts Hc)) as (b & U' & S' & VH' & E0 & W0 & S0 & Em).
    destruct mode as [m|].
    - destruct (Em m) as (U'' & VH'' & E & W). rewrite Hs in E. inversion E; subst u os vh.
      destruct W as (W1 & W2 & _). split; [exact W1|]. split; [exact W2|discriminate].
    - rewrite Hs in E0. inversion E0; subst u os vh.
      destruct W0 as (W1 & W2 & Hix & _). split; [exact W1|]. split; [exact W2|].
      split; [reflexivity|].
      assert (Hb : wf_index G b = true).
      { apply wf_array_iff in W1; [|exact HG]. destruct W1 as [Hixs _ _ _]. rewrite Hix in Hixs.
        inversion Hixs as [|? ? _ Hr]; subst. inversion Hr; subst. assumption. }
      assert (E1 : ix1 G R U' = b) by (unfold ix1; rewrite Hix; reflexivity).
      rewrite E1. exact (trunc_s_wf b U' S' Hb S0).
  Qed.

  (* ---- fermionic decompositions ---- *)
  Notation WF := (WF G R).
  Notation WFF := (WFF G R).
  Notation PhOK := (PhOK G).

  Lemma phases_stored_spec (x : farr) : phases_stored x = true -> forall s, In s (fphases G R x) -> In s (fsectors G R x).
  Proof.
    unfold phases_stored. rewrite forallb_forall. intros H s Hs. apply (OrderProofs.mem_In keq (keqE G HG)). apply H. exact Hs.
  Qed.

  Lemma plain_wf (b : arr) : wf_array G R b = true -> parity G (charge G R b) = false -> wf_fermi G R (mkF G R b [] []) = true.
  Proof.
    intros Hb Hp. apply (wf_fermi_iff G HG). constructor; cbn [fbase fphases foddpos].
    - apply (wf_array_iff G HG). exact Hb.
    - apply PhOK_nil.
    - unfold fparity. cbn [fbase length]. rewrite Hp. reflexivity.
  Qed.

  Lemma flip0_if_dual_wf (y : farr) : wf_fermi G R y = true -> wf_fermi G R (flip0_if_dual G R y) = true.
  Proof. intros Hy. unfold flip0_if_dual. destruct (idual G _); [apply (f_phase_flip_wf G HG)|]; exact Hy. Qed.

  (* the left factor keeps x's pending signs and labels: valid when every pending sign of x
     sits on a stored sector (its column charge is then in the bond table); the right factor
     is a fresh array, flipped on axis 0 when that axis is dual *)
  Theorem f_split_wf (HO : OrderLaws G) f (x q r : farr) :
    split_shapes R f -> wf_fermi G R x = true -> phases_stored x = true ->
    f_split G R f x = Some (q, r) -> wf_fermi G R q = true /\ wf_fermi G R r = true.
  Proof.
    intros Hf Hx Hps Hs. unfold f_split in Hs.
    destruct (a_split G R f (fbase G R x)) as [[q0 r0]|] eqn:E; [|discriminate]. inversion Hs; subst q r. clear Hs.
    pose proof (WFF_base_wf G HG R x Hx) as Hb.
    pose proof (split_wf HO f _ q0 r0 Hf Hb E) as Hspec.
    apply (wf_fermi_iff G HG) in Hx. destruct Hx as [_ [Hnd Hph] Hpar]. split.
    - apply (wf_fermi_iff G HG). constructor; cbn [fbase fphases foddpos].
      + apply (wf_array_iff G HG). exact (ss_wf_q G R _ _ _ _ Hspec).
      + split; [exact Hnd|]. intros s Hs.
        pose proof (phases_stored_spec x Hps s Hs) as Hin. unfold fsectors in Hin.
        rewrite <- (ss_sectors_q G R _ _ _ _ Hspec) in Hin. unfold sectors in Hin. apply in_map_iff in Hin.
        destruct Hin as ([s' t] & Heq & Hin). cbn [fst] in Heq. subst s'.
        pose proof (ss_wf_q G R _ _ _ _ Hspec) as Hq. apply (wf_array_iff G HG) in Hq.
        destruct (wf_bl _ _ _ _ _ Hq s t Hin) as [Hsec _]. exact Hsec.
      + unfold fparity in *. cbn [fbase]. rewrite (ss_charge_q G R _ _ _ _ Hspec). exact Hpar.
    - apply flip0_if_dual_wf. apply plain_wf; [exact (ss_wf_r G R _ _ _ _ Hspec)|].
      rewrite (ss_charge_r G R _ _ _ _ Hspec). apply (parity_ident G HG).
  Qed.

  Theorem f_qr_wf (HO : OrderLaws G) (x q r : farr) :
    split_shapes R qr_blk -> wf_fermi G R x = true -> phases_stored x = true ->
    f_qr G R qr_blk x = Some (q, r) -> wf_fermi G R q = true /\ wf_fermi G R r = true.
  Proof. apply (f_split_wf HO). Qed.

  Theorem f_svd_wf (HO : OrderLaws G) (x u : farr) (s : vec) (vh : farr) :
    svd_shapes R svd_blk -> wf_fermi G R x = true -> phases_stored x = true ->
    f_svd G R svd_blk x = Some (u, s, vh) ->
    wf_fermi G R u = true /\ wf_fermi G R vh = true /\ wf_bvec s = true /\ bvec_on (ix1 G R (fbase G R u)) s.
  Proof.
    intros Hf Hx Hps Hs. unfold f_svd in Hs.
    destruct (f_split G R (svd_uv R svd_blk) x) as [[u' vh']|] eqn:E; [|discriminate]. inversion Hs; subst u' s vh'. clear Hs.
    destruct (f_split_wf HO _ x u vh (svd_uv_shapes R svd_blk Hf) Hx Hps E) as [Wu Wv].
    split; [exact Wu|]. split; [exact Wv|].
    unfold f_split in E. destruct (a_split G R (svd_uv R svd_blk) (fbase G R x)) as [[u0 vh0]|] eqn:E0; [|discriminate].
    assert (Es : a_svd G R svd_blk (fbase G R x) = Some (u0, svd_store G R svd_blk (blocks G R (fbase G R x)), vh0)).
    { unfold a_svd. rewrite E0. reflexivity. }
    destruct (svd_wf HO _ _ _ _ Hf (WFF_base_wf G HG R x Hx) Es) as (_ & _ & Hs1 & Hs2).
    inversion E; subst u. cbn [fbase]. split; assumption.
  Qed.

  (* eigh of a fermionic matrix works on the phase-synced array; the eigenvector array has no
     pending signs and keeps the labels *)
  Theorem f_eigh_wf (x : farr) (w : vec) (v : farr) :
    eigh_shapes R eigh_blk -> wf_fermi G R x = true -> square_blocks (fbase G R (f_phase_sync G R x)) = true ->
    f_eigh G R eigh_blk x = Some (w, v) -> wf_fermi G R v = true /\ wf_bvec w = true.
  Proof.
    intros Hf Hx Hsq Hs. unfold f_eigh in Hs. cbv zeta in Hs.
    pose proof (f_phase_sync_wf G HG R x Hx) as Hx1. pose proof (WFF_base_wf G HG R _ Hx1) as Hb1.
    destruct (a_eigh G R eigh_blk (fbase G R (f_phase_sync G R x))) as [[w0 v0]|] eqn:E; [|discriminate].
    destruct (eigh_wf _ w0 v0 Hf Hb1 Hsq E) as (Wv & Ww & _).
    destruct (a_eigh_guard _ w0 v0 E) as [_ Hq].
    assert (Ev : charge G R v0 = charge G R (fbase G R x)).
    { unfold a_eigh in E. destruct (_ && _) in E; [|discriminate]. inversion E. reflexivity. }
    inversion Hs; subst w v. clear Hs. split.
    - apply (wf_fermi_iff G HG). constructor; cbn [fbase fphases foddpos].
      + apply (wf_array_iff G HG). exact Wv.
      + apply PhOK_nil.
      + apply (wf_fermi_iff G HG) in Hx. destruct Hx as [_ _ Hpar]. unfold fparity in *. cbn [fbase]. rewrite Ev. exact Hpar.
    - destruct (negb (idual G _)); [|exact Ww].
      unfold wf_bvec in *. apply andb_true_iff in Ww. destruct Ww as [W1 W2]. apply andb_true_iff. split.
      + rewrite map_map. erewrite map_ext; [exact W1|]. intros [c t]. cbn [fst]. destruct (parity G c); reflexivity.
      + apply forallb_forall. intros ct Hin. apply in_map_iff in Hin. destruct Hin as ([c t] & <- & Hin).
        rewrite forallb_forall in W2. specialize (W2 _ Hin). cbn [fst snd] in *. destruct (parity G c); exact W2.
  Qed.

  (* solve of a fermionic system works on the phase-synced operands; the solution keeps b's
     labels, so its label count has the parity of its charge exactly when the matrix is even
     (odd matrices: known finding F16) *)
  Theorem f_solve_wf (a b x : farr) :
    solve_shapes R solve_blk -> wf_fermi G R a = true -> wf_fermi G R b = true ->
    solve_ok (fbase G R (f_phase_sync G R a)) (fbase G R (f_phase_sync G R b)) = true -> fparity G R a = false ->
    f_solve G R solve_blk a b = Some x -> wf_fermi G R x = true.
  Proof.
    intros Hf Ha Hb Hok Hpa Hs. unfold f_solve in Hs. cbv zeta in Hs.
    pose proof (WFF_base_wf G HG R _ (f_phase_sync_wf G HG R a Ha)) as Wa.
    pose proof (WFF_base_wf G HG R _ (f_phase_sync_wf G HG R b Hb)) as Wb.
    destruct (a_solve G R solve_blk _ _) as [x0|] eqn:E; [|discriminate]. inversion Hs; subst x. clear Hs.
    destruct (solve_wf3 _ _ x0 Hf Wa Wb Hok E) as [Wx Hq].
    apply flip0_if_dual_wf. apply (wf_fermi_iff G HG). constructor; cbn [fbase fphases foddpos].
    - apply (wf_array_iff G HG). exact Wx.
    - apply PhOK_nil.
    - apply (wf_fermi_iff G HG) in Ha. apply (wf_fermi_iff G HG) in Hb.
      destruct Ha as [[_ Hva _ _] _ _]. destruct Hb as [[_ Hvb _ _] _ Hparb].
      unfold fparity in *. cbn [fbase]. rewrite Hq.
      change (charge G R (fbase G R (f_phase_sync G R b))) with (charge G R (fbase G R b)).
      change (charge G R (fbase G R (f_phase_sync G R a))) with (charge G R (fbase G R a)).
      change (combine G [charge G R (fbase G R b); sign G (charge G R (fbase G R a)) true])
        with (gadd G (charge G R (fbase G R b)) (gneg G (charge G R (fbase G R a)))).
      rewrite (parity_gadd G HG); [|exact Hvb|apply (gneg_valid G HG); exact Hva].
      rewrite (parity_gneg G HG), Hpa, xorb_false_r; [exact Hparb|exact Hva].
  Qed.

  (* ---------------------------------------------------------------- *)
  (* programs *)

  Lemma wf_state3_intro (ya : list arr) (yf : list farr) (yv : list vec) :
    Forall (fun x => wf_array G R x = true) ya -> Forall (fun x => wf_fermi G R x = true) yf ->
    Forall (fun v => wf_bvec v = true) yv -> wf_state3 ((ya, yf), yv).
  Proof. intros H1 H2 H3. split; [split|]; assumption. Qed.

  Theorem results3_wf (HO : OrderLaws G) (HL : lapack_shapes) st i ys :
    wf_state3 st -> results3 st i = Some ys -> wf_state3 ys.
  Proof.
    destruct st as [[ra rf] rv]. intros [Hst Hv]. pose proof Hst as [Ha Hf]. cbn [fst snd] in Ha, Hf, Hv.
    destruct HL as [Lqr Lsvd Leigh Lsolve].
    assert (GA : forall r x, nth_error ra r = Some x -> wf_array G R x = true).
    { intros r x E. rewrite Forall_forall in Ha. apply Ha. apply (nth_error_In _ _ E). }
    assert (GF : forall r x, nth_error rf r = Some x -> wf_fermi G R x = true).
    { intros r x E. rewrite Forall_forall in Hf. apply Hf. apply (nth_error_In _ _ E). }
    destruct i; cbn [results3]; unfold out3.
    - destruct (results2 G R (ra, rf) i) as [ys2|] eqn:E; [|discriminate]. intros H; inversion H; subst ys.
      split; cbn [fst snd]; [|constructor]. exact (results2_wf G HG R HO (ra, rf) i ys2 Hst E).
    - destruct (nth_error ra r) as [x|] eqn:E; [|discriminate].
      destruct (a_qr G R qr_blk x) as [[q rr]|] eqn:Eq; [|discriminate]. intros H; inversion H; subst ys.
      destruct (qr_wf HO x q rr Lqr (GA _ _ E) Eq) as [W1 W2]. apply wf_state3_intro; repeat constructor; assumption.
    - destruct (nth_error ra r) as [x|] eqn:E; [|discriminate].
      destruct (a_svd G R svd_blk x) as [[[u s] vh]|] eqn:Eq; [|discriminate]. intros H; inversion H; subst ys.
      destruct (svd_wf HO x u s vh Lsvd (GA _ _ E) Eq) as (W1 & W2 & W3 & _). apply wf_state3_intro; repeat constructor; assumption.
    - destruct (nth_error ra r) as [x|] eqn:E; [|discriminate].
      destruct (square_blocks x) eqn:Esq; [|discriminate].
      destruct (a_eigh G R eigh_blk x) as [[w v]|] eqn:Eq; [|discriminate]. intros H; inversion H; subst ys.
      destruct (eigh_wf x w v Leigh (GA _ _ E) Esq Eq) as (W1 & W2 & _). apply wf_state3_intro; repeat constructor; assumption.
    - destruct (nth_error ra ra0) as [a|] eqn:E1; [|discriminate].
      destruct (nth_error ra rb) as [b|] eqn:E2; [|discriminate].
      destruct (solve_ok a b) eqn:Eok; [|discriminate].
      destruct (a_solve G R solve_blk a b) as [x|] eqn:Eq; [|discriminate]. intros H; inversion H; subst ys.
      destruct (solve_wf3 a b x Lsolve (GA _ _ E1) (GA _ _ E2) Eok Eq) as [W1 _]. apply wf_state3_intro; repeat constructor; assumption.
    - destruct (nth_error ra r) as [x|] eqn:E; [|discriminate].
      destruct (counts_okb x counts) eqn:Ec; [|discriminate].
      destruct (a_svd_truncated G R svd_blk sqrt_blk x counts mode) as [[[u os] vh]|] eqn:Eq; [|discriminate].
      destruct (trunc_wf HO x counts mode u os vh Lsvd (GA _ _ E) Ec Eq) as (W1 & W2 & W3).
      destruct os as [s|]; intros H; inversion H; subst ys.
      + destruct W3 as (_ & W3 & _). apply wf_state3_intro; repeat constructor; assumption.
      + apply wf_state3_intro; repeat constructor; assumption.
    - destruct (nth_error ra r) as [x|] eqn:E; [|discriminate].
      destruct (nth_error rv v) as [w|] eqn:E2; [|discriminate]. intros H; inversion H; subst ys.
      apply wf_state3_intro; repeat constructor. apply (multiply_diagonal_wf G HG). apply (GA _ _ E).
    - destruct (nth_error rf r) as [x|] eqn:E; [|discriminate].
      destruct (phases_stored x) eqn:Ep; [|discriminate].
      destruct (f_qr G R qr_blk x) as [[q rr]|] eqn:Eq; [|discriminate]. intros H; inversion H; subst ys.
      destruct (f_qr_wf HO x q rr Lqr (GF _ _ E) Ep Eq) as [W1 W2]. apply wf_state3_intro; repeat constructor; assumption.
    - destruct (nth_error rf r) as [x|] eqn:E; [|discriminate].
      destruct (phases_stored x) eqn:Ep; [|discriminate].
      destruct (f_svd G R svd_blk x) as [[[u s] vh]|] eqn:Eq; [|discriminate]. intros H; inversion H; subst ys.
      destruct (f_svd_wf HO x u s vh Lsvd (GF _ _ E) Ep Eq) as (W1 & W2 & W3 & _). apply wf_state3_intro; repeat constructor; assumption.
    - destruct (nth_error rf r) as [x|] eqn:E; [|discriminate].
      destruct (square_blocks _) eqn:Esq; [|discriminate].
      destruct (f_eigh G R eigh_blk x) as [[w v]|] eqn:Eq; [|discriminate]. intros H; inversion H; subst ys.
      destruct (f_eigh_wf x w v Leigh (GF _ _ E) Esq Eq) as (W1 & W2). apply wf_state3_intro; repeat constructor; assumption.
    - destruct (nth_error rf ra0) as [a|] eqn:E1; [|discriminate].
      destruct (nth_error rf rb) as [b|] eqn:E2; [|discriminate].
      destruct (solve_ok _ _ && negb (fparity G R a)) eqn:Eok; [|discriminate].
      apply andb_true_iff in Eok. destruct Eok as [Eok Epar]. apply negb_true_iff in Epar.
      destruct (f_solve G R solve_blk a b) as [x|] eqn:Eq; [|discriminate]. intros H; inversion H; subst ys.
      pose proof (f_solve_wf a b x Lsolve (GF _ _ E1) (GF _ _ E2) Eok Epar Eq) as W1.
      apply wf_state3_intro; repeat constructor; assumption.
  Qed.

  Theorem step3_wf (HO : OrderLaws G) (HL : lapack_shapes) st i st' :
    wf_state3 st -> step3 st i = Some st' -> wf_state3 st'.
  Proof.
    intros Hw Hs. unfold step3 in Hs. destruct (results3 st i) as [[[ya yf] yv]|] eqn:E; [|discriminate Hs].
    inversion Hs; subst st'. destruct (results3_wf HO HL st i _ Hw E) as [[Wa Wf] Wv]. destruct Hw as [[Ha Hf] Hv].
    cbn [fst snd] in *. split; [split|]; cbn [fst snd]; apply Forall_app; split; assumption.
  Qed.

  (* for every finite program over the instruction set WITH the decompositions: all
     registers (abelian arrays, fermionic arrays, block vectors) valid before => valid after *)
  Theorem programs_wf3 (HO : OrderLaws G) (HL : lapack_shapes) (prog : list instr3) : forall st st',
    wf_state3 st -> run3 prog st = Some st' -> wf_state3 st'.
  Proof.
    induction prog as [|i prog IH]; intros st st' Hw Hr; cbn [run3] in Hr.
    - inversion Hr; subst st'. exact Hw.
    - destruct (step3 st i) as [st1|] eqn:E; [|discriminate Hr].
      apply (IH st1 st'); [apply (step3_wf HO HL st i st1 Hw E)|exact Hr].
  Qed.

  (* ... and every array register passes the audited predicate of Model/Valid.v *)
  Theorem programs_valid3 (HO : OrderLaws G) (HL : lapack_shapes) (prog : list instr3) (st st' : state3) :
    wf_state3 st -> run3 prog st = Some st' -> valid_state3 st'.
  Proof.
    intros Hw Hr. destruct (programs_wf3 HO HL prog st st' Hw Hr) as [[Ha Hf] Hv]. split; [split|exact Hv].
    - eapply Forall_impl; [|exact Ha]. intros x. apply (wf_valid_array G HG R HO).
    - eapply Forall_impl; [|exact Hf]. intros x. apply (wf_valid_farray G HG R HO).
  Qed.

  (* every INTERMEDIATE state is valid too: the states a program runs through *)
  Fixpoint trace3 (prog : list instr3) (st : state3) : list state3 :=
    st :: match prog with
          | [] => []
          | i :: prog' => match step3 st i with Some st' => trace3 prog' st' | None => [] end
          end.

  Theorem programs_trace_wf3 (HO : OrderLaws G) (HL : lapack_shapes) (prog : list instr3) : forall st,
    wf_state3 st -> Forall wf_state3 (trace3 prog st).
  Proof.
    induction prog as [|i prog IH]; intros st Hw; cbn [trace3]; constructor; try exact Hw; try constructor.
    destruct (step3 st i) as [st1|] eqn:E; [|constructor]. apply IH. apply (step3_wf HO HL st i st1 Hw E).
  Qed.
  (* the decomposition instructions do run on valid matrices (the conclusion of the program
     theorems is not vacuous): qr and svd of ANY valid rank-2 register succeed *)
  Theorem step3_qr_runs (HO : OrderLaws G) (HL : lapack_shapes) (st : state3) r x :
    wf_state3 st -> nth_error (fst (fst st)) r = Some x -> ndim G R x = 2 ->
    exists q rr, step3 st (IQr r) = Some ((fst (fst st) ++ [q; rr], snd (fst st) ++ []), snd st ++ []).
  Proof.
    destruct st as [[ra rf] rv]. cbn [fst snd]. intros [[Ha _] _] E Hn. cbn [fst] in Ha.
    assert (Hw : wf_array G R x = true) by (rewrite Forall_forall in Ha; apply Ha; apply (nth_error_In _ _ E)).
    destruct (qr_structure G HG R (st_trans _ HO) (order_total3 HO) qr_blk (ls_qr HL) x Hw Hn) as (q & rr & Eq & _).
    exists q, rr. unfold step3. cbn [results3 fst snd]. rewrite E, Eq. reflexivity.
  Qed.

  Theorem step3_svd_runs (HO : OrderLaws G) (HL : lapack_shapes) (st : state3) r x :
    wf_state3 st -> nth_error (fst (fst st)) r = Some x -> ndim G R x = 2 ->
    exists u s vh, step3 st (ISvd r) = Some ((fst (fst st) ++ [u; vh], snd (fst st) ++ []), snd st ++ [s]).
  Proof.
    destruct st as [[ra rf] rv]. cbn [fst snd]. intros [[Ha _] _] E Hn. cbn [fst] in Ha.
    assert (Hw : wf_array G R x = true) by (rewrite Forall_forall in Ha; apply Ha; apply (nth_error_In _ _ E)).
    destruct (svd_structure G HG R (st_trans _ HO) (order_total3 HO) svd_blk (ls_svd HL) x Hw Hn) as (u & s & vh & Eq & _).
    exists u, s, vh. unfold step3. cbn [results3 fst snd]. rewrite E, Eq. reflexivity.
  Qed.
End Wf3.

(* ------------------------------------------------------------------ *)
(* §4 the shape contracts are satisfiable, over any ring: the shape-only stand-ins of
   Model/Linalg.v (zero factors of numpy's reduced shapes, inner dimension min(rows, columns)) *)
Section StubsOK.
  Context (R : Ring).

  Lemma tzeros_facts sh : tshape (tzeros R sh) = sh /\ length (tdata (tzeros R sh)) = shape_size sh.
  Proof. unfold tzeros, build. cbn [tshape tdata]. split; [reflexivity|]. now rewrite map_length, length_all_idx. Qed.

  Theorem stubs_lapack_shapes : lapack_shapes R (qr_stub R) (svd_stub R) (eigh_stub R) (solve_stub R).
  Proof.
    constructor.
    - intros m a b Hm Ha Hb Hl. exists (Nat.min a b). unfold qr_stub, sh0, sh1. cbv zeta. cbn [fst snd]. rewrite Hm. cbn [nth].
      destruct (tzeros_facts [a; Nat.min a b]) as [E1 E2]. destruct (tzeros_facts [Nat.min a b; b]) as [E3 E4].
      repeat split; try assumption. lia.
    - intros m a b Hm Ha Hb Hl. exists (Nat.min a b). unfold svd_uv, svd_s, svd_stub, sh0, sh1. cbv zeta. cbn [fst snd]. rewrite Hm. cbn [nth].
      destruct (tzeros_facts [a; Nat.min a b]) as [E1 E2]. destruct (tzeros_facts [Nat.min a b; b]) as [E3 E4].
      destruct (tzeros_facts [Nat.min a b]) as [E5 _].
      repeat split; try assumption. lia.
    - intros m n Hm Hl. unfold eigh_stub, sh0, sh1, tones. cbn [fst snd]. rewrite Hm. cbn [nth].
      destruct (tzeros_facts [n; n]) as [E1 E2]. repeat split; assumption.
    - intros m bb n Hm Hb Hn. unfold solve_stub, sh1. rewrite Hm. cbn [nth]. apply tzeros_facts.
  Qed.
End StubsOK.

(* the five built-in symmetries (generated definitions), any ring, any dense routines with the
   shape contracts: nothing else is assumed but validity of the initial registers *)
Theorem programs_wf3_builtin (G : Symmetry) (R : Ring) qr_blk svd_blk eigh_blk solve_blk sqrt_blk
  (prog : list (instr3 G R)) (st st' : state3 G R) :
  builtin_sym G -> lapack_shapes R qr_blk svd_blk eigh_blk solve_blk -> wf_state3 G R st ->
  run3 G R qr_blk svd_blk eigh_blk solve_blk sqrt_blk prog st = Some st' -> wf_state3 G R st'.
Proof.
  intros HB HL. destruct HB.
  - apply (programs_wf3 Z2 Z2_laws R _ _ _ _ _ Z2_order HL).
  - apply (programs_wf3 Z4 Z4_laws R _ _ _ _ _ Z4_order HL).
  - apply (programs_wf3 U1 U1_laws R _ _ _ _ _ U1_order HL).
  - apply (programs_wf3 Z2Z2 Z2Z2_laws R _ _ _ _ _ Z2Z2_order HL).
  - apply (programs_wf3 U1U1 U1U1_laws R _ _ _ _ _ U1U1_order HL).
Qed.

Theorem programs_valid3_builtin (G : Symmetry) (R : Ring) qr_blk svd_blk eigh_blk solve_blk sqrt_blk
  (prog : list (instr3 G R)) (st st' : state3 G R) :
  builtin_sym G -> lapack_shapes R qr_blk svd_blk eigh_blk solve_blk -> wf_state3 G R st ->
  run3 G R qr_blk svd_blk eigh_blk solve_blk sqrt_blk prog st = Some st' -> valid_state3 G R st'.
Proof.
  intros HB HL. destruct HB.
  - apply (programs_valid3 Z2 Z2_laws R _ _ _ _ _ Z2_order HL).
  - apply (programs_valid3 Z4 Z4_laws R _ _ _ _ _ Z4_order HL).
  - apply (programs_valid3 U1 U1_laws R _ _ _ _ _ U1_order HL).
  - apply (programs_valid3 Z2Z2 Z2Z2_laws R _ _ _ _ _ Z2Z2_order HL).
  - apply (programs_valid3 U1U1 U1U1_laws R _ _ _ _ _ U1U1_order HL).
Qed.

(* ------------------------------------------------------------------ *)
(* §4b the fermionic left factor WITHOUT the side condition `phases_stored`: it passes the
   audited predicate `Valid.valid_farray` (pending-sign keys are charge-conserving sectors of
   the right rank) although it need not satisfy the stronger invariant `wf_fermi` (a key's
   column charge need not be in the pruned bond table) — see `f_qr_wf_unguarded_false` *)
Section FermiSplitValid.
  Context (G : Symmetry) (HG : GroupLaws G) (R : Ring) (HO : OrderLaws G).
  Notation keq := (list_eqb (ceqb G)).

  Theorem f_split_valid f (x q r : farray G R) :
    split_shapes R f -> wf_fermi G R x = true -> f_split G R f x = Some (q, r) ->
    valid_farray G R q (fphases G R q) = true /\ wf_fermi G R r = true.
  Proof.
    intros Hf Hx Hs. unfold f_split in Hs.
    destruct (a_split G R f (fbase G R x)) as [[q0 r0]|] eqn:E; [|discriminate]. inversion Hs; subst q r. clear Hs.
    pose proof (WFF_base_wf G HG R x Hx) as Hb.
    pose proof (split_wf G HG R HO f _ q0 r0 Hf Hb E) as Hspec.
    pose proof (a_split_ndim G R f _ q0 r0 E) as Hn.
    split.
    - (* the same array without pending signs is wf_fermi, hence valid *)
      assert (Hq' : wf_fermi G R (mkF G R q0 [] (foddpos G R x)) = true).
      { apply (wf_fermi_iff G HG). constructor; cbn [fbase fphases foddpos].
        - apply (wf_array_iff G HG). exact (ss_wf_q G R _ _ _ _ Hspec).
        - apply PhOK_nil.
        - apply (wf_fermi_iff G HG) in Hx. destruct Hx as [_ _ Hpar]. unfold fparity in *. cbn [fbase].
          rewrite (ss_charge_q G R _ _ _ _ Hspec). exact Hpar. }
      pose proof (wf_valid_farray G HG R HO _ Hq') as Hv. unfold valid_farray in *. cbn [fbase fphases foddpos] in *.
      rewrite !andb_true_iff in Hv. destruct Hv as [[[V1 _] _] V4].
      unfold fparity in *. cbn [fbase] in *. rewrite V1, V4. cbn [andb]. rewrite andb_true_r.
      apply (wf_fermi_iff G HG) in Hx. destruct Hx as [_ [Hnd Hph] _].
      apply andb_true_iff. split; [apply (OrderProofs.nodupb_NoDup keq (keqE G HG)); exact Hnd|].
      apply forallb_forall. intros s Hs. destruct (Hph s Hs) as (Hl & _ & Hc).
      destruct (ss_ndim G R _ _ _ _ Hspec) as [Hnq _]. unfold ndim in Hn, Hnq.
      rewrite Hnq, <- Hn, Hl, Nat.eqb_refl. cbn [andb]. unfold is_valid_sector. apply (ceqb_eq G HG).
      rewrite (ss_charge_q G R _ _ _ _ Hspec), <- Hc. f_equal. f_equal.
      pose proof (ss_first G R _ _ _ _ Hspec) as H0. pose proof (ss_dual_q G R _ _ _ _ Hspec) as H1.
      unfold ix0, ix1 in H0, H1.
      destruct (indices G R q0) as [|a [|b [|? ?]]]; try discriminate.
      destruct (indices G R (fbase G R x)) as [|a' [|b' [|? ?]]]; try discriminate.
      cbn [nth] in H0, H1. cbn [map]. rewrite H0, H1. reflexivity.
    - apply (flip0_if_dual_wf G HG). apply (plain_wf G HG); [exact (ss_wf_r G R _ _ _ _ Hspec)|].
      rewrite (ss_charge_r G R _ _ _ _ Hspec). apply (parity_ident G HG).
  Qed.
End FermiSplitValid.

(* the unguarded fermionic statements: what a full treatment of fermionic decompositions
   inside programs would need *)
Definition fermi_decomp_full_stmt : Prop :=
  forall (G : Symmetry) (HG : GroupLaws G) (R : Ring) (HO : OrderLaws G)
         (f : tensor R -> tensor R * tensor R) (x q r : farray G R),
    split_shapes R f -> wf_fermi G R x = true -> f_split G R f x = Some (q, r) ->
    wf_fermi G R q = true /\ wf_fermi G R r = true.

(* ------------------------------------------------------------------ *)
(* §5 Examples: the hypotheses hold on concrete non-trivial instances *)
Section Examples3.
  Import LinalgEx.
  Local Open Scope Z_scope.

  (* exact per-block routines over the integers (LinalgProofs.LinalgEx):
     qr m = (m, I), svd m = (m, ones, I), eigh m = (ones, I), solve m b = b *)
  Example eigh_ex_shapes : eigh_shapes ZRing eigh_ex.
  Proof.
    intros m n Hm Hl. unfold eigh_ex, sh1, tones, build. cbn [fst snd tshape]. rewrite Hm. cbn [nth].
    destruct (eye_facts n) as [E1 E2]. repeat split; assumption.
  Qed.

  Example ex_lapack_shapes : lapack_shapes ZRing qr_ex svd_ex eigh_ex solve_ex.
  Proof. constructor; [exact qr_ex_shapes|exact svd_ex_shapes|exact eigh_ex_shapes|exact solve_ex_shapes]. Qed.

  (* an even fermionic matrix with identity blocks (one valid sector, (0,0), not stored) and an
     odd fermionic vector on its first index, each with a pending sign *)
  Definition ja2 : index U1 := Index U1 [(0, 1%nat); (1, 2%nat); (2, 1%nat)] true None.
  Definition ex_a2 : aarray U1 ZRing :=
    mkA U1 ZRing [ia; ja2] 0 [([1; 1], @mkT ZRing [2; 2]%nat [1; 0; 0; 1]); ([2; 2], @mkT ZRing [1; 1]%nat [1])].
  Definition ex_b2 : aarray U1 ZRing := mkA U1 ZRing [ia] 1 [([1], @mkT ZRing [2]%nat [7; 9])].
  Definition ex_fa2 : farray U1 ZRing := mkF U1 ZRing ex_a2 [[1; 1]] [].
  Definition ex_fb2 : farray U1 ZRing := mkF U1 ZRing ex_b2 [[1]] [([5], false)].

  Notation run3ex := (run3 U1 ZRing qr_ex svd_ex eigh_ex solve_ex sqrt_stub).

  (* build (registers a0 = ex_u: rank 3, first index fused, block sparse; a1, a2: a solvable
     system; f0 = ex_f, f1, f2), transpose, fuse to a matrix, qr, contract q with r, svd of the
     product, u.diag(s), truncate (dropping a sector / keeping all, absorb None / both),
     eigh of x^dagger x, solve; the same on the fermionic registers *)
  Definition ex_prog3 : list (instr3 U1 ZRing) :=
    [I2 U1 ZRing (IOld U1 ZRing (ITranspose U1 ZRing 0 [1; 0; 2]%nat));   (* a3                               *)
     I2 U1 ZRing (IFuse U1 ZRing 3 [[0; 1]%nat]);                          (* a4 = fuse(a3, (0,1)): a matrix,
                                                                              column charge -1 has no block   *)
     IQr U1 ZRing 4;                                                       (* a5, a6 = qr(a4)                  *)
     I2 U1 ZRing (IMatmul U1 ZRing 5 6);                                   (* a7 = a5 @ a6                     *)
     ISvd U1 ZRing 7;                                                      (* a8, v0, a9 = svd(a7)             *)
     IMulDiagV U1 ZRing 8 0 1;                                             (* a10 = a8.multiply_diagonal(v0,1) *)
     ITruncSvd U1 ZRing 7 [1; 0]%nat None;                                 (* a11, v1, a12: one sector dropped *)
     ITruncSvd U1 ZRing 7 [2; 1]%nat (Some AbsBoth);                       (* a13, a14                         *)
     I2 U1 ZRing (IOld U1 ZRing (IDagger U1 ZRing 4));                     (* a15                              *)
     I2 U1 ZRing (IMatmul U1 ZRing 15 4);                                  (* a16 = a15 @ a4: charge 0, square *)
     IEigh U1 ZRing 16;                                                    (* v2, a17 = eigh(a16)              *)
     ISolve U1 ZRing 1 2;                                                  (* a18 = solve(a1, a2)              *)
     I2 U1 ZRing (FFuse U1 ZRing 0 [[0; 1]%nat]);                          (* f3: a fermionic matrix, odd      *)
     FQr U1 ZRing 3;                                                       (* f4, f5                           *)
     I2 U1 ZRing (FMatmul U1 ZRing 4 5);                                   (* f6 = f4 @ f5                     *)
     FSvd U1 ZRing 6;                                                      (* f7, v3, f8                       *)
     I2 U1 ZRing (IOld U1 ZRing (FDagger U1 ZRing 3 true));                (* f9                               *)
     I2 U1 ZRing (FMatmul U1 ZRing 9 3);                                   (* f10: even, pending signs         *)
     FEigh U1 ZRing 10;                                                    (* v4, f11                          *)
     FSolve U1 ZRing 1 2].                                                 (* f12 = solve(f1, f2)              *)

  Definition ex_st0 : state3 U1 ZRing := (([ex_u; a; b], [ex_f; ex_fa2; ex_fb2]), []).

  Example programs_wf3_hyps : wf_state3 U1 ZRing ex_st0.
  Proof.
    split; [split|]; cbn [fst snd ex_st0]; repeat constructor; vm_compute; reflexivity.
  Qed.

  (* the program runs to the end: 19 abelian arrays, 13 fermionic arrays, 5 block vectors, all
     of them valid (by evaluation), a sector really is dropped by the truncation, the bond of q
     is pruned to the two column charges that carry blocks *)
  Example ex_prog3_runs :
    match run3ex ex_prog3 ex_st0 with
    | Some st => Nat.eqb (length (fst (fst st))) 19 && Nat.eqb (length (snd (fst st))) 13 && Nat.eqb (length (snd st)) 5 &&
                 forallb (wf_array U1 ZRing) (fst (fst st)) && forallb (wf_fermi U1 ZRing) (snd (fst st)) &&
                 forallb (wf_bvec U1 ZRing) (snd st) &&
                 forallb (valid_array U1 ZRing) (fst (fst st)) &&
                 forallb (fun x => valid_farray U1 ZRing x (fphases U1 ZRing x)) (snd (fst st)) &&
                 Nat.eqb (length (blocks U1 ZRing (nth 11 (fst (fst st)) ex_u))) 1 &&
                 list_eqb Z.eqb (icharges U1 (ix1 U1 ZRing (nth 5 (fst (fst st)) ex_u))) [0; 1] &&
                 negb (is_nil (fphases U1 ZRing (nth 10 (snd (fst st)) ex_f)))
    | None => false
    end = true.
  Proof. vm_compute. reflexivity. Qed.

  Example programs_wf3_inst st' :
    run3ex ex_prog3 ex_st0 = Some st' -> wf_state3 U1 ZRing st'.
  Proof. apply (programs_wf3 U1 U1_laws ZRing _ _ _ _ _ U1_order ex_lapack_shapes). exact programs_wf3_hyps. Qed.

  Example programs_valid3_inst st' :
    run3ex ex_prog3 ex_st0 = Some st' -> valid_state3 U1 ZRing st'.
  Proof. apply (programs_valid3 U1 U1_laws ZRing _ _ _ _ _ U1_order ex_lapack_shapes). exact programs_wf3_hyps. Qed.

  (* the same program with the shape-only stand-ins (zero factors) is valid as well: the
     numerical content of the dense routines is irrelevant *)
  Example ex_prog3_stubs st' :
    run3 U1 ZRing (qr_stub ZRing) (svd_stub ZRing) (eigh_stub ZRing) (solve_stub ZRing) sqrt_stub ex_prog3 ex_st0 = Some st' ->
    wf_state3 U1 ZRing st'.
  Proof. apply (programs_wf3 U1 U1_laws ZRing _ _ _ _ _ U1_order (stubs_lapack_shapes ZRing)). exact programs_wf3_hyps. Qed.

  Example ex_prog3_stubs_runs :
    is_none (run3 U1 ZRing (qr_stub ZRing) (svd_stub ZRing) (eigh_stub ZRing) (solve_stub ZRing) sqrt_stub ex_prog3 ex_st0) = false.
  Proof. vm_compute. reflexivity. Qed.

  (* ---- the side conditions of the fermionic instructions are needed ---- *)
  (* a pending sign on the valid but unstored sector (0,0): the left factor keeps it, and 0 is
     not a charge of the pruned bond: the invariant fails, the audited predicate holds *)
  Definition ex_fbad3 : farray U1 ZRing := mkF U1 ZRing ex_a2 [[0; 0]] [].

  Example ex_fbad3_facts :
    wf_fermi U1 ZRing ex_fbad3 = true /\ phases_stored U1 ZRing ex_fbad3 = false /\
    match f_qr U1 ZRing qr_ex ex_fbad3 with
    | Some (q, r) => negb (wf_fermi U1 ZRing q) && valid_farray U1 ZRing q (fphases U1 ZRing q) && wf_fermi U1 ZRing r
    | None => false
    end = true.
  Proof. vm_compute. repeat split; reflexivity. Qed.

  Theorem fermi_decomp_full_false : ~ fermi_decomp_full_stmt.
  Proof.
    intros H. pose proof ex_fbad3_facts as (Hw & _ & Hm). unfold f_qr in Hm.
    destruct (f_split U1 ZRing qr_ex ex_fbad3) as [[q r]|] eqn:E; [|discriminate Hm].
    destruct (H U1 U1_laws ZRing U1_order qr_ex ex_fbad3 q r qr_ex_shapes Hw E) as [Hq _].
    rewrite Hq in Hm. cbn [negb andb] in Hm. discriminate Hm.
  Qed.

  Example f_split_valid_inst q r :
    f_split U1 ZRing qr_ex ex_fbad3 = Some (q, r) ->
    valid_farray U1 ZRing q (fphases U1 ZRing q) = true /\ wf_fermi U1 ZRing r = true.
  Proof. apply (f_split_valid U1 U1_laws ZRing U1_order qr_ex); [exact qr_ex_shapes|exact (proj1 ex_fbad3_facts)]. Qed.

  (* solve with an ODD fermionic matrix (known finding F16, recorded under C11): the solution keeps
     b's labels although its charge parity changed, so neither predicate holds *)
  Definition ex_fodd_a : farray U1 ZRing := mkF U1 ZRing a [] [([3], false)].
  Definition ex_feven_b : farray U1 ZRing := mkF U1 ZRing b [] [].

  Example f_solve_odd_matrix_invalid :
    wf_fermi U1 ZRing ex_fodd_a = true /\ wf_fermi U1 ZRing ex_feven_b = true /\
    match f_solve U1 ZRing solve_ex ex_fodd_a ex_feven_b with
    | Some x => negb (wf_fermi U1 ZRing x) && negb (valid_farray U1 ZRing x (fphases U1 ZRing x))
    | None => false
    end = true.
  Proof. vm_compute. repeat split; reflexivity. Qed.
End Examples3.
