(* Proofs/CtorGenProofs.v — property C16: theorems about the GENERATED description of the
   constructors (Gen/Ctor.v, regenerated from the Python AST on every run): default
   expressions, class-symmetry resolution, how `symmetry` and `charge` are handed on. *)
From SV Require Import Base.Prelude Gen.Ctor.
From Coq Require Import String.
Local Open Scope string_scope.

Definition is_dnone (d : dflt) : bool := match d with DNone => true | _ => false end.
Definition names_sym_or_charge (p : string) : bool := String.eqb p "symmetry" || String.eqb p "charge".

Definition defaults_okb : bool :=
  forallb (fun c => forallb (fun pd => implb (names_sym_or_charge (fst pd)) (is_dnone (snd pd))) (snd c)) ctor_params.

Lemma defaults_okb_true : defaults_okb = true.
Proof. vm_compute. reflexivity. Qed.

(* every `symmetry` and every `charge` parameter of every constructor defaults to None
   (not, e.g., to the class property object `symmetry`) *)
Theorem ctor_defaults :
  forall c ps p d, In (c, ps) ctor_params -> In (p, d) ps -> (p = "symmetry" \/ p = "charge") -> d = DNone.
Proof.
  intros c ps p d Hc Hp Hn.
  pose proof defaults_okb_true as H. unfold defaults_okb in H.
  rewrite forallb_forall in H. specialize (H _ Hc). cbn [snd] in H.
  rewrite forallb_forall in H. specialize (H _ Hp). cbn [fst snd] in H.
  assert (E : names_sym_or_charge p = true) by (destruct Hn as [-> | ->]; vm_compute; reflexivity).
  rewrite E in H. cbn [implb] in H. destruct d; try discriminate H. reflexivity.
Qed.

(* ... and each of the six constructors has both parameters *)
Definition has_param (p : string) (ps : list (string * dflt)) : bool := existsb (fun pd => String.eqb (fst pd) p) ps.
Theorem ctor_have_symmetry_and_charge :
  map fst ctor_params = ["AbelianArray.__init__"; "AbelianArray.from_fill_fn"; "AbelianArray.random";
                         "AbelianArray.from_blocks"; "AbelianArray.from_dense"; "FermionicArray.__init__"]
  /\ forallb (fun c => has_param "symmetry" (snd c) && has_param "charge" (snd c)) ctor_params = true.
Proof. split; vm_compute; reflexivity. Qed.

(* the ten classes and the get_class_symmetry body each resolves to *)
Definition expected_class_table : list (string * (bool * cs_kind)) :=
  [("AbelianArray", (false, CSGeneric));
   ("Z2Array", (false, CSStatic "Z2")); ("U1Array", (false, CSStatic "U1"));
   ("Z2Z2Array", (false, CSStatic "Z2Z2")); ("U1U1Array", (false, CSStatic "U1U1"));
   ("FermionicArray", (true, CSGeneric));
   ("Z2FermionicArray", (true, CSStatic "Z2")); ("U1FermionicArray", (true, CSStatic "U1"));
   ("Z2Z2FermionicArray", (true, CSStatic "Z2Z2")); ("U1U1FermionicArray", (true, CSStatic "U1U1"))].

Lemma class_table_expected : class_table = expected_class_table.
Proof. reflexivity. Qed.

Lemma resolve_static n :
  resolve_cs (CSStatic n) None = Some n /\ resolve_cs (CSStatic n) (Some n) = Some n
  /\ forall s, s <> n -> resolve_cs (CSStatic n) (Some s) = None.
Proof.
  cbn [resolve_cs]. rewrite String.eqb_refl. repeat split.
  intros s Hs. destruct (String.eqb s n) eqn:E; [|reflexivity].
  apply String.eqb_eq in E. contradiction.
Qed.

(* static class + None -> its own symmetry; + the same name -> ok; + another -> raises;
   generic class + None -> raises, + a name -> that symmetry *)
Theorem class_symmetry :
  class_table = expected_class_table /\
  forall cls ferm k, In (cls, (ferm, k)) class_table ->
    match k with
    | CSGeneric => (cls = "AbelianArray" \/ cls = "FermionicArray")
                   /\ resolve_cs k None = None /\ forall s, resolve_cs k (Some s) = Some s
    | CSStatic n => (cls = n ++ "Array" \/ cls = n ++ "FermionicArray")
                    /\ resolve_cs k None = Some n /\ resolve_cs k (Some n) = Some n
                    /\ forall s, s <> n -> resolve_cs k (Some s) = None
    end.
Proof.
  split; [exact class_table_expected|].
  intros cls ferm k Hin. rewrite class_table_expected in Hin. unfold expected_class_table in Hin.
  cbn [In] in Hin.
  repeat (destruct Hin as [Hin | Hin];
          [injection Hin as <- <- <-;
           first [ split; [(left; reflexivity) || (right; reflexivity) | split; [reflexivity | intros s; reflexivity]]
                 | split; [(left; reflexivity) || (right; reflexivity) | apply resolve_static] ] | ]).
  destruct Hin.
Qed.

(* every constructor hands its `symmetry` argument to get_class_symmetry unchanged
   (from_dense used to call it without the argument), `charge=None` means the identity in the
   three classmethods and "inferred from the first sector, signed by the index directions" in __init__, and the classmethods hand
   charge and symmetry on to cls(...) *)
Definition kw_passes (k : string) (kws : list (string * string)) : bool :=
  existsb (fun p => String.eqb (fst p) k && String.eqb (snd p) k) kws.

Theorem ctor_passes_symmetry_and_charge :
  symmetry_calls = [("AbelianArray.__init__", SCPass); ("AbelianArray.from_fill_fn", SCPass);
                    ("AbelianArray.from_blocks", SCPass); ("AbelianArray.from_dense", SCPass)]
  /\ charge_defaults = [("AbelianArray.__init__", CDFirstSectorSigned); ("AbelianArray.from_fill_fn", CDIdentity);
                        ("AbelianArray.from_blocks", CDIdentity); ("AbelianArray.from_dense", CDIdentity);
                        ("FermionicArray.__init__", CDForwarded); ("AbelianArray.random", CDForwarded)]
  /\ map fst cls_calls = ["AbelianArray.from_fill_fn"; "AbelianArray.from_blocks"; "AbelianArray.from_dense";
                          "FermionicArray.__init__"]
  /\ forallb (fun c => kw_passes "symmetry" (snd c) && kw_passes "charge" (snd c) && kw_passes "indices" (snd c)) cls_calls = true
  /\ random_forward = [("#0", "fill_fn"); ("#1", "indices"); ("#2", "charge"); ("symmetry", "symmetry"); ("**", "kwargs")].
Proof. repeat split; vm_compute; reflexivity. Qed.

(* symmray.utils.from_dense: (name, fermionic) selects the static class of that symmetry and
   kind; array, index_maps, duals and charge are handed on; charge defaults to None *)
Definition dispatch_okb : bool :=
  forallb (fun e => existsb (fun c => String.eqb (fst c) (snd e) && Bool.eqb (fst (snd c)) (snd (fst e)) &&
                                      match snd (snd c) with CSStatic n => String.eqb n (fst (fst e)) | CSGeneric => false end)
                            class_table) utils_from_dense_table.

Theorem utils_from_dense_dispatch :
  dispatch_okb = true
  /\ map fst utils_from_dense_table = [("Z2", false); ("Z2Z2", false); ("U1", false); ("U1U1", false);
                                       ("Z2", true); ("Z2Z2", true); ("U1", true); ("U1U1", true)]
  /\ utils_from_dense_forward = [("#0", "array"); ("#1", "index_maps"); ("duals", "duals"); ("charge", "charge")]
  /\ utils_from_dense_params = [("array", DRequired); ("symmetry", DRequired); ("index_maps", DRequired);
                                ("duals", DNone); ("fermionic", DConst "False"); ("charge", DNone)].
Proof. repeat split; vm_compute; reflexivity. Qed.
