(* Proofs/LocalOpsProductProofs.v — property C18, the product half at ELEMENT level:
   on complete bases the reference matrix elements (Model/LocalOps.v: Jordan-Wigner Fock
   space, `ref_element`) of a product of operator polynomials are the matrix product of
   the factors' elements with the intermediate index weighted by
   sigma(k) = (-1)^(sum_{i<j} p_i(k) p_j(k)).

   Route: a resolution of the identity.  For operator strings A, B with the labels of B
   inside the modes of the bases,
       <0|A B|0> = sum_k sigma(k) <0|A ket(k)|0> <0|bra(k) B|0>
   because B|0> is a signed occupation state |n>, exactly one basis index k has
   ket(k)|0> = +-|n> (completeness), bra(k) annihilates every other occupation state,
   and <0|bra(k) ket(k)|0> = sigma(k) (per-site dagger, sites not reversed). *)
From SV Require Import Base.Prelude Model.LocalOps Proofs.LocalOpsProofs.
From Coq Require Import Sorting.Sorted Arith.PeanoNat.
Open Scope Z_scope.

(* ================================================================ states up to empty tails *)
Definition seq_st (s t : state) : Prop := forall m, occ s m = occ t m.

Lemma seq_refl s : seq_st s s.
Proof. intro m. reflexivity. Qed.
Lemma seq_sym s t : seq_st s t -> seq_st t s.
Proof. intros H m. symmetry. apply H. Qed.
Lemma seq_trans s t u : seq_st s t -> seq_st t u -> seq_st s u.
Proof. intros H1 H2 m. rewrite H1. apply H2. Qed.

Lemma seq_tl s t : seq_st s t -> seq_st (tl s) (tl t).
Proof. intros H m. rewrite <- !occ_S. apply H. Qed.

Lemma seq_hd s t : seq_st s t -> hd false s = hd false t.
Proof. intros H. rewrite <- !occ_0. apply H. Qed.

Lemma seq_cons b s t : seq_st s t -> seq_st (b :: s) (b :: t).
Proof. intros H [|m]; [reflexivity|]. rewrite !occ_S. cbn [tl]. apply H. Qed.

Lemma seq_is_vac s t : seq_st s t -> is_vac s = is_vac t.
Proof.
  intros H. destruct (is_vac s) eqn:E1, (is_vac t) eqn:E2; try reflexivity.
  - pose proof (proj1 (is_vac_occ s) E1) as F.
    assert (E : is_vac t = true) by (apply (proj2 (is_vac_occ t)); intro m; rewrite <- H; apply F). congruence.
  - pose proof (proj1 (is_vac_occ t) E2) as F.
    assert (E : is_vac s = true) by (apply (proj2 (is_vac_occ s)); intro m; rewrite H; apply F). congruence.
Qed.

(* two signed results agree up to empty tails *)
Definition req (r1 r2 : option (bool * state)) : Prop :=
  match r1, r2 with
  | None, None => True
  | Some (a, s), Some (b, t) => a = b /\ seq_st s t
  | _, _ => False
  end.

Lemma req_refl r : req r r.
Proof. destruct r as [[a s]|]; cbn; [split; [reflexivity | apply seq_refl] | exact I]. Qed.

Lemma req_scale f r1 r2 : req r1 r2 -> req (scale_res f r1) (scale_res f r2).
Proof.
  destruct r1 as [[a s]|], r2 as [[b t]|]; cbn; try tauto. intros [-> H]. now split.
Qed.

Lemma apply_at_ext : forall m d s t, seq_st s t -> req (apply_at m d s) (apply_at m d t).
Proof.
  induction m as [|m IH]; intros d s t H; cbn [apply_at].
  - rewrite (seq_hd s t H). destruct (Bool.eqb (hd false t) d); cbn; [exact I|].
    split; [reflexivity|]. apply seq_cons, seq_tl, H.
  - specialize (IH d (tl s) (tl t) (seq_tl s t H)). rewrite (seq_hd s t H).
    destruct (apply_at m d (tl s)) as [[a s']|], (apply_at m d (tl t)) as [[b t']|]; cbn in *; try tauto.
    destruct IH as [-> IH]. split; [reflexivity|]. now apply seq_cons.
Qed.

Lemma bind_ext r1 r2 (f g : state -> option (bool * state)) :
  req r1 r2 -> (forall s t, seq_st s t -> req (f s) (g t)) -> req (bind_res r1 f) (bind_res r2 g).
Proof.
  destruct r1 as [[a s]|], r2 as [[b t]|]; cbn [req bind_res]; try tauto.
  intros [-> H] Hf. apply req_scale, Hf, H.
Qed.

Lemma apply_ops_ext : forall ops s t, seq_st s t -> req (apply_ops ops s) (apply_ops ops t).
Proof.
  induction ops as [|o rest IH]; intros s t H; cbn [apply_ops].
  - cbn. now split.
  - apply bind_ext; [apply IH, H|]. intros s' t' H'. apply apply_at_ext, H'.
Qed.

(* ================================================================ composition *)
Lemma bind_bind r (f g : state -> option (bool * state)) :
  bind_res (bind_res r f) g = bind_res r (fun s => bind_res (f s) g).
Proof.
  destruct r as [[a s]|]; cbn [bind_res]; [|reflexivity]. apply bind_scale.
Qed.

Lemma apply_ops_app : forall X Y s, apply_ops (X ++ Y) s = bind_res (apply_ops Y s) (apply_ops X).
Proof.
  induction X as [|o X IH]; intros Y s; cbn [app apply_ops].
  - destruct (apply_ops Y s) as [[a t]|]; cbn [bind_res scale_res]; [|reflexivity]. now rewrite xorb_false_r.
  - rewrite IH, bind_bind. reflexivity.
Qed.

(* <0| X |s> *)
Definition amp (X : list op) (s : state) : Z :=
  match apply_ops X s with
  | None => 0
  | Some (sg, s') => if is_vac s' then phase_z sg else 0
  end.

Lemma amp_ext X s t : seq_st s t -> amp X s = amp X t.
Proof.
  intros H. unfold amp. pose proof (apply_ops_ext X s t H) as E.
  destruct (apply_ops X s) as [[a s']|], (apply_ops X t) as [[b t']|]; cbn in E; try tauto.
  destruct E as [-> E]. now rewrite (seq_is_vac s' t' E).
Qed.

Lemma phase_z_xorb a b : phase_z (xorb a b) = phase_z a * phase_z b.
Proof. destruct a, b; reflexivity. Qed.

Lemma vev_app X Y :
  vev (X ++ Y) = match apply_ops Y vac with None => 0 | Some (b, n) => phase_z b * amp X n end.
Proof.
  unfold vev, amp. rewrite apply_ops_app.
  destruct (apply_ops Y vac) as [[b n]|]; cbn [bind_res]; [|reflexivity].
  destruct (apply_ops X n) as [[a s']|]; cbn [scale_res]; [|lia].
  destruct (is_vac s'); [apply phase_z_xorb | lia].
Qed.

Lemma vev_amp X : vev X = amp X vac.
Proof. reflexivity. Qed.

(* ================================================================ strings of creators / annihilators *)
Definition labels (X : list op) : list nat := map label X.
Definition all_dag (d : bool) (X : list op) : Prop := forall o, In o X -> dag o = d.

Lemma labels_app X Y : labels (X ++ Y) = labels X ++ labels Y.
Proof. apply map_app. Qed.

Lemma all_dag_cons d o X : all_dag d (o :: X) -> dag o = d /\ all_dag d X.
Proof. intros H. split; [apply H; now left | intros o' Ho; apply H; now right]. Qed.

Lemma all_dag_app d X Y : all_dag d (X ++ Y) -> all_dag d X /\ all_dag d Y.
Proof. intros H. split; intros o Ho; apply H, in_or_app; [now left | now right]. Qed.

(* distinct creators on a state where their modes are empty *)
Lemma cre_occ : forall X s, all_dag true X -> NoDup (labels X) ->
  (forall m, In m (labels X) -> occ s m = false) ->
  exists sg s', apply_ops X s = Some (sg, s') /\
    (forall m, In m (labels X) -> occ s' m = true) /\ (forall m, ~ In m (labels X) -> occ s' m = occ s m).
Proof.
  induction X as [|o X IH]; intros s Hd Hnd He.
  - exists false, s. cbn [apply_ops labels map]. split; [reflexivity|]. split; [intros m []|reflexivity].
  - destruct (all_dag_cons _ _ _ Hd) as [Ho HdX]. cbn [labels map] in Hnd, He. inversion Hnd as [|? ? Hni HndX]; subst.
    destruct (IH s HdX HndX (fun m Hm => He m (or_intror Hm))) as (sg1 & s1 & A & H1 & H2).
    assert (Hocc : occ s1 (label o) = negb (dag o)).
    { rewrite Ho, (H2 _ Hni). apply He. now left. }
    destruct (apply_at_defined (label o) (dag o) s1 Hocc) as (sg2 & s2 & B).
    destruct (apply_at_occ _ _ _ _ _ B) as (_ & B2 & B3).
    exists (xorb sg1 sg2), s2. cbn [apply_ops]. rewrite A. cbn [bind_res]. unfold apply_op. rewrite B. cbn [scale_res].
    split; [reflexivity|]. cbn [labels map]. split.
    + intros m [<-|Hm]; [now rewrite B2, Ho|].
      rewrite B3 by (intros ->; contradiction). now apply H1.
    + intros m Hm. rewrite B3 by (intros ->; apply Hm; now left). apply H2. intros Hin. apply Hm. now right.
Qed.

(* distinct annihilators: the result, when defined, empties exactly their modes *)
Lemma ann_occ : forall Y n sg s', all_dag false Y -> NoDup (labels Y) -> apply_ops Y n = Some (sg, s') ->
  (forall m, In m (labels Y) -> occ n m = true /\ occ s' m = false) /\
  (forall m, ~ In m (labels Y) -> occ s' m = occ n m).
Proof.
  induction Y as [|o Y IH]; intros n sg s' Hd Hnd H; cbn [apply_ops] in H.
  - inversion H; subst. split; [intros m []|reflexivity].
  - destruct (all_dag_cons _ _ _ Hd) as [Ho HdY]. cbn [labels map] in Hnd. inversion Hnd as [|? ? Hni HndY]; subst.
    destruct (apply_ops Y n) as [[sg1 s1]|] eqn:A; cbn [bind_res] in H; [|discriminate].
    unfold apply_op in H. destruct (apply_at (label o) (dag o) s1) as [[sg2 s2]|] eqn:B; cbn [scale_res] in H; [|discriminate].
    inversion H; subst. destruct (apply_at_occ _ _ _ _ _ B) as (B1 & B2 & B3). rewrite Ho in B1, B2. cbn [negb] in B1.
    destruct (IH n sg1 s1 HdY HndY A) as [H1 H2]. cbn [labels map]. split.
    + intros m [<-|Hm].
      * split; [rewrite <- (H2 _ Hni); exact B1 | exact B2].
      * destruct (H1 m Hm) as [Hn Hs1]. split; [exact Hn|]. rewrite B3 by (intros ->; contradiction). exact Hs1.
    + intros m Hm. rewrite B3 by (intros ->; apply Hm; now left). apply H2. intros Hin. apply Hm. now right.
Qed.

(* a^+ then a on an empty mode: identity, sign + *)
Lemma create_annihilate : forall m s, occ s m = false ->
  exists sg s2 s3, apply_at m true s = Some (sg, s2) /\ apply_at m false s2 = Some (sg, s3) /\ seq_st s3 s.
Proof.
  induction m as [|m IH]; intros s H.
  - rewrite occ_0 in H. exists false, (true :: tl s), (false :: tl s). cbn [apply_at hd tl]. rewrite H. cbn.
    repeat split. intros [|k]; [now rewrite !occ_0, H | now rewrite !occ_S].
  - rewrite occ_S in H. destruct (IH (tl s) H) as (sg & t2 & t3 & A & B & E).
    exists (xorb (hd false s) sg), (hd false s :: t2), (hd false s :: t3). cbn [apply_at hd tl]. rewrite A, B.
    repeat split. intros [|k]; [now rewrite !occ_0 | rewrite !occ_S; cbn [tl]; apply E].
Qed.

Lemma dagger_state_cons o x : dagger_state (o :: x) = dagger_state x ++ [op_dag o].
Proof. unfold dagger_state. cbn [rev]. now rewrite map_app. Qed.

Lemma dagger_state_length x : length (dagger_state x) = length x.
Proof. unfold dagger_state. now rewrite map_length, rev_length. Qed.

Lemma dagger_state_labels x m : In m (labels (dagger_state x)) <-> In m (labels x).
Proof.
  unfold labels, dagger_state. rewrite map_map. cbn [op_dag label]. rewrite map_rev, <- in_rev. reflexivity.
Qed.

Lemma dagger_state_dag x d : all_dag d x -> all_dag (negb d) (dagger_state x).
Proof.
  intros H o Ho. unfold dagger_state in Ho. apply in_map_iff in Ho. destruct Ho as (o' & <- & Ho').
  apply in_rev in Ho'. cbn [op_dag dag]. now rewrite (H o' Ho').
Qed.

Lemma dagger_state_nodup x : NoDup (labels x) -> NoDup (labels (dagger_state x)).
Proof.
  intros H. unfold labels, dagger_state. rewrite map_map. cbn [op_dag label].
  rewrite map_rev. apply NoDup_rev. exact H.
Qed.

(* x^dagger x = identity on states where the modes of x are empty *)
Lemma pair_id : forall x s, all_dag true x -> NoDup (labels x) -> (forall m, In m (labels x) -> occ s m = false) ->
  exists s', apply_ops (dagger_state x ++ x) s = Some (false, s') /\ seq_st s' s.
Proof.
  induction x as [|o x IH]; intros s Hd Hnd He.
  - exists s. split; [reflexivity | apply seq_refl].
  - destruct (all_dag_cons _ _ _ Hd) as [Ho Hdx]. cbn [labels map] in Hnd, He. inversion Hnd as [|? ? Hni Hndx]; subst.
    assert (Hex : forall m, In m (labels x) -> occ s m = false) by (intros m Hm; apply He; now right).
    destruct (IH s Hdx Hndx Hex) as (s' & E & Es').
    destruct (cre_occ x s Hdx Hndx Hex) as (sg1 & s1 & A & _ & A2).
    assert (Hocc : occ s1 (label o) = false) by (rewrite (A2 _ Hni); apply He; now left).
    destruct (create_annihilate (label o) s1 Hocc) as (sg & s2 & s3 & C1 & C2 & C3).
    rewrite apply_ops_app, A in E. cbn [bind_res] in E.
    destruct (apply_ops (dagger_state x) s1) as [[a t1]|] eqn:D; cbn [scale_res] in E; [|discriminate].
    injection E as Ea Et. subst t1.
    pose proof (apply_ops_ext (dagger_state x) s3 s1 C3) as X3. rewrite D in X3.
    destruct (apply_ops (dagger_state x) s3) as [[a' t3]|] eqn:D3; cbn [req] in X3; [|contradiction].
    destruct X3 as [-> X3].
    exists t3. split; [|exact (seq_trans _ _ _ X3 Es')].
    rewrite dagger_state_cons, <- app_assoc. cbn [app].
    rewrite apply_ops_app.
    change (op_dag o :: o :: x) with ([op_dag o; o] ++ x). rewrite apply_ops_app, A. cbn [bind_res apply_ops].
    unfold apply_op. cbn [op_dag label dag]. rewrite Ho, C1. cbn [scale_res bind_res negb]. rewrite C2. cbn [scale_res].
    rewrite xorb_false_l, xorb_nilpotent, xorb_false_r. cbn [bind_res]. rewrite D3. cbn [scale_res]. now rewrite Ea.
Qed.

(* ================================================================ moving blocks past each other *)
Lemma odd_S n : Nat.odd (S n) = negb (Nat.odd n).
Proof. now rewrite Nat.odd_succ, Nat.negb_odd. Qed.

Lemma move_one : forall Y pre a post s, ~ In (label a) (labels Y) ->
  apply_ops (pre ++ a :: Y ++ post) s = scale_res (Nat.odd (length Y)) (apply_ops (pre ++ Y ++ a :: post) s).
Proof.
  induction Y as [|y Y IH]; intros pre a post s Hni.
  - cbn [app length Nat.odd]. now rewrite scale_false.
  - cbn [labels map] in Hni. cbn [app].
    rewrite swap_in_context by (intros E; apply Hni; left; now symmetry).
    replace (pre ++ y :: a :: Y ++ post) with ((pre ++ [y]) ++ a :: Y ++ post) by (now rewrite <- app_assoc).
    rewrite (IH (pre ++ [y]) a post s) by (intros Hin; apply Hni; now right).
    rewrite scale_scale, <- app_assoc. cbn [app length]. rewrite odd_S. now destruct (Nat.odd (length Y)).
Qed.

Lemma block_swap : forall X Y pre post s, (forall m, In m (labels X) -> ~ In m (labels Y)) ->
  apply_ops (pre ++ X ++ Y ++ post) s
  = scale_res (Nat.odd (length X) && Nat.odd (length Y)) (apply_ops (pre ++ Y ++ X ++ post) s).
Proof.
  induction X as [|a X IH]; intros Y pre post s Hd.
  - cbn [app length Nat.odd andb]. now rewrite scale_false.
  - cbn [app].
    replace (pre ++ a :: X ++ Y ++ post) with ((pre ++ [a]) ++ X ++ Y ++ post) by (now rewrite <- app_assoc).
    rewrite (IH Y (pre ++ [a]) post s) by (intros m Hm; apply Hd; now right).
    rewrite <- app_assoc. cbn [app].
    rewrite (move_one Y pre a (X ++ post) s) by (apply Hd; now left).
    rewrite scale_scale. cbn [length]. rewrite odd_S.
    now destruct (Nat.odd (length X)), (Nat.odd (length Y)).
Qed.

(* ================================================================ <0| bra(k) ket(k) |0> = sigma(k) *)
Definition oddlen (x : list op) : bool := Nat.odd (length x).
Definition dag_all (xs : list (list op)) : list op := concat (map dagger_state xs).

Lemma dag_all_labels xs m : In m (labels (dag_all xs)) <-> In m (labels (concat xs)).
Proof.
  unfold dag_all. induction xs as [|x xs IH]; cbn [map concat]; [reflexivity|].
  rewrite !labels_app, !in_app_iff, dagger_state_labels, IH. reflexivity.
Qed.

Lemma dag_all_odd xs : Nat.odd (length (dag_all xs)) = xorb_list (map oddlen xs).
Proof.
  unfold dag_all. induction xs as [|x xs IH]; cbn [map concat xorb_list fold_right]; [reflexivity|].
  rewrite app_length, Nat.odd_add, dagger_state_length, IH. reflexivity.
Qed.

Lemma NoDup_app_parts {A} (l1 l2 : list A) : NoDup (l1 ++ l2) ->
  NoDup l1 /\ NoDup l2 /\ (forall a, In a l1 -> ~ In a l2).
Proof.
  induction l1 as [|a l1 IH]; cbn [app]; intros H.
  - repeat split; [constructor | exact H | intros a []].
  - inversion H as [|? ? Hni Hnd]; subst. destruct (IH Hnd) as (H1 & H2 & H3). repeat split.
    + constructor; [|exact H1]. intros Hin. apply Hni, in_or_app. now left.
    + exact H2.
    + intros b [<-|Hb]; [intros Hin; apply Hni, in_or_app; now right | now apply H3].
Qed.

Lemma pair_sign : forall xs s,
  all_dag true (concat xs) -> NoDup (labels (concat xs)) ->
  (forall m, In m (labels (concat xs)) -> occ s m = false) ->
  exists s', apply_ops (dag_all xs ++ concat xs) s = Some (cross_parity (map oddlen xs), s') /\ seq_st s' s.
Proof.
  induction xs as [|x R IH]; intros s Hd Hnd He.
  - exists s. split; [reflexivity | apply seq_refl].
  - cbn [concat] in Hd, Hnd, He. rewrite labels_app in Hnd, He.
    destruct (all_dag_app _ _ _ Hd) as [Hdx HdR]. destruct (NoDup_app_parts _ _ Hnd) as (Hndx & HndR & Hdisj).
    assert (HeR : forall m, In m (labels (concat R)) -> occ s m = false) by (intros m Hm; apply He, in_or_app; now right).
    destruct (IH s HdR HndR HeR) as (s1 & E1 & Es1).
    assert (Hex1 : forall m, In m (labels x) -> occ s1 m = false).
    { intros m Hm. rewrite (Es1 m). apply He, in_or_app. now left. }
    destruct (pair_id x s1 Hdx Hndx Hex1) as (s2 & E2 & Es2).
    exists s2. split; [|exact (seq_trans _ _ _ Es2 Es1)].
    change (dag_all (x :: R)) with (dagger_state x ++ dag_all R). cbn [concat]. rewrite <- app_assoc.
    rewrite (block_swap (dag_all R) x (dagger_state x) (concat R) s).
    2:{ intros m Hm Hx. apply (proj1 (dag_all_labels R m)) in Hm. exact (Hdisj m Hx Hm). }
    rewrite !app_assoc, <- (app_assoc (dagger_state x ++ x)). rewrite apply_ops_app, E1. cbn [bind_res].
    rewrite E2. cbn [scale_res map cross_parity]. rewrite dag_all_odd, xorb_false_r.
    f_equal. f_equal. fold (oddlen x). now rewrite andb_comm.
Qed.

(* ================================================================ the basis states of an index *)
Definition states (bases : list site_basis) (idx : list nat) : list (list op) :=
  map (fun bi => nth (snd bi) (fst bi) []) (combine bases idx).

Lemma ket_states bases idx : ket_ops bases idx = concat (states bases idx).
Proof. reflexivity. Qed.
Lemma bra_states bases idx : bra_ops bases idx = dag_all (states bases idx).
Proof. unfold bra_ops, dag_all, states. now rewrite map_map. Qed.
Lemma par_states bases idx : site_parities bases idx = map oddlen (states bases idx).
Proof. unfold site_parities, states. now rewrite map_map. Qed.

(* creation operators only, pairwise distinct labels over the whole index *)
Definition good (xs : list (list op)) : Prop := all_dag true (concat xs) /\ NoDup (labels (concat xs)).

Lemma NoDup_app_intro {A} (l1 l2 : list A) :
  NoDup l1 -> NoDup l2 -> (forall a, In a l1 -> ~ In a l2) -> NoDup (l1 ++ l2).
Proof.
  induction l1 as [|a l1 IH]; cbn [app]; intros H1 H2 Hd; [exact H2|].
  inversion H1 as [|? ? Hni Hnd]; subst. constructor.
  - intros Hin. apply in_app_or in Hin. destruct Hin as [Hin|Hin]; [contradiction|]. exact (Hd a (or_introl eq_refl) Hin).
  - apply IH; [exact Hnd | exact H2 | intros b Hb; apply Hd; now right].
Qed.

Lemma good_dag_all xs : good xs -> all_dag false (dag_all xs) /\ NoDup (labels (dag_all xs)).
Proof.
  unfold good. induction xs as [|x R IH]; intros [Hd Hnd].
  - split; [intros o [] | constructor].
  - cbn [concat] in Hd, Hnd. rewrite labels_app in Hnd.
    destruct (all_dag_app _ _ _ Hd) as [Hdx HdR]. destruct (NoDup_app_parts _ _ Hnd) as (Hndx & HndR & Hdisj).
    destruct (IH (conj HdR HndR)) as [I1 I2].
    change (dag_all (x :: R)) with (dagger_state x ++ dag_all R). split.
    + intros o Ho. apply in_app_or in Ho. destruct Ho as [Ho|Ho]; [exact (dagger_state_dag x true Hdx o Ho) | exact (I1 o Ho)].
    + rewrite labels_app. apply NoDup_app_intro; [now apply dagger_state_nodup | exact I2 |].
      intros m Hm Hm'. apply (proj1 (dagger_state_labels x m)) in Hm. apply (proj1 (dag_all_labels R m)) in Hm'. exact (Hdisj m Hm Hm').
Qed.

Lemma sigma_vev xs : good xs -> vev (dag_all xs ++ concat xs) = phase_z (cross_parity (map oddlen xs)).
Proof.
  intros [Hd Hnd]. destruct (pair_sign xs vac Hd Hnd (fun m _ => occ_vac m)) as (s' & E & Es).
  unfold vev. rewrite E. assert (Hv : is_vac s' = true) by (rewrite (seq_is_vac s' vac Es); reflexivity).
  now rewrite Hv.
Qed.

Lemma ket_state xs : good xs ->
  exists kap nk, apply_ops (concat xs) vac = Some (kap, nk) /\ forall m, occ nk m = true <-> In m (labels (concat xs)).
Proof.
  intros [Hd Hnd]. destruct (cre_occ (concat xs) vac Hd Hnd (fun m _ => occ_vac m)) as (sg & s' & E & H1 & H2).
  exists sg, s'. split; [exact E|]. intros m. split; [|apply H1].
  intros Ho. destruct (in_dec Nat.eq_dec m (labels (concat xs))) as [Hin|Hni]; [exact Hin|].
  rewrite (H2 m Hni), occ_vac in Ho. discriminate.
Qed.

Lemma bra_selects xs n : good xs -> amp (dag_all xs) n <> 0 ->
  forall m, occ n m = true <-> In m (labels (concat xs)).
Proof.
  intros Hg Ha. destruct (good_dag_all xs Hg) as [Hd Hnd]. unfold amp in Ha.
  destruct (apply_ops (dag_all xs) n) as [[sg s']|] eqn:E; [|contradiction].
  destruct (is_vac s') eqn:Ev; [|contradiction].
  destruct (ann_occ _ _ _ _ Hd Hnd E) as [H1 H2]. pose proof (proj1 (is_vac_occ s') Ev) as Hv.
  intros m. split.
  - intros Ho. destruct (in_dec Nat.eq_dec m (labels (dag_all xs))) as [Hin|Hni]; [now apply dag_all_labels|].
    rewrite <- (H2 m Hni), Hv in Ho. discriminate.
  - intros Hin. apply (proj2 (dag_all_labels xs m)) in Hin. exact (proj1 (H1 m Hin)).
Qed.

Lemma bool_iff_eq (a b : bool) : (a = true <-> b = true) -> a = b.
Proof. destruct a, b; intros [H1 H2]; try reflexivity; [symmetry; now apply H1 | now apply H2]. Qed.

(* ================================================================ sums *)
Lemma zsum_zero {A} (f : A -> Z) l : (forall a, In a l -> f a = 0) -> zsum (map f l) = 0.
Proof.
  induction l as [|a l IH]; intros H; cbn [map]; [reflexivity|].
  rewrite zsum_cons, (H a) by (now left). rewrite IH; [reflexivity|]. intros b Hb. apply H. now right.
Qed.

Lemma zsum_single {A} (f : A -> Z) l x : NoDup l -> In x l -> (forall y, In y l -> y <> x -> f y = 0) ->
  zsum (map f l) = f x.
Proof.
  induction l as [|a l IH]; intros Hnd Hin H; [destruct Hin|].
  inversion Hnd as [|? ? Hni Hnd']; subst. cbn [map]. rewrite zsum_cons. destruct Hin as [->|Hin].
  - rewrite zsum_zero; [lia|]. intros b Hb. apply H; [now right | intros ->; contradiction].
  - rewrite (H a) by (now left || (intros ->; contradiction)). rewrite IH; [lia | exact Hnd' | exact Hin |].
    intros y Hy. apply H. now right.
Qed.

(* ================================================================ resolution of the identity, one pair of strings *)
Section Resolution.
  Context (bases : list site_basis) (grid : list (list nat)).
  Context (Hgood : forall k, In k grid -> good (states bases k)).
  Context (Hnd : NoDup grid).
  (* every occupation state B can produce from the vacuum is the state of exactly one index *)
  Definition resolves (B : list op) : Prop :=
    forall b n, apply_ops B vac = Some (b, n) ->
    exists k0, In k0 grid /\ (forall m, occ n m = true <-> In m (labels (ket_ops bases k0))) /\
      forall k, In k grid -> (forall m, In m (labels (ket_ops bases k)) <-> In m (labels (ket_ops bases k0))) -> k = k0.

  Lemma resolution A B : resolves B ->
    vev (A ++ B) = zsum (map (fun k => phase_z (cross_parity (site_parities bases k)) *
                                       vev (A ++ ket_ops bases k) * vev (bra_ops bases k ++ B)) grid).
  Proof.
    intros HB. rewrite (vev_app A B). destruct (apply_ops B vac) as [[b n]|] eqn:EB.
    - destruct (HB b n EB) as (k0 & Hk0 & Hocc & Huniq).
      rewrite (zsum_single _ grid k0 Hnd Hk0).
      + pose proof (Hgood k0 Hk0) as Hg. rewrite par_states, ket_states, bra_states.
        destruct (ket_state _ Hg) as (kap & nk & Ek & Hnk).
        assert (Hseq : seq_st n nk).
        { intros m. apply bool_iff_eq. rewrite Hnk. rewrite ket_states in Hocc. apply Hocc. }
        pose proof (sigma_vev _ Hg) as Hs. rewrite vev_app, Ek in Hs.
        rewrite !vev_app, Ek, EB. rewrite <- (amp_ext A n nk Hseq), (amp_ext (dag_all (states bases k0)) n nk Hseq).
        set (P := phase_z (cross_parity (map oddlen (states bases k0)))) in *.
        assert (HPP : P * P = 1) by (subst P; now destruct (cross_parity _)).
        transitivity ((P * (phase_z kap * amp (dag_all (states bases k0)) nk)) * (phase_z b * amp A n)); [|ring].
        rewrite Hs, HPP. ring.
      + intros k Hk Hne. rewrite bra_states, (vev_app _ B), EB.
        destruct (Z.eq_dec (amp (dag_all (states bases k)) n) 0) as [Hz|Hnz]; [rewrite Hz; ring|].
        exfalso. apply Hne. apply Huniq; [exact Hk|]. intros m.
        rewrite <- (Hocc m), ket_states. symmetry. exact (bra_selects _ n (Hgood k Hk) Hnz m).
    - symmetry. apply zsum_zero. intros k _. rewrite (vev_app _ B), EB. ring.
  Qed.
End Resolution.

(* ================================================================ sorting labels: canonical form of a set *)
Lemma mem_nat_In x l : mem Nat.eqb x l = true <-> In x l.
Proof.
  induction l as [|y l IH]; cbn [mem In]; [split; [discriminate | tauto]|].
  rewrite orb_true_iff, Nat.eqb_eq, IH. split; intros [H|H]; auto.
Qed.

Lemma leqb_eq : forall a b : list nat, list_eqb Nat.eqb a b = true <-> a = b.
Proof.
  induction a as [|x a IH]; intros [|y b]; cbn [list_eqb]; try (split; congruence).
  rewrite andb_true_iff, Nat.eqb_eq, IH. split; [intros [-> ->]; reflexivity | intros H; inversion H; auto].
Qed.

Lemma mem_ln_In (x : list nat) l : mem (list_eqb Nat.eqb) x l = true <-> In x l.
Proof.
  induction l as [|y l IH]; cbn [mem In]; [split; [discriminate | tauto]|].
  rewrite orb_true_iff, leqb_eq, IH. split; intros [H|H]; auto.
Qed.

Lemma nodupb_ln_NoDup l : LocalOps.nodupb l = true -> NoDup l.
Proof.
  induction l as [|x l IH]; cbn [LocalOps.nodupb]; intros H; [constructor|].
  apply andb_true_iff in H. destruct H as [H1 H2]. constructor; [|auto].
  apply negb_true_iff in H1. intros Hin. apply mem_ln_In in Hin. congruence.
Qed.

Lemma insert_nat_In x l z : In z (insert_nat x l) <-> z = x \/ In z l.
Proof.
  induction l as [|y l IH]; cbn [insert_nat In]; [intuition|].
  destruct (y <? x)%nat; cbn [In]; [rewrite IH|]; intuition.
Qed.

Lemma sort_nat_In l z : In z (sort_nat l) <-> In z l.
Proof.
  unfold sort_nat. induction l as [|x l IH]; cbn [fold_right In]; [reflexivity|].
  rewrite insert_nat_In, IH. intuition.
Qed.

Lemma insert_ss x l : StronglySorted Nat.lt l -> ~ In x l -> StronglySorted Nat.lt (insert_nat x l).
Proof.
  induction l as [|y l IH]; intros Hs Hni; cbn [insert_nat].
  - constructor; constructor.
  - apply StronglySorted_inv in Hs. destruct Hs as [Hs Hall]. rewrite Forall_forall in Hall.
    destruct (y <? x)%nat eqn:E.
    + apply Nat.ltb_lt in E. constructor; [apply IH; [exact Hs | intros H; apply Hni; now right]|].
      apply Forall_forall. intros z Hz. apply insert_nat_In in Hz. destruct Hz as [->|Hz]; [exact E | now apply Hall].
    + apply Nat.ltb_ge in E. assert (Hlt : (x < y)%nat).
      { destruct (Nat.eq_dec x y) as [->|Hne]; [exfalso; apply Hni; now left | lia]. }
      constructor; [constructor; [exact Hs | now apply Forall_forall]|].
      apply Forall_forall. intros z [<-|Hz]; [exact Hlt|]. specialize (Hall z Hz). unfold Nat.lt in *. lia.
Qed.

Lemma sort_ss l : NoDup l -> StronglySorted Nat.lt (sort_nat l).
Proof.
  induction 1 as [|x l Hni Hnd IH]; [constructor|].
  change (sort_nat (x :: l)) with (insert_nat x (sort_nat l)).
  apply insert_ss; [exact IH|]. intros H. apply Hni. now apply (proj1 (sort_nat_In l x)) in H.
Qed.

Lemma ss_ext : forall l l', StronglySorted Nat.lt l -> StronglySorted Nat.lt l' ->
  (forall m, In m l <-> In m l') -> l = l'.
Proof.
  induction l as [|a l IH]; intros [|a' l'] Hs Hs' H.
  - reflexivity.
  - exfalso. apply (proj2 (H a')). now left.
  - exfalso. apply (proj1 (H a)). now left.
  - apply StronglySorted_inv in Hs. destruct Hs as [Hs Hall]. rewrite Forall_forall in Hall.
    apply StronglySorted_inv in Hs'. destruct Hs' as [Hs' Hall']. rewrite Forall_forall in Hall'.
    assert (Ea : a = a').
    { destruct (proj1 (H a) (or_introl eq_refl)) as [E|Hin]; [now symmetry|].
      destruct (proj2 (H a') (or_introl eq_refl)) as [E|Hin']; [exact E|].
      specialize (Hall a' Hin'). specialize (Hall' a Hin). unfold Nat.lt in *. lia. }
    subst a'. f_equal. apply IH; [exact Hs | exact Hs'|]. intros m. split; intros Hm.
    + destruct (proj1 (H m) (or_intror Hm)) as [E|Hin]; [|exact Hin]. specialize (Hall m Hm). unfold Nat.lt in *. lia.
    + destruct (proj2 (H m) (or_intror Hm)) as [E|Hin]; [|exact Hin]. specialize (Hall' m Hm). unfold Nat.lt in *. lia.
Qed.

Lemma sort_nat_ext l l' : NoDup l -> NoDup l' -> (forall m, In m l <-> In m l') -> sort_nat l = sort_nat l'.
Proof.
  intros H1 H2 H. apply ss_ext; [now apply sort_ss | now apply sort_ss|].
  intros m. rewrite !sort_nat_In. apply H.
Qed.

(* ================================================================ one complete site *)
Fixpoint all_bits (n : nat) : list (list bool) :=
  match n with
  | O => [[]]
  | S n' => map (cons true) (all_bits n') ++ map (cons false) (all_bits n')
  end.

Lemma all_bits_length n : length (all_bits n) = Nat.pow 2 n.
Proof.
  induction n as [|n IH]; [reflexivity|]. cbn [all_bits]. rewrite app_length, !map_length, IH, Nat.pow_succ_r'. lia.
Qed.

Lemma all_bits_In : forall n v, length v = n -> In v (all_bits n).
Proof.
  induction n as [|n IH]; intros [|b v] H; cbn [length] in H; try discriminate.
  - now left.
  - cbn [all_bits]. apply in_or_app. destruct b; [left | right]; apply in_map, IH; lia.
Qed.

Lemma NoDup_map_transfer {A B C} (f : A -> B) (g : A -> C) l :
  NoDup (map f l) -> (forall x y, In x l -> In y l -> g x = g y -> f x = f y) -> NoDup (map g l).
Proof.
  induction l as [|a l IH]; cbn [map]; intros Hnd H; [constructor|].
  inversion Hnd as [|? ? Hni Hnd']; subst. constructor.
  - intros Hin. apply in_map_iff in Hin. destruct Hin as (y & Ey & Hy). apply Hni.
    rewrite <- (H y a (or_intror Hy) (or_introl eq_refl) Ey). now apply in_map.
  - apply IH; [exact Hnd'|]. intros x y Hx Hy. apply H; now right.
Qed.

Record site_ok (b : site_basis) : Prop := {
  so_good : forall x, In x b -> all_dag true x /\ NoDup (labels x) /\ incl (labels x) (site_modes b);
  so_inj : forall i j, (i < length b)%nat -> (j < length b)%nat ->
           (forall m, In m (labels (nth i b [])) <-> In m (labels (nth j b []))) -> i = j;
  so_surj : forall S : nat -> bool, exists j, (j < length b)%nat /\
            forall m, In m (labels (nth j b [])) <-> (S m = true /\ In m (site_modes b))
}.

Lemma complete_site_ok b : complete_site b = true -> site_ok b.
Proof.
  unfold complete_site. intros H. apply andb_true_iff in H. destruct H as [H Hlen].
  apply andb_true_iff in H. destruct H as [Hall Hnd]. apply Nat.eqb_eq in Hlen.
  rewrite forallb_forall in Hall. apply nodupb_ln_NoDup in Hnd.
  assert (Hgood : forall x, In x b -> all_dag true x /\ NoDup (labels x) /\ incl (labels x) (site_modes b)).
  { intros x Hx. specialize (Hall x Hx). apply andb_true_iff in Hall. destruct Hall as [Hd Hn]. repeat split.
    - intros o Ho. rewrite forallb_forall in Hd. exact (Hd o Ho).
    - apply nodupb_ln_NoDup in Hn. rewrite <- (map_map label (fun m => [m])) in Hn. exact (NoDup_map_inv _ _ Hn).
    - intros m Hm. unfold site_modes. apply nodup_In. apply in_concat. exists (map label x). split; [|exact Hm].
      apply in_map_iff. now exists x. }
  assert (Hext : forall x y, In x b -> In y b -> (forall m, In m (labels x) <-> In m (labels y)) ->
                 sort_nat (map label x) = sort_nat (map label y)).
  { intros x y Hx Hy Hm. apply sort_nat_ext; [exact (proj1 (proj2 (Hgood x Hx))) | exact (proj1 (proj2 (Hgood y Hy))) | exact Hm]. }
  split.
  - exact Hgood.
  - intros i j Hi Hj Hm.
    apply (proj1 (NoDup_nth (map (fun x => sort_nat (map label x)) b) (sort_nat (map label []))) Hnd);
      rewrite ?map_length; try assumption.
    rewrite !(map_nth (fun x => sort_nat (map label x))). apply Hext; [now apply nth_In | now apply nth_In | exact Hm].
  - intros S. set (modes := site_modes b).
    set (v := fun x : list op => map (fun m => mem Nat.eqb m (labels x)) modes).
    assert (Hv : NoDup (map v b)).
    { apply (NoDup_map_transfer (fun x => sort_nat (map label x)) v b Hnd). intros x y Hx Hy E. apply Hext; try assumption.
      assert (Hmm : forall m, In m modes -> mem Nat.eqb m (labels x) = mem Nat.eqb m (labels y)).
      { intros m Hm. exact (ext_in_map E m Hm). }
      intros m. split; intros Hin.
      - apply mem_nat_In. rewrite <- Hmm; [now apply mem_nat_In | exact (proj2 (proj2 (Hgood x Hx)) m Hin)].
      - apply mem_nat_In. rewrite Hmm; [now apply mem_nat_In | exact (proj2 (proj2 (Hgood y Hy)) m Hin)]. }
    assert (Hincl : incl (all_bits (length modes)) (map v b)).
    { apply NoDup_length_incl; [exact Hv | rewrite all_bits_length, map_length; fold modes in Hlen; lia |].
      intros w Hw. apply in_map_iff in Hw. destruct Hw as (x & <- & _). apply all_bits_In. unfold v. apply map_length. }
    assert (Ht : In (map S modes) (map v b)) by (apply Hincl, all_bits_In, map_length).
    apply in_map_iff in Ht. destruct Ht as (x & Ex & Hx).
    destruct (In_nth b x [] Hx) as (j & Hj & Enth). exists j. split; [exact Hj|]. rewrite Enth.
    assert (Hmm : forall m, In m modes -> mem Nat.eqb m (labels x) = S m) by (intros m Hm; exact (ext_in_map Ex m Hm)).
    intros m. split.
    + intros Hin. pose proof (proj2 (proj2 (Hgood x Hx)) m Hin) as Hmo. split; [|exact Hmo].
      rewrite <- (Hmm m Hmo). now apply mem_nat_In.
    + intros [HS Hmo]. apply mem_nat_In. now rewrite (Hmm m Hmo).
Qed.

(* ================================================================ several sites *)
Definition all_modes (bases : list site_basis) : list nat := concat (map site_modes bases).

Fixpoint bases_ok (bases : list site_basis) : Prop :=
  match bases with
  | [] => True
  | b :: bs => site_ok b /\ (forall m, In m (site_modes b) -> ~ In m (all_modes bs)) /\ bases_ok bs
  end.

Lemma complete_bases_ok bases : complete_bases bases = true -> bases_ok bases.
Proof.
  unfold complete_bases. induction bases as [|b bs IH]; intros H; [exact I|].
  cbn [forallb map disjoint_sites] in H. apply andb_true_iff in H. destruct H as [H1 H2].
  apply andb_true_iff in H1. destruct H1 as [Hb Hbs]. apply andb_true_iff in H2. destruct H2 as [Hd Hds].
  cbn [bases_ok]. split; [now apply complete_site_ok|]. split.
  - intros m Hm Hin. rewrite forallb_forall in Hd. specialize (Hd m Hm). apply negb_true_iff in Hd.
    apply mem_nat_In in Hin. unfold all_modes in Hin. congruence.
  - apply IH. now rewrite Hbs, Hds.
Qed.

Lemma states_cons b bs j k : states (b :: bs) (j :: k) = nth j b [] :: states bs k.
Proof. reflexivity. Qed.

Lemma states_nil_r bases : states bases [] = [].
Proof. unfold states. now destruct bases. Qed.

Lemma nth_site_good b j : site_ok b ->
  all_dag true (nth j b []) /\ NoDup (labels (nth j b [])) /\ incl (labels (nth j b [])) (site_modes b).
Proof.
  intros Hb. destruct (nth_in_or_default j b []) as [Hin|E]; [exact (so_good b Hb _ Hin)|].
  rewrite E. repeat split; [intros o [] | constructor | intros m []].
Qed.

Lemma states_labels_incl : forall bases k, bases_ok bases ->
  forall m, In m (labels (concat (states bases k))) -> In m (all_modes bases).
Proof.
  induction bases as [|b bs IH]; intros k Hok m Hm.
  - unfold states in Hm. cbn in Hm. contradiction.
  - destruct k as [|j k]; [rewrite states_nil_r in Hm; contradiction|].
    destruct Hok as (Hb & _ & Hbs). rewrite states_cons in Hm. cbn [concat] in Hm. rewrite labels_app in Hm.
    unfold all_modes. cbn [map concat]. apply in_or_app. apply in_app_or in Hm. destruct Hm as [Hm|Hm].
    + left. exact (proj2 (proj2 (nth_site_good b j Hb)) m Hm).
    + right. exact (IH k Hbs m Hm).
Qed.

Lemma states_good : forall bases k, bases_ok bases -> good (states bases k).
Proof.
  induction bases as [|b bs IH]; intros k Hok.
  - unfold states. cbn. split; [intros o [] | constructor].
  - destruct k as [|j k]; [rewrite states_nil_r; split; [intros o [] | constructor]|].
    destruct Hok as (Hb & Hdisj & Hbs). rewrite states_cons. destruct (IH k Hbs) as [Hd Hnd].
    destruct (nth_site_good b j Hb) as (G1 & G2 & G3). unfold good. cbn [concat]. split.
    + intros o Ho. apply in_app_or in Ho. destruct Ho as [Ho|Ho]; [exact (G1 o Ho) | exact (Hd o Ho)].
    + rewrite labels_app. apply NoDup_app_intro; [exact G2 | exact Hnd|].
      intros m Hm Hm'. exact (Hdisj m (G3 m Hm) (states_labels_incl bs k Hbs m Hm')).
Qed.

(* the index grid *)
Lemma cart_cons_In d ds k : In k (cart (d :: ds)) <-> exists j k', k = j :: k' /\ (j < d)%nat /\ In k' (cart ds).
Proof.
  cbn [cart]. rewrite in_flat_map. split.
  - intros (j & Hj & Hk). apply in_map_iff in Hk. destruct Hk as (k' & <- & Hk'). apply in_seq in Hj.
    exists j, k'. repeat split; [lia | exact Hk'].
  - intros (j & k' & -> & Hj & Hk'). exists j. split; [apply in_seq; lia | now apply in_map].
Qed.

Lemma NoDup_map_inj' {A B} (f : A -> B) l : (forall a b, f a = f b -> a = b) -> NoDup l -> NoDup (map f l).
Proof.
  intros Hf. induction 1 as [|a l Hni Hnd IH]; cbn [map]; constructor; [|exact IH].
  intros Hin. apply in_map_iff in Hin. destruct Hin as (b & E & Hb). apply Hf in E. subst b. contradiction.
Qed.

Lemma NoDup_flat_map_disj {A B} (f : A -> list B) l :
  NoDup l -> (forall a, In a l -> NoDup (f a)) ->
  (forall a b x, In a l -> In b l -> In x (f a) -> In x (f b) -> a = b) -> NoDup (flat_map f l).
Proof.
  induction 1 as [|a l Hni Hnd IH]; intros Hf Hd; cbn [flat_map]; [constructor|].
  apply NoDup_app_intro.
  - apply Hf. now left.
  - apply IH; [intros b Hb; apply Hf; now right | intros b c x Hb Hc; apply Hd; now right].
  - intros x Hx Hx'. apply in_flat_map in Hx'. destruct Hx' as (b & Hb & Hxb).
    assert (a = b) by (apply (Hd a b x); [now left | now right | exact Hx | exact Hxb]). subst b. contradiction.
Qed.

Lemma NoDup_cart dims : NoDup (cart dims).
Proof.
  induction dims as [|d ds IH]; cbn [cart]; [constructor; [intros [] | constructor]|].
  apply NoDup_flat_map_disj.
  - apply seq_NoDup.
  - intros j _. apply NoDup_map_inj'; [intros a b E; now inversion E | exact IH].
  - intros i j x _ _ Hi Hj. apply in_map_iff in Hi. destruct Hi as (k1 & <- & _).
    apply in_map_iff in Hj. destruct Hj as (k2 & E & _). now inversion E.
Qed.

Notation grid_of bases := (cart (map (@length _) bases)).

Lemma ket_cons b bs j k : ket_ops (b :: bs) (j :: k) = nth j b [] ++ ket_ops bs k.
Proof. reflexivity. Qed.

(* every subset of the modes is the label set of some index ... *)
Lemma exists_index : forall bases, bases_ok bases -> forall S : nat -> bool,
  exists k0, In k0 (grid_of bases) /\
    forall m, In m (labels (ket_ops bases k0)) <-> (S m = true /\ In m (all_modes bases)).
Proof.
  induction bases as [|b bs IH]; intros Hok S.
  - exists []. split; [now left|]. intros m. cbn. tauto.
  - destruct Hok as (Hb & _ & Hbs). destruct (so_surj b Hb S) as (j & Hj & Hjm). destruct (IH Hbs S) as (k & Hk & Hkm).
    exists (j :: k). split; [cbn [map]; apply cart_cons_In; now exists j, k|].
    intros m. rewrite ket_cons, labels_app, in_app_iff, Hjm, Hkm. unfold all_modes. cbn [map concat]. rewrite in_app_iff. tauto.
Qed.

(* ... of exactly one *)
Lemma unique_index : forall bases, bases_ok bases -> forall k k', In k (grid_of bases) -> In k' (grid_of bases) ->
  (forall m, In m (labels (ket_ops bases k)) <-> In m (labels (ket_ops bases k'))) -> k = k'.
Proof.
  induction bases as [|b bs IH]; intros Hok k k' Hk Hk' H.
  - cbn in Hk, Hk'. destruct Hk as [<-|[]]. now destruct Hk' as [<-|[]].
  - destruct Hok as (Hb & Hdisj & Hbs). cbn [map] in Hk, Hk'.
    apply cart_cons_In in Hk. destruct Hk as (j & k1 & -> & Hj & Hk1).
    apply cart_cons_In in Hk'. destruct Hk' as (j' & k1' & -> & Hj' & Hk1').
    assert (Hs : forall i r, incl (labels (nth i b [])) (site_modes b) /\
                             (forall m, In m (labels (ket_ops bs r)) -> In m (all_modes bs))).
    { intros i r. split; [exact (proj2 (proj2 (nth_site_good b i Hb))) | intros m; rewrite ket_states; apply states_labels_incl, Hbs]. }
    assert (Ej : j = j').
    { apply (so_inj b Hb j j' Hj Hj'). intros m. split; intros Hm.
      - assert (Hin : In m (labels (ket_ops (b :: bs) (j' :: k1')))) by (apply H; rewrite ket_cons, labels_app; apply in_or_app; now left).
        rewrite ket_cons, labels_app in Hin. apply in_app_or in Hin. destruct Hin as [Hin|Hin]; [exact Hin|].
        exfalso. exact (Hdisj m (proj1 (Hs j k1) m Hm) (proj2 (Hs j k1') m Hin)).
      - assert (Hin : In m (labels (ket_ops (b :: bs) (j :: k1)))) by (apply H; rewrite ket_cons, labels_app; apply in_or_app; now left).
        rewrite ket_cons, labels_app in Hin. apply in_app_or in Hin. destruct Hin as [Hin|Hin]; [exact Hin|].
        exfalso. exact (Hdisj m (proj1 (Hs j' k1) m Hm) (proj2 (Hs j k1) m Hin)). }
    subst j'. f_equal. apply (IH Hbs k1 k1' Hk1 Hk1'). intros m. split; intros Hm.
    + assert (Hin : In m (labels (ket_ops (b :: bs) (j :: k1')))) by (apply H; rewrite ket_cons, labels_app; apply in_or_app; now right).
      rewrite ket_cons, labels_app in Hin. apply in_app_or in Hin. destruct Hin as [Hin|Hin]; [|exact Hin].
      exfalso. exact (Hdisj m (proj1 (Hs j k1) m Hin) (proj2 (Hs j k1) m Hm)).
    + assert (Hin : In m (labels (ket_ops (b :: bs) (j :: k1)))) by (apply H; rewrite ket_cons, labels_app; apply in_or_app; now right).
      rewrite ket_cons, labels_app in Hin. apply in_app_or in Hin. destruct Hin as [Hin|Hin]; [|exact Hin].
      exfalso. exact (Hdisj m (proj1 (Hs j k1) m Hin) (proj2 (Hs j k1') m Hm)).
Qed.

(* a string only changes the occupations of its own labels *)
Lemma support B s b n : apply_ops B s = Some (b, n) -> forall m, ~ In m (labels B) -> occ n m = occ s m.
Proof.
  intros E m Hm. pose proof (apply_ops_occ B s n b E m) as H. unfold flags in H.
  rewrite (group_not_in m B Hm) in H. cbn [map run_mode] in H. now injection H as ->.
Qed.

Lemma resolves_within bases B : bases_ok bases -> incl (labels B) (all_modes bases) ->
  resolves bases (grid_of bases) B.
Proof.
  intros Hok Hin b n E. destruct (exists_index bases Hok (occ n)) as (k0 & Hk0 & Hm). exists k0. split; [exact Hk0|]. split.
  - intros m. rewrite Hm. split; [|tauto]. intros Ho. split; [exact Ho|].
    destruct (in_dec Nat.eq_dec m (labels B)) as [Hi|Hni]; [exact (Hin m Hi)|].
    rewrite (support B vac b n E m Hni), occ_vac in Ho. discriminate.
  - intros k Hk H. exact (unique_index bases Hok k k0 Hk Hk0 H).
Qed.

(* ================================================================ bilinearity *)
Lemma zsum_map_add {A} (f g : A -> Z) l : zsum (map (fun x => f x + g x) l) = zsum (map f l) + zsum (map g l).
Proof. induction l as [|a l IH]; cbn [map]; [reflexivity|]. rewrite !zsum_cons, IH. ring. Qed.

Lemma zsum_map_scale {A} (c : Z) (f : A -> Z) l : zsum (map (fun x => c * f x) l) = c * zsum (map f l).
Proof. induction l as [|a l IH]; cbn [map]; [cbn; ring|]. rewrite !zsum_cons, IH. ring. Qed.

Lemma zsum_list_prod {A B} (u : A -> Z) (w : B -> Z) l1 l2 :
  zsum (map (fun p => u (fst p) * w (snd p)) (list_prod l1 l2)) = zsum (map u l1) * zsum (map w l2).
Proof.
  induction l1 as [|x l1 IH]; cbn [list_prod map]; [cbn; ring|].
  rewrite map_app, zsum_app, IH, map_map, zsum_cons. cbn [fst snd]. rewrite zsum_map_scale. ring.
Qed.

Lemma zsum_prod_swap {A B K} (T1 : list A) (T2 : list B) (grid : list K) (sg : K -> Z) (a : A -> K -> Z) (c : B -> K -> Z) :
  zsum (map (fun p => zsum (map (fun k => sg k * a (fst p) k * c (snd p) k) grid)) (list_prod T1 T2))
  = zsum (map (fun k => sg k * zsum (map (fun t => a t k) T1) * zsum (map (fun t => c t k) T2)) grid).
Proof.
  induction grid as [|k g IH]; cbn [map].
  - apply zsum_zero. reflexivity.
  - rewrite zsum_cons, <- IH.
    rewrite (map_ext _ (fun p => sg k * a (fst p) k * c (snd p) k + zsum (map (fun k0 => sg k0 * a (fst p) k0 * c (snd p) k0) g)))
      by (intros p; now rewrite zsum_cons).
    rewrite zsum_map_add. f_equal.
    etransitivity; [exact (zsum_list_prod (fun t => sg k * a t k) (fun t => c t k) T1 T2)|].
    rewrite zsum_map_scale. ring.
Qed.

(* ================================================================ the product formula *)
Lemma terms_within_labels terms bases t : terms_within terms bases = true -> In t terms ->
  incl (labels (snd t)) (all_modes bases).
Proof.
  unfold terms_within. intros H Ht. rewrite forallb_forall in H. specialize (H t Ht). rewrite forallb_forall in H.
  intros m Hm. unfold labels in Hm. apply in_map_iff in Hm. destruct Hm as (o & <- & Ho). apply mem_nat_In. exact (H o Ho).
Qed.

Theorem string_resolution bases A B : complete_bases bases = true -> incl (labels B) (all_modes bases) ->
  vev (A ++ B) = zsum (map (fun k => phase_z (cross_parity (site_parities bases k)) *
                                     vev (A ++ ket_ops bases k) * vev (bra_ops bases k ++ B)) (grid_of bases)).
Proof.
  intros Hc HB. pose proof (complete_bases_ok bases Hc) as Hok.
  apply resolution; [intros k _; now apply states_good | apply NoDup_cart | now apply resolves_within].
Qed.

Theorem product_formula (t1 t2 : list term) (bases : list site_basis) (il ir : list nat) :
  complete_bases bases = true -> terms_within t2 bases = true ->
  ref_element (term_product t1 t2) bases il ir =
  zsum (map (fun k => phase_z (cross_parity (site_parities bases k)) *
                      ref_element t1 bases il k * ref_element t2 bases k ir) (grid_of bases)).
Proof.
  intros Hc Hw. pose proof (complete_bases_ok bases Hc) as Hok.
  unfold ref_element, term_product. rewrite map_map. cbn [fst snd].
  rewrite <- (zsum_prod_swap t1 t2 (grid_of bases) (fun k => phase_z (cross_parity (site_parities bases k)))
                (fun t k => fst t * vev (bra_ops bases il ++ snd t ++ ket_ops bases k))
                (fun t k => fst t * vev (bra_ops bases k ++ snd t ++ ket_ops bases ir))).
  f_equal. apply map_ext_in. intros [[c1 s1] [c2 s2]] Hp. cbn [fst snd].
  apply in_prod_iff in Hp. destruct Hp as [_ H2].
  replace (bra_ops bases il ++ (s1 ++ s2) ++ ket_ops bases ir) with ((bra_ops bases il ++ s1) ++ (s2 ++ ket_ops bases ir))
    by (now rewrite <- !app_assoc).
  rewrite (string_resolution bases (bra_ops bases il ++ s1) (s2 ++ ket_ops bases ir) Hc).
  - rewrite <- zsum_map_scale. f_equal. apply map_ext. intros k. rewrite <- !app_assoc. ring.
  - intros m Hm. rewrite labels_app in Hm. apply in_app_or in Hm. destruct Hm as [Hm|Hm].
    + exact (terms_within_labels t2 bases (c2, s2) Hw H2 m Hm).
    + rewrite ket_states in Hm. exact (states_labels_incl bases ir Hok m Hm).
Qed.

(* the statement Props/C18.v calls C18_product_statement, verbatim (two of its premises and the
   range conditions on il, ir are not needed) *)
Theorem product_statement :
  forall (t1 t2 : list term) (bases : list site_basis) (il ir : list nat),
  complete_bases bases = true -> terms_within t1 bases = true -> terms_within t2 bases = true ->
  let grid := cart (map (@length _) bases) in
  In il grid -> In ir grid ->
  ref_element (term_product t1 t2) bases il ir =
  zsum (map (fun k => phase_z (cross_parity (site_parities bases k)) *
                      ref_element t1 bases il k * ref_element t2 bases k ir) grid).
Proof. intros t1 t2 bases il ir Hc _ Hw grid _ _. exact (product_formula t1 t2 bases il ir Hc Hw). Qed.

(* the same for the values the library's algorithm returns (model `element`, C18_elements_spec) *)
Theorem product_formula_elements (fuel : nat) (t1 t2 : list term) (bases : list site_basis) (il ir : list nat)
  (v : Z) (f1 f2 : list nat -> Z) :
  complete_bases bases = true -> terms_within t2 bases = true ->
  element fuel (term_product t1 t2) bases il ir = Some v ->
  (forall k, In k (grid_of bases) -> element fuel t1 bases il k = Some (f1 k) /\ element fuel t2 bases k ir = Some (f2 k)) ->
  v = zsum (map (fun k => phase_z (cross_parity (site_parities bases k)) * f1 k * f2 k) (grid_of bases)).
Proof.
  intros Hc Hw Hv Hf. rewrite (elements_spec fuel _ bases il ir v Hv), (product_formula t1 t2 bases il ir Hc Hw).
  f_equal. apply map_ext_in. intros k Hk. destruct (Hf k Hk) as [H1 H2].
  now rewrite <- (elements_spec fuel t1 bases il k _ H1), <- (elements_spec fuel t2 bases k ir _ H2).
Qed.

(* packaged forms restated in Props/C18b.v *)
Lemma bra_ket_sign (bases : list site_basis) (k : list nat) : complete_bases bases = true ->
  vev (bra_ops bases k ++ ket_ops bases k) = phase_z (cross_parity (site_parities bases k)).
Proof.
  intros Hc. rewrite bra_states, ket_states, par_states. apply sigma_vev, states_good, complete_bases_ok, Hc.
Qed.

Lemma complete_exists bases : complete_bases bases = true -> forall S : nat -> bool,
  exists k0, In k0 (grid_of bases) /\
    forall m, In m (labels (ket_ops bases k0)) <-> (S m = true /\ In m (all_modes bases)).
Proof. intros Hc. exact (exists_index bases (complete_bases_ok bases Hc)). Qed.

Lemma complete_unique bases : complete_bases bases = true ->
  forall k k', In k (grid_of bases) -> In k' (grid_of bases) ->
  (forall m, In m (labels (ket_ops bases k)) <-> In m (labels (ket_ops bases k'))) -> k = k'.
Proof. intros Hc. exact (unique_index bases (complete_bases_ok bases Hc)). Qed.

Lemma full_statement :
  (forall (fuel : nat) (terms : list term) (bases : list site_basis) (il ir : list nat) (v : Z),
     element fuel terms bases il ir = Some v -> v = ref_element terms bases il ir) /\
  (forall (t1 t2 : list term) (bases : list site_basis) (il ir : list nat),
     complete_bases bases = true -> terms_within t1 bases = true -> terms_within t2 bases = true ->
     let grid := cart (map (@length _) bases) in
     In il grid -> In ir grid ->
     ref_element (term_product t1 t2) bases il ir =
     zsum (map (fun k => phase_z (cross_parity (site_parities bases k)) *
                         ref_element t1 bases il k * ref_element t2 bases k ir) grid)).
Proof. exact (conj elements_spec product_statement). Qed.

(* ================================================================ examples *)
Module ProductExamples.
  Import Examples.
  (* two spinless sites, modes 0 and 1; pairing operators, so that the intermediate state |11> with
     sigma = -1 is the one that contributes *)
  Definition T1 : list term := [(1, [a; b])].
  Definition T2 : list term := [(1, [bd; ad]); (3, [ad; a])].

  Example hyps : complete_bases bases2 = true /\ terms_within T1 bases2 = true /\ terms_within T2 bases2 = true /\
                 In [0; 0]%nat (grid_of bases2) /\ length (grid_of bases2) = 4%nat.
  Proof. vm_compute. repeat split; try reflexivity. now left. Qed.

  Example sigma_values : map (fun k => phase_z (cross_parity (site_parities bases2 k))) (grid_of bases2) = [1; 1; 1; -1].
  Proof. reflexivity. Qed.

  Example factors :
    ref_element T1 bases2 [0; 0]%nat [1; 1]%nat = -1 /\ ref_element T2 bases2 [1; 1]%nat [0; 0]%nat = 1 /\
    ref_element (term_product T1 T2) bases2 [0; 0]%nat [0; 0]%nat = 1.
  Proof. vm_compute. repeat split; reflexivity. Qed.

  Example product_instance :
    ref_element (term_product T1 T2) bases2 [0; 0]%nat [0; 0]%nat =
    zsum (map (fun k => phase_z (cross_parity (site_parities bases2 k)) *
                        ref_element T1 bases2 [0; 0]%nat k * ref_element T2 bases2 k [0; 0]%nat) (grid_of bases2)).
  Proof. apply product_formula; [exact (proj1 hyps) | exact (proj1 (proj2 (proj2 hyps)))]. Qed.

  (* without sigma the formula is false on this instance *)
  Example sigma_needed :
    ref_element (term_product T1 T2) bases2 [0; 0]%nat [0; 0]%nat <>
    zsum (map (fun k => ref_element T1 bases2 [0; 0]%nat k * ref_element T2 bases2 k [0; 0]%nat) (grid_of bases2)).
  Proof. vm_compute. discriminate. Qed.

  (* an INCOMPLETE basis (the state a^+ b^+ of a two-mode site missing): the formula fails *)
  Definition bases_bad : list site_basis := [[[]; [ad]; [bd]]].
  Example incomplete_fails :
    complete_bases bases_bad = false /\
    ref_element (term_product T1 T2) bases_bad [0]%nat [0]%nat <>
    zsum (map (fun k => phase_z (cross_parity (site_parities bases_bad k)) *
                        ref_element T1 bases_bad [0]%nat k * ref_element T2 bases_bad k [0]%nat) (grid_of bases_bad)).
  Proof. split; [reflexivity | vm_compute; discriminate]. Qed.

  (* the resolution of the identity for one pair of strings: hypotheses of string_resolution *)
  Example string_resolution_instance :
    vev ([a; b] ++ [bd; ad]) =
    zsum (map (fun k => phase_z (cross_parity (site_parities bases2 k)) *
                        vev ([a; b] ++ ket_ops bases2 k) * vev (bra_ops bases2 k ++ [bd; ad])) (grid_of bases2)).
  Proof.
    apply string_resolution; [exact (proj1 hyps)|]. intros m Hm. vm_compute in Hm. vm_compute. tauto.
  Qed.
End ProductExamples.
