(* Proofs/LazyProofs.v — C09: lazily tracked fermionic signs are unobservable.

   The model (Model/Fermi.v) keeps a fermionic array as an abelian array of raw
   blocks plus a table `fphases` of the sectors that carry a pending factor -1.
   `f_value x` is the array with the pending signs multiplied in.  This file
   shows that every operation of the model factors through `f_value` (and the
   odd-position labels): for each unary operation `op` there is a function
   `vop` on VALUES with `f_value (op x) = vop (f_value x) (foddpos x)`, so
   that the lazy array and its synchronised copy can never be told apart,
   whatever finite program is run on them; the binary / block-reading
   operations (tensordot, matmul, trace, fuse, unfuse, einsum) synchronise
   before they read blocks and therefore return EQUAL results on equivalent
   operands.

   Ring laws used (Section Context, instantiated for ZRing and GRing at the end):
     rneg (rneg a) = a,  rneg 0 = 0,  rconj (rneg a) = rneg (rconj a). *)
From SV Require Import Base.Prelude Base.Sym Base.Tensor Gen.PhasePerm Model.Sectors Model.Array Model.Arith Model.Fermi.
From Coq Require Import Permutation.
Local Open Scope nat_scope.

(* ------------------------------------------------------------------ *)
(* generic facts on membership tables over a key type with decidable equality *)
Definition inj_on {A B} (f : A -> B) (l : list A) : Prop :=
  forall a b, In a l -> In b l -> f a = f b -> a = b.

Lemma inj_on_incl {A B} (f : A -> B) l l' : incl l' l -> inj_on f l -> inj_on f l'.
Proof. intros Hi H a b Ha Hb. apply H; now apply Hi. Qed.

Lemma NoDup_map_inj_on {A B} (f : A -> B) l : NoDup l -> inj_on f l -> NoDup (map f l).
Proof.
  induction l as [|a l IH]; intros Hnd Hinj; cbn [map]; [constructor|].
  inversion Hnd as [|? ? Hna Hnd']; subst. constructor.
  - intros Hin. apply in_map_iff in Hin. destruct Hin as [b [Hfb Hb]].
    assert (b = a) by (apply Hinj; [now right | now left | exact Hfb]). subst b. now apply Hna.
  - apply IH; [exact Hnd'|]. eapply inj_on_incl; [|exact Hinj]. intros z Hz. now right.
Qed.

Section Keys.
  Context {K : Type} (eqb : K -> K -> bool) (eqb_eq : forall a b, eqb a b = true <-> a = b).

  Definition gtoggle (ph : list K) (a : K) : list K :=
    if mem eqb a ph then filter (fun t => negb (eqb a t)) ph else ph ++ [a].

  Lemma eqb_refl a : eqb a a = true.
  Proof. now apply eqb_eq. Qed.

  Lemma eqb_sym a b : eqb a b = eqb b a.
  Proof.
    destruct (eqb a b) eqn:E1, (eqb b a) eqn:E2; try reflexivity.
    - apply eqb_eq in E1. subst. now rewrite eqb_refl in E2.
    - apply eqb_eq in E2. subst. now rewrite eqb_refl in E1.
  Qed.

  Lemma mem_In s l : mem eqb s l = true <-> In s l.
  Proof.
    induction l as [|a l IH]; cbn [mem In]; [split; [discriminate | tauto]|].
    rewrite orb_true_iff, IH, eqb_eq. split; intros [H|H]; auto.
  Qed.

  Lemma mem_false s l : mem eqb s l = false <-> ~ In s l.
  Proof. rewrite <- mem_In. destruct (mem eqb s l); split; congruence. Qed.

  Lemma mem_app s l1 l2 : mem eqb s (l1 ++ l2) = mem eqb s l1 || mem eqb s l2.
  Proof. induction l1 as [|a l1 IH]; cbn [mem app]; [reflexivity|]. now rewrite IH, orb_assoc. Qed.

  Lemma mem_filter p s l : mem eqb s (filter p l) = p s && mem eqb s l.
  Proof.
    induction l as [|a l IH]; cbn [mem filter]; [now rewrite andb_false_r|].
    destruct (p a) eqn:Pa; cbn [mem]; rewrite IH.
    - destruct (eqb s a) eqn:E; cbn [orb].
      + apply eqb_eq in E. subst. now rewrite Pa.
      + reflexivity.
    - destruct (eqb s a) eqn:E; cbn [orb].
      + apply eqb_eq in E. subst. now rewrite Pa.
      + reflexivity.
  Qed.

  Lemma mem_toggle s ph a : mem eqb s (gtoggle ph a) = xorb (mem eqb s ph) (eqb s a).
  Proof.
    unfold gtoggle. destruct (mem eqb a ph) eqn:Ha.
    - rewrite mem_filter. destruct (eqb s a) eqn:E.
      + apply eqb_eq in E. subst. now rewrite eqb_refl, Ha.
      + rewrite (eqb_sym a s), E. cbn. now rewrite xorb_false_r.
    - rewrite mem_app. cbn [mem]. rewrite orb_false_r. destruct (eqb s a) eqn:E.
      + apply eqb_eq in E. subst. now rewrite Ha.
      + now rewrite orb_false_r, xorb_false_r.
  Qed.

  (* THE KEY LEMMA: toggling over a duplicate-free list of stored keys flips the
     status of a stored key exactly when the condition holds for it, and leaves
     all other keys alone *)
  Lemma mem_fold_toggle (c : K -> bool) l : NoDup l -> forall ph0 s,
    mem eqb s (fold_left (fun ph a => if c a then gtoggle ph a else ph) l ph0)
    = xorb (mem eqb s ph0) (mem eqb s l && c s).
  Proof.
    induction l as [|a l IH]; intros Hnd ph0 s; cbn [fold_left mem].
    - now rewrite xorb_false_r.
    - inversion Hnd as [|? ? Hna Hnd']; subst. rewrite (IH Hnd').
      destruct (eqb s a) eqn:E; cbn [orb].
      + apply eqb_eq in E. subst a. apply mem_false in Hna. rewrite Hna. cbn [andb].
        rewrite xorb_false_r. destruct (c s); [now rewrite mem_toggle, eqb_refl | now rewrite xorb_false_r].
      + destruct (c a); [rewrite mem_toggle, E, xorb_false_r|]; reflexivity.
  Qed.

  Lemma in_toggle p ph a : In p (gtoggle ph a) -> In p ph \/ p = a.
  Proof.
    unfold gtoggle. destruct (mem eqb a ph).
    - intros H. apply filter_In in H. now left.
    - intros H. apply in_app_or in H. destruct H as [H|[H|[]]]; auto.
  Qed.

  Lemma in_fold_toggle (c : K -> bool) l : forall ph0 p,
    In p (fold_left (fun ph a => if c a then gtoggle ph a else ph) l ph0) -> In p ph0 \/ In p l.
  Proof.
    induction l as [|a l IH]; intros ph0 p H; cbn [fold_left] in H; [now left|].
    apply IH in H. destruct H as [H|H]; [|right; now right].
    destruct (c a); [|now left]. apply in_toggle in H. destruct H as [H|H]; [now left | right; left; now symmetry].
  Qed.

  (* a table rebuilt from the stored keys through an injective renaming *)
  Lemma mem_flat_map_flag (f g : K -> K) (flag : K -> bool) l s :
    (forall a, In a l -> g a = f a) -> inj_on f l -> In s l ->
    mem eqb (f s) (flat_map (fun a => if flag a then [g a] else []) l) = flag s.
  Proof.
    intros Hg Hinj Hs.
    destruct (flag s) eqn:Fs.
    - apply mem_In. apply in_flat_map. exists s. split; [exact Hs|]. rewrite Fs, Hg by exact Hs. now left.
    - apply mem_false. intros H. apply in_flat_map in H. destruct H as [a [Ha H]].
      destruct (flag a) eqn:Fa; [|destruct H]. destruct H as [H|[]].
      rewrite Hg in H by exact Ha. apply Hinj in H; [|exact Ha|exact Hs]. subst a. congruence.
  Qed.

  Lemma mem_map_inj (f : K -> K) l ph s :
    inj_on f (l ++ ph) -> In s l -> mem eqb (f s) (map f ph) = mem eqb s ph.
  Proof.
    intros Hinj Hs. destruct (mem eqb s ph) eqn:E.
    - apply mem_In. apply in_map. now apply mem_In.
    - apply mem_false. apply mem_false in E. intros H. apply E. apply in_map_iff in H.
      destruct H as [p [Hfp Hp]]. assert (p = s); [|now subst].
      apply Hinj; [apply in_or_app; now right | apply in_or_app; now left | exact Hfp].
  Qed.
End Keys.

(* list facts about `permuted` *)
Lemma map_nth_seq {A} (d : A) (s : list A) : map (fun i => nth i s d) (seq 0 (length s)) = s.
Proof.
  induction s as [|a s IH]; [reflexivity|].
  cbn [length seq map nth]. f_equal. rewrite <- seq_shift, map_map. exact IH.
Qed.

Lemma permuted_rev {A} (d : A) (s : list A) n : length s = n -> permuted d s (rev (seq 0 n)) = rev s.
Proof. intros <-. unfold permuted. rewrite map_rev. now rewrite map_nth_seq. Qed.

Lemma permuted_length {A} (d : A) (s : list A) axes : length (permuted d s axes) = length axes.
Proof. unfold permuted. apply map_length. Qed.

Lemma permuted_inj {A} (d : A) axes n (s s' : list A) :
  Permutation axes (seq 0 n) -> length s = n -> length s' = n ->
  permuted d s axes = permuted d s' axes -> s = s'.
Proof.
  intros Hp Hs Hs' H. unfold permuted in H.
  apply (nth_ext _ _ d d); [congruence|]. intros i Hi.
  assert (Hin : In i axes).
  { apply (Permutation_in i (Permutation_sym Hp)). apply in_seq. lia. }
  revert i Hin Hi. clear Hp. induction axes as [|a axes IH]; intros i Hin Hi; [destruct Hin|].
  cbn [map] in H. injection H as H0 H'. destruct Hin as [->|Hin]; [exact H0 | now apply IH].
Qed.

Lemma permuted_inj_on {A} (d : A) axes n (l : list (list A)) :
  Permutation axes (seq 0 n) -> Forall (fun s => length s = n) l -> inj_on (fun s => permuted d s axes) l.
Proof.
  intros Hp Hl a b Ha Hb. rewrite Forall_forall in Hl. apply (permuted_inj d axes n); auto.
Qed.

(* ------------------------------------------------------------------ *)
(* tensors: negation is an involution commuting with transpose and conjugation *)
Section TensorNeg.
  Context (R : Ring).
  Context (rneg_invol : forall a : RT R, rneg R (rneg R a) = a)
          (rneg_zero : rneg R (r0 R) = r0 R)
          (rconj_rneg : forall a : RT R, rconj R (rneg R a) = rneg R (rconj R a)).

  Lemma tneg_invol (t : tensor R) : tneg R (tneg R t) = t.
  Proof.
    destruct t as [sh d]. unfold tneg, tmap. cbn [tshape tdata]. f_equal.
    rewrite map_map. rewrite <- (map_id d) at 2. apply map_ext. exact rneg_invol.
  Qed.

  Lemma get_tneg (t : tensor R) idx : get R (tneg R t) idx = rneg R (get R t idx).
  Proof.
    unfold get, tneg, tmap. cbn [tshape tdata].
    rewrite <- rneg_zero at 1. apply map_nth.
  Qed.

  Lemma tneg_build sh f : tneg R (build R sh f) = build R sh (fun i => rneg R (f i)).
  Proof. unfold tneg, tmap, build. cbn [tshape tdata]. now rewrite map_map. Qed.

  Lemma ttranspose_tneg (t : tensor R) p : ttranspose R (tneg R t) p = tneg R (ttranspose R t p).
  Proof.
    unfold ttranspose. rewrite tneg_build. change (tshape (tneg R t)) with (tshape t).
    unfold build. f_equal. apply map_ext. intros i. apply get_tneg.
  Qed.

  Lemma tconj_tneg (t : tensor R) : tconj R (tneg R t) = tneg R (tconj R t).
  Proof.
    unfold tconj, tneg, tmap. cbn [tshape tdata]. f_equal. rewrite !map_map. apply map_ext. exact rconj_rneg.
  Qed.
End TensorNeg.

Lemma ZRing_rneg_invol : forall a : RT ZRing, rneg ZRing (rneg ZRing a) = a.
Proof. intros a. cbn. apply Z.opp_involutive. Qed.
Lemma ZRing_rneg_zero : rneg ZRing (r0 ZRing) = r0 ZRing.
Proof. reflexivity. Qed.
Lemma ZRing_rconj_rneg : forall a : RT ZRing, rconj ZRing (rneg ZRing a) = rneg ZRing (rconj ZRing a).
Proof. reflexivity. Qed.
Lemma GRing_rneg_invol : forall a : RT GRing, rneg GRing (rneg GRing a) = a.
Proof. intros [x y]. cbn. now rewrite !Z.opp_involutive. Qed.
Lemma GRing_rneg_zero : rneg GRing (r0 GRing) = r0 GRing.
Proof. reflexivity. Qed.
Lemma GRing_rconj_rneg : forall a : RT GRing, rconj GRing (rneg GRing a) = rneg GRing (rconj GRing a).
Proof. intros [x y]. reflexivity. Qed.

(* ------------------------------------------------------------------ *)
Section Lazy.
  Context (G : Symmetry) (R : Ring) (HG : GroupLaws G).
  Context (rneg_invol : forall a : RT R, rneg R (rneg R a) = a)
          (rneg_zero : rneg R (r0 R) = r0 R)
          (rconj_rneg : forall a : RT R, rconj R (rneg R a) = rneg R (rconj R a)).
  Notation sector := (list (C G)).
  Notation keq := (list_eqb (ceqb G)).
  Notation arr := (aarray G R).
  Notation farr := (farray G R).

  Lemma keq_eq (a b : sector) : keq a b = true <-> a = b.
  Proof.
    revert b. induction a as [|x a IH]; intros [|y b]; cbn [list_eqb]; try (split; [discriminate|congruence]).
    - tauto.
    - rewrite andb_true_iff, IH, (ceqb_eq G HG). split; [intros [-> ->]; reflexivity | intros H; injection H; auto].
  Qed.

  (* the model's table operations are the generic ones *)
  Lemma ph_toggle_gen ph s : ph_toggle G ph s = gtoggle keq ph s.
  Proof. reflexivity. Qed.

  Lemma ph_has_toggle s ph a : ph_has G s (ph_toggle G ph a) = xorb (ph_has G s ph) (keq s a).
  Proof. unfold ph_has. rewrite ph_toggle_gen. apply (mem_toggle keq keq_eq). Qed.

  (* item 2 of the plan: the key lemma, for the model's tables *)
  Lemma ph_has_fold_toggle (c : sector -> bool) l ph0 s : NoDup l ->
    ph_has G s (fold_left (fun ph a => if c a then ph_toggle G ph a else ph) l ph0)
    = xorb (ph_has G s ph0) (mem keq s l && c s).
  Proof. intros Hnd. unfold ph_has. apply (mem_fold_toggle keq keq_eq c l Hnd). Qed.

  Lemma fold_toggle_stored (c : sector -> bool) l ph0 s : NoDup l -> In s l ->
    ph_has G s (fold_left (fun ph a => if c a then ph_toggle G ph a else ph) l ph0)
    = xorb (ph_has G s ph0) (c s).
  Proof.
    intros Hnd Hs. rewrite ph_has_fold_toggle by exact Hnd.
    apply (mem_In keq keq_eq) in Hs. now rewrite Hs.
  Qed.

  Lemma fold_toggle_not_stored (c : sector -> bool) l ph0 s : NoDup l -> ~ In s l ->
    ph_has G s (fold_left (fun ph a => if c a then ph_toggle G ph a else ph) l ph0) = ph_has G s ph0.
  Proof.
    intros Hnd Hs. rewrite ph_has_fold_toggle by exact Hnd.
    apply (mem_false keq keq_eq) in Hs. rewrite Hs. apply xorb_false_r.
  Qed.

  (* ---------------- sync ---------------- *)
  Lemma map_fst_snd_id {A B} (l : list (A * B)) : map (fun p => (fst p, snd p)) l = l.
  Proof. rewrite <- (map_id l) at 2. apply map_ext. now intros [a b]. Qed.

  Lemma with_blocks_self (b : arr) : with_blocks G R b (blocks G R b) = b.
  Proof. now destruct b. Qed.

  Theorem sync_idem (x : farr) : f_phase_sync G R (f_phase_sync G R x) = f_phase_sync G R x.
  Proof.
    unfold f_phase_sync at 1. cbn [fphases foddpos ph_has mem].
    change (fbase G R (f_phase_sync G R x)) with (f_value G R x).
    rewrite map_id. rewrite with_blocks_self. reflexivity.
  Qed.

  Theorem sync_value (x : farr) : f_value G R (f_phase_sync G R x) = f_value G R x.
  Proof. unfold f_value. now rewrite sync_idem. Qed.

  Theorem sync_phases_empty (x : farr) : fphases G R (f_phase_sync G R x) = [].
  Proof. reflexivity. Qed.

  Lemma sync_oddpos (x : farr) : foddpos G R (f_phase_sync G R x) = foddpos G R x.
  Proof. reflexivity. Qed.

  (* ---------------- value-level vocabulary ---------------- *)
  Definition sgn (b : bool) (t : tensor R) : tensor R := if b then tneg R t else t.
  (* multiply the block of every sector s with c s = true by -1 *)
  Definition a_signmap (c : sector -> bool) (v : arr) : arr :=
    with_blocks G R v (map (fun sb => (fst sb, sgn (c (fst sb)) (snd sb))) (blocks G R v)).

  Definition signed_blocks (x : farr) : list (sector * tensor R) := blocks G R (f_value G R x).

  Lemma sgn_xorb a b t : sgn (xorb a b) t = sgn b (sgn a t).
  Proof. destruct a, b; cbn [xorb sgn]; try reflexivity. now rewrite (tneg_invol R rneg_invol). Qed.

  Lemma sgn_commute (ft : tensor R -> tensor R) b t :
    (forall t, ft (tneg R t) = tneg R (ft t)) -> ft (sgn b t) = sgn b (ft t).
  Proof. intros H. destruct b; cbn [sgn]; [apply H | reflexivity]. Qed.

  Lemma f_value_eq (x : farr) : f_value G R x = a_signmap (fun s => ph_has G s (fphases G R x)) (fbase G R x).
  Proof.
    unfold f_value, f_phase_sync, a_signmap. cbn [fbase]. f_equal. apply map_ext.
    intros [s t]. cbn [fst snd]. now destruct (ph_has G s (fphases G R x)).
  Qed.

  Lemma value_indices (x : farr) : indices G R (f_value G R x) = indices G R (fbase G R x).
  Proof. reflexivity. Qed.
  Lemma value_charge (x : farr) : charge G R (f_value G R x) = charge G R (fbase G R x).
  Proof. reflexivity. Qed.
  Lemma value_ndim (x : farr) : ndim G R (f_value G R x) = ndim G R (fbase G R x).
  Proof. reflexivity. Qed.
  Lemma signmap_sectors c (v : arr) : sectors G R (a_signmap c v) = sectors G R v.
  Proof. unfold sectors, a_signmap. cbn [blocks with_blocks]. rewrite map_map. reflexivity. Qed.
  Lemma value_sectors (x : farr) : sectors G R (f_value G R x) = fsectors G R x.
  Proof. rewrite f_value_eq. apply signmap_sectors. Qed.

  Lemma a_signmap_false c (v : arr) :
    (forall s, In s (sectors G R v) -> c s = false) -> a_signmap c v = v.
  Proof.
    intros H. unfold a_signmap. rewrite <- (with_blocks_self v) at 3. f_equal.
    rewrite <- (map_id (blocks G R v)) at 2. apply map_ext_in. intros [s t] Hin. cbn [fst snd].
    rewrite H; [reflexivity|]. unfold sectors. apply (in_map fst) in Hin. exact Hin.
  Qed.

  Lemma a_neg_signmap (v : arr) : a_neg G R v = a_signmap (fun _ => true) v.
  Proof. reflexivity. Qed.

  (* the master lemma: an operation that renames sectors by fk, maps blocks by a
     negation-compatible ft and whose new table agrees, on the stored sectors,
     with (old status) xor (c s), acts on the value as "multiply by (-1)^c, then
     rename and map" *)
  Lemma value_gen (b b' : arr) ph ph' odd odd' (fk : sector -> sector) (ft : tensor R -> tensor R) c :
    blocks G R b' = map (fun sb => (fk (fst sb), ft (snd sb))) (blocks G R b) ->
    (forall t, ft (tneg R t) = tneg R (ft t)) ->
    (forall s, In s (sectors G R b) -> ph_has G (fk s) ph' = xorb (ph_has G s ph) (c s)) ->
    f_value G R (mkF G R b' ph' odd')
    = mkA G R (indices G R b') (charge G R b')
        (map (fun sb => (fk (fst sb), ft (snd sb))) (blocks G R (a_signmap c (f_value G R (mkF G R b ph odd))))).
  Proof.
    intros Hb Hft Hph. rewrite !f_value_eq. unfold a_signmap, with_blocks. cbn [fbase fphases blocks indices charge].
    f_equal. rewrite Hb, !map_map. apply map_ext_in. intros [s t] Hin. cbn [fst snd].
    rewrite Hph by (unfold sectors; apply (in_map fst) in Hin; exact Hin).
    rewrite sgn_xorb. rewrite !(sgn_commute ft) by exact Hft. reflexivity.
  Qed.

  Lemma value_with_phases (x : farr) ph' c :
    (forall s, In s (fsectors G R x) -> ph_has G s ph' = xorb (ph_has G s (fphases G R x)) (c s)) ->
    f_value G R (with_phases G R x ph') = a_signmap c (f_value G R x).
  Proof.
    intros H. destruct x as [b ph odd]. unfold with_phases. cbn [fbase fphases foddpos] in *.
    rewrite (value_gen b b ph ph' odd odd (fun s => s) (fun t => t) c);
      [| symmetry; apply map_fst_snd_id | reflexivity | exact H].
    rewrite map_fst_snd_id. reflexivity.
  Qed.

  (* ---------------- the four phase operations at value level ---------------- *)
  Theorem value_phase_flip (x : farr) axs : NoDup (fsectors G R x) ->
    f_value G R (f_phase_flip G R x axs) = a_signmap (fun s => count_odd G s axs) (f_value G R x).
  Proof.
    intros Hnd. unfold f_phase_flip. destruct axs as [|a axs]; cbn [is_nil].
    - symmetry. apply a_signmap_false. reflexivity.
    - apply value_with_phases. intros s Hs. now apply fold_toggle_stored.
  Qed.

  Theorem value_phase_transpose (x : farr) perm : NoDup (fsectors G R x) ->
    f_value G R (f_phase_transpose G R x perm) = a_signmap (fun s => perm_minus G s perm) (f_value G R x).
  Proof.
    intros Hnd. unfold f_phase_transpose. apply value_with_phases. intros s Hs. now apply fold_toggle_stored.
  Qed.

  Theorem value_phase_sector (x : farr) s0 :
    f_value G R (f_phase_sector G R x s0) = a_signmap (fun s => keq s s0) (f_value G R x).
  Proof. unfold f_phase_sector. apply value_with_phases. intros s _. apply ph_has_toggle. Qed.

  Theorem value_phase_global (x : farr) : NoDup (fsectors G R x) ->
    f_value G R (f_phase_global G R x) = a_neg G R (f_value G R x).
  Proof.
    intros Hnd. unfold f_phase_global. rewrite a_neg_signmap. apply value_with_phases. intros s Hs.
    change (fold_left (ph_toggle G) (fsectors G R x) (fphases G R x))
      with (fold_left (fun ph a => if (fun _ : sector => true) a then ph_toggle G ph a else ph) (fsectors G R x) (fphases G R x)).
    now rewrite fold_toggle_stored.
  Qed.

  (* ---------------- transpose ---------------- *)
  Definition v_transpose (axes : list nat) (phase : bool) (v : arr) : arr :=
    a_transpose G R (if phase then a_signmap (fun s => perm_minus G s (Some axes)) v else v) axes.

  Theorem value_transpose (x : farr) axes (phase : bool) :
    inj_on (fun s : sector => permuted (ident G) s axes) (fsectors G R x ++ (if phase then [] else fphases G R x)) ->
    f_value G R (f_transpose G R x axes phase) = v_transpose axes phase (f_value G R x).
  Proof.
    intros Hinj. destruct x as [b ph odd]. unfold f_transpose, v_transpose, fsectors in *. cbn [fbase fphases foddpos] in *.
    destruct phase.
    - rewrite app_nil_r in Hinj.
      erewrite (value_gen b (a_transpose G R b axes) ph _ odd odd
                  (fun s => permuted (ident G) s axes) (fun t => ttranspose R t axes)
                  (fun s => perm_minus G s (Some axes))).
      + reflexivity.
      + reflexivity.
      + intros t. apply (ttranspose_tneg R rneg_zero).
      + intros s Hs. unfold ph_has at 1.
        apply (mem_flat_map_flag keq keq_eq (fun s => permuted (ident G) s axes) (fun s => permuted (ident G) s axes)
                 (fun s => xorb (ph_has G s ph) (perm_minus G s (Some axes)))); auto.
    - erewrite (value_gen b (a_transpose G R b axes) ph _ odd odd
                  (fun s => permuted (ident G) s axes) (fun t => ttranspose R t axes) (fun _ => false)).
      + rewrite a_signmap_false by reflexivity. reflexivity.
      + reflexivity.
      + intros t. apply (ttranspose_tneg R rneg_zero).
      + intros s Hs. rewrite xorb_false_r. unfold ph_has.
        apply (mem_map_inj keq keq_eq (fun s => permuted (ident G) s axes) (sectors G R b)); assumption.
  Qed.

  (* ---------------- conj ---------------- *)
  Definition conj_axes (ixs : list (index G)) : list nat :=
    map fst (filter (fun p => idual G (snd p)) (enumerate ixs)).
  Definition conj_sign (pp pd : bool) (ixs : list (index G)) (s : sector) : bool :=
    xorb (pp && perm_minus G s None) (pd && count_odd G s (conj_axes ixs)).
  Definition v_conj (pp pd : bool) (v : arr) (odd : list fop) : arr :=
    let y := a_conj G R (a_signmap (conj_sign pp pd (indices G R v)) v) in
    if pp && parity G (charge G R y) && Nat.odd (length (oddpos_dag odd)) then a_neg G R y else y.

  Lemma conj_sectors (b : arr) : sectors G R (a_conj G R b) = sectors G R b.
  Proof. unfold sectors, a_conj. cbn [blocks]. now rewrite map_map. Qed.

  Theorem value_conj (x : farr) pp pd : NoDup (fsectors G R x) ->
    f_value G R (f_conj G R x pp pd) = v_conj pp pd (f_value G R x) (foddpos G R x).
  Proof.
    intros Hnd. destruct x as [b ph odd]. unfold f_conj, v_conj, fsectors in *. cbn [fbase fphases foddpos] in *.
    set (c := conj_sign pp pd (indices G R b)).
    set (ph' := fold_left _ (sectors G R b) ph).
    assert (Hy : f_value G R (mkF G R (a_conj G R b) ph' (oddpos_dag odd))
                 = a_conj G R (a_signmap c (f_value G R (mkF G R b ph odd)))).
    { erewrite (value_gen b (a_conj G R b) ph ph' odd (oddpos_dag odd) (fun s => s) (fun t => tconj R t) c).
      - reflexivity.
      - reflexivity.
      - intros t. apply (tconj_tneg R rconj_rneg).
      - intros s Hs. subst ph' c. unfold conj_sign, conj_axes. now apply fold_toggle_stored. }
    change (indices G R (f_value G R (mkF G R b ph odd))) with (indices G R b). fold c.
    change (fparity G R (mkF G R (a_conj G R b) ph' (oddpos_dag odd)))
      with (parity G (charge G R (a_conj G R (a_signmap c (f_value G R (mkF G R b ph odd)))))).
    destruct (pp && _ && _).
    - rewrite value_phase_global; [now rewrite Hy|]. unfold fsectors. cbn [fbase]. now rewrite conj_sectors.
    - exact Hy.
  Qed.

  (* ---------------- dagger ---------------- *)
  Definition nondual_axes (ixs : list (index G)) : list nat :=
    map fst (filter (fun p => negb (idual G (snd p))) (enumerate ixs)).
  Definition v_dagger (pd : bool) (v : arr) (odd : list fop) : arr :=
    let y := a_dagger G R v in
    let y := if parity G (charge G R y) && Nat.odd (length (oddpos_dag odd)) then a_neg G R y else y in
    if pd then a_signmap (fun s => count_odd G s (nondual_axes (indices G R y))) y else y.

  Lemma dagger_blocks (b : arr) :
    blocks G R (a_dagger G R b)
    = map (fun sb => (permuted (ident G) (fst sb) (rev_axes (ndim G R b)),
                      ttranspose R (tconj R (snd sb)) (rev_axes (ndim G R b)))) (blocks G R b).
  Proof. unfold a_dagger, a_transpose, a_conj. cbn [blocks]. rewrite map_map. reflexivity. Qed.

  Lemma dagger_sectors (b : arr) : Forall (fun s => length s = ndim G R b) (sectors G R b) ->
    sectors G R (a_dagger G R b) = map (@rev _) (sectors G R b).
  Proof.
    intros Hl. unfold sectors at 1. rewrite dagger_blocks, map_map. unfold sectors. rewrite map_map.
    apply map_ext_in. intros [s t] Hin. cbn [fst]. apply permuted_rev.
    rewrite Forall_forall in Hl. apply Hl. unfold sectors. apply (in_map fst) in Hin. exact Hin.
  Qed.

  Lemma rev_inj_on {A} (l : list (list A)) : inj_on (@rev A) l.
  Proof. intros a b _ _ H. rewrite <- (rev_involutive a), <- (rev_involutive b). now f_equal. Qed.

  Theorem value_dagger (x : farr) pd : NoDup (fsectors G R x) ->
    Forall (fun s => length s = ndim G R (fbase G R x)) (fsectors G R x) ->
    f_value G R (f_dagger G R x pd) = v_dagger pd (f_value G R x) (foddpos G R x).
  Proof.
    intros Hnd Hlen. destruct x as [b ph odd]. unfold f_dagger, v_dagger, fsectors in *. cbn [fbase fphases foddpos] in *.
    set (ph' := flat_map _ (sectors G R b)).
    set (y0 := mkF G R (a_dagger G R b) ph' (oddpos_dag odd)).
    assert (Hy0 : f_value G R y0 = a_dagger G R (f_value G R (mkF G R b ph odd))).
    { subst y0.
      erewrite (value_gen b (a_dagger G R b) ph ph' odd (oddpos_dag odd)
                  (fun s => permuted (ident G) s (rev_axes (ndim G R b)))
                  (fun t => ttranspose R (tconj R t) (rev_axes (ndim G R b))) (fun _ => false)).
      - rewrite a_signmap_false by reflexivity. unfold a_dagger at 3, a_transpose, a_conj. cbn [blocks indices charge].
        rewrite map_map. reflexivity.
      - apply dagger_blocks.
      - intros t. rewrite (tconj_tneg R rconj_rneg). apply (ttranspose_tneg R rneg_zero).
      - intros s Hs. rewrite xorb_false_r. subst ph'. unfold ph_has at 1.
        rewrite Forall_forall in Hlen. unfold rev_axes. rewrite permuted_rev by (now apply Hlen).
        apply (mem_flat_map_flag keq keq_eq (@rev _) (@rev _) (fun s => ph_has G s ph)); auto.
        apply rev_inj_on. }
    assert (Hnd0 : NoDup (fsectors G R y0)).
    { unfold fsectors. subst y0. cbn [fbase]. rewrite dagger_sectors by exact Hlen.
      apply NoDup_map_inj_on; [exact Hnd | apply rev_inj_on]. }
    change (fparity G R y0) with (parity G (charge G R (a_dagger G R (f_value G R (mkF G R b ph odd))))).
    change (foddpos G R y0) with (oddpos_dag odd).
    set (cond := parity G _ && Nat.odd _).
    set (y1 := if cond then f_phase_global G R y0 else y0).
    assert (Hy1 : f_value G R y1 = if cond then a_neg G R (a_dagger G R (f_value G R (mkF G R b ph odd)))
                                   else a_dagger G R (f_value G R (mkF G R b ph odd))).
    { subst y1. destruct cond; [rewrite value_phase_global by exact Hnd0; now rewrite Hy0 | exact Hy0]. }
    assert (Hs1 : fsectors G R y1 = fsectors G R y0) by (subst y1; now destruct cond).
    assert (Hi1 : indices G R (fbase G R y1) = indices G R (a_dagger G R (f_value G R (mkF G R b ph odd))))
      by (subst y1; now destruct cond).
    destruct pd.
    - rewrite value_phase_flip by (now rewrite Hs1). rewrite Hy1, Hi1. unfold nondual_axes.
      destruct cond; reflexivity.
    - exact Hy1.
  Qed.

  (* ---------------- the equivalence ---------------- *)
  Definition feq (x y : farr) : Prop :=
    f_value G R x = f_value G R y /\ foddpos G R x = foddpos G R y.
  Notation "x ~~ y" := (feq x y) (at level 70).

  Lemma feq_refl x : x ~~ x.
  Proof. now split. Qed.
  Lemma feq_sym x y : x ~~ y -> y ~~ x.
  Proof. intros [H1 H2]. now split. Qed.
  Lemma feq_trans x y z : x ~~ y -> y ~~ z -> x ~~ z.
  Proof. intros [H1 H2] [H3 H4]. split; congruence. Qed.

  Lemma feq_spec x y :
    x ~~ y <->
    indices G R (fbase G R x) = indices G R (fbase G R y) /\
    charge G R (fbase G R x) = charge G R (fbase G R y) /\
    foddpos G R x = foddpos G R y /\
    fsectors G R x = fsectors G R y /\
    signed_blocks x = signed_blocks y.
  Proof.
    split.
    - intros [Hv Ho]. repeat split.
      + rewrite <- !value_indices. now rewrite Hv.
      + rewrite <- !value_charge. now rewrite Hv.
      + exact Ho.
      + rewrite <- !value_sectors. now rewrite Hv.
      + unfold signed_blocks. now rewrite Hv.
    - intros (Hi & Hc & Ho & _ & Hb). split; [|exact Ho].
      change (f_value G R x) with (mkA G R (indices G R (fbase G R x)) (charge G R (fbase G R x)) (signed_blocks x)).
      change (f_value G R y) with (mkA G R (indices G R (fbase G R y)) (charge G R (fbase G R y)) (signed_blocks y)).
      now rewrite Hi, Hc, Hb.
  Qed.

  Lemma feq_sectors x y : x ~~ y -> fsectors G R x = fsectors G R y.
  Proof. intros H. apply feq_spec in H. tauto. Qed.
  Lemma feq_indices x y : x ~~ y -> indices G R (fbase G R x) = indices G R (fbase G R y).
  Proof. intros H. apply feq_spec in H. tauto. Qed.
  Lemma feq_ndim x y : x ~~ y -> ndim G R (fbase G R x) = ndim G R (fbase G R y).
  Proof. intros H. unfold ndim. now rewrite (feq_indices x y H). Qed.
  Lemma feq_charge x y : x ~~ y -> charge G R (fbase G R x) = charge G R (fbase G R y).
  Proof. intros H. apply feq_spec in H. tauto. Qed.

  Lemma sync_feq x : f_phase_sync G R x ~~ x.
  Proof. split; [apply sync_value | reflexivity]. Qed.

  Lemma sync_sectors x : fsectors G R (f_phase_sync G R x) = fsectors G R x.
  Proof. apply feq_sectors, sync_feq. Qed.

  (* the observable (decidable) equality of the model sees only the equivalence class *)
  Lemma farray_eqb_feq x x' y y' : x ~~ x' -> y ~~ y' -> farray_eqb G R x y = farray_eqb G R x' y'.
  Proof. intros [H1 H2] [H3 H4]. unfold farray_eqb. now rewrite H1, H2, H3, H4. Qed.

  (* ---------------- programs of unary operations ---------------- *)
  Inductive lop :=
  | LFlip (axs : list nat)
  | LPhaseTranspose (perm : option (list nat))
  | LSector (s : sector)
  | LGlobal
  | LSync
  | LTranspose (axes : list nat) (phase : bool)
  | LConj (pp pd : bool)
  | LDagger (pd : bool).

  Definition run_op (op : lop) (x : farr) : farr :=
    match op with
    | LFlip axs => f_phase_flip G R x axs
    | LPhaseTranspose perm => f_phase_transpose G R x perm
    | LSector s => f_phase_sector G R x s
    | LGlobal => f_phase_global G R x
    | LSync => f_phase_sync G R x
    | LTranspose axes phase => f_transpose G R x axes phase
    | LConj pp pd => f_conj G R x pp pd
    | LDagger pd => f_dagger G R x pd
    end.
  Definition run_ops (p : list lop) (x : farr) : farr := fold_left (fun x op => run_op op x) p x.

  (* what each instruction does to the VALUE and to the labels *)
  Definition vop (op : lop) (v : arr) (odd : list fop) : arr :=
    match op with
    | LFlip axs => a_signmap (fun s => count_odd G s axs) v
    | LPhaseTranspose perm => a_signmap (fun s => perm_minus G s perm) v
    | LSector s0 => a_signmap (fun s => keq s s0) v
    | LGlobal => a_neg G R v
    | LSync => v
    | LTranspose axes phase => v_transpose axes phase v
    | LConj pp pd => v_conj pp pd v odd
    | LDagger pd => v_dagger pd v odd
    end.
  Definition oop (op : lop) (odd : list fop) : list fop :=
    match op with LConj _ _ | LDagger _ => oddpos_dag odd | _ => odd end.
  Fixpoint vrun (p : list lop) (v : arr) (odd : list fop) : arr * list fop :=
    match p with
    | [] => (v, odd)
    | op :: p' => vrun p' (vop op v odd) (oop op odd)
    end.

  (* side conditions: a transposition is a permutation of the axes, a sector
     named explicitly has the array's rank *)
  Definition lop_ok (n : nat) (op : lop) : Prop :=
    match op with
    | LSector s => length s = n
    | LTranspose axes _ => Permutation axes (seq 0 n)
    | _ => True
    end.
  (* the dict invariant: stored sectors are distinct keys of the array's rank,
     and so are the keys of the sign table *)
  Definition lwf (x : farr) : Prop :=
    NoDup (fsectors G R x) /\
    Forall (fun s : sector => length s = ndim G R (fbase G R x)) (fsectors G R x ++ fphases G R x).

  Lemma lwf_nodup x : lwf x -> NoDup (fsectors G R x).
  Proof. now intros [H _]. Qed.
  Lemma lwf_len_sectors x : lwf x -> Forall (fun s : sector => length s = ndim G R (fbase G R x)) (fsectors G R x).
  Proof. intros [_ H]. apply Forall_app in H. tauto. Qed.
  Lemma lwf_len_phases x : lwf x -> Forall (fun s : sector => length s = ndim G R (fbase G R x)) (fphases G R x).
  Proof. intros [_ H]. apply Forall_app in H. tauto. Qed.

  Lemma lwf_mk (b : arr) ph odd :
    NoDup (sectors G R b) -> Forall (fun s : sector => length s = ndim G R b) (sectors G R b) ->
    Forall (fun s : sector => length s = ndim G R b) ph -> lwf (mkF G R b ph odd).
  Proof. intros H1 H2 H3. split; [exact H1|]. apply Forall_app. now split. Qed.

  Lemma lwf_same_base x y : fbase G R y = fbase G R x -> lwf x ->
    Forall (fun s : sector => length s = ndim G R (fbase G R x)) (fphases G R y) -> lwf y.
  Proof.
    intros Hb Hx Hp. destruct y as [b ph odd]. cbn [fbase fphases] in *. subst b.
    apply lwf_mk; [apply (lwf_nodup x Hx) | apply (lwf_len_sectors x Hx) | exact Hp].
  Qed.

  Lemma fold_toggle_len (c : sector -> bool) n l ph0 :
    Forall (fun s : sector => length s = n) l -> Forall (fun s : sector => length s = n) ph0 ->
    Forall (fun s : sector => length s = n) (fold_left (fun ph a => if c a then ph_toggle G ph a else ph) l ph0).
  Proof.
    intros Hl Hp. rewrite Forall_forall in *. intros p Hin.
    apply (in_fold_toggle keq c l ph0 p) in Hin. destruct Hin; auto.
  Qed.

  Lemma fbase_flip x axs : fbase G R (f_phase_flip G R x axs) = fbase G R x.
  Proof. unfold f_phase_flip. now destruct (is_nil axs). Qed.
  Lemma foddpos_flip x axs : foddpos G R (f_phase_flip G R x axs) = foddpos G R x.
  Proof. unfold f_phase_flip. now destruct (is_nil axs). Qed.

  Lemma lwf_flip x axs : lwf x -> lwf (f_phase_flip G R x axs).
  Proof.
    intros Hx. apply (lwf_same_base x); [apply fbase_flip | exact Hx |].
    unfold f_phase_flip. destruct (is_nil axs); [apply (lwf_len_phases x Hx)|]. cbn [fphases with_phases].
    apply fold_toggle_len; [apply (lwf_len_sectors x Hx) | apply (lwf_len_phases x Hx)].
  Qed.

  Lemma lwf_phase_transpose x perm : lwf x -> lwf (f_phase_transpose G R x perm).
  Proof.
    intros Hx. apply (lwf_same_base x); [reflexivity | exact Hx |]. cbn [f_phase_transpose fphases with_phases].
    apply fold_toggle_len; [apply (lwf_len_sectors x Hx) | apply (lwf_len_phases x Hx)].
  Qed.

  Lemma lwf_global x : lwf x -> lwf (f_phase_global G R x).
  Proof.
    intros Hx. apply (lwf_same_base x); [reflexivity | exact Hx |]. cbn [f_phase_global fphases with_phases].
    change (fold_left (ph_toggle G) (fsectors G R x) (fphases G R x))
      with (fold_left (fun ph a => if (fun _ : sector => true) a then ph_toggle G ph a else ph) (fsectors G R x) (fphases G R x)).
    apply fold_toggle_len; [apply (lwf_len_sectors x Hx) | apply (lwf_len_phases x Hx)].
  Qed.

  Lemma lwf_sector x s : lwf x -> length s = ndim G R (fbase G R x) -> lwf (f_phase_sector G R x s).
  Proof.
    intros Hx Hs. apply (lwf_same_base x); [reflexivity | exact Hx |]. cbn [f_phase_sector fphases with_phases].
    pose proof (lwf_len_phases x Hx) as Hp. rewrite Forall_forall in *. intros p Hin.
    rewrite ph_toggle_gen in Hin. apply in_toggle in Hin. destruct Hin as [Hin | ->]; auto.
  Qed.

  Lemma lwf_sync x : lwf x -> lwf (f_phase_sync G R x).
  Proof.
    intros Hx. split.
    - rewrite sync_sectors. apply (lwf_nodup x Hx).
    - rewrite sync_sectors. cbn [fphases f_phase_sync]. rewrite app_nil_r.
      apply (lwf_len_sectors x Hx).
  Qed.

  Lemma transpose_sectors (b : arr) axes :
    sectors G R (a_transpose G R b axes) = map (fun s => permuted (ident G) s axes) (sectors G R b).
  Proof. unfold sectors, a_transpose. cbn [blocks]. rewrite !map_map. reflexivity. Qed.

  Lemma transpose_ndim (b : arr) axes : ndim G R (a_transpose G R b axes) = length axes.
  Proof. unfold ndim, a_transpose. cbn [indices]. apply permuted_length. Qed.

  Lemma perm_seq_length axes n : Permutation axes (seq 0 n) -> length axes = n.
  Proof. intros H. apply Permutation_length in H. now rewrite seq_length in H. Qed.

  Lemma lwf_transpose x axes phase : lwf x -> Permutation axes (seq 0 (ndim G R (fbase G R x))) ->
    lwf (f_transpose G R x axes phase) /\ ndim G R (fbase G R (f_transpose G R x axes phase)) = ndim G R (fbase G R x).
  Proof.
    intros Hx Hp. pose proof (perm_seq_length _ _ Hp) as Hlen.
    assert (Hn : ndim G R (fbase G R (f_transpose G R x axes phase)) = ndim G R (fbase G R x)).
    { cbn [f_transpose fbase]. now rewrite transpose_ndim. }
    split; [|exact Hn].
    unfold f_transpose. apply lwf_mk.
    - rewrite transpose_sectors. apply NoDup_map_inj_on; [apply (lwf_nodup x Hx)|].
      eapply permuted_inj_on; [exact Hp | apply (lwf_len_sectors x Hx)].
    - rewrite transpose_sectors, transpose_ndim. apply Forall_forall. intros p Hin.
      apply in_map_iff in Hin. destruct Hin as [s [<- _]]. apply permuted_length.
    - rewrite transpose_ndim. apply Forall_forall. intros p Hin. destruct phase.
      + apply in_flat_map in Hin. destruct Hin as [s [_ Hin]].
        destruct (xorb _ _); [destruct Hin as [<-|[]]; apply permuted_length | destruct Hin].
      + apply in_map_iff in Hin. destruct Hin as [s [<- _]]. apply permuted_length.
  Qed.

  Lemma conj_ndim (b : arr) : ndim G R (a_conj G R b) = ndim G R b.
  Proof. unfold ndim, a_conj. cbn [indices]. apply map_length. Qed.

  Lemma lwf_conj x pp pd : lwf x ->
    lwf (f_conj G R x pp pd) /\ ndim G R (fbase G R (f_conj G R x pp pd)) = ndim G R (fbase G R x).
  Proof.
    intros Hx. unfold f_conj.
    set (ph' := fold_left _ (fsectors G R x) (fphases G R x)).
    set (y := mkF G R (a_conj G R (fbase G R x)) ph' (oddpos_dag (foddpos G R x))).
    assert (Hy : lwf y).
    { subst y. apply lwf_mk.
      - rewrite conj_sectors. apply (lwf_nodup x Hx).
      - rewrite conj_sectors, conj_ndim. apply (lwf_len_sectors x Hx).
      - rewrite conj_ndim. subst ph'. apply fold_toggle_len; [apply (lwf_len_sectors x Hx) | apply (lwf_len_phases x Hx)]. }
    assert (Hn : ndim G R (fbase G R y) = ndim G R (fbase G R x)) by (subst y; cbn [fbase]; apply conj_ndim).
    destruct (pp && _ && _); [split; [now apply lwf_global | exact Hn] | now split].
  Qed.

  Lemma dagger_ndim (b : arr) : ndim G R (a_dagger G R b) = ndim G R b.
  Proof.
    unfold a_dagger. rewrite transpose_ndim. unfold rev_axes. now rewrite rev_length, seq_length.
  Qed.

  Lemma lwf_dagger x pd : lwf x ->
    lwf (f_dagger G R x pd) /\ ndim G R (fbase G R (f_dagger G R x pd)) = ndim G R (fbase G R x).
  Proof.
    intros Hx. unfold f_dagger.
    set (ph' := flat_map _ (fsectors G R x)).
    set (y0 := mkF G R (a_dagger G R (fbase G R x)) ph' (oddpos_dag (foddpos G R x))).
    pose proof (lwf_len_sectors x Hx) as Hls.
    assert (Hy0 : lwf y0).
    { subst y0. apply lwf_mk.
      - rewrite dagger_sectors by exact Hls. apply NoDup_map_inj_on; [apply (lwf_nodup x Hx) | apply rev_inj_on].
      - rewrite dagger_sectors by exact Hls. rewrite dagger_ndim. rewrite Forall_forall in *. intros p Hin.
        apply in_map_iff in Hin. destruct Hin as [s [<- Hs]]. rewrite rev_length. now apply Hls.
      - rewrite dagger_ndim. subst ph'. rewrite Forall_forall in *. intros p Hin.
        apply in_flat_map in Hin. destruct Hin as [s [Hs Hin]].
        destruct (ph_has G s (fphases G R x)); [destruct Hin as [<-|[]]; rewrite rev_length; now apply Hls | destruct Hin]. }
    assert (Hn0 : ndim G R (fbase G R y0) = ndim G R (fbase G R x)) by (subst y0; cbn [fbase]; apply dagger_ndim).
    set (y1 := if fparity G R y0 && Nat.odd (length (foddpos G R y0)) then f_phase_global G R y0 else y0).
    assert (Hy1 : lwf y1 /\ ndim G R (fbase G R y1) = ndim G R (fbase G R x)).
    { subst y1. destruct (_ && _); [split; [now apply lwf_global | exact Hn0] | now split]. }
    destruct Hy1 as [Hy1 Hn1].
    destruct pd; [|now split]. split; [now apply lwf_flip | now rewrite fbase_flip].
  Qed.

  Theorem run_op_lwf op x : lwf x -> lop_ok (ndim G R (fbase G R x)) op ->
    lwf (run_op op x) /\ ndim G R (fbase G R (run_op op x)) = ndim G R (fbase G R x).
  Proof.
    intros Hx Hok. destruct op; cbn [run_op lop_ok] in *.
    - split; [now apply lwf_flip | now rewrite fbase_flip].
    - split; [now apply lwf_phase_transpose | reflexivity].
    - split; [now apply lwf_sector | reflexivity].
    - split; [now apply lwf_global | reflexivity].
    - split; [now apply lwf_sync | reflexivity].
    - now apply lwf_transpose.
    - now apply lwf_conj.
    - now apply lwf_dagger.
  Qed.

  Theorem run_op_oddpos op x : foddpos G R (run_op op x) = oop op (foddpos G R x).
  Proof.
    destruct op; cbn [run_op oop]; try reflexivity.
    - apply foddpos_flip.
    - unfold f_conj. now destruct (pp && _ && _).
    - unfold f_dagger. destruct pd; [rewrite foddpos_flip|]; now destruct (_ && _).
  Qed.

  Theorem run_op_value op x : lwf x -> lop_ok (ndim G R (fbase G R x)) op ->
    f_value G R (run_op op x) = vop op (f_value G R x) (foddpos G R x).
  Proof.
    intros Hx Hok. pose proof (lwf_nodup x Hx) as Hnd. destruct op; cbn [run_op vop lop_ok] in *.
    - now apply value_phase_flip.
    - now apply value_phase_transpose.
    - apply value_phase_sector.
    - now apply value_phase_global.
    - apply sync_value.
    - apply value_transpose. destruct Hx as [_ Hl].
      eapply inj_on_incl; [| eapply permuted_inj_on; [exact Hok | exact Hl]].
      intros s Hs. apply in_app_or in Hs. apply in_or_app. destruct Hs as [Hs|Hs]; [now left|].
      destruct phase; [destruct Hs | now right].
    - now apply value_conj.
    - apply value_dagger; [exact Hnd | apply (lwf_len_sectors x Hx)].
  Qed.

  (* item 3: every unary operation respects the equivalence *)
  Theorem op_congr op x y : lwf x -> lwf y -> lop_ok (ndim G R (fbase G R x)) op ->
    x ~~ y -> run_op op x ~~ run_op op y.
  Proof.
    intros Hx Hy Hok Hxy. pose proof (feq_ndim x y Hxy) as Hn. destruct Hxy as [Hv Ho]. split.
    - rewrite !run_op_value by (try assumption; now rewrite <- Hn). now rewrite Hv, Ho.
    - rewrite !run_op_oddpos. now rewrite Ho.
  Qed.

  Corollary op_sync_congr op x : lwf x -> lop_ok (ndim G R (fbase G R x)) op ->
    run_op op x ~~ run_op op (f_phase_sync G R x).
  Proof.
    intros Hx Hok. apply op_congr; [exact Hx | now apply lwf_sync | exact Hok | apply feq_sym, sync_feq].
  Qed.

  (* item 4: arbitrary finite programs *)
  Definition prog_ok (n : nat) (p : list lop) : Prop := Forall (lop_ok n) p.

  Theorem run_ops_lwf p : forall x, lwf x -> prog_ok (ndim G R (fbase G R x)) p ->
    lwf (run_ops p x) /\ ndim G R (fbase G R (run_ops p x)) = ndim G R (fbase G R x).
  Proof.
    induction p as [|op p IH]; intros x Hx Hp; [now split|].
    inversion Hp as [|? ? Hop Hp']; subst. cbn [run_ops fold_left].
    destruct (run_op_lwf op x Hx Hop) as [H1 H2].
    destruct (IH (run_op op x) H1) as [H3 H4]; [now rewrite H2|].
    split; [exact H3 | now rewrite <- H2].
  Qed.

  (* the value of a program's result is a function of the value of its input:
     the pending signs enter exactly once, through `f_value` *)
  Theorem run_ops_value p : forall x, lwf x -> prog_ok (ndim G R (fbase G R x)) p ->
    (f_value G R (run_ops p x), foddpos G R (run_ops p x)) = vrun p (f_value G R x) (foddpos G R x).
  Proof.
    induction p as [|op p IH]; intros x Hx Hp; [reflexivity|].
    inversion Hp as [|? ? Hop Hp']; subst. cbn [run_ops fold_left vrun].
    destruct (run_op_lwf op x Hx Hop) as [H1 H2].
    change (fold_left (fun x op => run_op op x) p (run_op op x)) with (run_ops p (run_op op x)).
    rewrite (IH (run_op op x) H1) by (now rewrite H2).
    now rewrite run_op_value, run_op_oddpos.
  Qed.

  Theorem programs_congr_gen p x y : lwf x -> lwf y -> prog_ok (ndim G R (fbase G R x)) p ->
    x ~~ y -> run_ops p x ~~ run_ops p y.
  Proof.
    intros Hx Hy Hp Hxy. pose proof (feq_ndim x y Hxy) as Hn. destruct Hxy as [Hv Ho].
    pose proof (run_ops_value p x Hx Hp) as E1.
    pose proof (run_ops_value p y Hy) as E2. rewrite <- Hn in E2. specialize (E2 Hp).
    rewrite Hv, Ho in E1. rewrite <- E2 in E1. split; [exact (f_equal fst E1) | exact (f_equal snd E1)].
  Qed.

  Theorem programs_congr p x : lwf x -> prog_ok (ndim G R (fbase G R x)) p ->
    run_ops p x ~~ run_ops p (f_phase_sync G R x).
  Proof.
    intros Hx Hp. apply programs_congr_gen; [exact Hx | now apply lwf_sync | exact Hp | apply feq_sym, sync_feq].
  Qed.

  (* synchronising at ANY point of a program is unobservable *)
  Theorem programs_sync_anywhere p q x : lwf x -> prog_ok (ndim G R (fbase G R x)) (p ++ q) ->
    run_ops (p ++ q) x ~~ run_ops (p ++ LSync :: q) x.
  Proof.
    intros Hx Hpq. apply Forall_app in Hpq. destruct Hpq as [Hp Hq].
    destruct (run_ops_lwf p x Hx Hp) as [H1 H2].
    assert (E1 : run_ops (p ++ q) x = run_ops q (run_ops p x)) by (unfold run_ops; now rewrite fold_left_app).
    assert (E2 : run_ops (p ++ LSync :: q) x = run_ops q (f_phase_sync G R (run_ops p x)))
      by (unfold run_ops; now rewrite fold_left_app).
    rewrite E1, E2. apply programs_congr; [exact H1 | now rewrite H2].
  Qed.

  (* ---------------- item 5: operations that read blocks ---------------- *)
  (* the synchronised copy is a normal form of the equivalence class *)
  Lemma sync_normal_form x : f_phase_sync G R x = mkF G R (f_value G R x) [] (foddpos G R x).
  Proof. reflexivity. Qed.

  Theorem feq_iff_sync x y : x ~~ y <-> f_phase_sync G R x = f_phase_sync G R y.
  Proof.
    rewrite !sync_normal_form. split.
    - intros [Hv Ho]. now rewrite Hv, Ho.
    - intros H. split; [exact (f_equal (fbase G R) H) | exact (f_equal (foddpos G R) H)].
  Qed.

  Lemma feq_nodup x y : x ~~ y -> NoDup (fsectors G R x) -> NoDup (fsectors G R y).
  Proof. intros H. now rewrite (feq_sectors x y H). Qed.

  Lemma flip_congr x y axs : NoDup (fsectors G R x) -> x ~~ y -> f_phase_flip G R x axs ~~ f_phase_flip G R y axs.
  Proof.
    intros Hnd H. pose proof (feq_nodup x y H Hnd) as Hnd'. destruct H as [Hv Ho]. split.
    - rewrite !value_phase_flip by assumption. now rewrite Hv.
    - now rewrite !foddpos_flip.
  Qed.

  Lemma phase_transpose_congr x y perm : NoDup (fsectors G R x) -> x ~~ y ->
    f_phase_transpose G R x perm ~~ f_phase_transpose G R y perm.
  Proof.
    intros Hnd H. pose proof (feq_nodup x y H Hnd) as Hnd'. destruct H as [Hv Ho]. split.
    - rewrite !value_phase_transpose by assumption. now rewrite Hv.
    - exact Ho.
  Qed.

  Lemma transpose_congr x y axes : inj_on (fun s : sector => permuted (ident G) s axes) (fsectors G R x) -> x ~~ y ->
    f_transpose G R x axes true ~~ f_transpose G R y axes true.
  Proof.
    intros Hinj H. pose proof (feq_sectors x y H) as Hs. destruct H as [Hv Ho].
    assert (Hinj' : inj_on (fun s : sector => permuted (ident G) s axes) (fsectors G R y)) by (now rewrite <- Hs).
    split.
    - rewrite !value_transpose by (cbn iota; rewrite app_nil_r; assumption). now rewrite Hv.
    - exact Ho.
  Qed.

  Lemma transpose_nodup x axes phase : NoDup (fsectors G R x) ->
    inj_on (fun s : sector => permuted (ident G) s axes) (fsectors G R x) ->
    NoDup (fsectors G R (f_transpose G R x axes phase)).
  Proof.
    intros Hnd Hinj. unfold fsectors, f_transpose. cbn [fbase]. rewrite transpose_sectors.
    now apply NoDup_map_inj_on.
  Qed.

  Lemma fsectors_flip x axs : fsectors G R (f_phase_flip G R x axs) = fsectors G R x.
  Proof. unfold fsectors. now rewrite fbase_flip. Qed.

  Theorem unfuse_congr x y axis : x ~~ y -> f_unfuse G R x axis = f_unfuse G R y axis.
  Proof.
    intros H. unfold f_unfuse. rewrite (feq_ndim x y H), (feq_indices x y H).
    rewrite (proj1 (feq_iff_sync x y) H). reflexivity.
  Qed.

  Theorem trace_congr x y : NoDup (fsectors G R x) -> x ~~ y -> f_trace G R x = f_trace G R y.
  Proof.
    intros Hnd H. unfold f_trace. rewrite (feq_indices x y H).
    destruct (flip_congr x y [0] Hnd H) as [Hf _]. destruct H as [Hv _]. now rewrite Hv, Hf.
  Qed.

  Theorem matmul_congr a a' b b' : NoDup (fsectors G R b) -> a ~~ a' -> b ~~ b' ->
    f_matmul G R a b = f_matmul G R a' b'.
  Proof.
    intros Hnd Ha Hb. unfold f_matmul. rewrite (feq_indices b b' Hb).
    set (b1 := if idual G _ then f_phase_flip G R b [0] else b).
    set (b1' := if idual G _ then f_phase_flip G R b' [0] else b').
    assert (H1 : b1 ~~ b1') by (subst b1 b1'; destruct (idual G _); [now apply flip_congr | exact Hb]).
    rewrite (proj1 (feq_iff_sync a a') Ha), (proj1 (feq_iff_sync b1 b1') H1). reflexivity.
  Qed.

  Lemma insert_sorted_perm {A} (ltb : A -> A -> bool) x l : Permutation (insert_sorted ltb x l) (x :: l).
  Proof.
    induction l as [|y l IH]; cbn [insert_sorted]; [apply Permutation_refl|].
    destruct (ltb y x); [|apply Permutation_refl].
    eapply Permutation_trans; [apply perm_skip, IH | apply perm_swap].
  Qed.
  Lemma isort_perm {A} (ltb : A -> A -> bool) l : Permutation (isort ltb l) l.
  Proof.
    induction l as [|x l IH]; cbn [isort fold_right]; [apply Permutation_refl|].
    eapply Permutation_trans; [apply insert_sorted_perm | apply perm_skip, IH].
  Qed.

  Lemma lwf_inj_on x axes : lwf x -> Permutation axes (seq 0 (ndim G R (fbase G R x))) ->
    inj_on (fun s : sector => permuted (ident G) s axes) (fsectors G R x).
  Proof. intros Hx Hp. eapply permuted_inj_on; [exact Hp | apply (lwf_len_sectors x Hx)]. Qed.

  Definition einsum_perm (x : farr) (lhs rhs : list nat) : list nat :=
    isort (ekey_ltb G lhs rhs (indices G R (fbase G R x))) (seq 0 (ndim G R (fbase G R x))).

  Theorem einsum_congr x y lhs rhs :
    inj_on (fun s : sector => permuted (ident G) s (einsum_perm x lhs rhs)) (fsectors G R x) ->
    x ~~ y -> f_einsum G R x lhs rhs = f_einsum G R y lhs rhs.
  Proof.
    intros Hinj H. unfold f_einsum. rewrite <- (feq_ndim x y H), <- (feq_indices x y H).
    fold (einsum_perm x lhs rhs).
    rewrite (proj1 (feq_iff_sync _ _) (transpose_congr x y _ Hinj H)). reflexivity.
  Qed.

  Corollary einsum_congr_lwf x y lhs rhs : lwf x -> x ~~ y -> f_einsum G R x lhs rhs = f_einsum G R y lhs rhs.
  Proof. intros Hx. apply einsum_congr. apply lwf_inj_on; [exact Hx | apply isort_perm]. Qed.

  Theorem fuse_congr x y groups : NoDup (fsectors G R x) ->
    inj_on (fun s : sector => permuted (ident G) s (fuse_perm (ndim G R (fbase G R x)) groups)) (fsectors G R x) ->
    x ~~ y -> f_fuse G R x groups = f_fuse G R y groups.
  Proof.
    intros Hnd Hinj H. unfold f_fuse. cbv zeta. rewrite <- (feq_ndim x y H).
    set (perm := fuse_perm _ groups) in *.
    set (x1 := f_transpose G R x perm true). set (y1 := f_transpose G R y perm true).
    assert (H1 : x1 ~~ y1) by (now apply transpose_congr).
    assert (Hnd1 : NoDup (fsectors G R x1)) by (now apply transpose_nodup).
    rewrite <- (feq_indices x1 y1 H1).
    set (dualg := filter _ (map _ groups)).
    set (x2 := f_phase_flip G R x1 _). set (y2 := f_phase_flip G R y1 _).
    assert (H2 : x2 ~~ y2) by (now apply flip_congr).
    assert (Hnd2 : NoDup (fsectors G R x2)) by (subst x2; now rewrite fsectors_flip).
    set (x3 := if is_nil dualg then x2 else f_phase_transpose G R x2 _).
    set (y3 := if is_nil dualg then y2 else f_phase_transpose G R y2 _).
    assert (H3 : x3 ~~ y3) by (subst x3 y3; destruct (is_nil dualg); [exact H2 | now apply phase_transpose_congr]).
    rewrite (proj1 (feq_iff_sync x3 y3) H3). reflexivity.
  Qed.

  Corollary fuse_congr_lwf x y groups : lwf x ->
    Permutation (fuse_perm (ndim G R (fbase G R x)) groups) (seq 0 (ndim G R (fbase G R x))) ->
    x ~~ y -> f_fuse G R x groups = f_fuse G R y groups.
  Proof. intros Hx Hp. apply fuse_congr; [apply (lwf_nodup x Hx) | now apply lwf_inj_on]. Qed.

  (* tensordot: both operands are read only through their values *)
  Definition tdot_inj (a b : farr) (axes : nat + (list Z * list Z)) : Prop :=
    forall aa ab, parse_axes (ndim G R (fbase G R a)) (ndim G R (fbase G R b)) axes = Some (aa, ab) ->
      inj_on (fun s : sector => permuted (ident G) s (rest_axes (ndim G R (fbase G R a)) aa ++ aa)) (fsectors G R a) /\
      inj_on (fun s : sector => permuted (ident G) s (ab ++ rest_axes (ndim G R (fbase G R b)) ab)) (fsectors G R b).

  Theorem tensordot_congr a a' b b' axes mode :
    NoDup (fsectors G R a) -> NoDup (fsectors G R b) -> tdot_inj a b axes ->
    a ~~ a' -> b ~~ b' -> f_tensordot G R a b axes mode = f_tensordot G R a' b' axes mode.
  Proof.
    intros Hnda Hndb Hinj Ha Hb. unfold f_tensordot. cbv zeta.
    rewrite <- (feq_ndim a a' Ha), <- (feq_ndim b b' Hb).
    destruct (parse_axes _ _ axes) as [[aa ab]|] eqn:Hparse; [|reflexivity].
    destruct (Hinj aa ab Hparse) as [Hia Hib].
    set (pa := rest_axes _ aa ++ aa) in *. set (pb := ab ++ rest_axes _ ab) in *.
    set (a1 := f_transpose G R a pa true). set (a1' := f_transpose G R a' pa true).
    set (b1 := f_transpose G R b pb true). set (b1' := f_transpose G R b' pb true).
    assert (Ha1 : a1 ~~ a1') by (now apply transpose_congr).
    assert (Hb1 : b1 ~~ b1') by (now apply transpose_congr).
    assert (Hna1 : NoDup (fsectors G R a1)) by (now apply transpose_nodup).
    assert (Hnb1 : NoDup (fsectors G R b1)) by (now apply transpose_nodup).
    set (b2 := f_phase_transpose G R b1 _). set (b2' := f_phase_transpose G R b1' _).
    assert (Hb2 : b2 ~~ b2') by (now apply phase_transpose_congr).
    assert (Hnb2 : NoDup (fsectors G R b2)) by exact Hnb1.
    unfold arr_size. rewrite <- (feq_indices a1 a1' Ha1), <- (feq_indices b2 b2' Hb2).
    destruct (Nat.leb _ _).
    - set (a2 := f_phase_flip G R a1 _). set (a2' := f_phase_flip G R a1' _).
      assert (Ha2 : a2 ~~ a2') by (now apply flip_congr).
      rewrite (proj1 (feq_iff_sync a2 a2') Ha2), (proj1 (feq_iff_sync b2 b2') Hb2). reflexivity.
    - set (b3 := f_phase_flip G R b2 _). set (b3' := f_phase_flip G R b2' _).
      assert (Hb3 : b3 ~~ b3') by (now apply flip_congr).
      rewrite (proj1 (feq_iff_sync a1 a1') Ha1), (proj1 (feq_iff_sync b3 b3') Hb3). reflexivity.
  Qed.

  Corollary tensordot_sync a b axes mode :
    NoDup (fsectors G R a) -> NoDup (fsectors G R b) -> tdot_inj a b axes ->
    f_tensordot G R a b axes mode = f_tensordot G R (f_phase_sync G R a) (f_phase_sync G R b) axes mode.
  Proof.
    intros Hnda Hndb Hinj. apply tensordot_congr; try assumption; apply feq_sym, sync_feq.
  Qed.

  (* the side condition holds for well-formed operands and distinct in-range axes *)
  Lemma NoDup_app_disjoint {A} (l1 l2 : list A) :
    NoDup l1 -> NoDup l2 -> (forall i, In i l1 -> ~ In i l2) -> NoDup (l1 ++ l2).
  Proof.
    induction l1 as [|z l1 IH]; intros H1 H2 Hd; cbn [app]; [exact H2|].
    inversion H1 as [|? ? Hz H1']; subst. constructor.
    - intros Hin. apply in_app_or in Hin. destruct Hin as [Hin|Hin]; [now apply Hz | apply (Hd z); [now left | exact Hin]].
    - apply IH; [exact H1' | exact H2 | intros i Hi; apply Hd; now right].
  Qed.

  Lemma rest_axes_elems n aa i : Forall (fun i => i < n) aa ->
    (In i (rest_axes n aa) \/ In i aa) <-> In i (seq 0 n).
  Proof.
    intros Hlt. rewrite Forall_forall in Hlt. unfold rest_axes. rewrite filter_In, in_seq. split.
    - intros [[H _]|H]; [exact H | specialize (Hlt i H); lia].
    - intros H. destruct (mem Nat.eqb i aa) eqn:E.
      + right. now apply (mem_In Nat.eqb Nat.eqb_eq).
      + left. split; [exact H | reflexivity].
  Qed.

  Lemma rest_axes_disjoint n aa i : In i (rest_axes n aa) -> ~ In i aa.
  Proof.
    unfold rest_axes. intros Hi Hia. apply filter_In in Hi. destruct Hi as [_ Hi].
    apply (mem_In Nat.eqb Nat.eqb_eq) in Hia. now rewrite Hia in Hi.
  Qed.

  Lemma rest_axes_perm n aa : NoDup aa -> Forall (fun i => i < n) aa ->
    Permutation (rest_axes n aa ++ aa) (seq 0 n).
  Proof.
    intros Hnd Hlt. apply NoDup_Permutation.
    - apply NoDup_app_disjoint; [apply NoDup_filter, seq_NoDup | exact Hnd | apply rest_axes_disjoint].
    - apply seq_NoDup.
    - intros i. rewrite in_app_iff. now apply rest_axes_elems.
  Qed.

  Lemma rest_axes_perm' n aa : NoDup aa -> Forall (fun i => i < n) aa ->
    Permutation (aa ++ rest_axes n aa) (seq 0 n).
  Proof.
    intros Hnd Hlt. eapply Permutation_trans; [apply Permutation_app_comm | now apply rest_axes_perm].
  Qed.

  Lemma tdot_inj_lwf a b axes : lwf a -> lwf b ->
    (forall aa ab, parse_axes (ndim G R (fbase G R a)) (ndim G R (fbase G R b)) axes = Some (aa, ab) ->
       NoDup aa /\ Forall (fun i => i < ndim G R (fbase G R a)) aa /\
       NoDup ab /\ Forall (fun i => i < ndim G R (fbase G R b)) ab) ->
    tdot_inj a b axes.
  Proof.
    intros Ha Hb Hax aa ab Hp. destruct (Hax aa ab Hp) as (H1 & H2 & H3 & H4). split.
    - apply lwf_inj_on; [exact Ha | now apply rest_axes_perm].
    - apply lwf_inj_on; [exact Hb | now apply rest_axes_perm'].
  Qed.

  Corollary tensordot_sync_lwf a b axes mode : lwf a -> lwf b ->
    (forall aa ab, parse_axes (ndim G R (fbase G R a)) (ndim G R (fbase G R b)) axes = Some (aa, ab) ->
       NoDup aa /\ Forall (fun i => i < ndim G R (fbase G R a)) aa /\
       NoDup ab /\ Forall (fun i => i < ndim G R (fbase G R b)) ab) ->
    f_tensordot G R a b axes mode = f_tensordot G R (f_phase_sync G R a) (f_phase_sync G R b) axes mode.
  Proof.
    intros Ha Hb Hax. apply tensordot_sync; [apply (lwf_nodup a Ha) | apply (lwf_nodup b Hb) | now apply tdot_inj_lwf].
  Qed.
End Lazy.

(* ------------------------------------------------------------------ *)
(* instantiations of the ring laws: integers and Gaussian integers *)
Definition programs_congr_ZRing G (HG : GroupLaws G) :=
  programs_congr G ZRing HG ZRing_rneg_invol ZRing_rneg_zero ZRing_rconj_rneg.
Definition programs_congr_GRing G (HG : GroupLaws G) :=
  programs_congr G GRing HG GRing_rneg_invol GRing_rneg_zero GRing_rconj_rneg.
Definition op_congr_ZRing G (HG : GroupLaws G) :=
  op_congr G ZRing HG ZRing_rneg_invol ZRing_rneg_zero ZRing_rconj_rneg.
Definition op_congr_GRing G (HG : GroupLaws G) :=
  op_congr G GRing HG GRing_rneg_invol GRing_rneg_zero GRing_rconj_rneg.
Definition tensordot_congr_ZRing G (HG : GroupLaws G) :=
  tensordot_congr G ZRing HG ZRing_rneg_invol ZRing_rneg_zero.
Definition tensordot_congr_GRing G (HG : GroupLaws G) :=
  tensordot_congr G GRing HG GRing_rneg_invol GRing_rneg_zero.

(* ------------------------------------------------------------------ *)
(* Examples: a Z2 rank-3 array of ODD total charge with one odd-position label
   and TWO pending signs, over the Gaussian integers *)
From SV Require Import Model.SymInst Proofs.SymLaws.

Module LazyExamples.
  Local Open Scope Z_scope.
  Definition ixA : index Z2 := Index Z2 [(0, 1%nat); (1, 1%nat)] false None.
  Definition ixB : index Z2 := Index Z2 [(0, 2%nat); (1, 1%nat)] true None.
  Definition gt (sh : list nat) (d : list (Z * Z)) : tensor GRing := @mkT GRing sh d.
  Definition base0 : aarray Z2 GRing :=
    mkA Z2 GRing [ixA; ixA; ixB] 1
      [ ([0; 0; 1], gt [1; 1; 1]%nat [(5, 1)]);
        ([0; 1; 0], gt [1; 1; 2]%nat [(2, -3); (7, 0)]);
        ([1; 0; 0], gt [1; 1; 2]%nat [(-4, 4); (1, 9)]);
        ([1; 1; 1], gt [1; 1; 1]%nat [(0, 6)]) ].
  Definition x0 : farray Z2 GRing := mkF Z2 GRing base0 [[0; 1; 0]; [1; 1; 1]] [([3], false)].

  Definition p0 : list (lop Z2) :=
    [ LTranspose Z2 [2; 0; 1]%nat true; LFlip Z2 [0; 2]%nat; LConj Z2 true true; LSector Z2 [1; 1; 1];
      LPhaseTranspose Z2 (Some [1; 0; 2]%nat); LDagger Z2 true; LGlobal Z2; LTranspose Z2 [1; 2; 0]%nat false;
      LConj Z2 true false; LSync Z2; LFlip Z2 [1]%nat; LDagger Z2 false ].

  Example ex_lwf : lwf Z2 GRing x0.
  Proof.
    split.
    - repeat (constructor; [cbn; intuition discriminate|]). constructor.
    - repeat constructor.
  Qed.

  Example ex_prog_ok : prog_ok Z2 (ndim Z2 GRing (fbase Z2 GRing x0)) p0.
  Proof.
    repeat (constructor; [cbn; try exact I; try reflexivity|]); [| |constructor].
    - apply (Permutation_cons_app [0; 1]%nat []). apply Permutation_refl.
    - apply (Permutation_cons_app [0]%nat [2]%nat). apply perm_swap.
  Qed.

  (* the theorem applied: lazy and synchronised runs are equivalent *)
  Example ex_programs_congr :
    feq Z2 GRing (run_ops Z2 GRing p0 x0) (run_ops Z2 GRing p0 (f_phase_sync Z2 GRing x0)).
  Proof. exact (programs_congr_GRing Z2 Z2_laws p0 x0 ex_lwf ex_prog_ok). Qed.

  (* ... and, independently, by computation: equal values, yet different raw states *)
  Example ex_run_values_equal :
    f_value Z2 GRing (run_ops Z2 GRing p0 x0) = f_value Z2 GRing (run_ops Z2 GRing p0 (f_phase_sync Z2 GRing x0)).
  Proof. vm_compute. reflexivity. Qed.
  Example ex_run_eqb :
    farray_eqb Z2 GRing (run_ops Z2 GRing p0 x0) (run_ops Z2 GRing p0 (f_phase_sync Z2 GRing x0)) = true.
  Proof. vm_compute. reflexivity. Qed.
  Example ex_raw_states_differ :
    let q := firstn 8 p0 in
    farray_eqb_strict Z2 GRing (run_ops Z2 GRing q x0) (run_ops Z2 GRing q (f_phase_sync Z2 GRing x0)) = false
    /\ farray_eqb Z2 GRing (run_ops Z2 GRing q x0) (run_ops Z2 GRing q (f_phase_sync Z2 GRing x0)) = true.
  Proof. vm_compute. split; reflexivity. Qed.

  (* sync: the two pending signs end up in the blocks, exactly once *)
  Example ex_sync_blocks :
    blocks Z2 GRing (f_value Z2 GRing x0) =
      [ ([0; 0; 1], gt [1; 1; 1]%nat [(5, 1)]);
        ([0; 1; 0], gt [1; 1; 2]%nat [(-2, 3); (-7, 0)]);
        ([1; 0; 0], gt [1; 1; 2]%nat [(-4, 4); (1, 9)]);
        ([1; 1; 1], gt [1; 1; 1]%nat [(0, -6)]) ].
  Proof. vm_compute. reflexivity. Qed.

  (* the key lemma's NoDup premise is needed: with a duplicated stored sector a global
     sign flip toggles the table entry twice and the value is NOT negated *)
  Definition xdup : farray Z2 GRing :=
    mkF Z2 GRing (mkA Z2 GRing [ixA] 1 [([1], gt [1]%nat [(1, 0)]); ([1], gt [1]%nat [(2, 0)])]) [] [].
  Example ex_nodup_needed :
    aarray_eqb Z2 GRing (f_value Z2 GRing (f_phase_global Z2 GRing xdup)) (a_neg Z2 GRing (f_value Z2 GRing xdup)) = false.
  Proof. vm_compute. reflexivity. Qed.

  (* binary operations: hypotheses of tensordot_sync_lwf on a concrete contraction *)
  Definition y0 : farray Z2 GRing := run_ops Z2 GRing [LConj Z2 true false; LFlip Z2 [1]%nat] x0.
  Example ex_y0_lwf : lwf Z2 GRing y0.
  Proof.
    split.
    - vm_compute. repeat (constructor; [cbn; intuition discriminate|]). constructor.
    - vm_compute. repeat constructor.
  Qed.
  Example ex_tdot_axes : forall aa ab,
    parse_axes (ndim Z2 GRing (fbase Z2 GRing x0)) (ndim Z2 GRing (fbase Z2 GRing y0)) (inr ([2; 0], [2; 0])) = Some (aa, ab) ->
    NoDup aa /\ Forall (fun i => (i < ndim Z2 GRing (fbase Z2 GRing x0))%nat) aa /\
    NoDup ab /\ Forall (fun i => (i < ndim Z2 GRing (fbase Z2 GRing y0))%nat) ab.
  Proof.
    intros aa ab H. vm_compute in H. injection H as <- <-.
    repeat split; try (repeat (constructor; [cbn; intuition discriminate|]); constructor); repeat constructor.
  Qed.
  Example ex_tensordot_sync :
    f_tensordot Z2 GRing x0 y0 (inr ([2; 0], [2; 0])) MAuto
    = f_tensordot Z2 GRing (f_phase_sync Z2 GRing x0) (f_phase_sync Z2 GRing y0) (inr ([2; 0], [2; 0])) MAuto.
  Proof.
    exact (tensordot_sync_lwf Z2 GRing Z2_laws GRing_rneg_invol GRing_rneg_zero x0 y0 _ MAuto ex_lwf ex_y0_lwf ex_tdot_axes).
  Qed.
  Example ex_tensordot_nontrivial :
    match f_tensordot Z2 GRing x0 y0 (inr ([2; 0], [2; 0])) MAuto with
    | Some r => negb (is_nil (blocks Z2 GRing (fbase Z2 GRing r))) && negb (is_nil (fphases Z2 GRing y0))
    | None => false end = true.
  Proof. vm_compute. reflexivity. Qed.

  (* fuse / einsum: the premises of fuse_congr_lwf hold for fusing axes (0,2) of x0 *)
  Example ex_fuse_perm :
    Permutation (fuse_perm (ndim Z2 GRing (fbase Z2 GRing x0)) [[0; 2]%nat]) (seq 0 (ndim Z2 GRing (fbase Z2 GRing x0))).
  Proof.
    vm_compute. apply perm_skip. apply perm_swap.
  Qed.
  Example ex_fuse_sync :
    f_fuse Z2 GRing x0 [[0; 2]%nat] = f_fuse Z2 GRing (f_phase_sync Z2 GRing x0) [[0; 2]%nat].
  Proof.
    apply (fuse_congr_lwf Z2 GRing Z2_laws GRing_rneg_invol GRing_rneg_zero x0 _ _ ex_lwf ex_fuse_perm).
    apply feq_sym, sync_feq.
  Qed.
  Example ex_einsum_sync :
    f_einsum Z2 GRing x0 [0; 1; 2]%nat [2; 0; 1]%nat = f_einsum Z2 GRing (f_phase_sync Z2 GRing x0) [0; 1; 2]%nat [2; 0; 1]%nat.
  Proof.
    apply (einsum_congr_lwf Z2 GRing Z2_laws GRing_rneg_invol GRing_rneg_zero x0 _ _ _ ex_lwf).
    apply feq_sym, sync_feq.
  Qed.
  Example ex_fuse_nontrivial :
    negb (is_nil (blocks Z2 GRing (fbase Z2 GRing (f_fuse Z2 GRing x0 [[0; 2]%nat])))) = true.
  Proof. vm_compute. reflexivity. Qed.
End LazyExamples.
