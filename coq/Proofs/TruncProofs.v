(* Proofs/TruncProofs.v — lemmas about Model/Trunc.v (property C13). *)
From SV Require Import Base.Prelude Model.Trunc.
From Coq Require Import Permutation.

(* ================================================================ shapes *)
(* non-increasing (what LAPACK returns per block) / non-decreasing lists *)
Fixpoint desc (l : list Z) : Prop :=
  match l with
  | [] => True
  | x :: t => (forall y, In y t -> y <= x) /\ desc t
  end.
Fixpoint asc (l : list Z) : Prop :=
  match l with
  | [] => True
  | x :: t => (forall y, In y t -> x <= y) /\ asc t
  end.
Definition nonneg (l : list Z) : Prop := forall x, In x l -> 0 <= x.

Lemma descb_desc l : descb l = true -> desc l.
Proof.
  induction l as [|x t IH]; cbn [descb desc]; [trivial|].
  intro H. apply andb_true_iff in H. destruct H as [H1 H2]. split; [|auto].
  intros y Hy. rewrite forallb_forall in H1. apply H1 in Hy. lia.
Qed.

(* ================================================================ generic list facts *)
Lemma count_true_app {A} (f : A -> bool) l1 l2 :
  count_true f (l1 ++ l2) = (count_true f l1 + count_true f l2)%nat.
Proof. unfold count_true. rewrite filter_app, app_length. reflexivity. Qed.

Lemma count_true_le_length {A} (f : A -> bool) l : (count_true f l <= length l)%nat.
Proof.
  unfold count_true. induction l as [|x t IH]; cbn [filter length]; [lia|].
  destruct (f x); cbn [length]; lia.
Qed.

Lemma count_true_all {A} (f : A -> bool) l :
  (forall x, In x l -> f x = true) -> count_true f l = length l.
Proof.
  unfold count_true. induction l as [|x t IH]; intro H; cbn [filter length]; [reflexivity|].
  rewrite (H x (or_introl eq_refl)). cbn [length]. rewrite IH; [reflexivity|].
  intros y Hy. apply H. right. exact Hy.
Qed.

Lemma count_true_none {A} (f : A -> bool) l :
  (forall x, In x l -> f x = false) -> count_true f l = 0%nat.
Proof.
  unfold count_true. induction l as [|x t IH]; intro H; cbn [filter length]; [reflexivity|].
  rewrite (H x (or_introl eq_refl)). apply IH. intros y Hy. apply H. right. exact Hy.
Qed.

Lemma count_true_mono {A} (f g : A -> bool) l :
  (forall x, In x l -> f x = true -> g x = true) -> (count_true f l <= count_true g l)%nat.
Proof.
  unfold count_true. induction l as [|x t IH]; intro H; cbn [filter length]; [lia|].
  assert (IH' : (length (filter f t) <= length (filter g t))%nat).
  { apply IH. intros y Hy. apply H. right. exact Hy. }
  destruct (f x) eqn:Ef.
  - rewrite (H x (or_introl eq_refl) Ef). cbn [length]. lia.
  - destruct (g x); cbn [length]; lia.
Qed.

Lemma count_true_perm {A} (f : A -> bool) l l' :
  Permutation l l' -> count_true f l = count_true f l'.
Proof.
  unfold count_true. induction 1 as [|x l l' HP IH|x y l|l l' l'' HP1 IH1 HP2 IH2]; cbn [filter].
  - reflexivity.
  - destruct (f x); cbn [length]; lia.
  - destruct (f x), (f y); cbn [length]; lia.
  - lia.
Qed.

Lemma filter_perm {A} (f : A -> bool) l l' :
  Permutation l l' -> Permutation (filter f l) (filter f l').
Proof.
  induction 1 as [|x l l' HP IH|x y l|l l' l'' HP1 IH1 HP2 IH2]; cbn [filter].
  - constructor.
  - destruct (f x); [constructor|]; exact IH.
  - destruct (f x), (f y); try apply Permutation_refl. apply perm_swap.
  - eapply Permutation_trans; eassumption.
Qed.

Lemma zsum_perm l l' : Permutation l l' -> zsum l = zsum l'.
Proof.
  induction 1 as [|x l l' HP IH|x y l|l l' l'' HP1 IH1 HP2 IH2].
  - reflexivity.
  - rewrite !zsum_cons. lia.
  - rewrite !zsum_cons. lia.
  - lia.
Qed.

Lemma zsum_nonneg l : nonneg l -> 0 <= zsum l.
Proof.
  induction l as [|x t IH]; intro H; [cbn; lia|].
  rewrite zsum_cons.
  assert (0 <= x) by (apply H; left; reflexivity).
  assert (0 <= zsum t) by (apply IH; intros y Hy; apply H; right; exact Hy). lia.
Qed.

Lemma zsum_filter_le (f : Z -> bool) l : nonneg l -> zsum (filter f l) <= zsum l.
Proof.
  induction l as [|x t IH]; intro H; [cbn; lia|].
  assert (0 <= x) by (apply H; left; reflexivity).
  assert (IH' : zsum (filter f t) <= zsum t) by (apply IH; intros y Hy; apply H; right; exact Hy).
  cbn [filter]. destruct (f x); rewrite ?zsum_cons; lia.
Qed.

Lemma filter_all {A} (f : A -> bool) l : (forall x, In x l -> f x = true) -> filter f l = l.
Proof.
  induction l as [|x t IH]; intro H; cbn [filter]; [reflexivity|].
  rewrite (H x (or_introl eq_refl)). f_equal. apply IH. intros y Hy. apply H. right. exact Hy.
Qed.

Lemma filter_none {A} (f : A -> bool) l : (forall x, In x l -> f x = false) -> filter f l = [].
Proof.
  induction l as [|x t IH]; intro H; cbn [filter]; [reflexivity|].
  rewrite (H x (or_introl eq_refl)). apply IH. intros y Hy. apply H. right. exact Hy.
Qed.

Lemma nonneg_map_spow m l : nonneg l -> nonneg (map (spow m) l).
Proof.
  intros H y Hy. apply in_map_iff in Hy. destruct Hy as [x [<- Hx]].
  apply H in Hx. destruct m; cbn [spow]; nia.
Qed.

Lemma In_firstn {A} (x : A) n l : In x (firstn n l) -> In x l.
Proof. intro H. rewrite <- (firstn_skipn n l). apply in_or_app. left. exact H. Qed.
Lemma In_skipn {A} (x : A) n l : In x (skipn n l) -> In x l.
Proof. intro H. rewrite <- (firstn_skipn n l). apply in_or_app. right. exact H. Qed.

(* ================================================================ ascending sort *)
Lemma insert_asc_perm x l : Permutation (insert_asc x l) (x :: l).
Proof.
  induction l as [|y t IH]; cbn [insert_asc]; [apply Permutation_refl|].
  destruct (x <=? y); [apply Permutation_refl|].
  eapply Permutation_trans; [apply perm_skip; exact IH | apply perm_swap].
Qed.

Lemma sort_asc_perm l : Permutation (sort_asc l) l.
Proof.
  induction l as [|x t IH]; [constructor|].
  cbn [sort_asc fold_right]. fold (sort_asc t).
  eapply Permutation_trans; [apply insert_asc_perm | apply perm_skip; exact IH].
Qed.

Lemma insert_asc_asc x l : asc l -> asc (insert_asc x l).
Proof.
  induction l as [|y t IH]; intro H; cbn [insert_asc].
  - cbn [asc]. split; [intros ? []|trivial].
  - destruct H as [H1 H2]. destruct (x <=? y) eqn:E.
    + cbn [asc]. split; [|split; assumption].
      intros z [<-|Hz]; [lia|]. apply H1 in Hz. lia.
    + cbn [asc]. split; [|apply IH; exact H2].
      intros z Hz. apply (Permutation_in _ (insert_asc_perm x t)) in Hz.
      destruct Hz as [<-|Hz]; [lia|]. apply H1. exact Hz.
Qed.

Lemma sort_asc_asc l : asc (sort_asc l).
Proof.
  induction l as [|x t IH]; [exact I|].
  cbn [sort_asc fold_right]. fold (sort_asc t). apply insert_asc_asc. exact IH.
Qed.

Lemma asc_app_le l1 l2 : asc (l1 ++ l2) -> forall x y, In x l1 -> In y l2 -> x <= y.
Proof.
  induction l1 as [|a t IH]; intros H x y Hx Hy; [destruct Hx|].
  cbn [app asc] in H. destruct H as [H1 H2]. destruct Hx as [<-|Hx].
  - apply H1. apply in_or_app. right. exact Hy.
  - eapply IH; eassumption.
Qed.

Lemma asc_split n l : asc l -> forall x y, In x (firstn n l) -> In y (skipn n l) -> x <= y.
Proof. intro H. apply asc_app_le. rewrite firstn_skipn. exact H. Qed.

Lemma asc_skipn n l : asc l -> asc (skipn n l).
Proof.
  revert l. induction n as [|n IH]; intros l H; [exact H|].
  destruct l as [|x t]; [exact I|]. cbn [skipn]. apply IH. apply H.
Qed.

Lemma skipn_nth_cons n (l : list Z) : (n < length l)%nat -> skipn n l = nth n l 0 :: skipn (S n) l.
Proof.
  revert l. induction n as [|n IH]; intros l H; destruct l as [|x t]; cbn [length] in H; try lia.
  - reflexivity.
  - cbn [skipn nth]. apply IH. lia.
Qed.

Lemma firstn_S_nth n (l : list Z) : (n < length l)%nat -> firstn (S n) l = firstn n l ++ [nth n l 0].
Proof.
  revert l. induction n as [|n IH]; intros l H; destruct l as [|x t]; cbn [length] in H; try lia.
  - reflexivity.
  - change (firstn (S (S n)) (x :: t)) with (x :: firstn (S n) t).
    rewrite IH by lia. reflexivity.
Qed.

Lemma asc_nth_mono l i j : asc l -> (i <= j)%nat -> (j < length l)%nat -> nth i l 0 <= nth j l 0.
Proof.
  intros H Hij Hj. destruct (Nat.eq_dec i j) as [->|Hne]; [lia|].
  apply (asc_split j l H).
  - rewrite <- (firstn_skipn (S i) (firstn j l)).
    rewrite firstn_firstn. replace (Nat.min (S i) j) with (S i) by lia.
    apply in_or_app. left. rewrite firstn_S_nth by lia. apply in_or_app. right. left. reflexivity.
  - rewrite skipn_nth_cons by lia. left. reflexivity.
Qed.

Lemma asc_le_last l x : asc l -> In x l -> x <= last l 0.
Proof.
  revert x. induction l as [|a t IH]; intros x H Hx; [destruct Hx|].
  destruct H as [H1 H2]. destruct t as [|b t'].
  - destruct Hx as [<-|[]]. cbn. lia.
  - change (last (a :: b :: t') 0) with (last (b :: t') 0).
    destruct Hx as [<-|Hx].
    + assert (a <= b) by (apply H1; left; reflexivity).
      assert (b <= last (b :: t') 0) by (apply IH; [exact H2 | left; reflexivity]). lia.
    + apply IH; assumption.
Qed.

Lemma nth_In_lt (l : list Z) n : (n < length l)%nat -> In (nth n l 0) l.
Proof. intro H. apply nth_In. exact H. Qed.

(* ================================================================ slicing = thresholding *)
(* For a non-increasing block, `ss[:count_nonzero(ss >= t)]` are exactly the
   values >= t and the rest are exactly the values < t. *)
Lemma slice_is_threshold q a ss : 0 < q -> desc ss ->
  (forall k, In k (firstn (keep_count q a ss) ss) -> a <= q * k) /\
  (forall d, In d (skipn (keep_count q a ss) ss) -> q * d < a).
Proof.
  intros Hq. induction ss as [|x t IH]; intro Hd.
  - split; intros ? [].
  - destruct Hd as [Hx Ht]. specialize (IH Ht). destruct IH as [IHk IHd].
    unfold keep_count, count_true in *. cbn [filter].
    destruct (a <=? q * x) eqn:E.
    + cbn [length firstn skipn]. split.
      * intros k [<-|Hk]; [lia | apply IHk; exact Hk].
      * exact IHd.
    + assert (Hnone : filter (fun s => a <=? q * s) t = []).
      { apply filter_none. intros y Hy. apply Hx in Hy. apply Z.leb_gt. apply Z.leb_gt in E. nia. }
      rewrite Hnone in *. cbn [length firstn skipn] in *. split.
      * intros ? [].
      * intros d [<-|Hd]; [lia | apply IHd; exact Hd].
Qed.

Lemma kept_of_map (f : sector -> nat) secs :
  kept_of secs (map f secs) = map (fun cs => firstn (f cs) (snd cs)) secs.
Proof.
  unfold kept_of. induction secs as [|cs t IH]; [reflexivity|].
  cbn [map combine fst snd]. f_equal. exact IH.
Qed.
Lemma disc_of_map (f : sector -> nat) secs :
  disc_of secs (map f secs) = map (fun cs => skipn (f cs) (snd cs)) secs.
Proof.
  unfold disc_of. induction secs as [|cs t IH]; [reflexivity|].
  cbn [map combine fst snd]. f_equal. exact IH.
Qed.

Definition sectors_desc (secs : list sector) : Prop := forall cs, In cs secs -> desc (snd cs).
Definition sectors_nonneg (secs : list sector) : Prop := forall cs, In cs secs -> nonneg (snd cs).

Lemma in_concat_map {A B} (g : A -> list B) (l : list A) y :
  In y (concat (map g l)) -> exists x, In x l /\ In y (g x).
Proof.
  intro H. apply in_concat in H. destruct H as [ys [Hys Hy]].
  apply in_map_iff in Hys. destruct Hys as [x [<- Hx]]. exists x. split; assumption.
Qed.

(* kept / discarded of the cutoff branch, for ANY threshold rule `thr` *)
Lemma cut_kept_discarded thr m p q mb secs : 0 < q -> sectors_desc secs ->
  let a := final_threshold thr m p q mb secs in
  let counts := sub_counts_cut thr m p q mb secs in
  (forall k, In k (concat (kept_of secs counts)) -> a <= q * k) /\
  (forall d, In d (concat (disc_of secs counts)) -> q * d < a).
Proof.
  intros Hq Hd a counts. subst counts. unfold sub_counts_cut. fold a.
  rewrite kept_of_map, disc_of_map. split.
  - intros k Hk. apply in_concat_map in Hk. destruct Hk as [cs [Hcs Hk]].
    exact (proj1 (slice_is_threshold q a (snd cs) Hq (Hd cs Hcs)) k Hk).
  - intros d Hk. apply in_concat_map in Hk. destruct Hk as [cs [Hcs Hk]].
    exact (proj2 (slice_is_threshold q a (snd cs) Hq (Hd cs Hcs)) d Hk).
Qed.

Theorem kept_ge_discarded thr m p q mb secs counts :
  0 < q -> 0 < p -> sectors_desc secs ->
  sub_max_bonds thr m p q mb secs = Some counts ->
  forall k d, In k (concat (kept_of secs counts)) -> In d (concat (disc_of secs counts)) -> d < k.
Proof.
  intros Hq Hp Hd Hs k d Hk Hdd. unfold sub_max_bonds in Hs.
  assert (E : (0 <? p) = true) by (apply Z.ltb_lt; exact Hp). rewrite E in Hs.
  destruct secs as [|cs0 t]; [discriminate|]. injection Hs as <-.
  destruct (cut_kept_discarded thr m p q mb (cs0 :: t) Hq Hd) as [H1 H2].
  apply H1 in Hk. apply H2 in Hdd. nia.
Qed.

(* every sector keeps a prefix (the largest values of that charge), in both branches *)
Lemma kept_disc_partition secs counts :
  length counts = length secs ->
  map (fun kd => fst kd ++ snd kd) (combine (kept_of secs counts) (disc_of secs counts)) = map snd secs.
Proof.
  unfold kept_of, disc_of. revert counts. induction secs as [|cs t IH]; intros [|n cn] H; cbn [length] in H; try lia; [reflexivity|].
  cbn [combine map fst snd]. rewrite firstn_skipn. f_equal. apply IH. lia.
Qed.

(* total number kept = number of values passing the threshold in the global sort *)
Lemma total_kept_count f (secs : list sector) :
  fold_right Nat.add 0%nat (map (fun cs => count_true f (snd cs)) secs)
  = count_true f (sort_asc (all_values secs)).
Proof.
  rewrite (count_true_perm f _ _ (sort_asc_perm (all_values secs))).
  unfold all_values. induction secs as [|cs t IH]; [reflexivity|].
  cbn [map concat fold_right]. rewrite count_true_app, IH. reflexivity.
Qed.

(* ================================================================ bond limit *)
Lemma fold_bond_ge q mb sall a : a <= fold_bond q mb sall a.
Proof.
  unfold fold_bond. destruct ((0 <? mb) && (mb <? Z.of_nat (length sall))); [|lia].
  destruct (a <? q * py_neg_index sall (Z.to_nat mb)) eqn:E; [apply Z.ltb_lt in E|]; lia.
Qed.

Lemma fold_bond_mono q mb sall a a' : a <= a' -> fold_bond q mb sall a <= fold_bond q mb sall a'.
Proof.
  intro H. unfold fold_bond. destruct ((0 <? mb) && (mb <? Z.of_nat (length sall))); [|lia].
  destruct (a <? _) eqn:E; destruct (a' <? _) eqn:E'; try apply Z.ltb_lt in E; try apply Z.ltb_lt in E';
    try apply Z.ltb_ge in E; try apply Z.ltb_ge in E'; lia.
Qed.

(* the bond value: sall[-max_bond] = sall[len - max_bond] *)
Definition bond_value (mb : Z) (sall : list Z) : Z := nth (length sall - Z.to_nat mb) sall 0.

Lemma fold_bond_active q mb sall a :
  0 < mb < Z.of_nat (length sall) ->
  fold_bond q mb sall a = Z.max a (q * bond_value mb sall).
Proof.
  intro H. unfold fold_bond, bond_value, py_neg_index.
  assert (E1 : (0 <? mb) = true) by (apply Z.ltb_lt; lia).
  assert (E2 : (mb <? Z.of_nat (length sall)) = true) by (apply Z.ltb_lt; lia).
  rewrite E1, E2. cbn [andb].
  destruct (Z.to_nat mb) eqn:En; [lia|]. rewrite <- En.
  destruct (a <? _) eqn:E; [apply Z.ltb_lt in E|apply Z.ltb_ge in E]; lia.
Qed.

Lemma fold_bond_inactive q mb sall a :
  ~ (0 < mb < Z.of_nat (length sall)) -> fold_bond q mb sall a = a.
Proof.
  intro H. unfold fold_bond.
  destruct (0 <? mb) eqn:E1; destruct (mb <? Z.of_nat (length sall)) eqn:E2; cbn [andb]; try reflexivity.
  apply Z.ltb_lt in E1. apply Z.ltb_lt in E2. lia.
Qed.

(* "intersected with the bond limit": passing the final threshold = passing the
   cutoff threshold AND being at least the max_bond-th largest value *)
Lemma final_is_intersection q mb sall a s : 0 < q ->
  0 < mb < Z.of_nat (length sall) ->
  (fold_bond q mb sall a <= q * s <-> a <= q * s /\ bond_value mb sall <= s).
Proof. intros Hq H. rewrite fold_bond_active by exact H. nia. Qed.

Lemma bond_value_skipn sall mb : asc sall -> 0 < mb < Z.of_nat (length sall) ->
  forall x, In x (skipn (length sall - Z.to_nat mb) sall) -> bond_value mb sall <= x.
Proof.
  intros Hasc Hmb x Hx. unfold bond_value. set (i := (length sall - Z.to_nat mb)%nat) in *.
  assert (Hi : (i < length sall)%nat) by (subst i; lia).
  rewrite skipn_nth_cons in Hx by exact Hi. destruct Hx as [<-|Hx]; [lia|].
  apply (asc_split (S i) sall Hasc); [|exact Hx].
  rewrite firstn_S_nth by exact Hi. apply in_or_app. right. left. reflexivity.
Qed.

Lemma bond_value_firstn sall mb : asc sall -> 0 < mb < Z.of_nat (length sall) ->
  forall x, In x (firstn (S (length sall - Z.to_nat mb)) sall) -> x <= bond_value mb sall.
Proof.
  intros Hasc Hmb x Hx. unfold bond_value. set (i := (length sall - Z.to_nat mb)%nat) in *.
  assert (Hi : (i < length sall)%nat) by (subst i; lia).
  rewrite firstn_S_nth in Hx by exact Hi. apply in_app_or in Hx. destruct Hx as [Hx|[<-|[]]]; [|lia].
  apply (asc_split i sall Hasc); [exact Hx|].
  rewrite skipn_nth_cons by exact Hi. left. reflexivity.
Qed.

(* at least max_bond values are >= v, fewer than max_bond are > v *)
Lemma bond_count_ge sall mb : asc sall -> 0 < mb < Z.of_nat (length sall) ->
  (Z.to_nat mb <= count_true (fun s => (bond_value mb sall <=? s)%Z) sall)%nat.
Proof.
  intros Hasc Hmb. set (v := bond_value mb sall). set (i := (length sall - Z.to_nat mb)%nat).
  rewrite <- (firstn_skipn i sall). rewrite count_true_app.
  rewrite (count_true_all _ (skipn i sall)).
  - rewrite skipn_length. subst i. lia.
  - intros x Hx. apply Z.leb_le. apply (bond_value_skipn sall mb Hasc Hmb). exact Hx.
Qed.

Lemma bond_count_gt sall mb : asc sall -> 0 < mb < Z.of_nat (length sall) ->
  (count_true (fun s => (bond_value mb sall <? s)%Z) sall < Z.to_nat mb)%nat.
Proof.
  intros Hasc Hmb. set (v := bond_value mb sall). set (i := (length sall - Z.to_nat mb)%nat).
  rewrite <- (firstn_skipn (S i) sall). rewrite count_true_app.
  rewrite (count_true_none _ (firstn (S i) sall)).
  - pose proof (count_true_le_length (fun s => (v <? s)%Z) (skipn (S i) sall)) as H.
    rewrite skipn_length in H. subst i. lia.
  - intros x Hx. apply Z.ltb_ge. apply (bond_value_firstn sall mb Hasc Hmb). exact Hx.
Qed.

(* no tie at the boundary: exactly max_bond values are >= v *)
Lemma bond_count_no_tie sall mb : asc sall -> 0 < mb < Z.of_nat (length sall) ->
  (forall x, In x (firstn (length sall - Z.to_nat mb) sall) -> x < bond_value mb sall) ->
  count_true (fun s => (bond_value mb sall <=? s)%Z) sall = Z.to_nat mb.
Proof.
  intros Hasc Hmb Hlt. set (v := bond_value mb sall) in *. set (i := (length sall - Z.to_nat mb)%nat) in *.
  rewrite <- (firstn_skipn i sall). rewrite count_true_app.
  rewrite (count_true_none _ (firstn i sall)).
  - rewrite (count_true_all _ (skipn i sall)).
    + rewrite skipn_length. subst i. lia.
    + intros x Hx. apply Z.leb_le. apply (bond_value_skipn sall mb Hasc Hmb). exact Hx.
  - intros x Hx. apply Z.leb_gt. apply Hlt. exact Hx.
Qed.

Lemma kept_le_bond_count sall mb q a : 0 < mb < Z.of_nat (length sall) -> 0 < q ->
  (count_true (fun s => (fold_bond q mb sall a <=? q * s)%Z) sall
   <= count_true (fun s => (bond_value mb sall <=? s)%Z) sall)%nat.
Proof.
  intros Hmb Hq. apply count_true_mono. intros x _ Hx. apply Z.leb_le in Hx. apply Z.leb_le.
  apply (final_is_intersection q mb sall a x Hq Hmb) in Hx. lia.
Qed.

Definition total_kept (counts : list nat) : nat := fold_right Nat.add 0%nat counts.

(* the strict predecessor condition "the value just below the boundary is smaller" *)
Definition no_tie_at_bond (mb : Z) (sall : list Z) : Prop :=
  forall x, In x (firstn (length sall - Z.to_nat mb) sall) -> x < bond_value mb sall.

Theorem bond_limit thr m p q mb secs counts :
  0 < q -> 0 < p -> 0 < mb ->
  sub_max_bonds thr m p q mb secs = Some counts ->
  let sall := sort_asc (all_values secs) in
  (* beyond the rank: nothing to limit *)
  (Z.of_nat (length sall) <= mb -> Z.of_nat (total_kept counts) <= mb) /\
  (mb < Z.of_nat (length sall) ->
     let v := bond_value mb sall in
     (* exact characterisation, ties included *)
     (total_kept counts <= count_true (fun s => (v <=? s)%Z) sall)%nat /\
     (count_true (fun s => (v <? s)%Z) sall < Z.to_nat mb <= count_true (fun s => (v <=? s)%Z) sall)%nat /\
     (* without a tie at the boundary the limit is respected *)
     (no_tie_at_bond mb sall -> Z.of_nat (total_kept counts) <= mb)).
Proof.
  intros Hq Hp Hmb Hs sall. unfold sub_max_bonds in Hs.
  assert (E : (0 <? p) = true) by (apply Z.ltb_lt; exact Hp). rewrite E in Hs.
  destruct secs as [|cs0 t]; [discriminate|]. injection Hs as <-.
  set (secs := cs0 :: t) in *.
  assert (Htot : total_kept (sub_counts_cut thr m p q mb secs)
                 = count_true (fun s => final_threshold thr m p q mb secs <=? q * s) sall).
  { unfold total_kept, sub_counts_cut, keep_count.
    exact (total_kept_count (fun s => final_threshold thr m p q mb secs <=? q * s) secs). }
  split.
  - intro Hbig. rewrite Htot.
    pose proof (count_true_le_length (fun s => final_threshold thr m p q mb secs <=? q * s) sall). lia.
  - intros Hlt v.
    assert (Hasc : asc sall) by apply sort_asc_asc.
    assert (Hrange : 0 < mb < Z.of_nat (length sall)) by lia.
    assert (Hle : (total_kept (sub_counts_cut thr m p q mb secs) <= count_true (fun s => (v <=? s)%Z) sall)%nat).
    { rewrite Htot. unfold final_threshold. fold sall.
      apply (kept_le_bond_count sall mb q _ Hrange Hq). }
    split; [exact Hle|]. split.
    + split; [apply bond_count_gt | apply bond_count_ge]; assumption.
    + intro Hnt. pose proof (bond_count_no_tie sall mb Hasc Hrange Hnt) as Heq. fold v in Heq. lia.
Qed.

(* ================================================================ cumulative rules *)
(* length of the longest prefix whose (acc + partial sums) stay below rhs/q *)
Fixpoint lead (q rhs acc : Z) (w : list Z) : nat :=
  match w with
  | [] => O
  | x :: t => if q * (acc + x) <? rhs then S (lead q rhs (acc + x) t) else O
  end.

Lemma lead_le_length q rhs acc w : (lead q rhs acc w <= length w)%nat.
Proof.
  revert acc. induction w as [|x t IH]; intro acc; cbn [lead length]; [lia|].
  destruct (_ <? _); [specialize (IH (acc + x))|]; lia.
Qed.

Lemma cumsum_from_length acc w : length (cumsum_from acc w) = length w.
Proof. revert acc. induction w as [|x t IH]; intro acc; cbn [cumsum_from length]; [reflexivity|]. rewrite IH. reflexivity. Qed.

Lemma cumsum_from_ge acc w : nonneg w -> forall c, In c (cumsum_from acc w) -> acc <= c.
Proof.
  revert acc. induction w as [|x t IH]; intros acc H c Hc; [destruct Hc|].
  assert (0 <= x) by (apply H; left; reflexivity).
  cbn [cumsum_from] in Hc. destruct Hc as [<-|Hc]; [lia|].
  assert (acc + x <= c); [|lia]. apply (IH (acc + x)); [|exact Hc].
  intros y Hy. apply H. right. exact Hy.
Qed.

Lemma last_cumsum_from acc w : w <> [] -> last (cumsum_from acc w) 0 = acc + zsum w.
Proof.
  revert acc. induction w as [|x t IH]; intros acc H; [congruence|].
  destruct t as [|y t'].
  - cbn. lia.
  - change (cumsum_from acc (x :: y :: t')) with ((acc + x) :: cumsum_from (acc + x) (y :: t')).
    change (last ((acc + x) :: cumsum_from (acc + x) (y :: t')) 0)
      with (match cumsum_from (acc + x) (y :: t') with [] => acc + x | _ => last (cumsum_from (acc + x) (y :: t')) 0 end).
    cbn [cumsum_from]. change ((acc + x + y) :: cumsum_from (acc + x + y) t') with (cumsum_from (acc + x) (y :: t')).
    rewrite IH by discriminate. rewrite !zsum_cons. lia.
Qed.

(* count_nonzero(cum >= rhs) over the whole cumsum = len - (longest prefix below) *)
Lemma count_cum_lead q rhs acc w : 0 < q -> nonneg w ->
  count_true (fun c => rhs <=? q * c) (cumsum_from acc w) = (length w - lead q rhs acc w)%nat.
Proof.
  intros Hq. revert acc. induction w as [|x t IH]; intros acc H; [reflexivity|].
  assert (Ht : nonneg t) by (intros y Hy; apply H; right; exact Hy).
  cbn [cumsum_from lead length]. unfold count_true. cbn [filter].
  destruct (q * (acc + x) <? rhs) eqn:E.
  - apply Z.ltb_lt in E. assert (E' : (rhs <=? q * (acc + x)) = false) by (apply Z.leb_gt; exact E).
    rewrite E'. fold (count_true (fun c => rhs <=? q * c) (cumsum_from (acc + x) t)).
    rewrite IH by exact Ht. pose proof (lead_le_length q rhs (acc + x) t). lia.
  - apply Z.ltb_ge in E. assert (E' : (rhs <=? q * (acc + x)) = true) by (apply Z.leb_le; exact E).
    rewrite E'. cbn [length].
    fold (count_true (fun c => rhs <=? q * c) (cumsum_from (acc + x) t)).
    rewrite count_true_all.
    + rewrite cumsum_from_length. lia.
    + intros c Hc. apply Z.leb_le. pose proof (cumsum_from_ge (acc + x) t Ht c Hc). nia.
Qed.

Lemma lead_below q rhs acc w : q * acc < rhs -> q * (acc + zsum (firstn (lead q rhs acc w) w)) < rhs.
Proof.
  revert acc. induction w as [|x t IH]; intros acc H; cbn [lead].
  - cbn. lia.
  - destruct (q * (acc + x) <? rhs) eqn:E.
    + apply Z.ltb_lt in E. cbn [firstn]. rewrite zsum_cons.
      specialize (IH (acc + x) E). replace (acc + (x + zsum (firstn (lead q rhs (acc + x) t) t)))
        with (acc + x + zsum (firstn (lead q rhs (acc + x) t) t)) by lia. exact IH.
    + cbn. lia.
Qed.

Lemma lead_reach q rhs acc w : (lead q rhs acc w < length w)%nat ->
  rhs <= q * (acc + zsum (firstn (S (lead q rhs acc w)) w)).
Proof.
  revert acc. induction w as [|x t IH]; intros acc H; cbn [lead length] in *; [lia|].
  destruct (q * (acc + x) <? rhs) eqn:E.
  - change (firstn (S (S (lead q rhs (acc + x) t))) (x :: t)) with (x :: firstn (S (lead q rhs (acc + x) t)) t).
    rewrite zsum_cons. specialize (IH (acc + x)).
    replace (acc + (x + zsum (firstn (S (lead q rhs (acc + x) t)) t)))
      with (acc + x + zsum (firstn (S (lead q rhs (acc + x) t)) t)) by lia. apply IH. lia.
  - apply Z.ltb_ge in E. cbn [firstn]. rewrite zsum_cons. cbn. lia.
Qed.

Lemma lead_full q rhs acc w : w <> [] -> lead q rhs acc w = length w -> q * (acc + zsum w) < rhs.
Proof.
  revert acc. induction w as [|x t IH]; intros acc Hne H; [congruence|].
  cbn [lead length] in H. destruct (q * (acc + x) <? rhs) eqn:E; [|discriminate].
  apply Z.ltb_lt in E. injection H as H. rewrite zsum_cons. destruct t as [|y t'].
  - cbn. replace (acc + (x + 0)) with (acc + x) by lia. exact E.
  - specialize (IH (acc + x)). replace (acc + (x + zsum (y :: t'))) with (acc + x + zsum (y :: t')) by lia.
    apply IH; [discriminate | exact H].
Qed.

Lemma lead_mono q rhs rhs' acc w : rhs <= rhs' -> (lead q rhs acc w <= lead q rhs' acc w)%nat.
Proof.
  intro H. revert acc. induction w as [|x t IH]; intro acc; cbn [lead]; [lia|].
  destruct (q * (acc + x) <? rhs) eqn:E; [|lia].
  apply Z.ltb_lt in E. assert (E' : (q * (acc + x) <? rhs') = true) by (apply Z.ltb_lt; lia).
  rewrite E'. specialize (IH (acc + x)). lia.
Qed.

(* ---- the cumulative threshold in closed form *)
Definition weight (m : cmode) (l : list Z) : Z := zsum (map (spow m) l).

(* numerator (over q) the cumulative sums are compared with *)
Definition rhs_of (m : cmode) (p : Z) (sall : list Z) : Z :=
  if relative m then p * weight m sall else p.

Definition lead_of (m : cmode) (p q : Z) (sall : list Z) : nat :=
  lead q (rhs_of m p sall) 0 (map (spow m) sall).

Lemma cut_rhs_is_rhs_of m p sall : sall <> [] ->
  cut_rhs m p (cumsum_from 0 (map (spow m) sall)) = rhs_of m p sall.
Proof.
  intro H. unfold cut_rhs, rhs_of, weight. destruct (relative m); [|reflexivity].
  rewrite last_cumsum_from; [f_equal; lia|]. destruct sall; [congruence|discriminate].
Qed.

Lemma n_chi_all_lead m p q sall : 0 < q -> nonneg sall -> sall <> [] ->
  n_chi_all m p q sall = (length sall - lead_of m p q sall)%nat.
Proof.
  intros Hq Hn Hne. unfold n_chi_all. cbv zeta. rewrite cut_rhs_is_rhs_of by exact Hne.
  rewrite count_cum_lead; [|exact Hq|apply nonneg_map_spow; exact Hn].
  rewrite map_length. reflexivity.
Qed.

Lemma lead_of_le m p q sall : (lead_of m p q sall <= length sall)%nat.
Proof. unfold lead_of. pose proof (lead_le_length q (rhs_of m p sall) 0 (map (spow m) sall)) as H. rewrite map_length in H. exact H. Qed.

Lemma thr_cut_closed m p q sall : cumulative m = true -> 0 < q -> nonneg sall -> sall <> [] ->
  thr_cut m p q sall =
  if Nat.ltb (lead_of m p q sall) (length sall) then q * nth (lead_of m p q sall) sall 0
  else q * (last sall 0 + 1).
Proof.
  intros Hc Hq Hn Hne. pose proof (lead_of_le m p q sall) as Hle.
  assert (E : thr_cut m p q sall = match n_chi_all m p q sall with
                                         | O => q * (last sall 0 + 1)
                                         | n => q * py_neg_index sall n end)
    by (destruct m; try discriminate; reflexivity).
  rewrite E, n_chi_all_lead by assumption.
  destruct (Nat.ltb (lead_of m p q sall) (length sall)) eqn:El.
  - apply Nat.ltb_lt in El. destruct (length sall - lead_of m p q sall)%nat eqn:En; [lia|].
    rewrite <- En. unfold py_neg_index. rewrite En. rewrite <- En.
    replace (length sall - (length sall - lead_of m p q sall))%nat with (lead_of m p q sall) by lia. reflexivity.
  - apply Nat.ltb_ge in El. replace (length sall - lead_of m p q sall)%nat with O by lia. reflexivity.
Qed.




(* ================================================================ cutoff_maximal *)
Lemma asc_firstn_S_le l i x : asc l -> (i < length l)%nat -> In x (firstn (S i) l) -> x <= nth i l 0.
Proof.
  intros Hasc Hi Hx. rewrite firstn_S_nth in Hx by exact Hi. apply in_app_or in Hx.
  destruct Hx as [Hx|[<-|[]]]; [|lia].
  apply (asc_split i l Hasc); [exact Hx|]. rewrite skipn_nth_cons by exact Hi. left. reflexivity.
Qed.

Lemma asc_skipn_ge l i x : asc l -> (i < length l)%nat -> In x (skipn i l) -> nth i l 0 <= x.
Proof.
  intros Hasc Hi Hx. rewrite skipn_nth_cons in Hx by exact Hi. destruct Hx as [<-|Hx]; [lia|].
  apply (asc_split (S i) l Hasc); [|exact Hx].
  rewrite firstn_S_nth by exact Hi. apply in_or_app. right. left. reflexivity.
Qed.

Lemma weight_app m l1 l2 : weight m (l1 ++ l2) = weight m l1 + weight m l2.
Proof. unfold weight. rewrite map_app, zsum_app. reflexivity. Qed.

Lemma weight_nonneg m l : nonneg l -> 0 <= weight m l.
Proof. intro H. apply zsum_nonneg. apply nonneg_map_spow. exact H. Qed.

Lemma spow_nonneg m x : 0 <= x -> 0 <= spow m x.
Proof. intro H. destruct m; cbn [spow]; nia. Qed.

Lemma weight_filter_le m (f : Z -> bool) l : nonneg l -> weight m (filter f l) <= weight m l.
Proof.
  unfold weight. induction l as [|x t IH]; intro H; [cbn; lia|].
  assert (0 <= spow m x) by (apply spow_nonneg; apply H; left; reflexivity).
  assert (IH' : zsum (map (spow m) (filter f t)) <= zsum (map (spow m) t))
    by (apply IH; intros y Hy; apply H; right; exact Hy).
  cbn [filter]. destruct (f x); cbn [map]; rewrite ?zsum_cons; lia.
Qed.

Lemma weight_firstn m n l : weight m (firstn n l) = zsum (firstn n (map (spow m) l)).
Proof. unfold weight. rewrite firstn_map. reflexivity. Qed.

Lemma nonneg_firstn n l : nonneg l -> nonneg (firstn n l).
Proof. intros H x Hx. apply H. eapply In_firstn. exact Hx. Qed.
Lemma nonneg_skipn n l : nonneg l -> nonneg (skipn n l).
Proof. intros H x Hx. apply H. eapply In_skipn. exact Hx. Qed.

(* The discarded values of a cumulative rule are  D = { s : q*s < a }.
   (1) their weight is below the cutoff, and
   (2) D contains every lower set {s < t} whose weight is below the cutoff:
   D is the LARGEST lower set of the spectrum with weight < cutoff.  When the
   value at the boundary is not tied this is the longest ascending prefix. *)
Theorem cutoff_maximal m p q sall :
  cumulative m = true -> 0 < q -> asc sall -> nonneg sall -> sall <> [] ->
  let rhs := rhs_of m p sall in
  let a := thr_cut m p q sall in
  (0 < rhs -> q * weight m (filter (fun s => q * s <? a) sall) < rhs) /\
  (forall t, q * weight m (filter (fun s => s <? t) sall) < rhs ->
             forall s, In s sall -> s < t -> q * s < a).
Proof.
  intros Hc Hq Hasc Hn Hne rhs a. subst a. rewrite thr_cut_closed by assumption.
  set (d := lead_of m p q sall). pose proof (lead_of_le m p q sall) as Hdle. fold d in Hdle.
  destruct (Nat.ltb d (length sall)) eqn:El.
  - apply Nat.ltb_lt in El. set (v := nth d sall 0). split.
    + intro Hpos.
      assert (Hsplit : filter (fun s => q * s <? q * v) sall = filter (fun s => q * s <? q * v) (firstn d sall)).
      { rewrite <- (firstn_skipn d sall) at 1. rewrite filter_app.
        rewrite (filter_none _ (skipn d sall)); [apply app_nil_r|].
        intros x Hx. apply Z.ltb_ge. pose proof (asc_skipn_ge sall d x Hasc El Hx). subst v. nia. }
      rewrite Hsplit.
      pose proof (weight_filter_le m (fun s => q * s <? q * v) (firstn d sall) (nonneg_firstn d sall Hn)) as Hw.
      rewrite weight_firstn in Hw.
      pose proof (lead_below q rhs 0 (map (spow m) sall)) as Hb.
      assert (Hb' : q * (0 + zsum (firstn d (map (spow m) sall))) < rhs) by (apply Hb; lia).
      nia.
    + intros t Ht s Hs Hst.
      destruct (Z_lt_le_dec s v) as [Hlt|Hge]; [nia|]. exfalso.
      assert (Hall : filter (fun s0 => s0 <? t) (firstn (S d) sall) = firstn (S d) sall).
      { apply filter_all. intros x Hx. apply Z.ltb_lt. pose proof (asc_firstn_S_le sall d x Hasc El Hx). subst v. lia. }
      rewrite <- (firstn_skipn (S d) sall) in Ht. rewrite filter_app, weight_app, Hall in Ht.
      pose proof (weight_nonneg m (filter (fun s0 => s0 <? t) (skipn (S d) sall))) as Hnn.
      assert (0 <= weight m (filter (fun s0 => s0 <? t) (skipn (S d) sall))).
      { apply Hnn. intros x Hx. apply filter_In in Hx. apply (nonneg_skipn (S d) sall Hn). apply Hx. }
      rewrite weight_firstn in Ht.
      pose proof (lead_reach q rhs 0 (map (spow m) sall)) as Hr.
      assert (rhs <= q * (0 + zsum (firstn (S d) (map (spow m) sall)))).
      { apply Hr. rewrite map_length. exact El. }
      nia.
  - apply Nat.ltb_ge in El. assert (Hd : d = length sall) by lia. split.
    + intro Hpos. rewrite filter_all.
      * unfold d, lead_of in Hd. rewrite <- (map_length (spow m)) in Hd.
        apply lead_full in Hd; [unfold weight; fold rhs in Hd; lia|].
        destruct sall; [congruence|discriminate].
      * intros x Hx. apply Z.ltb_lt. pose proof (asc_le_last sall x Hasc Hx). nia.
    + intros t _ s Hs _. pose proof (asc_le_last sall s Hasc Hs). nia.
Qed.


(* ---- the cutoff exceeds the total weight: nothing is kept (the guard `n_chi_all == 0`) *)
Lemma lead_all q rhs acc w : 0 < q -> nonneg w -> q * (acc + zsum w) < rhs -> lead q rhs acc w = length w.
Proof.
  intros Hq. revert acc. induction w as [|x t IH]; intros acc Hn H; [reflexivity|].
  assert (Ht : nonneg t) by (intros y Hy; apply Hn; right; exact Hy).
  pose proof (zsum_nonneg t Ht). rewrite zsum_cons in H. cbn [lead length].
  assert (E : (q * (acc + x) <? rhs) = true) by (apply Z.ltb_lt; nia).
  rewrite E. f_equal. apply IH; [exact Ht|]. replace (acc + x + zsum t) with (acc + (x + zsum t)) by lia. exact H.
Qed.


Theorem above_total_keeps_none m p q sall :
  cumulative m = true -> 0 < q -> asc sall -> nonneg sall -> sall <> [] ->
  q * weight m sall < rhs_of m p sall ->
  forall s, In s sall -> q * s < thr_cut m p q sall.
Proof.
  intros Hc Hq Hasc Hn Hne Hab s Hs. rewrite thr_cut_closed by assumption.
  assert (Hd : lead_of m p q sall = length sall).
  { unfold lead_of. rewrite <- (map_length (spow m) sall). apply lead_all; [exact Hq | apply nonneg_map_spow; exact Hn|].
    unfold weight in Hab. lia. }
  rewrite Hd, Nat.ltb_irrefl. pose proof (asc_le_last sall s Hasc Hs). nia.
Qed.

(* modes 1 and 2 keep nothing above the largest value / above relative cutoff 1 *)
Lemma abs_rel_above_keep_none m p q sall s : cumulative m = false -> 0 < q -> asc sall -> nonneg sall -> In s sall ->
  (if relative m then q < p else q * last sall 0 < p) ->
  0 < last sall 0 -> q * s < thr_cut m p q sall.
Proof.
  intros Hc Hq Hasc Hn Hs Hp Hpos. pose proof (asc_le_last sall s Hasc Hs).
  destruct m; try discriminate; cbn [relative thr_cut] in *; nia.
Qed.

(* ================================================================ cutoff_monotone *)
Lemma rhs_of_mono m p p' sall : nonneg sall -> p <= p' -> rhs_of m p sall <= rhs_of m p' sall.
Proof.
  intros Hn Hp. unfold rhs_of. destruct (relative m); [|exact Hp].
  pose proof (weight_nonneg m sall Hn). nia.
Qed.

Lemma thr_cut_mono m p p' q sall : 0 < q -> asc sall -> nonneg sall -> sall <> [] -> p <= p' ->
  thr_cut m p q sall <= thr_cut m p' q sall.
Proof.
  intros Hq Hasc Hn Hne Hp. destruct (cumulative m) eqn:Hc.
  - rewrite !thr_cut_closed by assumption.
    pose proof (lead_mono q _ _ 0 (map (spow m) sall) (rhs_of_mono m p p' sall Hn Hp)) as Hl.
    fold (lead_of m p q sall) in Hl. fold (lead_of m p' q sall) in Hl.
    destruct (Nat.ltb (lead_of m p' q sall) (length sall)) eqn:E'.
    + apply Nat.ltb_lt in E'. assert (E : Nat.ltb (lead_of m p q sall) (length sall) = true) by (apply Nat.ltb_lt; lia).
      rewrite E. pose proof (asc_nth_mono sall _ _ Hasc Hl E'). nia.
    + destruct (Nat.ltb (lead_of m p q sall) (length sall)) eqn:E; [|lia].
      apply Nat.ltb_lt in E. pose proof (asc_le_last sall _ Hasc (nth_In_lt sall _ E)). nia.
  - assert (0 <= last sall 0).
    { destruct sall as [|x t]; [congruence|].
      assert (0 <= x) by (apply Hn; left; reflexivity).
      pose proof (asc_le_last (x :: t) x Hasc (or_introl eq_refl)). lia. }
    destruct m; try discriminate; cbn [thr_cut]; nia.
Qed.

Lemma keep_count_antitone q a a' ss : a <= a' -> (keep_count q a' ss <= keep_count q a ss)%nat.
Proof.
  intro H. unfold keep_count. apply count_true_mono. intros x _ Hx. apply Z.leb_le in Hx. apply Z.leb_le. lia.
Qed.

Lemma nonneg_sall secs : sectors_nonneg secs -> nonneg (sort_asc (all_values secs)).
Proof.
  intros H x Hx. apply (Permutation_in _ (sort_asc_perm _)) in Hx.
  unfold all_values in Hx. apply in_concat_map in Hx. destruct Hx as [cs [Hcs Hx]]. exact (H cs Hcs x Hx).
Qed.

Lemma sall_nonempty secs : all_values secs <> [] -> sort_asc (all_values secs) <> [].
Proof.
  intros H E. apply H. apply Permutation_nil. rewrite <- E. apply sort_asc_perm.
Qed.

Lemma Forall2_map_le (f g : sector -> nat) secs :
  (forall cs, In cs secs -> (g cs <= f cs)%nat) -> Forall2 le (map g secs) (map f secs).
Proof.
  induction secs as [|cs t IH]; intro H; [constructor|].
  cbn [map]. constructor; [apply H; left; reflexivity | apply IH; intros; apply H; right; assumption].
Qed.

(* asking for a larger cutoff never keeps more, sector by sector *)
Theorem cutoff_monotone m p p' q mb secs counts counts' :
  0 < q -> 0 < p -> p <= p' -> sectors_nonneg secs -> all_values secs <> [] ->
  sub_max_bonds thr_cut m p q mb secs = Some counts ->
  sub_max_bonds thr_cut m p' q mb secs = Some counts' ->
  Forall2 le counts' counts.
Proof.
  intros Hq Hp Hpp Hn Hne Hs Hs'. unfold sub_max_bonds in Hs, Hs'.
  assert (E : (0 <? p) = true) by (apply Z.ltb_lt; exact Hp).
  assert (E' : (0 <? p') = true) by (apply Z.ltb_lt; lia). rewrite E in Hs. rewrite E' in Hs'.
  destruct secs as [|cs0 t]; [discriminate|]. injection Hs as <-. injection Hs' as <-.
  unfold sub_counts_cut. apply Forall2_map_le. intros cs _. apply keep_count_antitone.
  unfold final_threshold. apply fold_bond_mono.
  apply thr_cut_mono; try assumption; [apply sort_asc_asc | apply nonneg_sall; exact Hn | apply sall_nonempty; exact Hne].
Qed.


(* ================================================================ no cutoff: calc_sub_max_bonds *)
Lemma incr_nth_length l i : length (incr_nth l i) = length l.
Proof. revert i. induction l as [|x t IH]; intros [|i]; cbn [incr_nth length]; try reflexivity. rewrite IH. reflexivity. Qed.

Lemma incr_nth_zsum l i : (i < length l)%nat -> zsum (incr_nth l i) = zsum l + 1.
Proof.
  revert i. induction l as [|x t IH]; intros [|i] H; cbn [length] in H; try lia; cbn [incr_nth]; rewrite !zsum_cons.
  - lia.
  - rewrite IH by lia. lia.
Qed.

Lemma incr_nth_same l i : (i < length l)%nat -> nth i (incr_nth l i) 0 = nth i l 0 + 1.
Proof.
  revert i. induction l as [|x t IH]; intros [|i] H; cbn [length] in H; try lia; cbn [incr_nth nth].
  - reflexivity.
  - apply IH. lia.
Qed.

Lemma incr_nth_other l i j : i <> j -> nth j (incr_nth l i) 0 = nth j l 0.
Proof.
  revert i j. induction l as [|x t IH]; intros [|i] [|j] H; cbn [incr_nth nth]; try reflexivity; try lia.
  apply IH. lia.
Qed.

Lemma fold_incr_length idx l : length (fold_left incr_nth idx l) = length l.
Proof. revert l. induction idx as [|i r IH]; intro l; cbn [fold_left]; [reflexivity|]. rewrite IH. apply incr_nth_length. Qed.

Lemma fold_incr_zsum idx l : (forall i, In i idx -> (i < length l)%nat) ->
  zsum (fold_left incr_nth idx l) = zsum l + Z.of_nat (length idx).
Proof.
  revert l. induction idx as [|i r IH]; intros l H; cbn [fold_left length]; [lia|].
  rewrite IH.
  - rewrite incr_nth_zsum by (apply H; left; reflexivity). lia.
  - intros k Hk. rewrite incr_nth_length. apply H. right. exact Hk.
Qed.

Lemma fold_incr_notin idx l j : ~ In j idx -> nth j (fold_left incr_nth idx l) 0 = nth j l 0.
Proof.
  revert l. induction idx as [|i r IH]; intros l H; cbn [fold_left]; [reflexivity|].
  rewrite IH by (intro K; apply H; right; exact K).
  apply incr_nth_other. intro E. apply H. left. exact E.
Qed.

Lemma fold_incr_bounds idx l j : NoDup idx -> (forall i, In i idx -> (i < length l)%nat) ->
  nth j l 0 <= nth j (fold_left incr_nth idx l) 0 <= nth j l 0 + 1.
Proof.
  revert l. induction idx as [|i r IH]; intros l Hnd H; cbn [fold_left]; [lia|].
  inversion Hnd as [|? ? Hni Hnd']; subst.
  destruct (Nat.eq_dec i j) as [->|Hne].
  - rewrite fold_incr_notin by exact Hni. rewrite incr_nth_same by (apply H; left; reflexivity). lia.
  - specialize (IH (incr_nth l i) Hnd').
    rewrite (incr_nth_other l i j Hne) in IH. apply IH.
    intros k Hk. rewrite incr_nth_length. apply H. right. exact Hk.
Qed.

(* argsort is a permutation of range(len) *)
Lemma insert_key_perm x l : Permutation (insert_key x l) (x :: l).
Proof.
  induction l as [|y t IH]; cbn [insert_key]; [apply Permutation_refl|].
  destruct (fst x <=? fst y); [apply Permutation_refl|].
  eapply Permutation_trans; [apply perm_skip; exact IH | apply perm_swap].
Qed.

Lemma sort_key_perm l : Permutation (fold_right insert_key [] l) l.
Proof.
  induction l as [|x t IH]; [constructor|]. cbn [fold_right].
  eapply Permutation_trans; [apply insert_key_perm | apply perm_skip; exact IH].
Qed.

Lemma map_snd_combine {A B} (l1 : list A) (l2 : list B) : length l1 = length l2 -> map snd (combine l1 l2) = l2.
Proof.
  revert l2. induction l1 as [|a t IH]; intros [|b r] H; cbn [length] in H; try lia; [reflexivity|].
  cbn [combine map snd]. f_equal. apply IH. lia.
Qed.

Lemma argsort_perm l : Permutation (argsort l) (seq 0 (length l)).
Proof.
  unfold argsort. eapply Permutation_trans; [apply Permutation_map; apply sort_key_perm|].
  rewrite map_snd_combine; [apply Permutation_refl | rewrite seq_length; reflexivity].
Qed.

Lemma argsort_NoDup l : NoDup (argsort l).
Proof. eapply Permutation_NoDup; [apply Permutation_sym; apply argsort_perm | apply seq_NoDup]. Qed.

Lemma argsort_lt l i : In i (argsort l) -> (i < length l)%nat.
Proof. intro H. apply (Permutation_in _ (argsort_perm l)) in H. apply in_seq in H. lia. Qed.

Lemma argsort_length l : length (argsort l) = length l.
Proof. rewrite (Permutation_length (argsort_perm l)). apply seq_length. Qed.

Lemma NoDup_firstn {A} n (l : list A) : NoDup l -> NoDup (firstn n l).
Proof.
  revert l. induction n as [|n IH]; intros l H; [constructor|].
  destruct l as [|x t]; [constructor|]. inversion H as [|? ? Hni Hnd]; subst.
  cbn [firstn]. constructor; [|apply IH; exact Hnd]. intro K. apply Hni. eapply In_firstn. exact K.
Qed.

(* the remainder distribution, for ANY base list (covers the float floor too) *)
Lemma distribute_contract base mb :
  0 <= mb - zsum base <= Z.of_nat (length base) ->
  length (distribute base mb) = length base /\
  zsum (distribute base mb) = mb /\
  (forall j, nth j base 0 <= nth j (distribute base mb) 0 <= nth j base 0 + 1).
Proof.
  intro H. unfold distribute. set (r := Z.to_nat (mb - zsum base)).
  assert (Hin : forall i, In i (firstn r (argsort base)) -> (i < length base)%nat).
  { intros i Hi. apply argsort_lt. eapply In_firstn. exact Hi. }
  split; [apply fold_incr_length|]. split.
  - rewrite fold_incr_zsum by exact Hin. rewrite firstn_length, argsort_length. subst r. lia.
  - intro j. apply fold_incr_bounds; [apply NoDup_firstn; apply argsort_NoDup | exact Hin].
Qed.

Ltac Zify.zify_post_hook ::= Z.to_euclidean_division_equations.

(* sum of floors: 0 <= mb*sum(sizes) - T*sum(floor(mb*sz/T)) <= (T-1)*len *)
Lemma floor_sum_bounds T mb sizes : 0 < T ->
  0 <= mb * zsum sizes - T * zsum (map (fun sz => mb * sz / T) sizes) <= (T - 1) * Z.of_nat (length sizes).
Proof.
  intro HT. induction sizes as [|x t IH]; [cbn; lia|].
  cbn [map length]. rewrite !zsum_cons.
  generalize dependent (zsum (map (fun sz => mb * sz / T) t)). intros B IH.
  generalize dependent (zsum t). intros S IH.
  assert (Hx : 0 <= mb * x - T * (mb * x / T) <= T - 1).
  { generalize (mb * x). intro y. lia. }
  generalize dependent (mb * x / T). intros fx Hx.
  rewrite Nat2Z.inj_succ. nia.
Qed.

Definition positive_sizes (sizes : list Z) : Prop := forall s, In s sizes -> 0 < s.

Lemma nth_map_lt {A B} (f : A -> B) l j d d' : (j < length l)%nat -> nth j (map f l) d = f (nth j l d').
Proof.
  revert j. induction l as [|x t IH]; intros [|j] H; cbn [length] in H; try lia; cbn [map nth]; [reflexivity|].
  apply IH. lia.
Qed.

Lemma nth_floor_base sizes mb j : (j < length sizes)%nat ->
  nth j (floor_base sizes mb) 0 = mb * nth j sizes 0 / zsum sizes.
Proof. intro H. unfold floor_base. cbv zeta. apply (nth_map_lt (fun sz => mb * sz / zsum sizes)). exact H. Qed.

(* with no cutoff the bond dimension equals the limit (or the rank when the
   limit is beyond it), split across charges, each within its sector *)
Theorem no_cutoff_total sizes mb res :
  positive_sizes sizes ->
  calc_sub_max_bonds sizes mb = Some res ->
  length res = length sizes /\
  (mb < 0 -> res = sizes) /\
  (0 <= mb -> zsum res = Z.min mb (zsum sizes)) /\
  (forall j, (j < length sizes)%nat -> 0 <= nth j res 0 <= nth j sizes 0) /\
  (* proportional: floor or floor+1 of max_bond*size/total when something is cut *)
  (0 <= mb < zsum sizes -> forall j, (j < length sizes)%nat ->
      mb * nth j sizes 0 / zsum sizes <= nth j res 0 <= mb * nth j sizes 0 / zsum sizes + 1).
Proof.
  intros Hpos H. unfold calc_sub_max_bonds in H.
  assert (Hnth : forall j, (j < length sizes)%nat -> 0 < nth j sizes 0) by (intros j Hj; apply Hpos; apply nth_In; exact Hj).
  destruct (mb <? 0) eqn:E0.
  { apply Z.ltb_lt in E0. injection H as <-. split; [reflexivity|]. split; [intros _; reflexivity|].
    split; [intro; lia|]. split; [intros j Hj; specialize (Hnth j Hj); lia | intros; lia]. }
  apply Z.ltb_ge in E0. cbv zeta in H.
  destruct (zsum sizes =? 0) eqn:ET; [discriminate|]. apply Z.eqb_neq in ET.
  assert (HT : 0 < zsum sizes).
  { assert (0 <= zsum sizes); [|lia]. apply zsum_nonneg. intros x Hx. apply Hpos in Hx. lia. }
  destruct (zsum sizes <=? mb) eqn:E1.
  { apply Z.leb_le in E1. injection H as <-. split; [reflexivity|]. split; [intros _; reflexivity|].
    split; [intro; lia|]. split; [intros j Hj; specialize (Hnth j Hj); lia | intros; lia]. }
  apply Z.leb_gt in E1. injection H as <-.
  set (T := zsum sizes) in *. set (base := floor_base sizes mb).
  assert (Hlen : length base = length sizes) by (unfold base, floor_base; cbv zeta; apply map_length).
  pose proof (floor_sum_bounds T mb sizes HT) as Hfs. fold T in Hfs.
  change (map (fun sz => mb * sz / T) sizes) with base in Hfs.
  assert (Hk : (0 < length sizes)%nat).
  { destruct sizes; [cbn in T; subst T; lia | cbn [length]; lia]. }
  assert (Hrem : 0 <= mb - zsum base <= Z.of_nat (length base)).
  { rewrite Hlen. assert (Hk' : 1 <= Z.of_nat (length sizes)) by lia.
    revert Hfs Hk'. generalize (zsum base) (Z.of_nat (length sizes)). clearbody T. intros B k Hfs Hk'. nia. }
  destruct (distribute_contract base mb Hrem) as [Hl [Hs Hb]].
  split; [lia|]. split; [lia|]. split; [intros _; rewrite Hs; lia|].
  assert (Hfloor : forall j, (j < length sizes)%nat ->
            nth j base 0 = mb * nth j sizes 0 / T /\ 0 <= nth j base 0 /\ nth j base 0 + 1 <= nth j sizes 0).
  { intros j Hj. unfold base. rewrite nth_floor_base by exact Hj. fold T. specialize (Hnth j Hj).
    split; [reflexivity|]. generalize dependent (nth j sizes 0). intros s Hs0. split.
    - apply Z.div_pos; nia.
    - assert (mb * s / T < s); [|lia]. apply Z.div_lt_upper_bound; nia. }
  split.
  - intros j Hj. destruct (Hfloor j Hj) as [_ [H0 H1]]. specialize (Hb j). lia.
  - intros _ j Hj. destruct (Hfloor j Hj) as [He _]. specialize (Hb j). rewrite <- He. exact Hb.
Qed.

(* ---- lifted to svd_truncated's no-cutoff branch *)
Lemma zsum_sector_sizes secs : zsum (sector_sizes secs) = Z.of_nat (length (all_values secs)).
Proof.
  unfold sector_sizes, all_values. induction secs as [|cs t IH]; [reflexivity|].
  cbn [map concat]. rewrite zsum_cons, app_length, IH. lia.
Qed.

Lemma total_kept_to_nat l : (forall x, In x l -> 0 <= x) -> Z.of_nat (total_kept (map Z.to_nat l)) = zsum l.
Proof.
  unfold total_kept. induction l as [|x t IH]; intro H; [reflexivity|].
  cbn [map fold_right]. rewrite zsum_cons, Nat2Z.inj_add, IH by (intros y Hy; apply H; right; exact Hy).
  assert (0 <= x) by (apply H; left; reflexivity). lia.
Qed.

Theorem no_cutoff_bond_dimension thr m p q mb secs counts :
  p <= 0 -> (forall cs, In cs secs -> snd cs <> []) ->
  sub_max_bonds thr m p q mb secs = Some counts ->
  let rank := Z.of_nat (length (all_values secs)) in
  length counts = length secs /\
  Z.of_nat (total_kept counts) = (if mb <? 0 then rank else Z.min mb rank) /\
  (forall j, (j < length secs)%nat -> (nth j counts 0 <= length (snd (nth j secs (0%Z, []))))%nat).
Proof.
  intros Hp Hne Hs rank. unfold sub_max_bonds in Hs.
  assert (E : (0 <? p) = false) by (apply Z.ltb_ge; exact Hp). rewrite E in Hs.
  destruct (calc_sub_max_bonds (sector_sizes secs) mb) as [res|] eqn:Hc; [|discriminate].
  cbn [option_map] in Hs. injection Hs as <-.
  assert (Hpos : positive_sizes (sector_sizes secs)).
  { intros s Hs. unfold sector_sizes in Hs. apply in_map_iff in Hs. destruct Hs as [cs [<- Hcs]].
    specialize (Hne cs Hcs). destruct (snd cs); [congruence | cbn [length]; lia]. }
  destruct (no_cutoff_total _ _ _ Hpos Hc) as [Hl [Hneg [Hsum [Hent _]]]].
  assert (Hlen : length (sector_sizes secs) = length secs) by (unfold sector_sizes; apply map_length).
  assert (Hres0 : forall x, In x res -> 0 <= x).
  { intros x Hx. apply (In_nth _ _ 0) in Hx. destruct Hx as [j [Hj <-]]. apply Hent. lia. }
  split; [rewrite map_length; lia|]. split.
  - rewrite total_kept_to_nat by exact Hres0. unfold rank. rewrite <- zsum_sector_sizes.
    destruct (mb <? 0) eqn:E0; [apply Z.ltb_lt in E0; rewrite (Hneg E0); reflexivity | apply Z.ltb_ge in E0; apply Hsum; exact E0].
  - intros j Hj.
    rewrite (nth_map_lt Z.to_nat res j 0%nat 0) by lia.
    assert (Hj' : (j < length (sector_sizes secs))%nat) by lia. specialize (Hent j Hj').
    pose proof (nth_map_lt (fun cs : sector => Z.of_nat (length (snd cs))) secs j 0 (0, []) Hj) as Hm.
    change (nth j (sector_sizes secs) 0 = Z.of_nat (length (snd (nth j secs (0, []))))) in Hm.
    rewrite Hm in Hent. lia.
Qed.

(* ================================================================ witnesses *)
(* hypotheses are satisfiable on a non-trivial instance: two sectors, a whole
   charge truncated away, a tie across sectors *)
Definition ex_secs : list sector := [(0, [3; 1]); (1, [2; 1])].

Example ex_shapes : sectors_desc ex_secs /\ sectors_nonneg ex_secs /\ all_values ex_secs <> [].
Proof.
  split; [|split].
  - intros cs [<-|[<-|[]]]; apply descb_desc; reflexivity.
  - intros cs [<-|[<-|[]]] x; cbn [snd In]; intuition lia.
  - discriminate.
Qed.

(* sum2 cutoff 10 <= total weight 15: discards {1,1,2} (weight 6 < 10), keeps {3};
   charge 1 is removed from the bond.  Cutoff 16 > 15: nothing is kept. *)
Example ex_within : sub_max_bonds thr_cut MSum2 10 1 (-1) ex_secs = Some [1; 0]%nat
                    /\ trunc 3 10 1 (-1) ex_secs = Some [(0, 1%nat)]
                    /\ sub_max_bonds thr_cut MSum2 15 1 (-1) ex_secs = Some [1; 0]%nat
                    /\ sub_max_bonds thr_cut MSum2 16 1 (-1) ex_secs = Some [0; 0]%nat
                    /\ trunc 3 16 1 (-1) ex_secs = Some [].
Proof. repeat split; reflexivity. Qed.

Example ex_bond_tie : sub_max_bonds thr_cut MRel 1 64 3 ex_secs = Some [2; 2]%nat
                      /\ ~ no_tie_at_bond 3 (sort_asc (all_values ex_secs)).
Proof.
  split; [reflexivity|]. intro H. specialize (H 1). vm_compute in H.
  assert (K : 1 < 1) by (apply H; left; reflexivity). lia.
Qed.

Example ex_no_cutoff : calc_sub_max_bonds [5; 3; 3] 7 = Some [3; 2; 2] /\ positive_sizes [5; 3; 3].
Proof. split; [reflexivity|]. intros s [<-|[<-|[<-|[]]]]; lia. Qed.



(* ================================================================ largest within each charge *)
Lemma desc_app_ge l1 l2 : desc (l1 ++ l2) -> forall x y, In x l1 -> In y l2 -> y <= x.
Proof.
  induction l1 as [|a t IH]; intros H x y Hx Hy; [destruct Hx|].
  cbn [app desc] in H. destruct H as [H1 H2]. destruct Hx as [<-|Hx].
  - apply H1. apply in_or_app. right. exact Hy.
  - eapply IH; eassumption.
Qed.

(* slicing `[:n]` of a non-increasing block keeps its n largest values (both branches) *)
Lemma prefix_largest n l : desc l -> forall k d, In k (firstn n l) -> In d (skipn n l) -> d <= k.
Proof. intros H k d Hk Hd. apply (desc_app_ge (firstn n l) (skipn n l)); [rewrite firstn_skipn; exact H | exact Hk | exact Hd]. Qed.

Lemma nth_kept_disc secs counts j : length counts = length secs -> (j < length secs)%nat ->
  nth j (kept_of secs counts) [] = firstn (nth j counts 0%nat) (snd (nth j secs (0, []))) /\
  nth j (disc_of secs counts) [] = skipn (nth j counts 0%nat) (snd (nth j secs (0, []))).
Proof.
  unfold kept_of, disc_of. revert counts j.
  induction secs as [|cs t IH]; intros [|n cn] [|j] Hl Hj; cbn [length] in *; try lia.
  - cbn [combine map nth fst snd]. split; reflexivity.
  - cbn [combine map nth]. apply IH; lia.
Qed.

Theorem largest_within_each_charge secs counts j :
  sectors_desc secs -> length counts = length secs -> (j < length secs)%nat ->
  forall k d, In k (nth j (kept_of secs counts) []) -> In d (nth j (disc_of secs counts) []) -> d <= k.
Proof.
  intros Hd Hl Hj k d. destruct (nth_kept_disc secs counts j Hl Hj) as [-> ->].
  apply prefix_largest. apply Hd. apply nth_In. exact Hj.
Qed.


(* ================================================================ the +inf stand-in *)
(* `abs_cutoff = float("inf")` is represented by a numerator above q*s for every
   value s.  Such a threshold is passed by no value and is left unchanged by the
   bond fold (`max_bond_cutoff > inf` is False) — for ANY such numerator, so the
   particular stand-in q*(max+1) is immaterial. *)
Lemma keep_count_top q a ss : (forall s, In s ss -> q * s < a) -> keep_count q a ss = 0%nat.
Proof. intro H. unfold keep_count. apply count_true_none. intros x Hx. apply Z.leb_gt. apply H. exact Hx. Qed.

Lemma fold_bond_top q mb sall a : (forall s, In s sall -> q * s < a) -> fold_bond q mb sall a = a.
Proof.
  intro H. unfold fold_bond.
  destruct (0 <? mb) eqn:E1; destruct (mb <? Z.of_nat (length sall)) eqn:E2; cbn [andb]; try reflexivity.
  apply Z.ltb_lt in E1. apply Z.ltb_lt in E2.
  destruct (a <? q * py_neg_index sall (Z.to_nat mb)) eqn:E; [|reflexivity].
  apply Z.ltb_lt in E. exfalso.
  assert (Hin : In (py_neg_index sall (Z.to_nat mb)) sall).
  { unfold py_neg_index. destruct (Z.to_nat mb) eqn:En; [lia|]. apply nth_In. lia. }
  apply H in Hin. lia.
Qed.

Lemma inf_standin q mb sall a : (forall s, In s sall -> q * s < a) ->
  fold_bond q mb sall a = a /\ (forall ss, (forall s, In s ss -> In s sall) -> keep_count q a ss = 0%nat).
Proof.
  intro H. split; [exact (fold_bond_top q mb sall a H)|].
  intros ss Hss. apply keep_count_top. intros s Hs. apply H. apply Hss. exact Hs.
Qed.

(* whole pipeline: a cumulative cutoff above the total weight removes every sector,
   whatever the bond limit (as modes 1 and 2 do above the largest value) *)
Theorem above_total_nothing_kept m p q mb secs :
  cumulative m = true -> 0 < q -> 0 < p -> sectors_nonneg secs -> all_values secs <> [] ->
  q * weight m (sort_asc (all_values secs)) < rhs_of m p (sort_asc (all_values secs)) ->
  sub_max_bonds thr_cut m p q mb secs = Some (map (fun _ => 0%nat) secs) /\
  new_chargemap secs (map (fun _ => 0%nat) secs) = [].
Proof.
  intros Hc Hq Hp Hn Hne Hab.
  destruct secs as [|cs0 t]; [exfalso; apply Hne; reflexivity|].
  set (secs := cs0 :: t) in *. set (sall := sort_asc (all_values secs)) in *.
  assert (Htop : forall s, In s sall -> q * s < thr_cut m p q sall).
  { apply above_total_keeps_none; try assumption;
      [apply sort_asc_asc | apply nonneg_sall; exact Hn | apply sall_nonempty; exact Hne]. }
  split.
  - unfold sub_max_bonds. assert (E : (0 <? p) = true) by (apply Z.ltb_lt; exact Hp). rewrite E.
    change (Some (sub_counts_cut thr_cut m p q mb secs) = Some (map (fun _ : sector => 0%nat) secs)).
    f_equal. unfold sub_counts_cut, final_threshold. fold sall. rewrite fold_bond_top by exact Htop.
    apply map_ext_in. intros cs Hcs. apply keep_count_top. intros s Hs. apply Htop.
    apply (Permutation_in _ (Permutation_sym (sort_asc_perm _))). unfold all_values.
    apply in_concat. exists (snd cs). split; [apply in_map; exact Hcs | exact Hs].
  - unfold new_chargemap. clear. induction secs as [|cs t' IH]; [reflexivity|].
    cbn [map combine filter snd Nat.eqb negb]. exact IH.
Qed.
