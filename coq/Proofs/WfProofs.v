(* Proofs/WfProofs.v — property C01: the validity predicate `wf_array`
   (Model/Wf.v; the executable predicate the Python harness evaluates on every
   array the implementation returns) is preserved by the public operations of
   the model, for every symmetry with the group laws, every rank, every index
   table and every coefficient ring.

   Structure
     §0  list / permutation helpers
     §1  Prop-level reading of `wf_array` (`WF`, `SecOK`) and `wf_array_iff`
     §2  transpose / conj / dagger
     §3  arithmetic (scale neg add sub mul multiply_diagonal)
     §4  pruning of index tables (sync_charges, prune_indices)
     §5  blockwise contraction
     §6  expand_dims, squeeze, drop_misaligned
     §7  the fermionic invariant `wf_fermi`
     §7b fusing one group of axes (on top of C05's `stmt_layout`, `stmt_wf2`)
     §8  programs: `run` over a register file, `programs_wf`
     §9  `wf_array` / `wf_fermi` imply `valid_array` / `valid_farray` of
         Model/Valid.v (what the correspondence run evaluates): `programs_valid`
   Not covered (no `op_wf` yet, hence no instruction): fuse of several groups
   at once / with empty groups, unfuse, contraction in fused mode, einsum,
   trace, fermionic fuse / unfuse / tensordot / matmul, decompositions.
   Nothing is bounded; no axioms. *)
From SV Require Import Base.Prelude Base.Sym Base.Tensor Model.Sectors Model.Array Model.Arith
  Model.Fermi Model.Wf Model.Valid Model.SymInst
  Proofs.FuseTensor Proofs.FuseProofs Proofs.SymLaws Proofs.GroupFacts Proofs.SectorsProofs Proofs.OrderProofs Proofs.TensorProofs
  Proofs.StructProofs Proofs.Tdot Proofs.TdotInst.
From Coq Require Import Permutation Sorting Lia.
Local Open Scope nat_scope.

(* ------------------------------------------------------------------ *)
(* §0 helpers *)

Lemma andb3 a b c : a && b && c = true <-> a = true /\ b = true /\ c = true.
Proof. rewrite !andb_true_iff. tauto. Qed.

Lemma filter_partition_perm {A} (f : A -> bool) (l : list A) :
  Permutation (filter (fun x => negb (f x)) l ++ filter f l) l.
Proof.
  induction l as [|x l IH]; cbn [filter]; [constructor|].
  destruct (f x); cbn [negb app].
  - apply Permutation_sym. eapply Permutation_trans; [|apply Permutation_middle].
    apply perm_skip. apply Permutation_sym. exact IH.
  - apply perm_skip. exact IH.
Qed.

Lemma memN_iff x l : mem Nat.eqb x l = true <-> In x l.
Proof.
  induction l as [|y l IH]; cbn [mem In]; [split; [discriminate|tauto]|].
  rewrite orb_true_iff, Nat.eqb_eq, IH. split; intros [H|H]; auto.
Qed.

Lemma rest_axes_perm n axes : NoDup axes -> (forall i, In i axes -> i < n) ->
  Permutation (rest_axes n axes ++ axes) (seq 0 n).
Proof.
  intros Hnd Hlt. unfold rest_axes.
  eapply Permutation_trans; [|apply (filter_partition_perm (fun i => mem Nat.eqb i axes))].
  apply Permutation_app_head. apply NoDup_Permutation.
  - exact Hnd.
  - apply NoDup_filter. apply seq_NoDup.
  - intros i. rewrite filter_In, in_seq, memN_iff. split.
    + intros H. split; [|exact H]. specialize (Hlt i H). lia.
    + intros [_ H]. exact H.
Qed.

Lemma rev_seq_perm n : Permutation (rev_axes n) (seq 0 n).
Proof. unfold rev_axes. apply Permutation_sym. apply Permutation_rev. Qed.

Lemma perm_seq_lt p n : Permutation p (seq 0 n) -> forall i, In i p -> i < n.
Proof. intros Hp i Hi. apply (Permutation_in _ Hp) in Hi. apply in_seq in Hi. lia. Qed.

Lemma perm_seq_sur p n : Permutation p (seq 0 n) -> forall i, i < n -> In i p.
Proof. intros Hp i Hi. apply (Permutation_in _ (Permutation_sym Hp)). apply in_seq. lia. Qed.

Lemma take_perm {A} (d : A) l p : Permutation p (seq 0 (length l)) -> Permutation (take_axes d l p) l.
Proof.
  intros Hp. unfold take_axes.
  eapply Permutation_trans; [apply Permutation_map; exact Hp|].
  rewrite (map_nth_seq l d). apply Permutation_refl.
Qed.

Lemma take_combine {A B} (d1 : A) (d2 : B) l1 l2 p :
  List.combine (take_axes d1 l1 p) (take_axes d2 l2 p) = map (fun i => (nth i l1 d1, nth i l2 d2)) p.
Proof. induction p as [|i p IH]; cbn [take_axes map List.combine]; [reflexivity|]. f_equal. exact IH. Qed.

Lemma take_map {A B} (f : A -> B) d l p : map f (take_axes d l p) = take_axes (f d) (map f l) p.
Proof. apply (permuted_map f d l p). Qed.

Lemma take_seq {A} (d : A) l : take_axes d l (seq 0 (length l)) = l.
Proof. apply map_nth_seq. Qed.

Lemma forallb_ext' {A} (f g : A -> bool) l : (forall x, f x = g x) -> forallb f l = forallb g l.
Proof. intros H. induction l as [|x l IH]; cbn [forallb]; [reflexivity|]. now rewrite H, IH. Qed.

Lemma forallb_map' {A B} (f : B -> bool) (g : A -> B) l : forallb f (map g l) = forallb (fun x => f (g x)) l.
Proof. induction l as [|x l IH]; cbn [map forallb]; [reflexivity|]. now rewrite IH. Qed.

Lemma build_len R sh f : length (tdata (build R sh f)) = shape_size (tshape (build R sh f)).
Proof. unfold build. cbn [tdata tshape]. rewrite map_length. apply length_all_idx. Qed.

Lemma NoDup_map_inj_in {A B} (f : A -> B) (l : list A) :
  (forall x y, In x l -> In y l -> f x = f y -> x = y) -> NoDup l -> NoDup (map f l).
Proof.
  intros Hinj Hnd. induction Hnd as [|x l Hx Hnd IH]; cbn [map]; constructor.
  - intros Hi. apply in_map_iff in Hi. destruct Hi as (y & Hy & Hyl).
    assert (y = x) by (apply Hinj; [right; exact Hyl | left; reflexivity | exact Hy]).
    subst y. contradiction.
  - apply IH. intros a b Ha Hb. apply Hinj; right; assumption.
Qed.

Lemma NoDup_flat_map_sub {A B} (f : A -> B) (c : A -> bool) (l : list A) :
  NoDup (map f l) -> NoDup (flat_map (fun x => if c x then [f x] else []) l).
Proof.
  induction l as [|x l IH]; cbn [map flat_map]; intros Hnd; [constructor|].
  inversion Hnd as [|? ? Hx Hnd']; subst.
  destruct (c x); cbn [app]; [|apply IH; exact Hnd'].
  constructor; [|apply IH; exact Hnd'].
  intros Hi. apply Hx. apply in_flat_map in Hi. destruct Hi as (y & Hy & Hin).
  destruct (c y); [|destruct Hin]. destruct Hin as [<-|[]]. apply in_map. exact Hy.
Qed.

Lemma in_flat_map_sub {A B} (f : A -> B) (c : A -> bool) (l : list A) z :
  In z (flat_map (fun x => if c x then [f x] else []) l) -> exists x, In x l /\ z = f x.
Proof.
  intros Hi. apply in_flat_map in Hi. destruct Hi as (y & Hy & Hin).
  destruct (c y); [|destruct Hin]. destruct Hin as [<-|[]]. exists y. split; [exact Hy|reflexivity].
Qed.

Lemma NoDup_map_filter {A B} (g : A -> B) (f : A -> bool) l : NoDup (map g l) -> NoDup (map g (filter f l)).
Proof.
  induction l as [|x l IH]; cbn [map filter]; intros Hnd; [constructor|].
  inversion Hnd as [|? ? Hx Hnd']; subst. destruct (f x); cbn [map]; [|apply IH; exact Hnd'].
  constructor; [|apply IH; exact Hnd'].
  intros Hi. apply Hx. apply in_map_iff in Hi. destruct Hi as (y & Hy & Hin).
  apply filter_In in Hin. apply in_map_iff. exists y. split; [exact Hy|apply Hin].
Qed.

Lemma NoDup_keys_flat_map {K V W} (h : K * V -> list (K * W)) (l : list (K * V)) :
  (forall p y, In y (h p) -> fst y = fst p) -> (forall p, length (h p) <= 1) ->
  NoDup (map fst l) -> NoDup (map fst (flat_map h l)).
Proof.
  intros Hk Hlen. induction l as [|x l IH]; cbn [map flat_map]; intros Hnd; [constructor|].
  inversion Hnd as [|? ? Hx Hnd']; subst. rewrite map_app.
  pose proof (Hlen x) as Hl. pose proof (Hk x) as Hkx.
  destruct (h x) as [|y [|z r]]; cbn [length] in Hl; [apply IH; exact Hnd'| |lia].
  cbn [map app]. constructor; [|apply IH; exact Hnd'].
  intros Hi. apply Hx. rewrite (Hkx y (or_introl eq_refl)) in Hi.
  apply in_map_iff in Hi. destruct Hi as (w & Hw & Hin). apply in_flat_map in Hin.
  destruct Hin as (p & Hp & Hin). rewrite <- Hw, (Hk p w Hin). apply in_map. exact Hp.
Qed.

Lemma forallb_filter' {A} (f g : A -> bool) l : forallb f l = true -> forallb f (filter g l) = true.
Proof.
  rewrite !forallb_forall. intros H x Hx. apply filter_In in Hx. apply H. apply Hx.
Qed.

Lemma filter_map_fst {A B} (P : A -> bool) (l : list (A * B)) :
  map fst (filter (fun p => P (fst p)) l) = filter P (map fst l).
Proof.
  induction l as [|x l IH]; cbn [map filter]; [reflexivity|].
  destruct (P (fst x)); cbn [map]; now rewrite IH.
Qed.

Lemma perm_filter_length {A} (f : A -> bool) l l' : Permutation l l' -> length (filter f l) = length (filter f l').
Proof.
  intros Hp. induction Hp as [|x l l' Hp IH|x y l|l l' l'' Hp1 IH1 Hp2 IH2]; cbn [filter].
  - reflexivity.
  - destruct (f x); cbn [length]; now rewrite IH.
  - destruct (f x), (f y); reflexivity.
  - now rewrite IH1.
Qed.

Lemma lookup_filter_key {K V} (ke : K -> K -> bool) (P : K -> bool) k (d : list (K * V)) :
  (forall k', ke k k' = true -> k = k') -> P k = true ->
  lookup ke k (filter (fun p => P (fst p)) d) = lookup ke k d.
Proof.
  intros Hke HP. induction d as [|[k' v] d IH]; cbn [filter lookup fst]; [reflexivity|].
  destruct (P k') eqn:E; cbn [lookup]; [now rewrite IH|].
  destruct (ke k k') eqn:E2; [|exact IH].
  apply Hke in E2. subst k'. congruence.
Qed.

(* ------------------------------------------------------------------ *)
(* §1 Prop-level reading of the validity predicate *)

Section WfBasics.
  Context (G : Symmetry) (HG : GroupLaws G) (R : Ring).
  Notation keq := (list_eqb (ceqb G)).
  Notation arr := (aarray G R).
  Notation sector := (list (C G)).
  Notation e := (ident G).
  Notation dix := (dflt_index G).
  Notation V c := (valid G c = true).
  Notation VA l := (valid_all G l = true).

  Definition IxsOK (ixs : list (index G)) : Prop := Forall (fun ix => wf_index G ix = true) ixs.

  (* the signed charge at position i *)
  Definition sgn (flip : bool) (s : sector) (ds : list bool) (i : nat) : C G :=
    sign G (nth i s e) (xorb flip (nth i ds false)).

  Definition SecOK (ixs : list (index G)) (q : C G) (s : sector) : Prop :=
    length s = length ixs /\
    (forall i, i < length ixs -> In (nth i s e) (icharges G (nth i ixs dix))) /\
    combine G (signed_sector G false s (map (idual G) ixs)) = q.

  Definition BlkOK (ixs : list (index G)) (q : C G) (s : sector) (t : tensor R) : Prop :=
    SecOK ixs q s /\ tshape t = block_shape G ixs s /\ length (tdata t) = shape_size (tshape t).

  Record WF (ixs : list (index G)) (q : C G) (bl : list (sector * tensor R)) : Prop := {
    wf_ix : IxsOK ixs;
    wf_q : V q;
    wf_nd : NoDup (map fst bl);
    wf_bl : forall s t, In (s, t) bl -> BlkOK ixs q s t }.

  Lemma keqE (a b : sector) : keq a b = true <-> a = b.
  Proof. apply (keq_eq G HG). Qed.

  Lemma sector_ok_iff ixs q s : sector_ok G ixs q s = true <-> SecOK ixs q s.
  Proof.
    unfold sector_ok, SecOK. rewrite andb3, Nat.eqb_eq. unfold is_valid_sector.
    rewrite (ceqb_eq G HG).
    split; intros (H1 & H2 & H3); (split; [exact H1|]); (split; [|exact H3]).
    - intros i Hi.
      apply (proj1 (StructProofs.forallb_combine_nth (fun p => mem (ceqb G) (snd p) (icharges G (fst p))) dix e ixs s (eq_sym H1))) with (i := i) in H2; [|exact Hi].
      cbn [fst snd] in H2. apply (mem_ceqb_In G HG). exact H2.
    - apply (StructProofs.forallb_combine_nth (fun p => mem (ceqb G) (snd p) (icharges G (fst p))) dix e ixs s (eq_sym H1)).
      intros i Hi. cbn [fst snd]. apply (mem_ceqb_In G HG). apply H2. exact Hi.
  Qed.

  Lemma wf_array_iff (x : arr) :
    wf_array G R x = true <-> WF (indices G R x) (charge G R x) (blocks G R x).
  Proof.
    unfold wf_array. rewrite !andb_true_iff. split.
    - intros [[[H1 H2] H3] H4]. constructor.
      + apply Forall_forall. apply forallb_forall. exact H1.
      + exact H2.
      + apply (OrderProofs.nodupb_NoDup keq keqE). exact H3.
      + intros s t Hin. rewrite forallb_forall in H4. specialize (H4 _ Hin). cbn [fst snd] in H4.
        apply andb3 in H4. destruct H4 as (Ha & Hb & Hc).
        split; [apply sector_ok_iff; exact Ha|]. split.
        * apply (list_eqb_eq Nat.eqb nat_eqb_iff). exact Hb.
        * apply Nat.eqb_eq. exact Hc.
    - intros [H1 H2 H3 H4]. repeat split.
      + apply forallb_forall. apply Forall_forall. exact H1.
      + exact H2.
      + apply (OrderProofs.nodupb_NoDup keq keqE). exact H3.
      + apply forallb_forall. intros [s t] Hin. cbn [fst snd]. destruct (H4 s t Hin) as (Ha & Hb & Hc).
        apply andb3. split; [apply sector_ok_iff; exact Ha|]. split.
        * apply (list_eqb_eq Nat.eqb nat_eqb_iff). exact Hb.
        * apply Nat.eqb_eq. exact Hc.
  Qed.

  Lemma wf_mk ixs q bl : WF ixs q bl -> wf_array G R (mkA G R ixs q bl) = true.
  Proof. intros H. apply wf_array_iff. exact H. Qed.

  (* every charge listed in a valid table is a valid charge *)
  Lemma wf_index_charges_valid ix c : wf_index G ix = true -> In c (icharges G ix) -> V c.
  Proof.
    intros Hw Hc. destruct ix as [cm d sub]. cbn [wf_index] in Hw. apply andb_true_iff in Hw.
    destruct Hw as [Hcm _]. unfold cm_ok in Hcm. apply andb_true_iff in Hcm. destruct Hcm as [_ Hcm].
    unfold icharges in Hc. cbn [chargemap] in Hc. apply in_map_iff in Hc. destruct Hc as (p & <- & Hp).
    rewrite forallb_forall in Hcm. specialize (Hcm _ Hp). apply andb_true_iff in Hcm. apply Hcm.
  Qed.

  Lemma wf_index_sizes_pos ix p : wf_index G ix = true -> In p (chargemap G ix) -> 0 < snd p.
  Proof.
    intros Hw Hp. destruct ix as [cm d sub]. cbn [wf_index] in Hw. apply andb_true_iff in Hw.
    destruct Hw as [Hcm _]. unfold cm_ok in Hcm. apply andb_true_iff in Hcm. destruct Hcm as [_ Hcm].
    cbn [chargemap] in Hp.
    rewrite forallb_forall in Hcm. specialize (Hcm _ Hp). apply andb_true_iff in Hcm.
    apply Nat.ltb_lt. apply Hcm.
  Qed.

  Lemma SecOK_valid ixs q s : IxsOK ixs -> SecOK ixs q s -> VA s.
  Proof.
    intros Hix (Hl & Hm & _). apply (valid_all_In G HG). intros c Hc.
    destruct (In_nth s c e Hc) as (i & Hi & <-).
    rewrite Hl in Hi. apply (wf_index_charges_valid (nth i ixs dix)).
    - unfold IxsOK in Hix. rewrite Forall_forall in Hix. apply Hix. apply nth_In. exact Hi.
    - apply Hm. exact Hi.
  Qed.

  (* ---- signed sectors through positions ---- *)
  Lemma signed_take flip (s : sector) (ds : list bool) p :
    signed_sector G flip (take_axes e s p) (take_axes false ds p) = map (sgn flip s ds) p.
  Proof.
    unfold signed_sector. rewrite take_combine, map_map. reflexivity.
  Qed.

  Lemma signed_seq flip (s : sector) (ds : list bool) : length s = length ds ->
    signed_sector G flip s ds = map (sgn flip s ds) (seq 0 (length s)).
  Proof.
    intros Hl. rewrite <- signed_take. rewrite take_seq. rewrite Hl, take_seq. reflexivity.
  Qed.

  Lemma sgn_valid flip s ds i : VA s -> V (sgn flip s ds i).
  Proof.
    intros Hs. unfold sgn. apply (sign_valid G HG).
    destruct (Nat.lt_ge_cases i (length s)) as [Hi|Hi].
    - apply (proj1 (valid_all_In G HG s) Hs). apply nth_In. exact Hi.
    - rewrite nth_overflow by exact Hi. apply (valid_ident G HG).
  Qed.

  Lemma map_sgn_valid flip s ds p : VA s -> VA (map (sgn flip s ds) p).
  Proof.
    intros Hs. apply (valid_all_In G HG). intros c Hc. apply in_map_iff in Hc.
    destruct Hc as (i & <- & _). apply sgn_valid. exact Hs.
  Qed.

  (* the combination of the signed charges of a sector, read through any
     enumeration of its positions *)
  Lemma combine_signed_perm flip s ds p : length s = length ds -> Permutation p (seq 0 (length s)) ->
    combine G (signed_sector G flip s ds) = combine G (map (sgn flip s ds) p).
  Proof.
    intros Hl Hp. rewrite (signed_seq flip s ds Hl). apply (combine_perm G HG).
    apply Permutation_map. apply Permutation_sym. exact Hp.
  Qed.

  Lemma block_shape_take ixs (s : sector) p :
    block_shape G (take_axes dix ixs p) (take_axes e s p) = map (fun i => size_of G (nth i ixs dix) (nth i s e)) p.
  Proof. unfold block_shape. rewrite take_combine, map_map. reflexivity. Qed.

  Lemma block_shape_seq ixs (s : sector) : length s = length ixs ->
    block_shape G ixs s = map (fun i => size_of G (nth i ixs dix) (nth i s e)) (seq 0 (length ixs)).
  Proof.
    intros Hl. rewrite <- block_shape_take. rewrite take_seq, <- Hl, take_seq. reflexivity.
  Qed.

  (* ---------------------------------------------------------------- *)
  (* §2 transpose / conj / dagger *)

  Lemma SecOK_take ixs q s p : IxsOK ixs -> Permutation p (seq 0 (length ixs)) ->
    SecOK ixs q s -> SecOK (take_axes dix ixs p) q (take_axes e s p).
  Proof.
    intros Hix Hp Hs. pose proof (SecOK_valid _ _ _ Hix Hs) as Hv.
    destruct Hs as (Hl & Hm & Hc).
    unfold SecOK. rewrite !length_take_axes. split; [reflexivity|]. split.
    - intros i Hi. unfold take_axes. rewrite (map_nth_lt _ _ 0) by exact Hi.
      rewrite (map_nth_lt _ _ 0) by exact Hi. apply Hm.
      apply (perm_seq_lt _ _ Hp). apply nth_In. exact Hi.
    - rewrite take_map. cbn [idual dflt_index]. rewrite signed_take.
      rewrite <- Hc. symmetry. apply combine_signed_perm.
      + rewrite map_length. exact Hl.
      + rewrite Hl. exact Hp.
  Qed.

  Lemma take_inj_sectors (s s' : sector) n p : Permutation p (seq 0 n) ->
    length s = n -> length s' = n -> take_axes e s p = take_axes e s' p -> s = s'.
  Proof.
    intros Hp Hs Hs' He. apply (permuted_inj e n p s s'); try assumption.
    apply (perm_seq_sur _ _ Hp).
  Qed.

  Lemma WF_transpose ixs q bl p : Permutation p (seq 0 (length ixs)) -> WF ixs q bl ->
    WF (permuted dix ixs p) q (map (fun sb => (permuted e (fst sb) p, ttranspose R (snd sb) p)) bl).
  Proof.
    intros Hp [H1 H2 H3 H4]. constructor.
    - unfold IxsOK, permuted. apply Forall_forall. intros ix Hin. apply in_map_iff in Hin.
      destruct Hin as (i & <- & Hi). unfold IxsOK in H1. rewrite Forall_forall in H1. apply H1.
      apply nth_In. apply (perm_seq_lt _ _ Hp). exact Hi.
    - exact H2.
    - rewrite map_map. cbn [fst].
      rewrite <- (map_map fst (fun s => permuted e s p)).
      apply NoDup_map_inj_in; [|exact H3].
      intros s s' Hs Hs' He. apply in_map_iff in Hs. apply in_map_iff in Hs'.
      destruct Hs as ([s0 t] & <- & Hs). destruct Hs' as ([s0' t'] & <- & Hs'). cbn [fst] in *.
      destruct (H4 _ _ Hs) as ((Hl & _) & _). destruct (H4 _ _ Hs') as ((Hl' & _) & _).
      apply (take_inj_sectors _ _ (length ixs) p Hp Hl Hl' He).
    - intros s t Hin. apply in_map_iff in Hin. destruct Hin as ([s0 t0] & Heq & Hin).
      cbn [fst snd] in Heq. inversion Heq; subst s t. clear Heq.
      destruct (H4 _ _ Hin) as (Hs & Hsh & Hlen). split; [|split].
      + apply (SecOK_take ixs q s0 p H1 Hp Hs).
      + unfold ttranspose. cbn [tshape build]. rewrite Hsh.
        change (permuted dix ixs p) with (take_axes dix ixs p).
        change (permuted e s0 p) with (take_axes e s0 p).
        rewrite block_shape_take. unfold permuted. apply map_ext_in. intros i Hi.
        destruct Hs as (Hl & _).
        rewrite (block_shape_seq ixs s0 Hl).
        pose proof (perm_seq_lt _ _ Hp i Hi) as Hlt.
        rewrite (map_nth_lt _ _ 0) by (rewrite seq_length; exact Hlt).
        rewrite seq_nth by exact Hlt. reflexivity.
      + apply build_len.
  Qed.

  Theorem transpose_wf (x : arr) (axes : list nat) :
    wf_array G R x = true -> Permutation axes (seq 0 (ndim G R x)) ->
    wf_array G R (a_transpose G R x axes) = true.
  Proof.
    intros Hw Hp. apply wf_array_iff in Hw. unfold a_transpose. apply wf_mk.
    apply WF_transpose; assumption.
  Qed.

  (* ---- conj ---- *)
  Lemma combine_map_iconj (subs : list (index G)) (ss : sector) :
    List.combine (map (iconj G) subs) ss = map (fun q => (iconj G (fst q), snd q)) (List.combine subs ss).
  Proof.
    revert ss. induction subs as [|x subs IH]; intros [|c ss]; cbn [map List.combine]; try reflexivity.
    f_equal. apply IH.
  Qed.

  Lemma eqb_negb2 a b : Bool.eqb (negb a) (negb b) = Bool.eqb a b.
  Proof. destruct a, b; reflexivity. Qed.

  Lemma extent_ok_iconj f d subs c sz ex :
    extent_ok G f (negb d) (map (iconj G) subs) c sz ex = extent_ok G f d subs c sz ex.
  Proof.
    unfold extent_ok. f_equal. apply forallb_ext'. intros [ss n]. cbn [fst snd].
    rewrite map_length, combine_map_iconj. rewrite forallb_map', !map_map.
    f_equal; [f_equal; [f_equal|]|].
    - apply forallb_ext'. intros [ix c0]. cbn [fst snd]. unfold icharges. now rewrite iconj_chargemap.
    - f_equal. f_equal. apply map_ext. intros [ix c0]. cbn [fst snd]. apply (size_of_iconj G).
    - f_equal. f_equal. apply map_ext. intros [ix c0]. cbn [fst snd].
      rewrite (iconj_dual G), eqb_negb2. reflexivity.
  Qed.

  Lemma wf_index_unfold cm d subs ext :
    wf_index G (Index G cm d (Some (subs, ext))) =
    cm_ok G cm &&
    (negb (is_nil subs) &&
     Bool.eqb d (match subs with s0 :: _ => idual G s0 | [] => d end) &&
     forallb (wf_index G) subs &&
     nodupb (ceqb G) (map fst ext) &&
     Nat.eqb (length ext) (length cm) &&
     forallb (fun p => match lookup (ceqb G) (fst p) ext with
                       | Some ex => extent_ok G (fun _ => true) d subs (fst p) (snd p) ex
                       | None => false end) cm).
  Proof. reflexivity. Qed.

  Lemma wf_index_iconj : forall ix, wf_index G ix = true -> wf_index G (iconj G ix) = true.
  Proof.
    fix IH 1. intros [cm d [[subs ext]|]]; [|intros H; exact H].
    cbn [iconj]. rewrite !wf_index_unfold.
    rewrite !andb_true_iff. intros (Hcm & ((((Hn & Hd) & Hall) & Hnd) & Hlen) & Hext).
    split; [exact Hcm|]. repeat split.
    - destruct subs; [discriminate Hn|reflexivity].
    - destruct subs as [|s0 subs']; [discriminate Hn|]. cbn [map]. rewrite (iconj_dual G), eqb_negb2. exact Hd.
    - clear Hn Hd Hext. induction subs as [|s subs' IHs]; cbn [map forallb]; [reflexivity|].
      cbn [forallb] in Hall. apply andb_true_iff in Hall. destruct Hall as [Hs Hall].
      apply andb_true_iff. split; [apply IH; exact Hs | apply IHs; exact Hall].
    - exact Hnd.
    - exact Hlen.
    - rewrite forallb_forall in Hext. apply forallb_forall. intros p Hp. specialize (Hext p Hp).
      destruct (lookup (ceqb G) (fst p) ext) as [ex|]; [|discriminate Hext].
      rewrite extent_ok_iconj. exact Hext.
  Qed.

  Lemma signed_negb (s : sector) ds : signed_sector G false s (map negb ds) = signed_sector G true s ds.
  Proof.
    revert ds. induction s as [|c s IH]; intros [|d ds]; try reflexivity.
    cbn [map]. rewrite !(signed_sector_cons G). f_equal; [|apply IH]. now destruct d.
  Qed.

  Lemma SecOK_conj ixs q s : IxsOK ixs -> SecOK ixs q s -> SecOK (map (iconj G) ixs) (sign G q true) s.
  Proof.
    intros Hix Hs. pose proof (SecOK_valid _ _ _ Hix Hs) as Hv. destruct Hs as (Hl & Hm & Hc).
    unfold SecOK. rewrite map_length. split; [exact Hl|]. split.
    - intros i Hi. rewrite (map_nth_lt _ _ dix) by exact Hi. unfold icharges.
      rewrite (iconj_chargemap G). apply Hm. exact Hi.
    - rewrite map_map.
      rewrite (map_ext _ (fun ix => negb (idual G ix))) by (intros ix; apply (iconj_dual G)).
      rewrite <- (map_map (idual G) negb). rewrite signed_negb.
      rewrite (combine_signed_sector_flip G HG) by exact Hv. rewrite Hc. reflexivity.
  Qed.

  Lemma IxsOK_conj ixs : IxsOK ixs -> IxsOK (map (iconj G) ixs).
  Proof.
    unfold IxsOK. intros H. apply Forall_forall. intros ix Hin. apply in_map_iff in Hin.
    destruct Hin as (ix0 & <- & Hin). apply wf_index_iconj. rewrite Forall_forall in H. apply H. exact Hin.
  Qed.

  Lemma WF_conj ixs q bl : WF ixs q bl ->
    WF (map (iconj G) ixs) (sign G q true) (map (fun sb => (fst sb, tconj R (snd sb))) bl).
  Proof.
    intros [H1 H2 H3 H4]. constructor.
    - apply IxsOK_conj. exact H1.
    - apply (sign_valid G HG). exact H2.
    - rewrite map_map. cbn [fst]. exact H3.
    - intros s t Hin. apply in_map_iff in Hin. destruct Hin as ([s0 t0] & Heq & Hin).
      cbn [fst snd] in Heq. inversion Heq; subst s t. clear Heq.
      destruct (H4 _ _ Hin) as (Hs & Hsh & Hlen). split; [|split].
      + apply SecOK_conj; assumption.
      + unfold tconj, tmap. cbn [tshape]. rewrite (block_shape_iconj G). exact Hsh.
      + unfold tconj, tmap. cbn [tshape tdata]. rewrite map_length. exact Hlen.
  Qed.

  Theorem conj_wf (x : arr) : wf_array G R x = true -> wf_array G R (a_conj G R x) = true.
  Proof. intros Hw. apply wf_array_iff in Hw. unfold a_conj. apply wf_mk. apply WF_conj. exact Hw. Qed.

  Theorem dagger_wf (x : arr) : wf_array G R x = true -> wf_array G R (a_dagger G R x) = true.
  Proof.
    intros Hw. unfold a_dagger. apply transpose_wf; [apply conj_wf; exact Hw|].
    unfold ndim, a_conj. cbn [indices]. rewrite map_length. apply rev_seq_perm.
  Qed.

  (* ---------------------------------------------------------------- *)
  (* §3 arithmetic *)

  Lemma WF_blocks ixs q bl bl' : WF ixs q bl -> NoDup (map fst bl') ->
    (forall s t, In (s, t) bl' -> BlkOK ixs q s t) -> WF ixs q bl'.
  Proof. intros [H1 H2 _ _] Hnd Hb. constructor; assumption. Qed.

  Lemma BlkOK_build ixs q s t f : BlkOK ixs q s t -> BlkOK ixs q s (build R (tshape t) f).
  Proof.
    intros (Hs & Hsh & _). split; [exact Hs|]. split; [exact Hsh|apply build_len].
  Qed.

  Lemma BlkOK_tmap ixs q s t f : BlkOK ixs q s t -> BlkOK ixs q s (tmap R f t).
  Proof.
    intros (Hs & Hsh & Hl). split; [exact Hs|]. split; [exact Hsh|].
    unfold tmap. cbn [tshape tdata]. rewrite map_length. exact Hl.
  Qed.

  Lemma WF_tmap ixs q bl f : WF ixs q bl -> WF ixs q (map (fun p => (fst p, tmap R f (snd p))) bl).
  Proof.
    intros Hw. apply (WF_blocks ixs q bl _ Hw).
    - rewrite map_map. cbn [fst]. apply (wf_nd _ _ _ Hw).
    - intros s t Hin. apply in_map_iff in Hin. destruct Hin as ([s0 t0] & Heq & Hin).
      cbn [fst snd] in Heq. inversion Heq; subst s t. apply BlkOK_tmap. apply (wf_bl _ _ _ Hw). exact Hin.
  Qed.

  Theorem scale_wf (x : arr) (c : RT R) : wf_array G R x = true -> wf_array G R (a_scale G R x c) = true.
  Proof.
    intros Hw. apply wf_array_iff in Hw. unfold a_scale, with_blocks, dict_map, tscale. apply wf_mk.
    apply WF_tmap. exact Hw.
  Qed.

  Theorem neg_wf (x : arr) : wf_array G R x = true -> wf_array G R (a_neg G R x) = true.
  Proof.
    intros Hw. apply wf_array_iff in Hw. unfold a_neg, with_blocks, dict_map, tneg. apply wf_mk.
    apply WF_tmap. exact Hw.
  Qed.

  Lemma lookupE {V} k (v : V) d : lookup keq k d = Some v -> In (k, v) d.
  Proof. apply (OrderProofs.lookup_In keq keqE). Qed.

  (* the left operand's keys with combined values *)
  Lemma WF_bin_left ixs q bx (bo : list (sector * tensor R)) (f : tensor R -> tensor R -> tensor R) :
    (forall a b, tshape (f a b) = tshape a /\ length (tdata (f a b)) = shape_size (tshape a)) ->
    WF ixs q bx ->
    WF ixs q (map (fun p => match lookup keq (fst p) bo with Some t => (fst p, f (snd p) t) | None => p end) bx).
  Proof.
    intros Hf Hw. apply (WF_blocks ixs q bx _ Hw).
    - rewrite map_map. rewrite (map_ext _ fst); [apply (wf_nd _ _ _ Hw)|].
      intros p. destruct (lookup keq (fst p) bo); reflexivity.
    - intros s t Hin. apply in_map_iff in Hin. destruct Hin as ([s0 t0] & Heq & Hin).
      cbn [fst snd] in Heq. pose proof (wf_bl _ _ _ Hw _ _ Hin) as Hb.
      destruct (lookup keq s0 bo) as [t1|]; inversion Heq; subst s t; [|exact Hb].
      destruct Hb as (Hs & Hsh & Hl). destruct (Hf t0 t1) as [Hf1 Hf2].
      split; [exact Hs|]. split; [now rewrite Hf1|]. now rewrite Hf1.
  Qed.

  Lemma tadd_shape a b : tshape (tadd R a b) = tshape a /\ length (tdata (tadd R a b)) = shape_size (tshape a).
  Proof. split; [reflexivity|]. apply (build_len R). Qed.
  Lemma tsub_shape a b : tshape (tsub R a b) = tshape a /\ length (tdata (tsub R a b)) = shape_size (tshape a).
  Proof. apply tadd_shape. Qed.
  Lemma tmul_shape a b : tshape (tmul R a b) = tshape a /\ length (tdata (tmul R a b)) = shape_size (tshape a).
  Proof. split; [reflexivity|]. apply (build_len R). Qed.

  Theorem add_wf (x y : arr) :
    wf_array G R x = true -> wf_array G R y = true ->
    indices G R x = indices G R y -> charge G R x = charge G R y ->
    wf_array G R (a_add G R x y) = true.
  Proof.
    intros Hx Hy Hi Hq. apply wf_array_iff in Hx. apply wf_array_iff in Hy. rewrite <- Hi, <- Hq in Hy.
    unfold a_add, with_blocks, bin_outer. apply wf_mk.
    pose proof (WF_bin_left _ _ _ (blocks G R y) (tadd R) tadd_shape Hx) as Hl.
    apply (WF_blocks _ _ _ _ Hx).
    - rewrite map_app. apply NoDup_app'.
      + apply (wf_nd _ _ _ Hl).
      + apply NoDup_map_filter. apply (wf_nd _ _ _ Hy).
      + intros s Hs1 Hs2. apply in_map_iff in Hs2. destruct Hs2 as ([s0 t0] & Heq & Hin).
        cbn [fst] in Heq. subst s0. apply filter_In in Hin. destruct Hin as [_ Hd]. cbn [fst] in Hd.
        apply negb_true_iff in Hd. apply (dhas_false keq) in Hd.
        apply (StructProofs.lookup_None keq keqE) in Hd. apply Hd. unfold keys.
        rewrite map_map in Hs1. rewrite (map_ext _ fst) in Hs1; [exact Hs1|].
        intros p. destruct (lookup keq (fst p) (blocks G R y)); reflexivity.
    - intros s t Hin. apply in_app_iff in Hin. destruct Hin as [Hin|Hin].
      + apply (wf_bl _ _ _ Hl). exact Hin.
      + apply filter_In in Hin. apply (wf_bl _ _ _ Hy). apply Hin.
  Qed.

  Theorem sub_wf (x y z : arr) :
    wf_array G R x = true -> a_sub G R x y = Some z -> wf_array G R z = true.
  Proof.
    intros Hx Hz. apply wf_array_iff in Hx. unfold a_sub, bin_strict in Hz.
    destruct (forallb _ _ && forallb _ _); [|discriminate Hz].
    inversion Hz; subst z. clear Hz. unfold with_blocks. apply wf_mk.
    apply (WF_bin_left _ _ _ (blocks G R y) (tsub R) tsub_shape Hx).
  Qed.

  Lemma WF_sub_blocks ixs q bl (h : sector * tensor R -> list (sector * tensor R)) :
    (forall p y, In y (h p) -> fst y = fst p /\ tshape (snd y) = tshape (snd p) /\ length (tdata (snd y)) = shape_size (tshape (snd y))) ->
    (forall p, length (h p) <= 1) ->
    WF ixs q bl -> WF ixs q (flat_map h bl).
  Proof.
    intros Hh Hlen Hw. apply (WF_blocks ixs q bl _ Hw).
    - apply NoDup_keys_flat_map; [intros p y Hy; apply (Hh p y Hy) | exact Hlen | apply (wf_nd _ _ _ Hw)].
    - intros s t Hin. apply in_flat_map in Hin. destruct Hin as ([s0 t0] & Hp & Hin).
      destruct (Hh _ _ Hin) as (H1 & H2 & H3). cbn [fst snd] in *. subst s0.
      destruct (wf_bl _ _ _ Hw _ _ Hp) as (Hs & Hsh & _).
      split; [exact Hs|]. split; [now rewrite H2|exact H3].
  Qed.

  Theorem mul_wf (x y : arr) : wf_array G R x = true -> wf_array G R (a_mul G R x y) = true.
  Proof.
    intros Hx. apply wf_array_iff in Hx. unfold a_mul, with_blocks, bin_inner. apply wf_mk.
    apply WF_sub_blocks; [| |exact Hx].
    - intros p z Hz. destruct (lookup keq (fst p) (blocks G R y)) as [t|]; [|destruct Hz].
      destruct Hz as [<-|[]]. cbn [fst snd]. split; [reflexivity|]. split; [reflexivity|]. apply (build_len R).
    - intros p. destruct (lookup keq (fst p) (blocks G R y)); cbn [length]; lia.
  Qed.

  Theorem multiply_diagonal_wf (x : arr) (v : bvec G R) (axis : nat) :
    wf_array G R x = true -> wf_array G R (a_multiply_diagonal G R x v axis) = true.
  Proof.
    intros Hx. apply wf_array_iff in Hx. unfold a_multiply_diagonal, with_blocks. apply wf_mk.
    apply WF_sub_blocks; [| |exact Hx].
    - intros p z Hz. destruct (lookup (ceqb G) (nth axis (fst p) e) v) as [t|]; [|destruct Hz].
      destruct Hz as [<-|[]]. cbn [fst snd]. split; [reflexivity|]. split; [reflexivity|]. apply (build_len R).
    - intros p. destruct (lookup (ceqb G) (nth axis (fst p) e) v); cbn [length]; lia.
  Qed.

  (* ---------------------------------------------------------------- *)
  (* §4 dropping unused charges from the tables *)

  Lemma cm_ok_filter (HO : OrderLaws G) (P : C G * nat -> bool) cm : cm_ok G cm = true -> cm_ok G (filter P cm) = true.
  Proof.
    unfold cm_ok. rewrite !andb_true_iff. intros [Hs Hf]. split.
    - apply sorted_by_of_SS. apply SS_map_filter. apply (SS_of_sorted_by _ _ HO). exact Hs.
    - apply forallb_filter'. exact Hf.
  Qed.

  Lemma cm_keys_NoDup (HO : OrderLaws G) cm : cm_ok G cm = true -> NoDup (map fst cm).
  Proof.
    unfold cm_ok. rewrite andb_true_iff. intros [Hs _]. apply (SS_NoDup (cltb G) _ HO).
    apply (SS_of_sorted_by _ _ HO). exact Hs.
  Qed.

  Lemma wf_index_drop (HO : OrderLaws G) ix cs : wf_index G ix = true -> wf_index G (drop_charges G ix cs) = true.
  Proof.
    destruct ix as [cm d [[subs ext]|]]; cbn [drop_charges].
    2:{ cbn [wf_index]. rewrite !andb_true_r. apply (cm_ok_filter HO). }
    rewrite !wf_index_unfold. rewrite !andb_true_iff.
    intros (Hcm & ((((Hn & Hd) & Hall) & Hnd) & Hlen) & Hext).
    set (P := fun c : C G => negb (mem (ceqb G) c cs)).
    split; [apply (cm_ok_filter HO); exact Hcm|]. repeat split; try assumption.
    - apply (OrderProofs.nodupb_NoDup (ceqb G) (ceqb_eq G HG)). apply NoDup_map_filter.
      apply (OrderProofs.nodupb_NoDup (ceqb G) (ceqb_eq G HG)). exact Hnd.
    - apply Nat.eqb_eq. apply Nat.eqb_eq in Hlen.
      assert (Hperm : Permutation (map fst cm) (map fst ext)).
      { apply NoDup_Permutation_bis.
        - apply (cm_keys_NoDup HO). exact Hcm.
        - rewrite !map_length. lia.
        - intros c Hc. apply in_map_iff in Hc. destruct Hc as (p & <- & Hp).
          rewrite forallb_forall in Hext. specialize (Hext p Hp).
          destruct (lookup (ceqb G) (fst p) ext) as [ex|] eqn:E; [|discriminate Hext].
          apply (OrderProofs.lookup_In (ceqb G) (ceqb_eq G HG)) in E.
          apply in_map_iff. exists (fst p, ex). split; [reflexivity|exact E]. }
      change (length (filter (fun p => P (fst p)) ext) = length (filter (fun p => P (fst p)) cm)).
      rewrite <- (map_length fst (filter _ ext)), <- (map_length fst (filter _ cm)).
      rewrite (filter_map_fst P ext), (filter_map_fst P cm).
      symmetry. apply perm_filter_length. exact Hperm.
    - apply forallb_forall. intros p Hp. apply filter_In in Hp. destruct Hp as [Hp HP].
      rewrite forallb_forall in Hext. specialize (Hext p Hp).
      change (filter (fun p0 : C G * list (sector * nat) => negb (mem (ceqb G) (fst p0) cs)) ext)
        with (filter (fun p0 : C G * list (sector * nat) => P (fst p0)) ext).
      rewrite (lookup_filter_key (ceqb G) P (fst p) ext); [exact Hext | | exact HP].
      intros k' Hk. apply (ceqb_eq G HG). exact Hk.
  Qed.

  Lemma size_of_drop ix cs c : ~ In c cs -> size_of G (drop_charges G ix cs) c = size_of G ix c.
  Proof.
    intros Hc. unfold size_of. rewrite chargemap_drop.
    rewrite (lookup_filter_key (ceqb G) (fun k => negb (mem (ceqb G) k cs)) c); [reflexivity| |].
    - intros k' Hk. apply (ceqb_eq G HG). exact Hk.
    - apply negb_true_iff. apply (mem_ceqb_false G HG). exact Hc.
  Qed.

  Lemma icharges_drop_In ix cs c : In c (icharges G ix) -> ~ In c cs -> In c (icharges G (drop_charges G ix cs)).
  Proof.
    intros Hi Hc. unfold icharges in *. rewrite chargemap_drop.
    rewrite (filter_map_fst (fun k => negb (mem (ceqb G) k cs))). apply filter_In. split; [exact Hi|].
    apply negb_true_iff. apply (mem_ceqb_false G HG). exact Hc.
  Qed.

  Lemma duals_prune ixs secs : map (idual G) (prune_indices G ixs secs) = map (idual G) ixs.
  Proof.
    unfold prune_indices, enumerate. rewrite map_map.
    rewrite (map_ext _ (fun p => idual G (snd p))) by (intros p; apply idual_drop).
    rewrite <- (map_map snd (idual G)). rewrite map_snd_combine; [reflexivity|apply seq_length].
  Qed.

  (* the charge at position i of a listed sector is never dropped *)
  Lemma not_dropped ixs secs (s : sector) i : In s secs ->
    ~ In (nth i s e) (filter (fun c => negb (mem (ceqb G) c (map (fun s0 => nth i s0 e) secs)))
                             (icharges G (nth i ixs dix))).
  Proof.
    intros Hs Hin. apply filter_In in Hin. destruct Hin as [_ Hn]. apply negb_true_iff in Hn.
    apply (mem_ceqb_false G HG) in Hn. apply Hn. apply (in_map (fun s0 => nth i s0 e)). exact Hs.
  Qed.

  Lemma WF_prune (HO : OrderLaws G) ixs q bl : WF ixs q bl -> WF (prune_indices G ixs (map fst bl)) q bl.
  Proof.
    intros [H1 H2 H3 H4]. constructor; [|exact H2|exact H3|].
    - unfold IxsOK. apply Forall_forall. intros ix Hin.
      destruct (In_nth _ _ dix Hin) as (i & Hi & <-). rewrite length_prune_indices in Hi.
      rewrite nth_prune_indices by exact Hi. cbv zeta. apply (wf_index_drop HO).
      unfold IxsOK in H1. rewrite Forall_forall in H1. apply H1. apply nth_In. exact Hi.
    - intros s t Hin. destruct (H4 s t Hin) as ((Hl & Hm & Hc) & Hsh & Hlen).
      assert (Hs : In s (map fst bl)) by (apply in_map_iff; exists (s, t); split; [reflexivity|exact Hin]).
      split; [|split; [|exact Hlen]].
      + unfold SecOK. rewrite length_prune_indices, duals_prune. split; [exact Hl|]. split; [|exact Hc].
        intros i Hi. rewrite nth_prune_indices by exact Hi. cbv zeta.
        apply icharges_drop_In; [apply Hm; exact Hi|]. apply not_dropped. exact Hs.
      + rewrite Hsh. rewrite (block_shape_seq ixs s Hl).
        rewrite (block_shape_seq (prune_indices G ixs (map fst bl)) s) by (rewrite length_prune_indices; exact Hl).
        rewrite length_prune_indices. apply map_ext_in. intros i Hi. apply in_seq in Hi.
        rewrite nth_prune_indices by lia. cbv zeta. symmetry. apply size_of_drop. apply not_dropped. exact Hs.
  Qed.

  Theorem sync_charges_wf (HO : OrderLaws G) (x : arr) :
    wf_array G R x = true -> wf_array G R (a_sync_charges G R x) = true.
  Proof.
    intros Hw. apply wf_array_iff in Hw. unfold a_sync_charges, sectors. apply wf_mk. apply (WF_prune HO). exact Hw.
  Qed.

  (* the statement about `prune_indices` alone: every index of the pruned list is valid *)
  Theorem prune_indices_wf (HO : OrderLaws G) (ixs : list (index G)) (secs : list sector) :
    IxsOK ixs -> IxsOK (prune_indices G ixs secs).
  Proof.
    intros H1. unfold IxsOK. apply Forall_forall. intros ix Hin.
    destruct (In_nth _ _ dix Hin) as (i & Hi & <-). rewrite length_prune_indices in Hi.
    rewrite nth_prune_indices by exact Hi. cbv zeta. apply (wf_index_drop HO).
    unfold IxsOK in H1. rewrite Forall_forall in H1. apply H1. apply nth_In. exact Hi.
  Qed.

  (* ---------------------------------------------------------------- *)
  (* §5 blockwise contraction *)

  Definition TabOK (ixs : list (index G)) (s : sector) : Prop :=
    length s = length ixs /\ forall i, i < length ixs -> In (nth i s e) (icharges G (nth i ixs dix)).

  Lemma SecOK_Tab ixs q s : SecOK ixs q s -> TabOK ixs s.
  Proof. intros (H1 & H2 & _). split; assumption. Qed.

  Lemma TabOK_take ixs s p : (forall i, In i p -> i < length ixs) -> TabOK ixs s ->
    TabOK (take_axes dix ixs p) (take_axes e s p).
  Proof.
    intros Hp (Hl & Hm). unfold TabOK. rewrite !length_take_axes. split; [reflexivity|].
    intros i Hi. unfold take_axes. rewrite (map_nth_lt _ _ 0) by exact Hi.
    rewrite (map_nth_lt _ _ 0) by exact Hi. apply Hm. apply Hp. apply nth_In. exact Hi.
  Qed.

  Lemma TabOK_app i1 i2 s1 s2 : TabOK i1 s1 -> TabOK i2 s2 -> TabOK (i1 ++ i2) (s1 ++ s2).
  Proof.
    intros (Hl1 & Hm1) (Hl2 & Hm2). unfold TabOK. rewrite !app_length. split; [lia|].
    intros i Hi. destruct (Nat.lt_ge_cases i (length i1)) as [Hlt|Hge].
    - rewrite !app_nth1 by lia. apply Hm1. exact Hlt.
    - rewrite !app_nth2 by lia. rewrite Hl1. apply Hm2. lia.
  Qed.

  Lemma block_shape_app i1 i2 (s1 s2 : sector) : length s1 = length i1 ->
    block_shape G (i1 ++ i2) (s1 ++ s2) = block_shape G i1 s1 ++ block_shape G i2 s2.
  Proof.
    revert s1. induction i1 as [|x i1 IH]; intros [|c s1] Hl; try discriminate Hl; [reflexivity|].
    cbn [app]. unfold block_shape in *. cbn [List.combine map app]. f_equal. apply IH. cbn [length] in Hl. lia.
  Qed.

  Lemma map_eq_nth {A B X} (f : A -> X) (g : B -> X) d1 d2 : forall l1 l2, length l1 = length l2 ->
    (forall k, k < length l1 -> f (nth k l1 d1) = g (nth k l2 d2)) -> map f l1 = map g l2.
  Proof.
    induction l1 as [|x l1 IH]; intros [|y l2] Hl Hk; try discriminate Hl; [reflexivity|].
    cbn [map]. f_equal.
    - apply (Hk 0). cbn [length]. lia.
    - apply IH; [cbn [length] in Hl; lia|]. intros k Hlt. apply (Hk (S k)). cbn [length]. lia.
  Qed.

  Lemma nth_duals ixs i : nth i (map (idual G) ixs) false = idual G (nth i ixs dix).
  Proof. apply (map_nth (idual G) ixs dix i). Qed.

  (* the free part of a tensor-product shape *)
  Lemma without_block_shape ixs (s : sector) axes : length s = length ixs ->
    without_axes (block_shape G ixs s) axes =
    block_shape G (take_axes dix ixs (rest_axes (length ixs) axes)) (take_axes e s (rest_axes (length ixs) axes)).
  Proof.
    intros Hl. rewrite (without_axes_take 0). rewrite (Tdot.length_block_shape G ixs s Hl).
    rewrite block_shape_take. unfold take_axes. apply map_ext_in. intros i Hi.
    apply In_rest_axes in Hi. apply Tdot.nth_block_shape; assumption.
  Qed.

  Section Pair.
    Context (ixa ixb : list (index G)) (qa qb : C G) (aa ab : list nat).
    Context (Hixa : IxsOK ixa) (Hixb : IxsOK ixb).
    Context (Haa_nd : NoDup aa) (Haa_lt : forall i, In i aa -> i < length ixa).
    Context (Hab_nd : NoDup ab) (Hab_lt : forall i, In i ab -> i < length ixb).
    Context (Hlen : length aa = length ab).
    Context (Hdual : forall k, k < length aa ->
               idual G (nth (nth k aa 0) ixa dix) = negb (idual G (nth (nth k ab 0) ixb dix))).
    Let la := rest_axes (length ixa) aa.
    Let rb := rest_axes (length ixb) ab.
    Let ixs := take_axes dix ixa la ++ take_axes dix ixb rb.

    Lemma pair_SecOK sa sb : SecOK ixa qa sa -> SecOK ixb qb sb ->
      take_axes e sa aa = take_axes e sb ab ->
      SecOK ixs (combine G [qa; qb]) (take_axes e sa la ++ take_axes e sb rb).
    Proof.
      intros Ha Hb Heq.
      pose proof (SecOK_valid _ _ _ Hixa Ha) as Hva. pose proof (SecOK_valid _ _ _ Hixb Hb) as Hvb.
      pose proof (SecOK_Tab _ _ _ Ha) as Hta. pose proof (SecOK_Tab _ _ _ Hb) as Htb.
      destruct Ha as (Hla & _ & Hca). destruct Hb as (Hlb & _ & Hcb).
      assert (Htab : TabOK ixs (take_axes e sa la ++ take_axes e sb rb)).
      { apply TabOK_app; apply TabOK_take; try assumption; intros i Hi; apply (In_rest_axes _ _ _ Hi). }
      destruct Htab as (Hl & Hm). split; [exact Hl|]. split; [exact Hm|].
      set (dsa := map (idual G) ixa) in *. set (dsb := map (idual G) ixb) in *.
      assert (Hds : map (idual G) ixs = take_axes false dsa la ++ take_axes false dsb rb).
      { unfold ixs. rewrite map_app, !take_map. reflexivity. }
      rewrite Hds. rewrite (signed_sector_app G) by (rewrite !length_take_axes; reflexivity).
      rewrite !signed_take.
      set (La := map (sgn false sa dsa) la). set (Rb := map (sgn false sb dsb) rb).
      set (Ca := map (sgn false sa dsa) aa). set (Cb := map (sgn false sb dsb) ab).
      assert (VLa : VA La) by (apply map_sgn_valid; exact Hva).
      assert (VRb : VA Rb) by (apply map_sgn_valid; exact Hvb).
      assert (VCa : VA Ca) by (apply map_sgn_valid; exact Hva).
      assert (VCb : VA Cb) by (apply map_sgn_valid; exact Hvb).
      assert (Eqa : qa = gadd G (combine G La) (combine G Ca)).
      { rewrite <- Hca. rewrite (combine_signed_perm false sa dsa (la ++ aa)).
        - rewrite map_app. apply (combine_app_gadd G HG); assumption.
        - unfold dsa. rewrite map_length. exact Hla.
        - rewrite Hla. apply rest_axes_perm; assumption. }
      assert (Eqb : qb = gadd G (combine G Rb) (combine G Cb)).
      { rewrite <- Hcb. rewrite (combine_signed_perm false sb dsb (rb ++ ab)).
        - rewrite map_app. apply (combine_app_gadd G HG); assumption.
        - unfold dsb. rewrite map_length. exact Hlb.
        - rewrite Hlb. apply rest_axes_perm; assumption. }
      assert (ECb : Cb = map (gneg G) Ca).
      { unfold Cb, Ca. rewrite map_map. symmetry. apply (map_eq_nth _ _ 0 0); [exact Hlen|].
        intros k Hk. unfold sgn. cbn [xorb].
        assert (E1 : nth (nth k aa 0) sa e = nth (nth k ab 0) sb e).
        { assert (H : nth k (take_axes e sa aa) e = nth k (take_axes e sb ab) e) by now rewrite Heq.
          unfold take_axes in H. rewrite (map_nth_lt _ _ 0) in H by exact Hk.
          rewrite (map_nth_lt _ _ 0) in H by lia. exact H. }
        unfold dsa, dsb. rewrite !nth_duals. rewrite (Hdual k Hk), <- E1.
        destruct (idual G (nth (nth k ab 0) ixb dix)); cbn [negb xorb].
        - symmetry. apply (sign_negb G HG _ false).
          apply (proj1 (valid_all_In G HG sa) Hva). apply nth_In. rewrite Hla. apply Haa_lt. apply nth_In. exact Hk.
        - rewrite (sign_false G HG).
          apply (gneg_involutive G HG).
          apply (proj1 (valid_all_In G HG sa) Hva). apply nth_In. rewrite Hla. apply Haa_lt. apply nth_In. exact Hk. }
      rewrite (combine_app_gadd G HG) by assumption.
      change (combine G [qa; qb]) with (gadd G qa qb). rewrite Eqa, Eqb.
      pose proof (combine_valid G HG _ VLa) as V1. pose proof (combine_valid G HG _ VRb) as V2.
      pose proof (combine_valid G HG _ VCa) as V3. pose proof (combine_valid G HG _ VCb) as V4.
      rewrite (gadd_interchange G HG) by assumption.
      rewrite ECb, <- (gneg_combine G HG) by exact VCa.
      rewrite (gadd_neg_r G HG) by exact V3.
      symmetry. apply (gadd_ident_r G HG). apply (gadd_valid G HG); assumption.
    Qed.

    Lemma pair_BlkOK sa ta sb tb : BlkOK ixa qa sa ta -> BlkOK ixb qb sb tb ->
      take_axes e sa aa = take_axes e sb ab ->
      BlkOK ixs (combine G [qa; qb]) (take_axes e sa la ++ take_axes e sb rb) (ttensordot R ta tb aa ab).
    Proof.
      intros (Ha & Hsa & _) (Hb & Hsb & _) Heq. split; [apply pair_SecOK; assumption|]. split.
      - unfold ttensordot. cbn [tshape build]. rewrite Hsa, Hsb.
        destruct Ha as (Hla & _). destruct Hb as (Hlb & _).
        rewrite (without_block_shape ixa sa aa Hla), (without_block_shape ixb sb ab Hlb).
        unfold ixs. rewrite block_shape_app by (rewrite !length_take_axes; reflexivity). reflexivity.
      - apply (build_len R).
    Qed.
  End Pair.

  Lemma In_dset {V} k (v : V) d k' v' : In (k', v') (dset keq k v d) -> In (k', v') d \/ (k' = k /\ v' = v).
  Proof.
    induction d as [|[k0 v0] d IH]; cbn [dset].
    - intros [H|[]]. inversion H. right. split; reflexivity.
    - destruct (keq k k0) eqn:E.
      + apply keqE in E. subst k0. intros [H|H]; [inversion H; right; split; reflexivity|left; right; exact H].
      + intros [H|H]; [left; left; exact H|]. destruct (IH H) as [H'|H']; [left; right; exact H'|right; exact H'].
  Qed.

  Lemma acc_add_inv ixs q (ps acc : list (sector * tensor R)) :
    (forall s t, In (s, t) ps -> BlkOK ixs q s t) ->
    NoDup (map fst acc) -> (forall s t, In (s, t) acc -> BlkOK ixs q s t) ->
    NoDup (map fst (fold_left (acc_add G R) ps acc)) /\
    (forall s t, In (s, t) (fold_left (acc_add G R) ps acc) -> BlkOK ixs q s t).
  Proof.
    revert acc. induction ps as [|[k v] ps IH]; intros acc Hps Hnd Hacc; cbn [fold_left]; [split; assumption|].
    apply IH.
    - intros s t Hin. apply Hps. right. exact Hin.
    - unfold acc_add. cbn [fst snd]. destruct (lookup keq k acc) as [t0|] eqn:E.
      + apply (OrderProofs.dset_keys_NoDup keq keqE). exact Hnd.
      + rewrite map_app. cbn [map fst]. apply NoDup_app'; [exact Hnd|repeat constructor; intros []|].
        intros x Hx [<-|[]]. apply (OrderProofs.lookup_None_iff keq keqE) in E. contradiction.
    - unfold acc_add. cbn [fst snd]. intros s t Hin. destruct (lookup keq k acc) as [t0|] eqn:E.
      + apply In_dset in Hin. destruct Hin as [Hin|[-> ->]]; [apply Hacc; exact Hin|].
        apply lookupE in E. apply (BlkOK_build ixs q k t0). apply Hacc. exact E.
      + apply in_app_iff in Hin. destruct Hin as [Hin|[Hin|[]]]; [apply Hacc; exact Hin|].
        inversion Hin; subst s t. apply Hps. left. reflexivity.
  Qed.

  Theorem tdot_blockwise_wf (HO : OrderLaws G) (a b : arr) (aa ab : list nat) :
    wf_array G R a = true -> wf_array G R b = true ->
    NoDup aa -> (forall i, In i aa -> i < ndim G R a) ->
    NoDup ab -> (forall i, In i ab -> i < ndim G R b) ->
    length aa = length ab ->
    (forall k, k < length aa ->
       idual G (nth (nth k aa 0) (indices G R a) dix) = negb (idual G (nth (nth k ab 0) (indices G R b) dix))) ->
    wf_array G R (tdot_blockwise G R a b (rest_axes (ndim G R a) aa) aa ab (rest_axes (ndim G R b) ab)) = true.
  Proof.
    intros Ha Hb Haa_nd Haa_lt Hab_nd Hab_lt Hlen Hdual.
    apply wf_array_iff in Ha. apply wf_array_iff in Hb. unfold ndim in *.
    unfold tdot_blockwise. cbv zeta. apply wf_mk. apply (WF_prune HO).
    rewrite (without_axes_take dix (indices G R a)), (without_axes_take dix (indices G R b)).
    set (ixs := take_axes dix (indices G R a) _ ++ take_axes dix (indices G R b) _).
    set (q := combine G [charge G R a; charge G R b]).
    set (ps := tdot_pairs G R a b _ aa ab _).
    assert (Hps : forall s t, In (s, t) ps -> BlkOK ixs q s t).
    { intros s t Hin. unfold ps, tdot_pairs in Hin. apply in_flat_map in Hin.
      destruct Hin as ([sa ta] & Hina & Hin). apply in_flat_map in Hin. destruct Hin as ([sb tb] & Hinb & Hin).
      cbn [fst snd] in Hin.
      destruct (keq (take_axes e sa aa) (take_axes e sb ab)) eqn:E; [|destruct Hin].
      destruct Hin as [Hin|[]]. inversion Hin; subst s t. apply keqE in E.
      apply (pair_BlkOK (indices G R a) (indices G R b) (charge G R a) (charge G R b) aa ab
               (wf_ix _ _ _ Ha) (wf_ix _ _ _ Hb) Haa_nd Haa_lt Hab_nd Hab_lt Hlen Hdual sa ta sb tb).
      - apply (wf_bl _ _ _ Ha). exact Hina.
      - apply (wf_bl _ _ _ Hb). exact Hinb.
      - exact E. }
    destruct (acc_add_inv ixs q ps [] Hps (NoDup_nil _) (fun s t (H : In (s, t) []) => match H with end)) as [Hnd Hall].
    constructor.
    - unfold ixs, IxsOK. apply Forall_app. split; apply Forall_forall; intros ix Hin;
        apply in_map_iff in Hin; destruct Hin as (i & <- & Hi); apply In_rest_axes in Hi.
      + pose proof (wf_ix _ _ _ Ha) as H. unfold IxsOK in H. rewrite Forall_forall in H. apply H. apply nth_In. exact Hi.
      + pose proof (wf_ix _ _ _ Hb) as H. unfold IxsOK in H. rewrite Forall_forall in H. apply H. apply nth_In. exact Hi.
    - apply (gadd_valid G HG); [apply (wf_q _ _ _ Ha)|apply (wf_q _ _ _ Hb)].
    - exact Hnd.
    - exact Hall.
  Qed.

  (* ---------------------------------------------------------------- *)
  (* §6 drop_misaligned, expand_dims, squeeze *)

  Lemma WF_filter ixs q bl (P : sector * tensor R -> bool) : WF ixs q bl -> WF ixs q (filter P bl).
  Proof.
    intros Hw. apply (WF_blocks ixs q bl _ Hw).
    - apply NoDup_map_filter. apply (wf_nd _ _ _ Hw).
    - intros s t Hin. apply filter_In in Hin. apply (wf_bl _ _ _ Hw). apply Hin.
  Qed.

  Theorem drop_misaligned_wf (HO : OrderLaws G) (a b : arr) (aa ab : list nat) :
    wf_array G R a = true -> wf_array G R b = true ->
    wf_array G R (fst (drop_misaligned G R a b aa ab)) = true /\
    wf_array G R (snd (drop_misaligned G R a b aa ab)) = true.
  Proof.
    intros Ha Hb. apply wf_array_iff in Ha. apply wf_array_iff in Hb.
    unfold drop_misaligned. cbv zeta. cbn [fst snd]. split; apply wf_mk; apply (WF_prune HO); apply WF_filter; assumption.
  Qed.

  (* ---- tables as a pointwise relation ---- *)
  Definition in_table (ix : index G) (c : C G) : Prop := In c (icharges G ix).

  Lemma TabOK_F2 ixs s : TabOK ixs s <-> Forall2 in_table ixs s.
  Proof.
    revert s. induction ixs as [|x ixs IH]; intros s.
    - split.
      + intros (Hl & _). destruct s; [constructor|discriminate Hl].
      + intros H. inversion H; subst. split; [reflexivity|]. intros i Hi. cbn [length] in Hi. lia.
    - split.
      + intros (Hl & Hm). destruct s as [|c s]; [discriminate Hl|]. constructor.
        * apply (Hm 0). cbn [length]. lia.
        * apply IH. split; [cbn [length] in Hl; lia|]. intros i Hi. apply (Hm (S i)). cbn [length]. lia.
      + intros H. inversion H as [|? c ? s' Hc Hr]; subst. apply IH in Hr. destruct Hr as (Hl & Hm).
        split; [cbn [length]; lia|]. intros [|i] Hi; cbn [nth]; [exact Hc|]. apply Hm. cbn [length] in Hi. lia.
  Qed.

  Lemma SecOK_of ixs q s : TabOK ixs s -> combine G (signed_sector G false s (map (idual G) ixs)) = q -> SecOK ixs q s.
  Proof. intros (H1 & H2) H3. split; [exact H1|]. split; assumption. Qed.

  (* ---- expand_dims ---- *)
  Definition unit_ix (d : bool) : index G := Index G [(e, 1)] d None.

  Lemma unit_ix_wf d : wf_index G (unit_ix d) = true.
  Proof.
    unfold unit_ix. cbn [wf_index]. unfold cm_ok. cbn [map fst snd sorted_by forallb].
    rewrite (valid_ident G HG). reflexivity.
  Qed.

  Lemma size_of_unit_ix d : size_of G (unit_ix d) e = 1.
  Proof. unfold size_of, unit_ix. cbn [chargemap lookup]. rewrite (ceqb_refl G HG). reflexivity. Qed.

  Lemma Forall_insert {A} (P : A -> Prop) l n x : Forall P l -> P x -> Forall P (insert_nth l n x).
  Proof.
    intros Hl Hx. unfold insert_nth. rewrite <- (firstn_skipn n l) in Hl. apply Forall_app in Hl.
    apply Forall_app. split; [apply Hl|]. constructor; [exact Hx|apply Hl].
  Qed.

  Lemma Forall2_insert {A B} (P : A -> B -> Prop) n x y : forall l l', Forall2 P l l' -> P x y ->
    Forall2 P (insert_nth l n x) (insert_nth l' n y).
  Proof.
    induction n as [|n IH]; intros l l' Hl Hx.
    - rewrite !insert_nth_0. constructor; assumption.
    - destruct Hl as [|a b l l' Hab Hl].
      + rewrite !insert_nth_S_nil. constructor; [exact Hx|constructor].
      + rewrite !insert_nth_S_cons. constructor; [exact Hab|]. apply IH; assumption.
  Qed.

  Lemma block_shape_insert n u c : forall ixs (s : sector), length s = length ixs ->
    block_shape G (insert_nth ixs n u) (insert_nth s n c) = insert_nth (block_shape G ixs s) n (size_of G u c).
  Proof.
    induction n as [|n IH]; intros ixs s Hl.
    - rewrite !insert_nth_0. reflexivity.
    - destruct ixs as [|x ixs]; destruct s as [|c0 s]; try discriminate Hl.
      + rewrite !insert_nth_S_nil. reflexivity.
      + rewrite !insert_nth_S_cons. unfold block_shape in *. cbn [List.combine map].
        rewrite insert_nth_S_cons. f_equal. apply IH. cbn [length] in Hl. lia.
  Qed.

  Lemma signed_insert flip n c d : forall (s : sector) ds, length s = length ds ->
    signed_sector G flip (insert_nth s n c) (insert_nth ds n d) =
    insert_nth (signed_sector G flip s ds) n (sign G c (xorb flip d)).
  Proof.
    induction n as [|n IH]; intros s ds Hl.
    - rewrite !insert_nth_0. reflexivity.
    - destruct s as [|c0 s]; destruct ds as [|d0 ds]; try discriminate Hl.
      + rewrite !insert_nth_S_nil. reflexivity.
      + rewrite !insert_nth_S_cons. rewrite !(signed_sector_cons G). rewrite insert_nth_S_cons.
        f_equal. apply IH. cbn [length] in Hl. lia.
  Qed.

  Lemma insert_perm {A} (l : list A) n x : Permutation (insert_nth l n x) (x :: l).
  Proof.
    unfold insert_nth. eapply Permutation_trans; [apply Permutation_sym; apply Permutation_middle|].
    rewrite firstn_skipn. apply Permutation_refl.
  Qed.

  Lemma combine_ident_cons l : VA l -> combine G (e :: l) = combine G l.
  Proof.
    intros Hl. rewrite (combine_cons G HG) by (try apply (valid_ident G HG); exact Hl).
    apply (gadd_ident_l G HG). apply (combine_valid G HG). exact Hl.
  Qed.

  Lemma SecOK_insert ixs q s n d : IxsOK ixs -> SecOK ixs q s ->
    SecOK (insert_nth ixs n (unit_ix d)) q (insert_nth s n e).
  Proof.
    intros Hix Hs. pose proof (SecOK_valid _ _ _ Hix Hs) as Hv. pose proof (SecOK_Tab _ _ _ Hs) as Ht.
    destruct Hs as (Hl & _ & Hc). apply SecOK_of.
    - apply TabOK_F2. apply Forall2_insert; [apply TabOK_F2; exact Ht|]. unfold in_table, unit_ix, icharges.
      cbn [chargemap map fst]. left. reflexivity.
    - rewrite map_insert_nth. cbn [idual unit_ix].
      rewrite signed_insert by (rewrite map_length; exact Hl).
      rewrite (sign_ident G HG).
      rewrite (combine_perm G HG _ _ (insert_perm _ n e)).
      rewrite combine_ident_cons; [exact Hc|]. apply (signed_sector_valid G HG). exact Hv.
  Qed.

  Theorem expand_dims_wf (x : arr) (axis : nat) :
    wf_array G R x = true -> wf_array G R (a_expand_dims G R x axis) = true.
  Proof.
    intros Hw. apply wf_array_iff in Hw. destruct Hw as [H1 H2 H3 H4].
    unfold a_expand_dims. cbv zeta.
    set (d := if Nat.ltb 0 axis then _ else _). apply wf_mk. constructor.
    - apply Forall_insert; [exact H1|apply (unit_ix_wf d)].
    - exact H2.
    - rewrite map_map. cbn [fst]. rewrite <- (map_map fst (fun s => insert_nth s axis e)).
      apply NoDup_map_inj_in; [|exact H3]. intros s s' _ _ He. apply (insert_nth_inj axis e). exact He.
    - intros s t Hin. apply in_map_iff in Hin. destruct Hin as ([s0 t0] & Heq & Hin).
      cbn [fst snd] in Heq. inversion Heq; subst s t. clear Heq.
      destruct (H4 _ _ Hin) as (Hs & Hsh & Hlen). split; [|split].
      + apply (SecOK_insert _ _ _ axis d H1 Hs).
      + unfold treshape. cbn [tshape]. rewrite Hsh. destruct Hs as (Hl & _).
        change (Index G [(e, 1)] d None) with (unit_ix d).
        rewrite (block_shape_insert axis (unit_ix d) e _ _ Hl), size_of_unit_ix. reflexivity.
      + unfold treshape. cbn [tshape tdata]. rewrite shape_size_insert. exact Hlen.
  Qed.

  (* ---- squeeze ---- *)
  Lemma Forall_mask {A} (P : A -> Prop) m : forall l, Forall P l -> Forall P (mask_keep m l).
  Proof.
    induction m as [|b m IH]; intros [|x l] Hl; cbn [mask_keep]; try constructor.
    inversion Hl; subst. destruct b; [apply IH; assumption|constructor; [assumption|apply IH; assumption]].
  Qed.

  Lemma Forall2_mask {A B} (P : A -> B -> Prop) m : forall l l', Forall2 P l l' -> Forall2 P (mask_keep m l) (mask_keep m l').
  Proof.
    induction m as [|b m IH]; intros l l' Hl; destruct Hl as [|x y l l' Hxy Hl]; cbn [mask_keep]; try constructor.
    destruct b; [apply IH; assumption|constructor; [assumption|apply IH; assumption]].
  Qed.

  Lemma block_shape_mask m : forall ixs (s : sector), length s = length ixs ->
    block_shape G (mask_keep m ixs) (mask_keep m s) = mask_keep m (block_shape G ixs s).
  Proof.
    induction m as [|b m IH]; intros [|x ixs] [|c s] Hl; try discriminate Hl; try reflexivity.
    unfold block_shape in *. cbn [mask_keep List.combine map]. cbn [length] in Hl.
    destruct b; [apply IH; lia|]. cbn [List.combine map]. f_equal. apply IH. lia.
  Qed.

  Lemma shape_size_mask m : forall sh, (forall i, i < length m -> nth i m false = true -> nth i sh 0 = 1) ->
    length m = length sh -> shape_size (mask_keep m sh) = shape_size sh.
  Proof.
    induction m as [|b m IH]; intros [|x sh] Hd Hl; try discriminate Hl; try reflexivity.
    cbn [length] in Hl.
    assert (Hd' : forall i, i < length m -> nth i m false = true -> nth i sh 0 = 1).
    { intros i Hi Hm. apply (Hd (S i)); [cbn [length]; lia|exact Hm]. }
    cbn [mask_keep]. destruct b.
    - rewrite IH by (try exact Hd'; lia). cbn [shape_size fold_right].
      rewrite (Hd 0 ltac:(cbn [length]; lia) eq_refl : x = 1). fold (shape_size sh). lia.
    - cbn [shape_size fold_right]. fold (shape_size sh). fold (shape_size (mask_keep m sh)).
      rewrite IH by (try exact Hd'; lia). reflexivity.
  Qed.

  Lemma combine_signed_mask m : forall (s : sector) ds, length m = length s -> length s = length ds -> VA s ->
    (forall i, i < length m -> nth i m false = true -> nth i s e = e) ->
    combine G (signed_sector G false (mask_keep m s) (mask_keep m ds)) = combine G (signed_sector G false s ds).
  Proof.
    induction m as [|b m IH]; intros [|c s] [|d ds] Hm Hl Hv Hd; try discriminate Hm; try discriminate Hl; try reflexivity.
    cbn [length] in Hm, Hl. apply (valid_all_cons_iff G HG) in Hv. destruct Hv as [Hvc Hv].
    assert (Hd' : forall i, i < length m -> nth i m false = true -> nth i s e = e).
    { intros i Hi Hmi. apply (Hd (S i)); [cbn [length]; lia|exact Hmi]. }
    pose proof (signed_sector_valid G HG false s ds Hv) as HvS.
    cbn [mask_keep]. rewrite (signed_sector_cons G). destruct b.
    - rewrite IH by (try assumption; lia).
      rewrite (Hd 0 ltac:(cbn [length]; lia) eq_refl : c = e). rewrite (sign_ident G HG).
      symmetry. apply combine_ident_cons. exact HvS.
    - rewrite (signed_sector_cons G).
      assert (Hvm : VA (mask_keep m s)).
      { apply (valid_all_forall G HG). apply Forall_mask. apply (valid_all_forall G HG). exact Hv. }
      rewrite !(combine_cons G HG); try (apply (sign_valid G HG); exact Hvc); try exact HvS;
        try (apply (signed_sector_valid G HG); exact Hvm).
      f_equal. apply IH; try assumption; lia.
  Qed.

  Theorem squeeze_wf (x y : arr) (axes : option (list nat)) :
    wf_array G R x = true -> a_squeeze G R x axes = Some y -> wf_array G R y = true.
  Proof.
    intros Hw Hy. apply wf_array_iff in Hw. destruct Hw as [H1 H2 H3 H4].
    rewrite a_squeeze_unfold in Hy.
    destruct (forallb _ _) eqn:Hok; cbn [negb] in Hy; [|discriminate Hy]. inversion Hy; subst y. clear Hy.
    cbv zeta. set (m := removes G R x axes) in *.
    assert (Hm : length m = length (indices G R x)) by apply removes_length.
    assert (Hsq : forall i, i < length m -> nth i m false = true -> squeezable G (nth i (indices G R x) dix)).
    { intros i Hi Hmi.
      apply (proj1 (StructProofs.forallb_combine_nth _ false dix m (indices G R x) Hm)) with (i := i) in Hok; [|exact Hi].
      cbn [fst snd] in Hok. rewrite Hmi in Hok. apply (sqb_spec G HG). exact Hok. }
    assert (Hdrop : forall s, SecOK (indices G R x) (charge G R x) s ->
              forall i, i < length m -> nth i m false = true ->
                nth i s e = e /\ nth i (block_shape G (indices G R x) s) 0 = 1).
    { intros s (Hl & Hmem & _) i Hi Hmi. specialize (Hsq i Hi Hmi). rewrite Hm in Hi.
      assert (Hc : nth i s e = e).
      { apply (sq_mem G HG _ _ Hsq). apply (mem_ceqb_In G HG). apply Hmem. exact Hi. }
      split; [exact Hc|]. rewrite (Tdot.nth_block_shape G _ s i Hi Hl). rewrite Hc.
      destruct Hsq as (Htot & d & Hcm).
      assert (Hix : wf_index G (nth i (indices G R x) dix) = true).
      { unfold IxsOK in H1. rewrite Forall_forall in H1. apply H1. apply nth_In. exact Hi. }
      pose proof (wf_index_sizes_pos _ (e, d) Hix) as Hpos. rewrite Hcm in Hpos. cbn [snd] in Hpos.
      specialize (Hpos (or_introl eq_refl)).
      unfold size_total in Htot. rewrite Hcm in Htot. cbn [map snd nsum fold_right] in Htot.
      unfold size_of. rewrite Hcm. cbn [lookup]. rewrite (ceqb_refl G HG). lia. }
    unfold ndim. apply wf_mk.
    rewrite (StructProofs.take_axes_mask dix m (indices G R x) Hm).
    constructor.
    - apply Forall_mask. exact H1.
    - exact H2.
    - rewrite map_map. cbn [fst].
      assert (E : map (fun sb : sector * tensor R => take_axes e (fst sb) (keep_axes (length (indices G R x)) m)) (blocks G R x)
                  = map (fun sb => mask_keep m (fst sb)) (blocks G R x)).
      { apply map_ext_in. intros [s t] Hin. cbn [fst]. destruct (H4 _ _ Hin) as ((Hl & _) & _).
        rewrite <- Hl. apply StructProofs.take_axes_mask. lia. }
      rewrite E. rewrite <- (map_map fst (mask_keep m)). apply NoDup_map_inj_in; [|exact H3].
      intros s s' Hs Hs' He. apply in_map_iff in Hs. apply in_map_iff in Hs'.
      destruct Hs as ([s0 t0] & <- & Hs). destruct Hs' as ([s1 t1] & <- & Hs'). cbn [fst] in *.
      destruct (H4 _ _ Hs) as (Hok0 & _). destruct (H4 _ _ Hs') as (Hok1 & _).
      apply (mask_keep_inj e e m s0 s1); [destruct Hok0; lia | destruct Hok0, Hok1; lia | | exact He].
      intros i Hi Hmi. split; [apply (Hdrop s0 Hok0 i Hi Hmi) | apply (Hdrop s1 Hok1 i Hi Hmi)].
    - intros s t Hin. apply in_map_iff in Hin. destruct Hin as ([s0 t0] & Heq & Hin).
      cbn [fst snd] in Heq. inversion Heq; subst s t. clear Heq.
      destruct (H4 _ _ Hin) as (Hs & Hsh & Hlen).
      pose proof (SecOK_valid _ _ _ H1 Hs) as Hv. pose proof (SecOK_Tab _ _ _ Hs) as Ht.
      pose proof (Hdrop s0 Hs) as Hd0. destruct Hs as (Hl & _ & Hc).
      replace (keep_axes (length (indices G R x)) m) with (keep_axes (length s0) m) by now rewrite Hl.
      rewrite (StructProofs.take_axes_mask e m s0) by lia.
      assert (Hlt : length (tshape t0) = length s0).
      { rewrite Hsh. rewrite (Tdot.length_block_shape G _ _ Hl). lia. }
      rewrite <- Hlt. rewrite (StructProofs.take_axes_mask 0 m (tshape t0)) by lia.
      split; [|split].
      + apply SecOK_of.
        * apply TabOK_F2. apply Forall2_mask. apply TabOK_F2. exact Ht.
        * rewrite mask_keep_map. rewrite combine_signed_mask; try assumption; try lia.
          -- rewrite map_length. exact Hl.
          -- intros i Hi Hmi. apply (Hd0 i Hi Hmi).
      + unfold treshape. cbn [tshape]. rewrite Hsh. symmetry. apply block_shape_mask. exact Hl.
      + unfold treshape. cbn [tshape tdata]. rewrite shape_size_mask; [exact Hlen| |lia].
        intros i Hi Hmi. rewrite Hsh. apply (Hd0 i Hi Hmi).
  Qed.

  (* ---------------------------------------------------------------- *)
  (* §7 the fermionic invariant *)

  Notation farr := (farray G R).

  Definition wf_fermi (x : farr) : bool :=
    wf_array G R (fbase G R x) &&
    (nodupb keq (fphases G R x) &&
     forallb (sector_ok G (indices G R (fbase G R x)) (charge G R (fbase G R x))) (fphases G R x)) &&
    Bool.eqb (Nat.odd (length (foddpos G R x))) (fparity G R x).

  Definition PhOK (ixs : list (index G)) (q : C G) (ph : list sector) : Prop :=
    NoDup ph /\ forall s, In s ph -> SecOK ixs q s.

  Record WFF (x : farr) : Prop := {
    ff_base : WF (indices G R (fbase G R x)) (charge G R (fbase G R x)) (blocks G R (fbase G R x));
    ff_ph : PhOK (indices G R (fbase G R x)) (charge G R (fbase G R x)) (fphases G R x);
    ff_par : Nat.odd (length (foddpos G R x)) = fparity G R x }.

  Lemma wf_fermi_iff x : wf_fermi x = true <-> WFF x.
  Proof.
    unfold wf_fermi. rewrite !andb_true_iff, wf_array_iff, eqb_true_iff.
    rewrite (OrderProofs.nodupb_NoDup keq keqE), forallb_forall. split.
    - intros ((H1 & H2 & H3) & H4). constructor; [exact H1| |exact H4]. split; [exact H2|].
      intros s Hs. apply sector_ok_iff. apply H3. exact Hs.
    - intros [H1 [H2 H3] H4]. split; [split; [exact H1|split; [exact H2|]]|exact H4].
      intros s Hs. apply sector_ok_iff. apply H3. exact Hs.
  Qed.

  Lemma WFF_sectors x s : WFF x -> In s (fsectors G R x) ->
    SecOK (indices G R (fbase G R x)) (charge G R (fbase G R x)) s.
  Proof.
    intros Hx Hs. unfold fsectors, sectors in Hs. apply in_map_iff in Hs. destruct Hs as ([s0 t] & <- & Hin).
    apply (wf_bl _ _ _ (ff_base _ Hx) _ _ Hin).
  Qed.

  Lemma WFF_phases x ph : WFF x -> PhOK (indices G R (fbase G R x)) (charge G R (fbase G R x)) ph ->
    WFF (with_phases G R x ph).
  Proof. intros [H1 H2 H3] Hph. constructor; [exact H1|exact Hph|exact H3]. Qed.

  Lemma toggle_ok ixs q ph s : PhOK ixs q ph -> SecOK ixs q s -> PhOK ixs q (ph_toggle G ph s).
  Proof.
    intros [Hnd Hall] Hs. unfold ph_toggle, ph_has, ph_del. destruct (mem keq s ph) eqn:E.
    - split; [apply NoDup_filter; exact Hnd|]. intros t Ht. apply filter_In in Ht. apply Hall. apply Ht.
    - split.
      + apply NoDup_app'; [exact Hnd|repeat constructor; intros []|].
        intros t Ht [<-|[]]. apply (OrderProofs.mem_In keq keqE) in Ht. congruence.
      + intros t Ht. apply in_app_iff in Ht. destruct Ht as [Ht|[<-|[]]]; [apply Hall; exact Ht|exact Hs].
  Qed.

  Lemma fold_ok ixs q (f : list sector -> sector -> list sector) l :
    (forall ph s, In s l -> PhOK ixs q ph -> PhOK ixs q (f ph s)) ->
    forall ph, PhOK ixs q ph -> PhOK ixs q (fold_left f l ph).
  Proof.
    induction l as [|s l IH]; intros Hf ph Hph; cbn [fold_left]; [exact Hph|].
    apply IH; [intros ph' s' Hs'; apply Hf; right; exact Hs'|]. apply Hf; [left; reflexivity|exact Hph].
  Qed.

  Lemma fold_toggle_if_ok ixs q (c : sector -> bool) l ph :
    (forall s, In s l -> SecOK ixs q s) -> PhOK ixs q ph ->
    PhOK ixs q (fold_left (fun ph s => if c s then ph_toggle G ph s else ph) l ph).
  Proof.
    intros Hl Hph. apply fold_ok; [|exact Hph]. intros ph' s Hs Hph'.
    destruct (c s); [apply toggle_ok; [exact Hph'|apply Hl; exact Hs]|exact Hph'].
  Qed.

  Theorem f_phase_flip_wf x axs : wf_fermi x = true -> wf_fermi (f_phase_flip G R x axs) = true.
  Proof.
    rewrite !wf_fermi_iff. intros Hx. unfold f_phase_flip. destruct (is_nil axs); [exact Hx|].
    apply WFF_phases; [exact Hx|]. apply fold_toggle_if_ok; [|apply (ff_ph _ Hx)].
    intros s Hs. apply WFF_sectors; assumption.
  Qed.

  Theorem f_phase_transpose_wf x perm : wf_fermi x = true -> wf_fermi (f_phase_transpose G R x perm) = true.
  Proof.
    rewrite !wf_fermi_iff. intros Hx. unfold f_phase_transpose.
    apply WFF_phases; [exact Hx|]. apply fold_toggle_if_ok; [|apply (ff_ph _ Hx)].
    intros s Hs. apply WFF_sectors; assumption.
  Qed.

  Lemma WFF_global x : WFF x -> WFF (f_phase_global G R x).
  Proof.
    intros Hx. unfold f_phase_global. apply WFF_phases; [exact Hx|]. apply fold_ok; [|apply (ff_ph _ Hx)].
    intros ph s Hs Hph. apply toggle_ok; [exact Hph|]. apply WFF_sectors; assumption.
  Qed.

  Theorem f_phase_global_wf x : wf_fermi x = true -> wf_fermi (f_phase_global G R x) = true.
  Proof. rewrite !wf_fermi_iff. apply WFF_global. Qed.

  Theorem f_phase_sector_wf x s : wf_fermi x = true ->
    sector_ok G (indices G R (fbase G R x)) (charge G R (fbase G R x)) s = true ->
    wf_fermi (f_phase_sector G R x s) = true.
  Proof.
    rewrite !wf_fermi_iff, sector_ok_iff. intros Hx Hs. unfold f_phase_sector.
    apply WFF_phases; [exact Hx|]. apply toggle_ok; [apply (ff_ph _ Hx)|exact Hs].
  Qed.

  Theorem f_phase_sync_wf x : wf_fermi x = true -> wf_fermi (f_phase_sync G R x) = true.
  Proof.
    rewrite !wf_fermi_iff. intros [H1 H2 H3]. unfold f_phase_sync. constructor; cbn [fbase fphases foddpos].
    - unfold with_blocks. cbn [indices charge blocks]. apply (WF_blocks _ _ _ _ H1).
      + rewrite map_map. rewrite (map_ext _ fst); [apply (wf_nd _ _ _ H1)|].
        intros sb. destruct (ph_has G (fst sb) (fphases G R x)); reflexivity.
      + intros s t Hin. apply in_map_iff in Hin. destruct Hin as ([s0 t0] & Heq & Hin). cbn [fst snd] in Heq.
        pose proof (wf_bl _ _ _ H1 _ _ Hin) as Hb.
        destruct (ph_has G s0 (fphases G R x)); inversion Heq; subst s t; [|exact Hb].
        apply BlkOK_tmap. exact Hb.
    - split; [constructor|intros s []].
    - exact H3.
  Qed.

  Lemma NoDup_permuted_sectors ixs q (l : list sector) p : Permutation p (seq 0 (length ixs)) ->
    (forall s, In s l -> SecOK ixs q s) -> NoDup l -> NoDup (map (fun s => permuted e s p) l).
  Proof.
    intros Hp Hl Hnd. apply NoDup_map_inj_in; [|exact Hnd]. intros s s' Hs Hs' He.
    destruct (Hl _ Hs) as (L1 & _). destruct (Hl _ Hs') as (L2 & _).
    apply (take_inj_sectors _ _ (length ixs) p Hp L1 L2 He).
  Qed.

  Lemma NoDup_fsectors x : WFF x -> NoDup (fsectors G R x).
  Proof. intros Hx. apply (wf_nd _ _ _ (ff_base _ Hx)). Qed.

  Theorem f_transpose_wf x axes phase : wf_fermi x = true ->
    Permutation axes (seq 0 (ndim G R (fbase G R x))) ->
    wf_fermi (f_transpose G R x axes phase) = true.
  Proof.
    rewrite !wf_fermi_iff. intros Hx Hp. pose proof Hx as [H1 [H2 H2'] H3]. unfold ndim in Hp.
    unfold f_transpose. constructor; cbn [fbase fphases foddpos]; unfold a_transpose; cbn [indices charge blocks].
    - apply WF_transpose; assumption.
    - destruct phase.
      + split.
        * apply NoDup_flat_map_sub.
          apply (NoDup_permuted_sectors _ (charge G R (fbase G R x)) _ _ Hp); [|apply NoDup_fsectors; exact Hx].
          intros s Hs. apply WFF_sectors; assumption.
        * intros s Hs. apply in_flat_map_sub in Hs. destruct Hs as (s0 & Hs0 & ->).
          apply (SecOK_take _ _ _ _ (wf_ix _ _ _ H1) Hp). apply WFF_sectors; assumption.
      + split.
        * apply (NoDup_permuted_sectors _ (charge G R (fbase G R x)) _ _ Hp); assumption.
        * intros s Hs. apply in_map_iff in Hs. destruct Hs as (s0 & <- & Hs0).
          apply (SecOK_take _ _ _ _ (wf_ix _ _ _ H1) Hp). apply H2'. exact Hs0.
    - exact H3.
  Qed.

  Lemma oddpos_dag_length l : length (oddpos_dag l) = length l.
  Proof. unfold oddpos_dag. now rewrite map_length, rev_length. Qed.

  Theorem f_conj_wf x pp pd : wf_fermi x = true -> wf_fermi (f_conj G R x pp pd) = true.
  Proof.
    rewrite !wf_fermi_iff. intros Hx. pose proof Hx as [H1 [H2 H2'] H3].
    unfold f_conj. cbv zeta.
    match goal with |- WFF (if _ then f_phase_global G R ?y else ?y) => assert (Hy : WFF y) end.
    { constructor; cbn [fbase fphases foddpos]; unfold a_conj; cbn [indices charge blocks].
      - apply WF_conj. exact H1.
      - apply fold_toggle_if_ok.
        + intros s Hs. apply SecOK_conj; [apply (wf_ix _ _ _ H1)|]. apply WFF_sectors; assumption.
        + split; [exact H2|]. intros s Hs. apply SecOK_conj; [apply (wf_ix _ _ _ H1)|]. apply H2'. exact Hs.
      - rewrite oddpos_dag_length, H3. unfold fparity. cbn [fbase charge].
        symmetry. apply (parity_sign G HG). apply (wf_q _ _ _ H1). }
    destruct (_ && _); [apply WFF_global; exact Hy|exact Hy].
  Qed.

  Lemma rev_as_take (s : sector) n : length s = n -> rev s = take_axes e s (rev_axes n).
  Proof. intros <-. symmetry. apply (permuted_rev_seq e s). Qed.

  Theorem f_dagger_wf x pd : wf_fermi x = true -> wf_fermi (f_dagger G R x pd) = true.
  Proof.
    intros Hx0. pose proof Hx0 as Hx. rewrite wf_fermi_iff in Hx. pose proof Hx as [H1 [H2 H2'] H3].
    unfold f_dagger. cbv zeta.
    set (y := mkF G R (a_dagger G R (fbase G R x)) _ (oddpos_dag (foddpos G R x))).
    assert (Hp : Permutation (rev_axes (ndim G R (fbase G R x))) (seq 0 (length (map (iconj G) (indices G R (fbase G R x)))))).
    { rewrite map_length. apply rev_seq_perm. }
    assert (Hy : WFF y).
    { constructor; unfold y; cbn [fbase fphases foddpos]; unfold a_dagger, a_transpose, a_conj; cbn [indices charge blocks].
      - apply WF_transpose; [exact Hp|]. apply WF_conj. exact H1.
      - assert (Hsec : forall s, In s (fsectors G R x) ->
                  SecOK (permuted dix (map (iconj G) (indices G R (fbase G R x))) (rev_axes (ndim G R (fbase G R x))))
                        (sign G (charge G R (fbase G R x)) true) (rev s)).
        { intros s Hs. pose proof (WFF_sectors x s Hx Hs) as Hok.
          rewrite (rev_as_take s (ndim G R (fbase G R x))) by (destruct Hok as (Hl & _); exact Hl).
          apply (SecOK_take _ _ _ _ (IxsOK_conj _ (wf_ix _ _ _ H1)) Hp).
          apply SecOK_conj; [apply (wf_ix _ _ _ H1)|exact Hok]. }
        split.
        + apply NoDup_flat_map_sub. apply NoDup_map_inj_in; [|apply NoDup_fsectors; exact Hx].
          intros s s' _ _ He. rewrite <- (rev_involutive s), He. apply rev_involutive.
        + intros s Hs. apply in_flat_map_sub in Hs. destruct Hs as (s0 & Hs0 & ->). apply Hsec. exact Hs0.
      - rewrite oddpos_dag_length, H3. unfold fparity. cbn [fbase charge].
        symmetry. apply (parity_sign G HG). apply (wf_q _ _ _ H1). }
    set (y2 := if _ && _ then f_phase_global G R y else y).
    assert (Hy2 : WFF y2) by (unfold y2; destruct (_ && _); [apply WFF_global; exact Hy|exact Hy]).
    destruct pd; [|apply wf_fermi_iff; exact Hy2].
    apply f_phase_flip_wf. apply wf_fermi_iff. exact Hy2.
  Qed.


  (* ---------------------------------------------------------------- *)
  (* §7b fusing one group of axes (uses C05: the fused index is valid, the
     fused blocks have distinct keys and the shapes of the new tables) *)

  Lemma fold_dset_inv {A} (P : sector -> tensor R -> Prop) (kf : A -> sector)
        (vf : list (sector * tensor R) -> A -> tensor R) (l : list A) :
    (forall acc a, P (kf a) (vf acc a)) ->
    forall acc, (forall k v, In (k, v) acc -> P k v) ->
    forall k v, In (k, v) (fold_left (fun acc a => dset keq (kf a) (vf acc a) acc) l acc) -> P k v.
  Proof.
    intros Hstep. induction l as [|a l IH]; intros acc Hacc k v Hin; cbn [fold_left] in Hin; [apply Hacc; exact Hin|].
    apply (IH (dset keq (kf a) (vf acc a) acc)); [|exact Hin].
    intros k' v' Hin'. apply In_dset in Hin'. destruct Hin' as [H|[-> ->]]; [apply Hacc; exact H|apply Hstep].
  Qed.

  Lemma wf_index_cm ix : wf_index G ix = true -> cm_ok G (chargemap G ix) = true.
  Proof. destruct ix as [cm d sub]. cbn [wf_index chargemap]. intros H. apply andb_true_iff in H. apply H. Qed.

  Lemma sign_rel c gd d : V c -> sign G (sign G c (negb (Bool.eqb gd d))) gd = sign G c (xorb false d).
  Proof.
    intros Hc. destruct gd, d; cbn [Bool.eqb negb xorb]; rewrite ?(sign_false G HG); try reflexivity.
    apply (sign_sign G HG). exact Hc.
  Qed.

  Theorem fuse_single_group_wf (HO : OrderLaws G) (x : arr) (g : list nat) :
    wf_array G R x = true -> NoDup g -> Forall (fun ax => ax < ndim G R x) g -> 2 <= length g ->
    wf_array G R (fuse_core G R x [g]) = true.
  Proof.
    intros Hwf Hnd Hrng Hlen.
    destruct (stmt_layout G R HG HO x g Hwf Hnd Hrng Hlen) as (L1 & L2 & L3 & _).
    pose proof Hwf as Hw. apply wf_array_iff in Hw. destruct Hw as [H1 H2 H3 H4].
    unfold ndim in Hrng.
    set (ixs := indices G R x) in *. set (n := length ixs) in *.
    assert (Hne : g <> []) by (intros ->; cbn [length] in Hlen; lia).
    assert (Hsing : is_singlet g = false) by (unfold is_singlet; apply Nat.eqb_neq; lia).
    assert (Hperm : Permutation (fuse_perm n [g]) (seq 0 n)).
    { pose proof (perm_is_perm n g Hnd Hrng Hne) as Hp. unfold FuseTensor.is_perm in Hp.
      rewrite (perm_length n g Hnd Hrng Hne) in Hp. exact Hp. }
    rewrite (perm_eq n g) in Hperm.
    set (before := axes_before n [g]) in *. set (after := axes_after n [g]) in *.
    assert (Hb_lt : forall i, In i before -> i < n).
    { intros i Hi. apply (perm_seq_lt _ _ Hperm). apply in_or_app. left. exact Hi. }
    assert (Ha_lt : forall i, In i after -> i < n).
    { intros i Hi. apply (perm_seq_lt _ _ Hperm). apply in_or_app. right. apply in_or_app. right. exact Hi. }
    assert (Hg_lt : forall i, In i g -> i < n) by (apply Forall_forall; exact Hrng).
    set (secs := sectors G R x) in *.
    set (fi := fused_index G ixs secs g).
    assert (Hsecs : forall s, In s secs -> SecOK ixs (charge G R x) s).
    { intros s Hs. unfold secs, sectors in Hs. apply in_map_iff in Hs. destruct Hs as ([s0 t0] & <- & Hin).
      apply (H4 _ _ Hin). }
    assert (Hsit : secs_in_tables G ixs secs g).
    { intros s Hs ax Hax. destruct (Hsecs s Hs) as (_ & Hm & _). apply (mem_ceqb_In G HG). apply Hm. apply Hg_lt. exact Hax. }
    assert (Hfi : wf_index G fi = true) by (apply (stmt_wf2 G HG HO); assumption).
    assert (Hnix : indices G R (fuse_core G R x [g]) =
                   take_axes dix ixs before ++ [fi] ++ take_axes dix ixs after) by reflexivity.
    apply wf_array_iff. rewrite Hnix. change (charge G R (fuse_core G R x [g])) with (charge G R x).
    constructor.
    - unfold IxsOK. apply Forall_app. split; [|apply Forall_app; split].
      + apply Forall_forall. intros ix Hin. apply in_map_iff in Hin. destruct Hin as (i & <- & Hi).
        unfold IxsOK in H1. rewrite Forall_forall in H1. apply H1. apply nth_In. apply Hb_lt. exact Hi.
      + constructor; [exact Hfi|constructor].
      + apply Forall_forall. intros ix Hin. apply in_map_iff in Hin. destruct Hin as (i & <- & Hi).
        unfold IxsOK in H1. rewrite Forall_forall in H1. apply H1. apply nth_In. apply Ha_lt. exact Hi.
    - exact H2.
    - exact L1.
    - intros k T Hin.
      assert (Hlk : lookup keq k (blocks G R (fuse_core G R x [g])) = Some T).
      { apply (OrderProofs.In_lookup keq keqE); [exact L1|exact Hin]. }
      assert (Hk : In k (sectors G R (fuse_core G R x [g]))).
      { unfold sectors. apply in_map_iff. exists (k, T). split; [reflexivity|exact Hin]. }
      apply L2 in Hk. destruct Hk as (s & Hs & Hk).
      split; [|split].
      + (* the fused sector conserves the charge over the fused tables *)
        pose proof (Hsecs s Hs) as Hok. pose proof (SecOK_valid _ _ _ H1 Hok) as Hv.
        pose proof (SecOK_Tab _ _ _ Hok) as Ht. destruct Hok as (Hl & Hm & Hc).
        assert (Hfs : k = take_axes e s before ++ [group_charge G ixs s g] ++ take_axes e s after).
        { rewrite <- Hk. reflexivity. }
        rewrite Hfs. apply SecOK_of.
        * apply TabOK_app; [apply TabOK_take; assumption|]. apply TabOK_app; [|apply TabOK_take; assumption].
          split; [reflexivity|]. intros i Hi. cbn [length] in Hi. assert (i = 0) by lia. subst i. cbn [nth].
          destruct (stmt_A3_complete G HG HO ixs secs g Hsit Hsing s Hs) as (_ & _ & _ & _ & Hin' & _).
          unfold group_charge. rewrite Hsing. exact Hin'.
        * set (ds := map (idual G) ixs).
          assert (Hds : map (idual G) (take_axes dix ixs before ++ [fi] ++ take_axes dix ixs after) =
                        take_axes false ds before ++ [nth (hd 0 g) ds false] ++ take_axes false ds after).
          { rewrite !map_app, !take_map. cbn [map]. unfold fi. rewrite stmt_A4. unfold ds. rewrite nth_duals. reflexivity. }
          rewrite Hds.
          rewrite (signed_sector_app G) by (rewrite !length_take_axes; reflexivity).
          rewrite (signed_sector_app G false [group_charge G ixs s g]) by reflexivity.
          rewrite !signed_take.
          change (signed_sector G false [group_charge G ixs s g] [nth (hd 0 g) ds false])
            with [sign G (group_charge G ixs s g) (xorb false (nth (hd 0 g) ds false))].
          rewrite xorb_false_l.
          assert (HX : sign G (group_charge G ixs s g) (nth (hd 0 g) ds false) = combine G (map (sgn false s ds) g)).
          { unfold group_charge. rewrite Hsing. unfold group_dual.
            rewrite (sign_combine G HG).
            - rewrite map_map. f_equal. apply map_ext_in. intros ax Hax. unfold sgn, ds. rewrite !nth_duals.
              apply sign_rel. apply (proj1 (valid_all_In G HG s) Hv). apply nth_In. rewrite Hl. apply Hg_lt. exact Hax.
            - apply (valid_all_In G HG). intros c0 Hc0. apply in_map_iff in Hc0. destruct Hc0 as (ax & <- & Hax).
              apply (sign_valid G HG). apply (proj1 (valid_all_In G HG s) Hv). apply nth_In. rewrite Hl. apply Hg_lt. exact Hax. }
          rewrite HX.
          set (B := map (sgn false s ds) before). set (A := map (sgn false s ds) after).
          set (M := map (sgn false s ds) g).
          assert (VB : VA B) by (apply map_sgn_valid; exact Hv).
          assert (VAA : VA A) by (apply map_sgn_valid; exact Hv).
          assert (VM : VA M) by (apply map_sgn_valid; exact Hv).
          rewrite <- Hc. fold ds.
          rewrite (combine_signed_perm false s ds (before ++ g ++ after)); [|unfold ds; rewrite map_length; exact Hl|rewrite Hl; exact Hperm].
          rewrite !map_app. fold B A M.
          assert (VMA : VA (M ++ A)) by (apply (valid_all_app_iff G HG); split; assumption).
          rewrite (combine_app_gadd G HG B (M ++ A)) by assumption.
          rewrite (combine_app_gadd G HG M A) by assumption.
          rewrite (combine_app_gadd G HG B ([combine G M] ++ A)); [|exact VB|].
          -- f_equal. cbn [app]. apply (combine_cons G HG); [apply (combine_valid G HG); exact VM|exact VAA].
          -- cbn [app]. apply (valid_all_cons_iff G HG). split; [apply (combine_valid G HG); exact VM|exact VAA].
      + rewrite <- Hnix. apply (L3 k T Hlk).
      + clear -Hin HG. unfold fuse_core in Hin. cbv zeta in Hin. cbn [blocks] in Hin.
        revert Hin.
        apply (fold_dset_inv (fun _ v => length (tdata v) = shape_size (tshape v))
                 (fun sb => fused_sector G (indices G R x) [g] (fst sb))
                 (fun acc sb => tassign R
                    (match lookup keq (fused_sector G (indices G R x) [g] (fst sb)) acc with
                     | Some t => t
                     | None => tzeros R (block_shape G (fused_indices G (indices G R x) (sectors G R x) [g])
                                           (fused_sector G (indices G R x) [g] (fst sb)))
                     end)
                    (fuse_selector G (indices G R x) (fused_indices G (indices G R x) (sectors G R x) [g]) [g] (fst sb))
                    (treshape R (ttranspose R (snd sb) (fuse_perm (length (indices G R x)) [g]))
                       (fused_block_shape G (indices G R x) [g] (fst sb))))).
        * intros acc a. unfold tassign. apply (build_len R).
        * intros k0 v0 [].
  Qed.

  Theorem fuse_one_group_wf (HO : OrderLaws G) (x : arr) (g : list nat) :
    wf_array G R x = true -> NoDup g -> Forall (fun ax => ax < ndim G R x) g -> 2 <= length g ->
    wf_array G R (a_fuse G R x [g]) = true.
  Proof.
    intros Hwf Hnd Hrng Hlen. rewrite a_fuse_single by (intros ->; cbn [length] in Hlen; lia).
    apply (fuse_single_group_wf HO); assumption.
  Qed.

  (* ---------------------------------------------------------------- *)
  (* §8 programs over a register file *)

  Lemma pair_eqb_eq {A B} (ea : A -> A -> bool) (eb : B -> B -> bool) :
    (forall a b, ea a b = true <-> a = b) -> (forall a b, eb a b = true <-> a = b) ->
    forall x y : A * B, pair_eqb ea eb x y = true <-> x = y.
  Proof.
    intros Ha Hb [a1 b1] [a2 b2]. unfold pair_eqb. cbn [fst snd]. rewrite andb_true_iff, Ha, Hb.
    split; [intros [-> ->]; reflexivity|intros H; inversion H; split; reflexivity].
  Qed.

  Lemma index_eqb_eq : forall a b : index G, index_eqb G a b = true -> a = b.
  Proof.
    fix IH 1. intros [cm1 d1 s1] [cm2 d2 s2]. cbn [index_eqb]. rewrite !andb_true_iff. intros [[Hcm Hd] Hs].
    apply (list_eqb_eq _ (pair_eqb_eq _ _ (ceqb_eq G HG) nat_eqb_iff)) in Hcm. apply eqb_prop in Hd. subst cm2 d2.
    destruct s1 as [[l1 e1]|], s2 as [[l2 e2]|]; try discriminate Hs; [|reflexivity].
    apply andb_true_iff in Hs. destruct Hs as [Hl He].
    unfold ext_eqb in He.
    apply (list_eqb_eq _ (pair_eqb_eq _ _ (ceqb_eq G HG)
             (list_eqb_eq _ (pair_eqb_eq _ _ keqE nat_eqb_iff)))) in He. subst e2.
    assert (E : l1 = l2).
    { revert l2 Hl. induction l1 as [|x l1 IHl]; intros [|y l2] Hl; try discriminate Hl; [reflexivity|].
      apply andb_true_iff in Hl. destruct Hl as [H1 H2]. f_equal; [apply IH; exact H1|apply IHl; exact H2]. }
    subst l2. reflexivity.
  Qed.

  Lemma indices_eqb_eq (l1 l2 : list (index G)) : list_eqb (index_eqb G) l1 l2 = true -> l1 = l2.
  Proof.
    revert l2. induction l1 as [|x l1 IH]; intros [|y l2] H; try discriminate H; [reflexivity|].
    cbn [list_eqb] in H. apply andb_true_iff in H. destruct H as [H1 H2].
    f_equal; [apply index_eqb_eq; exact H1|apply IH; exact H2].
  Qed.

  (* executable side conditions = the cases in which the operation raises *)
  Definition is_permb (axes : list nat) (n : nat) : bool :=
    list_eqb Nat.eqb (isort Nat.ltb axes) (seq 0 n).

  Lemma is_permb_spec axes n : is_permb axes n = true -> Permutation axes (seq 0 n).
  Proof.
    unfold is_permb. intros H. apply (list_eqb_eq Nat.eqb nat_eqb_iff) in H. rewrite <- H.
    apply Permutation_sym. apply isort_perm.
  Qed.

  Definition same_space (x y : arr) : bool :=
    list_eqb (index_eqb G) (indices G R x) (indices G R y) && ceqb G (charge G R x) (charge G R y).

  Definition contract_ok (a b : arr) (aa ab : list nat) : bool :=
    axes_ok (ndim G R a) aa && axes_ok (ndim G R b) ab && Nat.eqb (length aa) (length ab) &&
    forallb (fun p => Bool.eqb (idual G (nth (fst p) (indices G R a) dix))
                               (negb (idual G (nth (snd p) (indices G R b) dix)))) (List.combine aa ab).

  Inductive instr : Type :=
  | ITranspose (r : nat) (axes : list nat)
  | IConj (r : nat)
  | IDagger (r : nat)
  | IScale (r : nat) (c : RT R)
  | INeg (r : nat)
  | IAdd (r1 r2 : nat)
  | ISub (r1 r2 : nat)
  | IMul (r1 r2 : nat)
  | IMulDiag (r : nat) (v : bvec G R) (axis : nat)
  | ISync (r : nat)
  | ITdot (r1 r2 : nat) (aa ab : list nat)         (* tensordot, blockwise mode, normalised axes *)
  | IDropMis (r1 r2 : nat) (aa ab : list nat)      (* drop_misaligned_sectors: two results *)
  | IExpand (r : nat) (axis : nat)
  | ISqueeze (r : nat) (axes : option (list nat))
  | IFuse1 (r : nat) (g : list nat)                 (* fuse one group of >= 2 axes *)
  (* fermionic register file *)
  | FFlip (r : nat) (axs : list nat)
  | FPhaseTranspose (r : nat) (perm : option (list nat))
  | FGlobal (r : nat)
  | FSector (r : nat) (s : sector)
  | FSync (r : nat)
  | FTranspose (r : nat) (axes : list nat) (phase : bool)
  | FConj (r : nat) (pp pd : bool)
  | FDagger (r : nat) (pd : bool).

  Definition regfile := (list arr * list farr)%type.
  Definition outA (o : option arr) : option regfile := match o with Some y => Some ([y], []) | None => None end.
  Definition outF (o : option farr) : option regfile := match o with Some y => Some ([], [y]) | None => None end.
  Definition guard {A} (b : bool) (y : A) : option A := if b then Some y else None.

  Definition on1 (rs : list arr) (r : nat) (f : arr -> option regfile) : option regfile :=
    match nth_error rs r with Some x => f x | None => None end.
  Definition on2 (rs : list arr) (r1 r2 : nat) (f : arr -> arr -> option regfile) : option regfile :=
    match nth_error rs r1, nth_error rs r2 with Some x, Some y => f x y | _, _ => None end.
  Definition onF (rs : list farr) (r : nat) (f : farr -> option regfile) : option regfile :=
    match nth_error rs r with Some x => f x | None => None end.

  (* the values an instruction produces; None = the operation raises *)
  Definition results (st : regfile) (i : instr) : option regfile :=
    let '(ra, rf) := st in
    match i with
    | ITranspose r axes => on1 ra r (fun x => outA (guard (is_permb axes (ndim G R x)) (a_transpose G R x axes)))
    | IConj r => on1 ra r (fun x => outA (Some (a_conj G R x)))
    | IDagger r => on1 ra r (fun x => outA (Some (a_dagger G R x)))
    | IScale r c => on1 ra r (fun x => outA (Some (a_scale G R x c)))
    | INeg r => on1 ra r (fun x => outA (Some (a_neg G R x)))
    | IAdd r1 r2 => on2 ra r1 r2 (fun x y => outA (guard (same_space x y) (a_add G R x y)))
    | ISub r1 r2 => on2 ra r1 r2 (fun x y => outA (a_sub G R x y))
    | IMul r1 r2 => on2 ra r1 r2 (fun x y => outA (Some (a_mul G R x y)))
    | IMulDiag r v axis => on1 ra r (fun x => outA (Some (a_multiply_diagonal G R x v axis)))
    | ISync r => on1 ra r (fun x => outA (Some (a_sync_charges G R x)))
    | ITdot r1 r2 aa ab => on2 ra r1 r2 (fun x y =>
        outA (guard (contract_ok x y aa ab)
                (tdot_blockwise G R x y (rest_axes (ndim G R x) aa) aa ab (rest_axes (ndim G R y) ab))))
    | IDropMis r1 r2 aa ab => on2 ra r1 r2 (fun x y =>
        let p := drop_misaligned G R x y aa ab in Some ([fst p; snd p], []))
    | IExpand r axis => on1 ra r (fun x => outA (Some (a_expand_dims G R x axis)))
    | ISqueeze r axes => on1 ra r (fun x => outA (a_squeeze G R x axes))
    | IFuse1 r g => on1 ra r (fun x =>
        outA (guard (axes_ok (ndim G R x) g && Nat.leb 2 (length g)) (a_fuse G R x [g])))
    | FFlip r axs => onF rf r (fun x => outF (Some (f_phase_flip G R x axs)))
    | FPhaseTranspose r perm => onF rf r (fun x => outF (Some (f_phase_transpose G R x perm)))
    | FGlobal r => onF rf r (fun x => outF (Some (f_phase_global G R x)))
    | FSector r s => onF rf r (fun x =>
        outF (guard (sector_ok G (indices G R (fbase G R x)) (charge G R (fbase G R x)) s) (f_phase_sector G R x s)))
    | FSync r => onF rf r (fun x => outF (Some (f_phase_sync G R x)))
    | FTranspose r axes phase => onF rf r (fun x =>
        outF (guard (is_permb axes (ndim G R (fbase G R x))) (f_transpose G R x axes phase)))
    | FConj r pp pd => onF rf r (fun x => outF (Some (f_conj G R x pp pd)))
    | FDagger r pd => onF rf r (fun x => outF (Some (f_dagger G R x pd)))
    end.

  Definition step (st : regfile) (i : instr) : option regfile :=
    match results st i with
    | Some (ya, yf) => Some (fst st ++ ya, snd st ++ yf)
    | None => None
    end.

  Fixpoint run (prog : list instr) (st : regfile) : option regfile :=
    match prog with
    | [] => Some st
    | i :: prog' => match step st i with Some st' => run prog' st' | None => None end
    end.

  Definition wf_regs (st : regfile) : Prop :=
    Forall (fun x => wf_array G R x = true) (fst st) /\ Forall (fun x => wf_fermi x = true) (snd st).

  Lemma outA_wf o st : (forall y, o = Some y -> wf_array G R y = true) -> outA o = Some st -> wf_regs st.
  Proof.
    intros H E. destruct o as [y|]; [|discriminate E]. inversion E; subst st. split; cbn [fst snd]; [|constructor].
    constructor; [apply H; reflexivity|constructor].
  Qed.

  Lemma outF_wf o st : (forall y, o = Some y -> wf_fermi y = true) -> outF o = Some st -> wf_regs st.
  Proof.
    intros H E. destruct o as [y|]; [|discriminate E]. inversion E; subst st. split; cbn [fst snd]; [constructor|].
    constructor; [apply H; reflexivity|constructor].
  Qed.

  Lemma guard_some {A} b (y z : A) : guard b y = Some z -> b = true /\ z = y.
  Proof. unfold guard. destruct b; intros H; inversion H; split; reflexivity. Qed.

  Lemma contract_ok_spec a b aa ab : contract_ok a b aa ab = true ->
    NoDup aa /\ (forall i, In i aa -> i < ndim G R a) /\ NoDup ab /\ (forall i, In i ab -> i < ndim G R b) /\
    length aa = length ab /\
    (forall k, k < length aa ->
       idual G (nth (nth k aa 0) (indices G R a) dix) = negb (idual G (nth (nth k ab 0) (indices G R b) dix))).
  Proof.
    unfold contract_ok. rewrite !andb_true_iff. intros [[[H1 H2] H3] H4].
    apply axes_ok_spec in H1. apply axes_ok_spec in H2. apply Nat.eqb_eq in H3.
    destruct H1 as [H1 H1']. destruct H2 as [H2 H2']. repeat split; try assumption.
    intros k Hk.
    apply (proj1 (StructProofs.forallb_combine_nth _ 0 0 aa ab H3)) with (i := k) in H4; [|exact Hk].
    cbn [fst snd] in H4. apply eqb_prop in H4. exact H4.
  Qed.

  Theorem results_wf (HO : OrderLaws G) st i ys : wf_regs st -> results st i = Some ys -> wf_regs ys.
  Proof.
    destruct st as [ra rf]. intros [Ha Hf]. cbn [fst snd] in Ha, Hf.
    assert (GA : forall r x, nth_error ra r = Some x -> wf_array G R x = true).
    { intros r x E. rewrite Forall_forall in Ha. apply Ha. apply (nth_error_In _ _ E). }
    assert (GF : forall r x, nth_error rf r = Some x -> wf_fermi x = true).
    { intros r x E. rewrite Forall_forall in Hf. apply Hf. apply (nth_error_In _ _ E). }
    destruct i; cbn [results]; unfold on1, on2, onF.
    - destruct (nth_error ra r) as [x|] eqn:E; [|discriminate]. apply outA_wf.
      intros y Hy. apply guard_some in Hy. destruct Hy as [Hp ->]. apply transpose_wf; [apply (GA _ _ E)|].
      apply is_permb_spec. exact Hp.
    - destruct (nth_error ra r) as [x|] eqn:E; [|discriminate]. apply outA_wf.
      intros y Hy. inversion Hy; subst y. apply conj_wf. apply (GA _ _ E).
    - destruct (nth_error ra r) as [x|] eqn:E; [|discriminate]. apply outA_wf.
      intros y Hy. inversion Hy; subst y. apply dagger_wf. apply (GA _ _ E).
    - destruct (nth_error ra r) as [x|] eqn:E; [|discriminate]. apply outA_wf.
      intros y Hy. inversion Hy; subst y. apply scale_wf. apply (GA _ _ E).
    - destruct (nth_error ra r) as [x|] eqn:E; [|discriminate]. apply outA_wf.
      intros y Hy. inversion Hy; subst y. apply neg_wf. apply (GA _ _ E).
    - destruct (nth_error ra r1) as [x|] eqn:E1; [|discriminate].
      destruct (nth_error ra r2) as [y|] eqn:E2; [|discriminate]. apply outA_wf.
      intros z Hz. apply guard_some in Hz. destruct Hz as [Hs ->]. unfold same_space in Hs.
      apply andb_true_iff in Hs. destruct Hs as [Hs1 Hs2].
      apply add_wf; [apply (GA _ _ E1)|apply (GA _ _ E2)|apply indices_eqb_eq; exact Hs1|apply (ceqb_eq G HG); exact Hs2].
    - destruct (nth_error ra r1) as [x|] eqn:E1; [|discriminate].
      destruct (nth_error ra r2) as [y|] eqn:E2; [|discriminate]. apply outA_wf.
      intros z Hz. apply (sub_wf x y z); [apply (GA _ _ E1)|exact Hz].
    - destruct (nth_error ra r1) as [x|] eqn:E1; [|discriminate].
      destruct (nth_error ra r2) as [y|] eqn:E2; [|discriminate]. apply outA_wf.
      intros z Hz. inversion Hz; subst z. apply mul_wf. apply (GA _ _ E1).
    - destruct (nth_error ra r) as [x|] eqn:E; [|discriminate]. apply outA_wf.
      intros y Hy. inversion Hy; subst y. apply multiply_diagonal_wf. apply (GA _ _ E).
    - destruct (nth_error ra r) as [x|] eqn:E; [|discriminate]. apply outA_wf.
      intros y Hy. inversion Hy; subst y. apply (sync_charges_wf HO). apply (GA _ _ E).
    - destruct (nth_error ra r1) as [x|] eqn:E1; [|discriminate].
      destruct (nth_error ra r2) as [y|] eqn:E2; [|discriminate]. apply outA_wf.
      intros z Hz. apply guard_some in Hz. destruct Hz as [Hc ->].
      destruct (contract_ok_spec _ _ _ _ Hc) as (C1 & C2 & C3 & C4 & C5 & C6).
      apply (tdot_blockwise_wf HO); try assumption; [apply (GA _ _ E1)|apply (GA _ _ E2)].
    - destruct (nth_error ra r1) as [x|] eqn:E1; [|discriminate].
      destruct (nth_error ra r2) as [y|] eqn:E2; [|discriminate]. cbv zeta. intros Hz. inversion Hz; subst ys.
      destruct (drop_misaligned_wf HO x y aa ab (GA _ _ E1) (GA _ _ E2)) as [W1 W2].
      split; cbn [fst snd]; [|constructor]. constructor; [exact W1|]. constructor; [exact W2|constructor].
    - destruct (nth_error ra r) as [x|] eqn:E; [|discriminate]. apply outA_wf.
      intros y Hy. inversion Hy; subst y. apply expand_dims_wf. apply (GA _ _ E).
    - destruct (nth_error ra r) as [x|] eqn:E; [|discriminate]. apply outA_wf.
      intros y Hy. apply (squeeze_wf x y axes); [apply (GA _ _ E)|exact Hy].
    - destruct (nth_error ra r) as [x|] eqn:E; [|discriminate]. apply outA_wf.
      intros y Hy. apply guard_some in Hy. destruct Hy as [Hg ->]. apply andb_true_iff in Hg.
      destruct Hg as [Hg1 Hg2]. apply axes_ok_spec in Hg1. destruct Hg1 as [Hnd Hlt]. apply Nat.leb_le in Hg2.
      apply (fuse_one_group_wf HO); [apply (GA _ _ E)|exact Hnd|apply Forall_forall; exact Hlt|exact Hg2].
    - destruct (nth_error rf r) as [x|] eqn:E; [|discriminate]. apply outF_wf.
      intros y Hy. inversion Hy; subst y. apply f_phase_flip_wf. apply (GF _ _ E).
    - destruct (nth_error rf r) as [x|] eqn:E; [|discriminate]. apply outF_wf.
      intros y Hy. inversion Hy; subst y. apply f_phase_transpose_wf. apply (GF _ _ E).
    - destruct (nth_error rf r) as [x|] eqn:E; [|discriminate]. apply outF_wf.
      intros y Hy. inversion Hy; subst y. apply f_phase_global_wf. apply (GF _ _ E).
    - destruct (nth_error rf r) as [x|] eqn:E; [|discriminate]. apply outF_wf.
      intros y Hy. apply guard_some in Hy. destruct Hy as [Hs ->]. apply f_phase_sector_wf; [apply (GF _ _ E)|exact Hs].
    - destruct (nth_error rf r) as [x|] eqn:E; [|discriminate]. apply outF_wf.
      intros y Hy. inversion Hy; subst y. apply f_phase_sync_wf. apply (GF _ _ E).
    - destruct (nth_error rf r) as [x|] eqn:E; [|discriminate]. apply outF_wf.
      intros y Hy. apply guard_some in Hy. destruct Hy as [Hp ->].
      apply f_transpose_wf; [apply (GF _ _ E)|apply is_permb_spec; exact Hp].
    - destruct (nth_error rf r) as [x|] eqn:E; [|discriminate]. apply outF_wf.
      intros y Hy. inversion Hy; subst y. apply f_conj_wf. apply (GF _ _ E).
    - destruct (nth_error rf r) as [x|] eqn:E; [|discriminate]. apply outF_wf.
      intros y Hy. inversion Hy; subst y. apply f_dagger_wf. apply (GF _ _ E).
  Qed.

  Theorem step_wf (HO : OrderLaws G) st i st' : wf_regs st -> step st i = Some st' -> wf_regs st'.
  Proof.
    intros Hw Hs. unfold step in Hs. destruct (results st i) as [[ya yf]|] eqn:E; [|discriminate Hs].
    inversion Hs; subst st'. destruct (results_wf HO st i _ Hw E) as [Wa Wf]. destruct Hw as [Ha Hf].
    split; cbn [fst snd] in *; apply Forall_app; split; assumption.
  Qed.

  (* for every finite program over the instruction set: all registers valid
     before => all registers valid after *)
  Theorem programs_wf (HO : OrderLaws G) (prog : list instr) : forall st st',
    wf_regs st -> run prog st = Some st' -> wf_regs st'.
  Proof.
    induction prog as [|i prog IH]; intros st st' Hw Hr; cbn [run] in Hr.
    - inversion Hr; subst st'. exact Hw.
    - destruct (step st i) as [st1|] eqn:E; [|discriminate Hr].
      apply (IH st1 st'); [apply (step_wf HO st i st1 Hw E)|exact Hr].
  Qed.

  (* ---------------------------------------------------------------- *)
  (* §9 the invariant implies the predicate the correspondence run evaluates
     (Model/Valid.v: `valid_array` / `valid_farray`, the validity of C01
     exactly as the property words it; `wf_array` additionally keeps the
     sub-sectors of a fused charge sorted) *)

  Lemma extent_ok_valid (HO : OrderLaws G) f d subs c sz ex :
    extent_ok G f d subs c sz ex = true -> extent_valid G d subs c sz ex = true.
  Proof.
    unfold extent_ok, extent_valid. rewrite !andb_true_iff. intros [[Ha Hb] Hc]. repeat split; try assumption.
    apply (OrderProofs.nodupb_NoDup keq keqE).
    apply (SS_NoDup (list_ltb (cltb G) (ceqb G))).
    - apply list_ltb_strict_total; [exact HO|exact (ceqb_spec G HG)].
    - apply SS_of_sorted_by; [apply list_ltb_strict_total; [exact HO|exact (ceqb_spec G HG)]|exact Hb].
  Qed.

  Lemma wf_valid_index (HO : OrderLaws G) : forall ix, wf_index G ix = true -> valid_index G ix = true.
  Proof.
    fix IH 1. intros [cm d [[subs ext]|]]; [|intros H; exact H].
    rewrite wf_index_unfold.
    change (valid_index G (Index G cm d (Some (subs, ext)))) with
      (cm_ok G cm &&
       (negb (is_nil subs) &&
        Bool.eqb d (match subs with s0 :: _ => idual G s0 | [] => d end) &&
        forallb (valid_index G) subs &&
        nodupb (ceqb G) (map fst ext) &&
        Nat.eqb (length ext) (length cm) &&
        forallb (fun p => match lookup (ceqb G) (fst p) ext with
                          | Some ex => extent_valid G d subs (fst p) (snd p) ex
                          | None => false end) cm)).
    rewrite !andb_true_iff. intros (Hcm & ((((Hn & Hd) & Hall) & Hnd) & Hlen) & Hext).
    split; [exact Hcm|]. repeat split; try assumption.
    - clear -Hall IH. induction subs as [|s subs' IHs]; cbn [forallb]; [reflexivity|].
      cbn [forallb] in Hall. apply andb_true_iff in Hall. destruct Hall as [Hs Hall].
      apply andb_true_iff. split; [apply IH; exact Hs|apply IHs; exact Hall].
    - rewrite forallb_forall in Hext. apply forallb_forall. intros p Hp. specialize (Hext p Hp).
      destruct (lookup (ceqb G) (fst p) ext) as [ex|]; [|discriminate Hext].
      apply (extent_ok_valid HO _ _ _ _ _ _ Hext).
  Qed.

  Theorem wf_valid_array (HO : OrderLaws G) (x : arr) : wf_array G R x = true -> valid_array G R x = true.
  Proof.
    unfold wf_array, valid_array. rewrite !andb_true_iff. intros [[[H1 H2] H3] H4]. repeat split; try assumption.
    rewrite forallb_forall in H1. apply forallb_forall. intros ix Hix. apply (wf_valid_index HO). apply H1. exact Hix.
  Qed.

  Theorem wf_valid_farray (HO : OrderLaws G) (x : farr) :
    wf_fermi x = true -> valid_farray G R x (fphases G R x) = true.
  Proof.
    unfold wf_fermi, valid_farray. rewrite !andb_true_iff. intros [[H1 [H2 H3]] H4].
    repeat split; try assumption; [apply (wf_valid_array HO); exact H1|].
    rewrite forallb_forall in H3. apply forallb_forall. intros s Hs. specialize (H3 s Hs).
    unfold sector_ok in H3. apply andb3 in H3. destruct H3 as (Ha & _ & Hc). rewrite Ha, Hc. reflexivity.
  Qed.

  Definition valid_regs (st : regfile) : Prop :=
    Forall (fun x => valid_array G R x = true) (fst st) /\
    Forall (fun x => valid_farray G R x (fphases G R x) = true) (snd st).

  (* every register after every finite program passes the audited predicate *)
  Theorem programs_valid (HO : OrderLaws G) (prog : list instr) (st st' : regfile) :
    wf_regs st -> run prog st = Some st' -> valid_regs st'.
  Proof.
    intros Hw Hr. destruct (programs_wf HO prog st st' Hw Hr) as [Ha Hf]. split.
    - eapply Forall_impl; [|exact Ha]. intros x. apply (wf_valid_array HO).
    - eapply Forall_impl; [|exact Hf]. intros x. apply (wf_valid_farray HO).
  Qed.
End WfBasics.

(* ------------------------------------------------------------------ *)
(* Examples: the hypotheses hold on concrete non-trivial instances *)

Section Examples.
  Local Open Scope Z_scope.

  (* a U1 rank-3 array whose first index is a fused index (two sub-indices,
     extents table), with total charge 1 and the sector (2,0,-1) missing *)
  Definition exs1 : index U1 := Index U1 [(0, 1%nat); (1, 1%nat)] false None.
  Definition exs2 : index U1 := Index U1 [(0, 1%nat); (1, 2%nat)] false None.
  Definition exF : index U1 :=
    Index U1 [(0, 1%nat); (1, 3%nat); (2, 2%nat)] false
      (Some ([exs1; exs2],
             [(0, [([0; 0], 1%nat)]); (1, [([0; 1], 2%nat); ([1; 0], 1%nat)]); (2, [([1; 1], 2%nat)])])).
  Definition exA : index U1 := Index U1 [(0, 2%nat); (1, 1%nat)] true None.
  Definition exB : index U1 := Index U1 [(-1, 1%nat); (0, 1%nat); (1, 2%nat)] false None.
  Definition ex_u : aarray U1 ZRing := mkA U1 ZRing [exF; exA; exB] 1
    [([0; 0; 1], @mkT ZRing [1; 2; 2]%nat [1; 2; 3; 4]);
     ([1; 0; 0], @mkT ZRing [3; 2; 1]%nat [1; -1; 2; -2; 3; -3]);
     ([2; 1; 0], @mkT ZRing [2; 1; 1]%nat [5; 7]);
     ([1; 1; 1], @mkT ZRing [3; 1; 2]%nat [1; 0; 0; 1; 2; 2])].

  Example ex_u_wf : wf_array U1 ZRing ex_u = true.
  Proof. vm_compute. reflexivity. Qed.

  (* the missing sector is a valid one: the array is genuinely block sparse *)
  Example ex_u_missing :
    sector_ok U1 (indices U1 ZRing ex_u) (charge U1 ZRing ex_u) [2; 0; -1] = true /\
    mem (list_eqb Z.eqb) [2; 0; -1] (sectors U1 ZRing ex_u) = false.
  Proof. vm_compute. split; reflexivity. Qed.

  Example transpose_wf_hyps : Permutation [2; 0; 1]%nat (seq 0 (ndim U1 ZRing ex_u)).
  Proof. apply (is_permb_spec [2; 0; 1]%nat 3). vm_compute. reflexivity. Qed.

  Example transpose_wf_inst : wf_array U1 ZRing (a_transpose U1 ZRing ex_u [2; 0; 1]%nat) = true.
  Proof. apply (transpose_wf U1 U1_laws ZRing); [exact ex_u_wf|exact transpose_wf_hyps]. Qed.

  Example dagger_wf_inst : wf_array U1 ZRing (a_dagger U1 ZRing ex_u) = true.
  Proof. apply (dagger_wf U1 U1_laws ZRing). exact ex_u_wf. Qed.

  (* contraction of ex_u with its conjugate over the last two legs *)
  Example tdot_wf_hyps :
    contract_ok U1 ZRing ex_u (a_conj U1 ZRing ex_u) [1; 2]%nat [1; 2]%nat = true.
  Proof. vm_compute. reflexivity. Qed.

  Example tdot_wf_inst :
    wf_array U1 ZRing (tdot_blockwise U1 ZRing ex_u (a_conj U1 ZRing ex_u)
                         (rest_axes 3 [1; 2]%nat) [1; 2]%nat [1; 2]%nat (rest_axes 3 [1; 2]%nat)) = true.
  Proof.
    destruct (contract_ok_spec U1 ZRing _ _ _ _ tdot_wf_hyps) as (C1 & C2 & C3 & C4 & C5 & C6).
    apply (tdot_blockwise_wf U1 U1_laws ZRing U1_order ex_u (a_conj U1 ZRing ex_u)); try assumption.
    - exact ex_u_wf.
    - apply (conj_wf U1 U1_laws ZRing). exact ex_u_wf.
  Qed.

  (* fusing the last two legs (one dual, one not) of the array whose first leg is already fused *)
  Example fuse_wf_hyps :
    NoDup [1; 2]%nat /\ Forall (fun ax => (ax < ndim U1 ZRing ex_u)%nat) [1; 2]%nat /\ (2 <= length [1; 2]%nat)%nat.
  Proof. split; [repeat constructor; cbn; intuition lia|]. split; [repeat constructor|cbn; lia]. Qed.

  Example fuse_wf_inst : wf_array U1 ZRing (fuse_core U1 ZRing ex_u [[1; 2]%nat]) = true.
  Proof.
    destruct fuse_wf_hyps as (F1 & F2 & F3).
    apply (fuse_single_group_wf U1 U1_laws ZRing U1_order); [exact ex_u_wf|exact F1|exact F2|exact F3].
  Qed.

  (* a ten-instruction program on the register file [ex_u] *)
  Definition ex_prog : list (instr U1 ZRing) :=
    [IConj U1 ZRing 0; ITdot U1 ZRing 0 1 [1; 2]%nat [1; 2]%nat; IExpand U1 ZRing 2 1;
     ISqueeze U1 ZRing 3 None; IAdd U1 ZRing 2 4; ITranspose U1 ZRing 5 [1; 0]%nat; ISync U1 ZRing 6;
     IDropMis U1 ZRing 0 1 [0]%nat [0]%nat; IFuse1 U1 ZRing 0 [1; 2]%nat; IFuse1 U1 ZRing 10 [1; 0]%nat].

  Example ex_prog_runs :
    match run U1 ZRing ex_prog ([ex_u], []) with
    | Some st => Nat.eqb (length (fst st)) 12 && forallb (wf_array U1 ZRing) (fst st) &&
                 forallb (valid_array U1 ZRing) (fst st)
    | None => false
    end = true.
  Proof. vm_compute. reflexivity. Qed.

  (* fermionic: odd total charge, one label, one pending sign *)
  Definition ex_f : farray U1 ZRing := mkF U1 ZRing ex_u [[0; 0; 1]] [([7], false)].

  Example ex_f_wf : wf_fermi U1 ZRing ex_f = true.
  Proof. vm_compute. reflexivity. Qed.

  Definition ex_fprog : list (instr U1 ZRing) :=
    [FTranspose U1 ZRing 0 [2; 0; 1]%nat true; FConj U1 ZRing 1 true true; FDagger U1 ZRing 2 true;
     FSector U1 ZRing 0 [1; 0; 0]; FFlip U1 ZRing 4 [0; 2]%nat; FSync U1 ZRing 5; FGlobal U1 ZRing 3].

  Example ex_fprog_runs :
    match run U1 ZRing ex_fprog ([ex_u], [ex_f]) with
    | Some st => Nat.eqb (length (snd st)) 8 && forallb (wf_fermi U1 ZRing) (snd st) &&
                 negb (is_nil (fphases U1 ZRing (nth 3 (snd st) ex_f)))
    | None => false
    end = true.
  Proof. vm_compute. reflexivity. Qed.

  Example programs_wf_hyps : wf_regs U1 ZRing ([ex_u], [ex_f]).
  Proof.
    split; cbn [fst snd]; (constructor; [|constructor]); [exact ex_u_wf|exact ex_f_wf].
  Qed.

  Example programs_wf_inst st' :
    run U1 ZRing (ex_prog ++ ex_fprog) ([ex_u], [ex_f]) = Some st' -> wf_regs U1 ZRing st'.
  Proof. apply (programs_wf U1 U1_laws ZRing U1_order). exact programs_wf_hyps. Qed.

  Example programs_valid_inst st' :
    run U1 ZRing (ex_prog ++ ex_fprog) ([ex_u], [ex_f]) = Some st' -> valid_regs U1 ZRing st'.
  Proof. apply (programs_valid U1 U1_laws ZRing U1_order). exact programs_wf_hyps. Qed.

  Example programs_wf_inst_runs : is_none (run U1 ZRing (ex_prog ++ ex_fprog) ([ex_u], [ex_f])) = false.
  Proof. vm_compute. reflexivity. Qed.
End Examples.

(* ------------------------------------------------------------------ *)
(* the five built-in symmetries (generated definitions): nothing is assumed
   but validity of the initial registers *)
Theorem programs_wf_builtin (G : Symmetry) (R : Ring) (prog : list (instr G R)) (st st' : regfile G R) :
  builtin_sym G -> wf_regs G R st -> run G R prog st = Some st' -> wf_regs G R st'.
Proof.
  intros HB. destruct HB.
  - apply (programs_wf Z2 Z2_laws R Z2_order).
  - apply (programs_wf Z4 Z4_laws R Z4_order).
  - apply (programs_wf U1 U1_laws R U1_order).
  - apply (programs_wf Z2Z2 Z2Z2_laws R Z2Z2_order).
  - apply (programs_wf U1U1 U1U1_laws R U1U1_order).
Qed.

Theorem programs_valid_builtin (G : Symmetry) (R : Ring) (prog : list (instr G R)) (st st' : regfile G R) :
  builtin_sym G -> wf_regs G R st -> run G R prog st = Some st' -> valid_regs G R st'.
Proof.
  intros HB. destruct HB.
  - apply (programs_valid Z2 Z2_laws R Z2_order).
  - apply (programs_valid Z4 Z4_laws R Z4_order).
  - apply (programs_valid U1 U1_laws R U1_order).
  - apply (programs_valid Z2Z2 Z2Z2_laws R Z2Z2_order).
  - apply (programs_valid U1U1 U1U1_laws R U1U1_order).
Qed.
