(* Proofs/StructProofs.v — property C08: structural, elementwise and arithmetic
   operations of the block-sparse model commute with densification.

   `sem x cs` (Model/Wf.v) is the dense entry of `x` at the coordinate list
   `cs` (one (charge, offset) pair per axis; missing sectors read as zero).
   Every theorem has the shape
       op x = (Some) y  ->  sem y (image of cs) = dense_op (sem x) cs
   for every rank, every index table, every symmetry with the group laws and
   every ring satisfying the (explicitly listed) ring laws that the operation
   needs.  Nothing here is bounded. *)
From SV Require Import Base.Prelude Base.Sym Base.Tensor Model.Sectors Model.Array
  Model.Arith Model.Wf Model.SymInst Proofs.TensorProofs Proofs.SymLaws.
From Coq Require Import Permutation.
Local Open Scope nat_scope.

(* ------------------------------------------------------------------ *)
(* generic list facts *)

Lemma bool_eq_iff (a b : bool) : (a = true <-> b = true) -> a = b.
Proof.
  destruct a, b; intros [H1 H2]; try reflexivity.
  - symmetry. now apply H1.
  - now apply H2.
Qed.

Lemma list_eqb_eq {A} (e : A -> A -> bool) (He : forall a b, e a b = true <-> a = b) l1 l2 :
  list_eqb e l1 l2 = true <-> l1 = l2.
Proof.
  revert l2. induction l1 as [|x l1 IH]; intros [|y l2]; cbn [list_eqb]; try (split; discriminate).
  - split; reflexivity.
  - rewrite andb_true_iff, He, IH. split.
    + intros [-> ->]. reflexivity.
    + intros H. inversion H. auto.
Qed.

Lemma nat_eqb_iff a b : Nat.eqb a b = true <-> a = b.
Proof. apply Nat.eqb_eq. Qed.

Lemma map_nth_lt {A B} (f : A -> B) l d d' n : n < length l -> nth n (map f l) d' = f (nth n l d).
Proof.
  intros H. rewrite (nth_indep _ d' (f d)) by (now rewrite map_length). apply map_nth.
Qed.

Lemma map_nth_seq {A} (l : list A) d : map (fun j => nth j l d) (seq 0 (length l)) = l.
Proof.
  induction l as [|x l IH]; [reflexivity|].
  cbn [length seq map nth]. f_equal. rewrite <- seq_shift, map_map. exact IH.
Qed.

(* ------------------------------------------------------------------ *)
(* Python dicts: lookup through the dict combinators *)
Section DictFacts.
  Context {K : Type} (ke : K -> K -> bool) (Hke : forall a b, ke a b = true <-> a = b).

  Lemma ke_refl k : ke k k = true.
  Proof. now apply Hke. Qed.

  Lemma lookup_app {V} k (d1 d2 : list (K * V)) :
    lookup ke k (d1 ++ d2) = match lookup ke k d1 with Some v => Some v | None => lookup ke k d2 end.
  Proof.
    induction d1 as [|[k' v] d1 IH]; cbn [lookup app]; [reflexivity|].
    destruct (ke k k'); [reflexivity | exact IH].
  Qed.

  Lemma lookup_In {V} k (d : list (K * V)) v : lookup ke k d = Some v -> In (k, v) d.
  Proof.
    induction d as [|[k' v'] d IH]; cbn [lookup]; [discriminate|].
    destruct (ke k k') eqn:E.
    - intros H. inversion H. subst. apply Hke in E. subst. now left.
    - intros H. right. now apply IH.
  Qed.

  Lemma lookup_None {V} k (d : list (K * V)) : lookup ke k d = None <-> ~ In k (keys d).
  Proof.
    induction d as [|[k' v'] d IH]; cbn [lookup keys map fst In].
    - split; [intros _ [] | reflexivity].
    - destruct (ke k k') eqn:E.
      + apply Hke in E. subst. split; [discriminate | intros H; exfalso; apply H; now left].
      + rewrite IH. unfold keys. split.
        * intros H [H1 | H1]; [subst; rewrite ke_refl in E; discriminate | now apply H].
        * intros H H1. apply H. now right.
  Qed.

  Lemma dhas_In {V} k (d : list (K * V)) : dhas ke k d = true <-> In k (keys d).
  Proof.
    unfold dhas. destruct (lookup ke k d) eqn:E.
    - split; [intros _ | reflexivity]. apply lookup_In in E. unfold keys.
      change k with (fst (k, v)). now apply in_map.
    - split; [discriminate|]. intros H. apply lookup_None in E. contradiction.
  Qed.

  Lemma dhas_false {V} k (d : list (K * V)) : dhas ke k d = false <-> lookup ke k d = None.
  Proof. unfold dhas. destruct (lookup ke k d); split; (reflexivity || discriminate). Qed.

  Lemma lookup_map_val {V W} (f : V -> W) k (d : list (K * V)) :
    lookup ke k (map (fun p => (fst p, f (snd p))) d) = option_map f (lookup ke k d).
  Proof.
    induction d as [|[k' v] d IH]; cbn [lookup map fst snd]; [reflexivity|].
    destruct (ke k k'); [reflexivity | exact IH].
  Qed.

  (* re-keying every entry with a key function that is injective on the keys present *)
  Lemma lookup_map_inj {K' V W} (ke' : K' -> K' -> bool) (fk : K -> K') (fv : V -> W) k (d : list (K * V)) :
    (forall k', In k' (keys d) -> ke' (fk k) (fk k') = ke k k') ->
    lookup ke' (fk k) (map (fun p => (fk (fst p), fv (snd p))) d) = option_map fv (lookup ke k d).
  Proof.
    induction d as [|[k' v] d IH]; intros H; cbn [lookup map fst snd]; [reflexivity|].
    rewrite (H k') by (now left). destruct (ke k k'); [reflexivity|].
    apply IH. intros k'' Hk. apply H. now right.
  Qed.

  (* the left part of every binary blockwise op *)
  Lemma lookup_bin_map {V} (f : V -> V -> V) k (bx bo : list (K * V)) :
    lookup ke k (map (fun p => match lookup ke (fst p) bo with Some t => (fst p, f (snd p) t) | None => p end) bx)
    = match lookup ke k bx with
      | Some a => Some (match lookup ke k bo with Some b => f a b | None => a end)
      | None => None
      end.
  Proof.
    induction bx as [|[k' v] bx IH]; cbn [lookup map fst snd]; [reflexivity|].
    destruct (ke k k') eqn:E.
    - apply Hke in E. subst k'. destruct (lookup ke k bo); cbn [lookup fst snd]; now rewrite ke_refl.
    - destruct (lookup ke k' bo); cbn [lookup fst snd]; rewrite E; exact IH.
  Qed.

  Lemma lookup_filter_nothas {V} k (bx bo : list (K * V)) :
    lookup ke k bx = None ->
    lookup ke k (filter (fun q => negb (dhas ke (fst q) bx)) bo) = lookup ke k bo.
  Proof.
    intros Hx. induction bo as [|[k' v] bo IH]; cbn [filter lookup fst]; [reflexivity|].
    destruct (ke k k') eqn:E.
    - apply Hke in E. subst k'. apply dhas_false in Hx. rewrite Hx. cbn [negb lookup]. now rewrite ke_refl.
    - destruct (negb (dhas ke k' bx)); cbn [lookup]; [rewrite E|]; exact IH.
  Qed.

  (* entries kept or dropped according to their KEY only (bin_inner, multiply_diagonal) *)
  Lemma lookup_flat_map_key {V T W} (h : K -> option T) (f : V -> T -> W) k (bx : list (K * V)) :
    lookup ke k (flat_map (fun p => match h (fst p) with Some t => [(fst p, f (snd p) t)] | None => [] end) bx)
    = match h k with Some t => option_map (fun a => f a t) (lookup ke k bx) | None => None end.
  Proof.
    induction bx as [|[k' v] bx IH]; cbn [flat_map lookup fst snd option_map].
    - now destruct (h k).
    - destruct (ke k k') eqn:E.
      + apply Hke in E. subst k'. destruct (h k) eqn:Eh; cbn [app lookup option_map].
        * now rewrite ke_refl.
        * exact IH.
      + destruct (h k'); cbn [app lookup]; [rewrite E|]; exact IH.
  Qed.
End DictFacts.

(* ------------------------------------------------------------------ *)
(* the numpy primitives, read at one multi-index *)
Section TensorFacts.
  Context (R : Ring).

  Lemma get_tmap f t idx : f (r0 R) = r0 R -> get R (tmap R f t) idx = f (get R t idx).
  Proof.
    intros Hf. unfold get, tmap. cbn [tshape tdata].
    transitivity (nth (offset (tshape t) idx) (map f (tdata t)) (f (r0 R))); [now rewrite Hf | apply map_nth].
  Qed.

  Lemma get_tadd a b idx : inb (tshape a) idx = true ->
    get R (tadd R a b) idx = radd R (get R a idx) (get R b idx).
  Proof. intros H. unfold tadd. now rewrite get_build. Qed.

  Lemma get_tmul a b idx : inb (tshape a) idx = true ->
    get R (tmul R a b) idx = rmul R (get R a idx) (get R b idx).
  Proof. intros H. unfold tmul. now rewrite get_build. Qed.

  Lemma get_tmul_diag t v axis idx : inb (tshape t) idx = true ->
    get R (tmul_diag R t v axis) idx = rmul R (get R t idx) (get R v [nth axis idx 0]).
  Proof. intros H. unfold tmul_diag. now rewrite get_build. Qed.

  Lemma inb_nth sh idx : inb sh idx = true ->
    length sh = length idx /\ forall i, i < length sh -> nth i idx 0 < nth i sh 0.
  Proof.
    revert idx. induction sh as [|d sh IH]; intros [|i idx] H; cbn [inb] in H; try discriminate.
    - split; [reflexivity | cbn [length]; intros; lia].
    - apply andb_true_iff in H. destruct H as [Hi H]. apply Nat.ltb_lt in Hi.
      destruct (IH _ H) as [Hl Hn]. split; [cbn [length]; lia|].
      intros [|k] Hk; cbn [nth]; [exact Hi|]. apply Hn. cbn [length] in Hk. lia.
  Qed.

  Lemma inb_permuted sh idx perm : (forall p, In p perm -> nth p idx 0 < nth p sh 0) ->
    inb (permuted 0 sh perm) (permuted 0 idx perm) = true.
  Proof.
    unfold permuted. induction perm as [|p perm IH]; intros H; cbn [map inb]; [reflexivity|].
    apply andb_true_iff. split.
    - apply Nat.ltb_lt. apply H. now left.
    - apply IH. intros q Hq. apply H. now right.
  Qed.

  Lemma nth_index_of_map {B} (g : nat -> B) j perm d : In j perm -> nth (index_of j perm) (map g perm) d = g j.
  Proof.
    induction perm as [|p perm IH]; intros H; [destruct H|].
    cbn [index_of map]. destruct (Nat.eqb p j) eqn:E.
    - apply Nat.eqb_eq in E. subst. reflexivity.
    - destruct H as [H | H]; [subst; rewrite Nat.eqb_refl in E; discriminate|].
      cbn [nth]. now apply IH.
  Qed.

  Lemma unpermute_permuted perm idx :
    Permutation perm (seq 0 (length idx)) -> unpermute perm (permuted 0 idx perm) = idx.
  Proof.
    intros Hp. unfold unpermute. rewrite (Permutation_length Hp), seq_length.
    transitivity (map (fun j => nth j idx 0) (seq 0 (length idx))); [|apply map_nth_seq].
    apply map_ext_in. intros j Hj. unfold permuted.
    apply (nth_index_of_map (fun p => nth p idx 0)).
    apply (Permutation_in j (Permutation_sym Hp) Hj).
  Qed.

  (* numpy.transpose: out[idx o perm] = t[idx] *)
  Lemma get_ttranspose t perm idx :
    Permutation perm (seq 0 (length (tshape t))) -> inb (tshape t) idx = true ->
    get R (ttranspose R t perm) (permuted 0 idx perm) = get R t idx.
  Proof.
    intros Hp Hin. destruct (inb_nth _ _ Hin) as [Hl Hn].
    unfold ttranspose. rewrite get_build.
    - rewrite unpermute_permuted; [reflexivity | now rewrite <- Hl].
    - apply inb_permuted. intros p Hq. apply Hn.
      apply (Permutation_in p Hp) in Hq. apply in_seq in Hq. lia.
  Qed.

  Lemma permuted_inj {A} (d : A) n perm s s' :
    (forall i, i < n -> In i perm) -> length s = n -> length s' = n ->
    permuted d s perm = permuted d s' perm -> s = s'.
  Proof.
    intros Hsur Hs Hs' He. apply (nth_ext _ _ d d); [lia|]. intros i Hi.
    destruct (In_nth perm i 0 (Hsur i ltac:(lia))) as [j [Hj Hnj]].
    assert (H : nth j (permuted d s perm) d = nth j (permuted d s' perm) d) by now rewrite He.
    unfold permuted in H. rewrite !(map_nth_lt _ _ 0) in H by exact Hj. now rewrite Hnj in H.
  Qed.

  Lemma permuted_map {A B} (f : A -> B) d l perm : map f (permuted d l perm) = permuted (f d) (map f l) perm.
  Proof.
    unfold permuted. rewrite map_map. apply map_ext. intros p. symmetry. apply map_nth.
  Qed.

  Lemma permuted_length {A} (d : A) l perm : length (permuted d l perm) = length perm.
  Proof. apply map_length. Qed.
End TensorFacts.

(* ------------------------------------------------------------------ *)
(* dict-of-tensors semantics, shared by arrays (key = sector) and block vectors
   (key = charge): the entry at key k, multi-index idx, or zero *)
Section DictSem.
  Context (R : Ring) {K : Type} (ke : K -> K -> bool) (Hke : forall a b, ke a b = true <-> a = b).
  Notation dict := (list (K * tensor R)).

  Definition dsem (d : dict) (k : K) (idx : list nat) : RT R :=
    match lookup ke k d with Some t => get R t idx | None => r0 R end.
  (* the multi-index is inside the block stored under k (if there is one) *)
  Definition dinb (d : dict) (k : K) (idx : list nat) : Prop :=
    forall t, lookup ke k d = Some t -> inb (tshape t) idx = true.

  Context (radd_0_l : forall a, radd R (r0 R) a = a)
          (radd_0_r : forall a, radd R a (r0 R) = a)
          (rmul_0_l : forall a, rmul R (r0 R) a = r0 R)
          (rmul_0_r : forall a, rmul R a (r0 R) = r0 R)
          (rneg_0 : rneg R (r0 R) = r0 R).

  Lemma dsem_dict_map f d k idx : f (r0 R) = r0 R ->
    dsem (dict_map R (tmap R f) d) k idx = f (dsem d k idx).
  Proof.
    intros Hf. unfold dsem, dict_map. rewrite (lookup_map_val ke).
    destruct (lookup ke k d); cbn [option_map]; [now apply get_tmap | now rewrite Hf].
  Qed.

  Lemma dsem_outer_add bx bo k idx : dinb bx k idx ->
    dsem (bin_outer R ke (tadd R) bx bo) k idx = radd R (dsem bx k idx) (dsem bo k idx).
  Proof.
    intros Hin. unfold dsem, bin_outer. rewrite (lookup_app ke), (lookup_bin_map ke Hke).
    destruct (lookup ke k bx) as [a|] eqn:Ex.
    - destruct (lookup ke k bo) as [b|]; [apply get_tadd; now apply Hin | now rewrite radd_0_r].
    - rewrite (lookup_filter_nothas ke Hke) by exact Ex.
      destruct (lookup ke k bo); now rewrite radd_0_l.
  Qed.

  Lemma same_keys_iff (bx bo : dict) :
    forallb (fun p => dhas ke (fst p) bo) bx && forallb (fun q => dhas ke (fst q) bx) bo = true
    <-> (forall k, In k (keys bx) <-> In k (keys bo)).
  Proof.
    rewrite andb_true_iff, !forallb_forall. unfold keys. split.
    - intros [H1 H2] k. split; intros H; apply in_map_iff in H; destruct H as [p [<- Hp]];
        [apply (dhas_In ke Hke), H1 | apply (dhas_In ke Hke), H2]; exact Hp.
    - intros H. split; intros p Hp; apply (dhas_In ke Hke); apply H; now apply in_map.
  Qed.

  Lemma bin_strict_none f (bx bo : dict) :
    bin_strict R ke f bx bo = None <-> ~ (forall k, In k (keys bx) <-> In k (keys bo)).
  Proof.
    unfold bin_strict. rewrite <- same_keys_iff.
    destruct (forallb (fun p => dhas ke (fst p) bo) bx && forallb (fun q => dhas ke (fst q) bx) bo).
    - split; [discriminate | intros H; exfalso; now apply H].
    - split; [intros _; discriminate | reflexivity].
  Qed.

  Lemma bin_strict_some f (bx bo d : dict) :
    bin_strict R ke f bx bo = Some d ->
    (forall k, In k (keys bx) <-> In k (keys bo)) /\
    forall k, lookup ke k d = match lookup ke k bx with
                              | Some a => Some (match lookup ke k bo with Some b => f a b | None => a end)
                              | None => None end.
  Proof.
    unfold bin_strict. intros H.
    destruct (forallb (fun p => dhas ke (fst p) bo) bx && forallb (fun q => dhas ke (fst q) bx) bo) eqn:E;
      [|discriminate].
    inversion H. subst d. split; [now apply same_keys_iff|]. intros k. apply (lookup_bin_map ke Hke).
  Qed.

  Lemma dsem_strict_sub bx bo d k idx : dinb bx k idx ->
    bin_strict R ke (tsub R) bx bo = Some d ->
    dsem d k idx = radd R (dsem bx k idx) (rneg R (dsem bo k idx)).
  Proof.
    intros Hin H. apply bin_strict_some in H. destruct H as [Hk Hl]. unfold dsem. rewrite Hl.
    destruct (lookup ke k bx) as [a|] eqn:Ex.
    - destruct (lookup ke k bo) as [b|] eqn:Eo.
      + unfold tsub. rewrite get_tadd by (now apply Hin). unfold tneg. now rewrite get_tmap.
      + exfalso. apply (lookup_None ke Hke) in Eo. apply Eo, Hk.
        apply (dhas_In ke Hke). unfold dhas. now rewrite Ex.
    - destruct (lookup ke k bo) as [b|] eqn:Eo.
      + exfalso. apply (lookup_None ke Hke) in Ex. apply Ex, Hk.
        apply (dhas_In ke Hke). unfold dhas. now rewrite Eo.
      + now rewrite rneg_0, radd_0_l.
  Qed.

  Lemma dsem_inner_mul bx bo k idx : dinb bx k idx ->
    dsem (bin_inner R ke (tmul R) bx bo) k idx = rmul R (dsem bx k idx) (dsem bo k idx).
  Proof.
    intros Hin. unfold dsem, bin_inner.
    rewrite (lookup_flat_map_key ke Hke (fun k => lookup ke k bo) (tmul R)).
    destruct (lookup ke k bo) as [b|]; destruct (lookup ke k bx) as [a|] eqn:Ex; cbn [option_map].
    - apply get_tmul. now apply Hin.
    - now rewrite rmul_0_l.
    - now rewrite rmul_0_r.
    - now rewrite rmul_0_l.
  Qed.
End DictSem.

(* ------------------------------------------------------------------ *)
(* abelian arrays *)
Section ArraySem.
  Context (G : Symmetry) (HG : GroupLaws G) (R : Ring).
  Notation keq := (list_eqb (ceqb G)).
  Notation arr := (aarray G R).
  Notation dcoord := (ident G, 0).

  Lemma keq_eq (a b : list (C G)) : keq a b = true <-> a = b.
  Proof. apply list_eqb_eq. apply (ceqb_eq G HG). Qed.

  (* the part of wf_array the value theorems use: every stored sector has one
     charge per axis and its block has the shape the index tables prescribe *)
  Definition shapes_ok (x : arr) : Prop :=
    forall s b, In (s, b) (blocks G R x) ->
      length s = ndim G R x /\ tshape b = block_shape G (indices G R x) s.

  Lemma wf_shapes x : wf_array G R x = true -> shapes_ok x.
  Proof.
    unfold wf_array. intros H. repeat (apply andb_true_iff in H; destruct H as [H ?]).
    intros s b Hin. rewrite forallb_forall in H0. specialize (H0 _ Hin). cbn [fst snd] in H0.
    repeat (apply andb_true_iff in H0; destruct H0 as [H0 ?]).
    unfold sector_ok in H0. repeat (apply andb_true_iff in H0; destruct H0 as [H0 ?]).
    apply Nat.eqb_eq in H0. apply (list_eqb_eq _ nat_eqb_iff) in H4. now split.
  Qed.

  Lemma sem_dsem x cs : sem G R x cs = dsem R keq (blocks G R x) (map fst cs) (map snd cs).
  Proof. reflexivity. Qed.

  Lemma coords_nth ixs cs : coords_ok G ixs cs = true ->
    length cs = length ixs /\
    forall i, i < length ixs ->
      snd (nth i cs dcoord) < size_of G (nth i ixs (dflt_index G)) (fst (nth i cs dcoord)).
  Proof.
    unfold coords_ok. intros H. apply andb_true_iff in H. destruct H as [Hl H].
    apply Nat.eqb_eq in Hl. split; [exact Hl|].
    revert cs Hl H. induction ixs as [|ix ixs IH]; intros [|c cs] Hl H i Hi; cbn [length] in *; try lia.
    cbn [List.combine forallb fst snd] in H. apply andb_true_iff in H. destruct H as [Hc H].
    destruct i as [|i]; cbn [nth]; [now apply Nat.ltb_lt|]. apply IH; [lia | exact H | lia].
  Qed.

  Lemma inb_block_shape ixs cs : coords_ok G ixs cs = true ->
    inb (block_shape G ixs (map fst cs)) (map snd cs) = true.
  Proof.
    unfold coords_ok, block_shape. intros H. apply andb_true_iff in H. destruct H as [Hl H].
    apply Nat.eqb_eq in Hl.
    revert cs Hl H. induction ixs as [|ix ixs IH]; intros [|c cs] Hl H; cbn [length] in *; try lia; [reflexivity|].
    cbn [List.combine forallb map fst snd inb] in *. apply andb_true_iff in H. destruct H as [Hc H].
    rewrite Hc. cbn [andb]. apply IH; [lia | exact H].
  Qed.

  Lemma block_shape_length ixs (s : list (C G)) : length s = length ixs -> length (block_shape G ixs s) = length ixs.
  Proof. intros H. unfold block_shape. rewrite map_length, combine_length. lia. Qed.

  Lemma sem_inb x cs : shapes_ok x -> coords_ok G (indices G R x) cs = true ->
    dinb R keq (blocks G R x) (map fst cs) (map snd cs).
  Proof.
    intros Hs Hc t Ht. apply (lookup_In keq keq_eq) in Ht. destruct (Hs _ _ Ht) as [_ ->].
    now apply inb_block_shape.
  Qed.

  Lemma in_keys_block (x : arr) s : In s (keys (blocks G R x)) -> exists b, In (s, b) (blocks G R x).
  Proof.
    unfold keys. intros H. apply in_map_iff in H. destruct H as [[s' b] [<- H]]. now exists b.
  Qed.

  (* ---------------- transpose ---------------- *)
  Lemma transpose_value x perm cs :
    shapes_ok x -> Permutation perm (seq 0 (ndim G R x)) -> coords_ok G (indices G R x) cs = true ->
    sem G R (a_transpose G R x perm) (permuted dcoord cs perm) = sem G R x cs.
  Proof.
    intros Hs Hp Hc. destruct (coords_nth _ _ Hc) as [Hlen _].
    unfold sem, a_transpose. cbn [blocks].
    rewrite !permuted_map. cbn [fst snd].
    rewrite (lookup_map_inj keq keq (fun s => permuted (ident G) s perm) (fun t => ttranspose R t perm)).
    - destruct (lookup keq (map fst cs) (blocks G R x)) as [t|] eqn:Et; cbn [option_map]; [|reflexivity].
      pose proof (sem_inb x cs Hs Hc t Et) as Hin.
      apply (lookup_In keq keq_eq) in Et. destruct (Hs _ _ Et) as [Hls Hsh].
      apply get_ttranspose; [|exact Hin].
      rewrite Hsh, block_shape_length by exact Hls. exact Hp.
    - intros s' Hs'. apply in_keys_block in Hs'. destruct Hs' as [b Hb]. destruct (Hs _ _ Hb) as [Hls _].
      apply bool_eq_iff. rewrite !keq_eq. split; [|now intros ->].
      apply (permuted_inj (ident G) (ndim G R x)).
      + intros i Hi. apply (Permutation_in i (Permutation_sym Hp)). apply in_seq. lia.
      + rewrite map_length. exact Hlen.
      + exact Hls.
  Qed.

  Lemma coords_ok_permuted ixs cs perm :
    coords_ok G ixs cs = true -> (forall p, In p perm -> p < length ixs) ->
    coords_ok G (permuted (dflt_index G) ixs perm) (permuted dcoord cs perm) = true.
  Proof.
    intros Hc Hp. destruct (coords_nth _ _ Hc) as [_ Hn].
    unfold coords_ok. rewrite !permuted_length, Nat.eqb_refl. cbn [andb].
    unfold permuted. induction perm as [|p perm IH]; cbn [map List.combine forallb fst snd]; [reflexivity|].
    apply andb_true_iff. split.
    - apply Nat.ltb_lt. apply Hn, Hp. now left.
    - apply IH. intros q Hq. apply Hp. now right.
  Qed.

  (* value + bookkeeping: indices permuted, charge unchanged, image coordinates inside the new tables *)
  Theorem transpose_sem x perm cs :
    wf_array G R x = true -> Permutation perm (seq 0 (ndim G R x)) -> coords_ok G (indices G R x) cs = true ->
    sem G R (a_transpose G R x perm) (permuted dcoord cs perm) = sem G R x cs /\
    indices G R (a_transpose G R x perm) = permuted (dflt_index G) (indices G R x) perm /\
    charge G R (a_transpose G R x perm) = charge G R x /\
    coords_ok G (indices G R (a_transpose G R x perm)) (permuted dcoord cs perm) = true.
  Proof.
    intros Hw Hp Hc. split; [|split; [reflexivity | split; [reflexivity|]]].
    - apply transpose_value; [now apply wf_shapes | exact Hp | exact Hc].
    - cbn [a_transpose indices]. apply coords_ok_permuted; [exact Hc|].
      intros p Hq. apply (Permutation_in p Hp) in Hq. apply in_seq in Hq. unfold ndim in Hq. lia.
  Qed.

  (* ---------------- conj / dagger ---------------- *)
  Lemma iconj_dual ix : idual G (iconj G ix) = negb (idual G ix).
  Proof. destruct ix. reflexivity. Qed.
  Lemma iconj_chargemap ix : chargemap G (iconj G ix) = chargemap G ix.
  Proof. destruct ix. reflexivity. Qed.

  Lemma iconj_invol : forall ix, iconj G (iconj G ix) = ix.
  Proof.
    fix IH 1. intros [cm d [[subs ext]|]]; cbn [iconj]; rewrite negb_involutive; [|reflexivity].
    f_equal. f_equal. f_equal.
    induction subs as [|s subs IHs]; cbn [map]; [reflexivity|]. now rewrite IH, IHs.
  Qed.

  Lemma size_of_iconj ix c : size_of G (iconj G ix) c = size_of G ix c.
  Proof. unfold size_of. now rewrite iconj_chargemap. Qed.

  Lemma block_shape_iconj ixs s : block_shape G (map (iconj G) ixs) s = block_shape G ixs s.
  Proof.
    unfold block_shape. revert s. induction ixs as [|ix ixs IH]; intros [|c s]; cbn [map List.combine fst snd]; try reflexivity.
    now rewrite size_of_iconj, IH.
  Qed.

  Lemma coords_ok_iconj ixs cs : coords_ok G (map (iconj G) ixs) cs = coords_ok G ixs cs.
  Proof.
    unfold coords_ok. rewrite map_length. f_equal.
    revert cs. induction ixs as [|ix ixs IH]; intros [|c cs]; cbn [map List.combine forallb fst snd]; try reflexivity.
    now rewrite size_of_iconj, IH.
  Qed.

  Lemma shapes_ok_conj x : shapes_ok x -> shapes_ok (a_conj G R x).
  Proof.
    intros Hs s b Hin. unfold a_conj in Hin. cbn [blocks] in Hin.
    apply in_map_iff in Hin. destruct Hin as [[s' b'] [He Hin]]. cbn [fst snd] in He. inversion He. subst s b.
    destruct (Hs _ _ Hin) as [Hl Hsh]. unfold ndim, a_conj. cbn [indices tconj tmap tshape].
    rewrite map_length, block_shape_iconj. now split.
  Qed.

  Context (rconj_0 : rconj R (r0 R) = r0 R).

  Lemma conj_value x cs : sem G R (a_conj G R x) cs = rconj R (sem G R x cs).
  Proof. rewrite !sem_dsem. now apply (dsem_dict_map R keq (rconj R)). Qed.

  Theorem conj_sem x cs :
    sem G R (a_conj G R x) cs = rconj R (sem G R x cs) /\
    indices G R (a_conj G R x) = map (iconj G) (indices G R x) /\
    charge G R (a_conj G R x) = sign G (charge G R x) true /\
    coords_ok G (indices G R (a_conj G R x)) cs = coords_ok G (indices G R x) cs.
  Proof.
    split; [apply conj_value | split; [reflexivity | split; [reflexivity|]]].
    cbn [a_conj indices]. apply coords_ok_iconj.
  Qed.

  (* what conjugating an index does: direction flipped, table unchanged, involutive *)
  Theorem iconj_spec ix :
    idual G (iconj G ix) = negb (idual G ix) /\ chargemap G (iconj G ix) = chargemap G ix /\
    iconj G (iconj G ix) = ix.
  Proof. split; [apply iconj_dual | split; [apply iconj_chargemap | apply iconj_invol]]. Qed.

  Lemma permuted_rev_seq {A} (d : A) l : permuted d l (rev (seq 0 (length l))) = rev l.
  Proof. unfold permuted. rewrite map_rev. f_equal. apply map_nth_seq. Qed.

  Theorem dagger_sem x cs :
    wf_array G R x = true -> coords_ok G (indices G R x) cs = true ->
    sem G R (a_dagger G R x) (rev cs) = rconj R (sem G R x cs) /\
    indices G R (a_dagger G R x) = rev (map (iconj G) (indices G R x)) /\
    charge G R (a_dagger G R x) = sign G (charge G R x) true.
  Proof.
    intros Hw Hc. destruct (coords_nth _ _ Hc) as [Hlen _].
    unfold a_dagger, rev_axes. split; [|split; [|reflexivity]].
    - assert (Hn : ndim G R (a_conj G R x) = ndim G R x) by (unfold ndim, a_conj; cbn [indices]; apply map_length).
      rewrite <- conj_value, <- Hn.
      replace (rev cs) with (permuted dcoord cs (rev (seq 0 (ndim G R (a_conj G R x)))))
        by (rewrite Hn; unfold ndim; rewrite <- Hlen; apply permuted_rev_seq).
      apply transpose_value.
      + apply shapes_ok_conj. now apply wf_shapes.
      + apply Permutation_sym, Permutation_rev.
      + cbn [a_conj indices]. now rewrite coords_ok_iconj.
    - cbn [a_transpose a_conj indices]. unfold ndim. rewrite <- (map_length (iconj G)). apply permuted_rev_seq.
  Qed.

  (* ---------------- scale / neg ---------------- *)
  Context (radd_0_l : forall a, radd R (r0 R) a = a)
          (radd_0_r : forall a, radd R a (r0 R) = a)
          (rmul_0_l : forall a, rmul R (r0 R) a = r0 R)
          (rmul_0_r : forall a, rmul R a (r0 R) = r0 R)
          (rneg_0 : rneg R (r0 R) = r0 R).

  Theorem scale_sem x s cs : sem G R (a_scale G R x s) cs = rmul R (sem G R x cs) s.
  Proof. rewrite !sem_dsem. apply (dsem_dict_map R keq (fun v => rmul R v s)). apply rmul_0_l. Qed.

  Theorem neg_sem x cs : sem G R (a_neg G R x) cs = rneg R (sem G R x cs).
  Proof. rewrite !sem_dsem. now apply (dsem_dict_map R keq (rneg R)). Qed.

  (* ---------------- add / sub / mul ---------------- *)
  (* Only the LEFT operand's blocks must have their prescribed shape: the model's
     tadd/tmul tabulate over the left block's shape.  When x and y have the same
     index tables the right block has the same shape and `sem y` is y's dense entry. *)
  Theorem add_sem x y cs :
    wf_array G R x = true -> coords_ok G (indices G R x) cs = true ->
    sem G R (a_add G R x y) cs = radd R (sem G R x cs) (sem G R y cs).
  Proof.
    intros Hw Hc. rewrite !sem_dsem. unfold a_add, with_blocks. cbn [blocks].
    apply (dsem_outer_add R keq keq_eq radd_0_l radd_0_r). apply sem_inb; [now apply wf_shapes | exact Hc].
  Qed.

  Theorem sub_sem x y z cs :
    wf_array G R x = true -> coords_ok G (indices G R x) cs = true ->
    a_sub G R x y = Some z ->
    sem G R z cs = radd R (sem G R x cs) (rneg R (sem G R y cs)).
  Proof.
    intros Hw Hc. unfold a_sub.
    destruct (bin_strict R keq (tsub R) (blocks G R x) (blocks G R y)) as [d|] eqn:E; [|discriminate].
    intros H. inversion H. subst z. rewrite !sem_dsem. unfold with_blocks. cbn [blocks].
    apply (dsem_strict_sub R keq keq_eq radd_0_l rneg_0 _ _ _ _ _ (sem_inb x cs (wf_shapes x Hw) Hc) E).
  Qed.

  (* "does this or raises": subtraction fails exactly when the stored sector sets differ *)
  Theorem sub_none x y :
    a_sub G R x y = None <-> ~ (forall s, In s (sectors G R x) <-> In s (sectors G R y)).
  Proof.
    pose proof (bin_strict_none R keq keq_eq (tsub R) (blocks G R x) (blocks G R y)) as H.
    unfold keys in H. unfold a_sub, sectors.
    destruct (bin_strict R keq (tsub R) (blocks G R x) (blocks G R y)); rewrite <- H;
      split; (reflexivity || discriminate).
  Qed.

  Theorem mul_sem x y cs :
    wf_array G R x = true -> coords_ok G (indices G R x) cs = true ->
    sem G R (a_mul G R x y) cs = rmul R (sem G R x cs) (sem G R y cs).
  Proof.
    intros Hw Hc. rewrite !sem_dsem. unfold a_mul, with_blocks. cbn [blocks].
    apply (dsem_inner_mul R keq keq_eq rmul_0_l rmul_0_r). apply sem_inb; [now apply wf_shapes | exact Hc].
  Qed.

  (* ---------------- multiply_diagonal ---------------- *)
  Definition vsem (v : bvec G R) (co : coord G) : RT R := dsem R (ceqb G) v (fst co) [snd co].

  Theorem multiply_diagonal_sem x v axis cs :
    wf_array G R x = true -> coords_ok G (indices G R x) cs = true ->
    sem G R (a_multiply_diagonal G R x v axis) cs = rmul R (sem G R x cs) (vsem v (nth axis cs dcoord)).
  Proof.
    intros Hw Hc. pose proof (sem_inb x cs (wf_shapes x Hw) Hc) as Hin.
    unfold sem, vsem, dsem, a_multiply_diagonal, with_blocks. cbn [blocks].
    rewrite (lookup_flat_map_key keq keq_eq (fun s => lookup (ceqb G) (nth axis s (ident G)) v)
               (fun t vb => tmul_diag R t vb axis)).
    change (ident G) with (fst dcoord) at 1. rewrite map_nth. unfold coord in *.
    destruct (lookup (ceqb G) (fst (nth axis cs dcoord)) v) as [vb|];
      destruct (lookup keq (map fst cs) (blocks G R x)) as [a|] eqn:Ea; cbn [option_map].
    - rewrite get_tmul_diag by (now apply Hin). change 0 with (snd dcoord). now rewrite map_nth.
    - now rewrite rmul_0_l.
    - now rewrite rmul_0_r.
    - now rewrite rmul_0_l.
  Qed.
End ArraySem.

(* ------------------------------------------------------------------ *)
(* inserting a size-one axis *)
Section InsertFacts.
  Lemma insert_nth_0 {A} (l : list A) x : insert_nth l 0 x = x :: l.
  Proof. reflexivity. Qed.
  Lemma insert_nth_S_nil {A} n (x : A) : insert_nth [] (S n) x = [x].
  Proof. reflexivity. Qed.
  Lemma insert_nth_S_cons {A} (y : A) l n x : insert_nth (y :: l) (S n) x = y :: insert_nth l n x.
  Proof. reflexivity. Qed.

  Lemma map_insert_nth {A B} (f : A -> B) l n x : map f (insert_nth l n x) = insert_nth (map f l) n (f x).
  Proof. unfold insert_nth. now rewrite map_app, firstn_map, skipn_map. Qed.

  Lemma insert_nth_length {A} (l : list A) n x : length (insert_nth l n x) = S (length l).
  Proof.
    unfold insert_nth. rewrite app_length. cbn [length].
    rewrite <- (firstn_skipn n l) at 3. rewrite app_length. lia.
  Qed.

  Lemma insert_nth_inj {A} n (x : A) : forall l l', insert_nth l n x = insert_nth l' n x -> l = l'.
  Proof.
    induction n as [|n IH]; intros l l' H.
    - rewrite !insert_nth_0 in H. now inversion H.
    - destruct l as [|y l], l' as [|y' l']; rewrite ?insert_nth_S_nil, ?insert_nth_S_cons in H.
      + reflexivity.
      + inversion H as [[H1 H2]]. destruct n, l'; discriminate H2.
      + inversion H as [[H1 H2]]. destruct n, l; discriminate H2.
      + inversion H. f_equal. now apply IH.
  Qed.

  Lemma shape_size_insert sh n : shape_size (insert_nth sh n 1) = shape_size sh.
  Proof.
    revert sh. induction n as [|n IH]; intros sh.
    - rewrite insert_nth_0. cbn [shape_size fold_right]. fold (shape_size sh). lia.
    - destruct sh as [|d sh]; [reflexivity|]. rewrite insert_nth_S_cons.
      cbn [shape_size fold_right]. fold (shape_size (insert_nth sh n 1)). fold (shape_size sh). now rewrite IH.
  Qed.

  Lemma offset_insert n : forall sh idx, length sh = length idx ->
    offset (insert_nth sh n 1) (insert_nth idx n 0) = offset sh idx.
  Proof.
    induction n as [|n IH]; intros sh idx Hl.
    - rewrite !insert_nth_0. cbn [offset]. lia.
    - destruct sh as [|d sh], idx as [|i idx]; try discriminate Hl.
      + reflexivity.
      + rewrite !insert_nth_S_cons. cbn [offset]. rewrite shape_size_insert, IH; [reflexivity|].
        cbn [length] in Hl. lia.
  Qed.

  Lemma get_treshape_insert R (t : tensor R) n idx : length (tshape t) = length idx ->
    get R (treshape R t (insert_nth (tshape t) n 1)) (insert_nth idx n 0) = get R t idx.
  Proof. intros H. unfold get, treshape. cbn [tshape tdata]. now rewrite offset_insert. Qed.
End InsertFacts.

Section ExpandDims.
  Context (G : Symmetry) (HG : GroupLaws G) (R : Ring).
  Notation keq := (list_eqb (ceqb G)).
  Notation dcoord := (ident G, 0).

  Lemma coords_ok_nil : coords_ok G [] [] = true.
  Proof. reflexivity. Qed.
  Lemma coords_ok_cons ix ixs c cs :
    coords_ok G (ix :: ixs) (c :: cs) = Nat.ltb (snd c) (size_of G ix (fst c)) && coords_ok G ixs cs.
  Proof.
    unfold coords_ok. cbn [length List.combine forallb fst snd Nat.eqb].
    destruct (Nat.eqb (length cs) (length ixs)), (Nat.ltb (snd c) (size_of G ix (fst c))); reflexivity.
  Qed.

  Lemma coords_ok_insert n ix c : Nat.ltb (snd c) (size_of G ix (fst c)) = true ->
    forall ixs cs, coords_ok G ixs cs = true -> coords_ok G (insert_nth ixs n ix) (insert_nth cs n c) = true.
  Proof.
    intros Hc. induction n as [|n IH]; intros ixs cs H.
    - rewrite !insert_nth_0, coords_ok_cons, Hc. exact H.
    - destruct ixs as [|i0 ixs], cs as [|c0 cs]; try discriminate H.
      + rewrite !insert_nth_S_nil, coords_ok_cons, Hc. reflexivity.
      + rewrite !insert_nth_S_cons. rewrite coords_ok_cons in *.
        apply andb_true_iff in H. destruct H as [H1 H2]. rewrite H1. cbn [andb]. now apply IH.
  Qed.

  Definition unit_index (d : bool) : index G := Index G [(ident G, 1)] d None.

  Lemma size_of_unit d : size_of G (unit_index d) (ident G) = 1.
  Proof. unfold size_of, unit_index. cbn [chargemap lookup]. now rewrite (proj2 (ceqb_eq G HG _ _) eq_refl). Qed.

  (* a_expand_dims inserts a charge-zero, size-one axis; the entry at (ident, 0) there is the old entry *)
  Theorem expand_dims_sem x axis cs :
    wf_array G R x = true -> coords_ok G (indices G R x) cs = true ->
    sem G R (a_expand_dims G R x axis) (insert_nth cs axis dcoord) = sem G R x cs /\
    (exists d, indices G R (a_expand_dims G R x axis) = insert_nth (indices G R x) axis (unit_index d)) /\
    charge G R (a_expand_dims G R x axis) = charge G R x /\
    coords_ok G (indices G R (a_expand_dims G R x axis)) (insert_nth cs axis dcoord) = true.
  Proof.
    intros Hw Hc. pose proof (wf_shapes G R x Hw) as Hs.
    split; [|split; [|split; [reflexivity|]]].
    - unfold sem, a_expand_dims. cbn [blocks]. rewrite !map_insert_nth. cbn [fst snd].
      rewrite (lookup_map_inj keq keq (fun s => insert_nth s axis (ident G))
                 (fun t => treshape R t (insert_nth (tshape t) axis 1))).
      + destruct (lookup keq (map fst cs) (blocks G R x)) as [t|] eqn:Et; cbn [option_map]; [|reflexivity].
        apply get_treshape_insert.
        pose proof (sem_inb G HG R x cs Hs Hc t Et) as Hin. now destruct (inb_nth _ _ Hin).
      + intros s' _. apply bool_eq_iff. rewrite !(keq_eq G HG). split; [apply insert_nth_inj | now intros ->].
    - unfold a_expand_dims. cbn [indices]. eexists. reflexivity.
    - unfold a_expand_dims. cbn [indices]. apply coords_ok_insert; [|exact Hc].
      cbn [fst snd]. apply Nat.ltb_lt. fold (unit_index
        (if Nat.ltb 0 axis then idual G (nth (axis - 1) (indices G R x) (dflt_index G))
         else if Nat.ltb axis (ndim G R x) then idual G (nth axis (indices G R x) (dflt_index G)) else false)).
      rewrite size_of_unit. lia.
  Qed.
End ExpandDims.

(* ------------------------------------------------------------------ *)
(* block vectors: dict charge -> 1-d tensor; entry at (charge, offset) or zero *)
Section VectorSem.
  Context (G : Symmetry) (HG : GroupLaws G) (R : Ring).
  Notation ceq_eq := (ceqb_eq G HG).

  (* the offset lies inside x's block for that charge, if x stores one *)
  Definition vinb (x : bvec G R) (co : coord G) : Prop := dinb R (ceqb G) x (fst co) [snd co].

  Context (radd_0_l : forall a, radd R (r0 R) a = a)
          (radd_0_r : forall a, radd R a (r0 R) = a)
          (rmul_0_l : forall a, rmul R (r0 R) a = r0 R)
          (rmul_0_r : forall a, rmul R a (r0 R) = r0 R)
          (rneg_0 : rneg R (r0 R) = r0 R).

  Theorem v_add_sem x y co : vinb x co ->
    vsem G R (v_add G R x y) co = radd R (vsem G R x co) (vsem G R y co).
  Proof. intros H. apply (dsem_outer_add R (ceqb G) ceq_eq radd_0_l radd_0_r). exact H. Qed.

  Theorem v_sub_sem x y z co : vinb x co -> v_sub G R x y = Some z ->
    vsem G R z co = radd R (vsem G R x co) (rneg R (vsem G R y co)).
  Proof. intros H E. apply (dsem_strict_sub R (ceqb G) ceq_eq radd_0_l rneg_0 _ _ _ _ _ H E). Qed.

  Theorem v_sub_none (x y : bvec G R) :
    v_sub G R x y = None <-> ~ (forall c, In c (keys x) <-> In c (keys y)).
  Proof. apply (bin_strict_none R (ceqb G) ceq_eq). Qed.

  Theorem v_mul_sem x y co : vinb x co ->
    vsem G R (v_mul G R x y) co = rmul R (vsem G R x co) (vsem G R y co).
  Proof. intros H. apply (dsem_inner_mul R (ceqb G) ceq_eq rmul_0_l rmul_0_r). exact H. Qed.

  Theorem v_scale_sem x s co : vsem G R (v_scale G R x s) co = rmul R (vsem G R x co) s.
  Proof. apply (dsem_dict_map R (ceqb G) (fun v => rmul R v s)). apply rmul_0_l. Qed.

  Theorem v_neg_sem x co : vsem G R (v_neg G R x) co = rneg R (vsem G R x co).
  Proof. apply (dsem_dict_map R (ceqb G) (rneg R)). exact rneg_0. Qed.
End VectorSem.

(* ------------------------------------------------------------------ *)
(* removing axes: `mask_keep m l` drops the entries of l flagged true in m *)
Fixpoint mask_keep {A} (m : list bool) (l : list A) : list A :=
  match m, l with
  | b :: m', x :: l' => if b then mask_keep m' l' else x :: mask_keep m' l'
  | _, _ => []
  end.

Definition keep_axes (n : nat) (m : list bool) : list nat :=
  map fst (filter (fun p : nat * bool => negb (snd p)) (List.combine (seq 0 n) m)).

Section MaskFacts.
  Lemma take_axes_mask_gen {A} (d : A) m : forall l pre, length m = length l ->
    take_axes d (pre ++ l)
      (map fst (filter (fun p : nat * bool => negb (snd p)) (List.combine (seq (length pre) (length l)) m)))
    = mask_keep m l.
  Proof.
    induction m as [|b m IH]; intros [|x l] pre Hl; try discriminate Hl; [reflexivity|].
    cbn [length] in Hl.
    assert (IH' : take_axes d (pre ++ x :: l)
              (map fst (filter (fun p : nat * bool => negb (snd p)) (List.combine (seq (S (length pre)) (length l)) m)))
            = mask_keep m l).
    { specialize (IH l (pre ++ [x])). rewrite <- app_assoc, app_length in IH. cbn [app length] in IH.
      rewrite Nat.add_1_r in IH. apply IH. lia. }
    cbn [length seq List.combine filter snd mask_keep]. destruct b; cbn [negb map fst].
    - exact IH'.
    - unfold take_axes in *. cbn [map]. f_equal; [|exact IH'].
      rewrite app_nth2 by lia. now rewrite Nat.sub_diag.
  Qed.

  Lemma take_axes_mask {A} (d : A) m l : length m = length l ->
    take_axes d l (keep_axes (length l) m) = mask_keep m l.
  Proof. intros H. apply (take_axes_mask_gen d m l [] H). Qed.

  Lemma mask_keep_map {A B} (f : A -> B) m : forall l, map f (mask_keep m l) = mask_keep m (map f l).
  Proof.
    induction m as [|b m IH]; intros [|x l]; cbn [mask_keep map]; try reflexivity.
    destruct b; cbn [map]; now rewrite IH.
  Qed.

  Lemma mask_keep_inj {A} (d x : A) m : forall s s', length m = length s -> length s = length s' ->
    (forall i, i < length m -> nth i m false = true -> nth i s d = x /\ nth i s' d = x) ->
    mask_keep m s = mask_keep m s' -> s = s'.
  Proof.
    induction m as [|b m IH]; intros [|a s] [|a' s'] Hl Hl' Hx He; try discriminate Hl; try discriminate Hl'.
    - reflexivity.
    - cbn [length] in *.
      assert (Ht : s = s' \/ mask_keep m s = mask_keep m s' -> s = s').
      { intros [H | H]; [exact H|]. apply IH; try lia; [|exact H].
        intros i Hi Hm. apply (Hx (S i)); [lia | exact Hm]. }
      cbn [mask_keep] in He. destruct b.
      + destruct (Hx 0 ltac:(lia) eq_refl) as [H1 H2]. cbn [nth] in H1, H2. subst a a'. f_equal. apply Ht. now right.
      + inversion He. f_equal. apply Ht. now right.
  Qed.

  Lemma offset_mask m : forall sh idx, length m = length sh -> length sh = length idx ->
    (forall i, i < length m -> nth i m false = true -> nth i sh 0 = 1 /\ nth i idx 0 = 0) ->
    shape_size (mask_keep m sh) = shape_size sh /\ offset (mask_keep m sh) (mask_keep m idx) = offset sh idx.
  Proof.
    induction m as [|b m IH]; intros [|d sh] [|i idx] Hl Hl' Hx; try discriminate Hl; try discriminate Hl'.
    - split; reflexivity.
    - cbn [length] in *.
      destruct (IH sh idx ltac:(lia) ltac:(lia)) as [IH1 IH2].
      { intros j Hj Hm. apply (Hx (S j)); [lia | exact Hm]. }
      cbn [mask_keep]. destruct b.
      + destruct (Hx 0 ltac:(lia) eq_refl) as [H1 H2]. cbn [nth] in H1, H2. subst d i.
        cbn [shape_size fold_right offset]. fold (shape_size sh). split; lia.
      + cbn [shape_size fold_right offset]. fold (shape_size sh). fold (shape_size (mask_keep m sh)).
        rewrite IH1, IH2. split; reflexivity.
  Qed.

  Lemma forallb_combine_nth {A B} (f : A * B -> bool) d1 d2 : forall l1 l2, length l1 = length l2 ->
    (forallb f (List.combine l1 l2) = true <-> forall i, i < length l1 -> f (nth i l1 d1, nth i l2 d2) = true).
  Proof.
    induction l1 as [|a l1 IH]; intros [|b l2] Hl; try discriminate Hl; cbn [List.combine forallb length].
    - split; [intros _ i Hi; lia | reflexivity].
    - cbn [length] in Hl. rewrite andb_true_iff, IH by lia. split.
      + intros [H1 H2] [|i] Hi; cbn [nth]; [exact H1 | apply H2; lia].
      + intros H. split; [apply (H 0); lia | intros i Hi; apply (H (S i)); lia].
  Qed.

  Lemma forallb_combine_false {A B} (f : A * B -> bool) d1 d2 : forall l1 l2, length l1 = length l2 ->
    forallb f (List.combine l1 l2) = false -> exists i, i < length l1 /\ f (nth i l1 d1, nth i l2 d2) = false.
  Proof.
    induction l1 as [|a l1 IH]; intros [|b l2] Hl H; try discriminate Hl; cbn [List.combine forallb length] in *;
      [discriminate|].
    destruct (f (a, b)) eqn:E.
    - cbn [andb] in H. destruct (IH l2 ltac:(lia) H) as [i [Hi Hf]]. exists (S i). split; [lia | exact Hf].
    - exists 0. split; [lia | exact E].
  Qed.

  Lemma mem_In l i : mem Nat.eqb i l = true <-> In i l.
  Proof.
    induction l as [|a l IH]; cbn [mem In]; [split; [discriminate | intros []]|].
    rewrite orb_true_iff, IH, Nat.eqb_eq. split; (intros [H | H]; [left; now symmetry | now right]).
  Qed.
End MaskFacts.

Section Squeeze.
  Context (G : Symmetry) (HG : GroupLaws G) (R : Ring).
  Notation keq := (list_eqb (ceqb G)).
  Notation dcoord := (ident G, 0).
  Notation dflt := (dflt_index G).

  (* an axis that may be squeezed: total size at most one, a single charge entry, the identity charge *)
  Definition squeezable (ix : index G) : Prop :=
    size_total G ix <= 1 /\ exists d, chargemap G ix = [(ident G, d)].
  Definition sqb (ix : index G) : bool :=
    Nat.leb (size_total G ix) 1 &&
    match chargemap G ix with [(c, _)] => ceqb G c (ident G) | _ => false end.
  (* the axes squeeze is asked to remove: all of total size one (axis=None) or the listed ones *)
  Definition selected (axes : option (list nat)) (i : nat) (ix : index G) : Prop :=
    match axes with None => size_total G ix = 1 | Some l => In i l end.
  Definition sel_b (axes : option (list nat)) (p : nat * index G) : bool :=
    match axes with None => Nat.eqb (size_total G (snd p)) 1 | Some l => mem Nat.eqb (fst p) l end.
  Definition removes (x : aarray G R) (axes : option (list nat)) : list bool :=
    map (sel_b axes) (enumerate (indices G R x)).

  Lemma nth_map_fst (cs : list (coord G)) i : nth i (map fst cs) (ident G) = fst (nth i cs dcoord).
  Proof. exact (map_nth fst cs dcoord i). Qed.
  Lemma nth_map_snd (cs : list (coord G)) i : nth i (map snd cs) 0 = snd (nth i cs dcoord).
  Proof. exact (map_nth snd cs dcoord i). Qed.

  Lemma sqb_spec ix : sqb ix = true <-> squeezable ix.
  Proof.
    unfold sqb, squeezable. rewrite andb_true_iff, Nat.leb_le.
    destruct (chargemap G ix) as [|[c d] [|? ?]].
    - split; [intros [_ H]; discriminate | intros [_ [d H]]; discriminate].
    - rewrite (ceqb_eq G HG). split.
      + intros [H1 ->]. split; [exact H1 | now exists d].
      + intros [H1 [d' H]]. inversion H. now split.
    - split; [intros [_ H]; discriminate | intros [_ [d' H]]; discriminate].
  Qed.

  Lemma sel_b_spec axes i ix : sel_b axes (i, ix) = true <-> selected axes i ix.
  Proof. unfold sel_b, selected. destruct axes; cbn [fst snd]; [apply mem_In | apply Nat.eqb_eq]. Qed.

  Lemma a_squeeze_unfold x axes :
    a_squeeze G R x axes =
    if negb (forallb (fun p : bool * index G => if fst p then sqb (snd p) else true)
                     (List.combine (removes x axes) (indices G R x)))
    then None
    else let keep := keep_axes (ndim G R x) (removes x axes) in
         Some (mkA G R (take_axes dflt (indices G R x) keep) (charge G R x)
                 (map (fun sb => (take_axes (ident G) (fst sb) keep,
                                  treshape R (snd sb) (take_axes 0 (tshape (snd sb)) keep))) (blocks G R x))).
  Proof. reflexivity. Qed.

  Lemma removes_length x axes : length (removes x axes) = ndim G R x.
  Proof. unfold removes, enumerate, ndim. rewrite map_length, combine_length, seq_length. lia. Qed.

  Lemma nth_removes x axes i : i < ndim G R x ->
    nth i (removes x axes) false = sel_b axes (i, nth i (indices G R x) dflt).
  Proof.
    intros Hi. unfold removes, enumerate, ndim in *.
    rewrite (map_nth_lt _ _ (0, dflt)) by (rewrite combine_length, seq_length; lia).
    rewrite combine_nth by apply seq_length. rewrite seq_nth by lia. reflexivity.
  Qed.

  Lemma sq_size ix c : squeezable ix -> 0 < size_of G ix c -> c = ident G /\ size_of G ix c = 1.
  Proof.
    intros [Ht [d Hcm]]. unfold size_of, size_total in *. rewrite Hcm in *. cbn [lookup map snd nsum fold_right] in *.
    destruct (ceqb G c (ident G)) eqn:E; [|lia]. apply (ceqb_eq G HG) in E. intros H. split; [exact E | lia].
  Qed.

  Lemma sq_mem ix c : squeezable ix -> mem (ceqb G) c (icharges G ix) = true -> c = ident G.
  Proof.
    intros [_ [d Hcm]]. unfold icharges. rewrite Hcm. cbn [map fst mem]. rewrite orb_false_r. apply (ceqb_eq G HG).
  Qed.

  Lemma wf_tables x : wf_array G R x = true ->
    forall s b, In (s, b) (blocks G R x) -> forall i, i < ndim G R x ->
      mem (ceqb G) (nth i s (ident G)) (icharges G (nth i (indices G R x) dflt)) = true.
  Proof.
    unfold wf_array. intros H. repeat (apply andb_true_iff in H; destruct H as [H ?]).
    intros s b Hin. rewrite forallb_forall in H0. specialize (H0 _ Hin). cbn [fst snd] in H0.
    repeat (apply andb_true_iff in H0; destruct H0 as [H0 ?]).
    unfold sector_ok in H0. repeat (apply andb_true_iff in H0; destruct H0 as [H0 ?]).
    apply Nat.eqb_eq in H0. intros i Hi.
    apply (proj1 (forallb_combine_nth _ dflt (ident G) _ _ (eq_sym H0)) H6 i Hi).
  Qed.

  Lemma nth_block_shape ixs (s : list (C G)) i : length s = length ixs -> i < length ixs ->
    nth i (block_shape G ixs s) 0 = size_of G (nth i ixs dflt) (nth i s (ident G)).
  Proof.
    intros Hl Hi. unfold block_shape.
    rewrite (map_nth_lt _ _ (dflt, ident G)) by (rewrite combine_length; lia).
    rewrite combine_nth by (now symmetry). reflexivity.
  Qed.

  (* "does this or raises": squeeze fails exactly when a selected axis cannot be squeezed *)
  Theorem squeeze_none x axes :
    a_squeeze G R x axes = None <->
    exists i, i < ndim G R x /\ selected axes i (nth i (indices G R x) dflt) /\
              ~ squeezable (nth i (indices G R x) dflt).
  Proof.
    rewrite a_squeeze_unfold.
    pose proof (removes_length x axes) as Hrl. unfold ndim in Hrl.
    destruct (forallb _ _) eqn:E; cbn [negb].
    - split; [discriminate|]. intros [i [Hi [Hsel Hns]]]. exfalso. apply Hns, sqb_spec.
      pose proof (proj1 (forallb_combine_nth _ false dflt _ _ Hrl) E i ltac:(unfold ndim in *; lia)) as H.
      cbn [fst snd] in H. rewrite nth_removes in H by exact Hi.
      rewrite (proj2 (sel_b_spec axes i _) Hsel) in H. exact H.
    - split; [intros _ | reflexivity].
      destruct (forallb_combine_false _ false dflt _ _ Hrl E) as [i [Hi Hf]]. cbn [fst snd] in Hf.
      rewrite Hrl in Hi. exists i. split; [exact Hi|].
      rewrite nth_removes in Hf by exact Hi.
      destruct (sel_b axes (i, nth i (indices G R x) dflt)) eqn:Es; [|discriminate].
      split; [now apply sel_b_spec|]. intros Hq. apply sqb_spec in Hq. rewrite Hq in Hf. discriminate.
  Qed.

  (* squeeze drops the selected axes; the entry at the kept coordinates is the old entry *)
  Theorem squeeze_sem x axes y cs :
    wf_array G R x = true -> coords_ok G (indices G R x) cs = true ->
    a_squeeze G R x axes = Some y ->
    sem G R y (mask_keep (removes x axes) cs) = sem G R x cs /\
    indices G R y = mask_keep (removes x axes) (indices G R x) /\
    charge G R y = charge G R x.
  Proof.
    intros Hw Hc. rewrite a_squeeze_unfold.
    pose proof (removes_length x axes) as Hrl.
    destruct (forallb _ _) eqn:E; cbn [negb]; [|discriminate].
    intros H. inversion H. clear H. subst y. cbn [indices charge blocks].
    pose proof (wf_shapes G R x Hw) as Hs.
    destruct (coords_nth G _ _ Hc) as [Hlen Hcn].
    (* removed axes are squeezable *)
    assert (Hsq : forall i, i < ndim G R x -> nth i (removes x axes) false = true ->
                            squeezable (nth i (indices G R x) dflt)).
    { intros i Hi Hm. apply sqb_spec.
      pose proof (proj1 (forallb_combine_nth _ false dflt _ _ Hrl) E i ltac:(lia)) as H0.
      cbn [fst snd] in H0. now rewrite Hm in H0. }
    (* at removed axes the coordinate is (ident, 0) and the block dimension is 1 *)
    assert (Hcz : forall i, i < ndim G R x -> nth i (removes x axes) false = true ->
                  fst (nth i cs dcoord) = ident G /\ snd (nth i cs dcoord) = 0 /\
                  size_of G (nth i (indices G R x) dflt) (fst (nth i cs dcoord)) = 1).
    { intros i Hi Hm. specialize (Hcn i Hi).
      destruct (sq_size _ (fst (nth i cs dcoord)) (Hsq i Hi Hm) ltac:(lia)) as [H1 H2].
      split; [exact H1 | split; [lia | exact H2]]. }
    split; [|split; [|reflexivity]].
    - unfold sem. cbn [blocks]. rewrite !mask_keep_map.
      unfold ndim in *.
      assert (Hlf : length (map fst cs) = length (indices G R x)) by (rewrite <- Hlen; apply map_length).
      assert (Hlsn : length (map snd cs) = length (indices G R x)) by (rewrite <- Hlen; apply map_length).
      rewrite <- (take_axes_mask (ident G) (removes x axes) (map fst cs)) by lia.
      rewrite Hlf.
      rewrite (lookup_map_inj keq keq (fun s => take_axes (ident G) s (keep_axes (length (indices G R x)) (removes x axes)))
                 (fun t => treshape R t (take_axes 0 (tshape t) (keep_axes (length (indices G R x)) (removes x axes))))).
      + destruct (lookup keq (map fst cs) (blocks G R x)) as [t|] eqn:Et; cbn [option_map]; [|reflexivity].
        apply (lookup_In keq (keq_eq G HG)) in Et. destruct (Hs _ _ Et) as [Hls Hsh].
        unfold ndim in Hls.
        assert (Hlt : length (tshape t) = length (indices G R x))
          by (rewrite Hsh; apply block_shape_length; exact Hlf).
        rewrite <- Hlt at 1. rewrite take_axes_mask by lia.
        unfold get, treshape. cbn [tshape tdata]. f_equal.
        apply (offset_mask (removes x axes) (tshape t) (map snd cs)); [lia | lia |].
        intros i Hi Hm. rewrite Hrl in Hi. destruct (Hcz i Hi Hm) as [H1 [H2 H3]].
        rewrite Hsh, nth_block_shape by lia.
        rewrite nth_map_fst, nth_map_snd. split; [exact H3 | exact H2].
      + intros s' Hs'. apply in_keys_block in Hs'. destruct Hs' as [b Hb]. destruct (Hs _ _ Hb) as [Hls _].
        unfold ndim in Hls.
        apply bool_eq_iff. rewrite !(keq_eq G HG). split; [|now intros ->].
        rewrite <- Hlf at 1. rewrite <- Hls at 1.
        rewrite !take_axes_mask by lia.
        apply (mask_keep_inj (ident G) (ident G)); [lia | lia |].
        intros i Hi Hm. rewrite Hrl in Hi. split.
        * rewrite nth_map_fst. now destruct (Hcz i Hi Hm).
        * apply (sq_mem _ _ (Hsq i Hi Hm)). now apply (wf_tables x Hw s' b Hb).
    - unfold ndim in *. apply take_axes_mask. lia.
  Qed.
End Squeeze.

(* ------------------------------------------------------------------ *)
(* finite sums in a commutative monoid *)
Section SumFacts.
  Context (R : Ring).
  Notation T := (RT R).
  Context (radd_0_l : forall a, radd R (r0 R) a = a)
          (radd_comm : forall a b, radd R a b = radd R b a)
          (radd_assoc : forall a b c, radd R a (radd R b c) = radd R (radd R a b) c).

  Lemma radd_0_r' a : radd R a (r0 R) = a.
  Proof. rewrite radd_comm. apply radd_0_l. Qed.

  Lemma rsum_nil : rsum R [] = r0 R.
  Proof. reflexivity. Qed.
  Lemma rsum_cons x l : rsum R (x :: l) = radd R x (rsum R l).
  Proof. reflexivity. Qed.

  Lemma rsum_app l1 l2 : rsum R (l1 ++ l2) = radd R (rsum R l1) (rsum R l2).
  Proof.
    induction l1 as [|a l1 IH]; cbn [app].
    - now rewrite rsum_nil, radd_0_l.
    - now rewrite !rsum_cons, IH, radd_assoc.
  Qed.

  Lemma rsum_flat_map {A B} (F : B -> T) (g : A -> list B) l :
    rsum R (map F (flat_map g l)) = rsum R (map (fun x => rsum R (map F (g x))) l).
  Proof.
    induction l as [|a l IH]; cbn [flat_map map]; [reflexivity|].
    now rewrite map_app, rsum_app, rsum_cons, IH.
  Qed.

  Lemma rsum_ext {A} (F H : A -> T) l : (forall x, In x l -> F x = H x) -> rsum R (map F l) = rsum R (map H l).
  Proof. intros E. f_equal. now apply map_ext_in. Qed.

  Lemma rsum_zero {A} (F : A -> T) l : (forall x, In x l -> F x = r0 R) -> rsum R (map F l) = r0 R.
  Proof.
    induction l as [|a l IH]; intros H; cbn [map]; [reflexivity|].
    rewrite rsum_cons, H by (now left). rewrite radd_0_l. apply IH. intros x Hx. apply H. now right.
  Qed.

  Lemma radd_swap4 a b c d : radd R (radd R a b) (radd R c d) = radd R (radd R a c) (radd R b d).
  Proof.
    rewrite <- !radd_assoc. f_equal. rewrite !radd_assoc. f_equal. apply radd_comm.
  Qed.

  Lemma rsum_add {A} (F H : A -> T) l :
    rsum R (map (fun x => radd R (F x) (H x)) l) = radd R (rsum R (map F l)) (rsum R (map H l)).
  Proof.
    induction l as [|a l IH]; cbn [map].
    - now rewrite rsum_nil, radd_0_l.
    - now rewrite !rsum_cons, IH, radd_swap4.
  Qed.

  Lemma rsum_swap {A B} (F : A -> B -> T) l1 l2 :
    rsum R (map (fun x => rsum R (map (F x) l2)) l1) = rsum R (map (fun y => rsum R (map (fun x => F x y) l1)) l2).
  Proof.
    induction l1 as [|a l1 IH]; cbn [map].
    - symmetry. apply rsum_zero. reflexivity.
    - rewrite rsum_cons, IH, <- rsum_add. apply rsum_ext. intros y _. reflexivity.
  Qed.

  Lemma fold_left_rsum {A} (f : A -> T) l : forall a,
    fold_left (fun acc p => radd R acc (f p)) l a = radd R a (rsum R (map f l)).
  Proof.
    induction l as [|x l IH]; intros a; cbn [fold_left map].
    - now rewrite rsum_nil, radd_0_r'.
    - now rewrite IH, rsum_cons, radd_assoc.
  Qed.

  (* one key singled out of a duplicate-free list *)
  Lemma rsum_pick {K} (ke : K -> K -> bool) (Hke : forall a b, ke a b = true <-> a = b)
        (g' : K -> T) (a : T) k0 : forall L, NoDup L -> In k0 L -> g' k0 = r0 R ->
    rsum R (map (fun k => if ke k k0 then a else g' k) L) = radd R a (rsum R (map g' L)).
  Proof.
    induction L as [|k L IH]; intros Hnd Hin H0; [destruct Hin|].
    inversion Hnd as [|? ? Hk HL]; subst. cbn [map]. rewrite !rsum_cons.
    destruct (ke k k0) eqn:E.
    - apply Hke in E. subst k. rewrite H0, radd_0_l. f_equal. apply rsum_ext. intros x Hx.
      destruct (ke x k0) eqn:E2; [|reflexivity]. apply Hke in E2. subst x. contradiction.
    - destruct Hin as [-> | Hin]; [rewrite (ke_refl ke Hke) in E; discriminate|].
      rewrite (IH HL Hin H0). rewrite !radd_assoc. f_equal. apply radd_comm.
  Qed.

  (* summing a dict's values = summing lookups over any duplicate-free key universe *)
  Lemma rsum_dict {K V} (ke : K -> K -> bool) (Hke : forall a b, ke a b = true <-> a = b)
        (h : V -> T) (L : list K) : NoDup L -> forall d : list (K * V), NoDup (keys d) ->
    (forall k, In k (keys d) -> In k L) ->
    rsum R (map (fun k => match lookup ke k d with Some v => h v | None => r0 R end) L)
    = rsum R (map (fun p => h (snd p)) d).
  Proof.
    intros HL. induction d as [|[k0 v0] d IH]; intros Hnd Hsub.
    - cbn [lookup map]. apply rsum_zero. reflexivity.
    - cbn [keys map fst] in Hnd. inversion Hnd as [|? ? Hk0 Hd]; subst.
      cbn [lookup map snd]. rewrite rsum_cons.
      rewrite <- (IH Hd) by (intros k Hk; apply Hsub; now right).
      rewrite <- (rsum_pick ke Hke (fun k => match lookup ke k d with Some v => h v | None => r0 R end) (h v0) k0 L HL).
      + apply rsum_ext. intros k _. now destruct (ke k k0).
      + apply Hsub. now left.
      + now rewrite (proj2 (lookup_None ke Hke k0 d) Hk0).
  Qed.
End SumFacts.

(* ------------------------------------------------------------------ *)
(* enumeration facts: all_idx, product *)
Section EnumFacts.
  Lemma map_add_seq k n : forall s, map (fun i => k + i) (seq s n) = seq (k + s) n.
  Proof.
    induction n as [|n IH]; intros s; cbn [seq map]; [reflexivity|].
    f_equal. rewrite IH. f_equal. lia.
  Qed.

  Lemma map_offset_all_idx sh : map (offset sh) (all_idx sh) = seq 0 (shape_size sh).
  Proof.
    induction sh as [|d sh IH]; [reflexivity|].
    cbn [all_idx shape_size fold_right]. fold (shape_size sh).
    assert (H : forall s, map (offset (d :: sh)) (flat_map (fun i => map (cons i) (all_idx sh)) (seq s d))
                          = seq (s * shape_size sh) (d * shape_size sh)).
    { induction d as [|d IHd]; intros s; cbn [seq flat_map]; [reflexivity|].
      rewrite map_app, IHd, map_map. cbn [offset].
      rewrite <- (map_map (offset sh) (fun o => s * shape_size sh + o)), IH, map_add_seq.
      replace (S d * shape_size sh) with (shape_size sh + d * shape_size sh) by lia.
      rewrite seq_app. f_equal; f_equal; lia. }
    apply (H 0).
  Qed.

  Lemma map_get_all_idx R (t : tensor R) : length (tdata t) = shape_size (tshape t) ->
    map (get R t) (all_idx (tshape t)) = tdata t.
  Proof.
    intros Hl. unfold get.
    rewrite <- (map_map (offset (tshape t)) (fun k => nth k (tdata t) (r0 R))), map_offset_all_idx, <- Hl.
    apply map_nth_seq.
  Qed.

  Lemma all_idx_length sh : forall idx, In idx (all_idx sh) -> length idx = length sh.
  Proof.
    induction sh as [|d sh IH]; intros idx H; cbn [all_idx] in H.
    - destruct H as [<- | []]. reflexivity.
    - apply in_flat_map in H. destruct H as [i [_ H]]. apply in_map_iff in H. destruct H as [idx' [<- H]].
      cbn [length]. f_equal. now apply IH.
  Qed.

  Lemma product_length {A} (ls : list (list A)) : forall s, In s (product ls) -> length s = length ls.
  Proof.
    induction ls as [|l ls IH]; intros s H; cbn [product] in H.
    - destruct H as [<- | []]. reflexivity.
    - apply in_flat_map in H. destruct H as [x [_ H]]. apply in_map_iff in H. destruct H as [s' [<- H]].
      cbn [length]. f_equal. now apply IH.
  Qed.

  Lemma NoDup_app' {A} (l1 l2 : list A) : NoDup l1 -> NoDup l2 -> (forall x, In x l1 -> ~ In x l2) -> NoDup (l1 ++ l2).
  Proof.
    induction l1 as [|a l1 IH]; intros H1 H2 Hd; cbn [app]; [exact H2|].
    inversion H1 as [|? ? Ha Hl1]; subst. constructor.
    - intros Hin. apply in_app_or in Hin. destruct Hin as [Hin | Hin]; [contradiction|].
      apply (Hd a); [now left | exact Hin].
    - apply IH; [exact Hl1 | exact H2|]. intros x Hx. apply Hd. now right.
  Qed.

  Lemma NoDup_map_cons {A} (x : A) P : NoDup P -> NoDup (map (cons x) P).
  Proof.
    induction 1 as [|s P Hs HP IH]; cbn [map]; constructor; [|exact IH].
    intros Hin. apply in_map_iff in Hin. destruct Hin as [s' [He Hin]]. inversion He. subst. contradiction.
  Qed.

  Lemma NoDup_product {A} (ls : list (list A)) : Forall (@NoDup A) ls -> NoDup (product ls).
  Proof.
    induction 1 as [|l ls Hl Hls IH]; cbn [product]; [constructor; [intros [] | constructor]|].
    induction Hl as [|x l Hx Hl IHl]; cbn [flat_map]; [constructor|].
    apply NoDup_app'; [now apply NoDup_map_cons | exact IHl|].
    intros s Hs Hs'. apply in_map_iff in Hs. destruct Hs as [s1 [<- _]].
    apply in_flat_map in Hs'. destruct Hs' as [x' [Hx' Hs']]. apply in_map_iff in Hs'.
    destruct Hs' as [s2 [He _]]. inversion He. subst. contradiction.
  Qed.

  Lemma In_product_cons {A} (x : A) l s ls : In x l -> In s (product ls) -> In (x :: s) (product (l :: ls)).
  Proof.
    intros Hx Hs. cbn [product]. apply in_flat_map. exists x. split; [exact Hx | now apply in_map].
  Qed.
End EnumFacts.

(* ------------------------------------------------------------------ *)
(* reductions: block sum = dense sum over all coordinates *)
Section SumSem.
  Context (G : Symmetry) (HG : GroupLaws G) (R : Ring).
  Notation keq := (list_eqb (ceqb G)).
  Notation dflt := (dflt_index G).
  Context (radd_0_l : forall a, radd R (r0 R) a = a)
          (radd_comm : forall a b, radd R a b = radd R b a)
          (radd_assoc : forall a b c, radd R a (radd R b c) = radd R (radd R a b) c).

  Lemma mem_spec {A} (eqb : A -> A -> bool) (Heq : forall a b, eqb a b = true <-> a = b) x l :
    mem eqb x l = true <-> In x l.
  Proof.
    induction l as [|a l IH]; cbn [mem In]; [split; [discriminate | intros []]|].
    rewrite orb_true_iff, IH, Heq. split; (intros [H | H]; [left; now symmetry | now right]).
  Qed.

  Lemma nodupb_NoDup {A} (eqb : A -> A -> bool) (Heq : forall a b, eqb a b = true <-> a = b) l :
    nodupb eqb l = true -> NoDup l.
  Proof.
    induction l as [|a l IH]; cbn [nodupb]; intros H; constructor; apply andb_true_iff in H; destruct H as [H1 H2].
    - intros Hin. apply (mem_spec eqb Heq) in Hin. rewrite Hin in H1. discriminate.
    - now apply IH.
  Qed.

  Lemma lookup_nodup (cm : list (C G * nat)) c d :
    NoDup (map fst cm) -> In (c, d) cm -> lookup (ceqb G) c cm = Some d.
  Proof.
    induction cm as [|[c' d'] cm IH]; intros Hnd Hin; [destruct Hin|].
    cbn [map fst] in Hnd. inversion Hnd as [|? ? Hc' Hcm]; subst. cbn [lookup].
    destruct Hin as [He | Hin].
    - inversion He. subst. now rewrite (proj2 (ceqb_eq G HG c c) eq_refl).
    - destruct (ceqb G c c') eqn:E; [|now apply IH].
      apply (ceqb_eq G HG) in E. subst c'. exfalso. apply Hc'.
      change c with (fst (c, d)). now apply in_map.
  Qed.

  Lemma size_of_in ix p : NoDup (icharges G ix) -> In p (chargemap G ix) -> size_of G ix (fst p) = snd p.
  Proof. intros Hnd Hin. destruct p as [c d]. unfold size_of. cbn [fst snd]. now rewrite (lookup_nodup _ c d Hnd Hin). Qed.

  Lemma index_coords_eq ix :
    index_coords G ix = flat_map (fun p => map (fun o => (fst p, o)) (seq 0 (snd p))) (chargemap G ix).
  Proof. reflexivity. Qed.

  (* regroup the dense enumeration: coordinates = (sector, multi-index inside the sector's block) *)
  Lemma coords_decomp ixs : Forall (fun ix => NoDup (icharges G ix)) ixs ->
    forall F : list (coord G) -> RT R,
    rsum R (map F (all_coords G ixs)) =
    rsum R (map (fun s => rsum R (map (fun idx => F (List.combine s idx)) (all_idx (block_shape G ixs s))))
                (product (map (icharges G) ixs))).
  Proof.
    induction 1 as [|ix ixs Hix Hixs IH]; intros F.
    - unfold all_coords, block_shape. cbn [map product all_idx List.combine].
      now rewrite !rsum_cons, !rsum_nil, !(radd_0_r' R radd_0_l radd_comm).
    - unfold all_coords in *. cbn [map product].
      rewrite (rsum_flat_map R radd_0_l radd_assoc), index_coords_eq, (rsum_flat_map R radd_0_l radd_assoc).
      rewrite (rsum_flat_map R radd_0_l radd_assoc). change (icharges G ix) with (map fst (chargemap G ix)). rewrite map_map.
      apply rsum_ext. intros p Hp. rewrite !map_map.
      transitivity (rsum R (map (fun s' => rsum R (map (fun o =>
                      rsum R (map (fun idx' => F ((fst p, o) :: List.combine s' idx')) (all_idx (block_shape G ixs s'))))
                      (seq 0 (snd p)))) (product (map (icharges G) ixs)))).
      + rewrite <- (rsum_swap R radd_0_l radd_comm radd_assoc
                     (fun o s' => rsum R (map (fun idx' => F ((fst p, o) :: List.combine s' idx'))
                                              (all_idx (block_shape G ixs s'))))).
        apply rsum_ext. intros o _. rewrite map_map. apply (IH (fun cs' => F ((fst p, o) :: cs'))).
      + apply rsum_ext. intros s' _.
        change (block_shape G (ix :: ixs) (fst p :: s')) with (size_of G ix (fst p) :: block_shape G ixs s').
        rewrite (size_of_in ix p Hix Hp). cbn [all_idx].
        rewrite (rsum_flat_map R radd_0_l radd_assoc). apply rsum_ext. intros o _. now rewrite map_map.
  Qed.

  Lemma map_fst_combine' {A B} (l : list A) : forall l' : list B, length l = length l' -> map fst (List.combine l l') = l.
  Proof. induction l as [|a l IH]; intros [|b l'] H; try discriminate H; cbn [List.combine map fst]; [reflexivity|]. f_equal. apply IH. cbn [length] in H. lia. Qed.
  Lemma map_snd_combine' {A B} (l : list A) : forall l' : list B, length l = length l' -> map snd (List.combine l l') = l'.
  Proof. induction l as [|a l IH]; intros [|b l'] H; try discriminate H; cbn [List.combine map snd]; [reflexivity|]. f_equal. apply IH. cbn [length] in H. lia. Qed.

  Lemma in_product_tables : forall ixs (s : list (C G)), length s = length ixs ->
    forallb (fun p => mem (ceqb G) (snd p) (icharges G (fst p))) (List.combine ixs s) = true ->
    In s (product (map (icharges G) ixs)).
  Proof.
    induction ixs as [|ix ixs IH]; intros [|c s] Hl H; try discriminate Hl.
    - now left.
    - cbn [List.combine forallb fst snd] in H. apply andb_true_iff in H. destruct H as [H1 H2].
      cbn [map]. apply In_product_cons; [now apply (mem_spec (ceqb G) (ceqb_eq G HG)) | apply IH; [cbn [length] in Hl; lia | exact H2]].
  Qed.

  Lemma wf_sum_facts x : wf_array G R x = true ->
    NoDup (keys (blocks G R x)) /\
    forall s b, In (s, b) (blocks G R x) ->
      length (tdata b) = shape_size (tshape b) /\ In s (product (map (icharges G) (indices G R x))).
  Proof.
    unfold wf_array. intros H. repeat (apply andb_true_iff in H; destruct H as [H ?]).
    split; [apply (nodupb_NoDup keq (keq_eq G HG)); exact H1|].
    intros s b Hin. rewrite forallb_forall in H0. specialize (H0 _ Hin). cbn [fst snd] in H0.
    repeat (apply andb_true_iff in H0; destruct H0 as [H0 ?]).
    unfold sector_ok in H0. repeat (apply andb_true_iff in H0; destruct H0 as [H0 ?]).
    apply Nat.eqb_eq in H0, H3. split; [exact H3 | now apply in_product_tables].
  Qed.

  (* the core: any zero-preserving map phi summed over all dense entries = summed over the stored data *)
  Lemma sum_blocks (phi : RT R -> RT R) x : phi (r0 R) = r0 R -> wf_array G R x = true ->
    Forall (fun ix => NoDup (icharges G ix)) (indices G R x) ->
    rsum R (map (fun cs => phi (sem G R x cs)) (all_coords G (indices G R x)))
    = rsum R (map (fun p => rsum R (map phi (tdata (snd p)))) (blocks G R x)).
  Proof.
    intros Hphi Hw Hnd. destruct (wf_sum_facts x Hw) as [Hkeys Hb]. pose proof (wf_shapes G R x Hw) as Hs.
    rewrite (coords_decomp _ Hnd).
    assert (HL : NoDup (product (map (icharges G) (indices G R x)))).
    { apply NoDup_product. apply Forall_forall. intros l Hl. apply in_map_iff in Hl. destruct Hl as [ix [<- Hix]].
      rewrite Forall_forall in Hnd. now apply Hnd. }
    rewrite <- (rsum_dict R radd_0_l radd_comm radd_assoc keq (keq_eq G HG)
                  (fun b => rsum R (map phi (tdata b))) _ HL (blocks G R x) Hkeys).
    - apply rsum_ext. intros s Hs'. apply product_length in Hs'. rewrite map_length in Hs'.
      transitivity (rsum R (map (fun idx => phi (dsem R keq (blocks G R x) s idx))
                                (all_idx (block_shape G (indices G R x) s)))).
      + apply rsum_ext. intros idx Hidx. apply all_idx_length in Hidx.
        rewrite block_shape_length in Hidx by exact Hs'.
        unfold sem, dsem. now rewrite map_fst_combine', map_snd_combine' by lia.
      + unfold dsem. destruct (lookup keq s (blocks G R x)) as [t|] eqn:Et.
        * apply (lookup_In keq (keq_eq G HG)) in Et. destruct (Hs _ _ Et) as [_ Hsh]. destruct (Hb _ _ Et) as [Hdl _].
          rewrite <- Hsh, <- (map_map (get R t) phi), map_get_all_idx by exact Hdl. reflexivity.
        * apply (rsum_zero R radd_0_l). intros idx _. exact Hphi.
    - intros s Hin. apply in_keys_block in Hin. destruct Hin as [b Hin]. now destruct (Hb _ _ Hin).
  Qed.

  Definition tables_nodup (x : aarray G R) : bool :=
    forallb (fun ix => nodupb (ceqb G) (icharges G ix)) (indices G R x).

  Lemma tables_nodup_Forall x : tables_nodup x = true -> Forall (fun ix => NoDup (icharges G ix)) (indices G R x).
  Proof.
    unfold tables_nodup. rewrite forallb_forall. intros H. apply Forall_forall. intros ix Hix.
    apply (nodupb_NoDup (ceqb G) (ceqb_eq G HG)). now apply H.
  Qed.

  (* x.sum() = the sum of all dense entries *)
  Theorem sum_sem x : wf_array G R x = true -> tables_nodup x = true ->
    a_sum G R x = rsum R (map (sem G R x) (all_coords G (indices G R x))).
  Proof.
    intros Hw Hnd. unfold a_sum, dict_sum.
    rewrite (fold_left_rsum R radd_0_l radd_comm radd_assoc), radd_0_l.
    symmetry. etransitivity; [exact (sum_blocks (fun v => v) x eq_refl Hw (tables_nodup_Forall x Hnd))|].
    apply rsum_ext. intros p _. unfold tsum. now rewrite map_id.
  Qed.

  Context (rmul_0_l : forall a, rmul R (r0 R) a = r0 R).

  (* ||x||^2 = the sum of |entry|^2 over all dense entries *)
  Theorem norm2_sem x : wf_array G R x = true -> tables_nodup x = true ->
    a_norm2 G R x = rsum R (map (fun cs => rmul R (sem G R x cs) (rconj R (sem G R x cs)))
                                (all_coords G (indices G R x))).
  Proof.
    intros Hw Hnd. unfold a_norm2, dict_norm2.
    rewrite (fold_left_rsum R radd_0_l radd_comm radd_assoc), radd_0_l.
    symmetry. exact (sum_blocks (fun v => rmul R v (rconj R v)) x (rmul_0_l _) Hw (tables_nodup_Forall x Hnd)).
  Qed.
End SumSem.

(* ------------------------------------------------------------------ *)
(* duplicate-free charge tables follow from wf_array when the charge order is a strict order *)
Section OrderNodup.
  Context (G : Symmetry) (HG : GroupLaws G) (R : Ring).
  Context (cltb_irrefl : forall a, cltb G a a = false)
          (cltb_trans : forall a b c, cltb G a b = true -> cltb G b c = true -> cltb G a c = true).

  Lemma sorted_tail {A} (ltb : A -> A -> bool) x l : sorted_by ltb (x :: l) = true -> sorted_by ltb l = true.
  Proof.
    destruct l as [|y l]; [reflexivity|]. cbn [sorted_by]. intros H. apply andb_true_iff in H. apply H.
  Qed.

  Lemma sorted_head_lt : forall l x, sorted_by (cltb G) (x :: l) = true -> forall y, In y l -> cltb G x y = true.
  Proof.
    induction l as [|z l IH]; intros x H y Hy; [destruct Hy|].
    pose proof (sorted_tail _ _ _ H) as Ht. cbn [sorted_by] in H. apply andb_true_iff in H. destruct H as [Hxz _].
    destruct Hy as [<- | Hy]; [exact Hxz|]. apply (cltb_trans x z y Hxz). now apply IH.
  Qed.

  Lemma sorted_nodupb l : sorted_by (cltb G) l = true -> nodupb (ceqb G) l = true.
  Proof.
    induction l as [|x l IH]; intros H; [reflexivity|]. cbn [nodupb]. apply andb_true_iff. split.
    - destruct (mem (ceqb G) x l) eqn:E; [|reflexivity]. apply (mem_spec (ceqb G) (ceqb_eq G HG)) in E.
      pose proof (sorted_head_lt l x H x E) as Hc. rewrite cltb_irrefl in Hc. discriminate.
    - apply IH. now apply sorted_tail in H.
  Qed.

  Lemma wf_tables_nodup x : wf_array G R x = true -> tables_nodup G R x = true.
  Proof.
    unfold wf_array, tables_nodup. intros H. repeat (apply andb_true_iff in H; destruct H as [H ?]).
    rewrite forallb_forall in *. intros ix Hix. specialize (H ix Hix).
    destruct ix as [cm d sub]. cbn [wf_index] in H. apply andb_true_iff in H. destruct H as [H _].
    unfold cm_ok in H. apply andb_true_iff in H. destruct H as [H _]. now apply sorted_nodupb.
  Qed.
End OrderNodup.

Lemma Zltb_irrefl (a : Z) : Z.ltb a a = false.
Proof. apply Z.ltb_irrefl. Qed.
Lemma Zltb_trans (a b c : Z) : Z.ltb a b = true -> Z.ltb b c = true -> Z.ltb a c = true.
Proof. rewrite !Z.ltb_lt. lia. Qed.
Lemma pair_ltb_irrefl (a : Z * Z) : pair_ltb a a = false.
Proof. unfold pair_ltb. rewrite !Z.ltb_irrefl. now rewrite andb_false_r. Qed.
Lemma pair_ltb_trans (a b c : Z * Z) : pair_ltb a b = true -> pair_ltb b c = true -> pair_ltb a c = true.
Proof.
  unfold pair_ltb. rewrite !orb_true_iff, !andb_true_iff, !Z.ltb_lt, !Z.eqb_eq. lia.
Qed.

(* ------------------------------------------------------------------ *)
(* the ring laws used above, bundled; the two exact rings of the correspondence satisfy them *)
Record RingLaws (R : Ring) : Prop := {
  rl_add_0_l : forall a, radd R (r0 R) a = a;
  rl_add_0_r : forall a, radd R a (r0 R) = a;
  rl_add_comm : forall a b, radd R a b = radd R b a;
  rl_add_assoc : forall a b c, radd R a (radd R b c) = radd R (radd R a b) c;
  rl_add_neg : forall a, radd R a (rneg R a) = r0 R;
  rl_mul_0_l : forall a, rmul R (r0 R) a = r0 R;
  rl_mul_0_r : forall a, rmul R a (r0 R) = r0 R;
  rl_mul_1_l : forall a, rmul R (r1 R) a = a;
  rl_mul_comm : forall a b, rmul R a b = rmul R b a;
  rl_mul_assoc : forall a b c, rmul R a (rmul R b c) = rmul R (rmul R a b) c;
  rl_distr : forall a b c, rmul R a (radd R b c) = radd R (rmul R a b) (rmul R a c);
  rl_neg_0 : rneg R (r0 R) = r0 R;
  rl_conj_0 : rconj R (r0 R) = r0 R;
  rl_conj_add : forall a b, rconj R (radd R a b) = radd R (rconj R a) (rconj R b);
  rl_conj_mul : forall a b, rconj R (rmul R a b) = rmul R (rconj R a) (rconj R b);
  rl_conj_invol : forall a, rconj R (rconj R a) = a
}.

Theorem ZRing_laws : RingLaws ZRing.
Proof. constructor; cbn [ZRing RT r0 r1 radd rmul rneg rconj]; intros; try reflexivity; ring. Qed.

Theorem GRing_laws : RingLaws GRing.
Proof.
  constructor; cbn [GRing RT r0 r1 radd rmul rneg rconj]; intros;
    repeat match goal with a : (Z * Z)%type |- _ => destruct a end; cbn [fst snd]; try reflexivity; f_equal; ring.
Qed.

(* ------------------------------------------------------------------ *)
(* Examples: the hypotheses of every theorem above hold on a concrete, non-trivial
   instance (Z2 symmetry, Gaussian-integer data, rank 3, sparse operands with
   DIFFERENT stored sector sets, a diagonal vector lacking a charge), and the
   theorems instantiate there with Z2_laws / GRing_laws. *)
Section Examples.
  Local Open Scope Z_scope.
  Notation A := (aarray Z2 GRing).
  Let GL := GRing_laws.

  Definition ex_ix0 : index Z2 := Index Z2 [(0, 2%nat); (1, 1%nat)] false None.
  Definition ex_ix1 : index Z2 := Index Z2 [(0, 1%nat); (1, 2%nat)] true None.
  Definition ex_ix2 : index Z2 := Index Z2 [(0, 1%nat)] false None.
  Definition ex_ixs := [ex_ix0; ex_ix1; ex_ix2].
  Definition ex_x : A := mkA Z2 GRing ex_ixs 0
    [([0; 0; 0], @mkT GRing [2; 1; 1]%nat [(1, 2); (3, -1)]); ([1; 1; 0], @mkT GRing [1; 2; 1]%nat [(0, 1); (2, 2)])].
  (* y stores only the (1,1,0) sector; z stores both, in the other order *)
  Definition ex_y : A := mkA Z2 GRing ex_ixs 0 [([1; 1; 0], @mkT GRing [1; 2; 1]%nat [(4, -3); (1, 1)])].
  Definition ex_z : A := mkA Z2 GRing ex_ixs 0
    [([1; 1; 0], @mkT GRing [1; 2; 1]%nat [(4, -3); (1, 1)]); ([0; 0; 0], @mkT GRing [2; 1; 1]%nat [(5, 0); (-2, 7)])].
  Definition ex_cs : list (coord Z2) := [(1, 0%nat); (1, 1%nat); (0, 0%nat)].    (* in the shared sector *)
  Definition ex_cs0 : list (coord Z2) := [(0, 1%nat); (0, 0%nat); (0, 0%nat)].   (* in the sector y lacks *)
  Definition ex_perm : list nat := [2; 0; 1]%nat.
  (* a diagonal vector for axis 0 that lacks charge 0 *)
  Definition ex_v : bvec Z2 GRing := [(1, @mkT GRing [1]%nat [(2, -1)])].
  Definition ex_vx : bvec Z2 GRing := [(0, @mkT GRing [2]%nat [(1, 1); (2, 0)]); (1, @mkT GRing [1]%nat [(0, 3)])].
  Definition ex_vy : bvec Z2 GRing := [(1, @mkT GRing [1]%nat [(5, 5)])].
  Definition ex_vz : bvec Z2 GRing := [(1, @mkT GRing [1]%nat [(5, 5)]); (0, @mkT GRing [2]%nat [(7, 0); (0, 7)])].

  Example ex_wf : wf_array Z2 GRing ex_x = true /\ wf_array Z2 GRing ex_y = true /\ wf_array Z2 GRing ex_z = true.
  Proof. vm_compute. auto. Qed.
  Example ex_coords : coords_ok Z2 (indices Z2 GRing ex_x) ex_cs = true /\ coords_ok Z2 (indices Z2 GRing ex_y) ex_cs0 = true.
  Proof. vm_compute. auto. Qed.
  Example ex_perm_ok : Permutation ex_perm (seq 0 (ndim Z2 GRing ex_x)).
  Proof. unfold ex_perm. cbn. eapply perm_trans; [apply perm_swap | apply perm_skip, perm_swap]. Qed.

  (* transpose_sem / dagger_sem / expand_dims_sem : wf, permutation, coordinates inside the tables *)
  Example transpose_sem_hyps : wf_array Z2 GRing ex_x = true /\ Permutation ex_perm (seq 0 (ndim Z2 GRing ex_x)) /\
                               coords_ok Z2 (indices Z2 GRing ex_x) ex_cs = true.
  Proof. split; [apply ex_wf | split; [apply ex_perm_ok | apply ex_coords]]. Qed.
  Example transpose_sem_inst :
    sem Z2 GRing (a_transpose Z2 GRing ex_x ex_perm) [(0, 0%nat); (1, 0%nat); (1, 1%nat)] = (2, 2).
  Proof.
    exact (proj1 (transpose_sem Z2 Z2_laws GRing ex_x ex_perm ex_cs (proj1 ex_wf) ex_perm_ok (proj1 ex_coords))).
  Qed.
  Example dagger_sem_inst : sem Z2 GRing (a_dagger Z2 GRing ex_x) (rev ex_cs) = (2, -2).
  Proof. exact (proj1 (dagger_sem Z2 Z2_laws GRing (rl_conj_0 _ GL) ex_x ex_cs (proj1 ex_wf) (proj1 ex_coords))). Qed.
  Example expand_dims_sem_inst :
    sem Z2 GRing (a_expand_dims Z2 GRing ex_x 1) [(1, 0%nat); (0, 0%nat); (1, 1%nat); (0, 0%nat)] = (2, 2).
  Proof. exact (proj1 (expand_dims_sem Z2 Z2_laws GRing ex_x 1 ex_cs (proj1 ex_wf) (proj1 ex_coords))). Qed.

  (* add_sem / mul_sem with different stored sectors: x = {000, 110}, y = {110};
     x + y has a left-only and a shared sector, y + x a right-only one *)
  Example add_sem_hyps : wf_array Z2 GRing ex_y = true /\ coords_ok Z2 (indices Z2 GRing ex_y) ex_cs0 = true /\
                         sectors Z2 GRing ex_x <> sectors Z2 GRing ex_y.
  Proof. split; [apply ex_wf | split; [apply ex_coords | discriminate]]. Qed.
  Example add_sem_inst_shared : sem Z2 GRing (a_add Z2 GRing ex_x ex_y) ex_cs = (3, 3).
  Proof. exact (add_sem Z2 Z2_laws GRing (rl_add_0_l _ GL) (rl_add_0_r _ GL) ex_x ex_y ex_cs (proj1 ex_wf) (proj1 ex_coords)). Qed.
  Example add_sem_inst_right_only : sem Z2 GRing (a_add Z2 GRing ex_y ex_x) ex_cs0 = (3, -1).
  Proof.
    exact (add_sem Z2 Z2_laws GRing (rl_add_0_l _ GL) (rl_add_0_r _ GL) ex_y ex_x ex_cs0
             (proj1 (proj2 ex_wf)) (proj2 ex_coords)).
  Qed.
  Example mul_sem_inst_left_only : sem Z2 GRing (a_mul Z2 GRing ex_x ex_y) ex_cs0 = (0, 0).
  Proof.
    exact (mul_sem Z2 Z2_laws GRing (rl_mul_0_l _ GL) (rl_mul_0_r _ GL) ex_x ex_y ex_cs0 (proj1 ex_wf) (proj2 ex_coords)).
  Qed.

  (* sub_sem: same sector sets (in a different order) subtract; different sets raise *)
  Example sub_sem_hyps : is_none (a_sub Z2 GRing ex_x ex_z) = false /\ is_none (a_sub Z2 GRing ex_x ex_y) = true.
  Proof. vm_compute. auto. Qed.
  Example sub_none_inst : ~ (forall s, In s (sectors Z2 GRing ex_x) <-> In s (sectors Z2 GRing ex_y)).
  Proof. apply (sub_none Z2 Z2_laws GRing). reflexivity. Qed.

  (* multiply_diagonal_sem: the vector lacks charge 0 of axis 0 *)
  Example multiply_diagonal_sem_hyps : lookup (ceqb Z2) 0 ex_v = None /\ is_none (lookup (ceqb Z2) 1 ex_v) = false.
  Proof. vm_compute. auto. Qed.
  Example multiply_diagonal_sem_inst :
    sem Z2 GRing (a_multiply_diagonal Z2 GRing ex_x ex_v 0) ex_cs = (6, 2) /\
    sem Z2 GRing (a_multiply_diagonal Z2 GRing ex_x ex_v 0) ex_cs0 = (0, 0).
  Proof.
    split.
    - exact (multiply_diagonal_sem Z2 Z2_laws GRing (rl_mul_0_l _ GL) (rl_mul_0_r _ GL) ex_x ex_v 0 ex_cs
               (proj1 ex_wf) (proj1 ex_coords)).
    - exact (multiply_diagonal_sem Z2 Z2_laws GRing (rl_mul_0_l _ GL) (rl_mul_0_r _ GL) ex_x ex_v 0 ex_cs0
               (proj1 ex_wf) (proj2 ex_coords)).
  Qed.

  (* squeeze_sem / squeeze_none: axis 2 is a zero-charge size-one axis, axis 0 is not *)
  Example squeeze_sem_hyps : is_none (a_squeeze Z2 GRing ex_x None) = false /\
                             removes Z2 GRing ex_x None = [false; false; true] /\
                             is_none (a_squeeze Z2 GRing ex_x (Some [0%nat])) = true.
  Proof. vm_compute. auto. Qed.

  (* block vectors: x = {0, 1}, y = {1}, z = {1, 0}; offset 1 inside x's charge-0 block *)
  Example v_sem_hyps : vinb Z2 GRing ex_vx (0, 1%nat) /\ vinb Z2 GRing ex_vy (0, 1%nat) /\
                       is_none (v_sub Z2 GRing ex_vx ex_vz) = false /\ is_none (v_sub Z2 GRing ex_vx ex_vy) = true.
  Proof.
    split; [|split; [|vm_compute; auto]]; intros t H; vm_compute in H; inversion H; reflexivity.
  Qed.
  Example v_add_sem_inst : vsem Z2 GRing (v_add Z2 GRing ex_vy ex_vx) (0, 1%nat) = (2, 0).
  Proof.
    exact (v_add_sem Z2 Z2_laws GRing (rl_add_0_l _ GL) (rl_add_0_r _ GL) ex_vy ex_vx (0, 1%nat) (proj1 (proj2 v_sem_hyps))).
  Qed.

  (* sum_sem / norm2_sem: duplicate-free tables (here also via the strict order Z.ltb) *)
  Example sum_sem_hyps : wf_array Z2 GRing ex_x = true /\ tables_nodup Z2 GRing ex_x = true.
  Proof. vm_compute. auto. Qed.
  Example sum_sem_inst : rsum GRing (map (sem Z2 GRing ex_x) (all_coords Z2 (indices Z2 GRing ex_x))) = (6, 4).
  Proof.
    symmetry. exact (sum_sem Z2 Z2_laws GRing (rl_add_0_l _ GL) (rl_add_comm _ GL) (rl_add_assoc _ GL) ex_x
                       (proj1 sum_sem_hyps) (wf_tables_nodup Z2 Z2_laws GRing Zltb_irrefl Zltb_trans ex_x (proj1 ex_wf))).
  Qed.
End Examples.

(* `removes x axes` flags exactly the selected axes *)
Lemma removes_spec G R (x : aarray G R) axes i : i < ndim G R x ->
  (nth i (removes G R x axes) false = true <-> selected G axes i (nth i (indices G R x) (dflt_index G))).
Proof. intros Hi. rewrite nth_removes by exact Hi. apply sel_b_spec. Qed.
