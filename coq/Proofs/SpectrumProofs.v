(* Proofs/SpectrumProofs.v — property C12, continuation: every value returned by svd / eigh IS
   a singular value / an eigenvalue of the DENSE matrix, with an explicit dense singular /
   eigen vector, and the values are counted.

   part 0  block algebra: from the per-block LAPACK contracts (product + orthonormality) to the
           per-block singular-triple / eigen-pair equations (`blk_right_sing`, `blk_left_sing`,
           `eigen_of_product`);
   part 1  sums over the coordinates of one index that live on one charge;
   part 2  svd: (u_k, s_k, vh_k) is a singular triple of the dense matrix for every bond
           coordinate k, the dense factors are orthonormal across charges, the values are counted;
   part 3  eigh: column k of the dense eigenvector matrix is an eigenvector of the dense matrix
           with eigenvalue w[k]; the stored columns are orthonormal; count;
   part 4  what is still not formalised (`C12_full2`);
   part 5  examples over the Gaussian integers (monomial unitary blocks).

   The per-block routines are function parameters with explicit contracts (DESIGN 2.2); the ring
   is any commutative ring with conjugation (`CRingLaws`). *)
From SV Require Import Base.Prelude Base.Sym Base.Tensor Gen.PhasePerm Model.Sectors Model.Array Model.Arith
  Model.Wf Model.Fermi Model.Linalg Model.SymInst Model.Truncate
  Proofs.TensorProofs Proofs.SymLaws Proofs.GroupFacts Proofs.Tdot Proofs.TdotInst Proofs.StructProofs
  Proofs.LazyProofs Proofs.WfProofs Proofs.FermiProofs Proofs.LinalgProofs Proofs.LinalgProofs2.
From Coq Require Import Permutation Ring.
Local Open Scope nat_scope.

(* ================================================================== *)
(* part 0: block algebra *)
Section BlockAlg.
  Context (R : Ring) (CL : CRingLaws R).
  Notation T := (RT R).
  Notation Sum := (rsum R).
  Notation RL := (cr_sum R CL).
  Add Ring cring_spectrum : (cring_theory R CL).

  Definition delta (a b : nat) : T := if Nat.eqb a b then r1 R else r0 R.

  Lemma rsum_delta_r (A : nat -> T) n k : k < n ->
    Sum (map (fun l => rmul R (A l) (delta l k)) (seq 0 n)) = A k.
  Proof.
    intros Hk.
    transitivity (Sum (map (fun l => if Nat.eqb l k then A k else r0 R) (seq 0 n))).
    { apply (Tdot.rsum_ext R). intros l _. unfold delta. destruct (Nat.eqb l k) eqn:E.
      - apply Nat.eqb_eq in E. subst l. rewrite (cr_mul_comm R CL). apply (cr_mul_1_l R CL).
      - apply (rmul_0_r R RL). }
    apply (Tdot.rsum_pick R RL Nat.eqb Nat.eqb_eq); [apply seq_NoDup | apply in_seq; lia].
  Qed.

  (* sum_j (sum_l A_l B_lj) C_j  =  sum_l A_l (sum_j B_lj C_j) *)
  Lemma rsum_contract {J L} (A : L -> T) (B : L -> J -> T) (Cj : J -> T) (js : list J) (ls : list L) :
    Sum (map (fun j => rmul R (Sum (map (fun l => rmul R (A l) (B l j)) ls)) (Cj j)) js)
    = Sum (map (fun l => rmul R (A l) (Sum (map (fun j => rmul R (B l j) (Cj j)) js))) ls).
  Proof.
    transitivity (Sum (map (fun j => Sum (map (fun l => rmul R (A l) (rmul R (B l j) (Cj j))) ls)) js)).
    { apply (Tdot.rsum_ext R). intros j _. rewrite (rsum_mul_r R CL). apply (Tdot.rsum_ext R). intros l _. ring. }
    rewrite (Tdot.rsum_swap R RL (fun j l => rmul R (A l) (rmul R (B l j) (Cj j))) js ls).
    apply (Tdot.rsum_ext R). intros l _. now rewrite (rsum_mul_l R CL).
  Qed.

  (* ---- svd block ---- *)
  Section SvdBlock.
    Context (svd_blk : tensor R -> tensor R * tensor R * tensor R).
    Notation Ub m := (fst (svd_uv R svd_blk m)).
    Notation Sb m := (svd_s R svd_blk m).
    Notation Vb m := (snd (svd_uv R svd_blk m)).
    Context (m : tensor R) (a b k : nat).
    Context (Hm : tshape m = [a; b]) (Hu : tshape (Ub m) = [a; k]) (Hv : tshape (Vb m) = [k; b]).
    Context (Hp : svd_product R svd_blk m).

    Lemma svd_entry i j : i < a -> j < b ->
      Sum (map (fun l => rmul R (rmul R (get R (Ub m) [i; l]) (get R (Sb m) [l])) (get R (Vb m) [l; j])) (seq 0 k))
      = get R m [i; j].
    Proof.
      intros Hi Hj. rewrite <- (Hp i j) by (rewrite Hm; cbn [nth]; assumption).
      unfold svd_scaled. cbn [fst snd].
      destruct (tmul_diag_shape R (Ub m) (Sb m) 1 _ Hu) as [Hsh _].
      rewrite (get_mm R _ _ a k b i j Hsh Hv Hi Hj).
      apply (Tdot.rsum_ext R). intros l Hl. apply in_seq in Hl. f_equal.
      rewrite (get_tmul_diag R) by (rewrite Hu; apply inb2; lia). reflexivity.
    Qed.

    (* m . vh_o^H = s_o u_o *)
    Lemma blk_right_sing i o : orth_rows R (Vb m) -> i < a -> o < k ->
      Sum (map (fun j => rmul R (get R m [i; j]) (rconj R (get R (Vb m) [o; j]))) (seq 0 b))
      = rmul R (get R (Sb m) [o]) (get R (Ub m) [i; o]).
    Proof.
      intros Hor Hi Ho.
      transitivity (Sum (map (fun j => rmul R
         (Sum (map (fun l => rmul R (rmul R (get R (Ub m) [i; l]) (get R (Sb m) [l])) (get R (Vb m) [l; j])) (seq 0 k)))
         (rconj R (get R (Vb m) [o; j]))) (seq 0 b))).
      { apply (Tdot.rsum_ext R). intros j Hj. apply in_seq in Hj. rewrite svd_entry by lia. reflexivity. }
      rewrite (rsum_contract (fun l => rmul R (get R (Ub m) [i; l]) (get R (Sb m) [l]))
                 (fun l j => get R (Vb m) [l; j]) (fun j => rconj R (get R (Vb m) [o; j]))).
      transitivity (Sum (map (fun l => rmul R (rmul R (get R (Ub m) [i; l]) (get R (Sb m) [l])) (delta l o)) (seq 0 k))).
      { apply (Tdot.rsum_ext R). intros l Hl. apply in_seq in Hl. f_equal.
        pose proof (Hor l o) as H. rewrite Hv in H. cbn [nth] in H. apply H; lia. }
      rewrite (rsum_delta_r (fun l => rmul R (get R (Ub m) [i; l]) (get R (Sb m) [l])) k o Ho).
      apply (cr_mul_comm R CL).
    Qed.

    (* u_o^H . m = s_o vh_o *)
    Lemma blk_left_sing o j : orth_cols R (Ub m) -> o < k -> j < b ->
      Sum (map (fun i => rmul R (rconj R (get R (Ub m) [i; o])) (get R m [i; j])) (seq 0 a))
      = rmul R (get R (Sb m) [o]) (get R (Vb m) [o; j]).
    Proof.
      intros Hoc Ho Hj.
      transitivity (Sum (map (fun i => rmul R
         (Sum (map (fun l => rmul R (rmul R (get R (Sb m) [l]) (get R (Vb m) [l; j])) (get R (Ub m) [i; l])) (seq 0 k)))
         (rconj R (get R (Ub m) [i; o]))) (seq 0 a))).
      { apply (Tdot.rsum_ext R). intros i Hi. apply in_seq in Hi. rewrite <- (svd_entry i j) by lia.
        rewrite (cr_mul_comm R CL). f_equal. apply (Tdot.rsum_ext R). intros l _. ring. }
      rewrite (rsum_contract (fun l => rmul R (get R (Sb m) [l]) (get R (Vb m) [l; j]))
                 (fun l i => get R (Ub m) [i; l]) (fun i => rconj R (get R (Ub m) [i; o]))).
      transitivity (Sum (map (fun l => rmul R (rmul R (get R (Sb m) [l]) (get R (Vb m) [l; j])) (delta l o)) (seq 0 k))).
      { apply (Tdot.rsum_ext R). intros l Hl. apply in_seq in Hl. f_equal.
        pose proof (Hoc o l) as H. rewrite Hu in H. cbn [nth] in H. unfold delta. rewrite Nat.eqb_sym, <- H by lia.
        apply (Tdot.rsum_ext R). intros i _. apply (cr_mul_comm R CL). }
      exact (rsum_delta_r (fun l => rmul R (get R (Sb m) [l]) (get R (Vb m) [l; j])) k o Ho).
    Qed.
  End SvdBlock.

  (* ---- eigh block ---- *)
  Section EighBlock.
    Context (eigh_blk : tensor R -> tensor R * tensor R).
    Notation W m := (fst (eigh_blk m)).
    Notation V m := (snd (eigh_blk m)).

    (* EIGEN-PAIR CONTRACT of the per-block routine on an n x n block m |-> (w, v):
       m . v = v . diag(w), entry by entry *)
    Definition eigh_eigen (m : tensor R) : Prop :=
      forall i k, i < nth 0 (tshape m) 0 -> k < nth 0 (tshape m) 0 ->
        Sum (map (fun j => rmul R (get R m [i; j]) (get R (V m) [j; k])) (seq 0 (nth 0 (tshape m) 0)))
        = rmul R (get R (W m) [k]) (get R (V m) [i; k]).

    (* it follows from the product contract of C11b and orthonormal columns *)
    Lemma eigen_of_product (m : tensor R) n : tshape m = [n; n] -> tshape (V m) = [n; n] ->
      eigh_product R eigh_blk m -> orth_cols R (V m) -> eigh_eigen m.
    Proof.
      intros Hm Hv Hp Hoc i k. rewrite Hm. cbn [nth]. intros Hi Hk.
      transitivity (Sum (map (fun j => rmul R
         (Sum (map (fun l => rmul R (rmul R (get R (V m) [i; l]) (get R (W m) [l])) (rconj R (get R (V m) [j; l]))) (seq 0 n)))
         (get R (V m) [j; k])) (seq 0 n))).
      { apply (Tdot.rsum_ext R). intros j Hj. apply in_seq in Hj. f_equal.
        pose proof (Hp i j) as H. rewrite Hm in H. cbn [nth] in H. symmetry. apply H; lia. }
      rewrite (rsum_contract (fun l => rmul R (get R (V m) [i; l]) (get R (W m) [l]))
                 (fun l j => rconj R (get R (V m) [j; l])) (fun j => get R (V m) [j; k])).
      transitivity (Sum (map (fun l => rmul R (rmul R (get R (V m) [i; l]) (get R (W m) [l])) (delta l k)) (seq 0 n))).
      { apply (Tdot.rsum_ext R). intros l Hl. apply in_seq in Hl. f_equal.
        pose proof (Hoc l k) as H. rewrite Hv in H. cbn [nth] in H. apply H; lia. }
      rewrite (rsum_delta_r (fun l => rmul R (get R (V m) [i; l]) (get R (W m) [l])) n k Hk).
      apply (cr_mul_comm R CL).
    Qed.
  End EighBlock.
End BlockAlg.

(* ================================================================== *)
(* part 1: sums over the coordinates of one index *)
Section CoordSums.
  Context (G : Symmetry) (HG : GroupLaws G) (R : Ring) (RL : SumLaws R).
  Notation ceqb_spec := (ceqb_eq G HG).
  Notation Sum := (rsum R).

  (* a summand that vanishes off the charge c: only the coordinates (c, o) contribute *)
  Lemma rsum_one_charge (ix : index G) (c : C G) (F : coord G -> RT R) :
    NoDup (icharges G ix) -> (forall p, fst p <> c -> F p = r0 R) ->
    Sum (map F (index_coords G ix)) = Sum (map (fun o => F (c, o)) (seq 0 (size_of G ix c))).
  Proof.
    intros Hnd Hz. rewrite (Tdot.rsum_index_coords G R RL).
    transitivity (Sum (map (fun p : C G * nat => if ceqb G c (fst p)
                     then Sum (map (fun o => F (c, o)) (seq 0 (snd p))) else r0 R) (chargemap G ix))).
    { apply (Tdot.rsum_ext R). intros p _. destruct (ceqb G c (fst p)) eqn:E.
      - apply ceqb_spec in E. now rewrite E.
      - apply (Tdot.rsum_zero R RL). intros o _. apply Hz. cbn [fst]. intros H. rewrite H in E.
        rewrite (proj2 (ceqb_spec _ _) eq_refl) in E. discriminate. }
    rewrite (Tdot.rsum_lookup R RL (ceqb G) ceqb_spec (chargemap G ix) c
               (fun d => Sum (map (fun o => F (c, o)) (seq 0 d))) Hnd).
    unfold size_of. destruct (lookup (ceqb G) c (chargemap G ix)); reflexivity.
  Qed.

  Lemma length_index_coords (ix : index G) : length (index_coords G ix) = list_sum (map snd (chargemap G ix)).
  Proof.
    unfold index_coords. induction (chargemap G ix) as [|p l IH]; [reflexivity|].
    cbn [flat_map]. rewrite app_length, map_length, seq_length. cbn [map list_sum fold_right]. f_equal. exact IH.
  Qed.
End CoordSums.

Lemma list_sum_perm (l l' : list nat) : Permutation l l' -> list_sum l = list_sum l'.
Proof. induction 1; unfold list_sum in *; cbn [fold_right]; lia. Qed.

(* number of values stored in a block vector (by the declared shapes) *)
Definition vcount (G : Symmetry) (R : Ring) (s : bvec G R) : nat :=
  list_sum (map (fun cs => nth 0 (tshape (snd cs)) 0) s).

(* ================================================================== *)
(* part 2: svd *)
Section SvdDense.
  Context (G : Symmetry) (HG : GroupLaws G) (R : Ring) (CL : CRingLaws R).
  Context (cltb_irrefl : forall c : C G, cltb G c c = false)
          (cltb_trans : forall a b c : C G, cltb G a b = true -> cltb G b c = true -> cltb G a c = true)
          (cltb_total : forall a b : C G, a <> b -> cltb G a b = true \/ cltb G b a = true).
  Context (svd_blk : tensor R -> tensor R * tensor R * tensor R) (Hshapes : svd_shapes R svd_blk).
  Notation sector := (list (C G)).
  Notation keq := (list_eqb (ceqb G)).
  Notation arr := (aarray G R).
  Notation ceqb_spec := (ceqb_eq G HG).
  Notation keq_spec := (Tdot.keq_spec G ceqb_spec).
  Notation col := (col_charge G).
  Notation Sum := (rsum R).
  Notation RL := (cr_sum R CL).
  Notation Ub m := (fst (svd_uv R svd_blk m)).
  Notation Sb m := (svd_s R svd_blk m).
  Notation Vb m := (snd (svd_uv R svd_blk m)).
  Notation blk := (sector * tensor R)%type.

  Context (x : arr) (Hw : wf_array G R x = true) (Hn : ndim G R x = 2).
  Let bl := blocks G R x.
  Let i0 := ix0 G R x.
  Let i1 := ix1 G R x.
  Let U := u0 G R svd_blk x.
  Let S := s0 G R svd_blk x.
  Let VH := vh0 G R svd_blk x.
  Let bond := ix1 G R U.

  Lemma Hx' : mat_ok G R x i0 i1.
  Proof. exact (wf_mat G HG R x Hw Hn). Qed.

  Lemma nd0 : NoDup (icharges G i0).
  Proof. exact (Tdot.wf_index_nodup G cltb_irrefl cltb_trans i0 (mo_wf0 G R x i0 i1 Hx')). Qed.
  Lemma nd1 : NoDup (icharges G i1).
  Proof. exact (Tdot.wf_index_nodup G cltb_irrefl cltb_trans i1 (mo_wf1 G R x i0 i1 Hx')). Qed.

  (* shapes of the factors of one stored block *)
  Lemma blk_shapes r c m : In ([r; c], m) bl ->
    exists k, 0 < k /\ tshape m = [size_of G i0 r; size_of G i1 c] /\
      tshape (Ub m) = [size_of G i0 r; k] /\ tshape (Sb m) = [k] /\ tshape (Vb m) = [k; size_of G i1 c] /\
      0 < size_of G i0 r /\ 0 < size_of G i1 c /\ size_of G bond c = k.
  Proof.
    intros Hin.
    destruct (mo_blk G R x i0 i1 Hx' _ m Hin) as (c0 & c1 & E & _ & _ & _ & _ & _ & Hsh & Hl & Hp0 & Hp1).
    inversion E; subst c0 c1. rewrite Hsh in Hl.
    destruct (Hshapes m _ _ Hsh Hp0 Hp1 Hl) as (k & Hk & Hu & Hs & Hv & _).
    exists k. repeat split; try assumption.
    destruct (block_facts G HG R (svd_uv R svd_blk) x i0 i1 Hx' (svd_uv_shapes R svd_blk Hshapes) _ m Hin)
      as (c0 & c1 & k' & E' & _ & _ & _ & _ & _ & _ & _ & Hu' & _ & _ & _ & Hsz).
    inversion E'; subst c0 c1. rewrite Hu in Hu'. injection Hu' as Hk'. rewrite Hk'. exact Hsz.
  Qed.

  (* a coordinate of the bond belongs to exactly one stored block: the one with that column charge *)
  Lemma bond_coord (k : coord G) : coords_ok G [bond] [k] = true ->
    exists r m, In ([r; fst k], m) bl /\ snd k < ncols R (Ub m).
  Proof.
    intros Hk. apply (coords_ok_1 G) in Hk. unfold bond, U, u0, left_arr, ix1 in Hk. cbn [indices nth] in Hk.
    rewrite (size_of_mk_index G HG) in Hk by exact (cm_nodup G HG R (svd_uv R svd_blk) x i0 i1 Hx').
    destruct (lookup (ceqb G) (fst k) _) as [n|] eqn:E; [|lia].
    apply (Tdot.lookup_In (ceqb G) ceqb_spec) in E. apply in_map_iff in E. destruct E as [[s m] [E Hin]].
    cbn [fst snd] in E. inversion E as [[Ec En]].
    destruct (mo_blk G R x i0 i1 Hx' s m Hin) as (c0 & c1 & -> & _).
    unfold col_charge. cbn [nth]. exists c0, m. split; [exact Hin | lia].
  Qed.

  (* entries of x through a stored block: along its column charge / along its row charge *)
  Lemma sem_x_col r c m (i j : coord G) : In ([r; c], m) bl -> fst j = c ->
    sem G R x [i; j] = if ceqb G r (fst i) then get R m [snd i; snd j] else r0 R.
  Proof.
    intros Hin Hj. unfold sem. cbn [map fst snd]. rewrite Hj. destruct (ceqb G r (fst i)) eqn:E.
    - apply ceqb_spec in E. rewrite <- E.
      now rewrite (Tdot.lookup_nodup_In keq keq_spec [r; c] m _ (mo_nd G R x i0 i1 Hx') Hin).
    - destruct (lookup keq [fst i; c] (blocks G R x)) as [m'|] eqn:El; [|reflexivity].
      apply (Tdot.lookup_In keq keq_spec) in El.
      pose proof (row_unique G HG R x Hw Hn ([r; c], m) ([fst i; c], m') Hin El eq_refl) as Hru.
      cbn [fst] in Hru. inversion Hru as [Hr]. rewrite Hr, (proj2 (ceqb_spec _ _) eq_refl) in E. discriminate.
  Qed.

  Lemma sem_x_row r c m (i j : coord G) : In ([r; c], m) bl -> fst i = r ->
    sem G R x [i; j] = if ceqb G c (fst j) then get R m [snd i; snd j] else r0 R.
  Proof.
    intros Hin Hi. unfold sem. cbn [map fst snd]. rewrite Hi. destruct (ceqb G c (fst j)) eqn:E.
    - apply ceqb_spec in E. rewrite <- E.
      now rewrite (Tdot.lookup_nodup_In keq keq_spec [r; c] m _ (mo_nd G R x i0 i1 Hx') Hin).
    - destruct (lookup keq [r; fst j] (blocks G R x)) as [m'|] eqn:El; [|reflexivity].
      apply (Tdot.lookup_In keq keq_spec) in El.
      assert (Heq : [r; fst j] = [r; c]).
      { apply (row_determines_col G HG R x i0 i1 Hx'); [| | reflexivity]; unfold sectors; apply in_map_iff;
          [now exists ([r; fst j], m') | now exists ([r; c], m)]. }
      inversion Heq as [Hc]. rewrite Hc, (proj2 (ceqb_spec _ _) eq_refl) in E. discriminate.
  Qed.

  Lemma vsem_S r c m o : In ([r; c], m) bl -> vsem G R S (c, o) = get R (Sb m) [o].
  Proof.
    intros Hin. unfold vsem, dsem, S, s0. cbn [fst snd].
    rewrite (Tdot.lookup_nodup_In (ceqb G) ceqb_spec c (Sb m)); [reflexivity | |].
    - rewrite map_map. exact (cols_nodup G HG R x i0 i1 Hx').
    - apply in_map_iff. exists ([r; c], m). split; [reflexivity | exact Hin].
  Qed.

  Lemma ceqb_refl c : ceqb G c c = true.
  Proof. now apply ceqb_spec. Qed.

  Lemma ceqb_neq a b : a <> b -> ceqb G a b = false.
  Proof. intros H. destruct (ceqb G a b) eqn:E; [|reflexivity]. apply ceqb_spec in E. contradiction. Qed.

  (* ---- singular triples ---- *)
  Context (Hprod : forall sec m, In (sec, m) bl -> svd_product R svd_blk m).
  Context (Horth : forall sec m, In (sec, m) bl -> orth_cols R (Ub m) /\ orth_rows R (Vb m)).

  (* x . vh_k^H = s_k u_k *)
  Theorem right_singular_one (i k : coord G) :
    coords_ok G [i0] [i] = true -> coords_ok G [bond] [k] = true ->
    Sum (map (fun j => rmul R (sem G R x [i; j]) (rconj R (sem G R VH [k; j]))) (index_coords G i1))
    = rmul R (vsem G R S k) (sem G R U [i; k]).
  Proof.
    intros Hi Hk. destruct (bond_coord k Hk) as (r & m & Hin & Ho).
    destruct k as [c o], i as [ci oi]. cbn [fst snd] in *.
    destruct (blk_shapes r c m Hin) as (kk & Hkk & Hm & Hu & Hs & Hv & Hp0 & Hp1 & Hsz).
    unfold ncols in Ho. rewrite Hu in Ho. cbn [nth] in Ho.
    apply (coords_ok_1 G) in Hi. cbn [fst snd] in Hi.
    rewrite (rsum_one_charge G HG R RL i1 c) by
      (exact nd1 || (intros p Hp; unfold VH; rewrite (sem_vh0 G HG R svd_blk x Hw Hn ([r; c], m) r c (c, o) p Hin eq_refl eq_refl);
                     rewrite (ceqb_neq c (fst p)) by congruence; rewrite (cr_conj_0 R CL); apply (rmul_0_r R RL))).
    unfold U. rewrite (sem_u0 G HG R svd_blk x Hw Hn ([r; c], m) r c (ci, oi) (c, o) Hin eq_refl eq_refl).
    rewrite (vsem_S r c m o Hin). cbn [fst snd].
    destruct (ceqb G r ci) eqn:Er.
    - apply ceqb_spec in Er. subst ci.
      rewrite <- (blk_right_sing R CL svd_blk m _ _ kk Hm Hu Hv (Hprod _ m Hin) oi o (proj2 (Horth _ m Hin)) Hi Ho).
      apply (Tdot.rsum_ext R). intros j _.
      rewrite (sem_x_col r c m (r, oi) (c, j) Hin eq_refl). cbn [fst snd]. rewrite ceqb_refl.
      unfold VH. rewrite (sem_vh0 G HG R svd_blk x Hw Hn ([r; c], m) r c (c, o) (c, j) Hin eq_refl eq_refl).
      cbn [fst snd]. now rewrite ceqb_refl.
    - rewrite (rmul_0_r R RL). apply (Tdot.rsum_zero R RL). intros j _.
      rewrite (sem_x_col r c m (ci, oi) (c, j) Hin eq_refl). cbn [fst snd]. rewrite Er. apply (rmul_0_l R RL).
  Qed.

  (* u_k^H . x = s_k vh_k *)
  Theorem left_singular_one (k j : coord G) :
    coords_ok G [bond] [k] = true -> coords_ok G [i1] [j] = true ->
    Sum (map (fun i => rmul R (rconj R (sem G R U [i; k])) (sem G R x [i; j])) (index_coords G i0))
    = rmul R (vsem G R S k) (sem G R VH [k; j]).
  Proof.
    intros Hk Hj. destruct (bond_coord k Hk) as (r & m & Hin & Ho).
    destruct k as [c o], j as [cj oj]. cbn [fst snd] in *.
    destruct (blk_shapes r c m Hin) as (kk & Hkk & Hm & Hu & Hs & Hv & Hp0 & Hp1 & Hsz).
    unfold ncols in Ho. rewrite Hu in Ho. cbn [nth] in Ho.
    apply (coords_ok_1 G) in Hj. cbn [fst snd] in Hj.
    rewrite (rsum_one_charge G HG R RL i0 r) by
      (exact nd0 || (intros p Hp; unfold U; rewrite (sem_u0 G HG R svd_blk x Hw Hn ([r; c], m) r c p (c, o) Hin eq_refl eq_refl);
                     rewrite (ceqb_neq r (fst p)) by congruence; rewrite (cr_conj_0 R CL); apply (rmul_0_l R RL))).
    unfold VH. rewrite (sem_vh0 G HG R svd_blk x Hw Hn ([r; c], m) r c (c, o) (cj, oj) Hin eq_refl eq_refl).
    rewrite (vsem_S r c m o Hin). cbn [fst snd].
    destruct (ceqb G c cj) eqn:Ec.
    - apply ceqb_spec in Ec. subst cj.
      rewrite <- (blk_left_sing R CL svd_blk m _ _ kk Hm Hu Hv (Hprod _ m Hin) o oj (proj1 (Horth _ m Hin)) Ho Hj).
      apply (Tdot.rsum_ext R). intros i _.
      rewrite (sem_x_row r c m (r, i) (c, oj) Hin eq_refl). cbn [fst snd]. rewrite ceqb_refl.
      unfold U. rewrite (sem_u0 G HG R svd_blk x Hw Hn ([r; c], m) r c (r, i) (c, o) Hin eq_refl eq_refl).
      cbn [fst snd]. now rewrite ceqb_refl.
    - rewrite (rmul_0_r R RL). apply (Tdot.rsum_zero R RL). intros i _.
      rewrite (sem_x_row r c m (r, i) (cj, oj) Hin eq_refl). cbn [fst snd]. rewrite Ec. apply (rmul_0_r R RL).
  Qed.

  (* the block of a bond coordinate is unique *)
  Lemma bond_block_unique r c m r' m' : In ([r; c], m) bl -> In ([r'; c], m') bl -> r' = r /\ m' = m.
  Proof.
    intros H H'. pose proof (row_unique G HG R x Hw Hn ([r; c], m) ([r'; c], m') H H' eq_refl) as E.
    cbn [fst] in E. inversion E; subst r'. split; [reflexivity|].
    pose proof (same_block G HG R x Hw Hn _ _ H H' eq_refl) as E2. now inversion E2.
  Qed.

  (* the dense U has orthonormal columns: across charges the row supports are disjoint *)
  Theorem gram_U_one (k k' : coord G) :
    coords_ok G [bond] [k] = true -> coords_ok G [bond] [k'] = true ->
    Sum (map (fun i => rmul R (rconj R (sem G R U [i; k])) (sem G R U [i; k'])) (index_coords G i0))
    = if ceq G k k' then r1 R else r0 R.
  Proof.
    intros Hk Hk'. destruct (bond_coord k Hk) as (r & m & Hin & Ho). destruct (bond_coord k' Hk') as (r' & m' & Hin' & Ho').
    destruct k as [c o], k' as [c' o']. cbn [fst snd] in *.
    destruct (blk_shapes r c m Hin) as (kk & Hkk & Hm & Hu & Hs & Hv & Hp0 & Hp1 & Hsz).
    unfold ncols in Ho. rewrite Hu in Ho. cbn [nth] in Ho.
    rewrite (rsum_one_charge G HG R RL i0 r) by
      (exact nd0 || (intros p Hp; unfold U; rewrite (sem_u0 G HG R svd_blk x Hw Hn ([r; c], m) r c p (c, o) Hin eq_refl eq_refl);
                     rewrite (ceqb_neq r (fst p)) by congruence; rewrite (cr_conj_0 R CL); apply (rmul_0_l R RL))).
    unfold ceq. cbn [fst snd]. destruct (ceqb G c c') eqn:Ec; cbn [andb].
    - apply ceqb_spec in Ec. subst c'. destruct (bond_block_unique r c m r' m' Hin Hin') as [-> ->].
      unfold ncols in Ho'. rewrite Hu in Ho'. cbn [nth] in Ho'.
      pose proof (proj1 (Horth _ m Hin) o o') as Hoc. rewrite Hu in Hoc. cbn [nth] in Hoc. rewrite <- (Hoc Ho Ho').
      apply (Tdot.rsum_ext R). intros i _. unfold U.
      rewrite (sem_u0 G HG R svd_blk x Hw Hn ([r; c], m) r c (r, i) (c, o) Hin eq_refl eq_refl),
              (sem_u0 G HG R svd_blk x Hw Hn ([r; c], m) r c (r, i) (c, o') Hin eq_refl eq_refl). cbn [fst snd].
      now rewrite ceqb_refl.
    - apply (Tdot.rsum_zero R RL). intros i _. unfold U.
      rewrite (sem_u0 G HG R svd_blk x Hw Hn ([r'; c'], m') r' c' (r, i) (c', o') Hin' eq_refl eq_refl). cbn [fst snd].
      destruct (ceqb G r' r) eqn:Er; [|apply (rmul_0_r R RL)].
      exfalso. apply ceqb_spec in Er. subst r'.
      assert (Heq : [r; c'] = [r; c]).
      { apply (row_determines_col G HG R x i0 i1 Hx'); [| | reflexivity]; unfold sectors; apply in_map_iff;
          [now exists ([r; c'], m') | now exists ([r; c], m)]. }
      inversion Heq as [Hc]. rewrite Hc, ceqb_refl in Ec. discriminate.
  Qed.

  (* the dense Vh has orthonormal rows *)
  Theorem gram_Vh_one (k k' : coord G) :
    coords_ok G [bond] [k] = true -> coords_ok G [bond] [k'] = true ->
    Sum (map (fun j => rmul R (sem G R VH [k; j]) (rconj R (sem G R VH [k'; j]))) (index_coords G i1))
    = if ceq G k k' then r1 R else r0 R.
  Proof.
    intros Hk Hk'. destruct (bond_coord k Hk) as (r & m & Hin & Ho). destruct (bond_coord k' Hk') as (r' & m' & Hin' & Ho').
    destruct k as [c o], k' as [c' o']. cbn [fst snd] in *.
    destruct (blk_shapes r c m Hin) as (kk & Hkk & Hm & Hu & Hs & Hv & Hp0 & Hp1 & Hsz).
    unfold ncols in Ho. rewrite Hu in Ho. cbn [nth] in Ho.
    rewrite (rsum_one_charge G HG R RL i1 c) by
      (exact nd1 || (intros p Hp; unfold VH; rewrite (sem_vh0 G HG R svd_blk x Hw Hn ([r; c], m) r c (c, o) p Hin eq_refl eq_refl);
                     rewrite (ceqb_neq c (fst p)) by congruence; apply (rmul_0_l R RL))).
    unfold ceq. cbn [fst snd]. destruct (ceqb G c c') eqn:Ec; cbn [andb].
    - apply ceqb_spec in Ec. subst c'. destruct (bond_block_unique r c m r' m' Hin Hin') as [-> ->].
      unfold ncols in Ho'. rewrite Hu in Ho'. cbn [nth] in Ho'.
      pose proof (proj2 (Horth _ m Hin) o o') as Hor. rewrite Hv in Hor. cbn [nth] in Hor. rewrite <- (Hor Ho Ho').
      apply (Tdot.rsum_ext R). intros j _. unfold VH.
      rewrite (sem_vh0 G HG R svd_blk x Hw Hn ([r; c], m) r c (c, o) (c, j) Hin eq_refl eq_refl),
              (sem_vh0 G HG R svd_blk x Hw Hn ([r; c], m) r c (c, o') (c, j) Hin eq_refl eq_refl). cbn [fst snd].
      now rewrite ceqb_refl.
    - apply (Tdot.rsum_zero R RL). intros j _. unfold VH.
      rewrite (sem_vh0 G HG R svd_blk x Hw Hn ([r'; c'], m') r' c' (c', o') (c, j) Hin' eq_refl eq_refl). cbn [fst snd].
      rewrite (ceqb_neq c' c), (cr_conj_0 R CL); [apply (rmul_0_r R RL)|].
      intros H. rewrite H, ceqb_refl in Ec. discriminate.
  Qed.

  (* ---- counting ---- *)
  (* one singular value per coordinate of the bond *)
  Theorem count_bond : vcount G R S = length (index_coords G bond).
  Proof.
    rewrite (length_index_coords G). unfold bond, U, u0, left_arr, ix1. cbn [indices nth]. unfold mk_index. cbn [chargemap].
    rewrite (list_sum_perm _ _ (Permutation_map snd (sort_cm_perm G _))).
    unfold vcount, S, s0. rewrite !map_map. f_equal. apply map_ext_in. intros [s m] Hin. cbn [fst snd].
    destruct (mo_blk G R x i0 i1 Hx' s m Hin) as (c0 & c1 & -> & _).
    destruct (blk_shapes c0 c1 m Hin) as (kk & _ & _ & Hu & Hs & _). unfold ncols. now rewrite Hu, Hs.
  Qed.

  (* with the shapes of the REDUCED factorisation: min(rows, columns) values per stored block *)
  Definition svd_reduced : Prop :=
    forall m a b, tshape m = [a; b] -> tshape (Sb m) = [Nat.min a b].

  Theorem count_min : svd_reduced ->
    vcount G R S = list_sum (map (fun sb : blk => Nat.min (size_of G i0 (row_charge G (fst sb))) (size_of G i1 (col (fst sb)))) bl).
  Proof.
    intros Hred. unfold vcount, S, s0. rewrite map_map. f_equal. apply map_ext_in. intros [s m] Hin. cbn [fst snd].
    destruct (mo_blk G R x i0 i1 Hx' s m Hin) as (c0 & c1 & -> & _ & _ & _ & _ & _ & Hsh & _).
    rewrite (Hred m _ _ Hsh). reflexivity.
  Qed.
End SvdDense.

(* ================================================================== *)
(* part 3: eigh *)
Section EighDense.
  Context (G : Symmetry) (HG : GroupLaws G) (R : Ring) (CL : CRingLaws R).
  Context (cltb_irrefl : forall c : C G, cltb G c c = false)
          (cltb_trans : forall a b c : C G, cltb G a b = true -> cltb G b c = true -> cltb G a c = true).
  Context (eigh_blk : tensor R -> tensor R * tensor R).
  Notation sector := (list (C G)).
  Notation keq := (list_eqb (ceqb G)).
  Notation arr := (aarray G R).
  Notation ceqb_spec := (ceqb_eq G HG).
  Notation keq_spec := (Tdot.keq_spec G ceqb_spec).
  Notation col := (col_charge G).
  Notation Sum := (rsum R).
  Notation RL := (cr_sum R CL).
  Notation W m := (fst (eigh_blk m)).
  Notation V m := (snd (eigh_blk m)).

  Context (x : arr) (w : bvec G R) (v : arr).
  Context (Hw : wf_array G R x = true) (Hn : ndim G R x = 2) (Hq : charge G R x = ident G) (Hh : herm_structured G R x).
  Context (Hsh : eigh_shapes R eigh_blk).
  Context (He : a_eigh G R eigh_blk x = Some (w, v)).
  Let bl := blocks G R x.
  Let i0 := ix0 G R x.
  Let i1 := ix1 G R x.
  Notation semv := (sem_v G HG R eigh_blk x w v Hw Hn Hq Hh Hsh He).

  Lemma Hxe : mat_ok G R x i0 i1.
  Proof. exact (wf_mat G HG R x Hw Hn). Qed.

  Lemma lookup_diag ci c m : lookup keq [ci; c] bl = Some m -> ci = c.
  Proof.
    intros E. apply (Tdot.lookup_In keq keq_spec) in E.
    destruct (herm_diag G HG R x Hw Hn Hq Hh _ m E) as (c' & Hc & _). now inversion Hc.
  Qed.

  Lemma lookup_offdiag ci c : ci <> c -> lookup keq [ci; c] bl = None.
  Proof. intros H. destruct (lookup keq [ci; c] bl) as [m|] eqn:E; [|reflexivity]. now apply lookup_diag in E. Qed.

  Lemma diag_block c m : In ([c; c], m) bl ->
    lookup keq [c; c] bl = Some m /\ tshape m = [size_of G i1 c; size_of G i1 c] /\ tshape (V m) = [size_of G i1 c; size_of G i1 c].
  Proof.
    intros Hin. split; [exact (Tdot.lookup_nodup_In keq keq_spec _ m _ (mo_nd G R x i0 i1 Hxe) Hin)|].
    destruct (herm_diag G HG R x Hw Hn Hq Hh _ m Hin) as (c' & Hc & Hm & Hlen). inversion Hc; subst c'.
    split; [exact Hm|]. rewrite Hm in Hlen. now destruct (Hsh m _ Hm Hlen) as (_ & H2 & _).
  Qed.

  (* x . v_k = w_k v_k : column k of the dense eigenvector matrix is an eigenvector of the dense matrix *)
  Theorem eigenpairs_one (i k : coord G) :
    (forall s m, In (s, m) bl -> eigh_eigen R eigh_blk m) ->
    coords_ok G [i0] [i] = true -> coords_ok G [i1] [k] = true ->
    Sum (map (fun j => rmul R (sem G R x [i; j]) (sem G R v [j; k])) (index_coords G i1))
    = rmul R (vsem G R w k) (sem G R v [i; k]).
  Proof.
    intros Heig Hi Hk. destruct i as [ci oi], k as [c o].
    apply (coords_ok_1 G) in Hi. apply (coords_ok_1 G) in Hk. cbn [fst snd] in Hi, Hk.
    assert (Hnd1 : NoDup (icharges G i1)) by exact (Tdot.wf_index_nodup G cltb_irrefl cltb_trans i1 (mo_wf1 G R x i0 i1 Hxe)).
    rewrite (rsum_one_charge G HG R RL i1 c) by
      (exact Hnd1 || (intros p Hp; rewrite (semv p (c, o)); cbn [fst snd]; fold bl; rewrite (lookup_offdiag _ _ Hp); apply (rmul_0_r R RL))).
    rewrite (semv (ci, oi) (c, o)). cbn [fst snd]. fold bl.
    destruct (lookup keq [c; c] bl) as [m|] eqn:El.
    - pose proof (Tdot.lookup_In keq keq_spec _ _ _ El) as Hin.
      destruct (diag_block c m Hin) as (_ & Hm & Hv).
      destruct (ceqb G ci c) eqn:Ec.
      + apply ceqb_spec in Ec. subst ci. rewrite El.
        rewrite (vsem_w G HG R eigh_blk x w v Hw Hn Hq Hh Hsh He c m o Hin).
        pose proof (Heig _ m Hin oi o) as H. rewrite Hm in H. cbn [nth] in H.
        rewrite <- H; [|unfold i1; rewrite (herm_size G R x c Hh); exact Hi | exact Hk].
        apply (Tdot.rsum_ext R). intros j _. rewrite (semv (c, j) (c, o)). cbn [fst snd]. fold bl. rewrite El.
        unfold sem. cbn [map fst snd]. fold bl. now rewrite El.
      + assert (Hno : lookup keq [ci; c] bl = None).
        { apply lookup_offdiag. intros H. rewrite H in Ec. rewrite (proj2 (ceqb_spec _ _) eq_refl) in Ec. discriminate. }
        rewrite Hno, (rmul_0_r R RL). apply (Tdot.rsum_zero R RL). intros j _.
        unfold sem at 1. cbn [map fst snd]. fold bl. rewrite Hno. apply (rmul_0_l R RL).
    - transitivity (r0 R).
      + apply (Tdot.rsum_zero R RL). intros j _. rewrite (semv (c, j) (c, o)). cbn [fst snd]. fold bl. rewrite El.
        apply (rmul_0_r R RL).
      + destruct (lookup keq [ci; c] bl) as [m'|] eqn:El'; [|now rewrite (rmul_0_r R RL)].
        pose proof (lookup_diag _ _ _ El') as E. subst ci. rewrite El in El'. discriminate.
  Qed.

  (* the stored columns of the dense eigenvector matrix are orthonormal *)
  Theorem eigvecs_gram_one (k k' : coord G) :
    (forall s m, In (s, m) bl -> orth_cols R (V m)) ->
    coords_ok G [i1] [k] = true -> coords_ok G [i1] [k'] = true ->
    In [fst k; fst k] (sectors G R x) -> In [fst k'; fst k'] (sectors G R x) ->
    Sum (map (fun i => rmul R (rconj R (sem G R v [i; k])) (sem G R v [i; k'])) (index_coords G i0))
    = if ceqb G (fst k) (fst k') && Nat.eqb (snd k) (snd k') then r1 R else r0 R.
  Proof.
    intros Horth Hk Hk' Hs Hs'. destruct k as [c o], k' as [c' o'].
    apply (coords_ok_1 G) in Hk. apply (coords_ok_1 G) in Hk'. cbn [fst snd] in *.
    unfold sectors in Hs, Hs'. apply in_map_iff in Hs. destruct Hs as [[s m] [Es Hin]].
    apply in_map_iff in Hs'. destruct Hs' as [[s' m'] [Es' Hin']]. cbn [fst] in Es, Es'. subst s s'.
    destruct (diag_block c m Hin) as (El & Hm & Hv). destruct (diag_block c' m' Hin') as (El' & _ & _).
    assert (Hnd0 : NoDup (icharges G i0)) by exact (Tdot.wf_index_nodup G cltb_irrefl cltb_trans i0 (mo_wf0 G R x i0 i1 Hxe)).
    rewrite (rsum_one_charge G HG R RL i0 c) by
      (exact Hnd0 || (intros p Hp; rewrite (semv p (c, o)); cbn [fst snd]; fold bl; rewrite (lookup_offdiag _ _ Hp);
                      rewrite (cr_conj_0 R CL); apply (rmul_0_l R RL))).
    destruct (ceqb G c c') eqn:Ec; cbn [andb].
    - apply ceqb_spec in Ec. subst c'. rewrite El in El'. injection El' as <-.
      pose proof (Horth _ m Hin o o') as H. rewrite Hv in H. cbn [nth] in H. rewrite <- (H Hk Hk').
      unfold i0. rewrite <- (herm_size G R x c Hh). fold i1.
      apply (Tdot.rsum_ext R). intros i _. rewrite (semv (c, i) (c, o)), (semv (c, i) (c, o')). cbn [fst snd]. fold bl.
      now rewrite El.
    - apply (Tdot.rsum_zero R RL). intros i _. rewrite (semv (c, i) (c', o')). cbn [fst snd]. fold bl.
      rewrite lookup_offdiag; [apply (rmul_0_r R RL)|].
      intros H. rewrite H in Ec. rewrite (proj2 (ceqb_spec _ _) eq_refl) in Ec. discriminate.
  Qed.

  (* as many eigenvalues as the second index has coordinates on the stored (diagonal) sectors *)
  Theorem eigen_count_one :
    vcount G R w = list_sum (map (fun s : sector => size_of G i1 (col s)) (sectors G R x)).
  Proof.
    destruct (eigh_structure G HG R eigh_blk x Hw Hn Hq (herm_square G HG R x Hw Hn Hq Hh) Hsh)
      as (w' & v' & He' & _ & _ & _ & _ & Ew & _ & Hsz & _).
    rewrite He in He'. injection He' as <- <-. rewrite Ew. unfold vcount, sectors. rewrite !map_map. f_equal.
    apply map_ext_in. intros [s m] Hin. cbn [fst snd]. now rewrite (Hsz s m Hin).
  Qed.
End EighDense.

(* ================================================================== *)
(* the statements restated in Props/C12b.v: in terms of what `a_svd` / `a_eigh` return *)
Theorem singular_triples_dense :
  forall (G : Symmetry) (HG : GroupLaws G) (R : Ring) (CL : CRingLaws R)
    (cltb_irrefl : forall c : C G, cltb G c c = false)
    (cltb_trans : forall a b c : C G, cltb G a b = true -> cltb G b c = true -> cltb G a c = true)
    (cltb_total : forall a b : C G, a <> b -> cltb G a b = true \/ cltb G b a = true)
    (svd_blk : tensor R -> tensor R * tensor R * tensor R) (Hshapes : svd_shapes R svd_blk)
    (x u : aarray G R) (s : bvec G R) (vh : aarray G R),
    wf_array G R x = true -> ndim G R x = 2 ->
    (forall sec m, In (sec, m) (blocks G R x) ->
       svd_product R svd_blk m /\ orth_cols R (fst (svd_uv R svd_blk m)) /\ orth_rows R (snd (svd_uv R svd_blk m))) ->
    a_svd G R svd_blk x = Some (u, s, vh) ->
    forall k, coords_ok G [ix1 G R u] [k] = true ->
      (forall i, coords_ok G [ix0 G R x] [i] = true ->
         rsum R (map (fun j => rmul R (sem G R x [i; j]) (rconj R (sem G R vh [k; j]))) (index_coords G (ix1 G R x)))
         = rmul R (vsem G R s k) (sem G R u [i; k])) /\
      (forall j, coords_ok G [ix1 G R x] [j] = true ->
         rsum R (map (fun i => rmul R (rconj R (sem G R u [i; k])) (sem G R x [i; j])) (index_coords G (ix0 G R x)))
         = rmul R (vsem G R s k) (sem G R vh [k; j])).
Proof.
  intros G HG R CL Hirr Htr Htot svd_blk Hshapes x u s vh Hw Hn Hc Hs k Hk.
  rewrite (a_svd_eq G HG R svd_blk x Hw Hn) in Hs. injection Hs as <- <- <-.
  assert (Hp : forall sec m, In (sec, m) (blocks G R x) -> svd_product R svd_blk m) by (intros sec m H; exact (proj1 (Hc sec m H))).
  assert (Ho : forall sec m, In (sec, m) (blocks G R x) -> orth_cols R (fst (svd_uv R svd_blk m)) /\ orth_rows R (snd (svd_uv R svd_blk m)))
    by (intros sec m H; exact (proj2 (Hc sec m H))).
  split.
  - intros i Hi. exact (right_singular_one G HG R CL Hirr Htr Htot svd_blk Hshapes x Hw Hn Hp Ho i k Hi Hk).
  - intros j Hj. exact (left_singular_one G HG R CL Hirr Htr Htot svd_blk Hshapes x Hw Hn Hp Ho k j Hk Hj).
Qed.

Theorem dense_factors_orthonormal :
  forall (G : Symmetry) (HG : GroupLaws G) (R : Ring) (CL : CRingLaws R)
    (cltb_irrefl : forall c : C G, cltb G c c = false)
    (cltb_trans : forall a b c : C G, cltb G a b = true -> cltb G b c = true -> cltb G a c = true)
    (cltb_total : forall a b : C G, a <> b -> cltb G a b = true \/ cltb G b a = true)
    (svd_blk : tensor R -> tensor R * tensor R * tensor R) (Hshapes : svd_shapes R svd_blk)
    (x u : aarray G R) (s : bvec G R) (vh : aarray G R),
    wf_array G R x = true -> ndim G R x = 2 ->
    (forall sec m, In (sec, m) (blocks G R x) ->
       orth_cols R (fst (svd_uv R svd_blk m)) /\ orth_rows R (snd (svd_uv R svd_blk m))) ->
    a_svd G R svd_blk x = Some (u, s, vh) ->
    forall k k', coords_ok G [ix1 G R u] [k] = true -> coords_ok G [ix1 G R u] [k'] = true ->
      rsum R (map (fun i => rmul R (rconj R (sem G R u [i; k])) (sem G R u [i; k'])) (index_coords G (ix0 G R x)))
      = (if ceqb G (fst k) (fst k') && Nat.eqb (snd k) (snd k') then r1 R else r0 R) /\
      rsum R (map (fun j => rmul R (sem G R vh [k; j]) (rconj R (sem G R vh [k'; j]))) (index_coords G (ix1 G R x)))
      = (if ceqb G (fst k) (fst k') && Nat.eqb (snd k) (snd k') then r1 R else r0 R).
Proof.
  intros G HG R CL Hirr Htr Htot svd_blk Hshapes x u s vh Hw Hn Ho Hs k k' Hk Hk'.
  rewrite (a_svd_eq G HG R svd_blk x Hw Hn) in Hs. injection Hs as <- <- <-. split.
  - exact (gram_U_one G HG R CL Hirr Htr Htot svd_blk Hshapes x Hw Hn Ho k k' Hk Hk').
  - exact (gram_Vh_one G HG R CL Hirr Htr Htot svd_blk Hshapes x Hw Hn Ho k k' Hk Hk').
Qed.

Theorem singular_count :
  forall (G : Symmetry) (HG : GroupLaws G) (R : Ring)
    (svd_blk : tensor R -> tensor R * tensor R * tensor R) (Hshapes : svd_shapes R svd_blk)
    (x u : aarray G R) (s : bvec G R) (vh : aarray G R),
    wf_array G R x = true -> ndim G R x = 2 ->
    a_svd G R svd_blk x = Some (u, s, vh) ->
    vcount G R s = length (index_coords G (ix1 G R u)) /\
    (svd_reduced R svd_blk ->
     vcount G R s = list_sum (map (fun sb : list (C G) * tensor R =>
                                     Nat.min (size_of G (ix0 G R x) (row_charge G (fst sb)))
                                             (size_of G (ix1 G R x) (col_charge G (fst sb)))) (blocks G R x))).
Proof.
  intros G HG R svd_blk Hshapes x u s vh Hw Hn Hs.
  rewrite (a_svd_eq G HG R svd_blk x Hw Hn) in Hs. injection Hs as <- <- <-. split.
  - exact (count_bond G HG R svd_blk Hshapes x Hw Hn).
  - exact (count_min G HG R svd_blk x Hw Hn).
Qed.

Theorem eigenpairs_dense :
  forall (G : Symmetry) (HG : GroupLaws G) (R : Ring) (CL : CRingLaws R)
    (cltb_irrefl : forall c : C G, cltb G c c = false)
    (cltb_trans : forall a b c : C G, cltb G a b = true -> cltb G b c = true -> cltb G a c = true)
    (eigh_blk : tensor R -> tensor R * tensor R) (x : aarray G R) (w : bvec G R) (v : aarray G R),
    wf_array G R x = true -> ndim G R x = 2 -> charge G R x = ident G -> herm_structured G R x ->
    eigh_shapes R eigh_blk ->
    (forall s m, In (s, m) (blocks G R x) -> eigh_eigen R eigh_blk m) ->
    a_eigh G R eigh_blk x = Some (w, v) ->
    forall i k, coords_ok G [ix0 G R x] [i] = true -> coords_ok G [ix1 G R x] [k] = true ->
      rsum R (map (fun j => rmul R (sem G R x [i; j]) (sem G R v [j; k])) (index_coords G (ix1 G R x)))
      = rmul R (vsem G R w k) (sem G R v [i; k]).
Proof.
  intros G HG R CL Hirr Htr eigh_blk x w v Hw Hn Hq Hh Hsh Heig He i k Hi Hk.
  exact (eigenpairs_one G HG R CL Hirr Htr eigh_blk x w v Hw Hn Hq Hh Hsh He i k Heig Hi Hk).
Qed.

(* the same from the contracts of C11b (v diag(w) v^H = m) plus orthonormal columns of every v block *)
Theorem eigenpairs_dense_from_product :
  forall (G : Symmetry) (HG : GroupLaws G) (R : Ring) (CL : CRingLaws R)
    (cltb_irrefl : forall c : C G, cltb G c c = false)
    (cltb_trans : forall a b c : C G, cltb G a b = true -> cltb G b c = true -> cltb G a c = true)
    (eigh_blk : tensor R -> tensor R * tensor R) (x : aarray G R) (w : bvec G R) (v : aarray G R),
    wf_array G R x = true -> ndim G R x = 2 -> charge G R x = ident G -> herm_structured G R x ->
    eigh_shapes R eigh_blk ->
    (forall s m, In (s, m) (blocks G R x) -> eigh_product R eigh_blk m /\ orth_cols R (snd (eigh_blk m))) ->
    a_eigh G R eigh_blk x = Some (w, v) ->
    forall i k, coords_ok G [ix0 G R x] [i] = true -> coords_ok G [ix1 G R x] [k] = true ->
      rsum R (map (fun j => rmul R (sem G R x [i; j]) (sem G R v [j; k])) (index_coords G (ix1 G R x)))
      = rmul R (vsem G R w k) (sem G R v [i; k]).
Proof.
  intros G HG R CL Hirr Htr eigh_blk x w v Hw Hn Hq Hh Hsh Hc He.
  apply (eigenpairs_dense G HG R CL Hirr Htr eigh_blk x w v Hw Hn Hq Hh Hsh); [|exact He].
  intros s m Hin. destruct (herm_diag G HG R x Hw Hn Hq Hh s m Hin) as (c & _ & Hm & Hlen). rewrite Hm in Hlen.
  destruct (Hsh m _ Hm Hlen) as (_ & Hv & _). destruct (Hc s m Hin) as [Hp Ho].
  exact (eigen_of_product R CL eigh_blk m _ Hm Hv Hp Ho).
Qed.

Theorem eigvecs_orthonormal :
  forall (G : Symmetry) (HG : GroupLaws G) (R : Ring) (CL : CRingLaws R)
    (cltb_irrefl : forall c : C G, cltb G c c = false)
    (cltb_trans : forall a b c : C G, cltb G a b = true -> cltb G b c = true -> cltb G a c = true)
    (eigh_blk : tensor R -> tensor R * tensor R) (x : aarray G R) (w : bvec G R) (v : aarray G R),
    wf_array G R x = true -> ndim G R x = 2 -> charge G R x = ident G -> herm_structured G R x ->
    eigh_shapes R eigh_blk ->
    (forall s m, In (s, m) (blocks G R x) -> orth_cols R (snd (eigh_blk m))) ->
    a_eigh G R eigh_blk x = Some (w, v) ->
    forall k k', coords_ok G [ix1 G R x] [k] = true -> coords_ok G [ix1 G R x] [k'] = true ->
      In [fst k; fst k] (sectors G R x) -> In [fst k'; fst k'] (sectors G R x) ->
      rsum R (map (fun i => rmul R (rconj R (sem G R v [i; k])) (sem G R v [i; k'])) (index_coords G (ix0 G R x)))
      = if ceqb G (fst k) (fst k') && Nat.eqb (snd k) (snd k') then r1 R else r0 R.
Proof.
  intros G HG R CL Hirr Htr eigh_blk x w v Hw Hn Hq Hh Hsh Ho He k k' Hk Hk' Hs Hs'.
  exact (eigvecs_gram_one G HG R CL Hirr Htr eigh_blk x w v Hw Hn Hq Hh Hsh He k k' Ho Hk Hk' Hs Hs').
Qed.

Theorem eigen_count :
  forall (G : Symmetry) (HG : GroupLaws G) (R : Ring) (eigh_blk : tensor R -> tensor R * tensor R)
    (x : aarray G R) (w : bvec G R) (v : aarray G R),
    wf_array G R x = true -> ndim G R x = 2 -> charge G R x = ident G -> herm_structured G R x ->
    eigh_shapes R eigh_blk ->
    a_eigh G R eigh_blk x = Some (w, v) ->
    vcount G R w = list_sum (map (fun s : list (C G) => size_of G (ix1 G R x) (col_charge G s)) (sectors G R x)).
Proof. exact eigen_count_one. Qed.

(* ================================================================== *)
(* part 4: what is still NOT formalised for C12.  The theorems above say: whatever per-block
   routine is plugged in (subject to its contract), every returned value is a singular value /
   an eigenvalue of the dense matrix — with an explicit dense singular / eigen vector, the
   vectors being orthonormal — and there are (sum over stored blocks of min(rows, columns)) /
   (size of the second index on the stored sectors) of them.  That such a family of values is
   determined BY THE MATRIX, as a multiset, is a theorem of linear algebra over the real /
   complex field (uniqueness of the singular values / of the roots of the characteristic
   polynomial); the coefficient ring here is an arbitrary commutative ring with conjugation,
   over which it does not hold in general.  `C12_full2 R` states it for a given ring R as
   independence of the returned multiset from the per-block routine.  "s is a non-negative
   real" is expressed algebraically as s = conj(t) t, which over R and C means exactly s >= 0
   (without it the phases of the singular values are not determined). *)
Section Full2.
  Context (G : Symmetry) (R : Ring).
  Definition nonneg_value (s : RT R) : Prop := exists t, s = rmul R (rconj R t) t.
  Definition all_values (s : bvec G R) : list (RT R) := flat_map (fun cs => tdata (snd cs)) s.
  Definition svd_contract_on (svd_blk : tensor R -> tensor R * tensor R * tensor R) (x : aarray G R) : Prop :=
    svd_shapes R svd_blk /\
    forall sec m, In (sec, m) (blocks G R x) ->
      svd_product R svd_blk m /\ orth_cols R (fst (svd_uv R svd_blk m)) /\ orth_rows R (snd (svd_uv R svd_blk m)) /\
      length (tdata (svd_s R svd_blk m)) = nth 0 (tshape (svd_s R svd_blk m)) 0 /\
      forall s, In s (tdata (svd_s R svd_blk m)) -> nonneg_value s.
  Definition eigh_contract_on (eigh_blk : tensor R -> tensor R * tensor R) (x : aarray G R) : Prop :=
    eigh_shapes R eigh_blk /\
    forall sec m, In (sec, m) (blocks G R x) ->
      eigh_product R eigh_blk m /\ orth_cols R (snd (eigh_blk m)) /\
      length (tdata (fst (eigh_blk m))) = nth 0 (tshape (fst (eigh_blk m))) 0.
End Full2.

Definition C12_full2 (R : Ring) : Prop :=
  (forall (G : Symmetry) (svd1 svd2 : tensor R -> tensor R * tensor R * tensor R) (x : aarray G R),
     GroupLaws G -> wf_array G R x = true -> ndim G R x = 2 ->
     svd_contract_on G R svd1 x -> svd_contract_on G R svd2 x ->
     Permutation (nonzero_values R G (svd_store G R svd1 (blocks G R x)))
                 (nonzero_values R G (svd_store G R svd2 (blocks G R x)))) /\
  (forall (G : Symmetry) (eigh1 eigh2 : tensor R -> tensor R * tensor R) (x : aarray G R),
     GroupLaws G -> wf_array G R x = true -> ndim G R x = 2 -> charge G R x = ident G -> herm_structured G R x ->
     eigh_contract_on G R eigh1 x -> eigh_contract_on G R eigh2 x ->
     Permutation (all_values G R (eigh_store G R eigh1 (blocks G R x)))
                 (all_values G R (eigh_store G R eigh2 (blocks G R x)))).

(* ================================================================== *)
(* part 5: examples.  Gaussian integers, Z2.  The unitary matrices over Z[i] are the monomial
   ones (a permutation times units), so the exact per-block routines below return such factors:
     svd :  [[2i, 0], [0, -3i]] = [[0, i], [1, 0]] . diag(3, 2) . [[0, -i], [1, 0]]   (2 x 2, sector (0,1))
            [0, 0, 5i]          = [[i]] . diag(5) . [[0, 0, 1]]                        (1 x 3, sector (1,0))
     eigh:  diag(-3, 2) = v diag(2, -3) v^H  with v = [[0, i], [1, 0]]  (sector (1,1)),  [5] = [i] 5 [-i]  (sector (0,0)) *)
Module SpectrumEx.
  Import EighEx.
  Local Open Scope Z_scope.

  Definition M22 : tensor GRing := @mkT GRing [2; 2]%nat [gi 0 2; gi 0 0; gi 0 0; gi 0 (-3)].
  Definition U22 : tensor GRing := @mkT GRing [2; 2]%nat [gi 0 0; gi 0 1; gi 1 0; gi 0 0].
  Definition S22 : tensor GRing := @mkT GRing [2]%nat [gi 3 0; gi 2 0].
  Definition Vh22 : tensor GRing := @mkT GRing [2; 2]%nat [gi 0 0; gi 0 (-1); gi 1 0; gi 0 0].
  Definition M13 : tensor GRing := @mkT GRing [1; 3]%nat [gi 0 0; gi 0 0; gi 0 5].
  Definition U13 : tensor GRing := @mkT GRing [1; 1]%nat [gi 0 1].
  Definition S13 : tensor GRing := @mkT GRing [1]%nat [gi 5 0].
  Definition Vh13 : tensor GRing := @mkT GRing [1; 3]%nat [gi 0 0; gi 0 0; gi 1 0].
  Definition svd_gex (m : tensor GRing) : tensor GRing * tensor GRing * tensor GRing :=
    if tensor_eqb GRing m M22 then (U22, S22, Vh22)
    else if tensor_eqb GRing m M13 then (U13, S13, Vh13)
    else svd_stub GRing m.

  Definition xs : aarray Z2 GRing :=
    mkA Z2 GRing [Index Z2 [(0, 2%nat); (1, 1%nat)] false None; Index Z2 [(0, 3%nat); (1, 2%nat)] true None] 1
      [([0; 1], M22); ([1; 0], M13)].

  Lemma tensor_eqb_shape (m t : tensor GRing) : tensor_eqb GRing m t = true -> tshape m = tshape t.
  Proof.
    unfold tensor_eqb. intros E. apply andb_true_iff in E. destruct E as [E _].
    now apply (Tdot.list_eqb_spec Nat.eqb Nat.eqb_eq) in E.
  Qed.

  Example svd_gex_shapes : svd_shapes GRing svd_gex.
  Proof.
    intros m a b Hm Ha Hb Hl. unfold svd_uv, svd_s, svd_gex.
    destruct (tensor_eqb GRing m M22) eqn:E2; [|destruct (tensor_eqb GRing m M13) eqn:E1].
    - apply tensor_eqb_shape in E2. rewrite Hm in E2. inversion E2; subst. exists 2%nat. repeat split. lia.
    - apply tensor_eqb_shape in E1. rewrite Hm in E1. inversion E1; subst. exists 1%nat. repeat split. lia.
    - exists (Nat.min a b). unfold svd_stub, sh0, sh1. rewrite Hm. cbn [nth fst snd].
      repeat split; try apply build_len. lia.
  Qed.

  Example svd_gex_reduced : svd_reduced GRing svd_gex.
  Proof.
    intros m a b Hm. unfold svd_s, svd_gex.
    destruct (tensor_eqb GRing m M22) eqn:E2; [|destruct (tensor_eqb GRing m M13) eqn:E1].
    - apply tensor_eqb_shape in E2. rewrite Hm in E2. inversion E2; subst. reflexivity.
    - apply tensor_eqb_shape in E1. rewrite Hm in E1. inversion E1; subst. reflexivity.
    - unfold svd_stub, sh0, sh1. now rewrite Hm.
  Qed.

  Example xs_hyps : wf_array Z2 GRing xs = true /\ ndim Z2 GRing xs = 2%nat.
  Proof. vm_compute. split; reflexivity. Qed.

  (* the full per-block contract holds on the blocks of xs *)
  Example xs_contracts : forall sec m, In (sec, m) (blocks Z2 GRing xs) ->
    svd_product GRing svd_gex m /\ orth_cols GRing (fst (svd_uv GRing svd_gex m)) /\ orth_rows GRing (snd (svd_uv GRing svd_gex m)).
  Proof.
    intros sec m [H|[H|[]]]; inversion H; subst; (split; [|split]); intros i j Hi Hj; vm_compute in Hi, Hj;
      repeat (destruct i as [|i]; try lia); repeat (destruct j as [|j]; try lia); vm_compute; reflexivity.
  Qed.

  (* what svd returns: three values, 3 and 2 on the bond charge 1, 5 on the bond charge 0 *)
  Example svd_of_xs :
    match a_svd Z2 GRing svd_gex xs with
    | Some (u, s, vh) =>
        s = [(1, S22); (0, S13)] /\ vcount Z2 GRing s = 3%nat /\
        index_coords Z2 (ix1 Z2 GRing u) = [(0, 0%nat); (1, 0%nat); (1, 1%nat)] /\
        (* the triple of the bond coordinate (1, 0): value 3, u = e_{(0,1)}, vh = -i e_{(1,1)};
           x . vh^H at row (0,1):  x[(0,1),(1,1)] . conj(-i) = -3i . i = 3 = 3 . u[(0,1)] *)
        vsem Z2 GRing s (1, 0%nat) = gi 3 0 /\ sem Z2 GRing u [(0, 1%nat); (1, 0%nat)] = gi 1 0 /\
        sem Z2 GRing vh [(1, 0%nat); (1, 1%nat)] = gi 0 (-1) /\ sem Z2 GRing xs [(0, 1%nat); (1, 1%nat)] = gi 0 (-3)
    | None => False
    end.
  Proof. vm_compute. repeat split; reflexivity. Qed.

  Example svd_triples_instance :
    exists u s vh, a_svd Z2 GRing svd_gex xs = Some (u, s, vh) /\
      vcount Z2 GRing s = 3%nat /\
      forall k, coords_ok Z2 [ix1 Z2 GRing u] [k] = true ->
        (forall i, coords_ok Z2 [ix0 Z2 GRing xs] [i] = true ->
           rsum GRing (map (fun j => rmul GRing (sem Z2 GRing xs [i; j]) (rconj GRing (sem Z2 GRing vh [k; j])))
                           (index_coords Z2 (ix1 Z2 GRing xs)))
           = rmul GRing (vsem Z2 GRing s k) (sem Z2 GRing u [i; k])) /\
        (forall j, coords_ok Z2 [ix1 Z2 GRing xs] [j] = true ->
           rsum GRing (map (fun i => rmul GRing (rconj GRing (sem Z2 GRing u [i; k])) (sem Z2 GRing xs [i; j]))
                           (index_coords Z2 (ix0 Z2 GRing xs)))
           = rmul GRing (vsem Z2 GRing s k) (sem Z2 GRing vh [k; j])).
  Proof.
    destruct xs_hyps as [Hw Hn].
    destruct (svd_structure Z2 Z2_laws GRing (builtin_cltb_trans Z2 bs_Z2) (builtin_cltb_total Z2 bs_Z2) svd_gex svd_gex_shapes xs Hw Hn)
      as (u & s & vh & E & _).
    exists u, s, vh. split; [exact E|]. split.
    - destruct (singular_count Z2 Z2_laws GRing svd_gex svd_gex_shapes xs u s vh Hw Hn E) as [_ Hc].
      rewrite (Hc svd_gex_reduced). reflexivity.
    - exact (singular_triples_dense Z2 Z2_laws GRing GRing_cring (builtin_cltb_irrefl Z2 bs_Z2) (builtin_cltb_trans Z2 bs_Z2)
               (builtin_cltb_total Z2 bs_Z2) svd_gex svd_gex_shapes xs u s vh Hw Hn xs_contracts E).
  Qed.

  Example svd_orthonormal_instance :
    exists u s vh, a_svd Z2 GRing svd_gex xs = Some (u, s, vh) /\
      forall k k', coords_ok Z2 [ix1 Z2 GRing u] [k] = true -> coords_ok Z2 [ix1 Z2 GRing u] [k'] = true ->
        rsum GRing (map (fun i => rmul GRing (rconj GRing (sem Z2 GRing u [i; k])) (sem Z2 GRing u [i; k']))
                        (index_coords Z2 (ix0 Z2 GRing xs)))
        = (if ceqb Z2 (fst k) (fst k') && Nat.eqb (snd k) (snd k') then r1 GRing else r0 GRing) /\
        rsum GRing (map (fun j => rmul GRing (sem Z2 GRing vh [k; j]) (rconj GRing (sem Z2 GRing vh [k'; j])))
                        (index_coords Z2 (ix1 Z2 GRing xs)))
        = (if ceqb Z2 (fst k) (fst k') && Nat.eqb (snd k) (snd k') then r1 GRing else r0 GRing).
  Proof.
    destruct xs_hyps as [Hw Hn].
    destruct (svd_structure Z2 Z2_laws GRing (builtin_cltb_trans Z2 bs_Z2) (builtin_cltb_total Z2 bs_Z2) svd_gex svd_gex_shapes xs Hw Hn)
      as (u & s & vh & E & _).
    exists u, s, vh. split; [exact E|].
    exact (dense_factors_orthonormal Z2 Z2_laws GRing GRing_cring (builtin_cltb_irrefl Z2 bs_Z2) (builtin_cltb_trans Z2 bs_Z2)
             (builtin_cltb_total Z2 bs_Z2) svd_gex svd_gex_shapes xs u s vh Hw Hn
             (fun sec m H => proj2 (xs_contracts sec m H)) E).
  Qed.

  (* ---- eigh ---- *)
  Definition N2 : tensor GRing := @mkT GRing [2; 2]%nat [gi (-3) 0; gi 0 0; gi 0 0; gi 2 0].
  Definition VN2 : tensor GRing := @mkT GRing [2; 2]%nat [gi 0 0; gi 0 1; gi 1 0; gi 0 0].
  Definition WN2 : tensor GRing := @mkT GRing [2]%nat [gi 2 0; gi (-3) 0].
  Definition N1 : tensor GRing := @mkT GRing [1; 1]%nat [gi 5 0].
  Definition VN1 : tensor GRing := @mkT GRing [1; 1]%nat [gi 0 1].
  Definition WN1 : tensor GRing := @mkT GRing [1]%nat [gi 5 0].
  Definition eigh_gex (m : tensor GRing) : tensor GRing * tensor GRing :=
    if tensor_eqb GRing m N2 then (WN2, VN2)
    else if tensor_eqb GRing m N1 then (WN1, VN1)
    else (tzeros GRing [sh1 GRing m], eye (sh1 GRing m)).
  Definition xe : aarray Z2 GRing := mkA Z2 GRing [ix false; ix true] 0 [([0; 0], N1); ([1; 1], N2)].

  Example eigh_gex_shapes : eigh_shapes GRing eigh_gex.
  Proof.
    intros m n Hm Hl. unfold eigh_gex.
    destruct (tensor_eqb GRing m N2) eqn:E2; [|destruct (tensor_eqb GRing m N1) eqn:E1].
    - apply tensor_eqb_shape in E2. rewrite Hm in E2. inversion E2; subst. repeat split.
    - apply tensor_eqb_shape in E1. rewrite Hm in E1. inversion E1; subst. repeat split.
    - unfold sh1. rewrite Hm. cbn [nth fst snd]. unfold eye, tzeros. repeat split. apply build_len.
  Qed.

  Example xe_hyps : wf_array Z2 GRing xe = true /\ ndim Z2 GRing xe = 2%nat /\
    charge Z2 GRing xe = ident Z2 /\ herm_structured Z2 GRing xe.
  Proof. vm_compute. repeat split; reflexivity. Qed.

  (* on the blocks of xe: the eigen-pair contract, and also the product + orthonormality contracts *)
  Example xe_contracts : forall s m, In (s, m) (blocks Z2 GRing xe) ->
    eigh_eigen GRing eigh_gex m /\ eigh_product GRing eigh_gex m /\ orth_cols GRing (snd (eigh_gex m)).
  Proof.
    intros s m [H|[H|[]]]; inversion H; subst; (split; [|split]); intros i j Hi Hj; vm_compute in Hi, Hj;
      repeat (destruct i as [|i]; try lia); repeat (destruct j as [|j]; try lia); vm_compute; reflexivity.
  Qed.

  (* what eigh returns: 5 on charge 0; 2, -3 on charge 1; column (1,0) of v is e_{(1,1)} with
     x[(1,1),(1,1)] = 2 = w[(1,0)] *)
  Example eigh_of_xe :
    match a_eigh Z2 GRing eigh_gex xe with
    | Some (w, v) =>
        w = [(0, WN1); (1, WN2)] /\ vcount Z2 GRing w = 3%nat /\
        vsem Z2 GRing w (1, 0%nat) = gi 2 0 /\ sem Z2 GRing v [(1, 1%nat); (1, 0%nat)] = gi 1 0 /\
        sem Z2 GRing v [(1, 0%nat); (1, 0%nat)] = gi 0 0 /\ sem Z2 GRing xe [(1, 1%nat); (1, 1%nat)] = gi 2 0
    | None => False
    end.
  Proof. vm_compute. repeat split; reflexivity. Qed.

  Example eigenpairs_instance :
    exists w v, a_eigh Z2 GRing eigh_gex xe = Some (w, v) /\ vcount Z2 GRing w = 3%nat /\
      (forall i k, coords_ok Z2 [ix false] [i] = true -> coords_ok Z2 [ix true] [k] = true ->
         rsum GRing (map (fun j => rmul GRing (sem Z2 GRing xe [i; j]) (sem Z2 GRing v [j; k])) (index_coords Z2 (ix true)))
         = rmul GRing (vsem Z2 GRing w k) (sem Z2 GRing v [i; k])) /\
      (forall k k', coords_ok Z2 [ix true] [k] = true -> coords_ok Z2 [ix true] [k'] = true ->
         In [fst k; fst k] (sectors Z2 GRing xe) -> In [fst k'; fst k'] (sectors Z2 GRing xe) ->
         rsum GRing (map (fun i => rmul GRing (rconj GRing (sem Z2 GRing v [i; k])) (sem Z2 GRing v [i; k'])) (index_coords Z2 (ix false)))
         = if ceqb Z2 (fst k) (fst k') && Nat.eqb (snd k) (snd k') then r1 GRing else r0 GRing).
  Proof.
    destruct xe_hyps as (Hw & Hn & Hq & Hh).
    destruct (eigh_structure Z2 Z2_laws GRing eigh_gex xe Hw Hn Hq (herm_square Z2 Z2_laws GRing xe Hw Hn Hq Hh) eigh_gex_shapes)
      as (w & v & E & _).
    exists w, v. split; [exact E|]. split; [|split].
    - rewrite (eigen_count Z2 Z2_laws GRing eigh_gex xe w v Hw Hn Hq Hh eigh_gex_shapes E). reflexivity.
    - exact (eigenpairs_dense Z2 Z2_laws GRing GRing_cring (builtin_cltb_irrefl Z2 bs_Z2) (builtin_cltb_trans Z2 bs_Z2)
               eigh_gex xe w v Hw Hn Hq Hh eigh_gex_shapes (fun s m H => proj1 (xe_contracts s m H)) E).
    - exact (eigvecs_orthonormal Z2 Z2_laws GRing GRing_cring (builtin_cltb_irrefl Z2 bs_Z2) (builtin_cltb_trans Z2 bs_Z2)
               eigh_gex xe w v Hw Hn Hq Hh eigh_gex_shapes (fun s m H => proj2 (proj2 (xe_contracts s m H))) E).
  Qed.

  (* the derived form: from the product + orthonormality contracts *)
  Example eigenpairs_from_product_instance :
    exists w v, a_eigh Z2 GRing eigh_gex xe = Some (w, v) /\
      forall i k, coords_ok Z2 [ix false] [i] = true -> coords_ok Z2 [ix true] [k] = true ->
         rsum GRing (map (fun j => rmul GRing (sem Z2 GRing xe [i; j]) (sem Z2 GRing v [j; k])) (index_coords Z2 (ix true)))
         = rmul GRing (vsem Z2 GRing w k) (sem Z2 GRing v [i; k]).
  Proof.
    destruct xe_hyps as (Hw & Hn & Hq & Hh).
    destruct (eigh_structure Z2 Z2_laws GRing eigh_gex xe Hw Hn Hq (herm_square Z2 Z2_laws GRing xe Hw Hn Hq Hh) eigh_gex_shapes)
      as (w & v & E & _).
    exists w, v. split; [exact E|].
    exact (eigenpairs_dense_from_product Z2 Z2_laws GRing GRing_cring (builtin_cltb_irrefl Z2 bs_Z2) (builtin_cltb_trans Z2 bs_Z2)
             eigh_gex xe w v Hw Hn Hq Hh eigh_gex_shapes (fun s m H => proj2 (xe_contracts s m H)) E).
  Qed.
End SpectrumEx.
